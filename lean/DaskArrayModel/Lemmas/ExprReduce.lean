/-
`Expr.reduce`: the per-element tree reduction over the blocks of the reduced axis equals the
flat NumPy reduction along the axis.  1-d part from Lemmas/Reduce.lean (C18: `treeReduce_hom`,
`treeReduce_eq_fold`, `depthOf_spec`); the n-d part is index bookkeeping with `List.set`.
-/
import DaskArrayModel.Lemmas.ExprMeta
import DaskArrayModel.Lemmas.Reduce
namespace Dask.ND
open Dask.Py Dask.Reduce Dask.Lemmas.Reduce

/-! ### 1-d facts -/

theorem Red.op_assoc (r : Red) : ∀ a b c : Int, r.op (r.op a b) c = r.op a (r.op b c) := by
  cases r
  · exact Int.add_assoc
  · exact Int.max_assoc
  · exact Int.min_assoc

/-- the positions of an axis, block by block -/
theorem range_blocks : ∀ (cs : List Nat) (F : Nat → Int),
    (List.range cs.sum).map F
      = ((List.range cs.length).map (fun j =>
          (List.range (cs.getD j 0)).map (fun t => F ((cs.take j).sum + t)))).flatten
  | [], F => by simp
  | c :: rest, F => by
    have ih := range_blocks rest (fun u => F (c + u))
    rw [List.sum_cons, List.range_add, List.map_append, List.map_map, List.length_cons,
      List.range_succ_eq_map, List.map_cons, List.flatten_cons, List.map_map]
    congr 1
    · simp
    · have h1 : (F ∘ fun x => c + x) = fun u => F (c + u) := rfl
      rw [h1, ih]
      congr 1
      apply List.map_congr_left
      intro j _
      simp only [Function.comp, Nat.succ_eq_add_one, List.getD_cons_succ, List.take_succ_cons,
        List.sum_cons]
      apply List.map_congr_left
      intro t _
      congr 1
      omega

theorem fold1_add_cons (x : Int) (r : List Int) :
    fold1 (· + ·) (0 : Int) (x :: r) = x + fold1 (· + ·) 0 r := by
  cases r with
  | nil => simp [fold1]
  | cons y r => rfl

theorem fold1_add_append : ∀ (a b : List Int),
    fold1 (· + ·) (0 : Int) (a ++ b) = fold1 (· + ·) 0 a + fold1 (· + ·) 0 b
  | [], b => by simp [fold1]
  | x :: a, b => by
    rw [List.cons_append, fold1_add_cons, fold1_add_cons, fold1_add_append a b]; omega

theorem fold1_add_flatten : ∀ (ps : List (List Int)),
    fold1 (· + ·) (0 : Int) (ps.map (fold1 (· + ·) 0)) = fold1 (· + ·) 0 ps.flatten
  | [] => rfl
  | p :: ps => by
    rw [List.map_cons, fold1_add_cons, List.flatten_cons, fold1_add_append, fold1_add_flatten ps]

/-- the tree over the per-block partials is the flat reduction -/
theorem tree_blocks (r : Red) (k : Nat) (hk : 2 ≤ k) (ps : List (List Int)) (hps : ps ≠ [])
    (hne : r = .sum ∨ ∀ p ∈ ps, p ≠ []) :
    (treeReduce k (depthOf ps.length k) r.list r.list (ps.map r.list)).headD r.d
      = r.list ps.flatten := by
  have hl : (ps.map r.list).length ≤ k ^ depthOf ps.length k := by
    rw [List.length_map]; exact depthOf_spec hk
  rcases hne with hs | hne
  · subst hs
    have h := treeReduce_eq_fold Red.sum.op Red.sum.op_assoc Red.sum.d id (k := k)
      (depth := depthOf ps.length k) (by omega) (depthOf_pos _ _) (bs := ps.map Red.sum.list)
      (by simpa using hps) hl
    have h' : treeReduce k (depthOf ps.length k) Red.sum.list Red.sum.list (ps.map Red.sum.list)
        = [fold1 Red.sum.op Red.sum.d (ps.map Red.sum.list)] := h
    rw [h']
    exact fold1_add_flatten ps
  · have h := treeReduce_hom r.op r.d (fold1 r.op r.d) (fold1_isHom r.op r.op_assoc r.d) id (k := k)
      (depth := depthOf ps.length k) (by omega) (depthOf_pos _ _) hps hne
      (by rw [List.length_map] at hl; exact hl)
    have h' : treeReduce k (depthOf ps.length k) r.list r.list (ps.map r.list)
        = [r.list ps.flatten] := h
    rw [h']
    rfl

/-- … stated on the blocks of an axis with chunks `cs` -/
theorem tree_axis (r : Red) (k : Nat) (hk : 2 ≤ k) (cs : List Nat) (hcs : cs ≠ [])
    (hpos : r = .sum ∨ ∀ c ∈ cs, 0 < c) (F : Nat → Int) :
    (treeReduce k (depthOf cs.length k) r.list r.list
        ((List.range cs.length).map (fun j =>
          r.list ((List.range (cs.getD j 0)).map (fun t => F ((cs.take j).sum + t)))))).headD r.d
      = r.list ((List.range cs.sum).map F) := by
  have hps : ∀ ps : List (List Int),
      ps = (List.range cs.length).map (fun j =>
        (List.range (cs.getD j 0)).map (fun t => F ((cs.take j).sum + t))) →
      (treeReduce k (depthOf cs.length k) r.list r.list
        ((List.range cs.length).map (fun j =>
          r.list ((List.range (cs.getD j 0)).map (fun t => F ((cs.take j).sum + t)))))).headD r.d
      = r.list ((List.range cs.sum).map F) := by
    intro ps hdef
    have hlen : ps.length = cs.length := by rw [hdef]; simp
    have hmap : (List.range cs.length).map (fun j =>
          r.list ((List.range (cs.getD j 0)).map (fun t => F ((cs.take j).sum + t))))
        = ps.map r.list := by rw [hdef, List.map_map]; rfl
    have hne : ps ≠ [] := by
      intro h0
      rw [h0, List.length_nil] at hlen
      exact hcs (List.eq_nil_of_length_eq_zero hlen.symm)
    have hparts : r = .sum ∨ ∀ p ∈ ps, p ≠ [] := by
      rcases hpos with h | h
      · exact Or.inl h
      · refine Or.inr ?_
        intro p hp
        rw [hdef] at hp
        simp only [List.mem_map, List.mem_range] at hp
        obtain ⟨j, hj, rfl⟩ := hp
        have hc := h (cs.getD j 0) (by rw [getD_eq_getElem _ _ _ hj]; exact List.getElem_mem hj)
        intro h0
        have h1 := congrArg List.length h0
        rw [List.length_map, List.length_range, List.length_nil] at h1
        omega
    have := tree_blocks r k hk ps hne hparts
    rw [hlen] at this
    rw [hmap, this, range_blocks cs F, hdef]
  exact hps _ rfl

/-! ### n-d bookkeeping -/

theorem validBid_set {cl : Layout} {bid : List Nat} {ax j : Nat} (hax : ax < cl.length)
    (hb : validBid (cl.set ax [1]) bid) (hj : j < (cl.getD ax []).length) :
    validBid cl (bid.set ax j) := by
  have hbl : bid.length = cl.length := by rw [hb.length_eq]; simp
  apply validBid.of_getD (by simpa using hbl)
  intro a ha
  by_cases hx : ax = a
  · subst hx
    rw [getD_set_eq _ _ _ _ (by omega)]; exact hj
  · rw [getD_set_ne _ _ _ _ _ hx]
    have := hb.getD_lt a (by simpa using ha)
    rwa [getD_set_ne _ _ _ _ _ hx] at this

theorem reduce_block (env : Env) (r : Red) (e : Expr) (ax k : Nat)
    (i1 : (chunks e).map List.sum = shape e) (i2 : NonEmptyAxes (chunks e))
    (hax : ax < (shape e).length) (hk : 2 ≤ k)
    (hpos : r = .sum ∨ ∀ c ∈ (chunks e).getD ax [], 0 < c)
    (ih : ∀ b, validBid (chunks e) b →
      Arr.Equiv (blockDen env e b) (restrict (den env e) (extent (chunks e) b)))
    (bid : List Nat) (hb : validBid ((chunks e).set ax [1]) bid) :
    Arr.Equiv (blockDen env (.reduce r e ax k) bid)
      (restrict (den env (.reduce r e ax k)) (extent ((chunks e).set ax [1]) bid)) := by
  have hcl : (chunks e).length = (shape e).length := length_of_map_sum i1
  have haxc : ax < (chunks e).length := by omega
  have hbl : bid.length = (chunks e).length := by rw [hb.length_eq]; simp
  have hnb : 0 < ((chunks e).getD ax []).length :=
    List.length_pos_iff.mpr (i2.getD ax haxc)
  have hb0 : bid.getD ax 0 = 0 := by
    have := hb.getD_lt ax (by simpa using haxc)
    rw [getD_set_eq _ _ _ _ haxc] at this
    simpa using this
  -- shape
  have hE0 := ih _ (validBid_set haxc hb hnb)
  have hshape : (blockShape (chunks e) (bid.set ax 0)).set ax 1
      = blockShape ((chunks e).set ax [1]) bid := by
    apply list_ext_getD
    · rw [List.length_set, blockShape_length (by simpa using hbl),
        blockShape_length (by simpa using hbl)]; simp
    · intro a ha
      rw [List.length_set, blockShape_length (by simpa using hbl)] at ha
      rw [blockShape_getD (by simpa using hbl) a (by simpa using ha)]
      by_cases hx : ax = a
      · subst hx
        rw [getD_set_eq _ _ _ _ (by rw [blockShape_length (by simpa using hbl)]; exact ha),
          getD_set_eq _ _ _ _ haxc, hb0]; rfl
      · rw [getD_set_ne _ _ _ _ _ hx, getD_set_ne _ _ _ _ _ hx,
          blockShape_getD (by simpa using hbl) a ha, getD_set_ne _ _ _ _ _ hx]
  refine ⟨?_, ?_⟩
  · simp only [blockDen, restrict, extent]
    rw [hE0.1]; exact hshape
  · intro i hi
    simp only [blockDen] at hi
    rw [hE0.1] at hi
    simp only [restrict, extent] at hi
    rw [hshape] at hi
    have hil : i.length = (chunks e).length := by
      rw [hi.length_eq, blockShape_length (by simpa using hbl)]; simp
    have hol : (origin ((chunks e).set ax [1]) bid).length = (chunks e).length := by
      rw [origin_length (by simpa using hbl)]; simp
    -- each partial is the reduction of one block's stretch of the global line
    have hpart : ∀ j, j < ((chunks e).getD ax []).length → ∀ t, t < ((chunks e).getD ax []).getD j 0 →
        (blockDen env e (bid.set ax j)).get (i.set ax t)
          = denGet env e ((vadd (origin ((chunks e).set ax [1]) bid) i).set ax
              ((((chunks e).getD ax []).take j).sum + t)) := by
      intro j hj t ht
      have hv := validBid_set haxc hb hj
      have hE := ih _ hv
      have hbjl : (bid.set ax j).length = (chunks e).length := by simpa using hbl
      have hin : InB (i.set ax t) (blockShape (chunks e) (bid.set ax j)) := by
        apply InB.of_getD
        · rw [List.length_set, blockShape_length hbjl]; exact hil
        · intro a ha
          rw [blockShape_length hbjl] at ha
          rw [blockShape_getD hbjl a ha]
          by_cases hx : ax = a
          · subst hx
            rw [getD_set_eq _ _ _ _ (by omega), getD_set_eq _ _ _ _ (by omega)]; exact ht
          · rw [getD_set_ne _ _ _ _ _ hx, getD_set_ne _ _ _ _ _ hx]
            have := hi.getD_lt a (by rw [blockShape_length (by simpa using hbl)]; simpa using ha)
            rwa [blockShape_getD (by simpa using hbl) a (by simpa using ha),
              getD_set_ne _ _ _ _ _ hx] at this
      have hsh : (blockDen env e (bid.set ax j)).shape = blockShape (chunks e) (bid.set ax j) := hE.1
      rw [hE.2 _ (hsh ▸ hin)]
      simp only [restrict, extent, den]
      congr 1
      apply list_ext_getD
      · rw [vadd_length (by rw [origin_length hbjl, List.length_set, hil]), origin_length hbjl,
          List.length_set, vadd_length (by rw [hol, hil]), hol]
      · intro a ha
        rw [vadd_length (by rw [origin_length hbjl, List.length_set, hil]), origin_length hbjl] at ha
        rw [vadd_getD a (by rw [origin_length hbjl]; exact ha) (by rw [List.length_set, hil]; exact ha),
          origin_getD hbjl a ha]
        by_cases hx : ax = a
        · subst hx
          rw [getD_set_eq _ _ _ _ (by omega), getD_set_eq _ _ _ _ (by omega),
            getD_set_eq _ _ _ _ (by rw [vadd_length (by rw [hol, hil]), hol]; exact ha)]
        · rw [getD_set_ne _ _ _ _ _ hx, getD_set_ne _ _ _ _ _ hx, getD_set_ne _ _ _ _ _ hx,
            vadd_getD a (by rw [hol]; exact ha) (by rw [hil]; exact ha),
            origin_getD (by simpa using hbl) a (by simpa using ha), getD_set_ne _ _ _ _ _ hx]
    -- assemble
    simp only [blockDen, restrict, extent, den, denGet]
    have hn : (shape e).getD ax 0 = ((chunks e).getD ax []).sum := (sum_getD_of_map_sum i1 ax).symm
    rw [hn]
    have hparts : (List.range ((chunks e).getD ax []).length).map (fun j =>
          r.list ((List.range (((chunks e).getD ax []).getD j 0)).map (fun t =>
            (blockDen env e (bid.set ax j)).get (i.set ax t))))
        = (List.range ((chunks e).getD ax []).length).map (fun j =>
          r.list ((List.range (((chunks e).getD ax []).getD j 0)).map (fun t =>
            (fun u => denGet env e ((vadd (origin ((chunks e).set ax [1]) bid) i).set ax u))
              ((((chunks e).getD ax []).take j).sum + t)))) := by
      apply List.map_congr_left
      intro j hj
      congr 1
      apply List.map_congr_left
      intro t ht
      exact hpart j (List.mem_range.mp hj) t (List.mem_range.mp ht)
    rw [hparts]
    exact tree_axis r k hk ((chunks e).getD ax []) (i2.getD ax haxc) hpos
      (fun u => denGet env e ((vadd (origin ((chunks e).set ax [1]) bid) i).set ax u))

end Dask.ND
