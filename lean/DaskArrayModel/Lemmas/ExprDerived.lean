/-
Phase 3, derived forms (Model/ExprDerived.lean): each derived form is well-formed under the obvious
conditions (`wf_*`) and denotes its NumPy-style spec (`den_*`).  With phase 1 (`blockDen_correct`,
`compute_eq_den`, proved for EVERY well-formed `Expr`) this gives, for each of them, that the blocks
the tasks compute assemble to the spec (Props/C01Derived.lean).
-/
import DaskArrayModel.Lemmas.RulesSound
import DaskArrayModel.Model.ExprDerived
namespace Dask.ND
open Dask.Py Dask.Py.PySlice Dask.Slicing Dask.Lemmas.SliceAlgebra

theorem replicate_colon_map (n : Nat) : (List.replicate n colon).map Ix.slc = List.replicate n colonIx := by
  simp [colonIx_eq]
theorem axisSlices_length (rank ax : Nat) (s : PySlice) : (axisSlices rank ax s).length = rank := by
  simp [axisSlices]
theorem axisSlices_getD_eq (rank ax : Nat) (s : PySlice) (h : ax < rank) :
    (axisSlices rank ax s).getD ax colon = s := by
  unfold axisSlices; rw [getD_set_eq' _ _ _ _ (by simpa using h)]
theorem axisSlices_getD_ne (rank ax k : Nat) (s : PySlice) (h : ax ≠ k) :
    (axisSlices rank ax s).getD k colon = colon := by
  unfold axisSlices; rw [getD_set_ne' _ _ _ _ _ h]
  simp [List.getD_eq_getElem?_getD, List.getElem?_replicate]
  split <;> rfl
theorem OffEq.rfl' (ax : Nat) (sh : List Nat) : OffEq ax sh sh := ⟨rfl, fun _ _ => rfl⟩
theorem wfIx_axisIx (sh : List Nat) (ax : Nat) (s : PySlice) (hs : s.stp ≠ 0) :
    wfIx sh (axisIx sh.length ax s) = true := by
  unfold axisIx
  rw [wfIx_slc]
  refine ⟨axisSlices_length _ _ _, ?_⟩
  intro t ht
  unfold axisSlices at ht
  rcases List.mem_or_eq_of_mem_set ht with h | h
  · rw [List.mem_replicate] at h; rw [h.2]; simp [colon, stp]
  · rw [h]; exact hs
theorem sliceShape_axisIx (sh : List Nat) (ax : Nat) (s : PySlice) (hax : ax < sh.length) :
    sliceShape sh (axisIx sh.length ax s) = sh.set ax (sel s (sh.getD ax 0 : Nat)).length := by
  unfold axisIx axisSlices
  rw [sliceShape_set_axis (OffEq.rfl' ax sh) _ s (by simp) hax, replicate_colon_map, sliceShape_colons]
theorem sliceShape_axisIx_length (sh : List Nat) (ax : Nat) (s : PySlice) :
    (sliceShape sh (axisIx sh.length ax s)).length = sh.length := by
  unfold axisIx; rw [sliceShape_slc_length, axisSlices_length, Nat.min_self]
theorem sliceIdx_axisIx (sh : List Nat) (ax : Nat) (s : PySlice) (i : List Nat) (hax : ax < sh.length)
    (hi : InB i (sliceShape sh (axisIx sh.length ax s))) :
    sliceIdx sh (axisIx sh.length ax s) i
      = i.set ax ((sel s (sh.getD ax 0 : Nat)).getD (i.getD ax 0) 0).toNat := by
  have hil : i.length = sh.length := by rw [hi.length_eq, sliceShape_axisIx_length]
  apply list_ext_getD
  · unfold axisIx; rw [sliceIdx_slc_length, axisSlices_length, List.length_set, hil]; omega
  · intro k hk
    unfold axisIx at hk ⊢
    rw [sliceIdx_slc_length, axisSlices_length, hil] at hk
    have hk' : k < sh.length := by omega
    rw [sliceIdx_slc_getD _ _ _ _ hk' (by rw [axisSlices_length]; exact hk') (by rw [hil]; exact hk')]
    by_cases hkx : ax = k
    · subst hkx
      rw [axisSlices_getD_eq _ _ _ hax, getD_set_eq _ _ _ _ (by omega)]
    · rw [axisSlices_getD_ne _ _ _ _ hkx, getD_set_ne _ _ _ _ _ hkx]
      have hlt := hi.getD_lt k (by rw [sliceShape_axisIx_length]; exact hk')
      rw [sliceShape_axisIx sh ax s hax, getD_set_ne _ _ _ _ _ hkx] at hlt
      rw [sel_colon_getD _ _ hlt]; simp
theorem sliceChunks_axisIx_off (sh : List Nat) (cl : Layout) (ax : Nat) (s t : PySlice)
    (hcl : cl.length = sh.length) :
    (sliceChunks sh cl (axisIx sh.length ax s)).set ax []
      = (sliceChunks sh cl (axisIx sh.length ax t)).set ax [] := by
  unfold axisIx axisSlices
  exact sliceChunks_set_axis (OffEq.rfl' ax sh) rfl _ s t (by simp) hcl

/-! ### roll -/

theorem rollStart_bounds (n : Nat) (shift : Int) :
    0 ≤ rollStart n shift ∧ rollStart n shift ≤ n ∧ (0 < n → rollStart n shift < n) := by
  unfold rollStart
  split
  · rename_i h; subst h; simp
  · rename_i h
    have hn : (0 : Int) < n := by omega
    unfold pyMod
    rw [if_pos hn]
    have h1 := Int.emod_nonneg (-shift) (by omega : (n : Int) ≠ 0)
    have h2 := Int.emod_lt_of_pos (-shift) hn
    exact ⟨h1, by omega, fun _ => h2⟩

theorem sel_from (s : Int) (n : Nat) (h0 : 0 ≤ s) (h1 : s ≤ n) :
    sel ⟨some s, none, none⟩ n = rangeList s n 1 := by
  rw [sel_mk_pos (some s) none none n 1 (by simp [stp]) (by omega)]
  simp [adjust_false_id s n h0 h1]

theorem sel_upto (s : Int) (n : Nat) (h0 : 0 ≤ s) (h1 : s ≤ n) :
    sel ⟨none, some s, none⟩ n = rangeList 0 s 1 := by
  rw [sel_mk_pos none (some s) none n 1 (by simp [stp]) (by omega)]
  simp [adjust_false_id s n h0 h1]

/-- `(x - shift) mod n` in terms of `s = -shift mod n` -/
theorem roll_mod (n : Nat) (shift : Int) (x : Nat) (hx : x < n) :
    (((x : Int) - shift) % (n : Int))
      = if (x : Int) + rollStart n shift < n then (x : Int) + rollStart n shift
        else (x : Int) + rollStart n shift - n := by
  have hn : (0 : Int) < n := by omega
  have hs : rollStart n shift = (-shift) % (n : Int) := by
    unfold rollStart pyMod
    rw [if_neg (by omega), if_pos hn]
  have hb := rollStart_bounds n shift
  have hdiv := Int.emod_add_mul_ediv (-shift) (n : Int)
  rw [← hs] at hdiv
  have e1 : (x : Int) - shift = (x : Int) + rollStart n shift + (n : Int) * ((-shift) / (n : Int)) := by omega
  split
  · rename_i h
    rw [e1, Int.add_mul_emod_self_left]
    exact Int.emod_eq_of_lt (by omega) h
  · rename_i h
    have e2 : (x : Int) - shift
        = ((x : Int) + rollStart n shift - n) + (n : Int) * ((-shift) / (n : Int) + 1) := by
      rw [Int.mul_add]; omega
    rw [e2, Int.add_mul_emod_self_left]
    exact Int.emod_eq_of_lt (by omega) (by have := hb.2.2 (by omega); omega)

theorem wf_roll (e : Expr) (shift : Int) (ax : Nat) (hw : WF e) (hax : ax < (shape e).length) :
    WF (e.roll shift ax) := by
  obtain ⟨m1, _⟩ := meta_ok e hw
  have hcl := length_of_map_sum m1
  unfold Expr.roll
  simp only [WF, wf, Bool.and_eq_true, decide_eq_true_eq]
  refine ⟨⟨⟨⟨⟨hw, wfIx_axisIx _ _ _ (by simp [stp])⟩, hw, wfIx_axisIx _ _ _ (by simp [stp])⟩, ?_⟩, ?_⟩, ?_⟩
  · simp only [shape]; rw [sliceShape_axisIx_length]; exact hax
  · simp only [shape]
    rw [sliceShape_axisIx _ _ _ hax, sliceShape_axisIx _ _ _ hax, List.set_set, List.set_set]
  · simp only [chunks]; exact sliceChunks_axisIx_off _ _ _ _ _ hcl

theorem den_roll (env : Env) (e : Expr) (shift : Int) (ax : Nat) (hax : ax < (shape e).length) :
    Arr.Equiv (den env (e.roll shift ax)) (rollArr (den env e) shift ax) := by
  have hb := rollStart_bounds ((shape e).getD ax 0) shift
  generalize hs : rollStart ((shape e).getD ax 0) shift = s at hb
  generalize hn : (shape e).getD ax 0 = n at hb hs
  have hl1 : (sel ⟨some s, none, none⟩ (n : Nat)).length = ((n : Int) - s).toNat := by
    rw [sel_from s n hb.1 hb.2.1, rangeList_one_length _ _ hb.2.1]
  have hl2 : (sel ⟨none, some s, none⟩ (n : Nat)).length = s.toNat := by
    rw [sel_upto s n hb.1 hb.2.1, rangeList_one_length _ _ hb.1]; simp
  have hshape : shape (e.roll shift ax) = shape e := by
    unfold Expr.roll
    simp only [shape, hn, hs]
    rw [sliceShape_axisIx _ _ _ hax, sliceShape_axisIx _ _ _ hax, List.set_set,
      getD_set_eq _ _ _ _ hax, getD_set_eq _ _ _ _ hax, hn, hl1, hl2]
    have : ((n : Int) - s).toNat + s.toNat = n := by omega
    rw [this, ← hn, set_getD_self]
  refine ⟨hshape, ?_⟩
  intro i hi
  have hi' : InB i (shape e) := by simpa only [den, hshape] using hi
  have hx : i.getD ax 0 < n := by have := hi'.getD_lt ax hax; omega
  have hil : i.length = (shape e).length := hi'.length_eq
  simp only [den, rollArr, hn]
  unfold Expr.roll
  simp only [denGet, shape, hn, hs]
  rw [sliceShape_axisIx _ _ _ hax, getD_set_eq _ _ _ _ hax, hn, hl1, roll_mod n shift _ hx, hs]
  by_cases hc : i.getD ax 0 < ((n : Int) - s).toNat
  · rw [if_pos hc, if_pos (by omega)]
    have hin : InB i (sliceShape (shape e) (axisIx (shape e).length ax ⟨some s, none, none⟩)) := by
      rw [sliceShape_axisIx _ _ _ hax, hn, hl1]
      rw [InB_iff_getD] at hi' ⊢
      refine ⟨by simpa using hi'.1, ?_⟩
      intro k hk
      rw [List.length_set] at hk
      by_cases hkx : ax = k
      · subst hkx; rw [getD_set_eq _ _ _ _ hax]; exact hc
      · rw [getD_set_ne _ _ _ _ _ hkx]; exact hi'.2 k hk
    rw [sliceIdx_axisIx _ _ _ _ hax hin, hn, sel_from s n hb.1 hb.2.1,
      rangeList_one_getD _ _ _ (by rw [rangeList_one_length _ _ hb.2.1]; exact hc)]
    congr 2
    omega
  · rw [if_neg hc, if_neg (by omega)]
    have hin : InB (i.set ax (i.getD ax 0 - ((n : Int) - s).toNat))
        (sliceShape (shape e) (axisIx (shape e).length ax ⟨none, some s, none⟩)) := by
      rw [sliceShape_axisIx _ _ _ hax, hn, hl2]
      rw [InB_iff_getD] at hi' ⊢
      refine ⟨by simpa using hi'.1, ?_⟩
      intro k hk
      rw [List.length_set] at hk
      by_cases hkx : ax = k
      · subst hkx; rw [getD_set_eq _ _ _ _ hax, getD_set_eq _ _ _ _ (by omega)]; omega
      · rw [getD_set_ne _ _ _ _ _ hkx, getD_set_ne _ _ _ _ _ hkx]; exact hi'.2 k hk
    rw [sliceIdx_axisIx _ _ _ _ hax hin, hn, sel_upto s n hb.1 hb.2.1, getD_set_eq _ _ _ _ (by omega),
      rangeList_one_getD _ _ _ (by rw [rangeList_one_length _ _ hb.1]; omega), List.set_set]
    congr 2
    omega


/-! ### diff -/

theorem sel_from1 (n : Nat) : sel ⟨some 1, none, none⟩ n = rangeList (min 1 (n : Int)) n 1 := by
  rw [sel_mk_pos (some 1) none none n 1 (by simp [stp]) (by omega)]
  simp only [Option.map_some, Option.getD_some, Option.map_none, Option.getD_none]
  congr 1
  unfold adjust; simp only [Bool.false_eq_true, if_false]
  split <;> split <;> omega

theorem sel_upto_m1 (n : Nat) : sel ⟨none, some (-1), none⟩ n = rangeList 0 (max 0 ((n : Int) - 1)) 1 := by
  rw [sel_mk_pos none (some (-1)) none n 1 (by simp [stp]) (by omega)]
  simp only [Option.map_some, Option.getD_some, Option.map_none, Option.getD_none]
  congr 1
  unfold adjust; simp only [Bool.false_eq_true, if_false]
  split <;> split <;> omega

theorem sel_from1_length (n : Nat) : (sel ⟨some 1, none, none⟩ n).length = n - 1 := by
  rw [sel_from1, rangeList_one_length _ _ (by omega)]; omega

theorem sel_upto_m1_length (n : Nat) : (sel ⟨none, some (-1), none⟩ n).length = n - 1 := by
  rw [sel_upto_m1, rangeList_one_length _ _ (by omega)]; omega

theorem sel_from1_getD (n x : Nat) (hx : x < n - 1) :
    ((sel ⟨some 1, none, none⟩ n).getD x 0).toNat = x + 1 := by
  rw [sel_from1, rangeList_one_getD _ _ _ (by rw [rangeList_one_length _ _ (by omega)]; omega)]; omega

theorem sel_upto_m1_getD (n x : Nat) (hx : x < n - 1) :
    ((sel ⟨none, some (-1), none⟩ n).getD x 0).toNat = x := by
  rw [sel_upto_m1, rangeList_one_getD _ _ _ (by rw [rangeList_one_length _ _ (by omega)]; omega)]; omega

theorem shape_diff_hi (e : Expr) (ax : Nat) (hax : ax < (shape e).length) :
    sliceShape (shape e) (axisIx (shape e).length ax ⟨some 1, none, none⟩)
      = (shape e).set ax ((shape e).getD ax 0 - 1) := by
  rw [sliceShape_axisIx _ _ _ hax, sel_from1_length]

theorem shape_diff_lo (e : Expr) (ax : Nat) (hax : ax < (shape e).length) :
    sliceShape (shape e) (axisIx (shape e).length ax ⟨none, some (-1), none⟩)
      = (shape e).set ax ((shape e).getD ax 0 - 1) := by
  rw [sliceShape_axisIx _ _ _ hax, sel_upto_m1_length]

/-- `diff` is well-formed when the two slices happen to carry the same chunks … -/
theorem wf_diff (f : Nat) (e : Expr) (ax : Nat) (hw : WF e) (hax : ax < (shape e).length)
    (hc : chunks (.slice e (axisIx (shape e).length ax ⟨some 1, none, none⟩))
      = chunks (.slice e (axisIx (shape e).length ax ⟨none, some (-1), none⟩))) :
    WF (Expr.diff f e ax) := by
  unfold Expr.diff
  simp only [WF, wf, Bool.and_eq_true, decide_eq_true_eq]
  refine ⟨⟨⟨⟨hw, wfIx_axisIx _ _ _ (by simp [stp])⟩, hw, wfIx_axisIx _ _ _ (by simp [stp])⟩, ?_⟩, hc⟩
  simp only [shape]; rw [shape_diff_hi e ax hax, shape_diff_lo e ax hax]

/-- … and in general after rechunking both to a common layout of the result shape -/
theorem wf_diffU (f : Nat) (e : Expr) (ax : Nat) (l : Layout) (hw : WF e) (hax : ax < (shape e).length)
    (hl : wfLayout ((shape e).set ax ((shape e).getD ax 0 - 1)) l = true) :
    WF (Expr.diffU f e ax l) := by
  unfold Expr.diffU
  simp only [WF, wf, Bool.and_eq_true, decide_eq_true_eq]
  refine ⟨⟨⟨⟨⟨hw, wfIx_axisIx _ _ _ (by simp [stp])⟩, ?_⟩, ⟨hw, wfIx_axisIx _ _ _ (by simp [stp])⟩, ?_⟩, ?_⟩, ?_⟩
  · simp only [shape]; rw [shape_diff_hi e ax hax]; exact hl
  · simp only [shape]; rw [shape_diff_lo e ax hax]; exact hl
  · simp only [shape]; rw [shape_diff_hi e ax hax, shape_diff_lo e ax hax]
  · simp only [chunks]

theorem denGet_diff_core (env : Env) (f : Nat) (e : Expr) (ax : Nat) (hax : ax < (shape e).length)
    (i : List Nat) (hi : InB i ((shape e).set ax ((shape e).getD ax 0 - 1))) :
    env.bin f (denGet env e (sliceIdx (shape e) (axisIx (shape e).length ax ⟨some 1, none, none⟩) i))
        (denGet env e (sliceIdx (shape e) (axisIx (shape e).length ax ⟨none, some (-1), none⟩) i))
      = env.bin f (denGet env e (i.set ax (i.getD ax 0 + 1))) (denGet env e i) := by
  have hx : i.getD ax 0 < (shape e).getD ax 0 - 1 := by
    have := hi.getD_lt ax (by simpa using hax); rwa [getD_set_eq _ _ _ _ hax] at this
  rw [sliceIdx_axisIx _ _ _ _ hax (by rw [shape_diff_hi e ax hax]; exact hi),
    sliceIdx_axisIx _ _ _ _ hax (by rw [shape_diff_lo e ax hax]; exact hi),
    sel_from1_getD _ _ hx, sel_upto_m1_getD _ _ hx, set_getD_self]

theorem den_diff (env : Env) (f : Nat) (e : Expr) (ax : Nat) (hax : ax < (shape e).length) :
    Arr.Equiv (den env (Expr.diff f e ax)) (diffArr (env.bin f) (den env e) ax) := by
  refine ⟨?_, ?_⟩
  · unfold Expr.diff; simp only [den, shape, diffArr]; exact shape_diff_hi e ax hax
  · intro i hi
    have hi' : InB i ((shape e).set ax ((shape e).getD ax 0 - 1)) := by
      have : (den env (Expr.diff f e ax)).shape = (shape e).set ax ((shape e).getD ax 0 - 1) := by
        unfold Expr.diff; simp only [den, shape]; exact shape_diff_hi e ax hax
      rw [this] at hi; exact hi
    unfold Expr.diff
    simp only [den, denGet, diffArr]
    exact denGet_diff_core env f e ax hax i hi'

theorem den_diffU (env : Env) (f : Nat) (e : Expr) (ax : Nat) (l : Layout) (hax : ax < (shape e).length) :
    Arr.Equiv (den env (Expr.diffU f e ax l)) (diffArr (env.bin f) (den env e) ax) := by
  refine ⟨?_, ?_⟩
  · unfold Expr.diffU; simp only [den, shape, diffArr]; exact shape_diff_hi e ax hax
  · intro i hi
    have hi' : InB i ((shape e).set ax ((shape e).getD ax 0 - 1)) := by
      have : (den env (Expr.diffU f e ax l)).shape = (shape e).set ax ((shape e).getD ax 0 - 1) := by
        unfold Expr.diffU; simp only [den, shape]; exact shape_diff_hi e ax hax
      rw [this] at hi; exact hi
    unfold Expr.diffU
    simp only [den, denGet, diffArr]
    exact denGet_diff_core env f e ax hax i hi'

/-! ### stack -/

theorem insertIdx_set_self {α} : ∀ (l : List α) (ax : Nat) (v w : α), ax ≤ l.length →
    (l.insertIdx ax v).set ax w = l.insertIdx ax w
  | l, 0, v, w, _ => by simp
  | [], ax + 1, v, w, h => by simp at h
  | x :: l, ax + 1, v, w, h => by
    simp only [List.insertIdx_succ_cons, List.set_cons_succ]
    rw [insertIdx_set_self l ax v w (by simpa using h)]

theorem eraseIdx_set_self {α} : ∀ (l : List α) (ax : Nat) (v : α), (l.set ax v).eraseIdx ax = l.eraseIdx ax
  | [], _, _ => by simp
  | x :: l, 0, v => by simp
  | x :: l, ax + 1, v => by
    simp only [List.set_cons_succ, List.eraseIdx_cons_succ]
    rw [eraseIdx_set_self l ax v]

theorem getD_append_lt {α} (l m : List α) (k : Nat) (d : α) (h : k < l.length) :
    (l ++ m).getD k d = l.getD k d := by
  simp [List.getD_eq_getElem?_getD, List.getElem?_append_left h]

theorem getD_append_len {α} (l : List α) (x : α) (d : α) : (l ++ [x]).getD l.length d = x := by
  simp [List.getD_eq_getElem?_getD]

/-- what the fold keeps: the accumulated concatenation of the `expand_dims` of `pre` -/
structure StackInv (env : Env) (sh : List Nat) (cl : Layout) (ax : Nat) (pre : List Expr) (acc : Expr) : Prop where
  isWF : WF acc
  shapeEq : shape acc = sh.insertIdx ax pre.length
  chunksOff : (chunks acc).set ax [] = (cl.insertIdx ax [1]).set ax []
  get : ∀ i, InB i (shape acc) →
    denGet env acc i = denGet env (pre.getD (i.getD ax 0) (.src 0 [] [])) (i.eraseIdx ax)

theorem stack_fold (env : Env) (sh : List Nat) (cl : Layout) (ax : Nat) (hax : ax ≤ sh.length)
    (hcl : cl.length = sh.length) :
    ∀ (rest pre : List Expr) (acc : Expr), (∀ e ∈ rest, WF e ∧ shape e = sh ∧ chunks e = cl) →
      StackInv env sh cl ax pre acc →
      StackInv env sh cl ax (pre ++ rest)
        ((rest.map (fun e => Expr.expandDims e ax)).foldl (fun a x => Expr.concat a x ax) acc) := by
  intro rest
  induction rest with
  | nil => intro pre acc _ h; simpa using h
  | cons x rest ih =>
    intro pre acc hr h
    obtain ⟨hx1, hx2, hx3⟩ := hr x (by simp)
    have hlen : (sh.insertIdx ax pre.length).length = sh.length + 1 := by
      rw [List.length_insertIdx, if_pos hax]
    have hstep : StackInv env sh cl ax (pre ++ [x]) (.concat acc (.expandDims x ax) ax) := by
      have hk : (shape acc).getD ax 0 = pre.length := by
        rw [h.shapeEq, getD_insertIdx_self _ _ _ _ hax]
      refine ⟨?_, ?_, ?_, ?_⟩
      · simp only [WF, wf, Bool.and_eq_true, decide_eq_true_eq]
        refine ⟨⟨⟨⟨h.isWF, hx1, by rw [hx2]; exact hax⟩, ?_⟩, ?_⟩, ?_⟩
        · rw [h.shapeEq, hlen]; omega
        · simp only [shape]
          rw [h.shapeEq, hx2, insertIdx_set_self _ _ _ _ hax, insertIdx_set_self _ _ _ _ hax]
        · simp only [chunks]; rw [h.chunksOff, hx3]
      · simp only [shape]
        rw [h.shapeEq, hx2, getD_insertIdx_self _ _ _ _ hax, getD_insertIdx_self _ _ _ _ hax,
          insertIdx_set_self _ _ _ _ hax]
        simp
      · simp only [chunks]; rw [List.set_set, h.chunksOff]
      · intro i hi
        simp only [shape] at hi
        simp only [denGet, hk]
        by_cases hc : i.getD ax 0 < pre.length
        · rw [if_pos hc, h.get i (InB_of_set hi (by rw [hk]; exact hc))]
          rw [getD_append_lt _ _ _ _ hc]
        · rw [if_neg hc, eraseIdx_set_self]
          have hlt := hi.getD_lt ax (by rw [List.length_set, h.shapeEq, hlen]; omega)
          rw [getD_set_eq _ _ _ _ (by rw [h.shapeEq, hlen]; omega), hk, hx2,
            getD_insertIdx_self _ _ _ _ hax] at hlt
          have : i.getD ax 0 = pre.length := by omega
          rw [this, getD_append_len]
    have := ih (pre ++ [x]) _ (fun e he => hr e (List.mem_cons_of_mem _ he)) hstep
    simpa using this

theorem stack_first (env : Env) (sh : List Nat) (cl : Layout) (ax : Nat) (hax : ax ≤ sh.length)
    (e : Expr) (h : WF e ∧ shape e = sh ∧ chunks e = cl) :
    StackInv env sh cl ax [e] (.expandDims e ax) := by
  obtain ⟨h1, h2, h3⟩ := h
  refine ⟨?_, by simp [shape, h2], by simp [chunks, h3], ?_⟩
  · simp only [WF, wf, Bool.and_eq_true, decide_eq_true_eq]; exact ⟨h1, by rw [h2]; exact hax⟩
  · intro i hi
    simp only [shape, h2] at hi
    have hlt := hi.getD_lt ax (by rw [List.length_insertIdx, if_pos hax]; omega)
    rw [getD_insertIdx_self _ _ _ _ hax] at hlt
    have : i.getD ax 0 = 0 := by omega
    rw [this]; rfl

/-- `stack` of well-formed arrays with one shape and one chunking is well-formed -/
theorem wf_stackN (sh : List Nat) (cl : Layout) (ax : Nat) (es : List Expr) (r : Expr)
    (hes : ∀ e ∈ es, WF e ∧ shape e = sh ∧ chunks e = cl) (hax : ax ≤ sh.length)
    (h : Expr.stackN es ax = some r) : WF r := by
  cases es with
  | nil => simp [Expr.stackN, Expr.concatN] at h
  | cons e es =>
    simp only [Expr.stackN, List.map_cons, Expr.concatN, Option.some.injEq] at h
    subst h
    have hcl : cl.length = sh.length := by
      obtain ⟨h1, h2, h3⟩ := hes e (by simp)
      rw [← h3, ← h2]; exact length_of_map_sum (meta_ok e h1).1
    exact (stack_fold trivialEnv sh cl ax hax hcl es [e] _ (fun x hx => hes x (List.mem_cons_of_mem _ hx))
      (stack_first trivialEnv sh cl ax hax e (hes e (by simp)))).isWF

/-- … and denotes `np.stack` -/
theorem den_stackN (env : Env) (sh : List Nat) (cl : Layout) (ax : Nat) (es : List Expr) (r : Expr)
    (hes : ∀ e ∈ es, WF e ∧ shape e = sh ∧ chunks e = cl) (hax : ax ≤ sh.length)
    (h : Expr.stackN es ax = some r) :
    Arr.Equiv (den env r) (stackArr sh (es.map (den env)) ax) := by
  cases es with
  | nil => simp [Expr.stackN, Expr.concatN] at h
  | cons e es =>
    simp only [Expr.stackN, List.map_cons, Expr.concatN, Option.some.injEq] at h
    subst h
    have hcl : cl.length = sh.length := by
      obtain ⟨h1, h2, h3⟩ := hes e (by simp)
      rw [← h3, ← h2]; exact length_of_map_sum (meta_ok e h1).1
    have inv := stack_fold env sh cl ax hax hcl es [e] _ (fun x hx => hes x (List.mem_cons_of_mem _ hx))
      (stack_first env sh cl ax hax e (hes e (by simp)))
    refine ⟨?_, ?_⟩
    · simp only [den, stackArr]; rw [inv.shapeEq]; simp
    · intro i hi
      simp only [den] at hi
      simp only [den, stackArr]
      rw [inv.get i hi]
      have hlt := hi.getD_lt ax (by rw [inv.shapeEq, List.length_insertIdx, if_pos hax]; omega)
      rw [inv.shapeEq, getD_insertIdx_self _ _ _ _ hax] at hlt
      simp only [List.singleton_append] at hlt ⊢
      rw [getD_map (den env) (e :: es) _ (.src 0 [] []) _ hlt]
      rfl

/-! ### permutations from `List.Perm` -/

theorem isPerm_of_perm {perm : List Nat} {n : Nat} (h : perm.Perm (List.range n)) : isPerm perm n = true := by
  simp only [isPerm, Bool.and_eq_true, decide_eq_true_eq, List.all_eq_true, List.mem_range,
    List.contains_iff_mem]
  refine ⟨⟨⟨by simpa using h.length_eq, ?_⟩, ?_⟩, h.nodup_iff.mpr List.nodup_range⟩
  · intro a ha; exact List.mem_range.mp (h.mem_iff.mp ha)
  · intro a ha; exact h.mem_iff.mpr (List.mem_range.mpr ha)

/-! ### swapaxes -/

def swapFn (a b k : Nat) : Nat := if k = a then b else if k = b then a else k

theorem swapFn_invol (a b k : Nat) : swapFn a b (swapFn a b k) = k := by
  unfold swapFn; split <;> split <;> (try split) <;> omega

theorem swapFn_lt {a b k n : Nat} (ha : a < n) (hb : b < n) (hk : k < n) : swapFn a b k < n := by
  unfold swapFn; split <;> (try split) <;> omega

theorem swapPerm_eq (rank a b : Nat) : swapPerm rank a b = (List.range rank).map (swapFn a b) := rfl

theorem swapPerm_getD (rank a b k : Nat) (hk : k < rank) : (swapPerm rank a b).getD k 0 = swapFn a b k := by
  rw [swapPerm_eq, getD_map _ _ k 0 0 (by simpa using hk), getD_range _ _ hk]

theorem swapPerm_ok (rank a b : Nat) (ha : a < rank) (hb : b < rank) : PermOK (swapPerm rank a b) rank := by
  refine ⟨by simp [swapPerm], ?_, ?_, ?_⟩
  · intro x hx
    rw [swapPerm_eq, List.mem_map] at hx
    obtain ⟨k, hk, rfl⟩ := hx
    exact swapFn_lt ha hb (List.mem_range.mp hk)
  · intro x hx
    rw [swapPerm_eq, List.mem_map]
    exact ⟨swapFn a b x, List.mem_range.mpr (swapFn_lt ha hb hx), swapFn_invol a b x⟩
  · rw [swapPerm_eq]
    apply List.Pairwise.map (swapFn a b) _ List.nodup_range
    intro x y hxy hs
    apply hxy
    rw [← swapFn_invol a b x, ← swapFn_invol a b y, hs]

theorem isPerm_of_ok {perm : List Nat} {n : Nat} (h : PermOK perm n) : isPerm perm n = true := by
  simp only [isPerm, Bool.and_eq_true, decide_eq_true_eq, List.all_eq_true, List.mem_range,
    List.contains_iff_mem]
  exact ⟨⟨⟨h.len, h.lt⟩, h.mem⟩, h.nodup⟩

theorem wf_swapaxes (e : Expr) (a b : Nat) (hw : WF e) (ha : a < (shape e).length)
    (hb : b < (shape e).length) : WF (e.swapaxes a b) := by
  unfold Expr.swapaxes
  simp only [WF, wf, Bool.and_eq_true]
  exact ⟨hw, isPerm_of_ok (swapPerm_ok _ a b ha hb)⟩

theorem den_swapaxes (env : Env) (e : Expr) (a b : Nat) (ha : a < (shape e).length)
    (hb : b < (shape e).length) :
    Arr.Equiv (den env (e.swapaxes a b)) (swapArr (den env e) a b) := by
  have hp := swapPerm_ok (shape e).length a b ha hb
  refine ⟨rfl, ?_⟩
  intro i _
  unfold Expr.swapaxes
  simp only [den, denGet, swapArr]
  congr 1
  unfold unperm
  rw [hp.len, swapPerm_eq, List.map_map]
  apply List.map_congr_left
  intro x hx
  have hx' := List.mem_range.mp hx
  simp only [Function.comp]
  congr 1
  -- position of `x` in the permutation
  have := hp.idxOf_getD (swapFn_lt ha hb hx')
  rw [swapPerm_getD _ _ _ _ (swapFn_lt ha hb hx'), swapFn_invol] at this
  exact this

/-! ### moveaxis (one axis) -/

theorem moveaxisPerm_perm (rank src dst : Nat) (hs : src < rank) (hd : dst < rank) :
    (moveaxisPerm rank src dst).Perm (List.range rank) := by
  unfold moveaxisPerm
  have hmem : src ∈ List.range rank := List.mem_range.mpr hs
  have h1 := List.perm_cons_erase hmem
  rw [List.Nodup.erase_eq_filter List.nodup_range src] at h1
  have hlen : ((List.range rank).filter (fun n => n != src)).length + 1 = rank := by
    have := h1.length_eq; simp at this; omega
  exact (List.perm_insertIdx src _ (by omega)).trans h1.symm

theorem wf_moveaxis (e : Expr) (src dst : Nat) (hw : WF e) (hs : src < (shape e).length)
    (hd : dst < (shape e).length) : WF (e.moveaxis src dst) := by
  unfold Expr.moveaxis
  simp only [WF, wf, Bool.and_eq_true]
  exact ⟨hw, isPerm_of_perm (moveaxisPerm_perm _ src dst hs hd)⟩

/-! ### leading axes (`atleast_nd`) -/

theorem shape_leadingAxes (e : Expr) : ∀ d, shape (e.leadingAxes d) = List.replicate d 1 ++ shape e
  | 0 => rfl
  | d + 1 => by
    simp only [Expr.leadingAxes, shape, shape_leadingAxes e d, List.insertIdx_zero, List.replicate_succ,
      List.cons_append]

theorem chunks_leadingAxes (e : Expr) : ∀ d, chunks (e.leadingAxes d) = List.replicate d [1] ++ chunks e
  | 0 => rfl
  | d + 1 => by
    simp only [Expr.leadingAxes, chunks, chunks_leadingAxes e d, List.insertIdx_zero, List.replicate_succ,
      List.cons_append]

theorem wf_leadingAxes (e : Expr) (hw : WF e) : ∀ d, WF (e.leadingAxes d)
  | 0 => hw
  | d + 1 => by
    simp only [Expr.leadingAxes, WF, wf, Bool.and_eq_true, decide_eq_true_eq]
    exact ⟨wf_leadingAxes e hw d, Nat.zero_le _⟩

theorem wf_atleastNd (e : Expr) (ndim : Nat) (hw : WF e) : WF (e.atleastNd ndim) :=
  wf_leadingAxes e hw _

theorem denGet_leadingAxes (env : Env) (e : Expr) : ∀ d i, denGet env (e.leadingAxes d) i = denGet env e (i.drop d)
  | 0, i => rfl
  | d + 1, i => by
    simp only [Expr.leadingAxes, denGet]
    rw [denGet_leadingAxes env e d]
    cases i with
    | nil => simp
    | cons x i => simp

theorem den_leadingAxes (env : Env) (e : Expr) (d : Nat) :
    Arr.Equiv (den env (e.leadingAxes d)) (leadingArr (den env e) d) :=
  ⟨shape_leadingAxes e d, fun i _ => denGet_leadingAxes env e d i⟩

theorem den_atleastNd (env : Env) (e : Expr) (ndim : Nat) :
    Arr.Equiv (den env (e.atleastNd ndim)) (leadingArr (den env e) (ndim - (shape e).length)) :=
  den_leadingAxes env e _

end Dask.ND
