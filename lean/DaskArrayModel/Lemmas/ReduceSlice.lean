/-
Proofs for the reduction slice pushdown (`Model/ReduceSlice.lean`): per-axis induction, once for
keepdims=True (`kd_core`) and once for keepdims=False (`nokd_core`).
-/
import DaskArrayModel.Model.ReduceSlice
import DaskArrayModel.Lemmas.RulesFuse
namespace Dask.RedSlice
open Dask.Py Dask.Py.PySlice Dask.Slicing Dask.ND

/-! ### an integer as the slice `k : k + 1` (RAW `k`, as the real code builds it) -/

theorem adj_key (k : Int) (n : Nat) : adjust k n false < adjust (k + 1) n false →
    adjust (k + 1) n false = adjust k n false + 1 ∧ adjust k n false = posifyInt n k := by
  unfold adjust posifyInt
  simp only [Bool.false_eq_true, if_false]
  repeat' split
  all_goals (intro h; omega)

/-- `slice(k, k + 1)` selects nothing (k = -1, k out of range) or exactly the position of the integer `k` -/
theorem sel_int_slice (k : Int) (n : Nat) (h : (sel ⟨some k, some (k + 1), none⟩ n).length ≠ 0) :
    sel ⟨some k, some (k + 1), none⟩ n = [posifyInt n k] := by
  simp only [sel, istart, istop, stp, Option.getD_none, rangeList] at h ⊢
  simp only [show ¬ ((1 : Int) < 0) by omega, decide_false] at h ⊢
  simp only [List.length_map, List.length_range] at h
  have hlt : adjust k n false < adjust (k + 1) n false := by
    apply Classical.byContradiction
    intro hn
    apply h
    simp only [rangeLen]
    rw [if_pos (by omega), if_neg hn]
  obtain ⟨e1, e2⟩ := adj_key k n hlt
  have hl : rangeLen (adjust k n false) (adjust (k + 1) n false) 1 = 1 := by
    simp only [rangeLen]
    rw [if_pos (by omega), if_pos hlt, e1]
    have : (adjust k n false + 1 - adjust k n false - 1) / 1 + 1 = 1 := by simp; omega
    rw [this]; rfl
  rw [hl, e2]
  simp

theorem flatMap_range_congr {β} (n : Nat) (f g : Nat → List β) (h : ∀ t, t < n → f t = g t) :
    (List.range n).flatMap f = (List.range n).flatMap g := by
  rw [List.flatMap_def, List.flatMap_def]
  congr 1
  apply List.map_congr_left
  intro a ha
  exact h a (List.mem_range.mp ha)

/-! ### keepdims = True -/

/-- what `kd_core` / `nokd_core` establish for one (mask, input shape, full index) -/
def CoreFacts (α : Type) (osz : Nat) (kd : Bool) (msk : List Bool) (sh : List Nat) (full : List Ix)
    (inp : List PySlice) (fin : List Ix) : Prop :=
  let sh' := sliceShape sh (inp.map Ix.slc)
  fin.length = (redShape osz kd msk sh').length ∧
  sliceShape (redShape osz kd msk sh') fin = sliceShape (redShape osz kd msk sh) full ∧
  ∀ (g : List Nat → α) (j : List Nat), InB j (sliceShape (redShape osz kd msk sh) full) →
    lane kd msk sh' (fun i => g (sliceIdx sh (inp.map Ix.slc) i)) (sliceIdx (redShape osz kd msk sh') fin j)
      = lane kd msk sh g (sliceIdx (redShape osz kd msk sh) full j) ∧
    rcoords kd msk (sliceIdx (redShape osz kd msk sh') fin j)
      = rcoords kd msk (sliceIdx (redShape osz kd msk sh) full j)

theorem kd_core {α : Type} (osz : Nat) : ∀ (msk : List Bool) (sh : List Nat) (full : List Ix),
    msk.length = sh.length → full.length = sh.length →
    emptyKept msk (sliceShape sh ((inputIndexKd msk (full.map intToSlice)).map Ix.slc)) = false →
    CoreFacts α osz true msk sh full (inputIndexKd msk (full.map intToSlice)) (finalKd msk full)
  | [], [], [], _, _, _ => by
    refine ⟨rfl, rfl, ?_⟩
    intro g j _
    simp [inputIndexKd, finalKd, redShape, sliceShape, sliceIdx, lane, rcoords]
  | true :: ms, n :: ns, .slc s :: xs, h1, h2, hE => by
    simp only [List.map_cons, inputIndexKd, if_true, sliceShape, emptyKept, Bool.not_true,
      Bool.false_and, Bool.false_or] at hE
    obtain ⟨c1, c2, c3⟩ := kd_core (α := α) osz ms ns xs (by simpa using h1) (by simpa using h2) hE
    simp only [CoreFacts, List.map_cons, inputIndexKd, finalKd, if_true, sliceShape, redShape,
      sel_colon_length, List.length_cons] at c1 c2 c3 ⊢
    refine ⟨by rw [c1], by rw [c2], ?_⟩
    intro g j hj
    cases j with
    | nil => simp [InB] at hj
    | cons a j =>
      simp only [InB] at hj
      simp only [sliceIdx, lane, rcoords, if_true, List.tail_cons, List.headD_cons]
      refine ⟨?_, by rw [(c3 (fun r => g r) j hj.2).2]⟩
      apply flatMap_range_congr
      intro t ht
      rw [sel_colon_getD n t ht]
      simp only [Int.toNat_natCast]
      exact (c3 (fun r => g (t :: r)) j hj.2).1
  | true :: ms, n :: ns, .int k :: xs, h1, h2, hE => by
    simp only [List.map_cons, inputIndexKd, if_true, sliceShape, emptyKept, Bool.not_true,
      Bool.false_and, Bool.false_or] at hE
    obtain ⟨c1, c2, c3⟩ := kd_core (α := α) osz ms ns xs (by simpa using h1) (by simpa using h2) hE
    simp only [CoreFacts, List.map_cons, inputIndexKd, finalKd, if_true, sliceShape, redShape,
      sel_colon_length, List.length_cons] at c1 c2 c3 ⊢
    refine ⟨by rw [c1], c2, ?_⟩
    intro g j hj
    simp only [sliceIdx, lane, rcoords, if_true, List.tail_cons, List.headD_cons]
    refine ⟨?_, by rw [(c3 (fun r => g r) j hj).2]⟩
    apply flatMap_range_congr
    intro t ht
    rw [sel_colon_getD n t ht]
    simp only [Int.toNat_natCast]
    exact (c3 (fun r => g (t :: r)) j hj).1
  | false :: ms, n :: ns, .slc s :: xs, h1, h2, hE => by
    simp only [List.map_cons, inputIndexKd, intToSlice, Bool.false_eq_true, if_false, sliceShape, emptyKept,
      Bool.not_false, Bool.true_and, Bool.or_eq_false_iff] at hE
    obtain ⟨c1, c2, c3⟩ := kd_core (α := α) osz ms ns xs (by simpa using h1) (by simpa using h2) hE.2
    simp only [CoreFacts, List.map_cons, inputIndexKd, finalKd, intToSlice, extract, Bool.false_eq_true,
      if_false, sliceShape, redShape, sel_colon_length, List.length_cons] at c1 c2 c3 ⊢
    refine ⟨by rw [c1], by rw [c2], ?_⟩
    intro g j hj
    cases j with
    | nil => simp [InB] at hj
    | cons a j =>
      simp only [InB] at hj
      simp only [sliceIdx, lane, rcoords, List.tail_cons, List.headD_cons]
      rw [sel_colon_getD _ a hj.1]
      simp only [Int.toNat_natCast]
      exact c3 (fun r => g (((sel s n).getD a 0).toNat :: r)) j hj.2
  | false :: ms, n :: ns, .int k :: xs, h1, h2, hE => by
    simp only [List.map_cons, inputIndexKd, intToSlice, Bool.false_eq_true, if_false, sliceShape, emptyKept,
      Bool.not_false, Bool.true_and, Bool.or_eq_false_iff] at hE
    have hne : (sel ⟨some k, some (k + 1), none⟩ n).length ≠ 0 := by
      intro h0; rw [h0] at hE; simp at hE
    have hsel := sel_int_slice k n hne
    obtain ⟨c1, c2, c3⟩ := kd_core (α := α) osz ms ns xs (by simpa using h1) (by simpa using h2) hE.2
    simp only [CoreFacts, List.map_cons, inputIndexKd, finalKd, intToSlice, extract, Bool.false_eq_true,
      if_false, sliceShape, redShape, hsel, List.length_cons, List.length_nil] at c1 c2 c3 ⊢
    refine ⟨by rw [c1], c2, ?_⟩
    intro g j hj
    simp only [sliceIdx, lane, rcoords, List.tail_cons, List.headD_cons, hsel]
    have := c3 (fun r => g ((posifyInt n k).toNat :: r)) j hj
    simpa [posifyInt] using this
  | [], _ :: _, _, h1, _, _ => by simp at h1
  | _ :: _, [], _, h1, _, _ => by simp at h1
  | _ :: _, _ :: _, [], _, h2, _ => by simp at h2
  | [], [], _ :: _, _, h2, _ => by simp at h2

/-! ### keepdims = False -/

def nKept (msk : List Bool) : Nat := (msk.filter (fun m => !m)).length

theorem nokd_core {α : Type} (osz : Nat) : ∀ (msk : List Bool) (sh : List Nat) (full : List Ix),
    msk.length = sh.length → full.length = nKept msk →
    emptyKept msk (sliceShape sh ((inputIndexNoKd msk (full.map intToSlice)).map Ix.slc)) = false →
    CoreFacts α osz false msk sh full (inputIndexNoKd msk (full.map intToSlice)) (finalNoKd full)
  | [], [], [], _, _, _ => by
    refine ⟨rfl, rfl, ?_⟩
    intro g j _
    simp [inputIndexNoKd, sliceShape, sliceIdx, lane, rcoords]
  | true :: ms, n :: ns, full, h1, h2, hE => by
    simp only [inputIndexNoKd, List.map_cons, sliceShape, emptyKept, Bool.not_true,
      Bool.false_and, Bool.false_or] at hE
    obtain ⟨c1, c2, c3⟩ := nokd_core (α := α) osz ms ns full (by simpa using h1) (by simpa [nKept] using h2) hE
    simp only [CoreFacts, inputIndexNoKd, List.map_cons, sliceShape, redShape, Bool.false_eq_true, if_false,
      sel_colon_length] at c1 c2 c3 ⊢
    refine ⟨c1, c2, ?_⟩
    intro g j hj
    simp only [lane, rcoords, Bool.false_eq_true, if_false]
    refine ⟨?_, (c3 (fun r => g r) j hj).2⟩
    apply flatMap_range_congr
    intro t ht
    simp only [sliceIdx]
    rw [sel_colon_getD n t ht]
    simp only [Int.toNat_natCast]
    exact (c3 (fun r => g (t :: r)) j hj).1
  | false :: ms, n :: ns, .slc s :: xs, h1, h2, hE => by
    simp only [List.map_cons, inputIndexNoKd, intToSlice, sliceShape, emptyKept,
      Bool.not_false, Bool.true_and, Bool.or_eq_false_iff] at hE
    obtain ⟨c1, c2, c3⟩ := nokd_core (α := α) osz ms ns xs (by simpa using h1) (by simpa [nKept] using h2) hE.2
    simp only [CoreFacts, List.map_cons, inputIndexNoKd, finalNoKd, intToSlice, extract,
      sliceShape, redShape, sel_colon_length, List.length_cons] at c1 c2 c3 ⊢
    refine ⟨by rw [c1], by rw [c2], ?_⟩
    intro g j hj
    cases j with
    | nil => simp [InB] at hj
    | cons a j =>
      simp only [InB] at hj
      simp only [sliceIdx, lane, rcoords, List.tail_cons, List.headD_cons]
      rw [sel_colon_getD _ a hj.1]
      simp only [Int.toNat_natCast]
      exact c3 (fun r => g (((sel s n).getD a 0).toNat :: r)) j hj.2
  | false :: ms, n :: ns, .int k :: xs, h1, h2, hE => by
    simp only [List.map_cons, inputIndexNoKd, intToSlice, sliceShape, emptyKept,
      Bool.not_false, Bool.true_and, Bool.or_eq_false_iff] at hE
    have hne : (sel ⟨some k, some (k + 1), none⟩ n).length ≠ 0 := by
      intro h0; rw [h0] at hE; simp at hE
    have hsel := sel_int_slice k n hne
    obtain ⟨c1, c2, c3⟩ := nokd_core (α := α) osz ms ns xs (by simpa using h1) (by simpa [nKept] using h2) hE.2
    simp only [CoreFacts, List.map_cons, inputIndexNoKd, finalNoKd, intToSlice, extract,
      sliceShape, redShape, hsel, List.length_cons, List.length_nil] at c1 c2 c3 ⊢
    refine ⟨by rw [c1], c2, ?_⟩
    intro g j hj
    simp only [sliceIdx, lane, rcoords, List.tail_cons, List.headD_cons, hsel]
    have := c3 (fun r => g ((posifyInt n k).toNat :: r)) j hj
    simpa [posifyInt] using this
  | [], _ :: _, _, h1, _, _ => by simp at h1
  | _ :: _, [], _, h1, _, _ => by simp at h1
  | false :: _, _ :: _, [], _, h2, _ => by simp [nKept] at h2
  | [], [], _ :: _, _, h2, _ => by simp [nKept] at h2

/-! ### assembling the rule -/

theorem mask_length (n : Nat) (axes : List Nat) : (mask n axes).length = n := by
  simp [mask]

theorem noNone_length : ∀ (index : List RIx), index.any RIx.isNone = false →
    (index.filterMap RIx.toIx?).length = index.length
  | [], _ => rfl
  | .none :: _, h => by simp [RIx.isNone] at h
  | .int k :: r, h => by
    have := noNone_length r (by simpa [RIx.isNone] using h)
    simp [RIx.toIx?, this]
  | .slc s :: r, h => by
    have := noNone_length r (by simpa [RIx.isNone] using h)
    simp [RIx.toIx?, this]

theorem fullIndex_length (msk : List Bool) (kd : Bool) (index : List Ix)
    (h : index.length ≤ outNdim msk kd) : (fullIndex msk kd index).length = outNdim msk kd := by
  simp [fullIndex]; omega

/-- an all-`slice(None)` index is the identity -/
theorem slice_all_colon : ∀ (sh : List Nat) (fin : List Ix), fin.length = sh.length →
    fin.any (fun x => x != Ix.slc colon) = false →
    sliceShape sh fin = sh ∧ ∀ j, InB j sh → sliceIdx sh fin j = j
  | [], [], _, _ => by
    refine ⟨rfl, ?_⟩
    intro j hj
    cases j with
    | nil => rfl
    | cons _ _ => simp [InB] at hj
  | n :: ns, x :: xs, h1, h2 => by
    simp only [List.any_cons, Bool.or_eq_false_iff, bne_eq_false_iff_eq] at h2
    obtain ⟨i1, i2⟩ := slice_all_colon ns xs (by simpa using h1) h2.2
    rw [h2.1]
    simp only [sliceShape, sel_colon_length, i1, true_and]
    intro j hj
    cases j with
    | nil => simp [InB] at hj
    | cons a j =>
      simp only [InB] at hj
      simp only [sliceIdx]
      rw [sel_colon_getD n a hj.1, i2 j hj.2]
      simp
  | [], _ :: _, h1, _ => by simp at h1
  | _ :: _, [], h1, _ => by simp at h1

/-- the facts of a firing `splitIndex` -/
theorem split_facts {sh : List Nat} {axes : List Nat} {kd : Bool} {obj : Bool} {index : List RIx} {sp : Split}
    (h : splitIndex sh axes kd obj index = some sp) :
    index.any RIx.isNone = false ∧ obj = false ∧
    sp.inp = inputIndex (mask sh.length axes) kd (fullIndex (mask sh.length axes) kd (index.filterMap RIx.toIx?)) ∧
    sp.out = finalIndex (mask sh.length axes) kd (fullIndex (mask sh.length axes) kd (index.filterMap RIx.toIx?)) ∧
    sp.outer = sp.out.any (fun x => x != Ix.slc colon) ∧
    sp.inp.all (fun s => s == colon) = false ∧
    emptyKept (mask sh.length axes) (sliceShape sh (sp.inp.map Ix.slc)) = false := by
  unfold splitIndex at h
  split at h
  · exact absurd h (by simp)
  · rename_i hn
    split at h
    · exact absurd h (by simp)
    · rename_i ho
      simp only at h
      split at h
      · exact absurd h (by simp)
      · rename_i hc
        split at h
        · exact absurd h (by simp)
        · rename_i he
          injection h with h
          subst h
          exact ⟨by simpa using hn, by simpa using ho, rfl, rfl, rfl, by simpa using hc, by simpa using he⟩

theorem core_of_split {α : Type} (osz : Nat) {sh : List Nat} {axes : List Nat} {kd : Bool} {obj : Bool} {index : List RIx}
    {sp : Split} (h : splitIndex sh axes kd obj index = some sp)
    (hlen : index.length ≤ outNdim (mask sh.length axes) kd) :
    CoreFacts α osz kd (mask sh.length axes) sh
      (fullIndex (mask sh.length axes) kd (index.filterMap RIx.toIx?)) sp.inp sp.out := by
  obtain ⟨f1, _, f2, f3, _, _, f6⟩ := split_facts h
  have hl := fullIndex_length (mask sh.length axes) kd (index.filterMap RIx.toIx?)
    (by rw [noNone_length index f1]; exact hlen)
  rw [f2] at f6
  rw [f2, f3]
  cases kd with
  | true =>
    simp only [inputIndex, finalIndex, if_true] at f6 ⊢
    exact kd_core osz _ sh _ (mask_length _ _) (by rw [hl]; simp [outNdim, mask_length]) f6
  | false =>
    simp only [inputIndex, finalIndex, Bool.false_eq_true, if_false] at f6 ⊢
    exact nokd_core osz _ sh _ (mask_length _ _) (by rw [hl]; simp [outNdim, nKept]) f6

/-- (reduce x)[index] = (reduce (x[input_index]))[final_index] -/
theorem split_sound {α β : Type} [Inhabited β] (r : List α → List β) (osz : Nat) (x : Arr α)
    (axes : List Nat) (kd : Bool) (obj : Bool) (index : List RIx) (sp : Split)
    (h : splitIndex x.shape axes kd obj index = some sp)
    (hlen : index.length ≤ outNdim (mask x.shape.length axes) kd) :
    Arr.Equiv (pushed r osz kd (mask x.shape.length axes) x sp)
      (original r osz kd (mask x.shape.length axes) x (index.filterMap RIx.toIx?)) := by
  have hc := core_of_split (α := α) osz h hlen
  simp only [CoreFacts] at hc
  obtain ⟨c1, c2, c3⟩ := hc
  obtain ⟨_, _, _, _, f4, _, _⟩ := split_facts h
  cases ho : sp.outer with
  | true =>
    refine ⟨?_, ?_⟩
    · simp only [pushed, ho, if_true, original, sliceArr, reduceArr]
      exact c2
    · intro j hj
      simp only [pushed, ho, if_true, original, sliceArr, reduceArr] at hj ⊢
      rw [c2] at hj
      obtain ⟨e1, e2⟩ := c3 x.get j hj
      rw [e1, e2]
  | false =>
    rw [ho] at f4
    obtain ⟨i1, i2⟩ := slice_all_colon _ sp.out c1 f4.symm
    refine ⟨?_, ?_⟩
    · simp only [pushed, ho, Bool.false_eq_true, if_false, original, sliceArr, reduceArr]
      rw [← c2, i1]
    · intro j hj
      simp only [pushed, ho, Bool.false_eq_true, if_false, original, sliceArr, reduceArr] at hj ⊢
      have hj2 := hj
      rw [← i1, c2] at hj2
      obtain ⟨e1, e2⟩ := c3 x.get j hj2
      rw [i2 j hj] at e1 e2
      rw [e1, e2]

/-! ### what reaches the input, what stays on the output -/

theorem mask_getD (n : Nat) (axes : List Nat) (ax : Nat) (h : ax < n) :
    (mask n axes).getD ax false = axes.contains ax := by
  simp [mask, List.getD_eq_getElem?_getD, h]

theorem finalKd_reduced : ∀ (msk : List Bool) (full : List Ix) (ax : Nat) (d : Ix),
    msk.getD ax false = true → (finalKd msk full).getD ax d = full.getD ax d
  | [], _, ax, _, h => by simp at h
  | _ :: _, [], _, _, _ => by simp [finalKd]
  | m :: ms, x :: xs, 0, d, h => by
    simp only [List.getD_cons_zero] at h
    simp only [finalKd, h, if_true, List.getD_cons_zero]
  | m :: ms, x :: xs, ax + 1, d, h => by
    simp only [List.getD_cons_succ] at h
    simp only [finalKd, List.getD_cons_succ]
    exact finalKd_reduced ms xs ax d h

theorem finalKd_kept : ∀ (msk : List Bool) (full : List Ix) (ax : Nat),
    ax < msk.length → ax < full.length → msk.getD ax true = false →
    (finalKd msk full).getD ax (Ix.slc colon) = extract (full.getD ax (Ix.slc colon))
  | [], _, ax, h, _, _ => by simp at h
  | _ :: _, [], _, _, h, _ => by simp at h
  | m :: ms, x :: xs, 0, _, _, h => by
    simp only [List.getD_cons_zero] at h
    simp only [finalKd, h, Bool.false_eq_true, if_false, List.getD_cons_zero]
  | m :: ms, x :: xs, ax + 1, h1, h2, h => by
    simp only [List.getD_cons_succ] at h
    simp only [finalKd, List.getD_cons_succ]
    exact finalKd_kept ms xs ax (by simpa using h1) (by simpa using h2) h

theorem inputKd_reduced : ∀ (msk : List Bool) (ss : List PySlice) (ax : Nat),
    msk.getD ax false = true → (inputIndexKd msk ss).getD ax colon = colon
  | [], _, ax, h => by simp at h
  | _ :: _, [], _, _ => by simp [inputIndexKd]
  | m :: ms, s :: ss, 0, h => by
    simp only [List.getD_cons_zero] at h
    simp only [inputIndexKd, h, if_true, List.getD_cons_zero]
  | m :: ms, s :: ss, ax + 1, h => by
    simp only [List.getD_cons_succ] at h
    simp only [inputIndexKd, List.getD_cons_succ]
    exact inputKd_reduced ms ss ax h

theorem inputKd_kept : ∀ (msk : List Bool) (ss : List PySlice) (ax : Nat),
    msk.getD ax true = false → (inputIndexKd msk ss).getD ax colon = ss.getD ax colon
  | [], _, _, _ => by simp [inputIndexKd]
  | _ :: _, [], _, _ => by simp [inputIndexKd]
  | m :: ms, s :: ss, 0, h => by
    simp only [List.getD_cons_zero] at h
    simp only [inputIndexKd, h, Bool.false_eq_true, if_false, List.getD_cons_zero]
  | m :: ms, s :: ss, ax + 1, h => by
    simp only [List.getD_cons_succ] at h
    simp only [inputIndexKd, List.getD_cons_succ]
    exact inputKd_kept ms ss ax h

theorem inputNoKd_reduced : ∀ (msk : List Bool) (ss : List PySlice) (ax : Nat),
    msk.getD ax false = true → (inputIndexNoKd msk ss).getD ax colon = colon
  | [], _, ax, h => by simp at h
  | true :: ms, ss, 0, _ => by simp only [inputIndexNoKd, List.getD_cons_zero]
  | true :: ms, ss, ax + 1, h => by
    simp only [List.getD_cons_succ] at h
    simp only [inputIndexNoKd, List.getD_cons_succ]
    exact inputNoKd_reduced ms ss ax h
  | false :: ms, [], _, _ => by simp [inputIndexNoKd]
  | false :: ms, s :: ss, 0, h => by simp at h
  | false :: ms, s :: ss, ax + 1, h => by
    simp only [List.getD_cons_succ] at h
    simp only [inputIndexNoKd, List.getD_cons_succ]
    exact inputNoKd_reduced ms ss ax h

/-- keepdims=False: output axis `j` is the `j`-th kept input axis `a`, and its item goes to position `a` -/
theorem outAxis_spec : ∀ (msk : List Bool) (off j a : Nat) (ss : List PySlice),
    outAxis msk off j = some a →
    off ≤ a ∧ a - off < msk.length ∧ msk.getD (a - off) true = false ∧
      ((msk.take (a - off)).filter (fun m => !m)).length = j ∧
      (inputIndexNoKd msk ss).getD (a - off) colon = ss.getD j colon
  | [], _, _, _, _, h => by simp [outAxis] at h
  | true :: ms, off, j, a, ss, h => by
    simp only [outAxis] at h
    obtain ⟨i1, i2, i3, i4, i5⟩ := outAxis_spec ms (off + 1) j a ss h
    have e : a - off = (a - (off + 1)) + 1 := by omega
    rw [e]
    simp only [List.getD_cons_succ, inputIndexNoKd, List.length_cons, List.take_succ_cons, List.filter_cons,
      Bool.not_true, Bool.false_eq_true, if_false]
    exact ⟨by omega, by omega, i3, i4, i5⟩
  | false :: ms, off, 0, a, ss, h => by
    simp only [outAxis, Option.some.injEq] at h
    subst h
    cases ss <;> simp [inputIndexNoKd]
  | false :: ms, off, j + 1, a, ss, h => by
    simp only [outAxis] at h
    cases ss with
    | nil =>
      obtain ⟨i1, i2, i3, i4, _⟩ := outAxis_spec ms (off + 1) j a [] h
      have e : a - off = (a - (off + 1)) + 1 := by omega
      rw [e]
      simp only [List.getD_cons_succ, inputIndexNoKd, List.length_cons, List.take_succ_cons, List.filter_cons,
        Bool.not_false, if_true]
      exact ⟨by omega, by omega, i3, by omega, by simp⟩
    | cons s ss =>
      obtain ⟨i1, i2, i3, i4, i5⟩ := outAxis_spec ms (off + 1) j a ss h
      have e : a - off = (a - (off + 1)) + 1 := by omega
      rw [e]
      simp only [List.getD_cons_succ, inputIndexNoKd, List.length_cons, List.take_succ_cons, List.filter_cons,
        Bool.not_false, if_true]
      exact ⟨by omega, by omega, i3, by omega, i5⟩

theorem decline_iff (sh : List Nat) (axes : List Nat) (kd : Bool) (obj : Bool) (index : List RIx) :
    splitIndex sh axes kd obj index = none ↔
      (index.any RIx.isNone = true ∨ obj = true ∨
       (inputIndex (mask sh.length axes) kd
          (fullIndex (mask sh.length axes) kd (index.filterMap RIx.toIx?))).all (fun s => s == colon) = true ∨
       emptyKept (mask sh.length axes) (sliceShape sh ((inputIndex (mask sh.length axes) kd
          (fullIndex (mask sh.length axes) kd (index.filterMap RIx.toIx?))).map Ix.slc)) = true) := by
  unfold splitIndex
  by_cases h1 : index.any RIx.isNone = true
  · simp [h1]
  · simp only [h1, Bool.false_eq_true, if_false, false_or]
    cases obj with
    | true => simp
    | false =>
    simp only [Bool.false_eq_true, if_false, false_or]
    by_cases h2 : (inputIndex (mask sh.length axes) kd
          (fullIndex (mask sh.length axes) kd (index.filterMap RIx.toIx?))).all (fun s => s == colon) = true
    · simp [h2]
    · simp only [h2, Bool.false_eq_true, if_false, false_or]
      by_cases h3 : emptyKept (mask sh.length axes) (sliceShape sh ((inputIndex (mask sh.length axes) kd
          (fullIndex (mask sh.length axes) kd (index.filterMap RIx.toIx?))).map Ix.slc)) = true
      · simp [h3]
      · simp [h3]

theorem mask_getD_true (n : Nat) (axes : List Nat) (ax : Nat) (h : ax < n) :
    (mask n axes).getD ax true = axes.contains ax := by
  simp [mask, List.getD_eq_getElem?_getD, h]

theorem kept_axis_index_preserved (sh : List Nat) (axes : List Nat) (obj : Bool) (index : List RIx) (sp : Split)
    (h : splitIndex sh axes true obj index = some sp) (ax : Nat) (hax : ax < sh.length) (hred : axes.contains ax = true)
    (d : Ix) :
    sp.out.getD ax d = (fullIndex (mask sh.length axes) true (index.filterMap RIx.toIx?)).getD ax d ∧
    sp.inp.getD ax colon = colon := by
  obtain ⟨_, _, f2, f3, _, _, _⟩ := split_facts h
  have hm : (mask sh.length axes).getD ax false = true := by rw [mask_getD _ _ _ hax]; exact hred
  rw [f2, f3]
  exact ⟨finalKd_reduced _ _ ax d hm, inputKd_reduced _ _ ax hm⟩

theorem kept_input_axis (sh : List Nat) (axes : List Nat) (obj : Bool) (index : List RIx) (sp : Split)
    (h : splitIndex sh axes true obj index = some sp) (hlen : index.length ≤ sh.length)
    (ax : Nat) (hax : ax < sh.length) (hkept : axes.contains ax = false) :
    sp.inp.getD ax colon
      = ((fullIndex (mask sh.length axes) true (index.filterMap RIx.toIx?)).map intToSlice).getD ax colon ∧
    sp.out.getD ax (Ix.slc colon)
      = extract ((fullIndex (mask sh.length axes) true (index.filterMap RIx.toIx?)).getD ax (Ix.slc colon)) := by
  obtain ⟨f1, _, f2, f3, _, _, _⟩ := split_facts h
  have hm : (mask sh.length axes).getD ax true = false := by rw [mask_getD_true _ _ _ hax]; exact hkept
  have hl := fullIndex_length (mask sh.length axes) true (index.filterMap RIx.toIx?)
    (by rw [noNone_length index f1]; simpa [outNdim, mask_length] using hlen)
  rw [f2, f3]
  simp only [inputIndex, finalIndex, if_true]
  exact ⟨inputKd_kept _ _ ax hm,
    finalKd_kept _ _ ax (by rw [mask_length]; exact hax) (by rw [hl]; simpa [outNdim, mask_length] using hax) hm⟩

theorem reduced_axis_full (sh : List Nat) (axes : List Nat) (kd : Bool) (obj : Bool) (index : List RIx) (sp : Split)
    (h : splitIndex sh axes kd obj index = some sp) (ax : Nat) (hax : ax < sh.length) (hred : axes.contains ax = true) :
    sp.inp.getD ax colon = colon := by
  obtain ⟨_, _, f2, _, _, _, _⟩ := split_facts h
  have hm : (mask sh.length axes).getD ax false = true := by rw [mask_getD _ _ _ hax]; exact hred
  rw [f2]
  cases kd with
  | true => simp only [inputIndex, if_true]; exact inputKd_reduced _ _ ax hm
  | false => simp only [inputIndex, Bool.false_eq_true, if_false]; exact inputNoKd_reduced _ _ ax hm

theorem axis_renumbering (sh : List Nat) (axes : List Nat) (obj : Bool) (index : List RIx) (sp : Split)
    (h : splitIndex sh axes false obj index = some sp) (j a : Nat)
    (hj : outAxis (mask sh.length axes) 0 j = some a) :
    a < sh.length ∧ axes.contains a = false ∧
    (((mask sh.length axes).take a).filter (fun m => !m)).length = j ∧
    sp.inp.getD a colon
      = ((fullIndex (mask sh.length axes) false (index.filterMap RIx.toIx?)).map intToSlice).getD j colon := by
  obtain ⟨_, _, f2, _, _, _, _⟩ := split_facts h
  obtain ⟨_, i2, i3, i4, i5⟩ := outAxis_spec (mask sh.length axes) 0 j a
    ((fullIndex (mask sh.length axes) false (index.filterMap RIx.toIx?)).map intToSlice) hj
  simp only [Nat.sub_zero] at i2 i3 i4 i5
  rw [mask_length] at i2
  refine ⟨i2, ?_, i4, ?_⟩
  · rw [← mask_getD_true _ _ _ i2]; exact i3
  · rw [f2]; simp only [inputIndex, Bool.false_eq_true, if_false]; exact i5

end Dask.RedSlice
