/-
Algebra of 1-d slices: `normalize_slice`, `fuse_slice`, `_compose_slices` preserve the
selected positions.  Core Lean only.
-/
import DaskArrayModel.Model.Slicing
namespace Dask.Lemmas.SliceAlgebra
open Dask.Py Dask.Py.PySlice Dask.Slicing

/-! ### clamp lemmas -/

theorem adjust_false_bounds (v n : Int) (hn : 0 ≤ n) :
    0 ≤ adjust v n false ∧ adjust v n false ≤ n := by
  unfold adjust; simp only [Bool.false_eq_true, if_false]
  split <;> split <;> omega

theorem adjust_true_bounds (v n : Int) (hn : 0 ≤ n) :
    -1 ≤ adjust v n true ∧ adjust v n true ≤ n - 1 := by
  unfold adjust; simp only [if_true]
  split <;> split <;> omega

theorem adjust_false_id (v n : Int) (h0 : 0 ≤ v) (h1 : v ≤ n) : adjust v n false = v := by
  unfold adjust; simp only [Bool.false_eq_true, if_false]
  split <;> split <;> omega

theorem adjust_true_id (v n : Int) (h0 : 0 ≤ v) (h1 : v ≤ n - 1) : adjust v n true = v := by
  unfold adjust; simp only [if_true]
  split <;> split <;> omega

/-- for a non-negative explicit bound and positive step the clamp is `min v n`. -/
theorem adjust_false_nonneg (v n : Int) (h0 : 0 ≤ v) :
    adjust v n false = if v > n then n else v := by
  unfold adjust; simp only [Bool.false_eq_true, if_false]
  split
  · omega
  · rfl

theorem istart_pos_bounds (s : PySlice) (n : Int) (hn : 0 ≤ n) (hc : 0 < s.stp) :
    0 ≤ s.istart n ∧ s.istart n ≤ n := by
  have h : ¬ s.stp < 0 := by omega
  unfold istart
  cases s.start with
  | none => simp [h]; omega
  | some v => simpa [h] using adjust_false_bounds v n hn

theorem istop_pos_bounds (s : PySlice) (n : Int) (hn : 0 ≤ n) (hc : 0 < s.stp) :
    0 ≤ s.istop n ∧ s.istop n ≤ n := by
  have h : ¬ s.stp < 0 := by omega
  unfold istop
  cases s.stop with
  | none => simp [h]; omega
  | some v => simpa [h] using adjust_false_bounds v n hn

theorem istart_neg_bounds (s : PySlice) (n : Int) (hn : 0 ≤ n) (hc : s.stp < 0) :
    -1 ≤ s.istart n ∧ s.istart n ≤ n - 1 := by
  unfold istart
  cases s.start with
  | none => simp [hc]; omega
  | some v => simpa [hc] using adjust_true_bounds v n hn

theorem istop_neg_bounds (s : PySlice) (n : Int) (hn : 0 ≤ n) (hc : s.stp < 0) :
    -1 ≤ s.istop n ∧ s.istop n ≤ n - 1 := by
  unfold istop
  cases s.stop with
  | none => simp [hc]; omega
  | some v => simpa [hc] using adjust_true_bounds v n hn

/-! ### `rangeLen` / `rangeList` -/

theorem lt_rangeLen_pos (a b c : Int) (hc : 0 < c) (i : Nat) :
    i < rangeLen a b c ↔ a + (i : Int) * c < b := by
  have hic : 0 ≤ (i : Int) * c := Int.mul_nonneg (Int.natCast_nonneg i) (Int.le_of_lt hc)
  unfold rangeLen
  simp only [gt_iff_lt, hc, if_true]
  split
  · rename_i hab
    have hq : 0 ≤ (b - a - 1) / c := Int.ediv_nonneg (by omega) (Int.le_of_lt hc)
    have key : (i : Int) ≤ (b - a - 1) / c ↔ (i : Int) * c ≤ b - a - 1 :=
      Int.le_ediv_iff_mul_le hc
    omega
  · omega

theorem lt_rangeLen_neg (a b c : Int) (hc : c < 0) (i : Nat) :
    i < rangeLen a b c ↔ b < a + (i : Int) * c := by
  have h := lt_rangeLen_pos (-a) (-b) (-c) (by omega) i
  have e : rangeLen a b c = rangeLen (-a) (-b) (-c) := by
    unfold rangeLen
    have h1 : ¬ c > 0 := by omega
    have h2 : -c > 0 := by omega
    simp only [h1, h2, hc, if_true, if_false]
    have e2 : -b - -a - 1 = a - b - 1 := by omega
    rw [e2]
    by_cases hba : b < a
    · have : -a < -b := by omega
      simp only [hba, this, if_true]
    · have : ¬ -a < -b := by omega
      simp only [hba, this, if_false]
  rw [e, h, Int.mul_neg]
  omega

theorem rangeLen_step_zero (a b : Int) : rangeLen a b 0 = 0 := by
  simp [rangeLen]

theorem nat_eq_of_lt_iff {k k' : Nat} (h : ∀ i : Nat, i < k ↔ i < k') : k = k' := by
  have h1 := h k
  have h2 := h k'
  omega

@[simp] theorem length_rangeList (a b c : Int) : (rangeList a b c).length = rangeLen a b c := by
  simp [rangeList]

theorem getElem?_rangeList (a b c : Int) (i : Nat) :
    (rangeList a b c)[i]? = if i < rangeLen a b c then some (a + (i : Int) * c) else none := by
  unfold rangeList
  split
  · rename_i h; simp [h]
  · rename_i h; simp [h]

theorem mem_rangeList (a b c p : Int) :
    p ∈ rangeList a b c ↔ ∃ i : Nat, i < rangeLen a b c ∧ p = a + (i : Int) * c := by
  unfold rangeList
  simp only [List.mem_map, List.mem_range]
  constructor
  · rintro ⟨i, hi, rfl⟩; exact ⟨i, hi, rfl⟩
  · rintro ⟨i, hi, rfl⟩; exact ⟨i, hi, rfl⟩

theorem rangeList_congr {a b c a' b' c' : Int}
    (hlen : rangeLen a b c = rangeLen a' b' c')
    (h : 0 < rangeLen a b c → a = a' ∧ c = c') : rangeList a b c = rangeList a' b' c' := by
  unfold rangeList
  rw [← hlen]
  apply List.map_congr_left
  intro i hi
  have hi' := List.mem_range.mp hi
  obtain ⟨rfl, rfl⟩ := h (by omega)
  rfl

theorem rangeLen_eq_zero_pos {a b c : Int} (hc : 0 < c) (h : b ≤ a) : rangeLen a b c = 0 := by
  have h1 : ¬ a < b := by omega
  simp [rangeLen, hc, h1]

theorem rangeLen_eq_zero_neg {a b c : Int} (hc : c < 0) (h : a ≤ b) : rangeLen a b c = 0 := by
  have h1 : ¬ b < a := by omega
  have h2 : ¬ 0 < c := by omega
  simp [rangeLen, hc, h1, h2]

/-! ### `sel` of explicit slices -/

theorem stp_mk_ite (x y : Option Int) (c : Int) :
    stp ⟨x, y, if c = 1 then none else some c⟩ = c := by
  by_cases h : c = 1 <;> simp [stp, h]

theorem stp_mk_ite' (x y : Option Int) (c : Int) :
    stp ⟨x, y, if c ≠ 1 then some c else none⟩ = c := by
  by_cases h : c = 1 <;> simp [stp, h]

theorem sel_mk_pos (x y z : Option Int) (n c : Int) (hz : stp ⟨x, y, z⟩ = c) (hc : 0 < c) :
    sel ⟨x, y, z⟩ n =
      rangeList ((x.map (fun v => adjust v n false)).getD 0)
        ((y.map (fun v => adjust v n false)).getD n) c := by
  have h : ¬ c < 0 := by omega
  unfold sel istart istop
  cases x <;> cases y <;> simp [h, hz]

theorem sel_mk_neg (x y z : Option Int) (n c : Int) (hz : stp ⟨x, y, z⟩ = c) (hc : c < 0) :
    sel ⟨x, y, z⟩ n =
      rangeList ((x.map (fun v => adjust v n true)).getD (n - 1))
        ((y.map (fun v => adjust v n true)).getD (-1)) c := by
  unfold sel istart istop
  cases x <;> cases y <;> simp [hc, hz]

/-- normalize_slice preserves the selected positions, for every slice and every axis length. -/
theorem sel_normalizeSlice (s : PySlice) (n : Int) (hn : 0 ≤ n) (hs : s.stp ≠ 0) :
    sel (normalizeSlice s n) n = sel s n := by
  rcases Int.lt_trichotomy s.stp 0 with hc | hc | hc
  · have hA := istart_neg_bounds s n hn hc
    have hB := istop_neg_bounds s n hn hc
    have h1 : ¬ s.stp > 0 := by omega
    have key : ∀ x y, sel ⟨x, y, some s.stp⟩ n =
        rangeList ((x.map (fun v => adjust v n true)).getD (n - 1))
          ((y.map (fun v => adjust v n true)).getD (-1)) s.stp :=
      fun x y => sel_mk_neg x y _ n s.stp rfl hc
    unfold normalizeSlice
    simp only [h1, hc, if_true, if_false]
    by_cases h2 : s.istart n ≥ n - 1
    · simp only [h2, if_true]
      rw [key]
      unfold sel
      have e : s.istart n = n - 1 := by omega
      by_cases h3 : s.istop n < 0
      · have e' : s.istop n = -1 := by omega
        simp [e, e']
      · simp [h3, e, adjust_true_id _ _ (by omega) hB.2]
    · simp only [h2, if_false]
      by_cases h4 : s.istart n < 0
      · simp only [h4, if_true]
        rw [key]
        unfold sel
        simp only [Option.map_some, Option.getD_some]
        apply rangeList_congr
        · rw [rangeLen_eq_zero_neg hc (Int.le_refl _), rangeLen_eq_zero_neg hc (by omega)]
        · intro h; rw [rangeLen_eq_zero_neg hc (Int.le_refl _)] at h; omega
      · simp only [h4, if_false]
        rw [key]
        unfold sel
        by_cases h3 : s.istop n < 0
        · have e' : s.istop n = -1 := by omega
          simp [e', adjust_true_id (s.istart n) n (by omega) (by omega)]
        · simp [h3, adjust_true_id (s.istart n) n (by omega) (by omega),
            adjust_true_id (s.istop n) n (by omega) (by omega)]
  · exact absurd hc hs
  · have hA := istart_pos_bounds s n hn hc
    have hB := istop_pos_bounds s n hn hc
    unfold normalizeSlice
    simp only [gt_iff_lt, hc, if_true]
    rw [sel_mk_pos _ _ _ n s.stp (stp_mk_ite _ _ _) hc]
    unfold sel
    by_cases h0 : s.istart n = 0 <;> by_cases h1 : s.istop n ≥ n <;>
      simp only [h0, h1, if_true, if_false]
    · have e : s.istop n = n := by omega
      simp [e]
    · simp [adjust_false_id _ _ hB.1 hB.2]
    · have e : s.istop n = n := by omega
      simp [e, adjust_false_id _ _ hA.1 hA.2]
    · by_cases h2 : s.istop n < s.istart n
      · simp only [h2, if_true, Option.map_some, Option.getD_some,
          adjust_false_id _ _ hA.1 hA.2]
        apply rangeList_congr
        · rw [rangeLen_eq_zero_pos hc (Int.le_refl _), rangeLen_eq_zero_pos hc (by omega)]
        · intro h; rw [rangeLen_eq_zero_pos hc (Int.le_refl _)] at h; omega
      · simp [h2, adjust_false_id _ _ hA.1 hA.2, adjust_false_id _ _ hB.1 hB.2]

example : sel (normalizeSlice ⟨some (-7), some 100, some 2⟩ 10) 10 = [3, 5, 7, 9] ∧
    normalizeSlice ⟨some (-7), some 100, some 2⟩ 10 = ⟨some 3, none, some 2⟩ ∧
    normalizeSlice ⟨some 20, some (-20), some (-3)⟩ 10 = ⟨none, none, some (-3)⟩ := by decide

/-- every position selected by a slice on an axis of length n is in bounds -/
theorem sel_bounds (s : PySlice) (n : Int) (hn : 0 ≤ n) (hs : s.stp ≠ 0) :
    ∀ p ∈ sel s n, 0 ≤ p ∧ p < n := by
  intro p hp
  unfold sel at hp
  obtain ⟨i, hi, rfl⟩ := (mem_rangeList _ _ _ _).mp hp
  rcases Int.lt_trichotomy s.stp 0 with hc | hc | hc
  · have h1 := (lt_rangeLen_neg _ _ _ hc i).mp hi
    have hA := istart_neg_bounds s n hn hc
    have hB := istop_neg_bounds s n hn hc
    have h2 : (i : Int) * s.stp ≤ 0 :=
      Int.mul_nonpos_of_nonneg_of_nonpos (Int.natCast_nonneg i) (Int.le_of_lt hc)
    omega
  · exact absurd hc hs
  · have h1 := (lt_rangeLen_pos _ _ _ hc i).mp hi
    have hA := istart_pos_bounds s n hn hc
    have hB := istop_pos_bounds s n hn hc
    have h2 : 0 ≤ (i : Int) * s.stp := Int.mul_nonneg (Int.natCast_nonneg i) (Int.le_of_lt hc)
    omega

example : sel ⟨some (-2), none, some (-3)⟩ 10 = [8, 5, 2] := by decide

end Dask.Lemmas.SliceAlgebra
