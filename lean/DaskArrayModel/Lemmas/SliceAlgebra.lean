/-
Algebra of 1-d slices: `normalize_slice`, `fuse_slice`, `_compose_slices` preserve the
selected positions.  Core Lean only.
-/
import DaskArrayModel.Model.Slicing
namespace Dask.Lemmas.SliceAlgebra
open Dask.Py Dask.Py.PySlice Dask.Slicing

/-! ### clamp lemmas -/

theorem adjust_false_bounds (v n : Int) (hn : 0 ≤ n) :
    0 ≤ adjust v n false ∧ adjust v n false ≤ n := by
  unfold adjust; simp only [Bool.false_eq_true, if_false]
  split <;> split <;> omega

theorem adjust_true_bounds (v n : Int) (hn : 0 ≤ n) :
    -1 ≤ adjust v n true ∧ adjust v n true ≤ n - 1 := by
  unfold adjust; simp only [if_true]
  split <;> split <;> omega

theorem adjust_false_id (v n : Int) (h0 : 0 ≤ v) (h1 : v ≤ n) : adjust v n false = v := by
  unfold adjust; simp only [Bool.false_eq_true, if_false]
  split <;> split <;> omega

theorem adjust_true_id (v n : Int) (h0 : 0 ≤ v) (h1 : v ≤ n - 1) : adjust v n true = v := by
  unfold adjust; simp only [if_true]
  split <;> split <;> omega

/-- for a non-negative explicit bound and positive step the clamp is `min v n`. -/
theorem adjust_false_nonneg (v n : Int) (h0 : 0 ≤ v) :
    adjust v n false = if v > n then n else v := by
  unfold adjust; simp only [Bool.false_eq_true, if_false]
  split
  · omega
  · rfl

theorem istart_pos_bounds (s : PySlice) (n : Int) (hn : 0 ≤ n) (hc : 0 < s.stp) :
    0 ≤ s.istart n ∧ s.istart n ≤ n := by
  have h : ¬ s.stp < 0 := by omega
  unfold istart
  cases s.start with
  | none => simp [h]; omega
  | some v => simpa [h] using adjust_false_bounds v n hn

theorem istop_pos_bounds (s : PySlice) (n : Int) (hn : 0 ≤ n) (hc : 0 < s.stp) :
    0 ≤ s.istop n ∧ s.istop n ≤ n := by
  have h : ¬ s.stp < 0 := by omega
  unfold istop
  cases s.stop with
  | none => simp [h]; omega
  | some v => simpa [h] using adjust_false_bounds v n hn

theorem istart_neg_bounds (s : PySlice) (n : Int) (hn : 0 ≤ n) (hc : s.stp < 0) :
    -1 ≤ s.istart n ∧ s.istart n ≤ n - 1 := by
  unfold istart
  cases s.start with
  | none => simp [hc]; omega
  | some v => simpa [hc] using adjust_true_bounds v n hn

theorem istop_neg_bounds (s : PySlice) (n : Int) (hn : 0 ≤ n) (hc : s.stp < 0) :
    -1 ≤ s.istop n ∧ s.istop n ≤ n - 1 := by
  unfold istop
  cases s.stop with
  | none => simp [hc]; omega
  | some v => simpa [hc] using adjust_true_bounds v n hn

/-! ### `rangeLen` / `rangeList` -/

theorem lt_rangeLen_pos (a b c : Int) (hc : 0 < c) (i : Nat) :
    i < rangeLen a b c ↔ a + (i : Int) * c < b := by
  have hic : 0 ≤ (i : Int) * c := Int.mul_nonneg (Int.natCast_nonneg i) (Int.le_of_lt hc)
  unfold rangeLen
  simp only [gt_iff_lt, hc, if_true]
  split
  · rename_i hab
    have hq : 0 ≤ (b - a - 1) / c := Int.ediv_nonneg (by omega) (Int.le_of_lt hc)
    have key : (i : Int) ≤ (b - a - 1) / c ↔ (i : Int) * c ≤ b - a - 1 :=
      Int.le_ediv_iff_mul_le hc
    omega
  · omega

theorem lt_rangeLen_neg (a b c : Int) (hc : c < 0) (i : Nat) :
    i < rangeLen a b c ↔ b < a + (i : Int) * c := by
  have h := lt_rangeLen_pos (-a) (-b) (-c) (by omega) i
  have e : rangeLen a b c = rangeLen (-a) (-b) (-c) := by
    unfold rangeLen
    have h1 : ¬ c > 0 := by omega
    have h2 : -c > 0 := by omega
    simp only [h1, h2, hc, if_true, if_false]
    have e2 : -b - -a - 1 = a - b - 1 := by omega
    rw [e2]
    by_cases hba : b < a
    · have : -a < -b := by omega
      simp only [hba, this, if_true]
    · have : ¬ -a < -b := by omega
      simp only [hba, this, if_false]
  rw [e, h, Int.mul_neg]
  omega

theorem rangeLen_step_zero (a b : Int) : rangeLen a b 0 = 0 := by
  simp [rangeLen]

theorem nat_eq_of_lt_iff {k k' : Nat} (h : ∀ i : Nat, i < k ↔ i < k') : k = k' := by
  have h1 := h k
  have h2 := h k'
  omega

@[simp] theorem length_rangeList (a b c : Int) : (rangeList a b c).length = rangeLen a b c := by
  simp [rangeList]

theorem getElem?_rangeList (a b c : Int) (i : Nat) :
    (rangeList a b c)[i]? = if i < rangeLen a b c then some (a + (i : Int) * c) else none := by
  unfold rangeList
  split
  · rename_i h; simp [h]
  · rename_i h; simp [h]

theorem mem_rangeList (a b c p : Int) :
    p ∈ rangeList a b c ↔ ∃ i : Nat, i < rangeLen a b c ∧ p = a + (i : Int) * c := by
  unfold rangeList
  simp only [List.mem_map, List.mem_range]
  constructor
  · rintro ⟨i, hi, rfl⟩; exact ⟨i, hi, rfl⟩
  · rintro ⟨i, hi, rfl⟩; exact ⟨i, hi, rfl⟩

theorem rangeList_congr {a b c a' b' c' : Int}
    (hlen : rangeLen a b c = rangeLen a' b' c')
    (h : 0 < rangeLen a b c → a = a' ∧ c = c') : rangeList a b c = rangeList a' b' c' := by
  unfold rangeList
  rw [← hlen]
  apply List.map_congr_left
  intro i hi
  have hi' := List.mem_range.mp hi
  obtain ⟨rfl, rfl⟩ := h (by omega)
  rfl

theorem rangeLen_eq_zero_pos {a b c : Int} (hc : 0 < c) (h : b ≤ a) : rangeLen a b c = 0 := by
  have h1 : ¬ a < b := by omega
  simp [rangeLen, hc, h1]

theorem rangeLen_eq_zero_neg {a b c : Int} (hc : c < 0) (h : a ≤ b) : rangeLen a b c = 0 := by
  have h1 : ¬ b < a := by omega
  have h2 : ¬ 0 < c := by omega
  simp [rangeLen, hc, h1, h2]

/-! ### `sel` of explicit slices -/

theorem stp_mk_ite (x y : Option Int) (c : Int) :
    stp ⟨x, y, if c = 1 then none else some c⟩ = c := by
  by_cases h : c = 1 <;> simp [stp, h]

theorem stp_mk_ite' (x y : Option Int) (c : Int) :
    stp ⟨x, y, if c ≠ 1 then some c else none⟩ = c := by
  by_cases h : c = 1 <;> simp [stp, h]

theorem sel_mk_pos (x y z : Option Int) (n c : Int) (hz : stp ⟨x, y, z⟩ = c) (hc : 0 < c) :
    sel ⟨x, y, z⟩ n =
      rangeList ((x.map (fun v => adjust v n false)).getD 0)
        ((y.map (fun v => adjust v n false)).getD n) c := by
  have h : ¬ c < 0 := by omega
  unfold sel istart istop
  cases x <;> cases y <;> simp [h, hz]

theorem sel_mk_neg (x y z : Option Int) (n c : Int) (hz : stp ⟨x, y, z⟩ = c) (hc : c < 0) :
    sel ⟨x, y, z⟩ n =
      rangeList ((x.map (fun v => adjust v n true)).getD (n - 1))
        ((y.map (fun v => adjust v n true)).getD (-1)) c := by
  unfold sel istart istop
  cases x <;> cases y <;> simp [hc, hz]

/-- normalize_slice preserves the selected positions, for every slice and every axis length. -/
theorem sel_normalizeSlice (s : PySlice) (n : Int) (hn : 0 ≤ n) (hs : s.stp ≠ 0) :
    sel (normalizeSlice s n) n = sel s n := by
  rcases Int.lt_trichotomy s.stp 0 with hc | hc | hc
  · have hA := istart_neg_bounds s n hn hc
    have hB := istop_neg_bounds s n hn hc
    have h1 : ¬ s.stp > 0 := by omega
    have key : ∀ x y, sel ⟨x, y, some s.stp⟩ n =
        rangeList ((x.map (fun v => adjust v n true)).getD (n - 1))
          ((y.map (fun v => adjust v n true)).getD (-1)) s.stp :=
      fun x y => sel_mk_neg x y _ n s.stp rfl hc
    unfold normalizeSlice
    simp only [h1, hc, if_true, if_false]
    by_cases h2 : s.istart n ≥ n - 1
    · simp only [h2, if_true]
      rw [key]
      unfold sel
      have e : s.istart n = n - 1 := by omega
      by_cases h3 : s.istop n < 0
      · have e' : s.istop n = -1 := by omega
        simp [e, e']
      · simp [h3, e, adjust_true_id _ _ (by omega) hB.2]
    · simp only [h2, if_false]
      by_cases h4 : s.istart n < 0
      · simp only [h4, if_true]
        rw [key]
        unfold sel
        simp only [Option.map_some, Option.getD_some]
        apply rangeList_congr
        · rw [rangeLen_eq_zero_neg hc (Int.le_refl _), rangeLen_eq_zero_neg hc (by omega)]
        · intro h; rw [rangeLen_eq_zero_neg hc (Int.le_refl _)] at h; omega
      · simp only [h4, if_false]
        rw [key]
        unfold sel
        by_cases h3 : s.istop n < 0
        · have e' : s.istop n = -1 := by omega
          simp [e', adjust_true_id (s.istart n) n (by omega) (by omega)]
        · simp [h3, adjust_true_id (s.istart n) n (by omega) (by omega),
            adjust_true_id (s.istop n) n (by omega) (by omega)]
  · exact absurd hc hs
  · have hA := istart_pos_bounds s n hn hc
    have hB := istop_pos_bounds s n hn hc
    unfold normalizeSlice
    simp only [gt_iff_lt, hc, if_true]
    rw [sel_mk_pos _ _ _ n s.stp (stp_mk_ite _ _ _) hc]
    unfold sel
    by_cases h0 : s.istart n = 0 <;> by_cases h1 : s.istop n ≥ n <;>
      simp only [h0, h1, if_true, if_false]
    · have e : s.istop n = n := by omega
      simp [e]
    · simp [adjust_false_id _ _ hB.1 hB.2]
    · have e : s.istop n = n := by omega
      simp [e, adjust_false_id _ _ hA.1 hA.2]
    · by_cases h2 : s.istop n < s.istart n
      · simp only [h2, if_true, Option.map_some, Option.getD_some,
          adjust_false_id _ _ hA.1 hA.2]
        apply rangeList_congr
        · rw [rangeLen_eq_zero_pos hc (Int.le_refl _), rangeLen_eq_zero_pos hc (by omega)]
        · intro h; rw [rangeLen_eq_zero_pos hc (Int.le_refl _)] at h; omega
      · simp [h2, adjust_false_id _ _ hA.1 hA.2, adjust_false_id _ _ hB.1 hB.2]

example : sel (normalizeSlice ⟨some (-7), some 100, some 2⟩ 10) 10 = [3, 5, 7, 9] ∧
    normalizeSlice ⟨some (-7), some 100, some 2⟩ 10 = ⟨some 3, none, some 2⟩ ∧
    normalizeSlice ⟨some 20, some (-20), some (-3)⟩ 10 = ⟨none, none, some (-3)⟩ := by decide

/-- every position selected by a slice on an axis of length n is in bounds -/
theorem sel_bounds (s : PySlice) (n : Int) (hn : 0 ≤ n) (hs : s.stp ≠ 0) :
    ∀ p ∈ sel s n, 0 ≤ p ∧ p < n := by
  intro p hp
  unfold sel at hp
  obtain ⟨i, hi, rfl⟩ := (mem_rangeList _ _ _ _).mp hp
  rcases Int.lt_trichotomy s.stp 0 with hc | hc | hc
  · have h1 := (lt_rangeLen_neg _ _ _ hc i).mp hi
    have hA := istart_neg_bounds s n hn hc
    have hB := istop_neg_bounds s n hn hc
    have h2 : (i : Int) * s.stp ≤ 0 :=
      Int.mul_nonpos_of_nonneg_of_nonpos (Int.natCast_nonneg i) (Int.le_of_lt hc)
    omega
  · exact absurd hc hs
  · have h1 := (lt_rangeLen_pos _ _ _ hc i).mp hi
    have hA := istart_pos_bounds s n hn hc
    have hB := istop_pos_bounds s n hn hc
    have h2 : 0 ≤ (i : Int) * s.stp := Int.mul_nonneg (Int.natCast_nonneg i) (Int.le_of_lt hc)
    omega

example : sel ⟨some (-2), none, some (-3)⟩ 10 = [8, 5, 2] := by decide

/-! ### picking a range out of a range -/

theorem filterMap_eq_map_of {α β} (f : α → Option β) (g : α → β) (l : List α)
    (h : ∀ x ∈ l, f x = some (g x)) : l.filterMap f = l.map g := by
  induction l with
  | nil => rfl
  | cons x xs ih =>
    have hx := h x (List.mem_cons_self ..)
    simp [hx, ih (fun y hy => h y (List.mem_cons_of_mem _ hy))]

/-- `i < len(range(A, Aend, ac))` for integer `i ≥ 0`. -/
theorem lt_rangeLen_pos_int (A Aend ac : Int) (hac : 0 < ac) (i : Int) (hi : 0 ≤ i) :
    i < (rangeLen A Aend ac : Int) ↔ A + i * ac < Aend := by
  have h := lt_rangeLen_pos A Aend ac hac i.toNat
  rw [Int.toNat_of_nonneg hi] at h
  omega

theorem filterMap_rangeList (A Aend ac B Bend bc : Int)
    (hin : ∀ j : Nat, j < rangeLen B Bend bc →
      0 ≤ B + (j : Int) * bc ∧ B + (j : Int) * bc < (rangeLen A Aend ac : Int)) :
    (rangeList B Bend bc).filterMap (fun i => (rangeList A Aend ac)[i.toNat]?) =
      (List.range (rangeLen B Bend bc)).map (fun j : Nat => A + (B + (j : Int) * bc) * ac) := by
  have e : rangeList B Bend bc =
      (List.range (rangeLen B Bend bc)).map (fun (i : Nat) => B + (i : Int) * bc) := rfl
  rw [e, List.filterMap_map]
  apply filterMap_eq_map_of
  intro j hj
  have hj' := List.mem_range.mp hj
  obtain ⟨h0, h1⟩ := hin j hj'
  simp only [Function.comp]
  rw [getElem?_rangeList]
  have : (B + (j : Int) * bc).toNat < rangeLen A Aend ac := by omega
  simp only [this, if_true, Int.toNat_of_nonneg h0]

/-- Core of slice composition: a range picked out of a range is again a range. -/
theorem compose_core (A Aend ac B Bend bc F Fend : Int)
    (hB : 0 ≤ B) (hbc : 0 < bc) (hBend : Bend ≤ (rangeLen A Aend ac : Int))
    (hcount : ∀ j : Nat, B + (j : Int) * bc < Bend ↔ F + (j : Int) * (ac * bc) < Fend)
    (hacbc : 0 < ac * bc)
    (hstart : B < Bend → F = A + B * ac) :
    rangeList F Fend (ac * bc) =
      (rangeList B Bend bc).filterMap (fun i => (rangeList A Aend ac)[i.toNat]?) := by
  have hlen : rangeLen F Fend (ac * bc) = rangeLen B Bend bc := by
    apply nat_eq_of_lt_iff
    intro j
    rw [lt_rangeLen_pos _ _ _ hacbc, lt_rangeLen_pos _ _ _ hbc]
    exact (hcount j).symm
  rw [filterMap_rangeList]
  · conv => lhs; unfold rangeList
    rw [hlen]
    apply List.map_congr_left
    intro j hj
    have hj' := List.mem_range.mp hj
    have h0 : B < Bend := by
      have := (lt_rangeLen_pos B Bend bc hbc 0).mp (by omega)
      simpa using this
    rw [hstart h0]
    simp only [Int.add_mul, Int.mul_assoc, Int.add_assoc, Int.mul_comm bc ac]
  · intro j hj
    have h1 := (lt_rangeLen_pos B Bend bc hbc j).mp hj
    have h2 : 0 ≤ (j : Int) * bc := Int.mul_nonneg (Int.natCast_nonneg j) (Int.le_of_lt hbc)
    omega

theorem clamp_cases (v n : Int) (h0 : 0 ≤ v) :
    (n < v ∧ adjust v n false = n) ∨ (v ≤ n ∧ adjust v n false = v) := by
  rw [adjust_false_nonneg v n h0]; split <;> omega

theorem length_sel (s : PySlice) (n : Int) :
    ((sel s n).length : Int) = (rangeLen (s.istart n) (s.istop n) s.stp : Int) := by
  unfold sel; rw [length_rangeList]

/-! ### `_compose_slices` -/

theorem composeSlices_eq (outer inner : PySlice) (n : Int) :
    composeSlices outer inner n =
      ⟨some (outer.istart n +
          inner.istart (rangeLen (outer.istart n) (outer.istop n) outer.stp : Int) * outer.stp),
        some (outer.istart n +
          inner.istop (rangeLen (outer.istart n) (outer.istop n) outer.stp : Int) * outer.stp),
        if outer.stp * inner.stp ≠ 1 then some (outer.stp * inner.stp) else none⟩ := by
  unfold composeSlices
  by_cases h : outer.stp ≠ 1 ∨ inner.stp ≠ 1
  · simp only [h, if_true]
  · have h1 : outer.stp = 1 := by omega
    have h2 : inner.stp = 1 := by omega
    simp [h1, h2]

/-- _compose_slices for positive steps: the composed slice selects what outer-then-inner selects. -/
theorem composeSlices_sel (outer inner : PySlice) (n : Int) (hn : 0 ≤ n)
    (ho : 0 < outer.stp) (hi : 0 < inner.stp) :
    sel (composeSlices outer inner n) n =
      (sel inner ((sel outer n).length : Int)).filterMap (fun i => (sel outer n)[i.toNat]?) := by
  rw [length_sel, composeSlices_eq]
  have hacbc : 0 < outer.stp * inner.stp := Int.mul_pos ho hi
  rw [sel_mk_pos _ _ _ n _ (stp_mk_ite' _ _ _) hacbc]
  simp only [Option.map_some, Option.getD_some]
  unfold sel
  generalize hA : outer.istart n = A
  generalize hAe : outer.istop n = Aend
  generalize hac : outer.stp = ac at *
  generalize hbc : inner.stp = bc at *
  have hL0 : (0 : Int) ≤ (rangeLen A Aend ac : Int) := Int.natCast_nonneg _
  have hBb := istart_pos_bounds inner _ hL0 (by omega)
  have hBe := istop_pos_bounds inner _ hL0 (by omega)
  have hAb := istart_pos_bounds outer n hn (by omega)
  have hAeb := istop_pos_bounds outer n hn (by omega)
  rw [hA] at hAb
  rw [hAe] at hAeb
  generalize hB : inner.istart (rangeLen A Aend ac : Int) = B at *
  generalize hBend : inner.istop (rangeLen A Aend ac : Int) = Bend at *
  have hP1 : 0 ≤ B * ac := Int.mul_nonneg hBb.1 (Int.le_of_lt ho)
  have hP4 : 0 ≤ Bend * ac := Int.mul_nonneg hBe.1 (Int.le_of_lt ho)
  have hF := clamp_cases (A + B * ac) n (by omega)
  have hFe := clamp_cases (A + Bend * ac) n (by omega)
  apply compose_core A Aend ac B Bend bc _ _ hBb.1 hi hBe.2 _ hacbc
  · intro hlt
    have hL := lt_rangeLen_pos_int A Aend ac ho B hBb.1
    omega
  · intro j
    have hjbc : 0 ≤ (j : Int) * bc := Int.mul_nonneg (Int.natCast_nonneg j) (Int.le_of_lt hi)
    have hP2 : 0 ≤ (j : Int) * (ac * bc) :=
      Int.mul_nonneg (Int.natCast_nonneg j) (Int.le_of_lt hacbc)
    have hP3 : (B + (j : Int) * bc) * ac = B * ac + (j : Int) * (ac * bc) := by
      rw [Int.add_mul, Int.mul_assoc, Int.mul_comm bc ac]
    have hcancel : B + (j : Int) * bc < Bend ↔ (B + (j : Int) * bc) * ac < Bend * ac :=
      (Int.mul_lt_mul_right ho).symm
    have hL := lt_rangeLen_pos_int A Aend ac ho (B + (j : Int) * bc) (by omega)
    omega

example : composeSlices ⟨some 1, some 20, some 3⟩ ⟨some 1, none, some 2⟩ 17 =
      ⟨some 4, some 19, some 6⟩ ∧
    sel ⟨some 4, some 19, some 6⟩ 17 = [4, 10, 16] ∧
    (sel ⟨some 1, none, some 2⟩ ((sel ⟨some 1, some 20, some 3⟩ 17).length : Int)).filterMap
      (fun i => (sel ⟨some 1, some 20, some 3⟩ 17)[i.toNat]?) = [4, 10, 16] := by decide

/-- The positivity hypothesis on the outer step is needed: `x[::-1][:]` on an axis of length 3
composes to `slice(2, -1, -1)`, which selects nothing. -/
example : sel (composeSlices ⟨none, none, some (-1)⟩ ⟨none, none, none⟩ 3) 3 ≠
    (sel ⟨none, none, none⟩ ((sel ⟨none, none, some (-1)⟩ 3).length : Int)).filterMap
      (fun i => (sel ⟨none, none, some (-1)⟩ 3)[i.toNat]?) := by decide

/-! ### `fuse_slice` -/

/-- the `stop` computed by `fuse_slice` for two normalised slices. -/
def fusedStop (a b : PySlice) : Option Int :=
  match a.stop, b.stop with
  | some x, some y => some (min x (a.start.getD 0 + a.stp * y))
  | some x, none => some x
  | none, some y => some (a.start.getD 0 + a.stp * y)
  | none, none => none

theorem fuseSliceSlice_eq (a b : PySlice) : fuseSliceSlice a b =
    if (a.start.getD 0 < 0 ∨ a.stp < 0 ∨ a.stop.getD 0 < 0) ∨
       (b.start.getD 0 < 0 ∨ b.stp < 0 ∨ b.stop.getD 0 < 0) then .error .notImplemented
    else .ok ⟨some (a.start.getD 0 + a.stp * b.start.getD 0), fusedStop a b,
      if a.stp * b.stp = 1 then none else some (a.stp * b.stp)⟩ := by
  unfold fuseSliceSlice normalizeForFusion fusedStop stp
  by_cases ha : (a.start.getD 0 < 0 ∨ a.step.getD 1 < 0 ∨ a.stop.getD 0 < 0)
  · simp [ha, bind, Except.bind]
  · by_cases hb : (b.start.getD 0 < 0 ∨ b.step.getD 1 < 0 ∨ b.stop.getD 0 < 0)
    · simp [ha, hb, bind, Except.bind]
    · simp only [ha, hb, bind, Except.bind, if_false, pure, Except.pure, or_self]
      cases a.stop <;> cases b.stop <;> simp

/-- fuse_slice refuses (NotImplementedError) exactly when some start/stop/step is negative -/
theorem fuseSliceSlice_error_iff (a b : PySlice) :
    (∃ f, fuseSliceSlice a b = .ok f) ↔
      (0 ≤ a.start.getD 0 ∧ 0 ≤ a.step.getD 1 ∧ 0 ≤ a.stop.getD 0 ∧
       0 ≤ b.start.getD 0 ∧ 0 ≤ b.step.getD 1 ∧ 0 ≤ b.stop.getD 0) := by
  rw [fuseSliceSlice_eq]
  unfold stp
  split
  · rename_i h
    constructor
    · rintro ⟨f, hf⟩; cases hf
    · intro h'; omega
  · rename_i h
    constructor
    · intro _; omega
    · intro _; exact ⟨_, rfl⟩

example : (∃ f, fuseSliceSlice ⟨some 1, some 20, some 2⟩ ⟨some 1, none, some 3⟩ = .ok f) ∧
    fuseSliceSlice ⟨some 1, some 20, some 2⟩ ⟨some (-1), none, none⟩ = .error .notImplemented := by
  exact ⟨(fuseSliceSlice_error_iff _ _).mpr (by decide), rfl⟩

theorem sel_stp_zero (s : PySlice) (n : Int) (h : s.stp = 0) : sel s n = [] := by
  unfold sel rangeList
  rw [h, rangeLen_step_zero]; rfl

theorem filterMap_getElem?_nil (l : List Int) :
    l.filterMap (fun i => ([] : List Int)[i.toNat]?) = [] := by
  induction l with
  | nil => rfl
  | cons x xs ih => simp

theorem istart_eq_of_pos (s : PySlice) (n : Int) (hn : 0 ≤ n) (hc : 0 < s.stp) :
    s.istart n = adjust (s.start.getD 0) n false := by
  have h : ¬ s.stp < 0 := by omega
  unfold istart
  cases s.start with
  | none => simp [h, adjust_false_id 0 n (Int.le_refl 0) hn]
  | some v => simp [h]

/-- the end of a range is reached after `len` steps. -/
theorem end_le (n a0 ac x : Int) (hac : 0 < ac) (ha0 : 0 ≤ a0) :
    adjust x n false ≤
      a0 + ac * (rangeLen (adjust a0 n false) (adjust x n false) ac : Int) := by
  have hL := lt_rangeLen_pos_int (adjust a0 n false) (adjust x n false) ac hac
    (rangeLen (adjust a0 n false) (adjust x n false) ac : Int) (Int.natCast_nonneg _)
  have hA := clamp_cases a0 n ha0
  rw [Int.mul_comm ac]
  omega

/-- numeric core of `fuse_slice` with both stops explicit. -/
theorem fuse_core (n a0 ac b0 bc x y : Int) (ha0 : 0 ≤ a0) (hb0 : 0 ≤ b0)
    (hac : 0 < ac) (hbc : 0 < bc) (hx : 0 ≤ x) (hy : 0 ≤ y) :
    rangeList (adjust (a0 + ac * b0) n false) (adjust (min x (a0 + ac * y)) n false) (ac * bc) =
      (rangeList
          (adjust b0 (rangeLen (adjust a0 n false) (adjust x n false) ac : Int) false)
          (adjust y (rangeLen (adjust a0 n false) (adjust x n false) ac : Int) false) bc).filterMap
        (fun i => (rangeList (adjust a0 n false) (adjust x n false) ac)[i.toNat]?) := by
  have hp : 0 ≤ b0 * ac := Int.mul_nonneg hb0 (Int.le_of_lt hac)
  have hq : 0 ≤ y * ac := Int.mul_nonneg hy (Int.le_of_lt hac)
  have hcomm1 : ac * b0 = b0 * ac := Int.mul_comm _ _
  have hcomm2 : ac * y = y * ac := Int.mul_comm _ _
  have hacbc : 0 < ac * bc := Int.mul_pos hac hbc
  have hA := clamp_cases a0 n ha0
  have hAe := clamp_cases x n hx
  have hF := clamp_cases (a0 + ac * b0) n (by omega)
  have hFe := clamp_cases (min x (a0 + ac * y)) n (by omega)
  generalize adjust a0 n false = A at *
  generalize adjust x n false = Aend at *
  generalize adjust (a0 + ac * b0) n false = F at *
  generalize adjust (min x (a0 + ac * y)) n false = Fend at *
  have hL0 : (0 : Int) ≤ (rangeLen A Aend ac : Int) := Int.natCast_nonneg _
  have hLb0 := lt_rangeLen_pos_int A Aend ac hac b0 hb0
  have hLi := fun (i : Int) (hi : 0 ≤ i) => lt_rangeLen_pos_int A Aend ac hac i hi
  have hB := clamp_cases b0 (rangeLen A Aend ac : Int) hb0
  have hBe := clamp_cases y (rangeLen A Aend ac : Int) hy
  generalize adjust b0 (rangeLen A Aend ac : Int) false = B at *
  generalize adjust y (rangeLen A Aend ac : Int) false = Bend at *
  generalize hLdef : (rangeLen A Aend ac : Int) = L at *
  apply compose_core A Aend ac B Bend bc F Fend (by omega) hbc (by omega) _ hacbc
  · intro hlt
    have hBb0 : B = b0 := by omega
    subst hBb0
    omega
  · intro j
    have hjbc : 0 ≤ (j : Int) * bc := Int.mul_nonneg (Int.natCast_nonneg j) (Int.le_of_lt hbc)
    have hP2 : 0 ≤ (j : Int) * (ac * bc) :=
      Int.mul_nonneg (Int.natCast_nonneg j) (Int.le_of_lt hacbc)
    have hP3 : (b0 + (j : Int) * bc) * ac = b0 * ac + (j : Int) * (ac * bc) := by
      rw [Int.add_mul, Int.mul_assoc, Int.mul_comm bc ac]
    have hcancel : b0 + (j : Int) * bc < y ↔ (b0 + (j : Int) * bc) * ac < y * ac :=
      (Int.mul_lt_mul_right hac).symm
    have hLi' := hLi (b0 + (j : Int) * bc) (by omega)
    omega

/-- fuse_slice(a, b) on two slices selects what applying a then b selects.
`pick l i` = l[i] for the positions i chosen by b inside the intermediate result. -/
theorem fuseSliceSlice_sel (a b f : PySlice) (n : Int) (hn : 0 ≤ n)
    (h : fuseSliceSlice a b = .ok f) :
    sel f n = (sel b ((sel a n).length : Int)).filterMap (fun i => (sel a n)[i.toNat]?) := by
  rw [fuseSliceSlice_eq] at h
  split at h
  · cases h
  · rename_i hneg
    injection h with h
    subst h
    have ha0 : 0 ≤ a.start.getD 0 := by omega
    have hb0 : 0 ≤ b.start.getD 0 := by omega
    have hx : 0 ≤ a.stop.getD 0 := by omega
    have hy : 0 ≤ b.stop.getD 0 := by omega
    by_cases hac0 : a.stp = 0
    · rw [sel_stp_zero a n hac0, filterMap_getElem?_nil]
      apply sel_stp_zero
      rw [stp_mk_ite, hac0, Int.zero_mul]
    by_cases hbc0 : b.stp = 0
    · rw [sel_stp_zero b _ hbc0]
      apply sel_stp_zero
      rw [stp_mk_ite, hbc0, Int.mul_zero]
    have hac : 0 < a.stp := by omega
    have hbc : 0 < b.stp := by omega
    have hacbc : 0 < a.stp * b.stp := Int.mul_pos hac hbc
    rw [length_sel, sel_mk_pos _ _ _ n _ (stp_mk_ite _ _ _) hacbc]
    simp only [Option.map_some, Option.getD_some]
    have hL0 : (0 : Int) ≤ (rangeLen (a.istart n) (a.istop n) a.stp : Int) :=
      Int.natCast_nonneg _
    have hnb : ¬ b.stp < 0 := by omega
    have hna : ¬ a.stp < 0 := by omega
    unfold sel
    rw [istart_eq_of_pos b _ hL0 hbc]
    rw [istart_eq_of_pos a n hn hac]
    unfold fusedStop istop
    have e1 : adjust n n false = n := adjust_false_id n n hn (Int.le_refl n)
    cases hsa : a.stop with
    | none =>
      cases hsb : b.stop with
      | none =>
        simp only [hna, hnb, if_false, Option.map_none, Option.getD_none]
        have hend := end_le n (a.start.getD 0) a.stp n hac ha0
        have key := fuse_core n (a.start.getD 0) a.stp (b.start.getD 0) b.stp n
          (rangeLen (adjust (a.start.getD 0) n false) n a.stp : Int)
          ha0 hb0 hac hbc hn (Int.natCast_nonneg _)
        rw [e1] at hend key
        have hL0' : (0 : Int) ≤ (rangeLen (adjust (a.start.getD 0) n false) n a.stp : Int) :=
          Int.natCast_nonneg _
        generalize (rangeLen (adjust (a.start.getD 0) n false) n a.stp : Int) = L at *
        have e2 : adjust L L false = L := adjust_false_id L L hL0' (Int.le_refl L)
        have e3 : adjust (min n (a.start.getD 0 + a.stp * L)) n false = n := by
          have := clamp_cases (min n (a.start.getD 0 + a.stp * L)) n (by omega)
          omega
        rw [e2, e3] at key
        exact key
      | some y =>
        simp only [hsb, Option.getD_some] at hy
        simp only [hna, hnb, decide_false, if_false, Option.map_some, Option.getD_some]
        have key := fuse_core n (a.start.getD 0) a.stp (b.start.getD 0) b.stp n y
          ha0 hb0 hac hbc hn hy
        rw [e1] at key
        have hq : 0 ≤ a.stp * y := Int.mul_nonneg (Int.le_of_lt hac) hy
        have e3 : adjust (min n (a.start.getD 0 + a.stp * y)) n false =
            adjust (a.start.getD 0 + a.stp * y) n false := by
          have h1 := clamp_cases (min n (a.start.getD 0 + a.stp * y)) n (by omega)
          have h2 := clamp_cases (a.start.getD 0 + a.stp * y) n (by omega)
          omega
        rw [e3] at key
        exact key
    | some x =>
      simp only [hsa, Option.getD_some] at hx
      cases hsb : b.stop with
      | none =>
        simp only [hna, hnb, decide_false, if_false, Option.map_some, Option.getD_some]
        have hend := end_le n (a.start.getD 0) a.stp x hac ha0
        have key := fuse_core n (a.start.getD 0) a.stp (b.start.getD 0) b.stp x
          (rangeLen (adjust (a.start.getD 0) n false) (adjust x n false) a.stp : Int)
          ha0 hb0 hac hbc hx (Int.natCast_nonneg _)
        have hL0' : (0 : Int) ≤
            (rangeLen (adjust (a.start.getD 0) n false) (adjust x n false) a.stp : Int) :=
          Int.natCast_nonneg _
        generalize
          (rangeLen (adjust (a.start.getD 0) n false) (adjust x n false) a.stp : Int) = L at *
        have e2 : adjust L L false = L := adjust_false_id L L hL0' (Int.le_refl L)
        have e3 : adjust (min x (a.start.getD 0 + a.stp * L)) n false = adjust x n false := by
          have h0 := adjust_false_bounds x n hn
          have h1 := clamp_cases (min x (a.start.getD 0 + a.stp * L)) n (by omega)
          have h2 := clamp_cases x n hx
          omega
        rw [e2, e3] at key
        exact key
      | some y =>
        simp only [hsb, Option.getD_some] at hy
        simp only [hna, hnb, decide_false, Option.map_some, Option.getD_some]
        exact fuse_core n _ _ _ _ x y ha0 hb0 hac hbc hx hy

example : fuseSliceSlice ⟨some 1, some 20, some 2⟩ ⟨some 1, none, some 3⟩ =
      .ok ⟨some 3, some 20, some 6⟩ ∧
    sel ⟨some 3, some 20, some 6⟩ 17 = [3, 9, 15] ∧
    (sel ⟨some 1, none, some 3⟩ ((sel ⟨some 1, some 20, some 2⟩ 17).length : Int)).filterMap
      (fun i => (sel ⟨some 1, some 20, some 2⟩ 17)[i.toNat]?) = [3, 9, 15] :=
  ⟨rfl, by decide, by decide⟩

theorem fuseSliceInt_eq (a : PySlice) (b : Int) : fuseSliceInt a b =
    if (a.start.getD 0 < 0 ∨ a.stp < 0 ∨ a.stop.getD 0 < 0) ∨ b < 0 then .error .notImplemented
    else .ok (a.start.getD 0 + b * a.stp) := by
  unfold fuseSliceInt normalizeForFusion stp
  by_cases ha : (a.start.getD 0 < 0 ∨ a.step.getD 1 < 0 ∨ a.stop.getD 0 < 0)
  · simp [ha, bind, Except.bind]
  · by_cases hb : b < 0
    · simp [ha, hb, bind, Except.bind]
    · simp [ha, hb, bind, Except.bind, pure, Except.pure]

/-- fuse_slice(a, b) for an integer b that is in range of the intermediate result (the bound that
normalize_index enforces before fusion is reachable). -/
theorem fuseSliceInt_sel (a : PySlice) (b r : Int) (n : Int) (hn : 0 ≤ n)
    (h : fuseSliceInt a b = .ok r) (hb : b < ((sel a n).length : Int)) :
    (sel a n)[b.toNat]? = some r := by
  rw [fuseSliceInt_eq] at h
  split at h
  · cases h
  · rename_i hneg
    injection h with h
    subst h
    have ha0 : 0 ≤ a.start.getD 0 := by omega
    have hb0 : 0 ≤ b := by omega
    rw [length_sel] at hb
    have hac : 0 < a.stp := by
      rcases Int.lt_trichotomy a.stp 0 with hc | hc | hc
      · omega
      · rw [hc, rangeLen_step_zero] at hb; omega
      · exact hc
    have hA := istart_eq_of_pos a n hn hac
    have hAe := istop_pos_bounds a n hn hac
    have hcl := clamp_cases (a.start.getD 0) n ha0
    have h0 := lt_rangeLen_pos_int (a.istart n) (a.istop n) a.stp hac 0 (Int.le_refl 0)
    have hAeq : a.istart n = a.start.getD 0 := by omega
    unfold sel
    rw [getElem?_rangeList]
    have hlt : b.toNat < rangeLen (a.istart n) (a.istop n) a.stp := by omega
    rw [if_pos hlt, Int.toNat_of_nonneg hb0, hAeq]

example : fuseSliceInt ⟨some 1, some 20, some 2⟩ 3 = .ok 7 ∧
    (3 : Int) < ((sel ⟨some 1, some 20, some 2⟩ 17).length : Int) ∧
    (sel ⟨some 1, some 20, some 2⟩ 17)[(3 : Int).toNat]? = some 7 := ⟨rfl, by decide, by decide⟩

/-! ### the hypotheses of the main theorems are jointly satisfiable on concrete inputs -/

example : sel (normalizeSlice ⟨some (-7), some 100, some 2⟩ 10) 10 =
    sel ⟨some (-7), some 100, some 2⟩ 10 :=
  sel_normalizeSlice ⟨some (-7), some 100, some 2⟩ 10 (by decide) (by decide)

example : ∀ p ∈ sel ⟨some (-2), none, some (-3)⟩ 10, 0 ≤ p ∧ p < 10 :=
  sel_bounds ⟨some (-2), none, some (-3)⟩ 10 (by decide) (by decide)

example := fuseSliceSlice_sel ⟨some 1, some 20, some 2⟩ ⟨some 1, none, some 3⟩
  ⟨some 3, some 20, some 6⟩ 17 (by decide) rfl

example := fuseSliceInt_sel ⟨some 1, some 20, some 2⟩ 3 7 17 (by decide) rfl (by decide)

example := composeSlices_sel ⟨some 1, some 20, some 3⟩ ⟨some 1, none, some 2⟩ 17
  (by decide) (by decide) (by decide)

end Dask.Lemmas.SliceAlgebra
