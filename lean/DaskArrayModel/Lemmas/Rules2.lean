/-
Phase 3 rewrite rules (Model/Rules2.lean): each rule is SOUND (on a well-formed expression its product
is well-formed, has the same NumPy shape and denotes the same array), facts about delivered chunks and
the termination measure of phase 2, the redistribution loop of rechunk-through-concatenate, and — through
the generic step / congruence theorems of phase 2 — soundness of every sequence of single-rule steps
that mixes the rules of phases 2 and 3 anywhere in a tree.
-/
import DaskArrayModel.Lemmas.RulesSound
import DaskArrayModel.Model.Rules2
namespace Dask.ND
open Dask.Py Dask.Py.PySlice Dask.Slicing

/-! ### slice through `broadcast_to` -/

theorem getD_drop2 {α} (l : List α) (k m : Nat) (d : α) : (l.drop k).getD m d = l.getD (k + m) d := by
  simp [List.getD_eq_getElem?_getD]

theorem bcOK_getD2 : ∀ (cl ol : Layout), bcOK cl ol = true → ∀ m, m < cl.length →
    cl.getD m [] = [1] ∨ cl.getD m [] = ol.getD m []
  | [], [], _, m, hm => by simp at hm
  | cc :: cl, oc :: ol, h, 0, _ => by rw [bcOK_cons] at h; simpa using h.1
  | cc :: cl, oc :: ol, h, m + 1, hm => by
    rw [bcOK_cons] at h
    simpa using bcOK_getD2 cl ol h.2 m (by simpa using hm)
  | [], _ :: _, h, _, _ => by simp [bcOK] at h
  | _ :: _, [], h, _, _ => by simp [bcOK] at h

theorem bcIdx_getD (sh g : List Nat) (j : Nat) (h1 : j < sh.length) (h2 : j < g.length) :
    (bcIdx sh g).getD j 0 = if sh.getD j 0 = 1 then 0 else g.getD j 0 := by
  unfold bcIdx; rw [getD_zipWith _ sh g j 0 0 0 h1 h2]

theorem bcIdx_length (sh g : List Nat) : (bcIdx sh g).length = min sh.length g.length := by
  simp [bcIdx]

/-- a real (length ≠ 1) input axis of a broadcast has the length of its output axis -/
theorem broadcast_real_dim (e : Expr) (sh : List Nat) (l : Layout) (hw : WF (.broadcastTo e sh l))
    (j : Nat) (hj : j < (shape e).length) (h1 : (shape e).getD j 0 ≠ 1) :
    sh.getD (sh.length - (shape e).length + j) 0 = (shape e).getD j 0 := by
  simp only [WF, wf, Bool.and_eq_true, decide_eq_true_eq] at hw
  obtain ⟨⟨⟨hwe, hwl⟩, hle⟩, hbc⟩ := hw
  obtain ⟨i1, _⟩ := meta_ok e hwe
  obtain ⟨o1, _⟩ := wfLayout_iff.mp hwl
  have hlen := length_of_map_sum i1
  have := bcOK_getD2 _ _ hbc j (by rw [hlen]; exact hj)
  rw [getD_drop2] at this
  rcases this with h | h
  · exfalso; apply h1
    rw [← sum_getD_of_map_sum i1 j, h]; rfl
  · rw [← sum_getD_of_map_sum i1 j, h, sum_getD_of_map_sum o1]

theorem sliceThroughBroadcast_sound : Sound sliceThroughBroadcast := by
  intro env e0 e' hw h
  unfold sliceThroughBroadcast at h
  split at h
  · rename_i e sh l idx
    split at h
    · rename_i ss hss
      have hidx := allSlc?_some idx ss hss
      subst hidx
      dsimp only at h
      split at h
      · rename_i hcond
        obtain ⟨_, hssl⟩ := hcond
        generalize hk : sh.length - (shape e).length = k at h
        generalize hinSl : List.zipWith (fun (s : PySlice) (n : Nat) => if n = 1 then colon else s)
          (ss.drop k) (shape e) = inSl at h
        generalize hns : List.zipWith (fun a b => b - a)
          (List.zipWith (fun (s : PySlice) (n : Nat) => (s.istart n).toNat) ss sh)
          (List.zipWith (fun (s : PySlice) (n : Nat) => (s.istop n).toNat) ss sh) = newShape at h
        generalize he' : (if inSl = [] then e else Expr.slice e (inSl.map Ix.slc)) = e1 at h
        split at h
        · rename_i hg
          obtain ⟨hwr, hshape⟩ := hg
          injection h with h
          subst h
          have hw' := hw
          simp only [WF, wf, Bool.and_eq_true, decide_eq_true_eq] at hw'
          obtain ⟨⟨⟨⟨hwe, hwl⟩, hle⟩, hbc⟩, hwi⟩ := hw'
          have hwi' : wfIx sh (ss.map Ix.slc) = true := hwi
          refine ⟨hwr, ?_, ?_⟩
          · simp only [shape]; exact hshape
          · intro i hi
            have hi' : InB i (sliceShape sh (ss.map Ix.slc)) := hi
            have hil : i.length = sh.length := by
              rw [hi'.length_eq, sliceShape_slc_length, hssl, Nat.min_self]
            have hnsl : newShape.length = sh.length := by
              rw [hshape, sliceShape_slc_length, hssl, Nat.min_self]
            have hinl : inSl.length = (shape e).length := by
              rw [← hinSl, List.length_zipWith, List.length_drop, hssl]; omega
            simp only [denGet, shape]
            -- rank 0: nothing is read through an index
            by_cases hr0 : inSl = []
            · rw [hr0] at he'; simp only [if_true] at he'
              subst he'
              have : shape e = [] := by
                rw [hr0] at hinl
                exact List.length_eq_zero_iff.mp hinl.symm
              rw [this]; rfl
            · rw [if_neg hr0] at he'
              subst he'
              simp only [denGet, shape]
              congr 1
              have hS'l : (sliceShape (shape e) (inSl.map Ix.slc)).length = (shape e).length := by
                rw [sliceShape_slc_length, hinl, Nat.min_self]
              rw [hnsl, hS'l, hk]
              have hdl : (i.drop k).length = (shape e).length := by rw [List.length_drop, hil]; omega
              have hsil : (sliceIdx sh (ss.map Ix.slc) i).length = sh.length := by
                rw [sliceIdx_slc_length, hssl, hil]; omega
              apply list_ext_getD
              · rw [sliceIdx_slc_length, hinl, bcIdx_length, hS'l, hdl, bcIdx_length, List.length_drop, hsil]
                omega
              · intro j hj
                rw [sliceIdx_slc_length, hinl, bcIdx_length, hS'l, hdl] at hj
                have hj' : j < (shape e).length := by omega
                have hkj : k + j < sh.length := by omega
                rw [sliceIdx_slc_getD _ _ _ _ hj' (by rw [hinl]; exact hj')
                    (by rw [bcIdx_length, hS'l, hdl]; omega),
                  bcIdx_getD _ _ _ (by rw [hS'l]; exact hj') (by rw [hdl]; exact hj'),
                  bcIdx_getD _ _ _ hj' (by rw [List.length_drop, hsil]; omega),
                  getD_drop2, getD_drop2,
                  sliceIdx_slc_getD _ _ _ _ hkj (by rw [hssl]; exact hkj) (by rw [hil]; exact hkj),
                  sliceShape_slc_getD _ _ _ hj' (by rw [hinl]; exact hj')]
                -- the slice of input axis `j`
                have hinj : inSl.getD j colon
                    = if (shape e).getD j 0 = 1 then colon else ss.getD (k + j) colon := by
                  rw [← hinSl, getD_zipWith _ _ _ j colon 0 colon (by rw [List.length_drop, hssl]; omega) hj',
                    getD_drop2]
                -- in bounds on output axis `k + j`
                have hx := hi'.getD_lt (k + j) (by rw [sliceShape_slc_length, hssl, Nat.min_self]; exact hkj)
                rw [sliceShape_slc_getD _ _ _ hkj (by rw [hssl]; exact hkj)] at hx
                rw [hinj]
                by_cases h1 : (shape e).getD j 0 = 1
                · rw [if_pos h1, if_pos h1, h1, sel_colon_length, if_pos rfl, sel_colon_getD 1 0 (by omega)]
                  rfl
                · rw [if_neg h1, if_neg h1]
                  have hdim := broadcast_real_dim e sh l (by
                    simp only [WF, wf, Bool.and_eq_true, decide_eq_true_eq]
                    exact ⟨⟨⟨hwe, hwl⟩, hle⟩, hbc⟩) j hj' h1
                  rw [hk] at hdim
                  rw [hdim] at hx ⊢
                  split
                  · rename_i hone
                    have : i.getD (k + j) 0 = 0 := by omega
                    rw [this]
                  · rfl
        · exact absurd h (by simp)
      · exact absurd h (by simp)
    · exact absurd h (by simp)
  · exact absurd h (by simp)

/-! ### rechunk through concatenate -/

theorem rechunkThroughConcat_sound : Sound rechunkThroughConcat := by
  intro env e e' hw h
  unfold rechunkThroughConcat at h
  split at h
  · rename_i a b ax l
    dsimp only at h
    split at h
    · exact absurd h (by simp)
    · rename_i pa pb _
      split at h
      · exact absurd h (by simp)
      · generalize ha : (if l.set ax pa = chunks a then a else Expr.rechunk a (l.set ax pa)) = a' at h
        generalize hb : (if l.set ax pb = chunks b then b else Expr.rechunk b (l.set ax pb)) = b' at h
        have ha' : shape a' = shape a ∧ denGet env a' = denGet env a := by
          rw [← ha]; split <;> exact ⟨rfl, rfl⟩
        have hb' : shape b' = shape b ∧ denGet env b' = denGet env b := by
          rw [← hb]; split <;> exact ⟨rfl, rfl⟩
        generalize hr : (if chunks (Expr.concat a' b' ax) = l then Expr.concat a' b' ax
          else Expr.rechunk (Expr.concat a' b' ax) l) = r at h
        have hr' : shape r = shape (Expr.concat a' b' ax) ∧ denGet env r = denGet env (Expr.concat a' b' ax) := by
          rw [← hr]; split <;> exact ⟨rfl, rfl⟩
        split at h
        · rename_i hwr
          injection h with h
          subst h
          refine ⟨hwr, ?_, ?_⟩
          · rw [hr'.1]; simp only [shape, ha'.1, hb'.1]
          · intro i _
            rw [hr'.2]; simp only [denGet, ha'.1, ha'.2, hb'.2]
        · exact absurd h (by simp)
  · exact absurd h (by simp)

/-! ### rechunk ∘ slice composition -/

theorem rechunkThroughSlice_sound : Sound rechunkThroughSlice := by
  intro env e e' hw h
  unfold rechunkThroughSlice at h
  split at h
  · rename_i x idx l
    split at h
    · exact absurd h (by simp)
    · split at h
      · exact absurd h (by simp)
      · split at h
        · exact absurd h (by simp)
        · dsimp only at h
          split at h
          · rename_i hc
            injection h with h; subst h
            exact ⟨hc.1, rfl, fun i _ => rfl⟩
          · exact absurd h (by simp)
  · exact absurd h (by simp)

/-- … and it delivers exactly the requested chunks -/
theorem rechunkThroughSlice_chunks (e e' : Expr) (h : rechunkThroughSlice e = some e') :
    chunks e' = chunks e := by
  unfold rechunkThroughSlice at h
  split at h
  · split at h
    · exact absurd h (by simp)
    · split at h
      · exact absurd h (by simp)
      · split at h
        · exact absurd h (by simp)
        · dsimp only at h
          split at h
          · rename_i hc
            injection h with h; subst h
            exact hc.2
          · exact absurd h (by simp)
  · exact absurd h (by simp)

/-! ### the redistribution loop -/

theorem redistLast_spec : ∀ (room : Nat) (tgt pb : List Nat), redistLast room tgt = some pb →
    pb = tgt ∧ tgt.sum ≤ room
  | _, [], pb, h => by simp only [redistLast, Option.some.injEq] at h; subst h; simp
  | room, c :: cs, pb, h => by
    simp only [redistLast] at h
    split at h
    · rename_i hc
      obtain ⟨q, hq, rfl⟩ := Option.map_eq_some_iff.mp h
      obtain ⟨h1, h2⟩ := redistLast_spec (room - c) cs q hq
      subst h1
      exact ⟨rfl, by simp only [List.sum_cons]; omega⟩
    · exact absurd h (by simp)

/-- the per-part chunks partition the target: the sums add up, the first part holds at most `room`,
the second at most `nb`; when the target covers both parts exactly, each part gets exactly its extent -/
theorem redistribute_spec (nb : Nat) : ∀ (room : Nat) (tgt pa pb : List Nat),
    redistribute nb room tgt = some (pa, pb) →
    pa.sum + pb.sum = tgt.sum ∧ pa.sum ≤ room ∧ pb.sum ≤ nb ∧ (pb ≠ [] → pa.sum = room)
  | _, [], pa, pb, h => by
    simp only [redistribute, Option.some.injEq, Prod.mk.injEq] at h
    obtain ⟨rfl, rfl⟩ := h; simp
  | room, c :: cs, pa, pb, h => by
    simp only [redistribute] at h
    split at h
    · rename_i hc
      obtain ⟨q, hq, hq2⟩ := Option.map_eq_some_iff.mp h
      simp only [Prod.mk.injEq] at hq2
      obtain ⟨rfl, rfl⟩ := hq2
      obtain ⟨h1, h2, h3, h4⟩ := redistribute_spec nb (room - c) cs q.1 q.2 (by simpa using hq)
      simp only [List.sum_cons]
      exact ⟨by omega, by omega, h3, fun hne => by have := h4 hne; omega⟩
    · split at h
      · rename_i hc
        obtain ⟨q, hq, hq2⟩ := Option.map_eq_some_iff.mp h
        simp only [Prod.mk.injEq] at hq2
        obtain ⟨rfl, rfl⟩ := hq2
        obtain ⟨h1, h2⟩ := redistLast_spec nb cs q hq
        subst h1
        simp only [List.sum_cons, List.sum_nil]
        exact ⟨by omega, by omega, h2, fun _ => by omega⟩
      · split at h
        · exact absurd h (by simp)
        · obtain ⟨q, hq, hq2⟩ := Option.map_eq_some_iff.mp h
          simp only [Prod.mk.injEq] at hq2
          obtain ⟨rfl, rfl⟩ := hq2
          obtain ⟨h1, h2⟩ := redistLast_spec nb _ q hq
          subst h1
          simp only [List.sum_cons, List.sum_nil] at h2 ⊢
          exact ⟨by omega, by omega, h2, fun _ => by omega⟩

theorem redistribute_exact (nb room : Nat) (tgt pa pb : List Nat)
    (h : redistribute nb room tgt = some (pa, pb)) (hs : tgt.sum = room + nb) :
    pa.sum = room ∧ pb.sum = nb := by
  obtain ⟨h1, h2, h3, _⟩ := redistribute_spec nb room tgt pa pb h
  omega

/-! ### measure -/

theorem sliceThroughBroadcast_dec : Decreasing sliceThroughBroadcast := by
  intro e e' h
  unfold sliceThroughBroadcast at h
  split at h
  · rename_i e0 sh l idx
    split at h
    · dsimp only at h
      split at h
      · generalize hinSl : List.zipWith (fun (s : PySlice) (n : Nat) => if n = 1 then colon else s) _ (shape e0)
          = inSl at h
        generalize he' : (if inSl = [] then e0 else Expr.slice e0 (inSl.map Ix.slc)) = e1 at h
        have hmu : mu e1 ≤ 2 * mu e0 := by
          rw [← he']; split
          · omega
          · simp only [mu]; omega
        split at h
        · injection h with h; subst h
          simp only [mu]; omega
        · exact absurd h (by simp)
      · exact absurd h (by simp)
    · exact absurd h (by simp)
  · exact absurd h (by simp)

/-- rechunk through concatenate delivers the requested chunks; it decreases the measure unless a
residual (seam-merging) rechunk stays above the concatenate -/
theorem rechunkThroughConcat_facts (e e' : Expr) (h : rechunkThroughConcat e = some e') :
    chunks e' = chunks e ∧ (mu e' < mu e ∨ ∃ c, e' = Expr.rechunk c (chunks e)) := by
  unfold rechunkThroughConcat at h
  split at h
  · rename_i a b ax l
    dsimp only at h
    split at h
    · exact absurd h (by simp)
    · rename_i pa pb _
      split at h
      · exact absurd h (by simp)
      · generalize ha : (if l.set ax pa = chunks a then a else Expr.rechunk a (l.set ax pa)) = a' at h
        generalize hb : (if l.set ax pb = chunks b then b else Expr.rechunk b (l.set ax pb)) = b' at h
        have ha' : mu a' ≤ 2 * mu a := by
          rw [← ha]; split
          · omega
          · simp only [mu]; omega
        have hb' : mu b' ≤ 2 * mu b := by
          rw [← hb]; split
          · omega
          · simp only [mu]; omega
        generalize hr : (if chunks (Expr.concat a' b' ax) = l then Expr.concat a' b' ax
          else Expr.rechunk (Expr.concat a' b' ax) l) = r at h
        have hr' : chunks r = l ∧ (mu r < 2 * (mu a + mu b + 1) ∨ ∃ c, r = Expr.rechunk c l) := by
          rw [← hr]; split
          · rename_i hc
            exact ⟨hc, Or.inl (by simp only [mu]; omega)⟩
          · exact ⟨rfl, Or.inr ⟨_, rfl⟩⟩
        split at h
        · injection h with h; subst h
          exact ⟨hr'.1, by simpa only [mu, chunks] using hr'.2⟩
        · exact absurd h (by simp)
  · exact absurd h (by simp)

theorem rechunkThroughSlice_mu (e e' : Expr) (h : rechunkThroughSlice e = some e') : mu e' = mu e := by
  unfold rechunkThroughSlice at h
  split at h
  · split at h
    · exact absurd h (by simp)
    · split at h
      · exact absurd h (by simp)
      · split at h
        · exact absurd h (by simp)
        · dsimp only at h
          split at h
          · injection h with h; subst h
            simp only [mu]
          · exact absurd h (by simp)
  · exact absurd h (by simp)

/-! ### collection -/

theorem rules2_sound : ∀ r ∈ rules2, Sound r.2 := by
  intro r hr
  simp only [rules2, List.mem_cons, List.mem_nil_iff, or_false] at hr
  rcases hr with h | h | h <;> subst h
  · exact sliceThroughBroadcast_sound
  · exact rechunkThroughConcat_sound
  · exact rechunkThroughSlice_sound

theorem allRules2_sound : ∀ r ∈ rules ++ extraRules ++ rules2, Sound r.2 := by
  intro r hr
  rcases List.mem_append.mp hr with h | h
  · exact allRules_sound r h
  · exact rules2_sound r h

/-- a sequence of single-rule steps over the rules of phases 2 AND 3: each step applies ONE rule at the
first position (root first, then the children left to right) where it fires -/
inductive Rewrites2 : Expr → Expr → Prop
  | refl (e : Expr) : Rewrites2 e e
  | step {e e'' : Expr} {p : String × Expr} (r : String × (Expr → Option Expr))
      (hr : r ∈ rules ++ extraRules ++ rules2) (h : stepWith [r] e = some p) (t : Rewrites2 p.2 e'') :
      Rewrites2 e e''

theorem rewrites2_refines (env : Env) (henv : EnvOK env) {e e' : Expr} (h : Rewrites2 e e') :
    WF e → Refines env e' e := by
  induction h with
  | refl e => exact fun hw => Refines.refl hw
  | step r hr h _ ih =>
    intro hw
    have h1 := stepWith_sound [r] (fun r' hr' => by
      rw [List.mem_singleton] at hr'; subst hr'; exact allRules2_sound _ hr) env henv _ _ hw h
    exact (ih h1.isWF).trans h1

end Dask.ND
