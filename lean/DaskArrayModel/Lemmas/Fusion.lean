/-
Lemmas for Model/Fusion.lean (core Lean only): the block that `FusedBlockwise._compute_block_ids`
assigns to a member is the block the unfused graph computes along EVERY path.

Spine.  `conc r M nb` is the concrete block of a member with symbolic mapping `M` (root block `r`,
member grid `nb`): coordinate `t` is `r[M[t]] % nb[t]`.  `edge_ok`: for every node kind, the block a
task references through an argument is `conc` of the argument's symbolic mapping
(`edge_blockwise` for `_compute_block_id`; `broadcast_eq_generic`, `transpose_eq_generic`: the
positional rules of Elemwise / Transpose coincide with it on well-formed nodes).  `fill_spec`: the
invariants of the loop skeleton shared by `_compute_block_ids` and `_remove_conflicting_exprs`.
`sym_ok`: with no conflict recorded every member has ONE symbolic mapping consistent with every
edge.  `reach_canon`: along any path the block of member `m` is `canon m`; `ids_ok` assembles.
-/
import DaskArrayModel.Model.Fusion
namespace Dask.Fusion

/-! ### list basics -/

theorem getD_map_range {α : Type} (f : Nat → α) (k t : Nat) (d : α) (h : t < k) :
    ((List.range k).map f).getD t d = f t := by
  simp [List.getD_eq_getElem?_getD, h]

theorem getD_map_lt {α β : Type} (f : α → β) (l : List α) (t : Nat) (d : β) (d' : α) (h : t < l.length) :
    (l.map f).getD t d = f (l.getD t d') := by
  simp [List.getD_eq_getElem?_getD, h]

theorem getD_default_irrel {α : Type} (l : List α) (t : Nat) (d d' : α) (h : t < l.length) :
    l.getD t d = l.getD t d' := by
  simp [List.getD_eq_getElem?_getD, h]

theorem getD_mem {α : Type} (l : List α) (t : Nat) (d : α) (h : t < l.length) : l.getD t d ∈ l := by
  simp [List.getD_eq_getElem?_getD, h]

theorem exists_getD_of_mem {α : Type} (l : List α) (x : α) (d : α) (h : x ∈ l) :
    ∃ t, t < l.length ∧ l.getD t d = x := by
  obtain ⟨t, ht, hx⟩ := List.mem_iff_getElem.mp h
  exact ⟨t, ht, by simp [List.getD_eq_getElem?_getD, ht, hx]⟩

/-! ### outPos -/

theorem outPosFrom_bounds (ks : List Nat) (d i p : Nat) (h : outPosFrom ks d i = some p) :
    d ≤ p ∧ p < d + ks.length ∧ ks.getD (p - d) 0 = i := by
  induction ks generalizing d with
  | nil => simp [outPosFrom] at h
  | cons k t ih =>
    simp only [outPosFrom] at h
    cases hrec : outPosFrom t (d + 1) i with
    | some w =>
      rw [hrec] at h
      cases h
      obtain ⟨h1, h2, h3⟩ := ih (d + 1) hrec
      refine ⟨by omega, by simp; omega, ?_⟩
      have : p - d = (p - (d + 1)) + 1 := by omega
      rw [this]; simpa using h3
    | none =>
      rw [hrec] at h
      by_cases hk : k = i
      · simp [hk] at h; subst h; simp [hk]
      · simp [hk] at h

theorem outPos_bounds (ks : List Nat) (i p : Nat) (h : outPos ks i = some p) :
    p < ks.length ∧ ks.getD p 0 = i := by
  have := outPosFrom_bounds ks 0 i p h
  simpa using this.2

theorem outPosFrom_none (ks : List Nat) (d i : Nat) (h : outPosFrom ks d i = none) : i ∉ ks := by
  induction ks generalizing d with
  | nil => simp
  | cons k t ih =>
    simp only [outPosFrom] at h
    cases hrec : outPosFrom t (d + 1) i with
    | some w => rw [hrec] at h; cases h
    | none =>
      rw [hrec] at h
      by_cases hk : k = i
      · simp [hk] at h
      · simp [ih (d + 1) hrec, Ne.symm hk]

theorem outPosFrom_nodup (ks : List Nat) (d p : Nat) (hn : ks.Nodup) (hp : p < ks.length) :
    outPosFrom ks d (ks.getD p 0) = some (d + p) := by
  induction ks generalizing d p with
  | nil => simp at hp
  | cons k t ih =>
    simp only [outPosFrom]
    have hn' := List.nodup_cons.mp hn
    cases p with
    | zero =>
      simp only [List.getD_cons_zero]
      have : outPosFrom t (d + 1) k = none := by
        cases h : outPosFrom t (d + 1) k with
        | none => rfl
        | some w =>
          have := outPosFrom_bounds t (d + 1) k w h
          have hm : t.getD (w - (d + 1)) 0 ∈ t := getD_mem _ _ _ (by omega)
          rw [this.2.2] at hm
          exact absurd hm hn'.1
      simp [this]
    | succ q =>
      simp only [List.getD_cons_succ]
      have hq : q < t.length := by simpa using hp
      rw [ih (d + 1) q hn'.2 hq]
      simp; omega

theorem outPos_nodup (ks : List Nat) (p : Nat) (hn : ks.Nodup) (hp : p < ks.length) :
    outPos ks (ks.getD p 0) = some p := by
  have := outPosFrom_nodup ks 0 p hn hp
  simpa [outPos] using this

/-! ### invAxes -/

theorem invFrom_length (t : List Nat) (i : Nat) (inv : List Nat) : (invFrom t i inv).length = inv.length := by
  induction t generalizing i inv with
  | nil => rfl
  | cons a t ih => simp [invFrom, ih]

theorem invFrom_not_mem (t : List Nat) (i : Nat) (inv : List Nat) (a d : Nat) (h : a ∉ t) :
    (invFrom t i inv).getD a d = inv.getD a d := by
  induction t generalizing i inv with
  | nil => rfl
  | cons x t ih =>
    simp only [invFrom]
    have hx : a ≠ x := fun e => h (by simp [e])
    have ht : a ∉ t := fun e => h (by simp [e])
    rw [ih _ _ ht]
    simp [List.getD_eq_getElem?_getD, Ne.symm hx]

theorem invFrom_getD (t : List Nat) (i : Nat) (inv : List Nat) (p : Nat)
    (hb : ∀ a ∈ t, a < inv.length) (hn : t.Nodup) (hp : p < t.length) :
    (invFrom t i inv).getD (t.getD p 0) 0 = i + p := by
  induction t generalizing i inv p with
  | nil => simp at hp
  | cons x t ih =>
    have hn' := List.nodup_cons.mp hn
    simp only [invFrom]
    cases p with
    | zero =>
      simp only [List.getD_cons_zero]
      rw [invFrom_not_mem _ _ _ _ _ hn'.1]
      have : x < inv.length := hb x (by simp)
      simp [List.getD_eq_getElem?_getD, this]
    | succ q =>
      simp only [List.getD_cons_succ]
      have hq : q < t.length := by simpa using hp
      rw [ih (i + 1) (inv.set x i) q (by intro a ha; simpa using hb a (by simp [ha])) hn'.2 hq]
      omega

theorem invAxes_length (axes : List Nat) : (invAxes axes).length = axes.length := by
  simp [invAxes, invFrom_length]

theorem invAxes_getD (axes : List Nat) (p : Nat) (hb : ∀ a ∈ axes, a < axes.length) (hn : axes.Nodup)
    (hp : p < axes.length) : (invAxes axes).getD (axes.getD p 0) 0 = p := by
  have := invFrom_getD axes 0 (List.replicate axes.length 0) p (by simpa using hb) hn hp
  simpa [invAxes] using this


/-! ### concrete block of a symbolic mapping -/

/-- the block of a member whose symbolic mapping is `M`, for root block `r` -/
def conc (r M nb : List Nat) : List Nat :=
  (List.range nb.length).map fun t => r.getD (M.getD t 0) 0 % nb.getD t 1

theorem conc_length (r M nb : List Nat) : (conc r M nb).length = nb.length := by simp [conc]

theorem conc_getD (r M nb : List Nat) (t : Nat) (h : t < nb.length) :
    (conc r M nb).getD t 0 = r.getD (M.getD t 0) 0 % nb.getD t 1 := by
  unfold conc
  rw [getD_map_range _ _ _ _ h]

theorem conc_lt (r M nb : List Nat) (t : Nat) (h : t < nb.length) (hpos : ∀ n ∈ nb, 0 < n) :
    (conc r M nb).getD t 0 < nb.getD t 1 := by
  rw [conc_getD _ _ _ _ h]
  exact Nat.mod_lt _ (hpos _ (getD_mem _ _ _ h))

theorem conc_root (r nb : List Nat) (hl : r.length = nb.length)
    (hv : ∀ d ∈ List.range r.length, r.getD d 0 < nb.getD d 1) :
    conc r (List.range nb.length) nb = r := by
  apply List.ext_getElem
  · simp [conc, hl]
  · intro t h1 h2
    have ht : t < nb.length := by simpa [conc] using h1
    have hr : t < r.length := by omega
    have hv' := hv t (List.mem_range.mpr hr)
    have e1 : (List.range nb.length).getD t 0 = t := by simp [List.getD_eq_getElem?_getD, ht]
    have e2 : r.getD t 0 = r[t] := by simp [List.getD_eq_getElem?_getD, hr]
    simp only [conc, List.getElem_map, List.getElem_range, e1]
    rw [Nat.mod_eq_of_lt hv', e2]

/-! ### the generic edge lemma: `_compute_block_id` follows the symbolic mapping -/

theorem symIdx_of_pos (X : Node) (M : List Nat) (i p : Nat) (h : outPos X.outInd i = some p) :
    symIdx X M i = M.getD p p := by simp [symIdx, h]

theorem symIdx_of_none (X : Node) (M : List Nat) (i : Nat) (h : outPos X.outInd i = none) :
    symIdx X M i = i := by simp [symIdx, h]

theorem edge_blockwise (X : Node) (a : Arg) (r M : List Nat)
    (hM : M.length = X.nb.length) (hX : X.nb.length = X.outInd.length)
    (hla : a.ind.length = a.nb.length) (hw : WFBlockwise X a) :
    computeBlockId a.ind (idxToBlock X (conc r M X.nb)) a.nb = conc r (a.ind.map (symIdx X M)) a.nb := by
  unfold computeBlockId conc
  rw [← hla]
  apply List.map_congr_left
  intro dim hdim
  have hd : dim < a.ind.length := List.mem_range.mp hdim
  obtain ⟨hw1, hw2⟩ := hw dim hdim
  rw [getD_map_lt (symIdx X M) a.ind dim 0 0 hd]
  generalize a.ind.getD dim 0 = i at hw1 hw2
  generalize a.nb.getD dim 1 = n at hw1 hw2
  by_cases hi : i ∈ X.newAxes
  · have hn := hw1 hi
    subst hn
    simp [idxToBlock, hi, Nat.mod_one]
  · have hc := hw2 hi
    simp only [idxToBlock, hi, if_false]
    cases hp : outPos X.outInd i with
    | none =>
      rw [hp] at hc
      simp only [dvdCond] at hc
      subst hc
      simp [Nat.mod_one]
    | some p =>
      rw [hp] at hc
      simp only [dvdCond] at hc
      have hpl := (outPos_bounds _ _ _ hp).1
      have hpl' : p < X.nb.length := by omega
      simp only [Option.map_some]
      have := conc_getD r M X.nb p hpl'
      unfold conc at this
      rw [this, symIdx_of_pos _ _ _ _ hp, getD_default_irrel M p p 0 (by omega)]
      exact Nat.mod_mod_of_dvd _ hc


/-! ### Elemwise: the positional rule `_broadcast_block_id` is the index rule -/

theorem elemwise_pos (X : Node) (a : Arg) (t : Nat) (hw : WFElemwise X a) (ht : t < a.ind.length) :
    outPos X.outInd (a.ind.getD t 0) = some (X.outInd.length - a.ind.length + t) := by
  obtain ⟨_, hn, hle, hall⟩ := hw
  rw [(hall t (List.mem_range.mpr ht)).1]
  exact outPos_nodup _ _ hn (by omega)

theorem broadcast_eq_generic (X : Node) (a : Arg) (b : List Nat) (hw : WFElemwise X a)
    (hX : X.nb.length = X.outInd.length) (hb : b.length = X.outInd.length)
    (hla : a.ind.length = a.nb.length)
    (hv : ∀ p, p < X.nb.length → b.getD p 0 < X.nb.getD p 1) :
    broadcastBlockId a.nb b = computeBlockId a.ind (idxToBlock X b) a.nb := by
  unfold broadcastBlockId computeBlockId
  rw [← hla]
  apply List.map_congr_left
  intro t ht
  have ht' : t < a.ind.length := List.mem_range.mp ht
  have hpos := elemwise_pos X a t hw ht'
  obtain ⟨hnew, hn, hle, hall⟩ := hw
  obtain ⟨_, hnb⟩ := hall t ht
  simp only [idxToBlock, hnew, List.not_mem_nil, if_false, hpos, Option.map_some, hb]
  have hlt := hv (X.outInd.length - a.ind.length + t) (by omega)
  rcases hnb with h1 | h1
  · rw [h1, if_pos rfl, Nat.mod_one]
  · rw [h1]
    by_cases h2 : X.nb.getD (X.outInd.length - a.ind.length + t) 1 = 1
    · rw [if_pos h2, h2, Nat.mod_one]
    · rw [if_neg h2, Nat.mod_eq_of_lt hlt]

theorem wfBlockwise_of_elemwise (X : Node) (a : Arg) (hw : WFElemwise X a) : WFBlockwise X a := by
  intro dim hdim
  have hd : dim < a.ind.length := List.mem_range.mp hdim
  have hpos := elemwise_pos X a dim hw hd
  obtain ⟨hnew, hn, hle, hall⟩ := hw
  obtain ⟨_, hnb⟩ := hall dim hdim
  refine ⟨by simp [hnew], fun _ => ?_⟩
  rw [hpos]
  simp only [dvdCond]
  rcases hnb with h1 | h1
  · rw [h1]; exact Nat.one_dvd _
  · rw [h1]; exact Nat.dvd_refl _

/-! ### Transpose: `block_id[inverse_axes[d]]` is the index rule; its symbolic branch is the generic one -/

theorem transpose_pos (X : Node) (a : Arg) (d : Nat) (hw : WFTranspose X a) (hd : d < X.outInd.length) :
    ∃ p, p < X.outInd.length ∧ X.outInd.getD p 0 = d ∧ outPos X.outInd d = some p ∧
      (invAxes X.outInd).getD d 0 = p ∧ a.nb.getD d 1 = X.nb.getD p 1 := by
  obtain ⟨_, _, hn, hlt, hsur, _, hnb⟩ := hw
  obtain ⟨p, hp, hpd⟩ := exists_getD_of_mem _ _ 0 (hsur d (List.mem_range.mpr hd))
  refine ⟨p, hp, hpd, ?_, ?_, ?_⟩
  · rw [← hpd]; exact outPos_nodup _ _ hn hp
  · rw [← hpd]; exact invAxes_getD _ _ hlt hn hp
  · rw [← hpd]; exact hnb p (List.mem_range.mpr hp)

theorem transpose_eq_generic (X : Node) (a : Arg) (b : List Nat) (hw : WFTranspose X a)
    (hX : X.nb.length = X.outInd.length) (hb : b.length = X.outInd.length)
    (hv : ∀ p, p < X.nb.length → b.getD p 0 < X.nb.getD p 1) :
    transposeBlockId X.outInd b = computeBlockId a.ind (idxToBlock X b) a.nb := by
  unfold transposeBlockId computeBlockId
  have hind : a.ind = List.range X.outInd.length := hw.2.2.2.2.2.1
  have hnew : X.newAxes = [] := hw.1
  rw [hind, hb, List.length_range]
  apply List.map_congr_left
  intro d hd
  have hd' : d < X.outInd.length := List.mem_range.mp hd
  obtain ⟨p, hp, _, hpos, hinv, hnb⟩ := transpose_pos X a d hw hd'
  have e : (List.range X.outInd.length).getD d 0 = d := by simp [List.getD_eq_getElem?_getD, hd']
  simp only [e, idxToBlock, hnew, List.not_mem_nil, if_false, hpos, Option.map_some, hinv, hnb]
  exact (Nat.mod_eq_of_lt (hv p (by omega))).symm

theorem symDep_transpose_eq (X : Node) (a : Arg) (M : List Nat) (hw : WFTranspose X a)
    (hM : M.length = X.outInd.length) :
    ((List.range (invAxes X.outInd).length).map fun i => M.getD ((invAxes X.outInd).getD i 0) 0)
      = a.ind.map (symIdx X M) := by
  have hind : a.ind = List.range X.outInd.length := hw.2.2.2.2.2.1
  rw [hind, invAxes_length]
  apply List.map_congr_left
  intro d hd
  have hd' : d < X.outInd.length := List.mem_range.mp hd
  obtain ⟨p, hp, _, hpos, hinv, _⟩ := transpose_pos X a d hw hd'
  rw [hinv, symIdx_of_pos _ _ _ _ hpos]
  exact getD_default_irrel _ _ _ _ (by omega)

theorem wfBlockwise_of_transpose (X : Node) (a : Arg) (hw : WFTranspose X a) : WFBlockwise X a := by
  intro dim hdim
  have hind : a.ind = List.range X.outInd.length := hw.2.2.2.2.2.1
  have hnew : X.newAxes = [] := hw.1
  have hd : dim < X.outInd.length := by simpa [hind] using hdim
  obtain ⟨p, hp, _, hpos, _, hnb⟩ := transpose_pos X a dim hw hd
  have e : a.ind.getD dim 0 = dim := by rw [hind]; simp [List.getD_eq_getElem?_getD, hd]
  refine ⟨by simp [hnew], fun _ => ?_⟩
  rw [e, hpos]
  simp only [dvdCond]
  rw [hnb]; exact Nat.dvd_refl _

/-! ### every kind: the block read through an argument is the concrete block of the argument's symbolic mapping -/

theorem conc_valid (r M nb : List Nat) (hpos : ∀ n ∈ nb, 0 < n) :
    ∀ p, p < nb.length → (conc r M nb).getD p 0 < nb.getD p 1 :=
  fun p hp => conc_lt r M nb p hp hpos

theorem edge_ok (g : Group) (X : Node) (a : Arg) (r M : List Nat) (hX : WFNode g X) (ha : a ∈ X.args)
    (hM : M.length = X.nb.length) :
    ∃ M', symDep X a M = some M' ∧ M'.length = a.nb.length ∧
      depBlockId X a (conc r M X.nb) = conc r M' a.nb := by
  obtain ⟨hXl, hXpos, hargs⟩ := hX
  obtain ⟨hla, _, _, hk⟩ := hargs a ha
  have hv := conc_valid r M X.nb hXpos
  have hbl : (conc r M X.nb).length = X.outInd.length := by rw [conc_length, hXl]
  unfold WFKind at hk
  cases hkind : X.kind with
  | blockwise =>
    rw [hkind] at hk
    refine ⟨a.ind.map (symIdx X M), by simp [symDep, hkind], by simp [hla], ?_⟩
    simp only [depBlockId, hkind]
    exact edge_blockwise X a r M hM hXl hla hk
  | elemwise =>
    rw [hkind] at hk
    refine ⟨a.ind.map (symIdx X M), by simp [symDep, hkind], by simp [hla], ?_⟩
    simp only [depBlockId, hkind]
    rw [broadcast_eq_generic X a _ hk hXl hbl hla hv]
    exact edge_blockwise X a r M hM hXl hla (wfBlockwise_of_elemwise X a hk)
  | transpose =>
    rw [hkind] at hk
    refine ⟨a.ind.map (symIdx X M), ?_, by simp [hla], ?_⟩
    · simp only [symDep, hkind]
      rw [symDep_transpose_eq X a M hk (by omega)]
    · simp only [depBlockId, hkind]
      rw [transpose_eq_generic X a _ hk hXl hbl hv]
      exact edge_blockwise X a r M hM hXl hla (wfBlockwise_of_transpose X a hk)
  | other =>
    rw [hkind] at hk
    refine ⟨M, by simp [symDep, hkind, hk, hM], by rw [hk, hM], ?_⟩
    simp [depBlockId, hkind, hk]


/-! ### the loop skeleton `fill` -/

section Fill
variable {α : Type} [DecidableEq α]

/-- the state only grows -/
def FLe (s t : FillState α) : Prop :=
  (∀ k v, s.tab k = some v → t.tab k = some v) ∧ (∀ j, j ∈ s.conflicts → j ∈ t.conflicts) ∧
  t.missing = s.missing

omit [DecidableEq α] in
theorem FLe.refl (s : FillState α) : FLe s s := ⟨fun _ _ h => h, fun _ h => h, rfl⟩

omit [DecidableEq α] in
theorem FLe.trans {s t u : FillState α} (h1 : FLe s t) (h2 : FLe t u) : FLe s u :=
  ⟨fun k v h => h2.1 k v (h1.1 k v h), fun j h => h2.2.1 j (h1.2.1 j h), by rw [h2.2.2, h1.2.2]⟩

theorem fle_fillEdge (n : Nat) (s : FillState α) (e : Nat × α) : FLe s (fillEdge n s e) := by
  unfold fillEdge
  by_cases hlt : e.1 < n
  · simp only [hlt, if_true]
    cases htab : s.tab e.1 with
    | none =>
      refine ⟨fun k v h => ?_, fun _ h => h, rfl⟩
      by_cases hk : k = e.1
      · subst hk; rw [htab] at h; cases h
      · simp [hk, h]
    | some w =>
      by_cases hw : w = e.2
      · simp only [hw, if_true]; exact FLe.refl s
      · simp only [hw, if_false]
        exact ⟨fun _ _ h => h, fun j h => List.mem_cons_of_mem _ h, rfl⟩
  · simp only [hlt, if_false]; exact FLe.refl s

theorem fle_foldl_fillEdge (n : Nat) (es : List (Nat × α)) (s : FillState α) :
    FLe s (es.foldl (fillEdge n) s) := by
  induction es generalizing s with
  | nil => exact FLe.refl s
  | cons e t ih => exact FLe.trans (fle_fillEdge n s e) (ih _)

/-- after an edge has been processed its target has a value, equal to the edge's unless a conflict is recorded -/
theorem fillEdge_done (n : Nat) (s : FillState α) (e : Nat × α) (hlt : e.1 < n) :
    ∃ w', (fillEdge n s e).tab e.1 = some w' ∧ (w' = e.2 ∨ e.1 ∈ (fillEdge n s e).conflicts) := by
  unfold fillEdge
  simp only [hlt, if_true]
  cases htab : s.tab e.1 with
  | none => exact ⟨e.2, by simp, Or.inl rfl⟩
  | some w =>
    by_cases hw : w = e.2
    · simp only [hw, if_true]; exact ⟨e.2, by rw [htab, hw], Or.inl rfl⟩
    · simp only [hw, if_false]; exact ⟨w, htab, Or.inr (by simp)⟩

theorem foldl_fillEdge_done (n : Nat) (es : List (Nat × α)) (s : FillState α) :
    ∀ e ∈ es, e.1 < n → ∃ w', (es.foldl (fillEdge n) s).tab e.1 = some w' ∧
      (w' = e.2 ∨ e.1 ∈ (es.foldl (fillEdge n) s).conflicts) := by
  induction es generalizing s with
  | nil => intro e he; cases he
  | cons x t ih =>
    intro e he hlt
    rcases List.mem_cons.mp he with h | h
    · subst h
      obtain ⟨w', h1, h2⟩ := fillEdge_done n s e hlt
      have hle := fle_foldl_fillEdge n t (fillEdge n s e)
      refine ⟨w', hle.1 _ _ h1, ?_⟩
      rcases h2 with h2 | h2
      · exact Or.inl h2
      · exact Or.inr (hle.2.1 _ h2)
    · exact ih (fillEdge n s x) e h hlt

/-- a predicate on table entries that the edges preserve holds for every entry -/
def AllP (P : Nat → α → Prop) (s : FillState α) : Prop := ∀ k v, s.tab k = some v → P k v

theorem allP_fillEdge (P : Nat → α → Prop) (n : Nat) (s : FillState α) (e : Nat × α)
    (hs : AllP P s) (he : e.1 < n → P e.1 e.2) : AllP P (fillEdge n s e) := by
  unfold fillEdge
  by_cases hlt : e.1 < n
  · simp only [hlt, if_true]
    cases htab : s.tab e.1 with
    | none =>
      intro k v h
      by_cases hk : k = e.1
      · subst hk
        have : some e.2 = some v := by simpa using h
        cases this; exact he hlt
      · simp only [hk, if_false] at h; exact hs k v h
    | some w =>
      by_cases hw : w = e.2
      · simp only [hw, if_true]; exact hs
      · simp only [hw, if_false]; exact hs
  · simp only [hlt, if_false]; exact hs

theorem allP_foldl_fillEdge (P : Nat → α → Prop) (n : Nat) (es : List (Nat × α)) (s : FillState α)
    (hs : AllP P s) (he : ∀ e ∈ es, e.1 < n → P e.1 e.2) : AllP P (es.foldl (fillEdge n) s) := by
  induction es generalizing s with
  | nil => exact hs
  | cons x t ih =>
    exact ih _ (allP_fillEdge P n s x hs (he x (by simp))) (fun e h => he e (by simp [h]))

theorem fillVisit_missing_or (n : Nat) (edges : Nat → α → List (Nat × α)) (s : FillState α) (i : Nat) :
    (∃ v, s.tab i = some v ∧ fillVisit n edges s i = (edges i v).foldl (fillEdge n) s) ∨
    (s.tab i = none ∧ fillVisit n edges s i = { s with missing := true }) := by
  unfold fillVisit
  cases h : s.tab i with
  | none => exact Or.inr ⟨rfl, rfl⟩
  | some v => exact Or.inl ⟨v, rfl, rfl⟩

/-- invariant after the first `k` members have been visited -/
structure FillInv (P : Nat → α → Prop) (n : Nat) (edges : Nat → α → List (Nat × α)) (v0 : α) (k : Nat)
    (s : FillState α) : Prop where
  miss : s.missing = false
  root : s.tab 0 = some v0
  allP : AllP P s
  done : ∀ i, i < k → ∃ v, s.tab i = some v ∧ ∀ e ∈ edges i v, e.1 < n →
    ∃ w', s.tab e.1 = some w' ∧ (w' = e.2 ∨ e.1 ∈ s.conflicts)

theorem fillInv_range (P : Nat → α → Prop) (n : Nat) (edges : Nat → α → List (Nat × α)) (v0 : α)
    (hP0 : P 0 v0)
    (hPc : ∀ i v, P i v → ∀ e ∈ edges i v, e.1 < n → P e.1 e.2)
    (hord : ∀ i, 0 < i → i < n → ∃ k, k < i ∧ ∀ v, P k v → ∃ w, (i, w) ∈ edges k v)
    (k : Nat) (hk : k ≤ n) :
    FillInv P n edges v0 k
      ((List.range k).foldl (fillVisit n edges) ⟨fun k => if k = 0 then some v0 else none, [], false⟩) := by
  induction k with
  | zero =>
    refine ⟨rfl, by simp, ?_, fun i hi => absurd hi (Nat.not_lt_zero _)⟩
    intro j v h
    by_cases hj : j = 0
    · subst hj
      have : some v0 = some v := by simpa using h
      cases this; exact hP0
    · simp [hj] at h
  | succ k ih =>
    have ih := ih (by omega)
    rw [List.range_succ, List.foldl_append]
    simp only [List.foldl_cons, List.foldl_nil]
    generalize (List.range k).foldl (fillVisit n edges) ⟨fun k => if k = 0 then some v0 else none, [], false⟩ = s at ih
    -- the member visited now has a value
    have hval : ∃ v, s.tab k = some v := by
      by_cases hk0 : k = 0
      · subst hk0; exact ⟨v0, ih.root⟩
      · obtain ⟨k', hk', hex⟩ := hord k (by omega) (by omega)
        obtain ⟨v', hv', hdone⟩ := ih.done k' hk'
        obtain ⟨w, hw⟩ := hex v' (ih.allP _ _ hv')
        obtain ⟨w', hw', _⟩ := hdone (k, w) hw (by simp; omega)
        exact ⟨w', hw'⟩
    obtain ⟨v, hv⟩ := hval
    rcases fillVisit_missing_or n edges s k with ⟨v', hv', heq⟩ | ⟨hnone, _⟩
    · rw [hv] at hv'; cases hv'
      rw [heq]
      have hle := fle_foldl_fillEdge n (edges k v) s
      refine ⟨by rw [hle.2.2, ih.miss], hle.1 _ _ ih.root, ?_, ?_⟩
      · exact allP_foldl_fillEdge P n _ s ih.allP (hPc k v (ih.allP _ _ hv))
      · intro i hi
        by_cases hik : i = k
        · subst hik
          exact ⟨v, hle.1 _ _ hv, foldl_fillEdge_done n (edges i v) s⟩
        · obtain ⟨vi, hvi, hdone⟩ := ih.done i (by omega)
          refine ⟨vi, hle.1 _ _ hvi, fun e he hlt => ?_⟩
          obtain ⟨w', h1, h2⟩ := hdone e he hlt
          refine ⟨w', hle.1 _ _ h1, ?_⟩
          rcases h2 with h2 | h2
          · exact Or.inl h2
          · exact Or.inr (hle.2.1 _ h2)
    · rw [hv] at hnone; cases hnone

theorem fill_spec (P : Nat → α → Prop) (n : Nat) (edges : Nat → α → List (Nat × α)) (v0 : α)
    (hP0 : P 0 v0)
    (hPc : ∀ i v, P i v → ∀ e ∈ edges i v, e.1 < n → P e.1 e.2)
    (hord : ∀ i, 0 < i → i < n → ∃ k, k < i ∧ ∀ v, P k v → ∃ w, (i, w) ∈ edges k v) :
    FillInv P n edges v0 n (fill n edges v0) :=
  fillInv_range P n edges v0 hP0 hPc hord n (Nat.le_refl n)

end Fill


/-! ### symbolic mappings of an accepted group -/

theorem node_of_ge (g : Group) (i : Nat) (h : g.length ≤ i) : node g i = emptyNode := by
  simp [node, List.getD_eq_getElem?_getD, List.getElem?_eq_none h]

theorem mem_symEdges (g : Group) (i : Nat) (M : List Nat) (e : Nat × List Nat) :
    e ∈ symEdges g i M ↔ ∃ a ∈ (node g i).args, a.src = .mem e.1 ∧ symDep (node g i) a M = some e.2 := by
  unfold symEdges
  rw [List.mem_filterMap]
  constructor
  · rintro ⟨a, ha, h⟩
    cases hs : a.src with
    | ext x => rw [hs] at h; cases h
    | mem j =>
      rw [hs] at h
      cases hd : symDep (node g i) a M with
      | none => rw [hd] at h; cases h
      | some M' =>
        rw [hd] at h
        simp only [Option.map_some, Option.some.injEq] at h
        subst h
        exact ⟨a, ha, hs, hd⟩
  · rintro ⟨a, ha, hs, hd⟩
    exact ⟨a, ha, by rw [hs, hd]; rfl⟩

theorem mem_idEdges (g : Group) (i : Nat) (b : List Nat) (e : Nat × List Nat) :
    e ∈ idEdges g i b ↔ ∃ a ∈ (node g i).args, a.src = .mem e.1 ∧ e.2 = inputBlockId (node g i) e.1 b := by
  unfold idEdges
  rw [List.mem_filterMap]
  constructor
  · rintro ⟨a, ha, h⟩
    cases hs : a.src with
    | ext x => rw [hs] at h; cases h
    | mem j =>
      rw [hs] at h
      simp only [Option.some.injEq] at h
      subst h
      exact ⟨a, ha, hs, rfl⟩
  · rintro ⟨a, ha, hs, he⟩
    refine ⟨a, ha, ?_⟩
    rw [hs]
    cases e with
    | mk j w => simp only at he; rw [he]

theorem mem_memDeps (X : Node) (j : Nat) : j ∈ memDeps X ↔ ∃ a ∈ X.args, a.src = .mem j := by
  unfold memDeps
  rw [List.mem_filterMap]
  constructor
  · rintro ⟨a, ha, h⟩
    cases hs : a.src with
    | ext x => rw [hs] at h; cases h
    | mem j' => rw [hs] at h; cases h; exact ⟨a, ha, hs⟩
  · rintro ⟨a, ha, hs⟩
    exact ⟨a, ha, by rw [hs]⟩

theorem wfNode_of_lt (g : Group) (hwf : WF g) (i : Nat) (hi : i < g.length) : WFNode g (node g i) :=
  hwf.2 i (List.mem_range.mpr hi)

/-- what `_remove_conflicting_exprs` has established when it records no conflict -/
structure SymOK (g : Group) (sym : Nat → Option (List Nat)) : Prop where
  root : sym 0 = some (List.range (node g 0).nb.length)
  all : ∀ i, i < g.length → ∃ M, sym i = some M ∧ M.length = (node g i).nb.length ∧
    ∀ a ∈ (node g i).args, ∀ j, a.src = .mem j → ∀ M', symDep (node g i) a M = some M' → sym j = some M'

theorem sym_ok (g : Group) (hwf : WF g) (hord : Ordered g) (hacc : Accepted g) :
    SymOK g (symFill g).tab := by
  have hn : 0 < g.length := hwf.1
  let P : Nat → List Nat → Prop := fun i M => i < g.length ∧ M.length = (node g i).nb.length
  have hspec : FillInv P g.length (symEdges g) (List.range (node g 0).nb.length) g.length (symFill g) := by
    apply fill_spec
    · exact ⟨hn, by simp⟩
    · intro i M hP e he hlt
      obtain ⟨a, ha, hs, hd⟩ := (mem_symEdges g i M e).mp he
      have hX := wfNode_of_lt g hwf i hP.1
      obtain ⟨M', hd', hl, _⟩ := edge_ok g (node g i) a [] M hX ha hP.2
      rw [hd] at hd'; cases hd'
      obtain ⟨_, _, hm, _⟩ := hX.2.2 a ha
      exact ⟨hlt, by rw [hl, (hm e.1 hs).2]⟩
    · intro i hi0 hin
      rcases hord i (List.mem_range.mpr hin) with h | ⟨k, hk, hdep⟩
      · omega
      · have hk' : k < i := List.mem_range.mp hk
        refine ⟨k, hk', fun M hP => ?_⟩
        obtain ⟨a, ha, hs⟩ := (mem_memDeps _ _).mp hdep
        have hX := wfNode_of_lt g hwf k hP.1
        obtain ⟨M', hd', _, _⟩ := edge_ok g (node g k) a [] M hX ha hP.2
        exact ⟨M', (mem_symEdges g k M (i, M')).mpr ⟨a, ha, hs, hd'⟩⟩
  have hc : (symFill g).conflicts = [] := hacc
  refine ⟨hspec.root, fun i hi => ?_⟩
  obtain ⟨M, hM, hdone⟩ := hspec.done i hi
  refine ⟨M, hM, (hspec.allP _ _ hM).2, fun a ha j hs M' hd => ?_⟩
  have hX := wfNode_of_lt g hwf i hi
  obtain ⟨_, _, hm, _⟩ := hX.2.2 a ha
  obtain ⟨w', h1, h2⟩ := hdone (j, M') ((mem_symEdges g i M (j, M')).mpr ⟨a, ha, hs, hd⟩) (hm j hs).1
  rcases h2 with h2 | h2
  · rw [h1, h2]
  · rw [hc] at h2; cases h2

/-! ### the block every path computes -/

/-- the block of member `i` determined by its symbolic mapping -/
def canon (g : Group) (r : List Nat) (i : Nat) : List Nat :=
  conc r (((symFill g).tab i).getD []) (node g i).nb

theorem reach_canon (g : Group) (r : List Nat) (hwf : WF g) (hsym : SymOK g (symFill g).tab)
    (hr : ValidBlock g r) (m : Nat) (b : List Nat) (h : Reach g r m b) :
    m < g.length ∧ b = canon g r m := by
  induction h with
  | root =>
    refine ⟨hwf.1, ?_⟩
    unfold canon
    rw [hsym.root]
    exact (conc_root r _ hr.1 hr.2).symm
  | @step i j b a _ hi ha hs ih =>
    obtain ⟨M, hM, hl, hedge⟩ := hsym.all i hi
    have hX := wfNode_of_lt g hwf i hi
    obtain ⟨M', hd, _, hdep⟩ := edge_ok g (node g i) a r M hX ha hl
    obtain ⟨_, _, hm, _⟩ := hX.2.2 a ha
    have hj := hedge a ha j hs M' hd
    refine ⟨(hm j hs).1, ?_⟩
    have hb : b = conc r M (node g i).nb := by rw [ih.2, canon, hM]; rfl
    rw [hb, hdep, canon, hj, (hm j hs).2]
    rfl

/-! ### `_input_block_id` is the block the member's own task references -/

theorem inputBlockId_eq (X : Node) (j : Nat) (b : List Nat) (a : Arg) (ha : a ∈ X.args) (hs : a.src = .mem j) :
    ∃ a' ∈ X.args, a'.src = .mem j ∧ inputBlockId X j b = depBlockId X a' b := by
  have hfind : ∃ a', X.args.find? (fun a => a.src = .mem j) = some a' := by
    cases h : X.args.find? (fun a => a.src = .mem j) with
    | some a' => exact ⟨a', rfl⟩
    | none =>
      have := List.find?_eq_none.mp h a ha
      simp [hs] at this
  obtain ⟨a', hf⟩ := hfind
  have hmem := List.mem_of_find?_eq_some hf
  have hp : a'.src = .mem j := by simpa using List.find?_some hf
  refine ⟨a', hmem, hp, ?_⟩
  unfold inputBlockId depBlockId
  cases X.kind <;> simp [hf]


/-! ### `_compute_block_ids` on an accepted group -/

/-- the conclusion of the fusion theorem for a table of member block ids -/
structure IdsOK (g : Group) (r : List Nat) (ids : Nat → Option (List Nat)) : Prop where
  /-- every member is assigned a block id -/
  total : ∀ m, m < g.length → ∃ b, ids m = some b
  /-- the block computed along EVERY path of the unfused graph is the assigned one -/
  every_path : ∀ m b, Reach g r m b → ids m = some b
  /-- and every assigned block is computed by the unfused graph -/
  reached : ∀ m b, ids m = some b → Reach g r m b

theorem ids_ok (g : Group) (r : List Nat) (hwf : WF g) (hord : Ordered g) (hacc : Accepted g)
    (hr : ValidBlock g r) :
    ∃ ids, computeBlockIds g r = some ids ∧ IdsOK g r ids := by
  have hsym := sym_ok g hwf hord hacc
  have hspec : FillInv (fun m b => Reach g r m b) g.length (idEdges g) r g.length
      (fill g.length (idEdges g) r) := by
    apply fill_spec
    · exact Reach.root
    · intro i v hP e he _
      obtain ⟨a, ha, hs, hv⟩ := (mem_idEdges g i v e).mp he
      obtain ⟨a', ha', hs', heq⟩ := inputBlockId_eq (node g i) e.1 v a ha hs
      rw [hv, heq]
      exact Reach.step hP (reach_canon g r hwf hsym hr i v hP).1 ha' hs'
    · intro i hi0 hin
      rcases hord i (List.mem_range.mpr hin) with h | ⟨k, hk, hdep⟩
      · omega
      · refine ⟨k, List.mem_range.mp hk, fun v _ => ?_⟩
        obtain ⟨a, ha, hs⟩ := (mem_memDeps _ _).mp hdep
        exact ⟨_, (mem_idEdges g k v (i, inputBlockId (node g k) i v)).mpr ⟨a, ha, hs, rfl⟩⟩
  refine ⟨(fill g.length (idEdges g) r).tab, by simp [computeBlockIds, hspec.miss], ?_, ?_, ?_⟩
  · intro m hm
    obtain ⟨v, hv, _⟩ := hspec.done m hm
    exact ⟨v, hv⟩
  · intro m b hreach
    obtain ⟨hm, hb⟩ := reach_canon g r hwf hsym hr m b hreach
    obtain ⟨v, hv, _⟩ := hspec.done m hm
    have := (reach_canon g r hwf hsym hr m v (hspec.allP _ _ hv)).2
    rw [hv, this, hb]
  · intro m b h
    exact hspec.allP _ _ h

/-! ### reads of the fused task -/

theorem mem_fusedReads (g : Group) (ids : Nat → Option (List Nat)) (x : Nat × List Nat) :
    x ∈ fusedReads g ids ↔ ∃ i b a, i < g.length ∧ ids i = some b ∧ a ∈ (node g i).args ∧
      a.src = .ext x.1 ∧ x.2 = depBlockId (node g i) a b := by
  unfold fusedReads
  rw [List.mem_flatMap]
  constructor
  · rintro ⟨i, hi, h⟩
    cases hid : ids i with
    | none => rw [hid] at h; cases h
    | some b =>
      rw [hid] at h
      obtain ⟨a, ha, h⟩ := List.mem_filterMap.mp h
      cases hs : a.src with
      | mem j => rw [hs] at h; cases h
      | ext e =>
        rw [hs] at h
        simp only [Option.some.injEq] at h
        subst h
        exact ⟨i, b, a, List.mem_range.mp hi, hid, ha, hs, rfl⟩
  · rintro ⟨i, b, a, hi, hid, ha, hs, hx⟩
    refine ⟨i, List.mem_range.mpr hi, ?_⟩
    rw [hid]
    refine List.mem_filterMap.mpr ⟨a, ha, ?_⟩
    rw [hs]
    cases x with
    | mk e c => simp only at hx; rw [hx]

theorem mem_fusedInternalRefs (g : Group) (ids : Nat → Option (List Nat)) (x : Nat × List Nat) :
    x ∈ fusedInternalRefs g ids ↔ ∃ i b a, i < g.length ∧ ids i = some b ∧ a ∈ (node g i).args ∧
      a.src = .mem x.1 ∧ x.2 = depBlockId (node g i) a b := by
  unfold fusedInternalRefs
  rw [List.mem_flatMap]
  constructor
  · rintro ⟨i, hi, h⟩
    cases hid : ids i with
    | none => rw [hid] at h; cases h
    | some b =>
      rw [hid] at h
      obtain ⟨a, ha, h⟩ := List.mem_filterMap.mp h
      cases hs : a.src with
      | ext j => rw [hs] at h; cases h
      | mem e =>
        rw [hs] at h
        simp only [Option.some.injEq] at h
        subst h
        exact ⟨i, b, a, List.mem_range.mp hi, hid, ha, hs, rfl⟩
  · rintro ⟨i, b, a, hi, hid, ha, hs, hx⟩
    refine ⟨i, List.mem_range.mpr hi, ?_⟩
    rw [hid]
    refine List.mem_filterMap.mpr ⟨a, ha, ?_⟩
    rw [hs]
    cases x with
    | mk e c => simp only at hx; rw [hx]

theorem fusedReads_iff (g : Group) (r : List Nat) (ids : Nat → Option (List Nat)) (h : IdsOK g r ids)
    (e : Nat) (c : List Nat) : (e, c) ∈ fusedReads g ids ↔ ExtRead g r e c := by
  rw [mem_fusedReads]
  constructor
  · rintro ⟨i, b, a, hi, hid, ha, hs, hx⟩
    exact ⟨i, b, a, h.reached i b hid, hi, ha, hs, hx⟩
  · rintro ⟨i, b, a, hreach, hi, ha, hs, hx⟩
    exact ⟨i, b, a, hi, h.every_path i b hreach, ha, hs, hx⟩

theorem fusedInternalRefs_resolve (g : Group) (r : List Nat) (ids : Nat → Option (List Nat))
    (h : IdsOK g r ids) (j : Nat) (c : List Nat) (hx : (j, c) ∈ fusedInternalRefs g ids) :
    ids j = some c := by
  obtain ⟨i, b, a, hi, hid, ha, hs, hc⟩ := (mem_fusedInternalRefs g ids (j, c)).mp hx
  simp only at hs hc
  rw [hc]
  exact h.every_path j _ (Reach.step (h.reached i b hid) hi ha hs)

/-! ### the executable path semantics agrees with `Reach` / `ExtRead` -/

theorem mem_pathsReads_succ (g : Group) (fuel i : Nat) (b : List Nat) (x : Nat × List Nat) :
    x ∈ pathsReads g (fuel + 1) i b ↔ i < g.length ∧ ∃ a ∈ (node g i).args,
      (∃ e, a.src = .ext e ∧ x = (e, depBlockId (node g i) a b)) ∨
      (∃ j, a.src = .mem j ∧ x ∈ pathsReads g fuel j (depBlockId (node g i) a b)) := by
  simp only [pathsReads]
  by_cases hi : i < g.length
  · simp only [hi, if_true, true_and, List.mem_flatMap]
    constructor
    · rintro ⟨a, ha, h⟩
      refine ⟨a, ha, ?_⟩
      cases hs : a.src with
      | ext e => rw [hs] at h; exact Or.inl ⟨e, rfl, by simpa using h⟩
      | mem j => rw [hs] at h; exact Or.inr ⟨j, rfl, h⟩
    · rintro ⟨a, ha, h⟩
      refine ⟨a, ha, ?_⟩
      rcases h with ⟨e, hs, hx⟩ | ⟨j, hs, hx⟩
      · rw [hs]; simp [hx]
      · rw [hs]; exact hx
  · simp [hi]

theorem pathsReads_sound (g : Group) (r : List Nat) (fuel : Nat) (i : Nat) (b : List Nat)
    (hreach : Reach g r i b) (x : Nat × List Nat) (hx : x ∈ pathsReads g fuel i b) :
    ExtRead g r x.1 x.2 := by
  induction fuel generalizing i b with
  | zero => simp [pathsReads] at hx
  | succ fuel ih =>
    obtain ⟨hi, a, ha, h⟩ := (mem_pathsReads_succ g fuel i b x).mp hx
    rcases h with ⟨e, hs, hxe⟩ | ⟨j, hs, hxj⟩
    · subst hxe
      exact ⟨i, b, a, hreach, hi, ha, hs, rfl⟩
    · exact ih j _ (Reach.step hreach hi ha hs) hxj

theorem pathsReads_lift (g : Group) (r : List Nat) (i : Nat) (b : List Nat) (hreach : Reach g r i b)
    (x : Nat × List Nat) (fuel : Nat) (hx : x ∈ pathsReads g fuel i b) :
    ∃ fuel', x ∈ pathsReads g fuel' 0 r := by
  induction hreach generalizing fuel with
  | root => exact ⟨fuel, hx⟩
  | @step i j b a _ hi ha hs ih =>
    exact ih (fuel + 1) ((mem_pathsReads_succ g fuel i b x).mpr ⟨hi, a, ha, Or.inr ⟨j, hs, hx⟩⟩)

theorem pathsReads_complete (g : Group) (r : List Nat) (e : Nat) (c : List Nat) (h : ExtRead g r e c) :
    ∃ fuel, (e, c) ∈ pathsReads g fuel 0 r := by
  obtain ⟨i, b, a, hreach, hi, ha, hs, hc⟩ := h
  exact pathsReads_lift g r i b hreach (e, c) 1
    ((mem_pathsReads_succ g 0 i b (e, c)).mpr ⟨hi, a, ha, Or.inl ⟨e, hs, by rw [hc]⟩⟩)

/-! ### `_remove_conflicting_exprs` keeps an accepted group whole -/

theorem removeConflicting_of_accepted (g : Group) (h : Accepted g) :
    removeConflicting g = List.range g.length := by
  unfold removeConflicting
  have : conflictsOf g = [] := h
  simp [this]

/-! ### the `% numblocks` rule: a dependency block id is always inside the dependency's grid -/

theorem computeBlockId_length (ind : List Nat) (m : Nat → Option Nat) (nb : List Nat) :
    (computeBlockId ind m nb).length = ind.length := by simp [computeBlockId]

theorem computeBlockId_lt (ind : List Nat) (m : Nat → Option Nat) (nb : List Nat)
    (hl : ind.length = nb.length) (hpos : ∀ n ∈ nb, 0 < n) (t : Nat) (ht : t < nb.length) :
    (computeBlockId ind m nb).getD t 0 < nb.getD t 1 := by
  unfold computeBlockId
  rw [getD_map_range _ _ _ _ (by omega)]
  have hp : 0 < nb.getD t 1 := hpos _ (getD_mem _ _ _ ht)
  cases m (ind.getD t 0) with
  | none => exact hp
  | some v => exact Nat.mod_lt _ hp

theorem computeBlockId_single (ind : List Nat) (m : Nat → Option Nat) (nb : List Nat)
    (t : Nat) (ht : t < ind.length) (h1 : nb.getD t 1 = 1) :
    (computeBlockId ind m nb).getD t 0 = 0 := by
  unfold computeBlockId
  rw [getD_map_range _ _ _ _ ht, h1]
  cases m (ind.getD t 0) with
  | none => rfl
  | some v => exact Nat.mod_one v

theorem broadcastBlockId_length (nb b : List Nat) : (broadcastBlockId nb b).length = nb.length := by
  simp [broadcastBlockId]

theorem broadcastBlockId_lt (nb b nbOut : List Nat) (hl : nb.length ≤ b.length)
    (hv : ∀ p, p < b.length → b.getD p 0 < nbOut.getD p 1)
    (hal : ∀ t, t < nb.length → nb.getD t 1 = 1 ∨ nb.getD t 1 = nbOut.getD (b.length - nb.length + t) 1)
    (t : Nat) (ht : t < nb.length) :
    (broadcastBlockId nb b).getD t 0 < nb.getD t 1 := by
  unfold broadcastBlockId
  rw [getD_map_range _ _ _ _ ht]
  rcases hal t ht with h1 | h1
  · rw [if_pos h1, h1]; exact Nat.one_pos
  · by_cases h2 : nb.getD t 1 = 1
    · rw [if_pos h2, h2]; exact Nat.one_pos
    · rw [if_neg h2, h1]; exact hv _ (by omega)

/-! ### every block the unfused graph touches lies inside its array's grid -/

theorem reach_in_grid (g : Group) (r : List Nat) (hwf : WF g) (hsym : SymOK g (symFill g).tab)
    (hr : ValidBlock g r) (m : Nat) (b : List Nat) (h : Reach g r m b) :
    b.length = (node g m).nb.length ∧ ∀ t, t < (node g m).nb.length → b.getD t 0 < (node g m).nb.getD t 1 := by
  obtain ⟨hm, hb⟩ := reach_canon g r hwf hsym hr m b h
  have hX := wfNode_of_lt g hwf m hm
  rw [hb]
  exact ⟨conc_length _ _ _, fun t ht => conc_lt _ _ _ t ht hX.2.1⟩

theorem extRead_in_grid (g : Group) (r : List Nat) (hwf : WF g) (hsym : SymOK g (symFill g).tab)
    (hr : ValidBlock g r) (e : Nat) (c : List Nat) (h : ExtRead g r e c) :
    ∃ i a, i < g.length ∧ a ∈ (node g i).args ∧ a.src = .ext e ∧ c.length = a.nb.length ∧
      ∀ t, t < a.nb.length → c.getD t 0 < a.nb.getD t 1 := by
  obtain ⟨i, b, a, hreach, hi, ha, hs, hc⟩ := h
  obtain ⟨_, hb⟩ := reach_canon g r hwf hsym hr i b hreach
  obtain ⟨M, hM, hl, _⟩ := hsym.all i hi
  have hX := wfNode_of_lt g hwf i hi
  obtain ⟨M', _, _, hdep⟩ := edge_ok g (node g i) a r M hX ha hl
  obtain ⟨_, hpos, _, _⟩ := hX.2.2 a ha
  have hb' : b = conc r M (node g i).nb := by rw [hb, canon, hM]; rfl
  refine ⟨i, a, hi, ha, hs, ?_, ?_⟩
  · rw [hc, hb', hdep]; exact conc_length _ _ _
  · intro t ht
    rw [hc, hb', hdep]; exact conc_lt _ _ _ t ht hpos

end Dask.Fusion
