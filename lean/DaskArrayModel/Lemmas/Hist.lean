/-
Lemmas and proofs for the history models (C23, C11).  Core Lean only.
-/
import DaskArrayModel.Model.Hist
import DaskArrayModel.Lemmas.SliceAlgebra
namespace Dask.Lemmas.Hist
open Dask.Py Dask.Py.PySlice Dask.Slicing Dask.Hist Dask.Lemmas.SliceAlgebra

/-! ## `_block_id_to_flat_index` -/

/-- product of the `numblocks` entries of a zipped list. -/
def prodSnd : List (Nat × Nat) → Nat
  | [] => 1
  | (_, n) :: rest => n * prodSnd rest

theorem prodSnd_append (l m : List (Nat × Nat)) : prodSnd (l ++ m) = prodSnd l * prodSnd m := by
  induction l with
  | nil => simp [prodSnd]
  | cons a l ih => obtain ⟨b, n⟩ := a; simp [prodSnd, ih, Nat.mul_assoc]

theorem prodSnd_reverse (l : List (Nat × Nat)) : prodSnd l.reverse = prodSnd l := by
  induction l with
  | nil => rfl
  | cons a l ih =>
    obtain ⟨b, n⟩ := a
    simp [prodSnd_append, prodSnd, ih, Nat.mul_comm]

theorem prodSnd_zip (bs ns : List Nat) (h : bs.length = ns.length) : prodSnd (bs.zip ns) = nblocks ns := by
  induction ns generalizing bs with
  | nil => cases bs <;> simp_all [prodSnd, nblocks]
  | cons n ns ih =>
    cases bs with
    | nil => simp at h
    | cons b bs => simp at h; simp [prodSnd, nblocks, ih bs h]

theorem flatLoop_append (l m : List (Nat × Nat)) (f s : Nat) :
    flatLoop (l ++ m) f s = flatLoop m (flatLoop l f s) (s * prodSnd l) := by
  induction l generalizing f s with
  | nil => simp [flatLoop, prodSnd]
  | cons a l ih =>
    obtain ⟨b, n⟩ := a
    simp [flatLoop, prodSnd, ih, Nat.mul_assoc]

/-- the Python loop computes the row-major rank. -/
theorem flatLoop_zip (ns bs : List Nat) (h : bs.length = ns.length) :
    flatLoop (bs.zip ns).reverse 0 1 = rowMajor ns bs := by
  induction ns generalizing bs with
  | nil => cases bs <;> simp_all [flatLoop, rowMajor]
  | cons n ns ih =>
    cases bs with
    | nil => simp at h
    | cons b bs =>
      simp at h
      simp only [List.zip_cons_cons, List.reverse_cons, flatLoop_append, flatLoop, rowMajor]
      rw [ih bs h, prodSnd_reverse, prodSnd_zip bs ns h]
      simp [Nat.add_comm]

theorem inGrid_length : ∀ (ns bs : List Nat), InGrid ns bs → bs.length = ns.length
  | [], [], _ => rfl
  | [], _ :: _, h => by simp [InGrid] at h
  | _ :: _, [], h => by simp [InGrid] at h
  | _ :: ns, _ :: bs, h => by simp [InGrid] at h; simp [inGrid_length ns bs h.2]

theorem flatIndex_eq_rowMajor (ns bs : List Nat) (h : bs.length = ns.length) :
    flatIndex ns bs = rowMajor ns bs := by
  unfold flatIndex
  rw [← h, List.take_length]
  exact flatLoop_zip ns bs h

/-- the `extra_chunks` coordinates are ignored. -/
theorem flatIndex_extra (ns bs extra : List Nat) (h : bs.length = ns.length) :
    flatIndex ns (bs ++ extra) = flatIndex ns bs := by
  unfold flatIndex
  rw [← h, List.take_left', List.take_length]
  rfl

theorem nblocks_pos_of_inGrid : ∀ (ns bs : List Nat), InGrid ns bs → 0 < nblocks ns
  | [], [], _ => by simp [nblocks]
  | [], _ :: _, h => by simp [InGrid] at h
  | _ :: _, [], h => by simp [InGrid] at h
  | n :: ns, b :: bs, h => by
    simp [InGrid] at h
    have := nblocks_pos_of_inGrid ns bs h.2
    simp only [nblocks]
    exact Nat.mul_pos (by omega) this

theorem rowMajor_lt : ∀ (ns bs : List Nat), InGrid ns bs → rowMajor ns bs < nblocks ns
  | [], [], _ => by simp [rowMajor, nblocks]
  | [], _ :: _, h => by simp [InGrid] at h
  | _ :: _, [], h => by simp [InGrid] at h
  | n :: ns, b :: bs, h => by
    simp [InGrid] at h
    have ih := rowMajor_lt ns bs h.2
    simp only [rowMajor, nblocks]
    have h1 : (b + 1) * nblocks ns ≤ n * nblocks ns := Nat.mul_le_mul_right _ (by omega)
    rw [Nat.succ_mul] at h1
    omega

theorem rowMajor_inj : ∀ (ns bs bs' : List Nat), InGrid ns bs → InGrid ns bs' →
    rowMajor ns bs = rowMajor ns bs' → bs = bs'
  | [], [], [], _, _, _ => rfl
  | [], _ :: _, _, h, _, _ => by simp [InGrid] at h
  | [], [], _ :: _, _, h, _ => by simp [InGrid] at h
  | _ :: _, [], _, h, _, _ => by simp [InGrid] at h
  | _ :: _, _ :: _, [], _, h, _ => by simp [InGrid] at h
  | n :: ns, b :: bs, b' :: bs', h, h', e => by
    simp [InGrid] at h h'
    have r := rowMajor_lt ns bs h.2
    have r' := rowMajor_lt ns bs' h'.2
    simp only [rowMajor] at e
    have hb : b = b' := by
      rcases Nat.lt_trichotomy b b' with hlt | heq | hgt
      · have h1 : (b + 1) * nblocks ns ≤ b' * nblocks ns := Nat.mul_le_mul_right _ (by omega)
        rw [Nat.succ_mul] at h1
        omega
      · exact heq
      · have h1 : (b' + 1) * nblocks ns ≤ b * nblocks ns := Nat.mul_le_mul_right _ (by omega)
        rw [Nat.succ_mul] at h1
        omega
    subst hb
    have : rowMajor ns bs = rowMajor ns bs' := by omega
    rw [rowMajor_inj ns bs bs' h.2 h'.2 this]

theorem unflat_spec : ∀ (ns : List Nat) (k : Nat), k < nblocks ns →
    InGrid ns (unflatIndex ns k) ∧ rowMajor ns (unflatIndex ns k) = k
  | [], k, h => by simp [nblocks] at h; simp [unflatIndex, InGrid, rowMajor, h]
  | n :: ns, k, h => by
    simp only [nblocks] at h
    have hP : 0 < nblocks ns := by
      rcases Nat.eq_zero_or_pos (nblocks ns) with h0 | h0
      · rw [h0] at h; simp at h
      · exact h0
    have ih := unflat_spec ns (k % nblocks ns) (Nat.mod_lt _ hP)
    simp only [unflatIndex, InGrid, rowMajor]
    refine ⟨⟨?_, ih.1⟩, ?_⟩
    · exact Nat.div_lt_of_lt_mul (by rw [Nat.mul_comm]; exact h)
    · rw [ih.2]; exact Nat.div_add_mod' k (nblocks ns)

theorem unflat_rowMajor : ∀ (ns bs : List Nat), InGrid ns bs → unflatIndex ns (rowMajor ns bs) = bs
  | [], [], _ => rfl
  | [], _ :: _, h => by simp [InGrid] at h
  | _ :: _, [], h => by simp [InGrid] at h
  | n :: ns, b :: bs, h => by
    simp [InGrid] at h
    have r := rowMajor_lt ns bs h.2
    have hP : 0 < nblocks ns := by omega
    simp only [rowMajor, unflatIndex]
    have e1 : (b * nblocks ns + rowMajor ns bs) / nblocks ns = b := by
      rw [Nat.add_comm, Nat.add_mul_div_right _ _ hP, Nat.div_eq_of_lt r]; simp
    have e2 : (b * nblocks ns + rowMajor ns bs) % nblocks ns = rowMajor ns bs := by
      rw [Nat.add_comm, Nat.add_mul_mod_self_right, Nat.mod_eq_of_lt r]
    rw [e1, e2, unflat_rowMajor ns bs h.2]

theorem mem_grid : ∀ (ns bs : List Nat), bs ∈ grid ns ↔ InGrid ns bs
  | [], [] => by simp [grid, InGrid]
  | [], _ :: _ => by simp [grid, InGrid]
  | n :: ns, [] => by simp [grid, InGrid]
  | n :: ns, b :: bs => by
    simp only [grid, List.mem_flatMap, List.mem_range, List.mem_map, InGrid]
    constructor
    · rintro ⟨b', hb', bs', hbs', e⟩
      simp at e
      obtain ⟨rfl, rfl⟩ := e
      exact ⟨hb', (mem_grid ns bs').mp hbs'⟩
    · rintro ⟨hb, hbs⟩
      exact ⟨b, hb, bs, (mem_grid ns bs).mpr hbs, rfl⟩

theorem range_flatMap_blocks (n P : Nat) :
    (List.range n).flatMap (fun b => (List.range P).map (fun r => b * P + r)) = List.range (n * P) := by
  induction n with
  | zero => simp
  | succ n ih =>
    rw [List.range_succ, List.flatMap_append, ih, Nat.succ_mul, List.range_add]
    simp

/-- `itertools.product` order IS flat-index order: the k-th block of the grid has flat index k. -/
theorem grid_rowMajor : ∀ ns : List Nat, (grid ns).map (rowMajor ns) = List.range (nblocks ns)
  | [] => by simp [grid, rowMajor, nblocks, List.range_succ]
  | n :: ns => by
    have ih := grid_rowMajor ns
    simp only [grid, nblocks, List.map_flatMap, List.map_map]
    have : ∀ b : Nat, (List.map (rowMajor (n :: ns) ∘ fun bs => b :: bs) (grid ns))
        = (List.range (nblocks ns)).map (fun r => b * nblocks ns + r) := by
      intro b
      rw [← ih, List.map_map]
      apply List.map_congr_left
      intro bs _
      simp [rowMajor]
    simp only [this]
    exact range_flatMap_blocks n (nblocks ns)

theorem grid_flatIndex (ns : List Nat) : (grid ns).map (flatIndex ns) = List.range (nblocks ns) := by
  rw [← grid_rowMajor ns]
  apply List.map_congr_left
  intro bs h
  exact flatIndex_eq_rowMajor ns bs (inGrid_length _ _ ((mem_grid ns bs).mp h))

/-! ## generators, nodes, histories -/

theorem construct_params (spawn : Nat → Nat → Nat) (k : Kind) (g : Gen) (p : Params) :
    (construct spawn k g p).1.params = p := rfl

/-- pickling carries the seed vector: `_reconstruct` draws fresh seeds and then overwrites them. -/
theorem reconstruct_reduce (spawn : Nat → Nat → Nat) (k : Kind) (g : Gen) (r : Node) :
    reconstruct spawn k (reduce g r) = r := by
  simp [reconstruct, reduce, construct]

theorem rebuild_scalar (spawn : Nat → Nat → Nat) (k : Kind) (g : Gen) (r : Node) (f : Nat → Nat)
    (hd : r.params.deps = []) : rebuild spawn k g r f = (r, g) := by
  simp [rebuild, hd]

/-- what stays fixed along a history -/
theorem step_fixed (spawn : Nat → Nat → Nat) (k : Kind) (w : World) (_hd : w.node.params.deps = []) (op : Op) :
    (step spawn k w op).node = w.node ∧ (step spawn k w op).born = w.born := by
  cases op <;> simp [Hist.step, reconstruct_reduce]

theorem step_obs (spawn : Nat → Nat → Nat) (k : Kind) (w : World) (hwf : WF spawn k w)
    (hd : w.node.params.deps = []) (op : Op) :
    ∀ o ∈ (step spawn k w op).obs, o ∈ w.obs ∨ ∃ bid, o = observe w.node bid := by
  intro o ho
  cases op with
  | compute =>
    simp only [Hist.step, List.mem_append, List.mem_map] at ho
    rcases ho with ho | ⟨bid, _, rfl⟩
    · exact Or.inl ho
    · exact Or.inr ⟨bid, rfl⟩
  | derive f blocks =>
    simp only [Hist.step, rebuild_scalar spawn k w.gen w.node f hd, List.mem_append, List.mem_map] at ho
    rcases ho with ho | ⟨bid, _, rfl⟩
    · exact Or.inl ho
    · exact Or.inr ⟨bid, rfl⟩
  | pickle => simp only [Hist.step] at ho; exact Or.inl ho
  | other p => simp only [Hist.step] at ho; exact Or.inl ho
  | rebuildSameSeed =>
    simp only [Hist.step, List.mem_append, List.mem_map] at ho
    rcases ho with ho | ⟨bid, _, rfl⟩
    · exact Or.inl ho
    · refine Or.inr ⟨bid, ?_⟩
      rw [← hwf]

theorem run_invariant (spawn : Nat → Nat → Nat) (k : Kind) (ops : List Op) :
    ∀ (w : World), WF spawn k w → w.node.params.deps = [] →
      (run spawn k ops w).node = w.node ∧
      ∀ o ∈ (run spawn k ops w).obs, o ∈ w.obs ∨ ∃ bid, o = observe w.node bid := by
  induction ops with
  | nil => intro w _ _; exact ⟨rfl, fun o ho => Or.inl ho⟩
  | cons op ops ih =>
    intro w hwf hd
    have hfix := step_fixed spawn k w hd op
    have hwf' : WF spawn k (step spawn k w op) := by
      unfold WF; rw [hfix.1, hfix.2]; exact hwf
    have hd' : (step spawn k w op).node.params.deps = [] := by rw [hfix.1]; exact hd
    have h := ih (step spawn k w op) hwf' hd'
    simp only [run]
    refine ⟨by rw [h.1, hfix.1], ?_⟩
    intro o ho
    rcases h.2 o ho with h1 | ⟨bid, rfl⟩
    · exact step_obs spawn k w hwf hd op o h1
    · exact Or.inr ⟨bid, by rw [hfix.1]⟩

theorem draw_length (spawn : Nat → Nat → Nat) (k : Kind) (g : Gen) (n : Nat) :
    (draw spawn k g n).1.length = n := by
  cases k <;> simp [draw]

/-! ## integer arithmetic used by the assignment lemmas -/

theorem pyDiv_pos (a c : Int) (hc : 0 < c) : pyDiv a c = a / c := by simp [pyDiv, hc]
theorem pyMod_pos (a c : Int) (hc : 0 < c) : pyMod a c = a % c := by simp [pyMod, hc]

/-- Python's `q, r = divmod(D, c); if r: q += 1`. -/
def ceilq (D c : Int) : Int := if D % c ≠ 0 then D / c + 1 else D / c

theorem ceilq_spec (D c : Int) (hc : 0 < c) (i : Int) : i < ceilq D c ↔ i * c < D := by
  have hdm := Int.emod_def D c
  have hr0 := Int.emod_nonneg D (by omega : c ≠ 0)
  have hr1 := Int.emod_lt_of_pos D hc
  have key : i ≤ D / c ↔ i * c ≤ D := Int.le_ediv_iff_mul_le hc
  have key1 : i + 1 ≤ D / c ↔ (i + 1) * c ≤ D := Int.le_ediv_iff_mul_le hc
  rw [Int.add_mul] at key1
  unfold ceilq
  split
  · rename_i hr
    constructor
    · intro h
      have : i * c ≤ D := key.mp (by omega)
      rcases Int.lt_or_eq_of_le this with h1 | h1
      · exact h1
      · exfalso; apply hr; rw [← h1]; exact Int.mul_emod_left i c
    · intro h; have := key.mpr (by omega); omega
  · rename_i hr
    have hr' : D % c = 0 := by omega
    constructor
    · intro h; have := key1.mp (by omega); omega
    · intro h
      -- D = c * (D / c)
      rw [hr'] at hdm
      by_cases hq : i < D / c
      · exact hq
      · exfalso
        have : D / c ≤ i := by omega
        have := Int.mul_le_mul_of_nonneg_right this (Int.le_of_lt hc)
        rw [Int.mul_comm (D / c) c] at this
        omega

theorem int_eq_of_lt_iff {x y : Int} (h : ∀ i : Int, i < x ↔ i < y) : x = y := by
  have h1 := h (x - 1); have h2 := h (y - 1); have h3 := h x; have h4 := h y
  omega

/-! ## ranks in ranges -/

theorem getElem_rangeList (a b c : Int) (i : Nat) (h : i < (rangeList a b c).length) :
    (rangeList a b c)[i] = a + (i : Int) * c := by
  simp [rangeList]

/-- rank of `p` in `range(a, b, c)` (any sign of `c ≠ 0`). -/
theorem findIdx_rangeList_some (a b c p : Int) (hc : c ≠ 0) (k : Nat)
    (hk : k < rangeLen a b c) (hp : p = a + (k : Int) * c) :
    (rangeList a b c).findIdx? (· == p) = some k := by
  rw [List.findIdx?_eq_some_iff_getElem]
  refine ⟨by simpa using hk, ?_, ?_⟩
  · simp [getElem_rangeList, hp]
  · intro j hj
    simp only [getElem_rangeList, hp, beq_iff_eq]
    intro e
    have e2 : ((j : Int) - k) * c = 0 := by rw [Int.sub_mul]; omega
    rcases Int.mul_eq_zero.mp e2 with h | h
    · omega
    · exact hc h

theorem findIdx_rangeList_none (a b c p : Int)
    (h : ∀ k : Nat, k < rangeLen a b c → p ≠ a + (k : Int) * c) :
    (rangeList a b c).findIdx? (· == p) = none := by
  rw [List.findIdx?_eq_none_iff]
  intro x hx
  rw [mem_rangeList] at hx
  obtain ⟨i, hi, rfl⟩ := hx
  simp only [beq_eq_false_iff_ne, ne_eq]
  intro e
  exact h i hi e.symm

/-! ## `parse_assignment_indices` -/
theorem normalizeSlice_stp (s : PySlice) (n : Int) : (normalizeSlice s n).stp = s.stp := by
  unfold normalizeSlice
  simp only []
  split
  · exact stp_mk_ite _ _ _
  · split
    · split
      · simp [stp]
      · split <;> simp [stp]
    · rfl

theorem normalizeSlice_istart_nonneg (s : PySlice) (n : Int) (hn : 0 < n) (hc : s.stp < 0) :
    0 ≤ (normalizeSlice s n).istart n := by
  have h1 : ¬ s.stp > 0 := by omega
  have hb := istart_neg_bounds s n (by omega) hc
  unfold normalizeSlice
  simp only [h1, hc, if_true, if_false]
  generalize s.istart n = a at hb ⊢
  generalize s.istop n = b
  generalize hcc : s.stp = c at hc
  split
  · simp [istart, stp, hc]; omega
  · split
    · simp [istart, stp, adjust, hc]; omega
    · simp only [istart, stp, Option.getD_some, hc, decide_true]
      rw [adjust_true_id _ _ (by omega) (by omega)]; omega

theorem rangeList_nil_pos (a b c : Int) (hc : 0 < c) (h : b ≤ a) : rangeList a b c = [] := by
  unfold rangeList; rw [rangeLen_eq_zero_pos hc h]; rfl

theorem toNat_eq_of_lt_iff (x : Int) (k : Nat) (h : ∀ i : Nat, (i : Int) < x ↔ i < k) : x.toNat = k := by
  have h1 := h k
  have h2 := h (k - 1)
  have h3 := h x.toNat
  have h4 := h (x.toNat - 1)
  omega

/-- a decreasing range is the reverse of the increasing range `parse_assignment_indices` builds. -/
theorem rangeList_neg_reverse (a b c : Int) (hc : c < 0) :
    rangeList a b c = (rangeList (a - (a - b - 1) / (-c) * (-c)) (a + 1) (-c)).reverse := by
  have hm : 0 < -c := by omega
  generalize hd : (a - b - 1) / (-c) = d
  have hlen : ∀ i : Nat, (i < rangeLen a b c ↔ (i : Int) ≤ d) ∧
      (i < rangeLen (a - d * (-c)) (a + 1) (-c) ↔ (i : Int) ≤ d) := by
    intro i
    rw [lt_rangeLen_neg a b c hc, lt_rangeLen_pos _ _ _ hm]
    have key : (i : Int) ≤ (a - b - 1) / (-c) ↔ (i : Int) * (-c) ≤ a - b - 1 := Int.le_ediv_iff_mul_le hm
    rw [hd] at key
    rw [Int.mul_neg] at key
    constructor
    · rw [key]; omega
    · constructor
      · intro h
        have : (i : Int) * (-c) < (d + 1) * (-c) := by rw [Int.add_mul]; omega
        have := Int.lt_of_mul_lt_mul_right this (Int.le_of_lt hm)
        omega
      · intro h
        have := Int.mul_le_mul_of_nonneg_right h (Int.le_of_lt hm)
        omega
  have hlen_eq : rangeLen a b c = rangeLen (a - d * (-c)) (a + 1) (-c) :=
    nat_eq_of_lt_iff (fun i => by rw [(hlen i).1, (hlen i).2])
  apply List.ext_getElem?
  intro i
  by_cases hi : i < rangeLen a b c
  · have hi2 : i < rangeLen (a - d * (-c)) (a + 1) (-c) := hlen_eq ▸ hi
    rw [List.getElem?_reverse (by simpa using hi2), getElem?_rangeList, getElem?_rangeList, length_rangeList]
    have hid : (i : Int) ≤ d := (hlen i).1.mp hi
    -- the last index
    have hlast : ¬ ((rangeLen (a - d * (-c)) (a + 1) (-c) : Nat) : Int) ≤ d := by
      intro h; have := (hlen (rangeLen (a - d * (-c)) (a + 1) (-c))).2.mpr h; omega
    have hlast2 : ((rangeLen (a - d * (-c)) (a + 1) (-c) - 1 : Nat) : Int) ≤ d := by
      have := (hlen (rangeLen (a - d * (-c)) (a + 1) (-c) - 1)).2.mp (by omega); exact this
    have hj : ((rangeLen (a - d * (-c)) (a + 1) (-c) - 1 - i : Nat) : Int) = d - i := by omega
    simp only [hi, if_true]
    have hlt : rangeLen (a - d * (-c)) (a + 1) (-c) - 1 - i < rangeLen (a - d * (-c)) (a + 1) (-c) := by omega
    simp only [hlt, if_true, hj]
    congr 1
    simp only [Int.sub_mul, Int.mul_neg]
    omega
  · have hi2 : ¬ i < rangeLen (a - d * (-c)) (a + 1) (-c) := hlen_eq ▸ hi
    rw [List.getElem?_eq_none (by simpa using hi), List.getElem?_eq_none (by simpa using hi2)]

/-- what the block arithmetic needs to know about a parsed assignment slice. -/
structure PF (s : PySlice) (n A B m : Int) : Prop where
  idx : parseAssign s n = ⟨some A, some B, some m⟩
  hm : 0 < m
  hA : 0 ≤ A
  hB : B ≤ n
  selP : sel (parseAssign s n) n = rangeList A B m
  selS : sel s n = if parseAssignReversed s n then (rangeList A B m).reverse else rangeList A B m
  impl : A < B → parseAssignImplied s n = ceilq (B - A) m
  implNat : (parseAssignImplied s n).toNat = rangeLen A B m

theorem ceilq_toNat (A B m : Int) (hm : 0 < m) : (ceilq (B - A) m).toNat = rangeLen A B m := by
  apply toNat_eq_of_lt_iff
  intro i
  rw [ceilq_spec _ _ hm, lt_rangeLen_pos _ _ _ hm]; omega

theorem parseImplied_eq (t : PySlice) (n : Int) (h : 0 < (parseIndex2 t n).stp) :
    parseImplied t n = ceilq ((parseIndex2 t n).istop n - (parseIndex2 t n).istart n) (parseIndex2 t n).stp := by
  unfold parseImplied parseDiv parseMod ceilq
  simp only [pyDiv_pos _ _ h, pyMod_pos _ _ h]
  generalize (parseIndex2 t n).istop n - (parseIndex2 t n).istart n = D
  generalize (parseIndex2 t n).stp = m
  split
  · rename_i h0; simp [h0.1, h0.2]
  · rfl

theorem sel_mk_pos' (A B m n : Int) (hm : 0 < m) :
    sel ⟨some A, some B, some m⟩ n = rangeList (adjust A n false) (adjust B n false) m := by
  rw [sel_mk_pos (some A) (some B) (some m) n m (by simp [stp]) hm]; rfl

theorem parse_facts (s : PySlice) (n : Int) (hn : 0 ≤ n) (hs : s.stp ≠ 0) : ∃ A B m, PF s n A B m := by
  have hsel := sel_normalizeSlice s n (by omega) hs
  have hstp := normalizeSlice_stp s n
  have e1 : parseAssign s n = parseIndex2 (normalizeSlice s n) n := rfl
  have e2 : parseAssignImplied s n = parseImplied (normalizeSlice s n) n := rfl
  have e3 : parseAssignReversed s n = parseReversed (normalizeSlice s n) := rfl
  rcases Int.lt_trichotomy s.stp 0 with hc | hc | hc
  · -- negative step
    have ha0 : 0 ≤ (normalizeSlice s n).istart n ∨ n = 0 := by
      by_cases h0 : n = 0
      · exact Or.inr h0
      · exact Or.inl (normalizeSlice_istart_nonneg s n (by omega) hc)
    generalize normalizeSlice s n = t at *
    have hc' : t.stp < 0 := by omega
    have ha := istart_neg_bounds t n (by omega) hc'
    have hb := istop_neg_bounds t n (by omega) hc'
    have hsel_t : sel t n = rangeList (t.istart n) (t.istop n) t.stp := rfl
    have hp1 : parseIndex1 t n = ⟨some (t.istart n), if t.stp < 0 ∧ t.istop n = -1 then none else some (t.istop n), some t.stp⟩ := rfl
    generalize hae : t.istart n = a at *
    generalize hbe : t.istop n = b at *
    generalize hce : t.stp = c at *
    have hm : 0 < -c := by omega
    -- parseIndex1
    have hi1a : (parseIndex1 t n).istart n = a := by
      rw [hp1]; simp only [istart, stp, Option.getD_some, hc', decide_true]
      unfold adjust; simp only [if_true]; split <;> split <;> omega
    have hi1b : (parseIndex1 t n).istop n = b := by
      rw [hp1]
      by_cases hb1 : b = -1
      · simp [istop, stp, hc', hb1]
      · simp only [hb1, and_false, if_false, istop, stp, Option.getD_some, hc', decide_true]
        exact adjust_true_id b n (by omega) (by omega)
    have hi1c : (parseIndex1 t n).stp = c := hce
    have hidx : parseIndex2 t n =
        ⟨some (a - (a - b - 1) / (-c) * (-c)), some (a - (a - b - 1) / (-c) * (-c) + (a - b - 1) / (-c) * (-c) + 1), some (-c)⟩ := by
      unfold parseIndex2
      simp only [hce, hc', if_true, hi1a, hi1b, hi1c, pyDiv_pos _ _ hm]
    generalize hd : (a - b - 1) / (-c) = d at hidx
    have hdm : d * (-c) ≤ a - b - 1 := by rw [← hd]; exact Int.ediv_mul_le _ (by omega)
    have hA0 : 0 ≤ a - d * (-c) := by
      by_cases hab : b < a
      · omega
      · have : d < 0 := by rw [← hd]; exact (Int.ediv_lt_iff_lt_mul hm).mpr (by omega)
        have h1 : d ≤ -1 := by omega
        have := Int.mul_le_mul_of_nonneg_right h1 (Int.le_of_lt hm)
        omega
    have hBe : a - d * (-c) + d * (-c) + 1 = a + 1 := by omega
    rw [hBe] at hidx
    have hAB : a - d * (-c) < a + 1 → a - d * (-c) ≤ n := by omega
    have hselP : sel (parseIndex2 t n) n = rangeList (a - d * (-c)) (a + 1) (-c) := by
      rw [hidx, sel_mk_pos' _ _ _ _ hm, adjust_false_id (a + 1) n (by omega) (by omega)]
      by_cases hle : a - d * (-c) ≤ n
      · rw [adjust_false_id _ _ hA0 hle]
      · rw [adjust_false_nonneg _ _ hA0]
        simp only [show a - d * (-c) > n by omega, if_true]
        rw [rangeList_nil_pos _ _ _ hm (by omega), rangeList_nil_pos _ _ _ hm (by omega)]
    refine ⟨a - d * (-c), a + 1, -c, ?_⟩
    refine ⟨by rw [e1, hidx], hm, hA0, by omega, by rw [e1, hselP], ?_, ?_, ?_⟩
    · rw [e3]; simp only [parseReversed, hce, hc', decide_true, if_true]
      rw [← hsel, hsel_t, rangeList_neg_reverse a b c hc', hd]
    · intro hlt
      rw [e2, parseImplied_eq t n (by rw [hidx]; simpa [stp] using hm), hidx]
      simp only [istart, istop, stp, Option.getD_some]
      have : ¬ (-c < 0) := by omega
      simp only [this, decide_false]
      rw [adjust_false_id _ _ hA0 (hAB hlt), adjust_false_id (a + 1) n (by omega) (by omega)]
    · rw [e2, parseImplied_eq t n (by rw [hidx]; simpa [stp] using hm), hidx]
      simp only [istart, istop, stp, Option.getD_some]
      have : ¬ (-c < 0) := by omega
      simp only [this, decide_false]
      rw [adjust_false_id (a + 1) n (by omega) (by omega), ceilq_toNat _ _ _ hm]
      by_cases hle : a - d * (-c) ≤ n
      · rw [adjust_false_id _ _ hA0 hle]
      · rw [adjust_false_nonneg _ _ hA0]
        simp only [show a - d * (-c) > n by omega, if_true]
        rw [rangeLen_eq_zero_pos hm (by omega), rangeLen_eq_zero_pos hm (by omega)]
  · exact absurd hc hs
  · generalize normalizeSlice s n = t at *
    have hc' : 0 < t.stp := by omega
    have ha := istart_pos_bounds t n (by omega) hc'
    have hb := istop_pos_bounds t n (by omega) hc'
    have hsel_t : sel t n = rangeList (t.istart n) (t.istop n) t.stp := rfl
    have hidx : parseIndex2 t n = ⟨some (t.istart n), some (t.istop n), some t.stp⟩ := by
      have hnc : ¬ t.stp < 0 := by omega
      simp [parseIndex2, parseIndex1, hnc]
    generalize hae : t.istart n = a at *
    generalize hbe : t.istop n = b at *
    generalize hce : t.stp = c at *
    have hnc : ¬ c < 0 := by omega
    have hselP : sel (parseIndex2 t n) n = rangeList a b c := by
      rw [hidx, sel_mk_pos' _ _ _ _ hc', adjust_false_id a n ha.1 ha.2, adjust_false_id b n hb.1 hb.2]
    have himp : parseImplied t n = ceilq (b - a) c := by
      rw [parseImplied_eq t n (by rw [hidx]; simpa [stp] using hc'), hidx]
      simp only [istart, istop, stp, Option.getD_some, hnc, decide_false]
      rw [adjust_false_id a n ha.1 ha.2, adjust_false_id b n hb.1 hb.2]
    refine ⟨a, b, c, ?_⟩
    refine ⟨by rw [e1, hidx], hc', ha.1, hb.2, by rw [e1, hselP], ?_, ?_, ?_⟩
    · rw [e3]; simp only [parseReversed, hce, hnc, decide_false]
      rw [← hsel, hsel_t]; simp
    · intro _; rw [e2, himp]
    · rw [e2, himp, ceilq_toNat _ _ _ hc']

/-! ## per-block arithmetic of `setitem_array_expr` -/

/-- first progression point at or after `l0`, when the progression starts before `l0`:
`l0 + (A - l0) % m = A + ceilq (l0 - A) m * m`. -/
theorem first_in_block (A m l0 : Int) (hm : 0 < m) (h : A - l0 < 0) :
    ceilq (l0 - A) m * m = l0 - A + (A - l0) % m ∧ 0 < ceilq (l0 - A) m := by
  have hdm := Int.emod_def (A - l0) m
  have hr0 := Int.emod_nonneg (A - l0) (by omega : m ≠ 0)
  have hr1 := Int.emod_lt_of_pos (A - l0) hm
  have e : ceilq (l0 - A) m = -((A - l0) / m) := by
    apply int_eq_of_lt_iff
    intro i
    rw [ceilq_spec _ _ hm]
    have hmul : (-((A - l0) / m)) * m = l0 - A + (A - l0) % m := by
      rw [Int.neg_mul, Int.mul_comm]; omega
    constructor
    · intro hi
      apply Int.lt_of_mul_lt_mul_right (a := m) _ (Int.le_of_lt hm)
      omega
    · intro hi
      have h1 : i + 1 ≤ -((A - l0) / m) := by omega
      have h2 := Int.mul_le_mul_of_nonneg_right h1 (Int.le_of_lt hm)
      rw [Int.add_mul] at h2
      omega
  constructor
  · rw [e, Int.neg_mul, Int.mul_comm]; omega
  · exact (ceilq_spec _ _ hm 0).mpr (by omega)

/-- the per-block start / stop / n_preceding arithmetic of `setitem_array_expr`, in rank form. -/
theorem block_core_aux (A B m l0 l1 q : Int) (hm : 0 < m) (hq0 : 0 ≤ q) (hq1 : q < l1 - l0) :
    let sb := if A - l0 < 0 then (A - l0) % m else A - l0
    let eb := if B < l1 then (l1 - l0) - (l1 - B) else l1 - l0
    let k0 := if A - l0 < 0 then ceilq (l0 - A) m else 0
    0 ≤ sb ∧ 0 ≤ k0 ∧
    (∀ j : Nat, q = sb + (j : Int) * m → q < eb → l0 + q = A + (k0 + j) * m ∧ l0 + q < B) ∧
    (∀ r : Nat, l0 + q = A + (r : Int) * m → l0 + q < B →
      ∃ j : Nat, q = sb + (j : Int) * m ∧ q < eb ∧ (r : Int) = k0 + j) := by
  intro sb eb k0
  have heb : ∀ x : Int, x < l1 - l0 → (x < eb ↔ l0 + x < B) := by
    intro x hx; simp only [eb]; split <;> omega
  by_cases hA : A - l0 < 0
  · have hf := first_in_block A m l0 hm hA
    have hr0 := Int.emod_nonneg (A - l0) (by omega : m ≠ 0)
    have hsb : sb = (A - l0) % m := by simp [sb, hA]
    have hk0 : k0 = ceilq (l0 - A) m := by simp [k0, hA]
    refine ⟨by omega, by omega, ?_, ?_⟩
    · intro j hj hlt
      refine ⟨?_, (heb q hq1).mp hlt⟩
      rw [Int.add_mul, hk0, hf.1]; omega
    · intro r hr hlt
      have hge : ¬ (r : Int) < ceilq (l0 - A) m := by
        rw [ceilq_spec _ _ hm]; omega
      refine ⟨((r : Int) - k0).toNat, ?_, (heb q hq1).mpr hlt, ?_⟩
      · have : (((r : Int) - k0).toNat : Int) = r - k0 := Int.toNat_of_nonneg (by omega)
        rw [this, Int.sub_mul, hk0, hf.1]; omega
      · have : (((r : Int) - k0).toNat : Int) = r - k0 := Int.toNat_of_nonneg (by omega)
        omega
  · have hsb : sb = A - l0 := by simp [sb, hA]
    have hk0 : k0 = 0 := by simp [k0, hA]
    refine ⟨by omega, by omega, ?_, ?_⟩
    · intro j hj hlt
      refine ⟨?_, (heb q hq1).mp hlt⟩
      rw [hk0]; simp; omega
    · intro r hr hlt
      exact ⟨r, by omega, (heb q hq1).mpr hlt, by omega⟩

/-- `block_index.start` of a block `[l0, …)` for a progression starting at `A` with step `m`. -/
def sbOf (A m l0 : Int) : Int := if A - l0 < 0 then (A - l0) % m else A - l0
/-- `block_index.stop`. -/
def ebOf (B l0 l1 : Int) : Int := if B < l1 then (l1 - l0) - (l1 - B) else l1 - l0
/-- number of progression points before the block (`n_preceding`). -/
def k0Of (A m l0 : Int) : Int := if A - l0 < 0 then ceilq (l0 - A) m else 0

theorem block_core (A B m l0 l1 q : Int) (hm : 0 < m) (hq0 : 0 ≤ q) (hq1 : q < l1 - l0) :
    0 ≤ sbOf A m l0 ∧ 0 ≤ k0Of A m l0 ∧
    (∀ j : Nat, q = sbOf A m l0 + (j : Int) * m → q < ebOf B l0 l1 →
      l0 + q = A + (k0Of A m l0 + j) * m ∧ l0 + q < B) ∧
    (∀ r : Nat, l0 + q = A + (r : Int) * m → l0 + q < B →
      ∃ j : Nat, q = sbOf A m l0 + (j : Int) * m ∧ q < ebOf B l0 l1 ∧ (r : Int) = k0Of A m l0 + j) :=
  block_core_aux A B m l0 l1 q hm hq0 hq1

theorem blk_eqs (A B m l0 l1 : Int) (hm : 0 < m) :
    blkStart ⟨some A, some B, some m⟩ l0 = sbOf A m l0 ∧
    blkStop ⟨some A, some B, some m⟩ l0 l1 = ebOf B l0 l1 ∧
    blkSize ⟨some A, some B, some m⟩ l0 l1 = ceilq (ebOf B l0 l1 - sbOf A m l0) m := by
  refine ⟨?_, ?_, ?_⟩
  · simp only [blkStart, sbOf, Option.getD_some, pyMod_pos _ _ hm]
  · simp only [blkStop, ebOf, Option.getD_some]
  · simp only [blkSize, blkStart, blkStop, sbOf, ebOf, ceilq, Option.getD_some, pyMod_pos _ _ hm, pyDiv_pos _ _ hm]
    rfl

theorem ceilq_zero (m : Int) : ceilq 0 m = 0 := by simp [ceilq]

theorem blkPreceding_eq (A B m l0 : Int) (hm : 0 < m) (hA : 0 ≤ A) (hl0 : 0 ≤ l0) (hB : l0 < B) :
    blkPreceding ⟨some A, some B, some m⟩ l0 = k0Of A m l0 := by
  have hnm : ¬ m < 0 := by omega
  simp only [blkPreceding, istart, istop, stp, Option.getD_some, hnm, decide_false,
    pyMod_pos _ _ hm, pyDiv_pos _ _ hm]
  rw [adjust_false_nonneg A l0 hA, adjust_false_nonneg B l0 (by omega)]
  simp only [show B > l0 by omega, if_true]
  unfold k0Of
  by_cases h : A - l0 < 0
  · simp only [h, if_true, show ¬ A > l0 by omega, if_false]; rfl
  · simp only [h, if_false]
    by_cases h2 : A > l0
    · simp only [h2, if_true, Int.sub_self]; simp
    · have : A = l0 := by omega
      simp only [h2, if_false, this, Int.sub_self]; simp

theorem sel_mk_pos1 (x y n : Int) : sel ⟨some x, some y, none⟩ n = rangeList (adjust x n false) (adjust y n false) 1 := by
  rw [sel_mk_pos (some x) (some y) none n 1 (by simp [stp]) (by omega)]; rfl
theorem findIdx_reverse_rangeList_some (a b c p : Int) (hc : c ≠ 0) (k : Nat)
    (hk : k < rangeLen a b c) (hp : p = a + (k : Int) * c) :
    (rangeList a b c).reverse.findIdx? (· == p) = some (rangeLen a b c - 1 - k) := by
  rw [List.findIdx?_eq_some_iff_getElem]
  refine ⟨by simp; omega, ?_, ?_⟩
  · simp only [List.getElem_reverse, length_rangeList, getElem_rangeList, hp, beq_iff_eq]
    have : rangeLen a b c - 1 - (rangeLen a b c - 1 - k) = k := by omega
    rw [this]
  · intro j hj
    simp only [List.getElem_reverse, length_rangeList, getElem_rangeList, hp, beq_iff_eq]
    intro e
    have e2 : (((rangeLen a b c - 1 - j : Nat) : Int) - k) * c = 0 := by rw [Int.sub_mul]; omega
    rcases Int.mul_eq_zero.mp e2 with h | h
    · omega
    · exact hc h

theorem findIdx_reverse_rangeList_none (a b c p : Int)
    (h : ∀ k : Nat, k < rangeLen a b c → p ≠ a + (k : Int) * c) :
    (rangeList a b c).reverse.findIdx? (· == p) = none := by
  rw [List.findIdx?_eq_none_iff]
  intro x hx
  rw [List.mem_reverse, mem_rangeList] at hx
  obtain ⟨i, hi, rfl⟩ := hx
  simp only [beq_eq_false_iff_ne, ne_eq]
  intro e
  exact h i hi e.symm

/-- NumPy side in rank form. -/
theorem npSource_some (s : PySlice) (n A B m : Int) (pf : PF s n A B m) (p : Int) (r : Nat)
    (hr : p = A + (r : Int) * m) (hlt : p < B) :
    npSource s n p = some (if parseAssignReversed s n then rangeLen A B m - 1 - r else r) := by
  have hrl : r < rangeLen A B m := (lt_rangeLen_pos A B m pf.hm r).mpr (by omega)
  unfold npSource
  rw [pf.selS]
  split
  · exact findIdx_reverse_rangeList_some A B m p (by have := pf.hm; omega) r hrl hr
  · exact findIdx_rangeList_some A B m p (by have := pf.hm; omega) r hrl hr

theorem npSource_none (s : PySlice) (n A B m : Int) (pf : PF s n A B m) (p : Int)
    (h : ∀ r : Nat, p = A + (r : Int) * m → ¬ p < B) : npSource s n p = none := by
  have h' : ∀ k : Nat, k < rangeLen A B m → p ≠ A + (k : Int) * m := by
    intro k hk e
    exact h k e (by have := (lt_rangeLen_pos A B m pf.hm k).mp hk; omega)
  unfold npSource
  rw [pf.selS]
  split
  · exact findIdx_reverse_rangeList_none A B m p h'
  · exact findIdx_rangeList_none A B m p h'

theorem blockSource_some (s : PySlice) (n A B m : Int) (pf : PF s n A B m) (bcast : Bool)
    (l0 l1 q : Int) (hl0 : 0 ≤ l0) (hq0 : 0 ≤ q) (hq1 : q < l1 - l0)
    (j : Nat) (hj : q = sbOf A m l0 + (j : Int) * m) (hlt : q < ebOf B l0 l1) :
    blockSource s n bcast l0 l1 q =
      some (if bcast then 0 else
        if parseAssignReversed s n then ((rangeLen A B m : Int) - 1 - (k0Of A m l0 + j)).toNat
        else (k0Of A m l0 + j).toNat) := by
  have hm := pf.hm
  have hA := pf.hA
  obtain ⟨hsb0, hk00, hfw, _⟩ := block_core A B m l0 l1 q hm hq0 hq1
  obtain ⟨hrank, hpB⟩ := hfw j hj hlt
  have hjm : 0 ≤ (j : Int) * m := Int.mul_nonneg (Int.natCast_nonneg j) (Int.le_of_lt hm)
  have hkm : 0 ≤ k0Of A m l0 * m := Int.mul_nonneg hk00 (Int.le_of_lt hm)
  have hAB : A < B := by rw [Int.add_mul] at hrank; omega
  have hebL : ebOf B l0 l1 ≤ l1 - l0 := by unfold ebOf; split <;> omega
  obtain ⟨e1, e2, e3⟩ := blk_eqs A B m l0 l1 hm
  have e4 := blkPreceding_eq A B m l0 hm hA hl0 (by omega)
  unfold blockSource
  simp only [pf.idx, e1, e2, e3, e4, blkOverlaps]
  have hov : ¬ sbOf A m l0 ≥ ebOf B l0 l1 := by omega
  simp only [hov, decide_false, Bool.not_false, if_true]
  -- the block selection
  have hsel : sel ⟨some (sbOf A m l0), some (ebOf B l0 l1), some m⟩ (l1 - l0)
      = rangeList (sbOf A m l0) (ebOf B l0 l1) m := by
    rw [sel_mk_pos' _ _ _ _ hm, adjust_false_id _ _ hsb0 (by omega), adjust_false_id _ _ (by omega) hebL]
  have hjl : j < rangeLen (sbOf A m l0) (ebOf B l0 l1) m := (lt_rangeLen_pos _ _ _ hm j).mpr (by omega)
  rw [hsel, findIdx_rangeList_some _ _ m q (by omega) j hjl hj]
  simp only []
  cases bcast with
  | true => simp
  | false =>
    simp only [Bool.false_eq_true, if_false]
    -- sizes
    have hV := pf.impl hAB
    have hVn := pf.implNat
    have hrV : k0Of A m l0 + j < ceilq (B - A) m := (ceilq_spec _ _ hm _).mpr (by omega)
    have hjs : (j : Int) < ceilq (ebOf B l0 l1 - sbOf A m l0) m := (ceilq_spec _ _ hm _).mpr (by omega)
    rw [hV] at hVn ⊢
    generalize ceilq (B - A) m = V at *
    generalize ceilq (ebOf B l0 l1 - sbOf A m l0) m = size at *
    generalize k0Of A m l0 = k0 at *
    have hVnat : ((rangeLen A B m : Nat) : Int) = V := by omega
    unfold blockValueSlice valueSlice
    simp only [Bool.false_eq_true, if_false]
    -- clamp of the value slice ends
    have hc1 : adjust k0 V false = k0 := adjust_false_id _ _ hk00 (by omega)
    have hc2 : k0 + j < adjust (k0 + size) V false ∧ adjust (k0 + size) V false ≤ V := by
      rw [adjust_false_nonneg _ _ (by omega)]; split <;> omega
    split
    · -- reversed
      unfold reverseValueSlice
      have hst : (⟨some k0, some (k0 + size), none⟩ : PySlice).istart V = k0 := by
        simp [istart, stp, hc1]
      have hsp : (⟨some k0, some (k0 + size), none⟩ : PySlice).istop V = adjust (k0 + size) V false := by
        simp [istop, stp]
      simp only [hst, hsp]
      generalize adjust (k0 + size) V false = e0 at hc2
      have hsel2 : sel ⟨some (V - 1 - k0), if V - 1 - e0 < 0 then none else some (V - 1 - e0), some (-1)⟩ V
          = rangeList (V - 1 - k0) (V - 1 - e0) (-1) := by
        rw [sel_mk_neg _ _ _ V (-1) (by simp [stp]) (by omega)]
        by_cases h0 : V - 1 - e0 < 0
        · simp only [h0, if_true, Option.map_some, Option.getD_some, Option.map_none, Option.getD_none]
          rw [adjust_true_id _ _ (by omega) (by omega)]
          have : V - 1 - e0 = -1 := by omega
          rw [this]
        · simp only [h0, if_false, Option.map_some, Option.getD_some]
          rw [adjust_true_id _ _ (by omega) (by omega), adjust_true_id _ _ (by omega) (by omega)]
      rw [hsel2, getElem?_rangeList]
      have : j < rangeLen (V - 1 - k0) (V - 1 - e0) (-1) := (lt_rangeLen_neg _ _ _ (by omega) j).mpr (by omega)
      simp only [this, if_true, Option.map_some]
      congr 1
      rw [hVnat]; congr 1; omega
    · rw [sel_mk_pos1, hc1, getElem?_rangeList]
      have : j < rangeLen k0 (adjust (k0 + size) V false) 1 := (lt_rangeLen_pos _ _ _ (by omega) j).mpr (by omega)
      simp only [this, if_true, Option.map_some]
      congr 1; congr 1; omega

theorem blockSource_none (s : PySlice) (n A B m : Int) (pf : PF s n A B m) (bcast : Bool)
    (l0 l1 q : Int) (hq0 : 0 ≤ q) (hq1 : q < l1 - l0)
    (h : ∀ j : Nat, q = sbOf A m l0 + (j : Int) * m → ¬ q < ebOf B l0 l1) :
    blockSource s n bcast l0 l1 q = none := by
  have hm := pf.hm
  obtain ⟨hsb0, _, _, _⟩ := block_core A B m l0 l1 q hm hq0 hq1
  have hebL : ebOf B l0 l1 ≤ l1 - l0 := by unfold ebOf; split <;> omega
  obtain ⟨e1, e2, _⟩ := blk_eqs A B m l0 l1 hm
  unfold blockSource
  simp only [pf.idx, e1, e2, blkOverlaps]
  by_cases hov : sbOf A m l0 ≥ ebOf B l0 l1
  · simp [hov]
  · simp only [hov, decide_false, Bool.not_false, if_true]
    have hsel : sel ⟨some (sbOf A m l0), some (ebOf B l0 l1), some m⟩ (l1 - l0)
        = rangeList (sbOf A m l0) (ebOf B l0 l1) m := by
      rw [sel_mk_pos' _ _ _ _ hm, adjust_false_id _ _ hsb0 (by omega), adjust_false_id _ _ (by omega) hebL]
    rw [hsel, findIdx_rangeList_none]
    intro k hk e
    have := (lt_rangeLen_pos _ _ _ hm k).mp hk
    exact h k e (by omega)

/-- THE per-block theorem: what the chunked algorithm writes at local position `q` of a block
is what NumPy's `x[s] = v` writes at global position `loc0 + q`. -/
theorem blockSource_eq_npSource (s : PySlice) (n : Int) (hs : s.stp ≠ 0) (bcast : Bool)
    (l0 l1 q : Int) (hl0 : 0 ≤ l0) (hl1 : l1 ≤ n) (hq0 : 0 ≤ q) (hq1 : q < l1 - l0) :
    blockSource s n bcast l0 l1 q = npSourceB s n bcast (l0 + q) := by
  obtain ⟨A, B, m, pf⟩ := parse_facts s n (by omega) hs
  have hm := pf.hm
  obtain ⟨_, hk00, hfw, hbw⟩ := block_core A B m l0 l1 q hm hq0 hq1
  by_cases hex : ∃ r : Nat, l0 + q = A + (r : Int) * m ∧ l0 + q < B
  · obtain ⟨r, hr, hlt⟩ := hex
    obtain ⟨j, hj, hjlt, hrj⟩ := hbw r hr hlt
    rw [blockSource_some s n A B m pf bcast l0 l1 q hl0 hq0 hq1 j hj hjlt]
    unfold npSourceB
    rw [npSource_some s n A B m pf (l0 + q) r hr hlt]
    simp only [Option.map_some]
    congr 1
    cases bcast with
    | true => simp
    | false =>
      simp only [Bool.false_eq_true, if_false]
      split <;> omega
  · have hnone : npSource s n (l0 + q) = none :=
      npSource_none s n A B m pf (l0 + q) (fun r hr hlt => hex ⟨r, hr, hlt⟩)
    unfold npSourceB
    rw [hnone]
    apply blockSource_none s n A B m pf bcast l0 l1 q hq0 hq1
    intro j hj hlt
    obtain ⟨h1, h2⟩ := hfw j hj hlt
    apply hex
    refine ⟨(k0Of A m l0 + j).toNat, ?_, h2⟩
    rw [Int.toNat_of_nonneg (by omega)]; exact h1

/-! ## assembling the blocks -/

theorem isum_nonneg (cs : List Int) (hc : ∀ c ∈ cs, 0 ≤ c) : 0 ≤ isum cs := by
  induction cs with
  | nil => simp [isum]
  | cons c cs ih =>
    have h1 := hc c (by simp)
    have h2 := ih (fun c' h => hc c' (by simp [h]))
    simp only [isum]; omega

/-- assembling the blocks: a function of the global position, evaluated block by block. -/
theorem setitem_blocks {α} (s : PySlice) (N : Int) (hs : s.stp ≠ 0) (bcast : Bool) (x : Int → α) (v : Nat → α)
    (cs : List Int) (hc : ∀ c ∈ cs, 0 ≤ c) :
    ∀ off : Int, 0 ≤ off → off + isum cs ≤ N →
    (blockBounds off cs).flatMap (fun b =>
      (List.range (b.2 - b.1).toNat).map (fun (q : Nat) =>
        pick (blockSource s N bcast b.1 b.2 (q : Int)) v (x (b.1 + (q : Int)))))
    = (List.range (isum cs).toNat).map (fun (p : Nat) =>
        pick (npSourceB s N bcast (off + (p : Int))) v (x (off + (p : Int)))) := by
  induction cs with
  | nil => intro off _ _; simp [blockBounds, isum]
  | cons c cs ih =>
    intro off hoff hN
    have h1 := hc c (by simp)
    have hcs : ∀ c' ∈ cs, 0 ≤ c' := fun c' h => hc c' (by simp [h])
    have h2 := isum_nonneg cs hcs
    simp only [isum] at hN
    simp only [blockBounds, List.flatMap_cons, isum]
    rw [ih hcs (off + c) (by omega) (by omega)]
    have e : (c + isum cs).toNat = c.toNat + (isum cs).toNat := by omega
    rw [e, List.range_add, List.map_append, List.map_map]
    have e0 : off + c - off = c := by omega
    rw [e0]
    congr 1
    · apply List.map_congr_left
      intro q hq
      have hq' := List.mem_range.mp hq
      rw [blockSource_eq_npSource s N hs bcast off (off + c) q hoff (by omega) (by omega) (by omega)]
    · apply List.map_congr_left
      intro p _
      simp only [Function.comp]
      have : off + c + (p : Int) = off + ((c.toNat + p : Nat) : Int) := by omega
      rw [this]

theorem setitemChunked_eq {α} (chunks : List Int) (hc : ∀ c ∈ chunks, 0 ≤ c) (x : Int → α) (s : PySlice)
    (hs : s.stp ≠ 0) (bcast : Bool) (v : Nat → α) :
    setitemChunked chunks x s bcast v = npAssign (isum chunks) x s bcast v := by
  unfold setitemChunked npAssign
  rw [setitem_blocks s (isum chunks) hs bcast x v chunks hc 0 (by omega) (by omega)]
  simp

/-! ### parse theorems -/

theorem sel_len_zero (t : PySlice) : sel t 0 = [] := by
  by_cases h : t.stp = 0
  · exact sel_stp_zero t 0 h
  · apply List.eq_nil_iff_forall_not_mem.mpr
    intro p hp
    have := sel_bounds t 0 (by omega) h p hp
    omega

theorem parseAssign_sel (s : PySlice) (n : Int) (hn : 0 ≤ n) (hs : s.stp ≠ 0) :
    sel (parseAssign s n) n = if parseAssignReversed s n then (sel s n).reverse else sel s n := by
  obtain ⟨A, B, m, pf⟩ := parse_facts s n hn hs
  rw [pf.selP, pf.selS]
  split <;> simp

theorem parseAssign_implied (s : PySlice) (n : Int) (hn : 0 ≤ n) (hs : s.stp ≠ 0) :
    (parseAssignImplied s n).toNat = (sel s n).length ∧
    (sel s n ≠ [] → parseAssignImplied s n = ((sel s n).length : Int)) := by
  obtain ⟨A, B, m, pf⟩ := parse_facts s n hn hs
  have hlen : (sel s n).length = rangeLen A B m := by
    rw [pf.selS]; split <;> simp
  refine ⟨by rw [pf.implNat, hlen], ?_⟩
  intro hne
  have hpos : 0 < rangeLen A B m := by
    rw [← hlen]; exact List.length_pos_iff.mpr hne
  have hAB : A < B := by
    have := (lt_rangeLen_pos A B m pf.hm 0).mp hpos; omega
  have h1 := pf.impl hAB
  have h2 := pf.implNat
  have h3 : 0 < ceilq (B - A) m := (ceilq_spec _ _ pf.hm 0).mpr (by omega)
  rw [hlen]; omega

/-- the parsed slice is concrete, increasing, and inside the axis. -/
theorem parseAssign_shape (s : PySlice) (n : Int) (hn : 0 ≤ n) (hs : s.stp ≠ 0) :
    ∃ A B m, parseAssign s n = ⟨some A, some B, some m⟩ ∧ 0 < m ∧ 0 ≤ A ∧ B ≤ n := by
  obtain ⟨A, B, m, pf⟩ := parse_facts s n hn hs
  exact ⟨A, B, m, pf.idx, pf.hm, pf.hA, pf.hB⟩

/-! ### n-d per axis -/

theorem blockSourceAxis_eq (k : Key) (n l0 l1 q : Int)
    (hk : match k with | .slice s => s.stp ≠ 0 | .int i => -n ≤ i ∧ i < n)
    (hl0 : 0 ≤ l0) (hl1 : l1 ≤ n) (hq0 : 0 ≤ q) (hq1 : q < l1 - l0) :
    blockSourceAxis k n l0 l1 q = npSourceAxis k n (l0 + q) := by
  cases k with
  | slice s =>
    simp only [blockSourceAxis, npSourceAxis]
    rw [blockSource_eq_npSource s n hk false l0 l1 q hl0 hl1 hq0 hq1]
    simp [npSourceB]
  | int i =>
    simp only [blockSourceAxis, npSourceAxis, blkInt]
    generalize posifyInt n i = i'
    by_cases h : l0 ≤ i' ∧ i' < l1
    · have hiff : (q = i' - l0) ↔ (l0 + q = i') := by omega
      simp only [h, and_self, if_true, hiff]
    · simp only [h, if_false]
      have : ¬ l0 + q = i' := by omega
      simp [this]

theorem blockSourceND_eq : ∀ (ks : List Key) (ns : List Int) (bs : List (Int × Int)) (qs : List Int),
    AxesOK ks ns bs qs → blockSourceND ks ns bs qs = npSourceND ks ns (globalPos bs qs)
  | [], [], [], [], _ => by simp [blockSourceND, npSourceND]
  | k :: ks, n :: ns, b :: bs, q :: qs, h => by
    simp only [AxesOK] at h
    obtain ⟨hk, h0, h1, h2, h3, hrest⟩ := h
    simp only [blockSourceND, npSourceND, globalPos]
    rw [blockSourceAxis_eq k n b.1 b.2 q hk h0 h1 h2 h3, blockSourceND_eq ks ns bs qs hrest]
  | [], _ :: _, _, _, h => by simp [AxesOK] at h
  | [], [], _ :: _, _, h => by simp [AxesOK] at h
  | [], [], [], _ :: _, h => by simp [AxesOK] at h
  | _ :: _, [], _, _, h => by simp [AxesOK] at h
  | _ :: _, _ :: _, [], _, h => by simp [AxesOK] at h
  | _ :: _, _ :: _, _ :: _, [], h => by simp [AxesOK] at h

/-! ### the collection store -/

theorem set_ne {K L} (s : Store K L) (x y : Nat) (e : Entry K L) (h : y ≠ x) : s.set x e y = s y := by
  simp [Store.set, h]

theorem replaceExpr_ne {K L} (s : Store K L) (x y : Nat) (e : Expr K) (h : y ≠ x) :
    replaceExpr s x e y = s y := by
  unfold replaceExpr
  cases s x <;> simp [Store.set, h]

/-- an operation only writes its target -/
theorem cstep_frame {K L} (mat : Expr K → L) (s : Store K L) (op : COp K) (y : Nat) (h : y ≠ op.target) :
    cstep mat s op y = s y := by
  cases op with
  | derive1 y' x f => simp only [COp.target] at h; simp only [cstep]; cases s x <;> simp [Store.set, h]
  | derive2 y' x z f =>
    simp only [COp.target] at h; simp only [cstep]
    cases s x <;> cases s z <;> simp [Store.set, h]
  | setitem x key z =>
    simp only [COp.target] at h; simp only [cstep]
    cases s x <;> cases s z <;> simp [replaceExpr_ne, h]
  | outUfunc x a b f =>
    simp only [COp.target] at h; simp only [cstep]
    cases s a <;> cases s b <;> simp [replaceExpr_ne, h]
  | computeChunkSizes x =>
    simp only [COp.target] at h; simp only [cstep]
    cases s x <;> simp [replaceExpr_ne, h]
  | compute x =>
    simp only [COp.target] at h; simp only [cstep]
    cases s x <;> simp [Store.set, h]

theorem crun_frame {K L} (mat : Expr K → L) (ops : List (COp K)) :
    ∀ (s : Store K L) (y : Nat), (∀ op ∈ ops, y ≠ op.target) → crun mat ops s y = s y := by
  induction ops with
  | nil => intro s y _; rfl
  | cons op ops ih =>
    intro s y h
    simp only [crun]
    rw [ih _ y (fun o ho => h o (by simp [ho])), cstep_frame mat s op y (h op (by simp))]

theorem inv_set_none {K L} (mat : Expr K → L) (s : Store K L) (x : Nat) (e : Expr K) (h : Inv mat s) :
    Inv mat (s.set x ⟨e, none⟩) := by
  intro y e' l hy hc
  by_cases hyx : y = x
  · simp [Store.set, hyx] at hy; subst hy; simp at hc
  · rw [set_ne s x y _ hyx] at hy; exact h y e' l hy hc

theorem inv_replaceExpr {K L} (mat : Expr K → L) (s : Store K L) (x : Nat) (e : Expr K) (h : Inv mat s) :
    Inv mat (replaceExpr s x e) := by
  unfold replaceExpr; split
  · exact inv_set_none mat s x e h
  · exact h

theorem cstep_inv {K L} (mat : Expr K → L) (s : Store K L) (op : COp K) (h : Inv mat s) :
    Inv mat (cstep mat s op) := by
  cases op with
  | compute x =>
    simp only [cstep]
    split
    · rename_i ex hx
      intro y e' l hy hc
      by_cases hyx : y = x
      · simp [Store.set, hyx] at hy; subst hy
        simp only [Option.some.injEq] at hc
        subst hc
        cases hcache : ex.cache with
        | none => rfl
        | some l' => exact h x ex l' hx hcache
      · rw [set_ne s x y _ hyx] at hy; exact h y e' l hy hc
    · exact h
  | derive1 y x f => simp only [cstep]; split <;> first | exact inv_set_none mat s _ _ h | exact h
  | derive2 y x z f => simp only [cstep]; split <;> first | exact inv_set_none mat s _ _ h | exact h
  | setitem x key z => simp only [cstep]; split <;> first | exact inv_replaceExpr mat s _ _ h | exact h
  | outUfunc x a b f => simp only [cstep]; split <;> first | exact inv_replaceExpr mat s _ _ h | exact h
  | computeChunkSizes x => simp only [cstep]; split <;> first | exact inv_replaceExpr mat s _ _ h | exact h

theorem crun_inv {K L} (mat : Expr K → L) (ops : List (COp K)) :
    ∀ (s : Store K L), Inv mat s → Inv mat (crun mat ops s) := by
  induction ops with
  | nil => intro s h; exact h
  | cons op ops ih => intro s h; exact ih _ (cstep_inv mat s op h)

/-- under the cache invariant a compute returns the NumPy meaning of the CURRENT expression. -/
theorem computed_eq_den {K L A} (I : Interp K A) (mat : Expr K → L) (eval : L → A)
    (sound : ∀ e, eval (mat e) = den I e) (s : Store K L) (h : Inv mat s) (x : Nat) :
    computed mat eval s x = (s x).map (fun e => den I e.expr) := by
  unfold computed
  cases hx : s x with
  | none => rfl
  | some e =>
    simp only [Option.map_some]
    cases hc : e.cache with
    | none => simp [sound]
    | some l => simp only []; rw [h x e l hx hc, sound]

/-! ### seeds of distinct blocks -/

/-- distinct blocks draw distinct children when `spawn s` is injective -/
theorem draw_nodup (spawn : Nat → Nat → Nat) (hinj : ∀ s a b, spawn s a = spawn s b → a = b)
    (k : Kind) (g : Gen) (n : Nat) : (draw spawn k g n).1.Nodup := by
  cases k with
  | generator =>
    simp only [draw]
    refine List.Pairwise.map _ ?_ List.nodup_range
    intro a b hab e
    exact hab (by have := hinj _ _ _ e; omega)
  | randomState =>
    simp only [draw]
    refine List.Pairwise.map _ ?_ List.nodup_range
    intro a b hab e
    exact hab (hinj _ _ _ e)

theorem nodup_getElem?_inj {α} (l : List α) (h : l.Nodup) (i j : Nat) (hi : i < l.length) (hj : j < l.length)
    (e : l[i]? = l[j]?) : i = j := by
  rw [List.getElem?_eq_getElem hi, List.getElem?_eq_getElem hj] at e
  have e' := Option.some.inj e
  exact (List.getElem_inj h).mp e'

/-- each block of the grid gets its own seed -/
theorem observe_inj (spawn : Nat → Nat → Nat) (hinj : ∀ s a b, spawn s a = spawn s b → a = b)
    (k : Kind) (g : Gen) (p : Params) (b b' : List Nat)
    (hb : InGrid p.numblocks b) (hb' : InGrid p.numblocks b')
    (e : (observe (construct spawn k g p).1 b).2 = (observe (construct spawn k g p).1 b').2) : b = b' := by
  simp only [observe, construct] at e
  rw [flatIndex_eq_rowMajor _ _ (inGrid_length _ _ hb), flatIndex_eq_rowMajor _ _ (inGrid_length _ _ hb')] at e
  have hl := draw_length spawn k g (nblocks p.numblocks)
  have h := nodup_getElem?_inj _ (draw_nodup spawn hinj k g (nblocks p.numblocks)) _ _
    (by rw [hl]; exact rowMajor_lt _ _ hb) (by rw [hl]; exact rowMajor_lt _ _ hb') e
  exact rowMajor_inj _ _ _ hb hb' h

theorem rebuild_same (spawn : Nat → Nat → Nat) (k : Kind) (g1 g2 : Gen) (p1 p2 : Params)
    (hg : g1 = g2) (hn : nblocks p1.numblocks = nblocks p2.numblocks) :
    (construct spawn k g1 p1).1.seeds = (construct spawn k g2 p2).1.seeds := by
  subst hg; simp [construct, hn]

end Dask.Lemmas.Hist
