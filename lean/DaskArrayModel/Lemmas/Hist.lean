/-
Lemmas and proofs for the history models (C23, C11).  Core Lean only.
-/
import DaskArrayModel.Model.Hist
import DaskArrayModel.Lemmas.SliceAlgebra
namespace Dask.Lemmas.Hist
open Dask.Py Dask.Py.PySlice Dask.Slicing Dask.Hist Dask.Lemmas.SliceAlgebra

/-! ## `_block_id_to_flat_index` -/

/-- product of the `numblocks` entries of a zipped list. -/
def prodSnd : List (Nat × Nat) → Nat
  | [] => 1
  | (_, n) :: rest => n * prodSnd rest

theorem prodSnd_append (l m : List (Nat × Nat)) : prodSnd (l ++ m) = prodSnd l * prodSnd m := by
  induction l with
  | nil => simp [prodSnd]
  | cons a l ih => obtain ⟨b, n⟩ := a; simp [prodSnd, ih, Nat.mul_assoc]

theorem prodSnd_reverse (l : List (Nat × Nat)) : prodSnd l.reverse = prodSnd l := by
  induction l with
  | nil => rfl
  | cons a l ih =>
    obtain ⟨b, n⟩ := a
    simp [prodSnd_append, prodSnd, ih, Nat.mul_comm]

theorem prodSnd_zip (bs ns : List Nat) (h : bs.length = ns.length) : prodSnd (bs.zip ns) = nblocks ns := by
  induction ns generalizing bs with
  | nil => cases bs <;> simp_all [prodSnd, nblocks]
  | cons n ns ih =>
    cases bs with
    | nil => simp at h
    | cons b bs => simp at h; simp [prodSnd, nblocks, ih bs h]

theorem flatLoop_append (l m : List (Nat × Nat)) (f s : Nat) :
    flatLoop (l ++ m) f s = flatLoop m (flatLoop l f s) (s * prodSnd l) := by
  induction l generalizing f s with
  | nil => simp [flatLoop, prodSnd]
  | cons a l ih =>
    obtain ⟨b, n⟩ := a
    simp [flatLoop, prodSnd, ih, Nat.mul_assoc]

/-- the Python loop computes the row-major rank. -/
theorem flatLoop_zip (ns bs : List Nat) (h : bs.length = ns.length) :
    flatLoop (bs.zip ns).reverse 0 1 = rowMajor ns bs := by
  induction ns generalizing bs with
  | nil => cases bs <;> simp_all [flatLoop, rowMajor]
  | cons n ns ih =>
    cases bs with
    | nil => simp at h
    | cons b bs =>
      simp at h
      simp only [List.zip_cons_cons, List.reverse_cons, flatLoop_append, flatLoop, rowMajor]
      rw [ih bs h, prodSnd_reverse, prodSnd_zip bs ns h]
      simp [Nat.add_comm]

theorem inGrid_length : ∀ (ns bs : List Nat), InGrid ns bs → bs.length = ns.length
  | [], [], _ => rfl
  | [], _ :: _, h => by simp [InGrid] at h
  | _ :: _, [], h => by simp [InGrid] at h
  | _ :: ns, _ :: bs, h => by simp [InGrid] at h; simp [inGrid_length ns bs h.2]

theorem flatIndex_eq_rowMajor (ns bs : List Nat) (h : bs.length = ns.length) :
    flatIndex ns bs = rowMajor ns bs := by
  unfold flatIndex
  rw [← h, List.take_length]
  exact flatLoop_zip ns bs h

/-- the `extra_chunks` coordinates are ignored. -/
theorem flatIndex_extra (ns bs extra : List Nat) (h : bs.length = ns.length) :
    flatIndex ns (bs ++ extra) = flatIndex ns bs := by
  unfold flatIndex
  rw [← h, List.take_left', List.take_length]
  rfl

theorem nblocks_pos_of_inGrid : ∀ (ns bs : List Nat), InGrid ns bs → 0 < nblocks ns
  | [], [], _ => by simp [nblocks]
  | [], _ :: _, h => by simp [InGrid] at h
  | _ :: _, [], h => by simp [InGrid] at h
  | n :: ns, b :: bs, h => by
    simp [InGrid] at h
    have := nblocks_pos_of_inGrid ns bs h.2
    simp only [nblocks]
    exact Nat.mul_pos (by omega) this

theorem rowMajor_lt : ∀ (ns bs : List Nat), InGrid ns bs → rowMajor ns bs < nblocks ns
  | [], [], _ => by simp [rowMajor, nblocks]
  | [], _ :: _, h => by simp [InGrid] at h
  | _ :: _, [], h => by simp [InGrid] at h
  | n :: ns, b :: bs, h => by
    simp [InGrid] at h
    have ih := rowMajor_lt ns bs h.2
    simp only [rowMajor, nblocks]
    have h1 : (b + 1) * nblocks ns ≤ n * nblocks ns := Nat.mul_le_mul_right _ (by omega)
    rw [Nat.succ_mul] at h1
    omega

theorem rowMajor_inj : ∀ (ns bs bs' : List Nat), InGrid ns bs → InGrid ns bs' →
    rowMajor ns bs = rowMajor ns bs' → bs = bs'
  | [], [], [], _, _, _ => rfl
  | [], _ :: _, _, h, _, _ => by simp [InGrid] at h
  | [], [], _ :: _, _, h, _ => by simp [InGrid] at h
  | _ :: _, [], _, h, _, _ => by simp [InGrid] at h
  | _ :: _, _ :: _, [], _, h, _ => by simp [InGrid] at h
  | n :: ns, b :: bs, b' :: bs', h, h', e => by
    simp [InGrid] at h h'
    have r := rowMajor_lt ns bs h.2
    have r' := rowMajor_lt ns bs' h'.2
    simp only [rowMajor] at e
    have hb : b = b' := by
      rcases Nat.lt_trichotomy b b' with hlt | heq | hgt
      · have h1 : (b + 1) * nblocks ns ≤ b' * nblocks ns := Nat.mul_le_mul_right _ (by omega)
        rw [Nat.succ_mul] at h1
        omega
      · exact heq
      · have h1 : (b' + 1) * nblocks ns ≤ b * nblocks ns := Nat.mul_le_mul_right _ (by omega)
        rw [Nat.succ_mul] at h1
        omega
    subst hb
    have : rowMajor ns bs = rowMajor ns bs' := by omega
    rw [rowMajor_inj ns bs bs' h.2 h'.2 this]

theorem unflat_spec : ∀ (ns : List Nat) (k : Nat), k < nblocks ns →
    InGrid ns (unflatIndex ns k) ∧ rowMajor ns (unflatIndex ns k) = k
  | [], k, h => by simp [nblocks] at h; simp [unflatIndex, InGrid, rowMajor, h]
  | n :: ns, k, h => by
    simp only [nblocks] at h
    have hP : 0 < nblocks ns := by
      rcases Nat.eq_zero_or_pos (nblocks ns) with h0 | h0
      · rw [h0] at h; simp at h
      · exact h0
    have ih := unflat_spec ns (k % nblocks ns) (Nat.mod_lt _ hP)
    simp only [unflatIndex, InGrid, rowMajor]
    refine ⟨⟨?_, ih.1⟩, ?_⟩
    · exact Nat.div_lt_of_lt_mul (by rw [Nat.mul_comm]; exact h)
    · rw [ih.2]; exact Nat.div_add_mod' k (nblocks ns)

theorem unflat_rowMajor : ∀ (ns bs : List Nat), InGrid ns bs → unflatIndex ns (rowMajor ns bs) = bs
  | [], [], _ => rfl
  | [], _ :: _, h => by simp [InGrid] at h
  | _ :: _, [], h => by simp [InGrid] at h
  | n :: ns, b :: bs, h => by
    simp [InGrid] at h
    have r := rowMajor_lt ns bs h.2
    have hP : 0 < nblocks ns := by omega
    simp only [rowMajor, unflatIndex]
    have e1 : (b * nblocks ns + rowMajor ns bs) / nblocks ns = b := by
      rw [Nat.add_comm, Nat.add_mul_div_right _ _ hP, Nat.div_eq_of_lt r]; simp
    have e2 : (b * nblocks ns + rowMajor ns bs) % nblocks ns = rowMajor ns bs := by
      rw [Nat.add_comm, Nat.add_mul_mod_self_right, Nat.mod_eq_of_lt r]
    rw [e1, e2, unflat_rowMajor ns bs h.2]

theorem mem_grid : ∀ (ns bs : List Nat), bs ∈ grid ns ↔ InGrid ns bs
  | [], [] => by simp [grid, InGrid]
  | [], _ :: _ => by simp [grid, InGrid]
  | n :: ns, [] => by simp [grid, InGrid]
  | n :: ns, b :: bs => by
    simp only [grid, List.mem_flatMap, List.mem_range, List.mem_map, InGrid]
    constructor
    · rintro ⟨b', hb', bs', hbs', e⟩
      simp at e
      obtain ⟨rfl, rfl⟩ := e
      exact ⟨hb', (mem_grid ns bs').mp hbs'⟩
    · rintro ⟨hb, hbs⟩
      exact ⟨b, hb, bs, (mem_grid ns bs).mpr hbs, rfl⟩

/-! ## generators, nodes, histories -/

theorem construct_params (spawn : Nat → Nat → Nat) (k : Kind) (g : Gen) (p : Params) :
    (construct spawn k g p).1.params = p := rfl

/-- pickling carries the seed vector: `_reconstruct` draws fresh seeds and then overwrites them. -/
theorem reconstruct_reduce (spawn : Nat → Nat → Nat) (k : Kind) (g : Gen) (r : Node) :
    reconstruct spawn k (reduce g r) = r := by
  simp [reconstruct, reduce, construct]

theorem rebuild_scalar (spawn : Nat → Nat → Nat) (k : Kind) (g : Gen) (r : Node) (f : Nat → Nat)
    (hd : r.params.deps = []) : rebuild spawn k g r f = (r, g) := by
  simp [rebuild, hd]

/-- what stays fixed along a history -/
theorem step_fixed (spawn : Nat → Nat → Nat) (k : Kind) (w : World) (hd : w.node.params.deps = []) (op : Op) :
    (step spawn k w op).node = w.node ∧ (step spawn k w op).born = w.born := by
  cases op <;> simp [Hist.step, reconstruct_reduce]

theorem step_obs (spawn : Nat → Nat → Nat) (k : Kind) (w : World) (hwf : WF spawn k w)
    (hd : w.node.params.deps = []) (op : Op) :
    ∀ o ∈ (step spawn k w op).obs, o ∈ w.obs ∨ ∃ bid, o = observe w.node bid := by
  intro o ho
  cases op with
  | compute =>
    simp only [Hist.step, List.mem_append, List.mem_map] at ho
    rcases ho with ho | ⟨bid, _, rfl⟩
    · exact Or.inl ho
    · exact Or.inr ⟨bid, rfl⟩
  | derive f blocks =>
    simp only [Hist.step, rebuild_scalar spawn k w.gen w.node f hd, List.mem_append, List.mem_map] at ho
    rcases ho with ho | ⟨bid, _, rfl⟩
    · exact Or.inl ho
    · exact Or.inr ⟨bid, rfl⟩
  | pickle => simp only [Hist.step] at ho; exact Or.inl ho
  | other p => simp only [Hist.step] at ho; exact Or.inl ho
  | rebuildSameSeed =>
    simp only [Hist.step, List.mem_append, List.mem_map] at ho
    rcases ho with ho | ⟨bid, _, rfl⟩
    · exact Or.inl ho
    · refine Or.inr ⟨bid, ?_⟩
      rw [← hwf]

theorem run_invariant (spawn : Nat → Nat → Nat) (k : Kind) (ops : List Op) :
    ∀ (w : World), WF spawn k w → w.node.params.deps = [] →
      (run spawn k ops w).node = w.node ∧
      ∀ o ∈ (run spawn k ops w).obs, o ∈ w.obs ∨ ∃ bid, o = observe w.node bid := by
  induction ops with
  | nil => intro w _ _; exact ⟨rfl, fun o ho => Or.inl ho⟩
  | cons op ops ih =>
    intro w hwf hd
    have hfix := step_fixed spawn k w hd op
    have hwf' : WF spawn k (step spawn k w op) := by
      unfold WF; rw [hfix.1, hfix.2]; exact hwf
    have hd' : (step spawn k w op).node.params.deps = [] := by rw [hfix.1]; exact hd
    have h := ih (step spawn k w op) hwf' hd'
    simp only [run]
    refine ⟨by rw [h.1, hfix.1], ?_⟩
    intro o ho
    rcases h.2 o ho with h1 | ⟨bid, rfl⟩
    · exact step_obs spawn k w hwf hd op o h1
    · exact Or.inr ⟨bid, by rw [hfix.1]⟩

theorem draw_length (spawn : Nat → Nat → Nat) (k : Kind) (g : Gen) (n : Nat) :
    (draw spawn k g n).1.length = n := by
  cases k <;> simp [draw]

end Dask.Lemmas.Hist
