/-
Proofs about the unknown-chunk-size model (Model/Unknown.lean).  Core Lean only.
-/
import DaskArrayModel.Model.Unknown
namespace Dask.Lemmas.Unknown
open Dask.Py Dask.Unknown

/-! ### vocabulary facts -/

theorem osum_none_iff : ∀ d : Dim?, osum d = none ↔ hasNone d = true
  | [] => by simp [osum, hasNone]
  | none :: xs => by simp [osum, hasNone]
  | some x :: xs => by
    have ih := osum_none_iff xs
    simp only [osum, hasNone, List.any_cons, Option.isNone_some, Bool.false_or, Option.map_eq_none_iff] at ih ⊢
    exact ih

theorem isKnown_iff_not_hasNone : ∀ d : Dim?, isKnown d = true ↔ hasNone d = false
  | [] => by simp [isKnown, hasNone]
  | none :: xs => by simp [isKnown, hasNone]
  | some x :: xs => by
    have ih := isKnown_iff_not_hasNone xs
    simp only [isKnown, hasNone, List.all_cons, List.any_cons, Option.isSome_some, Option.isNone_some,
      Bool.true_and, Bool.false_or] at ih ⊢
    exact ih

theorem osum_isSome_of_known (d : Dim?) (h : isKnown d = true) : (osum d).isSome = true := by
  cases ho : osum d with
  | some v => rfl
  | none =>
    have := (osum_none_iff d).mp ho
    have h2 := (isKnown_iff_not_hasNone d).mp h
    rw [this] at h2; cases h2

theorem agreesDim_refl : ∀ d : Dim?, agreesDim d d = true
  | [] => rfl
  | none :: xs => by simp [agreesDim, agreesDim_refl xs]
  | some x :: xs => by simp [agreesDim, agreesDim_refl xs]

theorem agreesDim_length : ∀ (k d : Dim?), agreesDim k d = true → k.length = d.length
  | [], [], _ => rfl
  | [], _ :: _, h => by simp [agreesDim] at h
  | _ :: _, [], h => by simp [agreesDim] at h
  | k :: ks, o :: os, h => by
    simp only [agreesDim, Bool.and_eq_true] at h
    simp [agreesDim_length ks os h.2]

/-- where `d` is fully known, the only dim agreeing with it is `d` itself -/
theorem agreesDim_known : ∀ (k d : Dim?), agreesDim k d = true → isKnown d = true → k = d
  | [], [], _, _ => rfl
  | [], _ :: _, h, _ => by simp [agreesDim] at h
  | _ :: _, [], h, _ => by simp [agreesDim] at h
  | k :: ks, none :: os, _, hk => by simp [isKnown] at hk
  | k :: ks, some v :: os, h, hk => by
    simp only [agreesDim, Bool.and_eq_true, decide_eq_true_eq] at h
    simp only [isKnown, List.all_cons, Option.isSome_some, Bool.true_and] at hk
    have := agreesDim_known ks os h.2 (by simpa [isKnown] using hk)
    rw [h.1, this]

/-! ### ChunksOverride -/

theorem lookup_diag {α} [BEq α] [LawfulBEq α] (l : List α) (x : α) (h : x ∈ l) :
    (l.map (fun i => (i, i))).lookup x = some x := by
  induction l with
  | nil => cases h
  | cons y ys ih =>
    simp only [List.map_cons, List.lookup_cons]
    by_cases hxy : x = y
    · subst hxy; simp
    · have : (x == y) = false := by simpa using hxy
      rw [this]
      cases h with
      | head => exact absurd rfl hxy
      | tail _ h' => exact ih h'

theorem lookup_diag_none {α} [BEq α] [LawfulBEq α] (l : List α) (x : α) (h : x ∉ l) :
    (l.map (fun i => (i, i))).lookup x = none := by
  induction l with
  | nil => rfl
  | cons y ys ih =>
    simp only [List.map_cons, List.lookup_cons]
    have hxy : x ≠ y := fun e => h (e ▸ List.mem_cons_self)
    have : (x == y) = false := by simpa using hxy
    rw [this]
    exact ih (fun h' => h (List.mem_cons_of_mem _ h'))

theorem override_chunks {β} (e : Arr β) (c : Layout?) : (override e c).chunks = c := rfl

theorem override_block {β} (e : Arr β) (c : Layout?) (idx : List Nat)
    (h : idx ∈ grid (numblocks c)) : (override e c).block idx = e.block idx := by
  simp only [override, overrideLayer]
  rw [lookup_diag _ _ h]

theorem override_block_outside {β} (e : Arr β) (c : Layout?) (idx : List Nat)
    (h : idx ∉ grid (numblocks c)) : (override e c).block idx = none := by
  simp only [override, overrideLayer]
  rw [lookup_diag_none _ _ h]

/-- membership in the grid: right rank and every coordinate below the block count -/
theorem mem_grid : ∀ (ns idx : List Nat),
    idx ∈ grid ns ↔ idx.length = ns.length ∧ ∀ p ∈ idx.zip ns, p.1 < p.2
  | [], idx => by
    cases idx <;> simp [grid]
  | n :: ns, [] => by simp [grid]
  | n :: ns, i :: is => by
    have ih := mem_grid ns is
    simp only [grid, List.mem_flatMap, List.mem_range, List.mem_map, List.cons.injEq,
      List.length_cons, Nat.add_right_cancel_iff, List.zip_cons_cons, List.mem_cons]
    constructor
    · rintro ⟨a, ha, rest, hrest, rfl, rfl⟩
      have := ih.mp hrest
      refine ⟨this.1, ?_⟩
      intro p hp
      cases hp with
      | inl h => subst h; exact ha
      | inr h => exact this.2 p h
    · rintro ⟨hl, hp⟩
      refine ⟨i, hp (i, n) (Or.inl rfl), is, ih.mpr ⟨hl, fun p h => hp p (Or.inr h)⟩, rfl, rfl⟩

/-! ### compute_chunk_sizes on a boolean-mask selection -/

theorem nsum_append (a b : List Nat) : nsum (a ++ b) = nsum a + nsum b := by
  induction a with
  | nil => simp [nsum]
  | cons x xs ih => simp [nsum, ih]; omega

theorem nsum_map_length_flatten {α} (bs : List (List α)) : nsum (bs.map List.length) = bs.flatten.length := by
  induction bs with
  | nil => rfl
  | cons b bs ih => simp [nsum, ih]

theorem splitBy_length {α} : ∀ (cs : List Nat) (l : List α), (splitBy cs l).length = cs.length
  | [], _ => rfl
  | c :: cs, l => by simp [splitBy, splitBy_length cs]

theorem splitBy_flatten {α} : ∀ (cs : List Nat) (l : List α), (splitBy cs l).flatten = l.take (nsum cs)
  | [], l => by simp [splitBy, nsum]
  | c :: cs, l => by
    simp only [splitBy, List.flatten_cons, splitBy_flatten cs, nsum]
    rw [List.take_add]

/-- the block lengths of an axis split by `cs` are `cs` when `cs` sums to the axis length -/
theorem splitBy_lengths {α} : ∀ (cs : List Nat) (l : List α), nsum cs ≤ l.length →
    (splitBy cs l).map List.length = cs
  | [], _, _ => rfl
  | c :: cs, l, h => by
    simp only [nsum] at h
    simp only [splitBy, List.map_cons, List.length_take]
    rw [splitBy_lengths cs (l.drop c) (by simp [List.length_drop]; omega)]
    congr 1
    omega

theorem maskBlock_append {α} (a b : List α) (ma mb : List Bool) (h : a.length = ma.length) :
    maskBlock (a ++ b) (ma ++ mb) = maskBlock a ma ++ maskBlock b mb := by
  simp only [maskBlock]
  rw [List.zip_append h, List.filter_append, List.map_append]

theorem maskSelect_length {α} (cs : List Nat) (x : List α) (m : List Bool) :
    (maskSelect cs x m).length = cs.length := by
  simp [maskSelect, splitBy_length]

theorem maskSelect_flatten {α} : ∀ (cs : List Nat) (x : List α) (m : List Bool), x.length = m.length →
    (maskSelect cs x m).flatten = maskBlock (x.take (nsum cs)) (m.take (nsum cs))
  | [], x, m, _ => by simp [maskSelect, splitBy, nsum, maskBlock]
  | c :: cs, x, m, h => by
    have ih := maskSelect_flatten cs (x.drop c) (m.drop c) (by simp [List.length_drop, h])
    simp only [maskSelect] at ih ⊢
    simp only [splitBy, List.zipWith_cons_cons, List.flatten_cons, ih, nsum]
    rw [List.take_add, List.take_add (l := m)]
    rw [maskBlock_append]
    simp [List.length_take, h]

theorem maskSelect_flatten_full {α} (cs : List Nat) (x : List α) (m : List Bool)
    (hx : nsum cs = x.length) (hm : x.length = m.length) :
    (maskSelect cs x m).flatten = maskBlock x m := by
  rw [maskSelect_flatten cs x m hm, hx, List.take_length, hm, List.take_length]

/-- a mask given by a predicate on the values (`x[p(x)]`) selects `filter p` -/
theorem maskBlock_pred {α} (p : α → Bool) : ∀ x : List α, maskBlock x (x.map p) = x.filter p
  | [] => rfl
  | a :: as => by
    have ih := maskBlock_pred p as
    simp only [maskBlock] at ih ⊢
    simp only [List.map_cons, List.zip_cons_cons, List.filter_cons]
    by_cases h : p a = true
    · simp [h, ih]
    · have h' : p a = false := by simpa using h
      simp [h', ih]

theorem nonzeroFrom_append : ∀ (off : Nat) (a b : List Bool),
    nonzeroFrom off (a ++ b) = nonzeroFrom off a ++ nonzeroFrom (off + a.length) b
  | off, [], b => by simp [nonzeroFrom]
  | off, x :: xs, b => by
    have ih := nonzeroFrom_append (off + 1) xs b
    have e : off + 1 + xs.length = off + (xs.length + 1) := by omega
    cases x <;> simp [nonzeroFrom, ih, e]

theorem maskPositionsFrom_flatten : ∀ (off : Nat) (cs : List Nat) (m : List Bool), nsum cs ≤ m.length →
    (maskPositionsFrom off cs m).flatten = nonzeroFrom off (m.take (nsum cs))
  | off, [], m, _ => by simp [maskPositionsFrom, nsum, nonzeroFrom]
  | off, c :: cs, m, h => by
    simp only [nsum] at h
    have ih := maskPositionsFrom_flatten (off + c) cs (m.drop c) (by simp [List.length_drop]; omega)
    simp only [maskPositionsFrom, List.flatten_cons, ih, nsum]
    rw [List.take_add, nonzeroFrom_append]
    have : (List.take c m).length = c := by simp [List.length_take]; omega
    rw [this]

theorem maskPositionsFrom_length : ∀ (off : Nat) (cs : List Nat) (m : List Bool),
    (maskPositionsFrom off cs m).length = cs.length
  | _, [], _ => rfl
  | off, c :: cs, m => by simp [maskPositionsFrom, maskPositionsFrom_length]

/-- the number of positions selected by a mask block equals the number of values kept -/
theorem nonzeroFrom_length_eq {α} : ∀ (off : Nat) (x : List α) (m : List Bool), x.length = m.length →
    (nonzeroFrom off m).length = (maskBlock x m).length
  | _, [], [], _ => rfl
  | _, [], _ :: _, h => by simp at h
  | _, _ :: _, [], h => by simp at h
  | off, a :: as, b :: bs, h => by
    have ih := nonzeroFrom_length_eq (off + 1) as bs (by simpa using h)
    simp only [maskBlock] at ih ⊢
    cases b <;> simp [nonzeroFrom, ih]

/-! ### slicing guard: `.ok` results do not depend on the unknown sizes -/

theorem sliceGuard_cons (dim : Option Nat) (dims : List (Option Nat)) (ind : Idx) (inds : List Idx) :
    sliceGuard (dim :: dims) (ind :: inds) =
      if dim.isNone && !ind.isColon then .error .valueError else sliceGuard dims inds := rfl

theorem sliceGuard_known : ∀ (K : Layout?) (idx : List Idx), isKnownL K = true →
    sliceGuard (shape? K) idx = .ok ()
  | [], idx, _ => by cases idx <;> rfl
  | k :: ks, [], _ => rfl
  | k :: ks, i :: is, h => by
    simp only [isKnownL, List.all_cons, Bool.and_eq_true] at h
    simp only [shape?, List.map_cons, sliceGuard_cons]
    have := osum_isSome_of_known k h.1
    have hn : (osum k).isNone = false := by
      cases ho : osum k <;> simp_all
    rw [hn]
    simpa [shape?] using sliceGuard_known ks is (by simpa [isKnownL] using h.2)

theorem isKnown_ofInts (l : List Int) : isKnown (ofInts l) = true := by
  simp [isKnown, ofInts]

theorem newBlockdim?_known (k : Dim?) (s : PySlice) (h : isKnown k = true) :
    isKnown (newBlockdim? k s) = true := by
  unfold newBlockdim?
  split
  · exact h
  · exact isKnown_ofInts _

/-- parametricity of `slice_slices_and_integers(x, index).chunks` in the unknown sizes -/
theorem slice_parametric : ∀ (L : Layout?) (idx : List Idx) (R K : Layout?),
    sliceChunks? L idx = .ok R → isKnownL K = true → agrees K L = true →
    ∃ R', sliceChunks? K idx = .ok R' ∧ isKnownL R' = true ∧ agrees R' R = true := by
  intro L idx R K hok hK hag
  have hguardK := sliceGuard_known K idx hK
  refine ⟨slicedChunks K idx, by simp [sliceChunks?, hguardK], ?_⟩
  -- reduce to the recursion
  have hR : R = slicedChunks L idx ∧ sliceGuard (shape? L) idx = .ok () := by
    unfold sliceChunks? at hok
    cases hg : sliceGuard (shape? L) idx with
    | error e => rw [hg] at hok; cases hok
    | ok u => rw [hg] at hok; cases u; injection hok with h; exact ⟨h.symm, rfl⟩
  obtain ⟨rfl, hg⟩ := hR
  clear hok hguardK
  induction L generalizing idx K with
  | nil =>
    cases K with
    | nil => cases idx <;> simp [slicedChunks, isKnownL, agrees]
    | cons k ks => simp [agrees] at hag
  | cons db dbs ih =>
    cases K with
    | nil => simp [agrees] at hag
    | cons k ks =>
      simp only [agrees, Bool.and_eq_true] at hag
      simp only [isKnownL, List.all_cons, Bool.and_eq_true] at hK
      cases idx with
      | nil => simp [slicedChunks, isKnownL, agrees]
      | cons ind inds =>
        simp only [shape?, List.map_cons, sliceGuard_cons] at hg
        by_cases hbad : ((osum db).isNone && !ind.isColon) = true
        · rw [hbad] at hg; simp at hg
        · have hbad' : ((osum db).isNone && !ind.isColon) = false := by simpa using hbad
          rw [hbad'] at hg
          simp only [Bool.false_eq_true, ↓reduceIte] at hg
          have := ih inds ks (by simpa [isKnownL] using hK.2) hag.2 (by simpa [shape?] using hg)
          cases ind with
          | int i => simpa [slicedChunks] using this
          | slice s =>
            simp only [slicedChunks, isKnownL, List.all_cons, agrees, Bool.and_eq_true]
            refine ⟨⟨newBlockdim?_known k s hK.1, by simpa [isKnownL] using this.1⟩, ?_, this.2⟩
            by_cases hs : s = Dask.Slicing.colon
            · simp [newBlockdim?, hs, hag.1]
            · -- not the full slice: the axis must be known, so `k = db`
              have hsome : (osum db).isNone = false := by
                simp only [Idx.isColon, hs, decide_false, Bool.not_false, Bool.and_true] at hbad'
                exact hbad'
              have hkn : isKnown db = true := by
                rw [isKnown_iff_not_hasNone]
                cases hh : hasNone db with
                | false => rfl
                | true =>
                  have := (osum_none_iff db).mpr hh
                  rw [this] at hsome; simp at hsome
              have := agreesDim_known k db hag.1 hkn
              subst this
              exact agreesDim_refl _

/-! ### `_validate_rechunk` -/

/-- the per-axis acceptance condition, as a proposition -/
def AxisOK (o n : Dim?) : Prop :=
  (∃ a, osum o = some a ∧ osum n = some a) ∨ (osum o = none ∧ osum n = none ∧ o = n)

theorem validateAxis_iff (o n : Dim?) : validateAxis o n = .ok () ↔ AxisOK o n := by
  unfold validateAxis AxisOK
  cases ho : osum o with
  | none =>
    cases hn : osum n with
    | none =>
      by_cases he : o = n
      · simp [he]
      · simp [he]
    | some b => simp
  | some a =>
    cases hn : osum n with
    | none => simp
    | some b =>
      by_cases hab : a = b
      · simp [hab]
      · have hba : ¬ b = a := fun e => hab e.symm
        simp [hab, hba]

theorem validateLoop_iff : ∀ (old new : Layout?),
    validateLoop old new = .ok () ↔ ∀ p ∈ old.zip new, AxisOK p.1 p.2
  | [], new => by simp [validateLoop]
  | o :: os, [] => by simp [validateLoop]
  | o :: os, n :: ns => by
    have ih := validateLoop_iff os ns
    simp only [validateLoop, List.zip_cons_cons, List.mem_cons, forall_eq_or_imp]
    cases hv : validateAxis o n with
    | error e =>
      have : ¬ AxisOK o n := fun h => by
        have := (validateAxis_iff o n).mpr h
        rw [hv] at this; cases this
      simp [this]
    | ok u =>
      cases u
      have : AxisOK o n := (validateAxis_iff o n).mp hv
      simp [this, ih]

theorem validateRechunk_iff (old new : Layout?) :
    validateRechunk old new = .ok () ↔
      old.length = new.length ∧ ∀ p ∈ old.zip new, AxisOK p.1 p.2 := by
  unfold validateRechunk
  by_cases h : old.length = new.length
  · simp [h, validateLoop_iff]
  · simp [h]

/-- the completion of the rechunk target induced by a completion `K` of the source:
unknown axes keep the source's blocks, known axes take the requested chunks -/
def completeNew : Layout? → Layout? → Layout? → Layout?
  | k :: ks, o :: os, n :: ns => (if hasNone o then k else n) :: completeNew ks os ns
  | _, _, _ => []

theorem isKnown_of_osum_some (d : Dim?) (a : Nat) (h : osum d = some a) : isKnown d = true := by
  rw [isKnown_iff_not_hasNone]
  cases hh : hasNone d with
  | false => rfl
  | true => rw [(osum_none_iff d).mpr hh] at h; cases h

/-- parametricity of `_validate_rechunk`: whenever it accepts, every completion `K` of the
source layout induces a completion of the target with the same shape (so the rechunk is a
rechunk between layouts of one array), identical to `K` on the unknown axes. -/
theorem validate_parametric : ∀ (old new K : Layout?),
    validateLoop old new = .ok () → old.length = new.length → isKnownL K = true → agrees K old = true →
    isKnownL (completeNew K old new) = true ∧ agrees (completeNew K old new) new = true ∧
    shape? (completeNew K old new) = shape? K ∧ validateLoop K (completeNew K old new) = .ok ()
  | [], [], K, _, _, hK, hag => by
    cases K with
    | nil => simp [completeNew, isKnownL, agrees, shape?, validateLoop]
    | cons k ks => simp [agrees] at hag
  | [], _ :: _, _, _, hl, _, _ => by simp at hl
  | _ :: _, [], _, _, hl, _, _ => by simp at hl
  | o :: os, n :: ns, K, hv, hl, hK, hag => by
    cases K with
    | nil => simp [agrees] at hag
    | cons k ks =>
      simp only [agrees, Bool.and_eq_true] at hag
      simp only [isKnownL, List.all_cons, Bool.and_eq_true] at hK
      have hv' := (validateLoop_iff (o :: os) (n :: ns)).mp hv
      have hax : AxisOK o n := hv' (o, n) (by simp)
      have hrest : validateLoop os ns = .ok () :=
        (validateLoop_iff os ns).mpr (fun p hp => hv' p (by simp [hp]))
      have ih := validate_parametric os ns ks hrest (by simpa using hl) (by simpa [isKnownL] using hK.2) hag.2
      obtain ⟨ih1, ih2, ih3, ih4⟩ := ih
      simp only [completeNew]
      rcases hax with ⟨a, hoa, hna⟩ | ⟨hon, hnn, hEq⟩
      · -- both known with the same length: `k = o`, target axis is `n`
        have hko : isKnown o = true := isKnown_of_osum_some o a hoa
        have hkn : isKnown n = true := isKnown_of_osum_some n a hna
        have hno : hasNone o = false := (isKnown_iff_not_hasNone o).mp hko
        have hk : k = o := agreesDim_known k o hag.1 hko
        subst hk
        simp only [hno, Bool.false_eq_true, ↓reduceIte]
        refine ⟨?_, ?_, ?_, ?_⟩
        · simp only [isKnownL, List.all_cons, Bool.and_eq_true]; exact ⟨hkn, by simpa [isKnownL] using ih1⟩
        · simp only [agrees, Bool.and_eq_true]; exact ⟨agreesDim_refl n, ih2⟩
        · simp only [shape?, List.map_cons] at ih3 ⊢; rw [ih3, hoa, hna]
        · simp only [validateLoop]
          have : validateAxis k n = .ok () := (validateAxis_iff k n).mpr (Or.inl ⟨a, hoa, hna⟩)
          rw [this]; exact ih4
      · -- unknown axis, unchanged: target axis is `k`
        subst hEq
        have hno : hasNone o = true := (osum_none_iff o).mp hon
        simp only [hno, ↓reduceIte]
        have hks := osum_isSome_of_known k hK.1
        refine ⟨?_, ?_, ?_, ?_⟩
        · simp only [isKnownL, List.all_cons, Bool.and_eq_true]; exact ⟨hK.1, by simpa [isKnownL] using ih1⟩
        · simp only [agrees, Bool.and_eq_true]; exact ⟨hag.1, ih2⟩
        · simp only [shape?, List.map_cons] at ih3 ⊢; rw [ih3]
        · simp only [validateLoop]
          have : validateAxis k k = .ok () := by
            rw [validateAxis_iff]
            cases hs : osum k with
            | none => rw [hs] at hks; cases hks
            | some a => exact Or.inl ⟨a, hs, hs⟩
          rw [this]; exact ih4

/-! ### `take` -/

theorem takeGuard_ok_iff (d : Dim?) :
    (∃ k, takeGuard d = .ok k) ↔ (hasNone d = false ∨ d.length = 1) := by
  unfold takeGuard
  cases h : hasNone d with
  | false => simp
  | true =>
    by_cases hl : d.length = 1
    · simp [hl]
    · simp [hl]

/-! ### unify guard: only block COUNTS are compared -/

theorem coarse_unknown_spec (bd : List Dim?) (r : Dim?) (h : coarseBlockdim? bd = .ok r)
    (hr : hasNone r = true) : r ∈ bd ∧ ∀ d ∈ bd, d.length = r.length := by
  unfold coarseBlockdim? at h
  by_cases ht : anyTruthy bd = true
  · simp only [ht, Bool.not_true, Bool.false_eq_true, ↓reduceIte] at h
    cases hf : bd.filter hasNone with
    | nil =>
      rw [hf] at h
      simp only at h
      -- known branch: results are fully known
      cases hc : Dask.Unify.coarseBlockdim (bd.map toInts) with
      | error e => rw [hc] at h; cases h
      | ok v =>
        rw [hc] at h
        simp only [liftRes] at h
        injection h with h
        subst h
        have := isKnown_ofInts' v
        rw [isKnown_iff_not_hasNone] at this
        rw [this] at hr; cases hr
    | cons u us =>
      rw [hf] at h
      simp only at h
      by_cases hall : (bd.all fun d => decide (d.length = u.length)) = true
      · simp only [hall, Bool.not_true, Bool.false_eq_true, ↓reduceIte] at h
        injection h with h
        subst h
        have hu : u ∈ bd.filter hasNone := by rw [hf]; exact List.mem_cons_self
        refine ⟨(List.mem_filter.mp hu).1, ?_⟩
        intro d hd
        have := List.all_eq_true.mp hall d hd
        simpa using this
      · simp only [hall, Bool.not_false, ↓reduceIte] at h
        cases h
  · have : anyTruthy bd = false := by simpa using ht
    simp only [this, Bool.not_false, ↓reduceIte] at h
    injection h with h
    subst h
    simp [hasNone] at hr
where
  isKnown_ofInts' (l : List Int) : isKnown (ofInts l) = true := by simp [isKnown, ofInts]

end Dask.Lemmas.Unknown
