/-
The n-d `PartialReduce` cascade over the contracted block axes (Model/Contract.lean `layer`, `tree`)
sums every block of the contracted grid exactly once, whatever the per-axis fan-in and depth
(given enough layers).  Built on C18's `partition_all` lemmas.  Core Lean only.
-/
import DaskArrayModel.Lemmas.ContractBase
import DaskArrayModel.Lemmas.Reduce
namespace Dask.Contract
open Dask.Py Dask.ND Dask.Reduce Dask.Lemmas.Reduce

/-! ### one layer preserves the total -/

/-- scalar layer over arbitrary `parts` -/
def layerS (parts : List (List (List Nat))) (g : List Nat → Int) (out : List Nat) : Int :=
  lsum (cart (List.zipWith (fun ps j => ps.getD j []) parts out)) g

/-- summing the outputs of one layer over `sels` = summing the inputs over the union of the groups -/
theorem layer_total : ∀ (parts : List (List (List Nat))) (sels : List (List Nat)) (g : List Nat → Int),
    parts.length = sels.length →
    lsum (cart sels) (layerS parts g)
      = lsum (cart (List.zipWith (fun ps sel => (sel.map (fun j => ps.getD j [])).flatten) parts sels)) g
  | [], [], g, _ => by
    simp only [List.zipWith_nil_left, lsum_cart_nil, layerS]
  | [], _ :: _, _, h => by simp at h
  | _ :: _, [], _, h => by simp at h
  | ps :: parts, sel :: sels, g, h => by
    have h' : parts.length = sels.length := by simpa using h
    rw [lsum_cart_cons, List.zipWith_cons_cons, lsum_cart_cons, lsum_flatten, lsum_map]
    apply lsum_congr
    intro j _
    have e1 : ∀ r, layerS (ps :: parts) g (j :: r)
        = lsum (ps.getD j []) (fun b => layerS parts (fun t => g (b :: t)) r) := by
      intro r
      simp only [layerS, List.zipWith_cons_cons]
      rw [lsum_cart_cons]
    rw [lsum_congr (fun r _ => e1 r), lsum_swap]
    apply lsum_congr
    intro b _
    exact layer_total parts sels (fun t => g (b :: t)) h'

/-! ### the index sets -/

/-- per position the block indices that are summed: the output's own index at a free position, all
blocks at a contracted one (`ob` = output block index over the free positions) -/
def sels : List Nat → List Nat → List Nat → List (List Nat)
  | 0 :: sp, _ :: nb, o :: ob => [o] :: sels sp nb ob
  | (_ + 1) :: sp, n :: nb, ob => List.range n :: sels sp nb ob
  | _, _, _ => []

/-- `ob` is a valid block index over the free positions -/
def okOb : List Nat → List Nat → List Nat → Prop
  | [], [], [] => True
  | 0 :: sp, n :: nb, o :: ob => o < n ∧ okOb sp nb ob
  | (_ + 1) :: sp, _ :: nb, ob => okOb sp nb ob
  | _, _, _ => False

/-- every contracted position has between 1 and `split ^ d` blocks, fan-in ≥ 2 -/
def depthOK : List Nat → List Nat → Nat → Prop
  | [], [], _ => True
  | 0 :: sp, _ :: nb, d => depthOK sp nb d
  | (s + 1) :: sp, n :: nb, d => 1 ≤ s ∧ 1 ≤ n ∧ n ≤ (s + 1) ^ d ∧ depthOK sp nb d
  | _, _, _ => False

/-- every contracted position has exactly one block -/
def maskedOne : List Nat → List Nat → Prop
  | [], [] => True
  | 0 :: sp, _ :: nb => maskedOne sp nb
  | (_ + 1) :: sp, n :: nb => n = 1 ∧ maskedOne sp nb
  | _, _ => False

theorem okOb_length : ∀ (sp nb ob : List Nat), okOb sp nb ob → nb.length = sp.length
  | [], [], [], _ => rfl
  | 0 :: sp, n :: nb, o :: ob, h => by
    simp only [okOb] at h; simp [okOb_length sp nb ob h.2]
  | (_ + 1) :: sp, n :: nb, ob, h => by
    simp only [okOb] at h; simp [okOb_length sp nb ob h]
  | [], [], _ :: _, h => by simp [okOb] at h
  | [], _ :: _, _, h => by simp [okOb] at h
  | _ :: _, [], _, h => by cases ‹Nat› <;> simp [okOb] at h
  | 0 :: _, _ :: _, [], h => by simp [okOb] at h

theorem sels_length : ∀ (sp nb ob : List Nat), okOb sp nb ob → (sels sp nb ob).length = sp.length
  | [], [], [], _ => rfl
  | 0 :: sp, n :: nb, o :: ob, h => by
    simp only [okOb] at h; simp [sels, sels_length sp nb ob h.2]
  | (_ + 1) :: sp, n :: nb, ob, h => by
    simp only [okOb] at h; simp [sels, sels_length sp nb ob h]
  | [], [], _ :: _, h => by simp [okOb] at h
  | [], _ :: _, _, h => by simp [okOb] at h
  | _ :: _, [], _, h => by cases ‹Nat› <;> simp [okOb] at h
  | 0 :: _, _ :: _, [], h => by simp [okOb] at h

theorem map_getD_range {α} (l : List α) (d : α) : (List.range l.length).map (fun j => l.getD j d) = l := by
  apply List.ext_getElem
  · simp
  · intro i h1 h2
    simp only [List.length_map, List.length_range] at h1
    simp [List.getD_eq_getElem?_getD, h1]

theorem partitionAll_one_getD (n o : Nat) (h : o < n) :
    (partitionAll 1 (List.range n)).getD o [] = [o] := by
  rw [partitionAll_one]
  simp [List.getD_eq_getElem?_getD, h]

theorem layerParts_length : ∀ (nb sp : List Nat), nb.length = sp.length →
    (layerParts nb sp).length = sp.length
  | [], [], _ => rfl
  | [], _ :: _, h => by simp at h
  | _ :: _, [], h => by simp at h
  | n :: nb, s :: sp, h => by
    show ((partitionAll _ (List.range n)) :: layerParts nb sp).length = _
    simp [layerParts_length nb sp (by simpa using h)]

theorem layerParts_cons (n s : Nat) (nb sp : List Nat) :
    layerParts (n :: nb) (s :: sp)
      = partitionAll (if s = 0 then 1 else s) (List.range n) :: layerParts nb sp := rfl

theorem numBlocksAfterND_cons (n s : Nat) (nb sp : List Nat) :
    numBlocksAfterND (n :: nb) (s :: sp)
      = (partitionAll (if s = 0 then 1 else s) (List.range n)).length :: numBlocksAfterND nb sp := rfl

theorem okOb_after : ∀ (sp nb ob : List Nat), okOb sp nb ob → okOb sp (numBlocksAfterND nb sp) ob
  | [], [], [], _ => trivial
  | 0 :: sp, n :: nb, o :: ob, h => by
    simp only [okOb] at h
    rw [numBlocksAfterND_cons]
    simp only [okOb, if_true]
    refine ⟨?_, okOb_after sp nb ob h.2⟩
    rw [partitionAll_length (by omega), List.length_range]
    simp; exact h.1
  | (s + 1) :: sp, n :: nb, ob, h => by
    simp only [okOb] at h
    rw [numBlocksAfterND_cons]
    simp only [okOb]
    exact okOb_after sp nb ob h
  | [], [], _ :: _, h => by simp [okOb] at h
  | [], _ :: _, _, h => by simp [okOb] at h
  | _ :: _, [], _, h => by cases ‹Nat› <;> simp [okOb] at h
  | 0 :: _, _ :: _, [], h => by simp [okOb] at h

/-- the union of the groups feeding the outputs `sels (after)` is `sels (before)` -/
theorem sels_layer : ∀ (sp nb ob : List Nat), okOb sp nb ob →
    List.zipWith (fun ps sel => (sel.map (fun j => ps.getD j [])).flatten) (layerParts nb sp)
      (sels sp (numBlocksAfterND nb sp) ob) = sels sp nb ob
  | [], [], [], _ => rfl
  | 0 :: sp, n :: nb, o :: ob, h => by
    simp only [okOb] at h
    rw [layerParts_cons, numBlocksAfterND_cons]
    simp only [sels, if_true, List.zipWith_cons_cons, List.map_cons, List.map_nil,
      List.flatten_cons, List.flatten_nil, List.append_nil]
    rw [partitionAll_one_getD n o h.1, sels_layer sp nb ob h.2]
  | (s + 1) :: sp, n :: nb, ob, h => by
    simp only [okOb] at h
    rw [layerParts_cons, numBlocksAfterND_cons]
    simp only [sels, List.zipWith_cons_cons]
    rw [map_getD_range, partitionAll_flatten (by simp), sels_layer sp nb ob h]
  | [], [], _ :: _, h => by simp [okOb] at h
  | [], _ :: _, _, h => by simp [okOb] at h
  | _ :: _, [], _, h => by cases ‹Nat› <;> simp [okOb] at h
  | 0 :: _, _ :: _, [], h => by simp [okOb] at h

theorem layer_isum_eq (nb sp : List Nat) (g : List Nat → Int) :
    layer isum nb sp g = layerS (layerParts nb sp) g := rfl

/-- one real layer preserves the total over the contracted grid -/
theorem layer_preserves (sp nb ob : List Nat) (h : okOb sp nb ob) (g : List Nat → Int) :
    lsum (cart (sels sp (numBlocksAfterND nb sp) ob)) (layer isum nb sp g)
      = lsum (cart (sels sp nb ob)) g := by
  rw [layer_isum_eq, layer_total _ _ _ ?_, sels_layer sp nb ob h]
  rw [layerParts_length nb sp (okOb_length sp nb ob h), sels_length sp _ ob (okOb_after sp nb ob h)]

/-- `r` layers preserve the total -/
theorem tree_preserves (sp ob : List Nat) : ∀ (r : Nat) (nb : List Nat) (g : List Nat → Int),
    okOb sp nb ob →
    lsum (cart (sels sp (nbAfter sp r nb) ob)) (tree isum sp r nb g) = lsum (cart (sels sp nb ob)) g
  | 0, _, _, _ => rfl
  | r + 1, nb, g, h => by
    show lsum (cart (sels sp (nbAfter sp r (numBlocksAfterND nb sp)) ob))
      (tree isum sp r (numBlocksAfterND nb sp) (layer isum nb sp g)) = _
    rw [tree_preserves sp ob r _ _ (okOb_after sp nb ob h), layer_preserves sp nb ob h]

/-! ### enough layers leave one block on every contracted axis -/

theorem numBlocksAfter_pos {k n : Nat} (hk : 0 < k) (hn : 1 ≤ n) : 1 ≤ numBlocksAfter k n := by
  rw [numBlocksAfter_eq hk]
  have : k ≤ n + k - 1 := by omega
  exact Nat.le_div_iff_mul_le hk |>.mpr (by omega)

theorem blocksAfterLayers_pos {k : Nat} (hk : 0 < k) : ∀ d n, 1 ≤ n → 1 ≤ blocksAfterLayers k d n
  | 0, _, h => h
  | d + 1, _, h => blocksAfterLayers_pos hk d _ (numBlocksAfter_pos hk h)

/-- `nbAfter` position by position -/
def nbAfterSpec : List Nat → Nat → List Nat → List Nat
  | 0 :: sp, r, n :: nb => n :: nbAfterSpec sp r nb
  | (s + 1) :: sp, r, n :: nb => blocksAfterLayers (s + 1) r n :: nbAfterSpec sp r nb
  | _, _, _ => []

theorem numBlocksAfterND_length (nb sp : List Nat) (h : nb.length = sp.length) :
    (numBlocksAfterND nb sp).length = sp.length := by
  unfold numBlocksAfterND; rw [List.length_map, layerParts_length nb sp h]

theorem nbAfter_spec (sp : List Nat) : ∀ (r : Nat) (nb : List Nat), nb.length = sp.length →
    nbAfter sp r nb = nbAfterSpec sp r nb
  | 0, nb, h => by
    show nb = _
    induction sp generalizing nb with
    | nil => cases nb with
      | nil => rfl
      | cons _ _ => simp at h
    | cons s sp ih =>
      cases nb with
      | nil => simp at h
      | cons n nb =>
        cases s with
        | zero => simp only [nbAfterSpec]; rw [← ih nb (by simpa using h)]
        | succ s => simp only [nbAfterSpec, blocksAfterLayers]; rw [← ih nb (by simpa using h)]
  | r + 1, nb, h => by
    show nbAfter sp r (numBlocksAfterND nb sp) = _
    rw [nbAfter_spec sp r _ (numBlocksAfterND_length nb sp h)]
    clear h
    induction sp generalizing nb with
    | nil => cases nb <;> rfl
    | cons s sp ih =>
      cases nb with
      | nil => cases s <;> rfl
      | cons n nb =>
        rw [numBlocksAfterND_cons]
        cases s with
        | zero =>
          simp only [nbAfterSpec, if_true]
          rw [ih nb, partitionAll_length (by omega), List.length_range]
          simp
        | succ s =>
          simp only [nbAfterSpec, blocksAfterLayers]
          rw [ih nb]
          rfl

theorem maskedOne_after : ∀ (sp nb : List Nat) (d : Nat), depthOK sp nb d →
    maskedOne sp (nbAfterSpec sp d nb)
  | [], [], _, _ => trivial
  | 0 :: sp, n :: nb, d, h => by
    simp only [depthOK] at h
    simp only [nbAfterSpec, maskedOne]
    exact maskedOne_after sp nb d h
  | (s + 1) :: sp, n :: nb, d, h => by
    simp only [depthOK] at h
    simp only [nbAfterSpec, maskedOne]
    refine ⟨?_, maskedOne_after sp nb d h.2.2.2⟩
    have h1 := blocksAfterLayers_le_one (k := s + 1) (by omega) d n h.2.2.1
    have h2 := blocksAfterLayers_pos (k := s + 1) (by omega) d n h.2.1
    omega
  | [], _ :: _, _, h => by simp [depthOK] at h
  | _ :: _, [], _, h => by cases ‹Nat› <;> simp [depthOK] at h

/-! ### reading the totals through the mask -/

/-- the mask of a `split` list -/
def maskOf (sp : List Nat) : List Bool := sp.map (fun s => s != 0)

theorem maskOf_zero (sp : List Nat) : maskOf (0 :: sp) = false :: maskOf sp := rfl
theorem maskOf_succ (s : Nat) (sp : List Nat) : maskOf ((s + 1) :: sp) = true :: maskOf sp := by
  simp [maskOf]

/-- the total over `sels` is the sum over the contracted block grid -/
theorem lsum_sels : ∀ (sp nb ob : List Nat) (g : List Nat → Int), okOb sp nb ob →
    lsum (cart (sels sp nb ob)) g
      = lsum (allIdx (pick (maskOf sp) nb)) (fun kb => g (merge (maskOf sp) ob kb))
  | [], [], [], g, _ => by
    simp only [sels, maskOf, List.map_nil, pick, merge]
    rw [lsum_cart_nil, lsum_allIdx_nil]
  | 0 :: sp, n :: nb, o :: ob, g, h => by
    simp only [okOb] at h
    rw [maskOf_zero]
    simp only [sels, pick, merge]
    rw [lsum_cart_cons, lsum_singleton, lsum_sels sp nb ob _ h.2]
  | (s + 1) :: sp, n :: nb, ob, g, h => by
    simp only [okOb] at h
    rw [maskOf_succ]
    simp only [sels, pick]
    rw [lsum_cart_cons, lsum_allIdx_cons]
    apply lsum_congr
    intro t _
    rw [lsum_sels sp nb ob _ h]
    apply lsum_congr
    intro kb _
    simp only [merge]
  | [], [], _ :: _, _, h => by simp [okOb] at h
  | [], _ :: _, _, _, h => by simp [okOb] at h
  | _ :: _, [], _, _, h => by cases ‹Nat› <;> simp [okOb] at h
  | 0 :: _, _ :: _, [], _, h => by simp [okOb] at h

/-- with one block on every contracted axis the only key is `merge ob zeros` -/
theorem sels_one : ∀ (sp nb ob : List Nat), okOb sp nb ob → maskedOne sp nb →
    cart (sels sp nb ob) = [merge (maskOf sp) ob (zerosOf (maskOf sp))]
  | [], [], [], _, _ => rfl
  | 0 :: sp, n :: nb, o :: ob, h, h1 => by
    simp only [okOb] at h
    simp only [maskedOne] at h1
    rw [maskOf_zero]
    simp only [sels, cart, zerosOf, pick, merge]
    have ih := sels_one sp nb ob h.2 h1
    simp only [zerosOf] at ih
    rw [ih]; simp
  | (s + 1) :: sp, n :: nb, ob, h, h1 => by
    simp only [okOb] at h
    simp only [maskedOne] at h1
    rw [maskOf_succ]
    simp only [sels, cart, zerosOf, pick, merge, List.map_cons]
    have ih := sels_one sp nb ob h h1.2
    simp only [zerosOf] at ih
    rw [ih, h1.1]; simp
  | [], [], _ :: _, h, _ => by simp [okOb] at h
  | [], _ :: _, _, h, _ => by simp [okOb] at h
  | _ :: _, [], _, h, _ => by cases ‹Nat› <;> simp [okOb] at h
  | 0 :: _, _ :: _, [], h, _ => by simp [okOb] at h

/-- one block on every contracted axis: the contracted block grid is the single key of zeros -/
theorem allIdx_pick_one : ∀ (sp nb : List Nat), maskedOne sp nb →
    allIdx (pick (maskOf sp) nb) = [zerosOf (maskOf sp)]
  | [], [], _ => rfl
  | 0 :: sp, n :: nb, h => by
    simp only [maskedOne] at h
    rw [maskOf_zero]
    simp only [pick, zerosOf]
    exact allIdx_pick_one sp nb h
  | (s + 1) :: sp, n :: nb, h => by
    simp only [maskedOne] at h
    rw [maskOf_succ]
    have ih := allIdx_pick_one sp nb h.2
    simp only [zerosOf] at ih
    simp only [pick, zerosOf, List.map_cons, allIdx, h.1, List.range_one, List.flatMap_cons,
      List.flatMap_nil, List.append_nil]
    rw [ih]; rfl
  | [], _ :: _, h => by simp [maskedOne] at h
  | _ :: _, [], h => by cases ‹Nat› <;> simp [maskedOne] at h


/-- **scalar tree theorem**: with enough layers the cascade returns, at the only remaining key, the
sum of the whole contracted block grid — independent of the fan-ins and of the depth. -/
theorem tree_sum (sp nb ob : List Nat) (d : Nat) (g : List Nat → Int) (h : okOb sp nb ob)
    (hd : depthOK sp nb d) :
    tree isum sp d nb g (merge (maskOf sp) ob (zerosOf (maskOf sp)))
      = lsum (allIdx (pick (maskOf sp) nb)) (fun kb => g (merge (maskOf sp) ob kb)) := by
  have hl := okOb_length sp nb ob h
  have hok : ∀ r nb', okOb sp nb' ob → okOb sp (nbAfter sp r nb') ob := by
    intro r
    induction r with
    | zero => intro nb' h'; exact h'
    | succ r ih => intro nb' h'; exact ih _ (okOb_after sp nb' ob h')
  have h1 : maskedOne sp (nbAfter sp d nb) := by
    rw [nbAfter_spec sp d nb hl]; exact maskedOne_after sp nb d hd
  have := tree_preserves sp ob d nb g h
  rw [sels_one sp _ ob (hok d nb h) h1, lsum_singleton, lsum_sels sp nb ob g h] at this
  exact this

/-! ### the cascade on blocks (`addBlocks`) -/

theorem addBlocks_get (bs : List (Arr Int)) (i : List Nat) :
    (addBlocks bs).get i = lsum bs (fun b => b.get i) := rfl

theorem layer_addBlocks_get (nb sp : List Nat) (G : List Nat → Arr Int) (out i : List Nat) :
    (layer addBlocks nb sp G out).get i = layer isum nb sp (fun b => (G b).get i) out := by
  show isum (((cart (groupsAt nb sp out)).map G).map (fun b => b.get i)) = _
  rw [List.map_map]; rfl

theorem tree_addBlocks_get (sp : List Nat) (i : List Nat) : ∀ (r : Nat) (nb : List Nat)
    (G : List Nat → Arr Int) (out : List Nat),
    (tree addBlocks sp r nb G out).get i = tree isum sp r nb (fun b => (G b).get i) out
  | 0, _, _, _ => rfl
  | r + 1, nb, G, out => by
    show (tree addBlocks sp r (numBlocksAfterND nb sp) (layer addBlocks nb sp G) out).get i
      = tree isum sp r (numBlocksAfterND nb sp) (layer isum nb sp (fun b => (G b).get i)) out
    rw [tree_addBlocks_get sp i r]
    congr 1
    funext b
    exact layer_addBlocks_get nb sp G b i

/-- every member of a group of an output in `sels (after)` lies in `sels (before)` -/
theorem groups_sub : ∀ (sp nb ob out b : List Nat), okOb sp nb ob →
    memEach out (sels sp (numBlocksAfterND nb sp) ob) → memEach b (groupsAt nb sp out) →
    memEach b (sels sp nb ob)
  | [], [], [], out, b, _, ho, hb => by
    cases out with
    | nil => simpa [groupsAt, layerParts, sels] using hb
    | cons _ _ => simp [sels, memEach] at ho
  | 0 :: sp, n :: nb, o :: ob, out, b, h, ho, hb => by
    simp only [okOb] at h
    rw [numBlocksAfterND_cons] at ho
    simp only [sels] at ho ⊢
    cases out with
    | nil => simp [memEach] at ho
    | cons j out =>
      cases b with
      | nil => simp [groupsAt, layerParts_cons, memEach] at hb
      | cons x b =>
        simp only [memEach, List.mem_singleton] at ho
        simp only [groupsAt, layerParts_cons, if_true, List.zipWith_cons_cons, memEach] at hb
        obtain ⟨ho1, ho2⟩ := ho
        subst ho1
        rw [partitionAll_one_getD n j h.1] at hb
        simp only [memEach]
        exact ⟨hb.1, groups_sub sp nb ob out b h.2 ho2 hb.2⟩
  | (s + 1) :: sp, n :: nb, ob, out, b, h, ho, hb => by
    simp only [okOb] at h
    rw [numBlocksAfterND_cons] at ho
    simp only [sels] at ho ⊢
    cases out with
    | nil => simp [memEach] at ho
    | cons j out =>
      cases b with
      | nil => simp [groupsAt, layerParts_cons, memEach] at hb
      | cons x b =>
        simp only [memEach, List.mem_range] at ho
        simp only [groupsAt, layerParts_cons, List.zipWith_cons_cons, memEach] at hb
        simp only [memEach, List.mem_range]
        refine ⟨?_, groups_sub sp nb ob out b h ho.2 hb.2⟩
        have hk : 0 < (if s + 1 = 0 then 1 else s + 1) := by simp
        have hmem : x ∈ (partitionAll (if s + 1 = 0 then 1 else s + 1) (List.range n)).flatten := by
          apply List.mem_flatten.mpr
          refine ⟨_, ?_, hb.1⟩
          rw [getD_eq_getElem _ _ _ ho.1]
          exact List.getElem_mem ho.1
        rw [partitionAll_flatten hk] at hmem
        exact List.mem_range.mp hmem
  | [], [], _ :: _, _, _, h, _, _ => by simp [okOb] at h
  | [], _ :: _, _, _, _, h, _, _ => by simp [okOb] at h
  | _ :: _, [], _, _, _, h, _, _ => by cases ‹Nat› <;> simp [okOb] at h
  | 0 :: _, _ :: _, [], _, _, h, _, _ => by simp [okOb] at h

/-- the group of an output in `sels (after)` is non-empty: it has a first member -/
theorem groups_head : ∀ (sp nb ob out : List Nat), okOb sp nb ob →
    memEach out (sels sp (numBlocksAfterND nb sp) ob) →
    ∃ b rest, cart (groupsAt nb sp out) = b :: rest
  | [], [], [], out, _, ho => by
    cases out with
    | nil => exact ⟨[], [], rfl⟩
    | cons _ _ => simp [sels, memEach] at ho
  | 0 :: sp, n :: nb, o :: ob, out, h, ho => by
    simp only [okOb] at h
    rw [numBlocksAfterND_cons] at ho
    simp only [sels] at ho
    cases out with
    | nil => simp [memEach] at ho
    | cons j out =>
      simp only [memEach, List.mem_singleton] at ho
      obtain ⟨ho1, ho2⟩ := ho
      subst ho1
      obtain ⟨b, rest, e⟩ := groups_head sp nb ob out h.2 ho2
      refine ⟨j :: b, rest.map (j :: ·), ?_⟩
      simp only [groupsAt] at e
      simp only [groupsAt, layerParts_cons, if_true, List.zipWith_cons_cons]
      rw [partitionAll_one_getD n j h.1]
      simp only [cart, List.flatMap_cons, List.flatMap_nil, List.append_nil]
      rw [e]; rfl
  | (s + 1) :: sp, n :: nb, ob, out, h, ho => by
    simp only [okOb] at h
    rw [numBlocksAfterND_cons] at ho
    simp only [sels] at ho
    cases out with
    | nil => simp [memEach] at ho
    | cons j out =>
      simp only [memEach, List.mem_range] at ho
      obtain ⟨b, rest, e⟩ := groups_head sp nb ob out h ho.2
      have hk : 0 < (if s + 1 = 0 then 1 else s + 1) := by simp
      have hmem : (partitionAll (if s + 1 = 0 then 1 else s + 1) (List.range n)).getD j []
          ∈ partitionAll (if s + 1 = 0 then 1 else s + 1) (List.range n) := by
        rw [getD_eq_getElem _ _ _ ho.1]; exact List.getElem_mem ho.1
      have hne := (partitionAll_parts hk (List.range n) _ hmem).1
      clear hmem
      simp only [groupsAt] at e
      simp only [groupsAt, layerParts_cons, List.zipWith_cons_cons]
      generalize (partitionAll (if s + 1 = 0 then 1 else s + 1) (List.range n)).getD j [] = grp at hne
      cases grp with
      | nil => exact absurd rfl hne
      | cons x grp =>
        refine ⟨x :: b, rest.map (x :: ·) ++ grp.flatMap (fun y =>
          (cart (List.zipWith (fun ps j => ps.getD j []) (layerParts nb sp) out)).map (y :: ·)), ?_⟩
        simp only [cart, List.flatMap_cons]
        rw [e]; rfl
  | [], [], _ :: _, _, h, _ => by simp [okOb] at h
  | [], _ :: _, _, _, h, _ => by simp [okOb] at h
  | _ :: _, [], _, _, h, _ => by cases ‹Nat› <;> simp [okOb] at h
  | 0 :: _, _ :: _, [], _, h, _ => by simp [okOb] at h

/-- all blocks of the contracted grid of `ob` have shape `S` ⇒ so have all blocks of every level -/
theorem tree_addBlocks_shape (sp ob : List Nat) (S : List Nat) : ∀ (r : Nat) (nb : List Nat)
    (G : List Nat → Arr Int), okOb sp nb ob →
    (∀ b, memEach b (sels sp nb ob) → (G b).shape = S) →
    ∀ out, memEach out (sels sp (nbAfter sp r nb) ob) → (tree addBlocks sp r nb G out).shape = S
  | 0, _, _, _, hG, out, ho => hG out ho
  | r + 1, nb, G, h, hG, out, ho => by
    show (tree addBlocks sp r (numBlocksAfterND nb sp) (layer addBlocks nb sp G) out).shape = S
    apply tree_addBlocks_shape sp ob S r _ _ (okOb_after sp nb ob h) _ out ho
    intro o ho'
    obtain ⟨b, rest, e⟩ := groups_head sp nb ob o h ho'
    show ((((cart (groupsAt nb sp o)).map G).headD ⟨[], fun _ => 0⟩)).shape = S
    rw [e]
    simp only [List.map_cons, List.headD_cons]
    apply hG
    apply groups_sub sp nb ob o b h ho'
    apply (mem_cart _ _).mp
    rw [e]; exact List.mem_cons_self

theorem memEach_merge_zeros : ∀ (sp nb ob : List Nat), okOb sp nb ob → maskedOne sp nb →
    memEach (merge (maskOf sp) ob (zerosOf (maskOf sp))) (sels sp nb ob) := by
  intro sp nb ob h h1
  apply (mem_cart _ _).mp
  rw [sels_one sp nb ob h h1]
  exact List.mem_singleton.mpr rfl

/-- members of `sels` are the keys `merge ob kb` with `kb` a block index of the contracted grid -/
theorem memEach_sels : ∀ (sp nb ob b : List Nat), okOb sp nb ob → memEach b (sels sp nb ob) →
    InB (pick (maskOf sp) b) (pick (maskOf sp) nb) ∧ b = merge (maskOf sp) ob (pick (maskOf sp) b)
  | [], [], [], b, _, hb => by
    cases b with
    | nil => simp [maskOf, pick, merge, InB]
    | cons _ _ => simp [sels, memEach] at hb
  | 0 :: sp, n :: nb, o :: ob, b, h, hb => by
    simp only [okOb] at h
    simp only [sels] at hb
    cases b with
    | nil => simp [memEach] at hb
    | cons x b =>
      simp only [memEach, List.mem_singleton] at hb
      obtain ⟨hb1, hb2⟩ := hb
      subst hb1
      obtain ⟨r1, r2⟩ := memEach_sels sp nb ob b h.2 hb2
      rw [maskOf_zero]
      simp only [pick, merge]
      exact ⟨r1, by rw [← r2]⟩
  | (s + 1) :: sp, n :: nb, ob, b, h, hb => by
    simp only [okOb] at h
    simp only [sels] at hb
    cases b with
    | nil => simp [memEach] at hb
    | cons x b =>
      simp only [memEach, List.mem_range] at hb
      obtain ⟨r1, r2⟩ := memEach_sels sp nb ob b h hb.2
      rw [maskOf_succ]
      simp only [pick, merge, InB]
      exact ⟨⟨hb.1, r1⟩, by rw [← r2]⟩
  | [], [], _ :: _, _, h, _ => by simp [okOb] at h
  | [], _ :: _, _, _, h, _ => by simp [okOb] at h
  | _ :: _, [], _, _, h, _ => by cases ‹Nat› <;> simp [okOb] at h
  | 0 :: _, _ :: _, [], _, h, _ => by simp [okOb] at h

/-- **block tree theorem**: shape and values of the single block the cascade leaves for `ob` -/
theorem tree_blocks (sp nb ob : List Nat) (d : Nat) (G : List Nat → Arr Int) (S : List Nat)
    (h : okOb sp nb ob) (hd : depthOK sp nb d)
    (hG : ∀ kb, InB kb (pick (maskOf sp) nb) → (G (merge (maskOf sp) ob kb)).shape = S) :
    (tree addBlocks sp d nb G (merge (maskOf sp) ob (zerosOf (maskOf sp)))).shape = S ∧
    ∀ i, (tree addBlocks sp d nb G (merge (maskOf sp) ob (zerosOf (maskOf sp)))).get i
      = lsum (allIdx (pick (maskOf sp) nb)) (fun kb => (G (merge (maskOf sp) ob kb)).get i) := by
  have hl := okOb_length sp nb ob h
  have hok : ∀ r nb', okOb sp nb' ob → okOb sp (nbAfter sp r nb') ob := by
    intro r
    induction r with
    | zero => intro nb' h'; exact h'
    | succ r ih => intro nb' h'; exact ih _ (okOb_after sp nb' ob h')
  have h1 : maskedOne sp (nbAfter sp d nb) := by
    rw [nbAfter_spec sp d nb hl]; exact maskedOne_after sp nb d hd
  refine ⟨?_, ?_⟩
  · apply tree_addBlocks_shape sp ob S d nb G h _ _ (memEach_merge_zeros sp _ ob (hok d nb h) h1)
    intro b hb
    obtain ⟨r1, r2⟩ := memEach_sels sp nb ob b h hb
    rw [r2]; exact hG _ r1
  · intro i
    rw [tree_addBlocks_get sp i d nb G, tree_sum sp nb ob d _ h hd]

end Dask.Contract
