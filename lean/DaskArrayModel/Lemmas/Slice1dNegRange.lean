/-
Negative-step half of the `_slice_1d` partition theorem: arithmetic of descending ranges.
-/
import DaskArrayModel.Model.SliceSpec
namespace Dask.Lemmas.Slice1dNeg
open Dask.Py Dask.Py.PySlice Dask.Slicing

/-! ### `pyMod` with a negative divisor -/

theorem pyMod_neg (x c : Int) (hc : c < 0) : pyMod x c = -((-x) % (-c)) := by
  unfold pyMod
  have h1 : ¬ c > 0 := by omega
  simp [h1, hc]

theorem pyMod_neg_bounds (x c : Int) (hc : c < 0) : c < pyMod x c ∧ pyMod x c ≤ 0 := by
  rw [pyMod_neg x c hc]
  have h1 := Int.emod_nonneg (-x) (b := -c) (by omega)
  have h2 := Int.emod_lt_of_pos (-x) (b := -c) (by omega)
  omega

theorem pyMod_add_self (x c : Int) (hc : c < 0) : pyMod (x + c) c = pyMod x c := by
  rw [pyMod_neg _ c hc, pyMod_neg _ c hc]
  have : -(x + c) = -x + -c := by omega
  rw [this, Int.add_emod_right]

theorem pyMod_small (x c : Int) (hc : c < 0) (h1 : c < x) (h2 : x ≤ 0) : pyMod x c = x := by
  rw [pyMod_neg _ c hc, Int.emod_eq_of_lt (by omega) (by omega)]
  omega

/-! ### descending `rangeList` -/

theorem rangeLen_neg (r E c : Int) (hc : c < 0) :
    rangeLen r E c = if E < r then ((r - E - 1) / (-c) + 1).toNat else 0 := by
  unfold rangeLen
  have h1 : ¬ c > 0 := by omega
  simp [h1, hc]

theorem rangeList_neg_nil (r E c : Int) (hc : c < 0) (h : r ≤ E) : rangeList r E c = [] := by
  unfold rangeList
  rw [rangeLen_neg r E c hc]
  have : ¬ E < r := by omega
  simp [this]

theorem rangeLen_neg_succ (r E c : Int) (hc : c < 0) (h : E < r) :
    rangeLen r E c = rangeLen (r + c) E c + 1 := by
  rw [rangeLen_neg r E c hc, rangeLen_neg (r + c) E c hc]
  simp only [h, if_true]
  have hk : 0 < -c := by omega
  by_cases h2 : E < r + c
  · simp only [h2, if_true]
    have e : r - E - 1 = (r + c - E - 1) + 1 * (-c) := by omega
    rw [e, Int.add_mul_ediv_right _ _ (by omega)]
    have := Int.ediv_nonneg (a := r + c - E - 1) (b := -c) (by omega) (by omega)
    omega
  · simp only [h2, if_false]
    rw [Int.ediv_eq_zero_of_lt (by omega) (by omega)]
    rfl

theorem rangeList_neg_cons (r E c : Int) (hc : c < 0) (h : E < r) :
    rangeList r E c = r :: rangeList (r + c) E c := by
  unfold rangeList
  rw [rangeLen_neg_succ r E c hc h, List.range_succ_eq_map]
  simp only [List.map_cons, List.map_map]
  congr 1
  · simp
  · apply List.map_congr_left
    intro i _
    simp only [Function.comp, Nat.succ_eq_add_one, Int.natCast_add, Int.add_mul]
    omega

theorem rangeList_neg_length (r E c : Int) : (rangeList r E c).length = rangeLen r E c := by
  simp [rangeList]

theorem rangeList_shift (x y c a : Int) :
    (rangeList x y c).map (· + a) = rangeList (x + a) (y + a) c := by
  unfold rangeList
  have hl : rangeLen (x + a) (y + a) c = rangeLen x y c := by
    unfold rangeLen
    have e1 : y + a - (x + a) - 1 = y - x - 1 := by omega
    have e2 : x + a - (y + a) - 1 = x - y - 1 := by omega
    have e3 : (x + a < y + a) = (x < y) := by simp
    have e4 : (y + a < x + a) = (y < x) := by simp
    simp only [e1, e2, e3, e4]
  rw [hl, List.map_map]
  apply List.map_congr_left
  intro i _
  simp only [Function.comp]
  omega

/-- ceil identity used by `new_blockdim`. -/
theorem ceilDiv_neg (y c : Int) (hc : c < 0) :
    ceilDiv (-y) c = (y - 1) / (-c) + 1 := by
  unfold ceilDiv pyDiv
  have h1 : ¬ c > 0 := by omega
  simp only [h1, hc, if_true, if_false]
  have hk : 0 < -c := by omega
  have e := Int.ediv_mul_add_emod (y - 1) (-c)
  have h2 := Int.emod_nonneg (y - 1) (b := -c) (by omega)
  have h3 := Int.emod_lt_of_pos (y - 1) (b := -c) hk
  have e2 : - - -y = (-c - 1 - (y - 1) % (-c)) + (-((y - 1) / (-c) + 1)) * (-c) := by
    rw [Int.neg_mul, Int.add_mul]
    omega
  rw [e2, Int.add_mul_ediv_right _ _ (by omega), Int.ediv_eq_zero_of_lt (by omega) (by omega)]
  omega

theorem rangeLen_eq_ceilDiv (r m c : Int) (hc : c < 0) (h : m < r) :
    (rangeLen r m c : Int) = ceilDiv (m - r) c := by
  have e : m - r = -(r - m) := by omega
  rw [e, ceilDiv_neg (r - m) c hc, rangeLen_neg r m c hc]
  simp only [h, if_true]
  have := Int.ediv_nonneg (a := r - m - 1) (b := -c) (by omega) (by omega)
  omega

/-- Splitting a descending range at the lower edge `a` of a block: the part above `a - 1`
(and above `E`), then the rest, restarting from the Python "next running start". -/
theorem rangeList_split_aux (a E c : Int) (hc : c < 0) (j : Nat) :
    ∀ r, a + c ≤ r → r - (a - 1) ≤ j →
      rangeList r E c = rangeList r (max (a - 1) E) c
        ++ rangeList (a + pyMod (r - (a - 1)) c - 1) E c := by
  induction j with
  | zero =>
    intro r h1 h2
    rw [rangeList_neg_nil r (max (a - 1) E) c hc (by omega), pyMod_small _ c hc (by omega) (by omega)]
    simp
    congr 1; omega
  | succ j ih =>
    intro r h1 h2
    by_cases h3 : r ≤ a - 1
    · rw [rangeList_neg_nil r (max (a - 1) E) c hc (by omega), pyMod_small _ c hc (by omega) (by omega)]
      simp
      congr 1; omega
    · have hb := pyMod_neg_bounds (r - (a - 1)) c hc
      by_cases h4 : r ≤ E
      · rw [rangeList_neg_nil r E c hc h4, rangeList_neg_nil r (max (a - 1) E) c hc (by omega),
          rangeList_neg_nil _ E c hc (by omega)]
        rfl
      · rw [rangeList_neg_cons r E c hc (by omega), rangeList_neg_cons r (max (a - 1) E) c hc (by omega),
          ih (r + c) (by omega) (by omega)]
        have e : r + c - (a - 1) = r - (a - 1) + c := by omega
        rw [e, pyMod_add_self _ c hc]
        rfl

theorem rangeList_split (a E c r : Int) (hc : c < 0) (h : a ≤ r) :
    rangeList r E c = rangeList r (max (a - 1) E) c
      ++ rangeList (a + pyMod (r - (a - 1)) c - 1) E c :=
  rangeList_split_aux a E c hc (r - (a - 1)).toNat r (by omega) (by omega)

end Dask.Lemmas.Slice1dNeg
