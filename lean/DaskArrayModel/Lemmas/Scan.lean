/-
Proofs for the cumulative-scan models (Model/Scan.lean): the sequential `extra` chain and
the Blelloch up-sweep and down-sweep give every block the fold of all earlier elements, for EVERY
block count; hence the assembled blocks are the global inclusive scan.  Core Lean only.
-/
import DaskArrayModel.Model.ScanSpec
namespace Dask.Lemmas.Scan
open Dask.Scan

variable {β : Type}

/-! ### folds -/

theorem foldl_assoc {op : β → β → β} (hop : Assoc op) (a y : β) (ys : List β) :
    op a (ys.foldl op y) = ys.foldl op (op a y) := by
  induction ys generalizing y with
  | nil => rfl
  | cons z zs ih => simp only [List.foldl_cons]; rw [ih, hop]

theorem oop_none_right (op : β → β → β) (x : Option β) : oop op x none = x := by
  cases x <;> rfl

theorem oop_none_left (op : β → β → β) (x : Option β) : oop op none x = x := rfl

theorem oop_assoc {op : β → β → β} (hop : Assoc op) (x y z : Option β) :
    oop op (oop op x y) z = oop op x (oop op y z) := by
  cases x <;> cases y <;> cases z <;> simp [oop, hop _ _ _]

theorem ofold_append {op : β → β → β} (hop : Assoc op) (xs ys : List β) :
    ofold op (xs ++ ys) = oop op (ofold op xs) (ofold op ys) := by
  cases xs with
  | nil => rfl
  | cons x xs =>
    cases ys with
    | nil => simp [ofold, oop]
    | cons y ys =>
      simp only [List.cons_append, ofold, oop, List.foldl_append, List.foldl_cons]
      rw [foldl_assoc hop]

theorem ofold_cons {op : β → β → β} (hop : Assoc op) (x : β) (xs : List β) :
    ofold op (x :: xs) = oop op (some x) (ofold op xs) := by
  have := ofold_append hop [x] xs
  simpa [ofold] using this

/-! ### scans -/

theorem scanFrom_append (op : β → β → β) (a : β) (xs ys : List β) :
    scanFrom op a (xs ++ ys) = scanFrom op a xs ++ scanFrom op (xs.foldl op a) ys := by
  induction xs generalizing a with
  | nil => rfl
  | cons x xs ih => simp [scanFrom, ih]

theorem scanFrom_map {op : β → β → β} (hop : Assoc op) (a y : β) (ys : List β) :
    scanFrom op (op a y) ys = (scanFrom op y ys).map (op a) := by
  induction ys generalizing y with
  | nil => rfl
  | cons z zs ih => simp only [scanFrom, List.map_cons]; rw [hop a y z, ih]

theorem scanFrom_eq_map {op : β → β → β} (hop : Assoc op) (a : β) (b : List β) :
    scanFrom op a b = (scanl1 op b).map (op a) := by
  cases b with
  | nil => rfl
  | cons y ys => simp [scanFrom, scanl1, scanFrom_map hop]

theorem scanFrom_length (op : β → β → β) (a : β) (b : List β) : (scanFrom op a b).length = b.length := by
  induction b generalizing a with
  | nil => rfl
  | cons y ys ih => simp [scanFrom, ih]

theorem scanl1_length (op : β → β → β) (b : List β) : (scanl1 op b).length = b.length := by
  cases b <;> simp [scanl1, scanFrom_length]

theorem getLast?_scan (op : β → β → β) (y : β) (ys : List β) :
    (y :: scanFrom op y ys).getLast? = some (ys.foldl op y) := by
  induction ys generalizing y with
  | nil => rfl
  | cons z zs ih => simp only [scanFrom, List.foldl_cons]; rw [List.getLast?_cons_cons]; exact ih _

/-- scan seeded with an optional accumulator -/
def scanO (op : β → β → β) : Option β → List β → List β
  | none, l => scanl1 op l
  | some a, l => scanFrom op a l

theorem scanO_append {op : β → β → β} (hop : Assoc op) (acc : Option β) (xs ys : List β) :
    scanO op acc (xs ++ ys) = scanO op acc xs ++ scanO op (oop op acc (ofold op xs)) ys := by
  cases xs with
  | nil => simp [scanO, ofold, oop_none_right]; cases acc <;> rfl
  | cons x xs =>
    cases acc with
    | none => simp [scanO, scanl1, ofold, oop, scanFrom_append]
    | some a =>
      simp only [scanO, ofold, oop, scanFrom_append, List.foldl_cons]
      rw [foldl_assoc hop]

/-- the specification in block form: block `i` is the scan of its elements seeded with the
fold of everything before it. -/
def specBlocks (op : β → β → β) : Option β → List (List β) → List (List β)
  | _, [] => []
  | acc, b :: bs => scanO op acc b :: specBlocks op (oop op acc (ofold op b)) bs

theorem specBlocks_flatten {op : β → β → β} (hop : Assoc op) (acc : Option β) (bs : List (List β)) :
    (specBlocks op acc bs).flatten = scanO op acc bs.flatten := by
  induction bs generalizing acc with
  | nil => cases acc <;> rfl
  | cons b bs ih => simp [specBlocks, ih, scanO_append hop]

theorem specBlocks_lengths (op : β → β → β) (acc : Option β) (bs : List (List β)) :
    (specBlocks op acc bs).map List.length = bs.map List.length := by
  induction bs generalizing acc with
  | nil => rfl
  | cons b bs ih =>
    simp only [specBlocks, List.map_cons, ih]
    cases acc <;> simp [scanO, scanl1_length, scanFrom_length]

/-! ### sequential -/

theorem seqLoop_spec {op : β → β → β} (hop : Assoc op) (ident : β) (rest : List (List β))
    (hne : ∀ b ∈ rest, b ≠ []) (extra : β) (prev : List β) (A : β)
    (hA : op extra (cumTail ident prev) = A) :
    (seqLoop op ident extra prev (rest.map (scanl1 op))).map Prod.snd = specBlocks op (some A) rest := by
  induction rest generalizing extra prev A with
  | nil => rfl
  | cons b rest ih =>
    simp only [List.map_cons, seqLoop, specBlocks, hA, scanO]
    have hb : b ≠ [] := hne b (by simp)
    have hrest : ∀ b ∈ rest, b ≠ [] := fun b' h => hne b' (by simp [h])
    rw [← scanFrom_eq_map hop]
    congr 1
    cases b with
    | nil => exact absurd rfl hb
    | cons y ys =>
      simp only [ofold, oop]
      apply ih hrest
      simp [cumTail, scanl1, getLast?_scan]

theorem seqBlocks_eq_spec {op : β → β → β} (hop : Assoc op) (ident : β)
    (hid : ∀ x, op ident x = x) (bs : List (List β)) (hne : ∀ b ∈ bs, b ≠ []) :
    seqBlocks op ident bs = specBlocks op none bs := by
  cases bs with
  | nil => rfl
  | cons b0 rest =>
    simp only [seqBlocks, List.map_cons, specBlocks, scanO, oop_none_left]
    have hb : b0 ≠ [] := hne b0 (by simp)
    have hrest : ∀ b ∈ rest, b ≠ [] := fun b' h => hne b' (by simp [h])
    congr 1
    cases b0 with
    | nil => exact absurd rfl hb
    | cons y ys =>
      rw [seqLoop_spec hop ident rest hrest ident (scanl1 op (y :: ys)) (ys.foldl op y)]
      · rfl
      · simp [cumTail, scanl1, getLast?_scan, hid]

theorem seqScan_correct {op : β → β → β} (hop : Assoc op) (ident : β)
    (hid : ∀ x, op ident x = x) (bs : List (List β)) (hne : ∀ b ∈ bs, b ≠ []) :
    (seqBlocks op ident bs).flatten = scanl1 op bs.flatten := by
  rw [seqBlocks_eq_spec hop ident hid bs hne, specBlocks_flatten hop]; rfl

theorem seqBlocks_lengths {op : β → β → β} (hop : Assoc op) (ident : β)
    (hid : ∀ x, op ident x = x) (bs : List (List β)) (hne : ∀ b ∈ bs, b ≠ []) :
    (seqBlocks op ident bs).map List.length = bs.map List.length := by
  rw [seqBlocks_eq_spec hop ident hid bs hne, specBlocks_lengths]

/-! ### `rangeStep` -/

theorem mem_rangeStep {a m d i : Nat} (hd : 0 < d) :
    i ∈ rangeStep a m d ↔ ∃ k, i = a + k * d ∧ i < m := by
  unfold rangeStep
  simp only [List.mem_map, List.mem_range]
  constructor
  · rintro ⟨k, hk, rfl⟩
    refine ⟨k, rfl, ?_⟩
    have h1 : (k + 1) * d ≤ m - a + d - 1 := (Nat.le_div_iff_mul_le hd).mp hk
    rw [Nat.add_mul] at h1
    omega
  · rintro ⟨k, rfl, hlt⟩
    refine ⟨k, ?_, rfl⟩
    apply (Nat.le_div_iff_mul_le hd).mpr
    rw [Nat.succ_mul]
    omega

theorem nodup_rangeStep {a m d : Nat} (hd : 0 < d) : (rangeStep a m d).Nodup := by
  unfold rangeStep
  rw [List.nodup_iff_pairwise_ne]
  refine List.Pairwise.map _ ?_ List.pairwise_lt_range
  intro x y hxy h
  have h2 : x * d < y * d := Nat.mul_lt_mul_of_pos_right hxy hd
  omega

/-! ### one level of combine steps acts in parallel -/

theorem applyStep_length (op : β → β → β) (pv : List β) (s : Step) :
    (applyStep op pv s).length = pv.length := by
  unfold applyStep; split <;> simp

theorem runSteps_length (op : β → β → β) (pv : List β) (steps : List Step) :
    (runSteps op pv steps).length = pv.length := by
  unfold runSteps
  induction steps generalizing pv with
  | nil => rfl
  | cons s ss ih => simp only [List.foldl_cons]; rw [ih, applyStep_length]

theorem getElem?_applyStep (op : β → β → β) (pv : List β) (i s : Nat) (hi : i < pv.length) (j : Nat) :
    (applyStep op pv ⟨i, s⟩)[j]? = if j = i then oop op pv[i - s]? pv[i]? else pv[j]? := by
  have h1 : pv[i]? = some pv[i] := List.getElem?_eq_getElem hi
  have h2 : pv[i - s]? = some (pv[i - s]'(by omega)) := List.getElem?_eq_getElem (by omega)
  unfold applyStep
  simp only [h1, h2, oop, List.getElem?_set]
  by_cases hji : j = i
  · subst hji; simp [hi]
  · have : ¬ i = j := fun h => hji h.symm
    simp [hji, this]

theorem runLevel (op : β → β → β) (s : Nat) (is : List Nat) (pv : List β)
    (hnd : is.Nodup) (hlt : ∀ i ∈ is, i < pv.length) (hs : ∀ i ∈ is, i - s ∉ is) (j : Nat) :
    (runSteps op pv (is.map (fun i => (⟨i, s⟩ : Step))))[j]?
      = if j ∈ is then oop op pv[j - s]? pv[j]? else pv[j]? := by
  induction is generalizing pv with
  | nil => simp [runSteps]
  | cons i is ih =>
    have hi : i < pv.length := hlt i (by simp)
    have hnd' := List.nodup_cons.mp hnd
    simp only [List.map_cons, runSteps, List.foldl_cons]
    have := ih (applyStep op pv ⟨i, s⟩) hnd'.2
      (fun k hk => by rw [applyStep_length]; exact hlt k (by simp [hk]))
      (fun k hk h => hs k (by simp [hk]) (by simp [h]))
    simp only [runSteps] at this
    rw [this]
    by_cases hj : j ∈ is
    · have hji : j ≠ i := fun h => hnd'.1 (h ▸ hj)
      have hjs : j - s ≠ i := fun h => hs j (by simp [hj]) (by simp [h])
      simp [hj, getElem?_applyStep op pv i s hi, hji, hjs]
    · simp only [hj, if_false, getElem?_applyStep op pv i s hi, List.mem_cons, or_false]
      by_cases hji : j = i
      · subst hji; simp
      · simp [hji]

/-! ### segments of the totals -/

/-- fold of `t[a:b]` -/
def seg (op : β → β → β) (t : List β) (a b : Nat) : Option β := ofold op ((t.drop a).take (b - a))

theorem seg_append {op : β → β → β} (hop : Assoc op) (t : List β) {a b c : Nat} (hab : a ≤ b) (hbc : b ≤ c) :
    oop op (seg op t a b) (seg op t b c) = seg op t a c := by
  unfold seg
  rw [← ofold_append hop]
  congr 1
  have h1 : c - a = (b - a) + (c - b) := by omega
  have h2 : a + (b - a) = b := by omega
  rw [h1, List.take_add, List.drop_drop, h2]

theorem seg_zero (op : β → β → β) (t : List β) (k : Nat) : seg op t 0 k = ofold op (t.take k) := by
  simp [seg]

theorem seg_single (op : β → β → β) (t : List β) (j : Nat) (hj : j < t.length) :
    seg op t j (j + 1) = t[j]? := by
  unfold seg
  have : j + 1 - j = 1 := by omega
  rw [this, List.drop_eq_getElem_cons hj, List.getElem?_eq_getElem hj]
  rfl

/-! ### cover lengths -/

/-- length of the segment ending at position `k` held by `prefix_vals[k-1]` after the
up-sweep levels `< l` (largest `2^j ∣ k` with `j ≤ l`). -/
def lenUp : Nat → Nat → Nat
  | 0, _ => 1
  | l + 1, k => if 2 ^ (l + 1) ∣ k then 2 ^ (l + 1) else lenUp l k

theorem lenUp_of_dvd (l k : Nat) (h : 2 ^ l ∣ k) : lenUp l k = 2 ^ l := by
  cases l with
  | zero => rfl
  | succ l => simp [lenUp, h]

theorem lenUp_exact {j L k : Nat} (hj : j ≤ L) (h1 : 2 ^ j ∣ k) (h2 : ¬ 2 ^ (j + 1) ∣ k) :
    lenUp L k = 2 ^ j := by
  induction L with
  | zero => have : j = 0 := by omega
            subst this; rfl
  | succ L ih =>
    by_cases hjl : j = L + 1
    · subst hjl; simp [lenUp, h1]
    · have : ¬ 2 ^ (L + 1) ∣ k := fun h => h2 (Nat.dvd_trans (Nat.pow_dvd_pow 2 (by omega)) h)
      simp only [lenUp, this, if_false]
      exact ih (by omega)

theorem lenUp_pow {e L : Nat} (he : e ≤ L) : lenUp L (2 ^ e) = 2 ^ e := by
  apply lenUp_exact he (Nat.dvd_refl _)
  intro h
  have := Nat.le_of_dvd (Nat.pow_pos (by omega)) h
  have h3 : 2 ^ e < 2 ^ (e + 1) := (Nat.pow_lt_pow_iff_right (by omega)).mpr (by omega)
  omega

def Cover (op : β → β → β) (t pv : List β) (len : Nat → Nat) : Prop :=
  pv.length = t.length ∧ ∀ j, j < t.length → pv[j]? = seg op t (j + 1 - len (j + 1)) (j + 1)

theorem cover_init (op : β → β → β) (t : List β) : Cover op t t (lenUp 0) := by
  refine ⟨rfl, fun j hj => ?_⟩
  simp only [lenUp]
  have : j + 1 - 1 = j := by omega
  rw [this, seg_single op t j hj]

theorem mem_upLevel {d m i : Nat} (hd : 0 < d) : i ∈ rangeStep (d - 1) m d ↔ i < m ∧ d ∣ i + 1 := by
  rw [mem_rangeStep hd]
  constructor
  · rintro ⟨k, hk, hlt⟩
    refine ⟨hlt, ⟨k + 1, ?_⟩⟩
    rw [Nat.mul_succ, Nat.mul_comm d k]; omega
  · rintro ⟨hlt, ⟨q, hq⟩⟩
    cases q with
    | zero => simp at hq
    | succ q =>
      refine ⟨q, ?_, hlt⟩
      rw [Nat.mul_succ, Nat.mul_comm d q] at hq; omega

theorem two_pow_succ (l : Nat) : 2 ^ (l + 1) = 2 * 2 ^ l := by rw [Nat.pow_succ, Nat.mul_comm]

theorem up_level {op : β → β → β} (hop : Assoc op) (t pv : List β) (l : Nat)
    (h : Cover op t pv (lenUp l)) :
    Cover op t (runSteps op pv (levelSteps (2 ^ (l + 1) - 1) (2 ^ l) (2 ^ (l + 1)) t.length))
      (lenUp (l + 1)) := by
  have hs : 0 < 2 ^ l := Nat.pow_pos (by omega)
  have hd2 : 2 ^ (l + 1) = 2 * 2 ^ l := two_pow_succ l
  have hd : 0 < 2 ^ (l + 1) := by omega
  have hsd : 2 ^ l ∣ 2 ^ (l + 1) := ⟨2, by omega⟩
  refine ⟨by rw [runSteps_length]; exact h.1, fun j hj => ?_⟩
  unfold levelSteps
  rw [runLevel op (2 ^ l) _ pv (nodup_rangeStep hd)
      (fun i hi => by rw [h.1]; exact ((mem_upLevel hd).mp hi).1)
      (fun i hi hi' => by
        have h1 := ((mem_upLevel hd).mp hi).2
        have h2 := ((mem_upLevel hd).mp hi').2
        have h3 := Nat.le_of_dvd (by omega) h1
        have h4 : 2 ^ (l + 1) ∣ (i + 1) - (i - 2 ^ l + 1) := Nat.dvd_sub h1 h2
        have h5 : (i + 1) - (i - 2 ^ l + 1) = 2 ^ l := by omega
        rw [h5] at h4
        have := Nat.le_of_dvd hs h4
        omega)]
  by_cases hmem : j ∈ rangeStep (2 ^ (l + 1) - 1) t.length (2 ^ (l + 1))
  · have hdv := ((mem_upLevel hd).mp hmem).2
    have hge := Nat.le_of_dvd (by omega) hdv
    have hsj : 2 ^ l ∣ j + 1 := Nat.dvd_trans hsd hdv
    have hsj' : 2 ^ l ∣ j - 2 ^ l + 1 := by
      have : j - 2 ^ l + 1 = (j + 1) - 2 ^ l := by omega
      rw [this]; exact Nat.dvd_sub hsj (Nat.dvd_refl _)
    rw [if_pos hmem, h.2 (j - 2 ^ l) (by omega), h.2 j hj, lenUp_of_dvd l _ hsj, lenUp_of_dvd l _ hsj',
      lenUp_of_dvd (l + 1) _ hdv]
    have e1 : j - 2 ^ l + 1 = j + 1 - 2 ^ l := by omega
    have e2 : j + 1 - 2 ^ l - 2 ^ l = j + 1 - 2 ^ (l + 1) := by omega
    rw [e1, seg_append hop t (by omega) (by omega), e2]
  · have hdv : ¬ 2 ^ (l + 1) ∣ j + 1 := fun hh => hmem ((mem_upLevel hd).mpr ⟨hj, hh⟩)
    rw [if_neg hmem, h.2 j hj]
    simp only [lenUp, hdv, if_false]

theorem runSteps_append (op : β → β → β) (pv : List β) (s1 s2 : List Step) :
    runSteps op pv (s1 ++ s2) = runSteps op (runSteps op pv s1) s2 := by
  simp [runSteps, List.foldl_append]

theorem up_all {op : β → β → β} (hop : Assoc op) (t : List β) (fuel : Nat) :
    ∀ (l : Nat) (pv : List β), t.length ≤ fuel + l → Cover op t pv (lenUp l) →
      ∃ L, t.length < 2 ^ (L + 1) ∧
        Cover op t (runSteps op pv (upSteps fuel (2 ^ l) (2 ^ (l + 1)) t.length)) (lenUp L) := by
  induction fuel with
  | zero =>
    intro l pv hl h
    refine ⟨l, ?_, by simpa [upSteps, runSteps] using h⟩
    have h1 : l < 2 ^ l := Nat.lt_pow_self (by omega)
    have h2 := two_pow_succ l
    omega
  | succ fuel ih =>
    intro l pv hl h
    by_cases hle : 2 ^ (l + 1) ≤ t.length
    · simp only [upSteps, hle, if_true, runSteps_append]
      have := ih (l + 1) _ (by omega) (up_level hop t pv l h)
      rw [Nat.pow_succ 2 (l + 1)] at this
      exact this
    · refine ⟨l, by omega, ?_⟩
      simpa [upSteps, hle, runSteps] using h


/-! ### down-sweep -/

/-- cover length before the down-sweep level with `stride2 = d`: positions divisible by `d`
already hold the full prefix. -/
def dlen (d L k : Nat) : Nat := if d ∣ k then k else lenUp L k

theorem mem_downLevel {s m i : Nat} (hs : 0 < s) :
    i ∈ rangeStep (2 * s + s - 1) m (2 * s) ↔ i < m ∧ ∃ c, i + 1 = s * (2 * c + 3) := by
  rw [mem_rangeStep (by omega)]
  constructor
  · rintro ⟨k, hk, hlt⟩
    refine ⟨hlt, k, ?_⟩
    have : s * (2 * k + 3) = k * (2 * s) + 3 * s := by
      rw [Nat.mul_add, Nat.mul_comm s 3, Nat.mul_comm k (2 * s), Nat.mul_comm s (2 * k), Nat.mul_assoc, Nat.mul_assoc,
        Nat.mul_comm k s]
    omega
  · rintro ⟨hlt, c, hc⟩
    refine ⟨c, ?_, hlt⟩
    have : s * (2 * c + 3) = c * (2 * s) + 3 * s := by
      rw [Nat.mul_add, Nat.mul_comm s 3, Nat.mul_comm c (2 * s), Nat.mul_comm s (2 * c), Nat.mul_assoc, Nat.mul_assoc,
        Nat.mul_comm c s]
    omega

theorem down_level {op : β → β → β} (hop : Assoc op) (t pv : List β) (L j : Nat)
    (hL : t.length < 2 ^ (L + 1))
    (h : Cover op t pv (dlen (2 ^ (j + 1)) L)) :
    Cover op t (runSteps op pv (levelSteps (2 ^ (j + 1) + 2 ^ j - 1) (2 ^ j) (2 ^ (j + 1)) t.length))
      (dlen (2 ^ j) L) := by
  have hs : 0 < 2 ^ j := Nat.pow_pos (by omega)
  have hd2 : 2 ^ (j + 1) = 2 * 2 ^ j := two_pow_succ j
  generalize hsdef : 2 ^ j = s at *
  rw [hd2] at h ⊢
  -- facts about positions `k = s * (2c+3)`
  have key : ∀ k c, k = s * (2 * c + 3) → k ≤ t.length →
      (2 * s ∣ k - s) ∧ ¬ (2 * s ∣ k) ∧ s ∣ k ∧ 3 * s ≤ k ∧ lenUp L k = s := by
    intro k c hk hkm
    have e1 : s * (2 * c + 3) = 2 * s * (c + 1) + s := by
      rw [Nat.mul_add, Nat.mul_add, Nat.mul_one, Nat.mul_comm s (2 * c), Nat.mul_comm s 3, Nat.mul_assoc,
        Nat.mul_assoc, Nat.mul_comm c s]
      omega
    have hdk : 2 * s ∣ k - s := ⟨c + 1, by omega⟩
    have hnd : ¬ (2 * s ∣ k) := by
      intro hh
      have h4 : 2 * s ∣ k - (k - s) := Nat.dvd_sub hh hdk
      have h5 : k - (k - s) = s := by
        have : s ≤ k := by rw [hk, e1]; omega
        omega
      rw [h5] at h4
      have := Nat.le_of_dvd hs h4
      omega
    have hsk : s ∣ k := ⟨2 * c + 3, hk⟩
    have h3 : 3 * s ≤ k := by
      rw [hk, e1]
      have : 2 * s * 1 ≤ 2 * s * (c + 1) := Nat.mul_le_mul_left _ (by omega)
      omega
    refine ⟨hdk, hnd, hsk, h3, ?_⟩
    have hjL : j ≤ L := by
      have : 2 ^ j < 2 ^ (L + 1) := by rw [hsdef]; omega
      have := (Nat.pow_lt_pow_iff_right (by omega)).mp this
      omega
    have := lenUp_exact (k := k) hjL (by rw [hsdef]; exact hsk) (by rw [hd2]; exact hnd)
    rw [this, hsdef]
  refine ⟨by rw [runSteps_length]; exact h.1, fun i hi => ?_⟩
  unfold levelSteps
  rw [runLevel op s _ pv (nodup_rangeStep (by omega))
      (fun i hi => by rw [h.1]; exact ((mem_downLevel hs).mp hi).1)
      (fun i hi hi' => by
        obtain ⟨h1, c, hc⟩ := (mem_downLevel hs).mp hi
        obtain ⟨h1', c', hc'⟩ := (mem_downLevel hs).mp hi'
        have k1 := key (i + 1) c hc (by omega)
        have k2 := key (i - s + 1) c' hc' (by omega)
        have : i - s + 1 = i + 1 - s := by omega
        rw [this] at k2
        exact k2.2.1 k1.1)]
  by_cases hmem : i ∈ rangeStep (2 * s + s - 1) t.length (2 * s)
  · obtain ⟨_, c, hc⟩ := (mem_downLevel hs).mp hmem
    obtain ⟨k1, k2, k3, k4, k5⟩ := key (i + 1) c hc (by omega)
    have e1 : i - s + 1 = i + 1 - s := by omega
    rw [if_pos hmem, h.2 (i - s) (by omega), h.2 i hi, e1]
    simp only [dlen, k1, k2, k3, if_true, if_false, k5, Nat.sub_self]
    exact seg_append hop t (by omega) (by omega)
  · rw [if_neg hmem, h.2 i hi]
    congr 2
    unfold dlen
    by_cases hd : 2 * s ∣ i + 1
    · have : s ∣ i + 1 := Nat.dvd_trans ⟨2, Nat.mul_comm 2 s⟩ hd
      simp [hd, this]
    · by_cases hsk : s ∣ i + 1
      · simp only [hd, hsk, if_true, if_false]
        obtain ⟨q, hq⟩ := hsk
        rcases Nat.mod_two_eq_zero_or_one q with hq2 | hq2
        · exfalso; apply hd
          refine ⟨q / 2, ?_⟩
          have : q = 2 * (q / 2) := by omega
          rw [hq, Nat.mul_assoc, Nat.mul_left_comm, ← this]
        · have hq3 : q = 2 * (q / 2) + 1 := by omega
          rcases Nat.eq_zero_or_pos (q / 2) with hz | hp
          · have : q = 1 := by omega
            rw [this, Nat.mul_one] at hq
            have hjL : j ≤ L := by
              have : 2 ^ j < 2 ^ (L + 1) := by rw [hsdef]; omega
              have := (Nat.pow_lt_pow_iff_right (by omega)).mp this
              omega
            rw [hq, ← hsdef, lenUp_pow hjL]
          · exfalso; apply hmem
            refine (mem_downLevel hs).mpr ⟨hi, q / 2 - 1, ?_⟩
            have : 2 * (q / 2 - 1) + 3 = q := by omega
            rw [this, hq]
      · simp [hd, hsk]


theorem down_all {op : β → β → β} (hop : Assoc op) (t : List β) (L : Nat) (hL : t.length < 2 ^ (L + 1))
    (j : Nat) : ∀ (fuel : Nat) (pv : List β), j + 1 ≤ fuel → Cover op t pv (dlen (2 ^ (j + 1)) L) →
      Cover op t (runSteps op pv (downSteps fuel (2 ^ j) (2 ^ (j + 1)) t.length)) (dlen 1 L) := by
  induction j with
  | zero =>
    intro fuel pv hf h
    obtain ⟨f, rfl⟩ : ∃ f, fuel = f + 1 := ⟨fuel - 1, by omega⟩
    have h0 : downSteps f (2 ^ 0 / 2) (2 ^ 0) t.length = [] := by
      cases f <;> simp [downSteps]
    simp only [downSteps, h0, List.append_nil]
    have := down_level hop t pv L 0 hL h
    simpa using this
  | succ j ih =>
    intro fuel pv hf h
    obtain ⟨f, rfl⟩ : ∃ f, fuel = f + 1 := ⟨fuel - 1, by omega⟩
    have hpos : 2 ^ (j + 1) > 0 := Nat.pow_pos (by omega)
    have hhalf : 2 ^ (j + 1) / 2 = 2 ^ j := by rw [two_pow_succ]; omega
    simp only [downSteps, hpos, if_true, runSteps_append, hhalf]
    exact ih f _ (by omega) (down_level hop t pv L (j + 1) hL h)

/-! ### `clog2`, `downStart` -/

theorem clog2From_spec (fuel : Nat) : ∀ e x, x ≤ fuel + e → x ≤ 2 ^ clog2From fuel e x := by
  induction fuel with
  | zero =>
    intro e x h
    have : e < 2 ^ e := Nat.lt_pow_self (by omega)
    simp only [clog2From]; omega
  | succ fuel ih =>
    intro e x h
    simp only [clog2From]
    split
    · assumption
    · exact ih (e + 1) x (by omega)

theorem clog2_spec (x : Nat) : x ≤ 2 ^ clog2 x := clog2From_spec x 0 x (by omega)

theorem downStart_spec (m : Nat) : ∃ J, downStart m = 2 ^ (J + 1) ∧ m / 2 ≤ downStart m := by
  unfold downStart
  have h := clog2_spec (m / 2)
  cases hc : clog2 (m / 2) with
  | zero => rw [hc] at h; exact ⟨0, by simp, by simp at h; omega⟩
  | succ c =>
    rw [hc] at h
    have : 2 ≤ 2 ^ (c + 1) := by
      have := two_pow_succ c
      have : 0 < 2 ^ c := Nat.pow_pos (by omega)
      omega
    exact ⟨c, by omega, by omega⟩

/-- after the up-sweep, every position divisible by the down-sweep's first `stride2` is a
power of two, so it already holds the full prefix. -/
theorem cover_down_init {op : β → β → β} (t pv : List β) (L J : Nat) (hL : t.length < 2 ^ (L + 1))
    (hJ : t.length / 2 ≤ 2 ^ (J + 1)) (h : Cover op t pv (lenUp L)) :
    Cover op t pv (dlen (2 ^ (J + 1)) L) := by
  refine ⟨h.1, fun i hi => ?_⟩
  rw [h.2 i hi]
  congr 2
  unfold dlen
  by_cases hd : 2 ^ (J + 1) ∣ i + 1
  · rw [if_pos hd]
    obtain ⟨q, hq⟩ := hd
    have hS : 2 ≤ 2 ^ (J + 1) := by
      have := two_pow_succ J
      have : 0 < 2 ^ J := Nat.pow_pos (by omega)
      omega
    have hq3 : q < 3 := by
      apply Classical.byContradiction
      intro hn
      have : 2 ^ (J + 1) * 3 ≤ 2 ^ (J + 1) * q := Nat.mul_le_mul_left _ (by omega)
      omega
    have hle : ∀ e, 2 ^ e ≤ t.length → e ≤ L := by
      intro e he
      have : 2 ^ e < 2 ^ (L + 1) := by omega
      have := (Nat.pow_lt_pow_iff_right (by omega)).mp this
      omega
    have : q = 0 ∨ q = 1 ∨ q = 2 := by omega
    rcases this with rfl | rfl | rfl
    · simp at hq
    · rw [Nat.mul_one] at hq
      rw [hq]; exact lenUp_pow (hle _ (by omega))
    · have : i + 1 = 2 ^ (J + 1 + 1) := by rw [Nat.pow_succ 2 (J + 1)]; exact hq
      rw [this]; exact lenUp_pow (hle _ (by omega))
  · rw [if_neg hd]

/-! ### the Blelloch prefix values -/

theorem blelloch_cover {op : β → β → β} (hop : Assoc op) (t : List β) :
    Cover op t (runSteps op t (blellochSteps t.length)) (fun k => k) := by
  unfold blellochSteps
  by_cases hm : t.length ≥ 2
  · simp only [hm, if_true, runSteps_append]
    obtain ⟨L, hL, hup⟩ := up_all hop t t.length 0 t (by omega) (cover_init op t)
    obtain ⟨J, hJ, hJ2⟩ := downStart_spec t.length
    have hhalf : 2 ^ (J + 1) / 2 = 2 ^ J := by rw [two_pow_succ]; omega
    have hfuel : J + 1 ≤ 2 ^ (J + 1) := by
      have : J + 1 < 2 ^ (J + 1) := Nat.lt_pow_self (by omega)
      omega
    rw [hJ, hhalf]
    have hup' : Cover op t (runSteps op t (upSteps t.length 1 2 t.length)) (lenUp L) := by simpa using hup
    have := down_all hop t L hL J (2 ^ (J + 1)) _ hfuel (cover_down_init t _ L J hL (by omega) hup')
    refine ⟨this.1, fun i hi => ?_⟩
    rw [this.2 i hi]
    simp [dlen]
  · simp only [hm, if_false, runSteps, List.foldl_nil]
    have := cover_init op t
    refine ⟨rfl, fun i hi => ?_⟩
    rw [this.2 i hi]
    have : i = 0 := by omega
    subst this
    simp [lenUp]

/-- `prefix_vals[i]` ends up as the fold of the totals of blocks `0..i`. -/
theorem blellochPrefix_spec {op : β → β → β} (hop : Assoc op) (totals : List β) :
    (blellochPrefix op totals).length = totals.length - 1 ∧
    ∀ i, i + 1 < totals.length → (blellochPrefix op totals)[i]? = ofold op (totals.take (i + 1)) := by
  have h := blelloch_cover hop totals.dropLast
  unfold blellochPrefix
  refine ⟨by rw [h.1, List.length_dropLast], fun i hi => ?_⟩
  rw [h.2 i (by rw [List.length_dropLast]; omega)]
  simp only [Nat.sub_self, seg_zero, List.dropLast_eq_take, List.take_take]
  congr 2
  omega

theorem blellochOffsets_correct {op : β → β → β} (hop : Assoc op) (totals : List β) :
    blellochOffsets op totals = (List.range totals.length).map (fun i => ofold op (totals.take i)) := by
  cases totals with
  | nil => rfl
  | cons x xs =>
    obtain ⟨hlen, hval⟩ := blellochPrefix_spec hop (x :: xs)
    apply List.ext_getElem?
    intro i
    simp only [blellochOffsets]
    cases i with
    | zero => simp [ofold]
    | succ i =>
      simp only [List.getElem?_cons_succ, List.getElem?_map]
      by_cases hi : i + 1 < (x :: xs).length
      · rw [hval i hi, List.getElem?_range hi]
        simp [ofold]
      · have h1 : (blellochPrefix op (x :: xs))[i]? = none := by
          apply List.getElem?_eq_none; rw [hlen]; omega
        have h2 : (List.range (x :: xs).length)[i + 1]? = none := by
          apply List.getElem?_eq_none; simp at hi ⊢; omega
        rw [h1, h2]; rfl


/-! ### assembled Blelloch result -/

theorem combineBlock_eq {op : β → β → β} (hop : Assoc op) (o : Option β) (b : List β) :
    combineBlock op o b = scanO op o b := by
  cases o with
  | none => rfl
  | some p => simp [combineBlock, scanO, scanFrom_eq_map hop]

theorem specBlocks_getElem? {op : β → β → β} (hop : Assoc op) (acc : Option β) (bs : List (List β)) (i : Nat) :
    (specBlocks op acc bs)[i]? = bs[i]?.map (scanO op (oop op acc (ofold op (bs.take i).flatten))) := by
  induction bs generalizing acc i with
  | nil => simp [specBlocks]
  | cons b bs ih =>
    cases i with
    | zero => simp [specBlocks, ofold, oop_none_right]
    | succ i => simp [specBlocks, ih, ofold_append hop, oop_assoc hop]

theorem ofold_totals {op : β → β → β} (hop : Assoc op) (pre : List β → β)
    (hpre : ∀ x xs, pre (x :: xs) = xs.foldl op x) (bs : List (List β)) (hne : ∀ b ∈ bs, b ≠ []) :
    ofold op (bs.map pre) = ofold op bs.flatten := by
  induction bs with
  | nil => rfl
  | cons b bs ih =>
    have hb : b ≠ [] := hne b (by simp)
    rw [List.map_cons, ofold_cons hop, List.flatten_cons, ofold_append hop, ih (fun b' h => hne b' (by simp [h]))]
    cases b with
    | nil => exact absurd rfl hb
    | cons x xs => simp [ofold, hpre]

theorem blellochBlocks_eq_spec {op : β → β → β} (hop : Assoc op) (pre : List β → β)
    (hpre : ∀ x xs, pre (x :: xs) = xs.foldl op x) (bs : List (List β)) (hne : ∀ b ∈ bs, b ≠ []) :
    blellochBlocks op pre bs = specBlocks op none bs := by
  unfold blellochBlocks
  rw [blellochOffsets_correct hop]
  apply List.ext_getElem?
  intro i
  rw [specBlocks_getElem? hop, List.getElem?_zipWith, List.getElem?_map, List.length_map]
  by_cases hi : i < bs.length
  · rw [List.getElem?_range hi, List.getElem?_eq_getElem hi]
    simp only [Option.map_some, oop_none_left, combineBlock_eq hop]
    rw [← List.map_take, ofold_totals hop pre hpre _ (fun b hb => hne b (List.mem_of_mem_take hb))]
  · have : bs[i]? = none := List.getElem?_eq_none (by omega)
    rw [this]
    cases (List.range bs.length)[i]? <;> rfl

theorem blellochScan_correct {op : β → β → β} (hop : Assoc op) (pre : List β → β)
    (hpre : ∀ x xs, pre (x :: xs) = xs.foldl op x) (bs : List (List β)) (hne : ∀ b ∈ bs, b ≠ []) :
    (blellochBlocks op pre bs).flatten = scanl1 op bs.flatten := by
  rw [blellochBlocks_eq_spec hop pre hpre bs hne, specBlocks_flatten hop]; rfl

theorem blellochBlocks_lengths {op : β → β → β} (hop : Assoc op) (pre : List β → β)
    (hpre : ∀ x xs, pre (x :: xs) = xs.foldl op x) (bs : List (List β)) (hne : ∀ b ∈ bs, b ≠ []) :
    (blellochBlocks op pre bs).map List.length = bs.map List.length := by
  rw [blellochBlocks_eq_spec hop pre hpre bs hne, specBlocks_lengths]

end Dask.Lemmas.Scan
