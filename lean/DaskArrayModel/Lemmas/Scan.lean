/-
Proofs for the cumulative-scan models (Model/Scan.lean): the sequential `extra` chain and
the Blelloch up-sweep and down-sweep give every block the fold of all earlier elements, for EVERY
block count; hence the assembled blocks are the global inclusive scan.  Core Lean only.
-/
import DaskArrayModel.Model.ScanSpec
namespace Dask.Lemmas.Scan
open Dask.Scan

variable {β : Type}

/-! ### folds -/

theorem foldl_assoc {op : β → β → β} (hop : Assoc op) (a y : β) (ys : List β) :
    op a (ys.foldl op y) = ys.foldl op (op a y) := by
  induction ys generalizing y with
  | nil => rfl
  | cons z zs ih => simp only [List.foldl_cons]; rw [ih, hop]

theorem oop_none_right (op : β → β → β) (x : Option β) : oop op x none = x := by
  cases x <;> rfl

theorem oop_none_left (op : β → β → β) (x : Option β) : oop op none x = x := rfl

theorem oop_assoc {op : β → β → β} (hop : Assoc op) (x y z : Option β) :
    oop op (oop op x y) z = oop op x (oop op y z) := by
  cases x <;> cases y <;> cases z <;> simp [oop, hop _ _ _]

theorem ofold_append {op : β → β → β} (hop : Assoc op) (xs ys : List β) :
    ofold op (xs ++ ys) = oop op (ofold op xs) (ofold op ys) := by
  cases xs with
  | nil => rfl
  | cons x xs =>
    cases ys with
    | nil => simp [ofold, oop]
    | cons y ys =>
      simp only [List.cons_append, ofold, oop, List.foldl_append, List.foldl_cons]
      rw [foldl_assoc hop]

theorem ofold_cons {op : β → β → β} (hop : Assoc op) (x : β) (xs : List β) :
    ofold op (x :: xs) = oop op (some x) (ofold op xs) := by
  have := ofold_append hop [x] xs
  simpa [ofold] using this

/-! ### scans -/

theorem scanFrom_append (op : β → β → β) (a : β) (xs ys : List β) :
    scanFrom op a (xs ++ ys) = scanFrom op a xs ++ scanFrom op (xs.foldl op a) ys := by
  induction xs generalizing a with
  | nil => rfl
  | cons x xs ih => simp [scanFrom, ih]

theorem scanFrom_map {op : β → β → β} (hop : Assoc op) (a y : β) (ys : List β) :
    scanFrom op (op a y) ys = (scanFrom op y ys).map (op a) := by
  induction ys generalizing y with
  | nil => rfl
  | cons z zs ih => simp only [scanFrom, List.map_cons]; rw [hop a y z, ih]

theorem scanFrom_eq_map {op : β → β → β} (hop : Assoc op) (a : β) (b : List β) :
    scanFrom op a b = (scanl1 op b).map (op a) := by
  cases b with
  | nil => rfl
  | cons y ys => simp [scanFrom, scanl1, scanFrom_map hop]

theorem scanFrom_length (op : β → β → β) (a : β) (b : List β) : (scanFrom op a b).length = b.length := by
  induction b generalizing a with
  | nil => rfl
  | cons y ys ih => simp [scanFrom, ih]

theorem scanl1_length (op : β → β → β) (b : List β) : (scanl1 op b).length = b.length := by
  cases b <;> simp [scanl1, scanFrom_length]

theorem getLast?_scan (op : β → β → β) (y : β) (ys : List β) :
    (y :: scanFrom op y ys).getLast? = some (ys.foldl op y) := by
  induction ys generalizing y with
  | nil => rfl
  | cons z zs ih => simp only [scanFrom, List.foldl_cons]; rw [List.getLast?_cons_cons]; exact ih _

/-- scan seeded with an optional accumulator -/
def scanO (op : β → β → β) : Option β → List β → List β
  | none, l => scanl1 op l
  | some a, l => scanFrom op a l

theorem scanO_append {op : β → β → β} (hop : Assoc op) (acc : Option β) (xs ys : List β) :
    scanO op acc (xs ++ ys) = scanO op acc xs ++ scanO op (oop op acc (ofold op xs)) ys := by
  cases xs with
  | nil => simp [scanO, ofold, oop_none_right]; cases acc <;> rfl
  | cons x xs =>
    cases acc with
    | none => simp [scanO, scanl1, ofold, oop, scanFrom_append]
    | some a =>
      simp only [scanO, ofold, oop, scanFrom_append, List.foldl_cons]
      rw [foldl_assoc hop]

/-- the specification in block form: block `i` is the scan of its elements seeded with the
fold of everything before it. -/
def specBlocks (op : β → β → β) : Option β → List (List β) → List (List β)
  | _, [] => []
  | acc, b :: bs => scanO op acc b :: specBlocks op (oop op acc (ofold op b)) bs

theorem specBlocks_flatten {op : β → β → β} (hop : Assoc op) (acc : Option β) (bs : List (List β)) :
    (specBlocks op acc bs).flatten = scanO op acc bs.flatten := by
  induction bs generalizing acc with
  | nil => cases acc <;> rfl
  | cons b bs ih => simp [specBlocks, ih, scanO_append hop]

theorem specBlocks_lengths (op : β → β → β) (acc : Option β) (bs : List (List β)) :
    (specBlocks op acc bs).map List.length = bs.map List.length := by
  induction bs generalizing acc with
  | nil => rfl
  | cons b bs ih =>
    simp only [specBlocks, List.map_cons, ih]
    cases acc <;> simp [scanO, scanl1_length, scanFrom_length]

/-! ### sequential -/

theorem seqLoop_spec {op : β → β → β} (hop : Assoc op) (ident : β) (rest : List (List β))
    (hne : ∀ b ∈ rest, b ≠ []) (extra : β) (prev : List β) (A : β)
    (hA : op extra (cumTail ident prev) = A) :
    (seqLoop op ident extra prev (rest.map (scanl1 op))).map Prod.snd = specBlocks op (some A) rest := by
  induction rest generalizing extra prev A with
  | nil => rfl
  | cons b rest ih =>
    simp only [List.map_cons, seqLoop, specBlocks, hA, scanO]
    have hb : b ≠ [] := hne b (by simp)
    have hrest : ∀ b ∈ rest, b ≠ [] := fun b' h => hne b' (by simp [h])
    rw [← scanFrom_eq_map hop]
    congr 1
    cases b with
    | nil => exact absurd rfl hb
    | cons y ys =>
      simp only [ofold, oop]
      apply ih hrest
      simp [cumTail, scanl1, getLast?_scan]

theorem seqBlocks_eq_spec {op : β → β → β} (hop : Assoc op) (ident : β)
    (hid : ∀ x, op ident x = x) (bs : List (List β)) (hne : ∀ b ∈ bs, b ≠ []) :
    seqBlocks op ident bs = specBlocks op none bs := by
  cases bs with
  | nil => rfl
  | cons b0 rest =>
    simp only [seqBlocks, List.map_cons, specBlocks, scanO, oop_none_left]
    have hb : b0 ≠ [] := hne b0 (by simp)
    have hrest : ∀ b ∈ rest, b ≠ [] := fun b' h => hne b' (by simp [h])
    congr 1
    cases b0 with
    | nil => exact absurd rfl hb
    | cons y ys =>
      rw [seqLoop_spec hop ident rest hrest ident (scanl1 op (y :: ys)) (ys.foldl op y)]
      · rfl
      · simp [cumTail, scanl1, getLast?_scan, hid]

theorem seqScan_correct {op : β → β → β} (hop : Assoc op) (ident : β)
    (hid : ∀ x, op ident x = x) (bs : List (List β)) (hne : ∀ b ∈ bs, b ≠ []) :
    (seqBlocks op ident bs).flatten = scanl1 op bs.flatten := by
  rw [seqBlocks_eq_spec hop ident hid bs hne, specBlocks_flatten hop]; rfl

theorem seqBlocks_lengths {op : β → β → β} (hop : Assoc op) (ident : β)
    (hid : ∀ x, op ident x = x) (bs : List (List β)) (hne : ∀ b ∈ bs, b ≠ []) :
    (seqBlocks op ident bs).map List.length = bs.map List.length := by
  rw [seqBlocks_eq_spec hop ident hid bs hne, specBlocks_lengths]

/-! ### `rangeStep` -/

theorem mem_rangeStep {a m d i : Nat} (hd : 0 < d) :
    i ∈ rangeStep a m d ↔ ∃ k, i = a + k * d ∧ i < m := by
  unfold rangeStep
  simp only [List.mem_map, List.mem_range]
  constructor
  · rintro ⟨k, hk, rfl⟩
    refine ⟨k, rfl, ?_⟩
    have h1 : (k + 1) * d ≤ m - a + d - 1 := (Nat.le_div_iff_mul_le hd).mp hk
    rw [Nat.add_mul] at h1
    omega
  · rintro ⟨k, rfl, hlt⟩
    refine ⟨k, ?_, rfl⟩
    apply (Nat.le_div_iff_mul_le hd).mpr
    rw [Nat.succ_mul]
    omega

theorem nodup_rangeStep {a m d : Nat} (hd : 0 < d) : (rangeStep a m d).Nodup := by
  unfold rangeStep
  rw [List.nodup_iff_pairwise_ne]
  refine List.Pairwise.map _ ?_ List.pairwise_lt_range
  intro x y hxy h
  have h2 : x * d < y * d := Nat.mul_lt_mul_of_pos_right hxy hd
  omega

/-! ### one level of combine steps acts in parallel -/

theorem applyStep_length (op : β → β → β) (pv : List β) (s : Step) :
    (applyStep op pv s).length = pv.length := by
  unfold applyStep; split <;> simp

theorem runSteps_length (op : β → β → β) (pv : List β) (steps : List Step) :
    (runSteps op pv steps).length = pv.length := by
  unfold runSteps
  induction steps generalizing pv with
  | nil => rfl
  | cons s ss ih => simp only [List.foldl_cons]; rw [ih, applyStep_length]

theorem getElem?_applyStep (op : β → β → β) (pv : List β) (i s : Nat) (hi : i < pv.length) (j : Nat) :
    (applyStep op pv ⟨i, s⟩)[j]? = if j = i then oop op pv[i - s]? pv[i]? else pv[j]? := by
  have h1 : pv[i]? = some pv[i] := List.getElem?_eq_getElem hi
  have h2 : pv[i - s]? = some (pv[i - s]'(by omega)) := List.getElem?_eq_getElem (by omega)
  unfold applyStep
  simp only [h1, h2, oop, List.getElem?_set]
  by_cases hji : j = i
  · subst hji; simp [hi]
  · have : ¬ i = j := fun h => hji h.symm
    simp [hji, this]

theorem runLevel (op : β → β → β) (s : Nat) (is : List Nat) (pv : List β)
    (hnd : is.Nodup) (hlt : ∀ i ∈ is, i < pv.length) (hs : ∀ i ∈ is, i - s ∉ is) (j : Nat) :
    (runSteps op pv (is.map (fun i => (⟨i, s⟩ : Step))))[j]?
      = if j ∈ is then oop op pv[j - s]? pv[j]? else pv[j]? := by
  induction is generalizing pv with
  | nil => simp [runSteps]
  | cons i is ih =>
    have hi : i < pv.length := hlt i (by simp)
    have hnd' := List.nodup_cons.mp hnd
    simp only [List.map_cons, runSteps, List.foldl_cons]
    have := ih (applyStep op pv ⟨i, s⟩) hnd'.2
      (fun k hk => by rw [applyStep_length]; exact hlt k (by simp [hk]))
      (fun k hk h => hs k (by simp [hk]) (by simp [h]))
    simp only [runSteps] at this
    rw [this]
    by_cases hj : j ∈ is
    · have hji : j ≠ i := fun h => hnd'.1 (h ▸ hj)
      have hjs : j - s ≠ i := fun h => hs j (by simp [hj]) (by simp [h])
      simp [hj, getElem?_applyStep op pv i s hi, hji, hjs]
    · simp only [hj, if_false, getElem?_applyStep op pv i s hi, List.mem_cons, or_false]
      by_cases hji : j = i
      · subst hji; simp
      · simp [hji]

end Dask.Lemmas.Scan
