/-
C07 extension — in-place swap of a collection's expression (`Array._replace_expr`, reached from `__setitem__`,
ufunc `out=`, reduction `out=`, `compute_chunk_sizes`, the `_chunks` setter).

`CollState` (Model/Names.lean) is `Array.__dict__`: the expression plus the derived caches.  `replaceExprWith` is the
swap with a choice of which caches are removed; `replaceExpr` removes all of them (what the source does: checked over
the generated table in Props/C07Inplace.lean).  Whatever was READ before the update (any cache populated), the
collection afterwards is indistinguishable from one freshly built on the new expression, and pickles like it.
-/
import DaskArrayModel.Lemmas.Names
namespace Dask.Names

/-- `Array(e)`: a collection nobody has looked at -/
def freshColl {ε γ κ : Type} (e : ε) : CollState ε γ κ :=
  { expr := e, lowered := none, keys := none, optimizeFlag := none }

/-- in-place swap that removes the selected caches (`dropL`: `_lowered_expr`, `dropK`: `_cached_dask_keys`,
    `dropF`: `_lowered_expr_optimize_graph`) -/
def replaceExprWith {ε γ κ : Type} (dropL dropK dropF : Bool) (s : CollState ε γ κ) (e' : ε) : CollState ε γ κ :=
  { expr := e',
    lowered := if dropL then none else s.lowered,
    keys := if dropK then none else s.keys,
    optimizeFlag := if dropF then none else s.optimizeFlag }

/-- `Array._replace_expr(e')` -/
def replaceExpr {ε γ κ : Type} (s : CollState ε γ κ) (e' : ε) : CollState ε γ κ :=
  replaceExprWith true true true s e'

end Dask.Names

namespace Dask.Lemmas.Names
open Dask.Names

theorem replaceExpr_eq_fresh {ε γ κ : Type} (s : CollState ε γ κ) (e' : ε) :
    replaceExpr s e' = freshColl e' := by
  simp [replaceExpr, replaceExprWith, freshColl]

theorem replaceExpr_inv {ε γ κ : Type} (materialize : ε → Bool → γ) (keysOf : ε → κ) (dflt : Bool)
    (s : CollState ε γ κ) (e' : ε) : CacheInv materialize keysOf dflt (replaceExpr s e') := by
  constructor
  · intro g h; simp [replaceExpr, replaceExprWith] at h
  · intro k h; simp [replaceExpr, replaceExprWith] at h

theorem replaceExpr_observe {ε γ κ : Type} (materialize : ε → Bool → γ) (keysOf : ε → κ) (dflt : Bool)
    (s : CollState ε γ κ) (e' : ε) :
    observe materialize keysOf dflt (replaceExpr s e') = (e', materialize e' dflt, keysOf e') := by
  simp [observe, replaceExpr, replaceExprWith]

theorem replaceExpr_pickle {ε γ κ : Type} (materialize : ε → Bool → γ) (keysOf : ε → κ) (dflt : Bool)
    (s : CollState ε γ κ) (e' : ε) :
    observe materialize keysOf dflt (setstate (getstate (replaceExpr s e'))) =
      observe materialize keysOf dflt (replaceExpr s e') := by
  simp [observe, replaceExpr, replaceExprWith, setstate, getstate]

/-- a swap that KEEPS the key cache: after somebody read the keys, the collection advertises the old keys -/
theorem replaceExprWith_keepKeys_stale {ε γ κ : Type} (materialize : ε → Bool → γ) (keysOf : ε → κ) (dflt : Bool)
    (dropL dropF : Bool) (s : CollState ε γ κ) (e' : ε) (k : κ) (hk : s.keys = some k) :
    (observe materialize keysOf dflt (replaceExprWith dropL false dropF s e')).2.2 = k := by
  simp [observe, replaceExprWith, hk]

/-- … and the pickle round trip (which drops that cache) changes them -/
theorem replaceExprWith_keepKeys_pickle {ε γ κ : Type} (materialize : ε → Bool → γ) (keysOf : ε → κ) (dflt : Bool)
    (dropL dropF : Bool) (s : CollState ε γ κ) (e' : ε) :
    (observe materialize keysOf dflt (setstate (getstate (replaceExprWith dropL false dropF s e')))).2.2 = keysOf e' := by
  simp [observe, replaceExprWith, setstate, getstate]

/-- a swap that KEEPS the lowered graph: the graph is the old expression's -/
theorem replaceExprWith_keepLowered_stale {ε γ κ : Type} (materialize : ε → Bool → γ) (keysOf : ε → κ) (dflt : Bool)
    (dropK dropF : Bool) (s : CollState ε γ κ) (e' : ε) (g : γ) (hg : s.lowered = some g) :
    (observe materialize keysOf dflt (replaceExprWith false dropK dropF s e')).2.1 = g := by
  simp [observe, replaceExprWith, hg]

end Dask.Lemmas.Names
