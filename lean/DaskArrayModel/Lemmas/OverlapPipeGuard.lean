/-
The guard of the map_overlap pipeline theorems is what `overlap` establishes: `_get_overlap_rechunked_chunks`
(`overlapRechunkedChunks` of Model/Window.lean: `ensure_minimum_chunksize(max(before, after), chunks)` followed, for
boundary `none`, by merging an edge chunk that is not longer than its missing depth into its neighbour) returns chunks
that cover the axis and are ALL at least the larger depth.  Core Lean only.
-/
import DaskArrayModel.Lemmas.Window
import DaskArrayModel.Model.OverlapPipe
namespace Dask.Lemmas.OverlapPipe
open Dask.Py Dask.Window Dask.OverlapPipe

/-- nonempty, same total, every chunk at least `size` -/
def Covers (size S : Int) (l : List Int) : Prop := l ≠ [] ∧ isum l = S ∧ ∀ c ∈ l, size ≤ c

theorem isum_app (a b : List Int) : isum (a ++ b) = isum a + isum b := by
  induction a with
  | nil => simp [isum]
  | cons x xs ih => simp only [List.cons_append, isum, ih]; omega

theorem covers_merge_front (size S : Int) (hs : 0 ≤ size) (c0 c1 : Int) (rest : List Int)
    (h : Covers size S (c0 :: c1 :: rest)) : Covers size S ((c0 + c1) :: rest) := by
  obtain ⟨_, hsum, hmin⟩ := h
  refine ⟨by simp, ?_, ?_⟩
  · simp only [isum] at hsum ⊢; omega
  · intro c hc
    simp only [List.mem_cons] at hc
    rcases hc with rfl | hc
    · have := hmin c0 (by simp); have := hmin c1 (by simp); omega
    · exact hmin c (by simp [hc])

theorem split_last_two : ∀ (l : List Int), 1 < l.length → ∃ m a b, l = m ++ [a, b]
  | [], h => by simp at h
  | [_], h => by simp at h
  | [a, b], _ => ⟨[], a, b, rfl⟩
  | x :: y :: z :: t, _ => by
    obtain ⟨m, a, b, h⟩ := split_last_two (y :: z :: t) (by simp)
    exact ⟨x :: m, a, b, by rw [h]; rfl⟩

theorem covers_merge_back (size S : Int) (hs : 0 ≤ size) (l : List Int) (hl : 1 < l.length)
    (h : Covers size S l) :
    Covers size S (l.dropLast.dropLast ++ [l.dropLast.getLastD 0 + l.getLastD 0]) := by
  obtain ⟨m, a, b, rfl⟩ := split_last_two l hl
  obtain ⟨_, hsum, hmin⟩ := h
  have e1 : (m ++ [a, b]).dropLast = m ++ [a] := by
    rw [show m ++ [a, b] = (m ++ [a]) ++ [b] by simp, List.dropLast_concat]
  have e2 : (m ++ [a]).dropLast = m := List.dropLast_concat
  have e3 : (m ++ [a]).getLastD 0 = a := by simp [List.getLastD_eq_getLast?]
  have e4 : (m ++ [a, b]).getLastD 0 = b := by
    rw [show m ++ [a, b] = (m ++ [a]) ++ [b] by simp]; simp [List.getLastD_eq_getLast?]
  rw [e1, e2, e3, e4]
  refine ⟨by simp, ?_, ?_⟩
  · rw [isum_app] at hsum ⊢
    simp only [isum] at hsum ⊢; omega
  · intro c hc
    simp only [List.mem_append, List.mem_singleton] at hc
    rcases hc with hc | rfl
    · exact hmin c (by simp [hc])
    · have := hmin a (by simp); have := hmin b (by simp); omega

/-- the front merge of `_get_overlap_rechunked_chunks` -/
def mergeFront (c : List Int) (before : Int) : List Int :=
  match c with
  | c0 :: c1 :: rest => if c0 ≤ before then (c0 + c1) :: rest else c
  | _ => c

/-- the back merge -/
def mergeBack (c1 : List Int) (after : Int) : List Int :=
  if c1.length > 1 ∧ c1.getLastD 0 ≤ after then
    (c1.dropLast.dropLast) ++ [c1.dropLast.getLastD 0 + c1.getLastD 0]
  else c1

theorem overlapRechunkedChunks_eq (chunks : List Int) (before after : Int) (bn : Bool) :
    overlapRechunkedChunks chunks before after bn =
      match ensureMinimumChunksize (max before after) chunks with
      | none => none
      | some c => if bn then some (mergeBack (mergeFront c before) after) else some c := rfl

theorem covers_mergeFront (size S : Int) (hs : 0 ≤ size) (c : List Int) (before : Int) (h : Covers size S c) :
    Covers size S (mergeFront c before) := by
  unfold mergeFront
  split
  · split
    · exact covers_merge_front _ _ hs _ _ _ h
    · exact h
  · exact h

theorem covers_mergeBack (size S : Int) (hs : 0 ≤ size) (c : List Int) (after : Int) (h : Covers size S c) :
    Covers size S (mergeBack c after) := by
  unfold mergeBack
  split
  · next hc => exact covers_merge_back _ _ hs c (by omega) h
  · exact h

/-- **what `_get_overlap_rechunked_chunks` returns**: chunks that cover the axis, all at least `max(before, after)` -/
theorem rechunked_covers (chunks : List Int) (before after : Int) (bn : Bool) (hne : chunks ≠ [])
    (hpos : ∀ c ∈ chunks, 0 ≤ c) (hb : 0 ≤ before) (ha : 0 ≤ after) (out : List Int)
    (h : overlapRechunkedChunks chunks before after bn = some out) :
    Covers (max before after) (isum chunks) out := by
  have hs : 0 ≤ max before after := by omega
  have spec := Dask.Lemmas.Window.ensureMinimumChunksize_spec (max before after) chunks hne hpos
  rw [overlapRechunkedChunks_eq] at h
  cases hc : ensureMinimumChunksize (max before after) chunks with
  | none => rw [hc] at h; cases h
  | some c =>
    rw [hc] at h spec
    simp only at h spec
    have hcov : Covers (max before after) (isum chunks) c := ⟨spec.2.2, spec.1, spec.2.1⟩
    cases bn with
    | false => simp at h; rw [← h]; exact hcov
    | true =>
      simp only [if_true, Option.some.injEq] at h
      rw [← h]
      exact covers_mergeBack _ _ hs _ _ (covers_mergeFront _ _ hs _ _ hcov)

theorem sum_map_toNat : ∀ (l : List Int), (∀ c ∈ l, 0 ≤ c) → (((l.map Int.toNat).sum : Nat) : Int) = isum l
  | [], _ => rfl
  | x :: xs, h => by
    have hx := h x (by simp)
    have ih := sum_map_toNat xs (fun c hc => h c (by simp [hc]))
    simp only [List.map_cons, List.sum_cons, isum]
    omega

/-- **the guard of the pipeline theorems is established by `overlap`'s rechunk** (natural-number reading) -/
theorem guard_established (chunks : List Int) (before after : Int) (bn : Bool) (hne : chunks ≠ [])
    (hpos : ∀ c ∈ chunks, 0 ≤ c) (hb : 0 ≤ before) (ha : 0 ≤ after) (out : List Int)
    (h : overlapRechunkedChunks chunks before after bn = some out) :
    Guard before.toNat after.toNat (out.map Int.toNat) (isum chunks).toNat := by
  obtain ⟨hne', hsum, hmin⟩ := rechunked_covers chunks before after bn hne hpos hb ha out h
  have hnn : ∀ c ∈ out, 0 ≤ c := fun c hc => by have := hmin c hc; omega
  refine ⟨?_, ?_, ?_⟩
  · intro h0
    exact hne' (List.map_eq_nil_iff.mp h0)
  · have := sum_map_toNat out hnn
    omega
  · intro c hc
    obtain ⟨z, hz, rfl⟩ := List.mem_map.mp hc
    have := hmin z hz
    omega

end Dask.Lemmas.OverlapPipe
