/-
`moveaxis` with sequences of axes: the `sorted(zip(destination, source))` insertions produce the permutation with
`p[dst[j]] = src[j]` and the remaining axes in increasing order on the remaining positions.  Core Lean only.
-/
import DaskArrayModel.Lemmas.PermBuilders
namespace Dask.Perm
open Dask.Py Dask.Slicing Dask.ND

/-! ### the insertions, largest destination peeled first -/

/-- the fold of `order.insert(dest, src)` read from the LAST pair backwards -/
def buildR (base : List Nat) : List (Nat × Nat) → List Nat
  | [] => base
  | p :: rest => pyInsert (buildR base rest) p.1 p.2

theorem buildR_append (base : List Nat) (p : Nat × Nat) : ∀ R, buildR base (R ++ [p]) = buildR (pyInsert base p.1 p.2) R
  | [] => rfl
  | q :: R => by simp only [List.cons_append, buildR]; rw [buildR_append base p R]

theorem foldl_pyInsert (ps : List (Nat × Nat)) : ∀ base,
    ps.foldl (fun o p => pyInsert o p.1 p.2) base = buildR base ps.reverse := by
  induction ps with
  | nil => intro base; rfl
  | cons p ps ih =>
    intro base
    rw [List.foldl_cons, ih, List.reverse_cons, buildR_append]

/-- strictly descending destinations, all below `B` -/
def DescBelow : Nat → List (Nat × Nat) → Prop
  | _, [] => True
  | B, p :: rest => p.1 < B ∧ DescBelow p.1 rest

theorem DescBelow.mono {B B' : Nat} (h : B ≤ B') : ∀ {R}, DescBelow B R → DescBelow B' R
  | [], _ => trivial
  | _ :: _, hd => ⟨Nat.lt_of_lt_of_le hd.1 h, hd.2⟩

theorem DescBelow.lt_of_mem {B : Nat} : ∀ {R}, DescBelow B R → ∀ q ∈ R, q.1 < B
  | [], _, q, hq => by simp at hq
  | p :: rest, hd, q, hq => by
    rcases List.mem_cons.mp hq with h | h
    · rw [h]; exact hd.1
    · exact Nat.lt_trans (DescBelow.lt_of_mem hd.2 q h) hd.1

theorem buildR_length (base : List Nat) : ∀ (R : List (Nat × Nat)) (B : Nat), DescBelow B R →
    B ≤ base.length + R.length → (buildR base R).length = base.length + R.length
  | [], _, _, _ => rfl
  | p :: rest, B, hd, hB => by
    have hD : p.1 ≤ base.length + rest.length := by have := hd.1; simp only [List.length_cons] at hB; omega
    have ih := buildR_length base rest p.1 hd.2 hD
    simp only [buildR]
    rw [pyInsert_eq _ _ _ (by rw [ih]; exact hD), List.length_insertIdx, if_pos (by rw [ih]; exact hD), ih]
    simp only [List.length_cons]; omega

theorem buildR_eq_insertIdx (base : List Nat) (p : Nat × Nat) (rest : List (Nat × Nat)) (B : Nat)
    (hd : DescBelow B (p :: rest)) (hB : B ≤ base.length + (p :: rest).length) :
    buildR base (p :: rest) = (buildR base rest).insertIdx p.1 p.2 ∧ p.1 ≤ (buildR base rest).length := by
  have hD : p.1 ≤ base.length + rest.length := by have := hd.1; simp only [List.length_cons] at hB; omega
  have ih := buildR_length base rest p.1 hd.2 hD
  simp only [buildR]
  exact ⟨pyInsert_eq _ _ _ (by rw [ih]; exact hD), by rw [ih]; exact hD⟩

/-- every pair sits where it was sent -/
theorem buildR_get (base : List Nat) : ∀ (R : List (Nat × Nat)) (B : Nat), DescBelow B R →
    B ≤ base.length + R.length → ∀ q ∈ R, (buildR base R).getD q.1 0 = q.2
  | [], _, _, _, q, hq => by simp at hq
  | p :: rest, B, hd, hB, q, hq => by
    obtain ⟨he, hle⟩ := buildR_eq_insertIdx base p rest B hd hB
    have hlen : ((buildR base rest).insertIdx p.1 p.2).length = (buildR base rest).length + 1 := by
      rw [List.length_insertIdx, if_pos hle]
    rw [he]
    rcases List.mem_cons.mp hq with h | h
    · rw [h, getD_eq_getElem _ _ _ (by rw [hlen]; omega)]
      exact List.getElem_insertIdx_self _
    · have hlt := DescBelow.lt_of_mem hd.2 q h
      have hD : p.1 ≤ base.length + rest.length := by
        have := hd.1; simp only [List.length_cons] at hB; omega
      have ih := buildR_get base rest p.1 hd.2 hD q h
      rw [getD_eq_getElem _ _ _ (by rw [hlen]; omega), List.getElem_insertIdx_of_lt hlt]
      rw [getD_eq_getElem _ _ _ (by omega)] at ih
      exact ih

/-- outside the destinations the list is increasing, if `base` is -/
theorem buildR_mono (base : List Nat) (hbase : ∀ i j, i < j → j < base.length → base.getD i 0 < base.getD j 0) :
    ∀ (R : List (Nat × Nat)) (B : Nat), DescBelow B R → B ≤ base.length + R.length →
      ∀ i j, i < j → j < (buildR base R).length → (∀ q ∈ R, q.1 ≠ i) → (∀ q ∈ R, q.1 ≠ j) →
        (buildR base R).getD i 0 < (buildR base R).getD j 0
  | [], _, _, _, i, j, hij, hj, _, _ => hbase i j hij hj
  | p :: rest, B, hd, hB, i, j, hij, hj, hi', hj' => by
    obtain ⟨he, hle⟩ := buildR_eq_insertIdx base p rest B hd hB
    have hlen : ((buildR base rest).insertIdx p.1 p.2).length = (buildR base rest).length + 1 := by
      rw [List.length_insertIdx, if_pos hle]
    have hD : p.1 ≤ base.length + rest.length := by
      have := hd.1; simp only [List.length_cons] at hB; omega
    have ih := buildR_mono base hbase rest p.1 hd.2 hD
    rw [he] at hj ⊢
    rw [hlen] at hj
    have hip : p.1 ≠ i := hi' p List.mem_cons_self
    have hjp : p.1 ≠ j := hj' p List.mem_cons_self
    have hrest : ∀ k, p.1 ≤ k → ∀ q ∈ rest, q.1 ≠ k := fun k hk q hq => by
      have := DescBelow.lt_of_mem hd.2 q hq; omega
    -- read both positions in the list before the insertion
    have rd : ∀ k, k ≠ p.1 → k < (buildR base rest).length + 1 →
        ((buildR base rest).insertIdx p.1 p.2).getD k 0
          = (buildR base rest).getD (if k < p.1 then k else k - 1) 0 := by
      intro k hk hkl
      rw [getD_eq_getElem _ _ _ (by rw [hlen]; exact hkl)]
      by_cases hlt : k < p.1
      · rw [if_pos hlt, List.getElem_insertIdx_of_lt hlt, getD_eq_getElem _ _ _ (by omega)]
      · rw [if_neg hlt, List.getElem_insertIdx_of_gt (by omega), getD_eq_getElem _ _ _ (by omega)]
    rw [rd i (Ne.symm hip) (by omega), rd j (Ne.symm hjp) hj]
    apply ih
    · split <;> split <;> omega
    · split <;> omega
    · intro q hq
      by_cases hlt : i < p.1
      · rw [if_pos hlt]; exact hi' q (List.mem_cons_of_mem _ hq)
      · rw [if_neg hlt]; exact hrest _ (by omega) q hq
    · intro q hq
      by_cases hlt : j < p.1
      · rw [if_pos hlt]; exact hj' q (List.mem_cons_of_mem _ hq)
      · rw [if_neg hlt]; exact hrest _ (by omega) q hq

theorem buildR_perm (base : List Nat) : ∀ (R : List (Nat × Nat)) (B : Nat), DescBelow B R →
    B ≤ base.length + R.length → (buildR base R).Perm (R.map (fun q => q.2) ++ base)
  | [], _, _, _ => List.Perm.refl _
  | p :: rest, B, hd, hB => by
    obtain ⟨he, hle⟩ := buildR_eq_insertIdx base p rest B hd hB
    have hD : p.1 ≤ base.length + rest.length := by
      have := hd.1; simp only [List.length_cons] at hB; omega
    rw [he]
    exact (List.perm_insertIdx p.2 _ hle).trans (List.Perm.cons _ (buildR_perm base rest p.1 hd.2 hD))

/-! ### `sorted(zip(destination, source))` -/

def leP (p q : Nat × Nat) : Prop := p.1 < q.1 ∨ (p.1 = q.1 ∧ p.2 ≤ q.2)

theorem leP_trans {a b c : Nat × Nat} (h1 : leP a b) (h2 : leP b c) : leP a c := by
  unfold leP at *; omega

theorem leP_total {a b : Nat × Nat} (h : ¬ leP a b) : leP b a := by
  unfold leP at *; omega

theorem insertPair_perm (p : Nat × Nat) : ∀ l, (insertPair p l).Perm (p :: l)
  | [] => List.Perm.refl _
  | q :: r => by
    unfold insertPair
    split
    · exact List.Perm.refl _
    · exact ((insertPair_perm p r).cons q).trans (List.Perm.swap p q r)

theorem sortPairs_perm : ∀ l, (sortPairs l).Perm l
  | [] => List.Perm.refl _
  | p :: r => (insertPair_perm p (sortPairs r)).trans ((sortPairs_perm r).cons p)

theorem insertPair_sorted (p : Nat × Nat) : ∀ l, List.Pairwise leP l → List.Pairwise leP (insertPair p l)
  | [], _ => by simp [insertPair]
  | q :: r, h => by
    have hq := List.pairwise_cons.mp h
    unfold insertPair
    split
    · rename_i hpq
      refine List.pairwise_cons.mpr ⟨?_, h⟩
      intro a ha
      rcases List.mem_cons.mp ha with rfl | ha
      · exact hpq
      · exact leP_trans hpq (hq.1 a ha)
    · rename_i hpq
      refine List.pairwise_cons.mpr ⟨?_, insertPair_sorted p r hq.2⟩
      intro a ha
      rcases List.mem_cons.mp ((insertPair_perm p r).mem_iff.mp ha) with rfl | ha
      · exact leP_total hpq
      · exact hq.1 a ha

theorem sortPairs_sorted : ∀ l, List.Pairwise leP (sortPairs l)
  | [] => List.Pairwise.nil
  | p :: r => insertPair_sorted p _ (sortPairs_sorted r)

theorem sortPairs_strict (l : List (Nat × Nat)) (hne : List.Pairwise (fun a b => a.1 ≠ b.1) l) :
    List.Pairwise (fun a b => a.1 < b.1) (sortPairs l) := by
  have h1 := sortPairs_sorted l
  have h2 : List.Pairwise (fun a b => a.1 ≠ b.1) (sortPairs l) :=
    (List.Perm.pairwise_iff (fun h => Ne.symm h) (sortPairs_perm l)).mpr hne
  refine List.Pairwise.imp ?_ (h1.and h2)
  intro a b h
  have := h.1; unfold leP at this
  have := h.2
  omega

theorem descBelow_of_pairwise (B : Nat) : ∀ (R : List (Nat × Nat)), List.Pairwise (fun a b => b.1 < a.1) R →
    (∀ q ∈ R, q.1 < B) → DescBelow B R
  | [], _, _ => trivial
  | p :: rest, h, hB => by
    have hp := List.pairwise_cons.mp h
    exact ⟨hB p List.mem_cons_self, descBelow_of_pairwise p.1 rest hp.2 hp.1⟩

/-! ### the theorem -/

theorem normAxes_ok (n : Nat) : ∀ (as : List Int), (∀ a ∈ as, AxisOK n a) → normAxes n as = .ok (as.map (normI n))
  | [], _ => rfl
  | a :: r, h => by
    simp only [normAxes, List.map_cons]
    rw [normAxis_ok (h a List.mem_cons_self), normAxes_ok n r (fun x hx => h x (List.mem_cons_of_mem _ hx))]

theorem normAxisTuple_ok (n : Nat) (as : List Int) (h : ∀ a ∈ as, AxisOK n a) (hn : (as.map (normI n)).Nodup) :
    normAxisTuple n as = .ok (as.map (normI n)) := by
  unfold normAxisTuple
  rw [normAxes_ok n as h]
  simp only []
  rw [if_pos (by simpa using hn)]

theorem mem_map_normI_lt {n : Nat} {as : List Int} (h : ∀ a ∈ as, AxisOK n a) {x : Nat}
    (hx : x ∈ as.map (normI n)) : x < n := by
  obtain ⟨a, ha, rfl⟩ := List.mem_map.mp hx
  exact normI_lt (h a ha)

/-- `s ++ (range n without s)` is a rearrangement of `range n` -/
theorem sources_append_rest_perm (n : Nat) (s : List Nat) (hs : s.Nodup) (hlt : ∀ x ∈ s, x < n) :
    (s ++ (List.range n).filter (fun k => !s.contains k)).Perm (List.range n) := by
  have h1 := List.filter_append_perm (fun k => s.contains k) (List.range n)
  have h2 : ((List.range n).filter (fun k => s.contains k)).Perm s := by
    rw [List.perm_ext_iff_of_nodup (List.Pairwise.filter _ List.nodup_range) hs]
    intro a
    rw [List.mem_filter, List.mem_range, List.contains_iff_mem]
    exact ⟨fun h => h.2, fun h => ⟨hlt a h, h⟩⟩
  exact (List.Perm.append_right _ h2.symm).trans h1

theorem moveaxisN_correct (n : Nat) (src dst : List Int)
    (hs : ∀ a ∈ src, AxisOK n a) (hd : ∀ a ∈ dst, AxisOK n a)
    (hsn : (src.map (normI n)).Nodup) (hdn : (dst.map (normI n)).Nodup) (hlen : src.length = dst.length) :
    ∃ p, moveaxisPermN n src dst = .ok p ∧ PermOK p n ∧
      (∀ j, j < src.length → p.getD ((dst.map (normI n)).getD j 0) 0 = (src.map (normI n)).getD j 0) ∧
      (∀ i j, i < j → j < n → i ∉ dst.map (normI n) → j ∉ dst.map (normI n) → p.getD i 0 < p.getD j 0) := by
  let s := src.map (normI n)
  let d := dst.map (normI n)
  have hsl : s.length = src.length := by simp [s]
  have hdl : d.length = dst.length := by simp [d]
  let base := (List.range n).filter (fun k => !s.contains k)
  let R := (sortPairs (d.zip s)).reverse
  have hRperm : R.Perm (d.zip s) := (List.reverse_perm _).trans (sortPairs_perm _)
  have hmemR : ∀ q ∈ R, q.1 ∈ d ∧ q.2 ∈ s := fun q hq => List.of_mem_zip (hRperm.mem_iff.mp hq)
  -- the unfolding
  have hrun : moveaxisPermN n src dst = .ok (buildR base R) := by
    unfold moveaxisPermN
    rw [normAxisTuple_ok n src hs hsn, normAxisTuple_ok n dst hd hdn]
    simp only []
    rw [if_neg (by simp [hlen]), foldl_pyInsert]
  -- destinations strictly descending below n
  have hfst : (d.zip s).map Prod.fst = d := List.map_fst_zip (by rw [hsl, hdl, hlen]; exact Nat.le_refl _)
  have hsnd : (d.zip s).map Prod.snd = s := List.map_snd_zip (by rw [hsl, hdl, hlen]; exact Nat.le_refl _)
  have hne : List.Pairwise (fun a b : Nat × Nat => a.1 ≠ b.1) (d.zip s) := by
    have : List.Pairwise (fun a b => a ≠ b) ((d.zip s).map Prod.fst) := by rw [hfst]; exact hdn
    exact List.pairwise_map.mp this
  have hdesc : DescBelow n R := by
    apply descBelow_of_pairwise
    · exact List.pairwise_reverse.mpr (sortPairs_strict _ hne)
    · intro q hq; exact mem_map_normI_lt hd (hmemR q hq).1
  have hsrcperm := sources_append_rest_perm n s hsn (fun x hx => mem_map_normI_lt hs hx)
  have hbl : s.length + base.length = n := by
    have := hsrcperm.length_eq
    rw [List.length_append, List.length_range] at this
    exact this
  have hRl : R.length = s.length := by
    rw [hRperm.length_eq, List.length_zip, hsl, hdl, hlen]; exact Nat.min_self _
  have hB : n ≤ base.length + R.length := by omega
  have hplen : (buildR base R).length = n := by rw [buildR_length base R n hdesc hB]; omega
  -- a rearrangement of range n
  have hperm : (buildR base R).Perm (List.range n) := by
    refine (buildR_perm base R n hdesc hB).trans ((List.Perm.append_right _ ?_).trans hsrcperm)
    have := hRperm.map Prod.snd
    rw [hsnd] at this
    exact this
  refine ⟨_, hrun, isPerm_ok (isPerm_of_perm hperm), ?_, ?_⟩
  · intro j hj
    have hjz : j < (d.zip s).length := by rw [List.length_zip, hsl, hdl, hlen] at *; simpa using hlen ▸ hj
    have hmem : (d.getD j 0, s.getD j 0) ∈ R := by
      apply hRperm.mem_iff.mpr
      rw [List.mem_iff_getElem]
      refine ⟨j, hjz, ?_⟩
      rw [List.getElem_zip, getD_eq_getElem d j 0 (by rw [hdl, ← hlen]; exact hj),
        getD_eq_getElem s j 0 (by rw [hsl]; exact hj)]
    exact buildR_get base R n hdesc hB _ hmem
  · intro i j hij hj hi' hj'
    apply buildR_mono base ?_ R n hdesc hB i j hij (by rw [hplen]; exact hj)
    · intro q hq he; exact hi' (he ▸ (hmemR q hq).1)
    · intro q hq he; exact hj' (he ▸ (hmemR q hq).1)
    · intro a b hab hb
      have hpw : List.Pairwise (fun x y => x < y) base := List.Pairwise.filter _ List.pairwise_lt_range
      rw [getD_eq_getElem base a 0 (by omega), getD_eq_getElem base b 0 hb]
      exact List.pairwise_iff_getElem.mp hpw a b (by omega) hb hab

/-- the axes NumPy's `normalize_axis_tuple` accepts: every axis in `[-n, n)`, no axis named twice -/
def AxesOK (n : Nat) (as : List Int) : Prop := (∀ a ∈ as, AxisOK n a) ∧ (as.map (normI n)).Nodup

instance (n : Nat) (as : List Int) : Decidable (AxesOK n as) := by unfold AxesOK; infer_instance

end Dask.Perm
