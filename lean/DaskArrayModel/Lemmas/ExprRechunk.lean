/-
Per-axis obligation of `Expr.rechunk`: the `AxisOK` fact for `rechunkAxis` from the proved
crosswalk theorem (C15 `crosswalk_exact`), then the n-d `SpecsOK` for `rechunkSpecs`.
-/
import DaskArrayModel.Lemmas.ExprSlice
import DaskArrayModel.Lemmas.Crosswalk
namespace Dask.ND
open Dask.Py Dask.Rechunk

theorem oldStart_toI (cs : List Nat) (k : Nat) :
    oldStart (toI cs) k = (((cs.take k).sum : Nat) : Int) := blockStart_toI cs k

/-! ### unit-step ranges -/

theorem rangeList_one_length (a b : Int) (h : a ≤ b) : (rangeList a b 1).length = (b - a).toNat := by
  simp only [rangeList, List.length_map, List.length_range, rangeLen]
  simp only [gt_iff_lt, Int.zero_lt_one, if_true, Int.ediv_one]
  split <;> omega

theorem rangeList_one_getD (a b : Int) (i : Nat) (hi : i < (rangeList a b 1).length) :
    (rangeList a b 1).getD i 0 = a + i := by
  unfold rangeList at hi ⊢
  rw [List.length_map, List.length_range] at hi
  rw [getD_map _ _ i 0 0 (by simpa using hi), getD_range _ _ hi]
  omega

/-! ### pieces -/

theorem piecesPositions_cons (old : List Int) (p : Piece) (ps : List Piece) :
    piecesPositions old (p :: ps)
      = rangeList (oldStart old p.idx.toNat + p.s) (oldStart old p.idx.toNat + p.e) 1
          ++ piecesPositions old ps := by
  simp [piecesPositions]

theorem pieces_facts (cs : List Nat) : ∀ (ps : List Piece), (∀ p ∈ ps, PieceOK (toI cs) p) →
    (piecesPositions (toI cs) ps).length = piecesLen ps ∧
    ∀ i, i < piecesLen ps →
      (locatePiece ps i).1 < cs.length ∧
      (locatePiece ps i).2 < cs.getD (locatePiece ps i).1 0 ∧
      (piecesPositions (toI cs) ps).getD i 0
        = (((cs.take (locatePiece ps i).1).sum + (locatePiece ps i).2 : Nat) : Int)
  | [], _ => by
    refine ⟨by simp [piecesPositions, piecesLen], ?_⟩
    intro i hi; simp [piecesLen] at hi
  | p :: ps, hok => by
    obtain ⟨ihl, ihi⟩ := pieces_facts cs ps (fun q hq => hok q (List.mem_cons_of_mem _ hq))
    obtain ⟨h0, h1, h2, h3, h4⟩ := hok p (by simp)
    rw [toI_length] at h1
    rw [toI_getD] at h4
    have hrl := rangeList_one_length (oldStart (toI cs) p.idx.toNat + p.s)
      (oldStart (toI cs) p.idx.toNat + p.e) (by omega)
    have hw : (oldStart (toI cs) p.idx.toNat + p.e - (oldStart (toI cs) p.idx.toNat + p.s)).toNat
        = (p.e - p.s).toNat := by congr 1; omega
    rw [hw] at hrl
    refine ⟨?_, ?_⟩
    · rw [piecesPositions_cons, List.length_append, ihl, hrl]; rfl
    · intro i hi
      simp only [piecesLen] at hi
      rw [piecesPositions_cons]
      unfold locatePiece
      by_cases hlt : i < (p.e - p.s).toNat
      · rw [if_pos hlt]
        refine ⟨by omega, by dsimp only; omega, ?_⟩
        rw [List.getD_eq_getElem?_getD, List.getElem?_append_left (by omega),
          ← List.getD_eq_getElem?_getD, rangeList_one_getD _ _ _ (by omega), oldStart_toI]
        dsimp only
        omega
      · rw [if_neg hlt]
        obtain ⟨q1, q2, q3⟩ := ihi (i - (p.e - p.s).toNat) (by omega)
        refine ⟨q1, q2, ?_⟩
        rw [List.getD_eq_getElem?_getD, List.getElem?_append_right (by omega), hrl,
          ← List.getD_eq_getElem?_getD, q3]

theorem rechunkAxis_ok (old new : List Nat) (ho : old ≠ []) (hn : new ≠ [])
    (hsum : old.sum = new.sum) : AxisOK (rechunkAxis old new) new old := by
  have hI : isum (toI old) = isum (toI new) := by rw [isum_toI, isum_toI, hsum]
  obtain ⟨hlen, hall⟩ := Dask.Lemmas.Crosswalk.crosswalk_exact (toI old) (toI new) (toI_nonneg old)
    (toI_nonneg new) hI (by simpa [toI] using ho) (by simpa [toI] using hn)
  intro j hj
  obtain ⟨hok, _, hposs⟩ := hall j (by rw [toI_length]; exact hj)
  obtain ⟨fl, fi⟩ := pieces_facts old _ hok
  rw [hposs] at fl fi
  unfold newBlockPositions at fl fi
  have hA : isum ((toI new).take j) = (((new.take j).sum : Nat) : Int) := blockStart_toI new j
  have hB : isum ((toI new).take (j + 1)) = (((new.take j).sum + new.getD j 0 : Nat) : Int) := by
    have := blockStart_toI new (j + 1)
    unfold Dask.Slicing.blockStart at this
    rw [this, sum_take_succ new j hj]
  rw [hA, hB] at fl fi
  have hrl := rangeList_one_length (((new.take j).sum : Nat) : Int)
    (((new.take j).sum + new.getD j 0 : Nat) : Int) (by omega)
  have hlenj : piecesLen ((oldToNew1d (toI old) (toI new)).getD j []) = new.getD j 0 := by
    rw [← fl, hrl]; omega
  refine ⟨by simp only [rechunkAxis]; exact hlenj, ?_⟩
  intro i hi
  obtain ⟨q1, q2, q3⟩ := fi i (by rw [hlenj]; exact hi)
  rw [rangeList_one_getD _ _ _ (by rw [hrl]; omega)] at q3
  simp only [rechunkAxis]
  refine ⟨q1, q2, ?_⟩
  omega

/-! ### n-d -/

theorem rechunkSpecs_ok : ∀ (old new : Layout), NonEmptyAxes old → NonEmptyAxes new →
    old.map List.sum = new.map List.sum → SpecsOK (rechunkSpecs old new) new old
  | [], [], _, _, _ => by simp only [rechunkSpecs, List.zipWith_nil_left]; exact SpecsOK.nil
  | o :: old, n :: new, ho, hn, hs => by
    simp only [List.map_cons, List.cons.injEq] at hs
    have ih := rechunkSpecs_ok old new (fun c hc => ho c (List.mem_cons_of_mem _ hc))
      (fun c hc => hn c (List.mem_cons_of_mem _ hc)) hs.2
    simp only [rechunkSpecs, List.zipWith_cons_cons] at ih ⊢
    exact SpecsOK.keep (rechunkAxis_ok o n (ho o (by simp)) (hn n (by simp)) hs.1) ih
  | [], _ :: _, _, _, hs => by simp at hs
  | _ :: _, [], _, _, hs => by simp at hs

/-- spec side: rechunking reads the same global index -/
theorem gGlob_rechunkSpecs : ∀ (old new : Layout) (g : List Nat), old.length = new.length →
    g.length = new.length → gGlob (rechunkSpecs old new) g = g
  | [], [], [], _, _ => by simp [rechunkSpecs, gGlob]
  | o :: old, n :: new, x :: g, h1, h2 => by
    have ih := gGlob_rechunkSpecs old new g (by simpa using h1) (by simpa using h2)
    simp only [rechunkSpecs, List.zipWith_cons_cons, gGlob] at ih ⊢
    rw [ih]; rfl
  | [], _ :: _, _, h1, _ => by simp at h1
  | _ :: _, [], _, h1, _ => by simp at h1
  | [], [], _ :: _, _, h2 => by simp at h2
  | _ :: _, _ :: _, [], _, h2 => by simp at h2

end Dask.ND
