/-
Per-axis obligations of `Expr.slice`: the `AxisOK` facts for a sliced axis (`sliceAxis`) and an
integer-indexed axis (`intAxis`), from the proved `_slice_1d` theorems (the lemmas behind Props/C13), then the n-d
`SpecsOK` for `sliceSpecs`.
-/
import DaskArrayModel.Lemmas.ExprGather
import DaskArrayModel.Lemmas.Slice1dPos
import DaskArrayModel.Lemmas.Slice1dNeg
import DaskArrayModel.Lemmas.SliceAlgebra
namespace Dask.ND
open Dask.Py Dask.Py.PySlice Dask.Slicing

/-! ### `Nat` chunk lists as Python ints -/

theorem toI_length (l : List Nat) : (toI l).length = l.length := by simp [toI]

theorem toI_nonneg (l : List Nat) : ∀ c ∈ toI l, 0 ≤ c := by
  intro c hc
  simp only [toI, List.mem_map] at hc
  obtain ⟨x, _, rfl⟩ := hc
  exact Int.natCast_nonneg x

theorem isum_toI : ∀ (l : List Nat), isum (toI l) = (l.sum : Int)
  | [] => rfl
  | x :: xs => by
    have := isum_toI xs
    simp only [toI, List.map_cons, isum, List.sum_cons, Int.natCast_add] at this ⊢
    rw [this]; rfl

theorem toI_getD (l : List Nat) (k : Nat) : (toI l).getD k 0 = ((l.getD k 0 : Nat) : Int) := by
  unfold toI
  by_cases h : k < l.length
  · rw [getD_map _ l k 0 0 h]; rfl
  · rw [getD_of_ge _ _ _ (by simp; omega), getD_of_ge _ _ _ (by omega)]; rfl

theorem blockStart_toI (cs : List Nat) (k : Nat) :
    blockStart (toI cs) k = (((cs.take k).sum : Nat) : Int) := by
  unfold blockStart
  rw [← isum_toI]
  simp [toI, List.map_take]

/-! ### `sel` without the step hypothesis -/

theorem sel_bounds' (s : PySlice) (n : Int) (hn : 0 ≤ n) : ∀ p ∈ sel s n, 0 ≤ p ∧ p < n := by
  by_cases hs : s.stp = 0
  · intro p hp
    simp [sel, rangeList, rangeLen, hs] at hp
  · exact Dask.Lemmas.SliceAlgebra.sel_bounds s n hn hs

theorem sel_getD_bounds (s : PySlice) (n : Int) (hn : 0 ≤ n) (i : Nat) (hi : i < (sel s n).length) :
    0 ≤ (sel s n).getD i 0 ∧ (sel s n).getD i 0 < n := by
  apply sel_bounds' s n hn
  rw [getD_eq_getElem _ _ _ hi]
  exact List.getElem_mem hi

/-! ### `normalize_slice` keeps the step -/

theorem stp_normalize (s : PySlice) (n : Int) (hn : 0 ≤ n) (hs : s.stp ≠ 0) :
    (normalizeSlice s n).stp = s.stp := by
  rcases Int.lt_trichotomy s.stp 0 with h | h | h
  · obtain ⟨a, b, hnorm, _⟩ := Dask.Lemmas.Slice1dNeg.normalize_neg s n h hn
    rw [hnorm]; rfl
  · exact absurd h hs
  · have := Dask.Lemmas.Slice1dPos.ns_step s n h
    unfold PySlice.stp at *
    rw [this]
    split <;> simp_all

/-! ### `sortByKey` keeps the entries -/

theorem mem_insertByKey (p q : Nat × PySlice) : ∀ (l : List (Nat × PySlice)),
    q ∈ insertByKey p l ↔ q = p ∨ q ∈ l
  | [] => by simp [insertByKey]
  | r :: rs => by
    unfold insertByKey
    split
    · simp
    · simp only [List.mem_cons, mem_insertByKey p q rs]
      constructor
      · rintro (h | h | h) <;> simp [h]
      · rintro (h | h | h) <;> simp [h]

theorem mem_sortByKey (q : Nat × PySlice) : ∀ (l : List (Nat × PySlice)),
    q ∈ sortByKey l ↔ q ∈ l
  | [] => by simp [sortByKey]
  | p :: ps => by
    have ih := mem_sortByKey q ps
    unfold sortByKey at ih ⊢
    rw [List.foldr_cons, mem_insertByKey, ih]
    simp

theorem mem_orderedPlan (q : Nat × PySlice) (c : Int) (l : List (Nat × PySlice)) :
    q ∈ orderedPlan c l ↔ q ∈ l := by
  unfold orderedPlan
  split
  · rw [List.mem_reverse, mem_sortByKey]
  · rw [mem_sortByKey]

/-! ### `new_blockdim` = piece lengths, negative steps, unconditionally -/

theorem newBlockdim_eq_planLengths_neg (lengths : List Int) (s : PySlice)
    (hl : ∀ c ∈ lengths, 0 ≤ c) (hs : s.stp < 0) :
    newBlockdim (isum lengths) lengths (normalizeSlice s (isum lengths))
      = planLengths lengths
          (sortByKey (slice1d (isum lengths) lengths (normalizeSlice s (isum lengths)))).reverse := by
  by_cases hsel : sel s (isum lengths) = []
  · -- empty selection: the plan is the default entry, both sides are `[0]`
    obtain ⟨a, b, d, hnorm, hplan, hpos, hk, _, hshape⟩ :=
      Dask.Lemmas.Slice1dNeg.plan_neg lengths s hl hs
    have hrev := Dask.Lemmas.Slice1dNeg.sortByKey_reverse_plan d hk
    have hc0 : s.stp ≠ 0 := by omega
    have hcolon : normalizeSlice s (isum lengths) ≠ colon := by rw [hnorm]; simp [colon]
    unfold newBlockdim
    simp only [hcolon, if_false]
    have hst : (normalizeSlice s (isum lengths)).step = some s.stp := by rw [hnorm]
    rw [hst]
    simp only [hc0, hs, ne_eq, not_false_eq_true, and_self, if_true, ← List.map_reverse]
    rw [hplan, hrev]
    cases d with
    | nil =>
      simp only [List.isEmpty_nil, if_true, List.map_cons, List.map_nil, planLengths]
      rw [Dask.Lemmas.Slice1dPos.sel_empty (Dask.Lemmas.Slice1dPos.getD_nonneg hl 0)]
      simp [colon, ceilDiv, pyDiv]
    | cons q qs =>
      simp only [List.isEmpty_cons, Bool.false_eq_true, if_false]
      unfold planLengths
      rw [List.map_map]
      apply List.map_congr_left
      intro p hp
      obtain ⟨h1, h2⟩ := hshape p hp
      have hne : p.2 ≠ colon := by
        intro e; rw [e] at h1; simp [colon] at h1
      simp only [Function.comp, hne, if_false, h1, Option.getD_some]
      exact h2
  · exact (Dask.Lemmas.Slice1dNeg.newBlockdim_neg lengths s hl hs).2 hsel

/-- `slice1d_partition` for both signs, in output-block order (C13) -/
theorem slice1d_partition' (lengths : List Int) (s : PySlice)
    (hl : ∀ c ∈ lengths, 0 ≤ c) (hs : s.stp ≠ 0) :
    planPositions lengths (orderedPlan s.stp (slice1d (isum lengths) lengths (normalizeSlice s (isum lengths))))
      = sel s (isum lengths) := by
  unfold orderedPlan
  by_cases h : s.stp < 0
  · simp only [h, ↓reduceIte]; exact Dask.Lemmas.Slice1dNeg.slice1d_partition_neg lengths s hl h
  · simp only [h, ↓reduceIte]
    exact Dask.Lemmas.Slice1dPos.slice1d_partition_pos lengths s hl (by omega)

/-! ### flatMap indexing -/

theorem flatMap_getD {α} (f : α → List Int) : ∀ (P : List α) (j : Nat) (hj : j < P.length) (i : Nat),
    i < (f P[j]).length →
    (P.flatMap f).getD (((P.take j).map (fun p => (f p).length)).sum + i) 0 = (f P[j]).getD i 0
  | [], j, hj, _, _ => by simp at hj
  | p :: ps, 0, _, i, hi => by
    simp only [List.flatMap_cons, List.take_zero, List.map_nil, List.sum_nil, Nat.zero_add,
      List.getElem_cons_zero] at hi ⊢
    simp only [List.getD_eq_getElem?_getD, List.getElem?_append_left hi]
  | p :: ps, j + 1, hj, i, hi => by
    have ih := flatMap_getD f ps j (by simpa using hj) i (by simpa using hi)
    simp only [List.flatMap_cons, List.take_succ_cons, List.map_cons, List.sum_cons,
      List.getElem_cons_succ] at ih ⊢
    rw [List.getD_eq_getElem?_getD, List.getElem?_append_right (by omega)]
    rw [List.getD_eq_getElem?_getD] at ih
    rw [← ih]
    congr 2
    omega

/-! ### the sliced axis -/

/-- length of the piece an entry of the plan reads -/
def pieceLen (cs : List Nat) (p : Nat × PySlice) : Nat := (sel p.2 ((toI cs).getD p.1 0)).length

theorem slicePlan_facts (cs : List Nat) (hne : cs ≠ []) (s : PySlice) (hs : s.stp ≠ 0) (n : Nat)
    (hn : n = cs.sum) :
    planPositions (toI cs) (slicePlan n cs s) = sel s n ∧
    (∀ p ∈ slicePlan n cs s, p.1 < cs.length) ∧
    sliceChunks1 n cs s = (slicePlan n cs s).map (pieceLen cs) := by
  have hnI : (n : Int) = isum (toI cs) := by rw [isum_toI, hn]
  have hl := toI_nonneg cs
  have h0 : (0 : Int) ≤ isum (toI cs) := by rw [← hnI]; exact Int.natCast_nonneg n
  have hstp := stp_normalize s (isum (toI cs)) h0 hs
  have hlen : 0 < cs.length := List.length_pos_iff.mpr hne
  unfold slicePlan sliceChunks1
  simp only [hnI, hstp]
  refine ⟨slice1d_partition' (toI cs) s hl hs, ?_, ?_⟩
  · intro p hp
    rw [mem_orderedPlan] at hp
    rcases Int.lt_trichotomy s.stp 0 with h | h | h
    · have := (Dask.Lemmas.Slice1dNeg.slice1d_keys_neg (toI cs) s hl h).2 p hp
      rw [toI_length] at this; omega
    · exact absurd h hs
    · have := (Dask.Lemmas.Slice1dPos.slice1d_keys_pos (toI cs) s hl h).2 p hp
      rw [toI_length] at this; omega
  · have key : newBlockdim (isum (toI cs)) (toI cs) (normalizeSlice s (isum (toI cs)))
        = planLengths (toI cs)
            (orderedPlan s.stp (slice1d (isum (toI cs)) (toI cs) (normalizeSlice s (isum (toI cs))))) := by
      unfold orderedPlan
      by_cases h : s.stp < 0
      · rw [if_pos h]; exact newBlockdim_eq_planLengths_neg (toI cs) s hl h
      · rw [if_neg h]
        exact Dask.Lemmas.Slice1dPos.newBlockdim_eq_planLengths_pos (toI cs) s hl (by omega)
    rw [key]
    unfold planLengths
    rw [List.map_map]
    apply List.map_congr_left
    intro p _
    simp [pieceLen]

theorem getD_map_lt {α} (f : α → Nat) (l : List α) (j : Nat) (hj : j < l.length) :
    (l.map f).getD j 0 = f l[j] := by
  simp [List.getD_eq_getElem?_getD, hj]

theorem sliceAxis_ok (cs : List Nat) (hne : cs ≠ []) (s : PySlice) (hs : s.stp ≠ 0) (n : Nat)
    (hn : n = cs.sum) : AxisOK (sliceAxis n cs s) (sliceChunks1 n cs s) cs := by
  obtain ⟨hpos, hkeys, hch⟩ := slicePlan_facts cs hne s hs n hn
  intro j hj
  rw [hch, List.length_map] at hj
  rw [hch]
  have hgetD : (slicePlan n cs s).getD j dfltEntry = (slicePlan n cs s)[j] :=
    getD_eq_getElem _ _ _ hj
  have hoc : ((slicePlan n cs s).map (pieceLen cs)).getD j 0 = pieceLen cs (slicePlan n cs s)[j] :=
    getD_map_lt _ _ _ hj
  refine ⟨?_, ?_⟩
  · simp only [sliceAxis, hgetD, hoc, pieceLen]
  · intro i hi
    rw [hoc] at hi
    have hmem : (slicePlan n cs s)[j] ∈ slicePlan n cs s := List.getElem_mem hj
    have hkey := hkeys _ hmem
    simp only [sliceAxis, hgetD]
    -- the local position is inside the child block
    have hlenE := toI_getD cs (slicePlan n cs s)[j].1
    have hb := sel_getD_bounds (slicePlan n cs s)[j].2 ((toI cs).getD (slicePlan n cs s)[j].1 0)
      (by rw [toI_getD]; exact Int.natCast_nonneg _) i hi
    refine ⟨hkey, by omega, ?_⟩
    -- global position
    have hfm := flatMap_getD
      (fun p : Nat × PySlice => (sel p.2 ((toI cs).getD p.1 0)).map (· + blockStart (toI cs) p.1))
      (slicePlan n cs s) j hj i (by simpa [pieceLen] using hi)
    have hpp : planPositions (toI cs) (slicePlan n cs s)
        = (slicePlan n cs s).flatMap (fun p : Nat × PySlice =>
            (sel p.2 ((toI cs).getD p.1 0)).map (· + blockStart (toI cs) p.1)) := rfl
    rw [← hpp, hpos] at hfm
    have hoff : ((List.take j (slicePlan n cs s)).map (fun p : Nat × PySlice =>
          ((sel p.2 ((toI cs).getD p.1 0)).map (· + blockStart (toI cs) p.1)).length)).sum
        = (((slicePlan n cs s).map (pieceLen cs)).take j).sum := by
      rw [← List.map_take]
      congr 1
      apply List.map_congr_left
      intro p _
      simp [pieceLen]
    rw [hoff] at hfm
    rw [hfm]
    have hloc : ((sel (slicePlan n cs s)[j].2 ((toI cs).getD (slicePlan n cs s)[j].1 0)).map
          (· + blockStart (toI cs) (slicePlan n cs s)[j].1)).getD i 0
        = (sel (slicePlan n cs s)[j].2 ((toI cs).getD (slicePlan n cs s)[j].1 0)).getD i 0
            + blockStart (toI cs) (slicePlan n cs s)[j].1 :=
      getD_map (· + blockStart (toI cs) (slicePlan n cs s)[j].1) _ i 0 0 hi
    rw [hloc, blockStart_toI]
    omega

/-! ### the integer-indexed axis -/

theorem bisectRight_gt : ∀ (l : List Int) (x : Int), bisectRight l x < l.length →
    x < l.getD (bisectRight l x) 0
  | [], _, h => by simp at h
  | y :: ys, x, h => by
    unfold bisectRight at h ⊢
    split
    · simpa
    · rename_i hxy
      rw [if_neg hxy] at h
      simpa using bisectRight_gt ys x (by simpa using h)

theorem slice1dInt_spec (cs : List Nat) (p : Int) (h0 : 0 ≤ p) (h1 : p < (cs.sum : Nat)) :
    (slice1dInt (toI cs) p).1 < cs.length ∧
    0 ≤ (slice1dInt (toI cs) p).2 ∧
    (slice1dInt (toI cs) p).2 < ((cs.getD (slice1dInt (toI cs) p).1 0 : Nat) : Int) ∧
    (((cs.take (slice1dInt (toI cs) p).1).sum : Nat) : Int) + (slice1dInt (toI cs) p).2 = p := by
  have hle := Dask.Lemmas.Slice1dPos.bisectRight_le (cumsum (toI cs)) p
  rw [Dask.Lemmas.Slice1dPos.cumsum_length, toI_length] at hle
  have hlt : bisectRight (cumsum (toI cs)) p < cs.length := by
    rcases Nat.lt_or_ge (bisectRight (cumsum (toI cs)) p) cs.length with h | h
    · exact h
    · exfalso
      have heq : bisectRight (cumsum (toI cs)) p = cs.length := by omega
      have hpos : 0 < cs.length := by
        rcases Nat.eq_zero_or_pos cs.length with h' | h'
        · have : cs = [] := List.eq_nil_of_length_eq_zero h'
          subst this; simp at h1; omega
        · exact h'
      have := Dask.Lemmas.Slice1dPos.bisectRight_spec (cumsum (toI cs)) p (cs.length - 1) (by omega)
      rw [Dask.Lemmas.Slice1dPos.cumsum_getD _ _ (by rw [toI_length]; omega), blockStart_toI] at this
      have e : cs.length - 1 + 1 = cs.length := by omega
      rw [e, List.take_length] at this
      omega
  have hgt := bisectRight_gt (cumsum (toI cs)) p
    (by rw [Dask.Lemmas.Slice1dPos.cumsum_length, toI_length]; exact hlt)
  rw [Dask.Lemmas.Slice1dPos.cumsum_getD _ _ (by rw [toI_length]; exact hlt), blockStart_toI,
    sum_take_succ cs _ hlt] at hgt
  have hoff := Dask.Lemmas.Slice1dPos.off_eq (toI cs) (bisectRight (cumsum (toI cs)) p)
    (by rw [toI_length]; omega)
  have hge := Dask.Lemmas.Slice1dPos.blockStart_istart_le (toI cs) p h0
  rw [blockStart_toI] at hge hoff
  simp only [slice1dInt]
  refine ⟨hlt, ?_, ?_, ?_⟩
  · split
    · rename_i hi; rw [if_pos hi] at hoff; omega
    · exact h0
  · split
    · rename_i hi; rw [if_pos hi] at hoff; push_cast at hgt; omega
    · rename_i hi; rw [if_neg hi] at hoff; push_cast at hgt; omega
  · split
    · rename_i hi; rw [if_pos hi] at hoff; omega
    · rename_i hi; rw [if_neg hi] at hoff; omega

/-! ### n-d -/

/-- every axis has at least one block -/
def NonEmptyAxes (l : Layout) : Prop := ∀ cs ∈ l, cs ≠ []

theorem wfIx_cons_int {n : Nat} {ns : List Nat} {k : Int} {r : List Ix} :
    wfIx (n :: ns) (.int k :: r) = true ↔ (-(n : Int) ≤ k ∧ k < (n : Int)) ∧ wfIx ns r = true := by
  simp [wfIx]

theorem wfIx_cons_slc {n : Nat} {ns : List Nat} {s : PySlice} {r : List Ix} :
    wfIx (n :: ns) (.slc s :: r) = true ↔ s.stp ≠ 0 ∧ wfIx ns r = true := by
  simp [wfIx]

theorem sliceSpecs_ok : ∀ (sh : List Nat) (cl : Layout) (idx : List Ix),
    cl.map List.sum = sh → NonEmptyAxes cl → wfIx sh idx = true →
    SpecsOK (sliceSpecs sh cl idx) (sliceChunks sh cl idx) cl
  | [], [], [], _, _, _ => by simp only [sliceSpecs, sliceChunks]; exact SpecsOK.nil
  | n :: ns, cs :: cl, .int k :: r, hsum, hne, hwf => by
    simp only [List.map_cons, List.cons.injEq] at hsum
    rw [wfIx_cons_int] at hwf
    have ih := sliceSpecs_ok ns cl r hsum.2 (fun c hc => hne c (List.mem_cons_of_mem _ hc)) hwf.2
    simp only [sliceSpecs, sliceChunks, intAxis]
    have hp0 : 0 ≤ posifyInt n k := by unfold posifyInt; split <;> omega
    have hp1 : posifyInt n k < ((cs.sum : Nat) : Int) := by
      rw [hsum.1]; unfold posifyInt; split <;> omega
    obtain ⟨a1, a2, a3, a4⟩ := slice1dInt_spec cs (posifyInt n k) hp0 hp1
    exact SpecsOK.fix a1 (by omega) (by omega) ih
  | n :: ns, cs :: cl, .slc s :: r, hsum, hne, hwf => by
    simp only [List.map_cons, List.cons.injEq] at hsum
    rw [wfIx_cons_slc] at hwf
    have ih := sliceSpecs_ok ns cl r hsum.2 (fun c hc => hne c (List.mem_cons_of_mem _ hc)) hwf.2
    simp only [sliceSpecs, sliceChunks]
    exact SpecsOK.keep (sliceAxis_ok cs (hne cs (by simp)) s hwf.1 n hsum.1.symm) ih
  | [], _ :: _, _, hsum, _, _ => by simp at hsum
  | _ :: _, [], _, hsum, _, _ => by simp at hsum
  | [], [], _ :: _, _, _, hwf => by simp [wfIx] at hwf
  | _ :: _, _ :: _, [], _, _, hwf => by simp [wfIx] at hwf

/-- spec side: `gGlob` of the slice specs is NumPy's index map -/
theorem gGlob_sliceSpecs : ∀ (sh : List Nat) (cl : Layout) (idx : List Ix) (g : List Nat),
    sh.length = cl.length → InB g (sliceShape sh idx) →
    gGlob (sliceSpecs sh cl idx) g = sliceIdx sh idx g
  | [], [], [], g, _, _ => by simp [sliceSpecs, gGlob, sliceIdx]
  | n :: ns, cs :: cl, .int k :: r, g, hl, hg => by
    simp only [sliceShape] at hg
    simp only [sliceSpecs, intAxis, gGlob, sliceIdx]
    rw [gGlob_sliceSpecs ns cl r g (by simpa using hl) hg]
  | n :: ns, cs :: cl, .slc s :: r, [], _, hg => by simp [sliceShape, InB] at hg
  | n :: ns, cs :: cl, .slc s :: r, x :: g, hl, hg => by
    simp only [sliceShape, InB] at hg
    simp only [sliceSpecs, gGlob, sliceIdx, sliceAxis]
    rw [gGlob_sliceSpecs ns cl r g (by simpa using hl) hg.2]
  | [], _ :: _, _, _, hl, _ => by simp at hl
  | _ :: _, [], _, _, hl, _ => by simp at hl
  | [], [], _ :: _, g, _, hg => by
    cases g <;> simp [sliceSpecs, gGlob, sliceIdx]
  | _ :: _, _ :: _, [], g, _, hg => by
    cases g <;> simp [sliceSpecs, gGlob, sliceIdx]

end Dask.ND
