/-
The old→new crosswalk (`old_to_new` / `_intersect_1d`, one axis) covers each new block
exactly once with contiguous in-bounds pieces of old blocks.

Proof: a state invariant `Inv` on the `_intersect_1d` loop, stated on the *fused* view of the
merge (`mergeBreaks os ns` with `os`/`ns` the not-yet-consumed cumulative boundaries),
preserved by consuming an `o` entry (`step_o`) and an `n` entry (`step_n`).
-/
import DaskArrayModel.Model.RechunkSpec

namespace Dask.Lemmas.Crosswalk
open Dask.Py Dask.Rechunk

/-! ### sums and cumulative sums -/

theorem isum_append (l1 l2 : List Int) : isum (l1 ++ l2) = isum l1 + isum l2 := by
  induction l1 with
  | nil => simp [isum]
  | cons a l ih => simp [isum, ih]; omega

theorem isum_nonneg (l : List Int) (h : ∀ x ∈ l, 0 ≤ x) : 0 ≤ isum l := by
  induction l with
  | nil => simp [isum]
  | cons a l ih =>
    have h1 := h a (by simp)
    have h2 := ih (fun x hx => h x (by simp [hx]))
    simp [isum]; omega

theorem getD_nonneg (l : List Int) (h : ∀ x ∈ l, 0 ≤ x) (j : Nat) : 0 ≤ l.getD j 0 := by
  rw [List.getD_eq_getElem?_getD]
  by_cases hj : j < l.length
  · rw [List.getElem?_eq_getElem hj]; exact h _ (List.getElem_mem hj)
  · rw [List.getElem?_eq_none (by omega)]; simp

theorem oldStart_zero (l : List Int) : oldStart l 0 = 0 := by simp [oldStart, isum]

theorem oldStart_succ (l : List Int) (j : Nat) (h : j < l.length) :
    oldStart l (j + 1) = oldStart l j + l.getD j 0 := by
  unfold oldStart
  rw [List.take_succ_eq_append_getElem h, isum_append, List.getD_eq_getElem?_getD,
    List.getElem?_eq_getElem h]
  simp [isum]

theorem oldStart_length (l : List Int) : oldStart l l.length = isum l := by
  simp [oldStart]

theorem oldStart_nonneg (l : List Int) (h : ∀ x ∈ l, 0 ≤ x) (j : Nat) : 0 ≤ oldStart l j :=
  isum_nonneg _ (fun x hx => h x (List.mem_of_mem_take hx))

theorem oldStart_le (l : List Int) (h : ∀ x ∈ l, 0 ≤ x) (j : Nat) : oldStart l j ≤ isum l := by
  have h1 : isum l = isum (l.take j) + isum (l.drop j) := by
    rw [← isum_append, List.take_append_drop]
  have h2 := isum_nonneg (l.drop j) (fun x hx => h x (List.mem_of_mem_drop hx))
  unfold oldStart; omega

theorem drop_cumsumFrom (l : List Int) : ∀ (acc : Int) (j : Nat), j ≤ l.length →
    (acc :: cumsumFrom acc l).drop j =
      (acc + isum (l.take j)) :: (acc :: cumsumFrom acc l).drop (j + 1) := by
  induction l with
  | nil => intro acc j hj; have : j = 0 := by simpa using hj
           subst this; simp [isum]
  | cons c l ih =>
    intro acc j hj
    cases j with
    | zero => simp [isum]
    | succ j =>
      have := ih (acc + c) j (by simpa using hj)
      simp only [List.drop_succ_cons, cumsumFrom, List.take_succ_cons, isum] at this ⊢
      rw [this]; congr 1; omega

theorem length_cumsumFrom (l : List Int) : ∀ acc, (cumsumFrom acc l).length = l.length := by
  induction l with
  | nil => intro; rfl
  | cons c l ih => intro acc; simp [cumsumFrom, ih]

theorem length_cum0 (l : List Int) : (cum0 l).length = l.length + 1 := by
  simp [cum0, cumsum, length_cumsumFrom]

/-- the not-yet-consumed boundaries: head is the cumulative sum, tail is the next drop -/
theorem drop_cum0 (l : List Int) (j : Nat) (hj : j ≤ l.length) :
    (cum0 l).drop j = oldStart l j :: (cum0 l).drop (j + 1) := by
  have := drop_cumsumFrom l 0 j hj
  simpa [cum0, cumsum, oldStart] using this

theorem drop_cum0_nil (l : List Int) (j : Nat) (hj : l.length < j) : (cum0 l).drop j = [] := by
  apply List.drop_eq_nil_of_le; rw [length_cum0]; omega

theorem drop_cum0_cons {l : List Int} {j : Nat} {a : Int} {r : List Int}
    (h : a :: r = (cum0 l).drop j) :
    j ≤ l.length ∧ a = oldStart l j ∧ r = (cum0 l).drop (j + 1) := by
  by_cases hj : j ≤ l.length
  · rw [drop_cum0 l j hj] at h
    injection h with h1 h2
    exact ⟨hj, h1, h2⟩
  · rw [drop_cum0_nil l j (by omega)] at h; cases h

theorem drop_cum0_eq_nil {l : List Int} {j : Nat} (h : [] = (cum0 l).drop j) : l.length < j := by
  by_cases hj : j ≤ l.length
  · rw [drop_cum0 l j hj] at h; cases h
  · omega

theorem getLast?_cumsumFrom (l : List Int) : ∀ acc,
    (acc :: cumsumFrom acc l).getLast? = some (acc + isum l) := by
  induction l with
  | nil => intro acc; simp [cumsumFrom, isum]
  | cons c l ih =>
    intro acc
    have := ih (acc + c)
    simp only [cumsumFrom, isum]
    rw [List.getLast?_cons_cons, this]; congr 1; omega

theorem getLast?_cum0 (l : List Int) : (cum0 l).getLast? = some (isum l) := by
  have := getLast?_cumsumFrom l 0
  simpa [cum0, cumsum] using this

/-! ### unit-step ranges -/

theorem rangeList_one (a b : Int) :
    rangeList a b 1 = (List.range (b - a).toNat).map (fun i : Nat => a + (i : Int)) := by
  have h : rangeLen a b 1 = (b - a).toNat := by
    unfold rangeLen; simp; omega
  simp [rangeList, h]

theorem rangeList_self (a : Int) : rangeList a a 1 = [] := by simp [rangeList_one]

theorem rangeList_append (a b c : Int) (h1 : a ≤ b) (h2 : b ≤ c) :
    rangeList a b 1 ++ rangeList b c 1 = rangeList a c 1 := by
  have h : (c - a).toNat = (b - a).toNat + (c - b).toNat := by omega
  rw [rangeList_one, rangeList_one, rangeList_one, h, List.range_add, List.map_append,
    List.map_map]
  congr 1
  apply List.map_congr_left
  intro i _
  simp; omega

theorem piecesPositions_nil (old : List Int) : piecesPositions old [] = [] := rfl

theorem piecesPositions_snoc (old : List Int) (ps : List Piece) (p : Piece) :
    piecesPositions old (ps ++ [p]) = piecesPositions old ps ++
      rangeList (oldStart old p.idx.toNat + p.s) (oldStart old p.idx.toNat + p.e) 1 := by
  simp [piecesPositions, List.flatMap_append]

theorem newBlockPositions_eq (new : List Int) (j : Nat) :
    newBlockPositions new j = rangeList (oldStart new j) (oldStart new (j + 1)) 1 := rfl

/-! ### the merge, one entry at a time -/

theorem mergeBreaks_nil_right (os : List Int) :
    mergeBreaks os [] = os.map (fun x => (Lbl.o, x)) := by
  cases os <;> simp [mergeBreaks]

theorem mergeBreaks_cases (os ns : List Int) :
    (os = [] ∧ ns = [] ∧ mergeBreaks os ns = []) ∨
    (∃ a os', os = a :: os' ∧ (∀ b ns', ns = b :: ns' → a ≤ b) ∧
        mergeBreaks os ns = (Lbl.o, a) :: mergeBreaks os' ns) ∨
    (∃ b ns', ns = b :: ns' ∧ (∀ a os', os = a :: os' → b < a) ∧
        mergeBreaks os ns = (Lbl.n, b) :: mergeBreaks os ns') := by
  cases os with
  | nil =>
    cases ns with
    | nil => left; simp [mergeBreaks]
    | cons b ns' =>
      right; right
      exact ⟨b, ns', rfl, by simp, by simp [mergeBreaks]⟩
  | cons a os' =>
    cases ns with
    | nil =>
      right; left
      refine ⟨a, os', rfl, by simp, ?_⟩
      rw [mergeBreaks_nil_right, mergeBreaks_nil_right]; rfl
    | cons b ns' =>
      by_cases h : a ≤ b
      · right; left
        refine ⟨a, os', rfl, ?_, by simp [mergeBreaks, h]⟩
        intro b' ns'' e; injection e with e1 e2; omega
      · right; right
        refine ⟨b, ns', rfl, ?_, by simp [mergeBreaks, h]⟩
        intro a' os'' e; injection e with e1 e2; omega

theorem mergeBreaks_filter_o (os ns : List Int) :
    (mergeBreaks os ns).filter (fun p => p.1 = Lbl.o) = os.map (fun x => (Lbl.o, x)) := by
  fun_induction mergeBreaks os ns with
  | case1 ns => simp [List.filter_eq_nil_iff]
  | case2 os _ => simp [List.filter_eq_self]
  | case3 a os b ns h ih => simp [ih]
  | case4 a os b ns h ih => simpa [List.filter_cons] using ih


/-! ### one loop iteration, case by case -/

/-- `ret` after the flush performed at the head of an iteration whose previous label is `lab` -/
def flushRet (lab : Lbl) (st : IState) : List (List Piece) :=
  if lab = Lbl.n ∧ st.retNext ≠ [] then st.ret ++ [st.retNext] else st.ret

/-- `ret_next` after that flush -/
def flushNext (lab : Lbl) (st : IState) : List Piece :=
  if lab = Lbl.n ∧ st.retNext ≠ [] then [] else st.retNext

/-- the Python variable `start` at the head of an iteration -/
def startOf (lab : Lbl) (st : IState) : Int := if lab = Lbl.n then st.lastEnd else 0

theorem istep_o_same (lo lb : Int) (st : IState) (lab : Lbl) (x : Int) :
    istep lo lb st (lab, x) (Lbl.o, x) =
      { lastEnd := startOf lab st, oldIdx := st.oldIdx + 1, lastOEnd := startOf lab st,
        ret := flushRet lab st, retNext := flushNext lab st } := by
  simp [istep, flushRet, flushNext, startOf]

theorem istep_o_ne (lo lb : Int) (st : IState) (lab : Lbl) (x a : Int) (h : a ≠ x) :
    istep lo lb st (lab, x) (Lbl.o, a) =
      { lastEnd := a - x + startOf lab st, oldIdx := st.oldIdx + 1,
        lastOEnd := a - x + startOf lab st, ret := flushRet lab st,
        retNext := flushNext lab st ++
          [⟨st.oldIdx, startOf lab st, a - x + startOf lab st⟩] } := by
  simp [istep, flushRet, flushNext, startOf, h]

theorem istep_n_o_same (lo lb : Int) (st : IState) (x : Int) :
    istep lo lb st (Lbl.o, x) (Lbl.n, x) =
      { lastEnd := 0, oldIdx := st.oldIdx, lastOEnd := st.lastOEnd,
        ret := st.ret, retNext := st.retNext } := by
  simp [istep]

theorem istep_n_n_last (lo lb : Int) (st : IState) (x : Int) (h : x = lb) :
    istep lo lb st (Lbl.n, x) (Lbl.n, x) =
      { lastEnd := st.lastEnd, oldIdx := st.oldIdx, lastOEnd := st.lastOEnd,
        ret := flushRet Lbl.n st,
        retNext := flushNext Lbl.n st ++ [⟨lo, st.lastOEnd, st.lastOEnd⟩] } := by
  simp [istep, flushRet, flushNext, h]

theorem istep_n_n_mid (lo lb : Int) (st : IState) (x : Int) (h : x ≠ lb) :
    istep lo lb st (Lbl.n, x) (Lbl.n, x) =
      { lastEnd := st.lastEnd, oldIdx := st.oldIdx, lastOEnd := st.lastOEnd,
        ret := flushRet Lbl.n st,
        retNext := flushNext Lbl.n st ++ [⟨st.oldIdx, st.lastEnd, st.lastEnd⟩] } := by
  simp [istep, flushRet, flushNext, h]

theorem istep_n_ne (lo lb : Int) (st : IState) (lab : Lbl) (x b : Int) (h : b ≠ x) :
    istep lo lb st (lab, x) (Lbl.n, b) =
      { lastEnd := b - x + startOf lab st, oldIdx := st.oldIdx, lastOEnd := st.lastOEnd,
        ret := flushRet lab st,
        retNext := flushNext lab st ++
          [⟨st.oldIdx, startOf lab st, b - x + startOf lab st⟩] } := by
  simp [istep, flushRet, flushNext, startOf, h]

theorem getD_snoc_lt {α} (R : List (List α)) (T : List α) (j : Nat) (h : j < R.length) :
    (R ++ [T]).getD j [] = R.getD j [] := by
  simp [List.getD_eq_getElem?_getD, List.getElem?_append_left h]

theorem getD_snoc_eq {α} (R : List (List α)) (T : List α) :
    (R ++ [T]).getD R.length [] = T := by
  simp [List.getD_eq_getElem?_getD]

/-! ### the loop invariant -/

/-- the finished crosswalk entry of new block `j` -/
def Good (old new : List Int) (j : Nat) (ps : List Piece) : Prop :=
  (∀ p ∈ ps, PieceOK old p) ∧ ps ≠ [] ∧ piecesPositions old ps = newBlockPositions new j

/-- Invariant at the head of the iteration whose previous entry is `(lab, x)`; `os`/`ns` are the
old/new boundaries not yet consumed, `i` the number of `o` entries consumed minus one and `q`
the number of `n` entries consumed. -/
structure Inv (old new : List Int) (lab : Lbl) (x : Int) (os ns : List Int) (st : IState)
    (i q : Nat) : Prop where
  hidx : st.oldIdx = (i : Int)
  hi : i ≤ old.length
  hq : q ≤ new.length + 1
  hos : os = (cum0 old).drop (i + 1)
  hns : ns = (cum0 new).drop q
  hstart : startOf lab st = x - oldStart old i
  hlo : oldStart old i ≤ x
  hx : x ≤ isum old
  hn : lab = Lbl.n → 1 ≤ q ∧ x = oldStart new (q - 1)
  hnlo : 1 ≤ q → oldStart new (q - 1) ≤ x
  hoe : 1 ≤ i → st.lastOEnd = old.getD (i - 1) 0
  hoh : ∀ a os', os = a :: os' → x ≤ a ∧ (lab = Lbl.n → x < a)
  hnh : ∀ b ns', ns = b :: ns' → x ≤ b
  hend : ns = [] → lab = Lbl.n ∧ os = []
  hlen : (flushRet lab st).length = q - 1
  hgood : ∀ j, j < q - 1 → Good old new j ((flushRet lab st).getD j [])
  hpok : ∀ p ∈ flushNext lab st, PieceOK old p
  hq0 : q = 0 → flushNext lab st = []
  hpos : 1 ≤ q →
    piecesPositions old (flushNext lab st) = rangeList (oldStart new (q - 1)) x 1
  hne : 1 ≤ q → lab = Lbl.o → flushNext lab st ≠ []

theorem step_o_core {old new : List Int} (ho : ∀ c ∈ old, 0 ≤ c)
    {lab : Lbl} {x a : Int} {os' ns : List Int} {st st2 : IState} {i q : Nat}
    (I : Inv old new lab x (a :: os') ns st i q)
    (hm : ∀ b ns', ns = b :: ns' → a ≤ b)
    (h1 : st2.oldIdx = st.oldIdx + 1)
    (h2 : st2.lastOEnd = a - x + startOf lab st)
    (h3 : st2.ret = flushRet lab st)
    (h4 : (st2.retNext = flushNext lab st ∧ a = x) ∨
          (st2.retNext = flushNext lab st ++
              [⟨st.oldIdx, startOf lab st, a - x + startOf lab st⟩] ∧ a ≠ x)) :
    Inv old new Lbl.o a os' ns st2 (i + 1) q := by
  obtain ⟨hi1, ha, hos'⟩ := drop_cum0_cons I.hos
  have hsucc := oldStart_succ old i (by omega)
  have hxa := I.hoh a os' rfl
  have hc := getD_nonneg old ho i
  have hst := I.hstart
  have hlo := I.hlo
  have hidx := I.hidx
  have hfr : flushRet Lbl.o st2 = st2.ret := by simp [flushRet]
  have hfn : flushNext Lbl.o st2 = st2.retNext := by simp [flushNext]
  have hpiece : PieceOK old ⟨st.oldIdx, startOf lab st, a - x + startOf lab st⟩ := by
    rw [hidx]; unfold PieceOK; simp only [Int.toNat_natCast]
    refine ⟨by omega, by omega, by omega, by omega, by omega⟩
  exact
  { hidx := by rw [h1, hidx]; omega
    hi := by omega
    hq := I.hq
    hos := hos'
    hns := I.hns
    hstart := by simp [startOf]; omega
    hlo := by omega
    hx := by have := oldStart_le old ho (i + 1); omega
    hn := fun h => Lbl.noConfusion h
    hnlo := fun h => by have := I.hnlo h; omega
    hoe := fun _ => by rw [Nat.add_sub_cancel, h2]; omega
    hoh := fun a' os'' e => by
      obtain ⟨hi2, ha', _⟩ := drop_cum0_cons (e ▸ hos')
      have := oldStart_succ old (i + 1) (by omega)
      have := getD_nonneg old ho (i + 1)
      exact ⟨by omega, fun h => Lbl.noConfusion h⟩
    hnh := hm
    hend := fun h => by have := (I.hend h).2; cases this
    hlen := by rw [hfr, h3]; exact I.hlen
    hgood := by rw [hfr, h3]; exact I.hgood
    hpok := by
      rw [hfn]
      rcases h4 with ⟨e, _⟩ | ⟨e, _⟩ <;> rw [e]
      · exact I.hpok
      · intro p hp
        rcases List.mem_append.1 hp with h | h
        · exact I.hpok p h
        · simp at h; subst h; exact hpiece
    hq0 := fun hq0 => by
      have hns0 := I.hns
      rw [hq0, drop_cum0 new 0 (Nat.zero_le _)] at hns0
      have h5 := hm _ _ hns0
      have h6 := oldStart_zero new
      have h7 := oldStart_nonneg old ho i
      rw [hfn]
      rcases h4 with ⟨e, _⟩ | ⟨_, hne⟩
      · rw [e]; exact I.hq0 hq0
      · omega
    hpos := fun hq1 => by
      rw [hfn]
      rcases h4 with ⟨e, hax⟩ | ⟨e, hax⟩
      · rw [e, I.hpos hq1, hax]
      · rw [e, piecesPositions_snoc, I.hpos hq1]
        simp only [hidx, Int.toNat_natCast]
        have e1 : oldStart old i + startOf lab st = x := by omega
        have e2 : oldStart old i + (a - x + startOf lab st) = a := by omega
        rw [e1, e2]
        exact rangeList_append _ _ _ (I.hnlo hq1) hxa.1
    hne := fun hq1 _ => by
      rw [hfn]
      rcases h4 with ⟨e, hax⟩ | ⟨e, _⟩
      · rw [e]; apply I.hne hq1
        cases lab
        · rfl
        · have := hxa.2 rfl; omega
      · rw [e]; simp }

theorem step_o {old new : List Int} (ho : ∀ c ∈ old, 0 ≤ c) (lo lb : Int)
    {lab : Lbl} {x a : Int} {os' ns : List Int} {st : IState} {i q : Nat}
    (I : Inv old new lab x (a :: os') ns st i q)
    (hm : ∀ b ns', ns = b :: ns' → a ≤ b) :
    Inv old new Lbl.o a os' ns (istep lo lb st (lab, x) (Lbl.o, a)) (i + 1) q := by
  by_cases hax : a = x
  · subst hax
    rw [istep_o_same]
    exact step_o_core ho I hm rfl (by simp) rfl (Or.inl ⟨rfl, rfl⟩)
  · rw [istep_o_ne _ _ _ _ _ _ hax]
    exact step_o_core ho I hm rfl rfl rfl (Or.inr ⟨rfl, hax⟩)


theorem flushNext_n (st : IState) : flushNext Lbl.n st = [] := by
  unfold flushNext; by_cases h : st.retNext = [] <;> simp [h]

theorem step_n_core {old new : List Int} (ho : ∀ c ∈ old, 0 ≤ c) (hn : ∀ c ∈ new, 0 ≤ c)
    (hsum : isum old = isum new)
    {lab : Lbl} {x b : Int} {os ns' : List Int} {st st2 : IState} {i q : Nat}
    (I : Inv old new lab x os (b :: ns') st i q)
    (hm : ∀ a os', os = a :: os' → b < a)
    (h1 : st2.oldIdx = st.oldIdx)
    (h2 : st2.lastOEnd = st.lastOEnd)
    (h3 : st2.ret = flushRet lab st)
    (h5 : st2.lastEnd = b - x + startOf lab st)
    (h4 : (st2.retNext = flushNext lab st ∧ b = x ∧ lab = Lbl.o) ∨
          (∃ p, st2.retNext = flushNext lab st ++ [p] ∧ (b ≠ x ∨ lab = Lbl.n) ∧ PieceOK old p ∧
             oldStart old p.idx.toNat + p.s = x ∧ oldStart old p.idx.toNat + p.e = b)) :
    Inv old new Lbl.n b os ns' st2 i (q + 1) := by
  obtain ⟨hq1, hb, hns'⟩ := drop_cum0_cons I.hns
  have hxb := I.hnh b ns' rfl
  have hst := I.hstart
  have hlo := I.hlo
  have hfn : flushNext Lbl.n st2 = [] := flushNext_n st2
  have hfr : flushRet Lbl.n st2 =
      if st2.retNext ≠ [] then st2.ret ++ [st2.retNext] else st2.ret := by simp [flushRet]
  have hz : q = 0 → b = x ∧ lab = Lbl.o := fun hq0 => by
    have h6 := oldStart_zero new
    have h7 := oldStart_nonneg old ho i
    subst hq0
    refine ⟨by omega, ?_⟩
    cases lab
    · rfl
    · have := (I.hn rfl).1; omega
  have hT2nil : q = 0 → st2.retNext = [] := fun hq0 => by
    rcases h4 with ⟨e, _⟩ | ⟨p, _, hc, _⟩
    · rw [e]; exact I.hq0 hq0
    · have := hz hq0
      rcases hc with hc | hc
      · exact absurd this.1 hc
      · rw [this.2] at hc; exact Lbl.noConfusion hc
  have hT2ne : 1 ≤ q → st2.retNext ≠ [] := fun hq1 => by
    rcases h4 with ⟨e, _, hl⟩ | ⟨p, e, _⟩
    · rw [e]; exact I.hne hq1 hl
    · rw [e]; simp
  have hT2ok : ∀ p ∈ st2.retNext, PieceOK old p := by
    rcases h4 with ⟨e, _⟩ | ⟨p, e, _, hp, _⟩ <;> rw [e]
    · exact I.hpok
    · intro p' hp'
      rcases List.mem_append.1 hp' with h | h
      · exact I.hpok p' h
      · simp at h; subst h; exact hp
  have hT2pos : 1 ≤ q →
      piecesPositions old st2.retNext = rangeList (oldStart new (q - 1)) b 1 := fun hq1 => by
    rcases h4 with ⟨e, hbx, _⟩ | ⟨p, e, _, _, e1, e2⟩
    · rw [e, I.hpos hq1, hbx]
    · rw [e, piecesPositions_snoc, I.hpos hq1, e1, e2]
      exact rangeList_append _ _ _ (I.hnlo hq1) hxb
  exact
  { hidx := by rw [h1]; exact I.hidx
    hi := I.hi
    hq := by omega
    hos := I.hos
    hns := hns'
    hstart := by simp [startOf]; rw [h5]; omega
    hlo := by omega
    hx := by have := oldStart_le new hn q; omega
    hn := fun _ => ⟨by omega, by rw [Nat.add_sub_cancel]; exact hb⟩
    hnlo := fun _ => by rw [Nat.add_sub_cancel]; omega
    hoe := fun h => by rw [h2]; exact I.hoe h
    hoh := fun a os' e => ⟨by have := hm a os' e; omega, fun _ => hm a os' e⟩
    hnh := fun b' ns'' e => by
      obtain ⟨hq2, hb', _⟩ := drop_cum0_cons (e ▸ hns')
      have := oldStart_succ new q (by omega)
      have := getD_nonneg new hn q
      omega
    hend := fun h => ⟨rfl, by
      subst h
      have hq2 := drop_cum0_eq_nil hns'
      have hqk : q = new.length := by omega
      have := oldStart_length new
      cases os with
      | nil => rfl
      | cons a os' =>
        have := hm a os' rfl
        obtain ⟨_, ha, _⟩ := drop_cum0_cons I.hos
        have := oldStart_le old ho (i + 1)
        subst hqk
        omega⟩
    hlen := by
      rw [hfr, h3]
      by_cases hq0 : q = 0
      · rw [hT2nil hq0]; simp [I.hlen, hq0]
      · rw [if_pos (hT2ne (by omega))]; simp [I.hlen]; omega
    hgood := fun j hj => by
      have hq1 : 1 ≤ q := by omega
      rw [hfr, h3, if_pos (hT2ne hq1)]
      by_cases hj2 : j < q - 1
      · rw [getD_snoc_lt _ _ _ (by rw [I.hlen]; exact hj2)]; exact I.hgood j hj2
      · have hjq : j = (flushRet lab st).length := by rw [I.hlen]; omega
        rw [hjq, getD_snoc_eq]
        refine ⟨hT2ok, hT2ne hq1, ?_⟩
        rw [hT2pos hq1, newBlockPositions_eq, I.hlen, hb]
        congr 2; omega
    hpok := by rw [hfn]; simp
    hq0 := fun h => by omega
    hpos := fun _ => by rw [hfn, Nat.add_sub_cancel, ← hb, rangeList_self]; rfl
    hne := fun _ h => Lbl.noConfusion h }

theorem step_n {old new : List Int} (ho : ∀ c ∈ old, 0 ≤ c) (hn : ∀ c ∈ new, 0 ≤ c)
    (hsum : isum old = isum new) (hone : old ≠ []) (lo lb : Int)
    (hlo : lo = (old.length : Int) - 1) (hlb : lb = isum old)
    {lab : Lbl} {x b : Int} {os ns' : List Int} {st : IState} {i q : Nat}
    (I : Inv old new lab x os (b :: ns') st i q)
    (hm : ∀ a os', os = a :: os' → b < a) :
    Inv old new Lbl.n b os ns' (istep lo lb st (lab, x) (Lbl.n, b)) i (q + 1) := by
  obtain ⟨hq1, hb, hns'⟩ := drop_cum0_cons I.hns
  have hxb := I.hnh b ns' rfl
  have hst := I.hstart
  have hlo' := I.hlo
  have hidx := I.hidx
  have hm1 : 1 ≤ old.length := by
    cases old with
    | nil => exact absurd rfl hone
    | cons _ _ => simp
  have hbtot : b ≤ isum old := by have := oldStart_le new hn q; omega
  have htot := oldStart_length old
  -- if the current old block exists, its end bounds `x` and (strictly) `b`
  have hin : i < old.length → x ≤ oldStart old (i + 1) ∧ (lab = Lbl.n → x < oldStart old (i + 1))
      ∧ b < oldStart old (i + 1) := fun hi => by
    have e := drop_cum0 old (i + 1) (by omega)
    rw [← I.hos] at e
    have h8 := I.hoh _ _ e
    have h9 := hm _ _ e
    exact ⟨by omega, h8.2, by omega⟩
  by_cases hbx : b = x
  · subst hbx
    cases lab with
    | o =>
      rw [istep_n_o_same]
      exact step_n_core ho hn hsum I hm rfl rfl (by simp [flushRet]) (by simp [startOf])
        (Or.inl ⟨by simp [flushNext], rfl, rfl⟩)
    | n =>
      have hsn : startOf Lbl.n st = st.lastEnd := by simp [startOf]
      by_cases hl : b = lb
      · rw [istep_n_n_last _ _ _ _ hl]
        -- all old boundaries are consumed: `i = old.length`
        have hi : i = old.length := by
          have := I.hi
          by_cases hi : i < old.length
          · have := (hin hi).2.2
            have := oldStart_le old ho (i + 1)
            omega
          · omega
        have hoe := I.hoe (by omega)
        have hsucc := oldStart_succ old (old.length - 1) (by omega)
        have hc := getD_nonneg old ho (old.length - 1)
        have e1 : old.length - 1 + 1 = old.length := by omega
        rw [e1] at hsucc
        have hto : (lo : Int).toNat = old.length - 1 := by omega
        refine step_n_core ho hn hsum I hm rfl rfl rfl (by simp [hsn])
          (Or.inr ⟨⟨lo, st.lastOEnd, st.lastOEnd⟩, rfl, Or.inr rfl, ?_, ?_, ?_⟩)
        · unfold PieceOK; simp only [hto]
          subst hi
          refine ⟨by omega, by omega, by omega, by omega, by omega⟩
        · simp only [hto]; subst hi; omega
        · simp only [hto]; subst hi; omega
      · rw [istep_n_n_mid _ _ _ _ hl]
        have hi : i < old.length := by
          have := I.hi
          have := I.hx
          by_cases hi : i < old.length
          · exact hi
          · have : i = old.length := by omega
            subst this; omega
        have hsucc := oldStart_succ old i hi
        have hh := (hin hi).2.1 rfl
        refine step_n_core ho hn hsum I hm rfl rfl rfl (by simp [hsn])
          (Or.inr ⟨⟨st.oldIdx, st.lastEnd, st.lastEnd⟩, rfl, Or.inr rfl, ?_, ?_, ?_⟩)
        · rw [hidx]; unfold PieceOK; simp only [Int.toNat_natCast]
          refine ⟨by omega, by omega, by omega, by omega, by omega⟩
        · simp only [hidx, Int.toNat_natCast]; omega
        · simp only [hidx, Int.toNat_natCast]; omega
  · rw [istep_n_ne _ _ _ _ _ _ hbx]
    have hi : i < old.length := by
      have := I.hi
      by_cases hi : i < old.length
      · exact hi
      · have : i = old.length := by omega
        subst this; omega
    have hsucc := oldStart_succ old i hi
    have hh := (hin hi).2.2
    refine step_n_core ho hn hsum I hm rfl rfl rfl rfl
      (Or.inr ⟨⟨st.oldIdx, startOf lab st, b - x + startOf lab st⟩, rfl, Or.inl hbx, ?_, ?_, ?_⟩)
    · rw [hidx]; unfold PieceOK; simp only [Int.toNat_natCast]
      refine ⟨by omega, by omega, by omega, by omega, by omega⟩
    · simp only [hidx, Int.toNat_natCast]; omega
    · simp only [hidx, Int.toNat_natCast]; omega


/-! ### the whole loop -/

theorem iloop_cons2 (lo lb : Int) (st : IState) (p c : Lbl × Int) (rest : List (Lbl × Int)) :
    iloop lo lb st (p :: c :: rest) = iloop lo lb (istep lo lb st p c) (c :: rest) := by
  simp [iloop]

theorem iloop_inv {old new : List Int} (ho : ∀ c ∈ old, 0 ≤ c) (hn : ∀ c ∈ new, 0 ≤ c)
    (hsum : isum old = isum new) (hone : old ≠ []) (lo lb : Int)
    (hlo : lo = (old.length : Int) - 1) (hlb : lb = isum old) :
    ∀ (k : Nat) (os ns : List Int), os.length + ns.length = k →
    ∀ (lab : Lbl) (x : Int) (st : IState) (i q : Nat), Inv old new lab x os ns st i q →
    ∃ lab' x' i' q',
      Inv old new lab' x' [] [] (iloop lo lb st ((lab, x) :: mergeBreaks os ns)) i' q' := by
  intro k
  induction k with
  | zero =>
    intro os ns hk lab x st i q I
    have h1 : os = [] := List.length_eq_zero_iff.mp (by omega)
    have h2 : ns = [] := List.length_eq_zero_iff.mp (by omega)
    subst h1 h2
    simp only [mergeBreaks, List.map_nil, iloop]
    exact ⟨lab, x, i, q, I⟩
  | succ k ih =>
    intro os ns hk lab x st i q I
    rcases mergeBreaks_cases os ns with ⟨h1, h2, _⟩ | ⟨a, os', h1, h2, h3⟩ | ⟨b, ns', h1, h2, h3⟩
    · subst h1 h2; simp at hk
    · subst h1
      rw [h3, iloop_cons2]
      exact ih os' ns (by simp at hk; omega) _ _ _ _ _ (step_o ho lo lb I h2)
    · subst h1
      rw [h3, iloop_cons2]
      exact ih os ns' (by simp at hk; omega) _ _ _ _ _
        (step_n ho hn hsum hone lo lb hlo hlb I h2)

theorem inv_init {old new : List Int} (ho : ∀ c ∈ old, 0 ≤ c) :
    Inv old new Lbl.o 0 (cumsum old) (cum0 new) {} 0 0 :=
  { hidx := rfl
    hi := Nat.zero_le _
    hq := Nat.zero_le _
    hos := rfl
    hns := rfl
    hstart := by simp [startOf, oldStart_zero]
    hlo := by rw [oldStart_zero]; omega
    hx := isum_nonneg old ho
    hn := fun h => Lbl.noConfusion h
    hnlo := fun h => by omega
    hoe := fun h => by omega
    hoh := fun a os' e => by
      have e' : a :: os' = (cum0 old).drop 1 := e.symm
      obtain ⟨_, ha, _⟩ := drop_cum0_cons e'
      have := oldStart_nonneg old ho 1
      exact ⟨by omega, fun h => Lbl.noConfusion h⟩
    hnh := fun b ns' e => by
      have e' : b :: ns' = (cum0 new).drop 0 := e.symm
      obtain ⟨_, hb, _⟩ := drop_cum0_cons e'
      have := oldStart_zero new
      omega
    hend := fun h => by simp [cum0] at h
    hlen := by simp [flushRet]
    hgood := fun j hj => by omega
    hpok := by simp [flushNext]
    hq0 := fun _ => by simp [flushNext]
    hpos := fun h => by omega
    hne := fun h => by omega }

theorem oldToNew1d_eq (old new : List Int) :
    oldToNew1d old new =
      flushRet Lbl.n (iloop ((old.length : Int) - 1) (isum old) {}
        ((Lbl.o, 0) :: mergeBreaks (cumsum old) (cum0 new))) := by
  have hb : breakpoints old new = (Lbl.o, 0) :: mergeBreaks (cumsum old) (cum0 new) := by
    simp [breakpoints, cum0, mergeBreaks]
  have hf := mergeBreaks_filter_o (cum0 old) (cum0 new)
  have h1 : (((breakpoints old new).filter (fun p => p.1 = Lbl.o)).length : Int) - 2
      = (old.length : Int) - 1 := by
    unfold breakpoints; rw [hf, List.length_map, length_cum0]; omega
  have h2 : ((((breakpoints old new).filter (fun p => p.1 = Lbl.o)).getLast?).map (·.2)).getD 0
      = isum old := by
    unfold breakpoints; rw [hf, List.getLast?_map, getLast?_cum0]; rfl
  unfold oldToNew1d intersect1d
  simp only [h1, h2]
  rw [hb]
  simp [flushRet]

set_option linter.unusedVariables false in
/-- FULL statement (zero-width chunks allowed). -/
theorem crosswalk_exact (old new : List Int)
    (ho : ∀ c ∈ old, 0 ≤ c) (hn : ∀ c ∈ new, 0 ≤ c)
    (hsum : isum old = isum new) (hone : old ≠ []) (hnne : new ≠ []) :
    (oldToNew1d old new).length = new.length ∧
    ∀ j (hj : j < new.length),
      (∀ p ∈ (oldToNew1d old new).getD j [], PieceOK old p) ∧
      (oldToNew1d old new).getD j [] ≠ [] ∧
      piecesPositions old ((oldToNew1d old new).getD j []) = newBlockPositions new j := by
  obtain ⟨lab', x', i', q', I⟩ :=
    iloop_inv ho hn hsum hone ((old.length : Int) - 1) (isum old) rfl rfl _
      (cumsum old) (cum0 new) rfl Lbl.o 0 {} 0 0 (inv_init ho)
  rw [oldToNew1d_eq]
  have hl : lab' = Lbl.n := (I.hend rfl).1
  subst hl
  have hq1 := drop_cum0_eq_nil I.hns
  have hq2 := I.hq
  have hq : q' - 1 = new.length := by omega
  refine ⟨by rw [I.hlen, hq], fun j hj => ?_⟩
  exact I.hgood j (by omega)

set_option linter.unusedVariables false in
/-- Strictly positive chunks (special case of `crosswalk_exact`). -/
theorem crosswalk_exact_pos_partial (old new : List Int)
    (ho : ∀ c ∈ old, 0 < c) (hn : ∀ c ∈ new, 0 < c)
    (hsum : isum old = isum new) (hone : old ≠ []) (hnne : new ≠ []) :
    (oldToNew1d old new).length = new.length ∧
    ∀ j (hj : j < new.length),
      (∀ p ∈ (oldToNew1d old new).getD j [], PieceOK old p) ∧
      (oldToNew1d old new).getD j [] ≠ [] ∧
      piecesPositions old ((oldToNew1d old new).getD j []) = newBlockPositions new j :=
  crosswalk_exact old new (fun c h => Int.le_of_lt (ho c h)) (fun c h => Int.le_of_lt (hn c h))
    hsum hone hnne

/-! ### non-vacuity -/

example : oldToNew1d [10, 10, 10, 10, 10] [25, 5, 20] =
    [[⟨0, 0, 10⟩, ⟨1, 0, 10⟩, ⟨2, 0, 5⟩], [⟨2, 5, 10⟩], [⟨3, 0, 10⟩, ⟨4, 0, 10⟩]] := by
  simp [oldToNew1d, breakpoints, cum0, cumsum, cumsumFrom, mergeBreaks, intersect1d, iloop, istep]

/-- zero-width chunks on both sides -/
example : oldToNew1d [2, 0, 1] [0, 3] = [[⟨0, 0, 0⟩], [⟨0, 0, 2⟩, ⟨2, 0, 1⟩]] := by
  simp [oldToNew1d, breakpoints, cum0, cumsum, cumsumFrom, mergeBreaks, intersect1d, iloop, istep]

/-- trailing zero-width new chunk: the degenerate `(last_old_chunk_idx, last_o_end)` piece -/
example : oldToNew1d [2, 1] [3, 0] = [[⟨0, 0, 2⟩, ⟨1, 0, 1⟩], [⟨1, 1, 1⟩]] := by
  simp [oldToNew1d, breakpoints, cum0, cumsum, cumsumFrom, mergeBreaks, intersect1d, iloop, istep]

end Dask.Lemmas.Crosswalk
