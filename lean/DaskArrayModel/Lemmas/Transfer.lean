/-
C27: well-formedness of the transfer estimates.  Facts about the integer numerator of
`moved_fraction` (`movedNum`) and the exact-integer model of `_rechunk_stage_transfer`
(`stageAxis` / `stageTransfer`), for ALL layouts (no size bound).  Core Lean only.
-/
import DaskArrayModel.Model.Rechunk
namespace Dask.Lemmas.Transfer
open Dask.Py Dask.Rechunk

/-! ### sums and prefix sums -/

theorem isum_append (a b : List Int) : isum (a ++ b) = isum a + isum b := by
  induction a with
  | nil => simp [isum]
  | cons x xs ih => simp only [List.cons_append, isum, ih]; omega

theorem isum_nonneg {l : List Int} (h : ∀ c ∈ l, 0 ≤ c) : 0 ≤ isum l := by
  induction l with
  | nil => simp [isum]
  | cons x xs ih =>
    have h1 := h x (by simp)
    have h2 := ih (fun c hc => h c (by simp [hc]))
    simp only [isum]; omega

/-- position where block `j` starts -/
def pre (src : List Int) (j : Nat) : Int := isum (src.take j)

theorem pre_zero (src : List Int) : pre src 0 = 0 := by simp [pre, isum]

theorem pre_succ (src : List Int) (j : Nat) (h : j < src.length) :
    pre src (j + 1) = pre src j + src.getD j 0 := by
  unfold pre
  rw [List.take_add_one, isum_append, List.getD_eq_getElem?_getD]
  simp [List.getElem?_eq_getElem h, isum]

theorem pre_length (src : List Int) : pre src src.length = isum src := by
  simp [pre]

theorem getD_nonneg {src : List Int} (h : ∀ c ∈ src, 0 ≤ c) (j : Nat) : 0 ≤ src.getD j 0 := by
  rw [List.getD_eq_getElem?_getD]
  by_cases hj : j < src.length
  · simp [List.getElem?_eq_getElem hj]; exact h _ (List.getElem_mem hj)
  · simp [List.getElem?_eq_none (by omega : src.length ≤ j)]

theorem pre_mono_succ {src : List Int} (h : ∀ c ∈ src, 0 ≤ c) (j : Nat) :
    pre src j ≤ pre src (j + 1) := by
  by_cases hj : j < src.length
  · rw [pre_succ src j hj]; have := getD_nonneg h j; omega
  · unfold pre
    rw [List.take_of_length_le (by omega), List.take_of_length_le (by omega)]
    exact Int.le_refl _

theorem pre_mono {src : List Int} (h : ∀ c ∈ src, 0 ≤ c) {i j : Nat} (hij : i ≤ j) :
    pre src i ≤ pre src j := by
  induction j with
  | zero => have : i = 0 := by omega
            subst this; exact Int.le_refl _
  | succ k ih =>
    by_cases hk : i = k + 1
    · subst hk; exact Int.le_refl _
    · have := ih (by omega); have := pre_mono_succ h k; omega

/-- from `src.drop c = x :: rest`: index facts -/
theorem drop_cons_facts {src : List Int} {c : Nat} {x : Int} {rest : List Int}
    (h : src.drop c = x :: rest) :
    c < src.length ∧ src.getD c 0 = x ∧ src.drop (c + 1) = rest := by
  have hc : c < src.length := by
    by_cases hc : c < src.length
    · exact hc
    · rw [List.drop_of_length_le (by omega)] at h; cases h
  refine ⟨hc, ?_, ?_⟩
  · rw [List.getD_eq_getElem?_getD, List.getElem?_eq_getElem hc]
    rw [List.drop_eq_getElem_cons hc] at h
    simp only [Option.getD_some]
    exact (List.cons.inj h).1
  · rw [List.drop_eq_getElem_cons hc] at h
    exact (List.cons.inj h).2

/-! ### `moved_fraction`: bounds -/

/-- the running maximum only grows and never exceeds the target length -/
theorem mfInner_best (src : List Int) (ds de : Int) (fuel i : Nat) (ss b : Int) :
    b ≤ (mfInner src ds de fuel i ss b).2.2 ∧
    (mfInner src ds de fuel i ss b).2.2 ≤ max b (de - ds) := by
  induction fuel generalizing i ss b with
  | zero => simp only [mfInner]; omega
  | succ f ih =>
    simp only [mfInner]
    have hb' : b ≤ (if min (ss + src.getD i 0) de - max ss ds > b
        then min (ss + src.getD i 0) de - max ss ds else b) ∧
      (if min (ss + src.getD i 0) de - max ss ds > b
        then min (ss + src.getD i 0) de - max ss ds else b) ≤ max b (de - ds) := by
      split <;> omega
    generalize (if min (ss + src.getD i 0) de - max ss ds > b
        then min (ss + src.getD i 0) de - max ss ds else b) = b' at hb' ⊢
    split
    · have := ih (i + 1) (ss + src.getD i 0) b'
      omega
    · simp only; omega

theorem mfOuter_bounds (src : List Int) (dst : List Int) (hd : ∀ c ∈ dst, 0 ≤ c)
    (i : Nat) (ss ds m : Int) :
    m ≤ mfOuter src dst i ss ds m ∧ mfOuter src dst i ss ds m ≤ m + isum dst := by
  induction dst generalizing i ss ds m with
  | nil => simp [mfOuter, isum]
  | cons t rest ih =>
    simp only [mfOuter, isum]
    have ht := hd t (by simp)
    have hb := mfInner_best src ds (ds + t) (src.length + 1) i ss 0
    have := ih (fun c hc => hd c (by simp [hc]))
      (mfInner src ds (ds + t) (src.length + 1) i ss 0).1
      (mfInner src ds (ds + t) (src.length + 1) i ss 0).2.1 (ds + t)
      (m + (t - (mfInner src ds (ds + t) (src.length + 1) i ss 0).2.2))
    omega

theorem movedNum_nonneg (src dst : List Int) (_hs : ∀ c ∈ src, 0 ≤ c) (hd : ∀ c ∈ dst, 0 ≤ c) :
    0 ≤ movedNum src dst := by
  unfold movedNum
  simp only
  split
  · exact Int.le_refl _
  · split
    · exact Int.le_refl _
    · exact (mfOuter_bounds src dst hd 0 0 0 0).1

theorem movedNum_le_total (src dst : List Int) (hs : ∀ c ∈ src, 0 ≤ c) (hd : ∀ c ∈ dst, 0 ≤ c) :
    movedNum src dst ≤ isum src := by
  unfold movedNum
  simp only
  split
  · exact isum_nonneg hs
  · split
    · exact isum_nonneg hs
    · rename_i h1 h2
      have := (mfOuter_bounds src dst hd 0 0 0 0).2
      have h3 : isum dst = isum src := by
        by_cases h : isum dst = isum src
        · exact h
        · exact absurd h h2
      omega

theorem movedNum_self (src : List Int) : movedNum src src = 0 := by
  unfold movedNum; simp

/-! ### `moved_fraction`: pure splits move nothing -/

/-- pointer invariant of the inner loop: the pointer stays inside the list, `srcStart` is the
start of the pointed block and never passes the end of the current target -/
theorem mfInner_ptr (src : List Int) (ds de : Int) (fuel i : Nat) (ss b : Int)
    (hi : i < src.length) (hss : ss = pre src i) (hle : ss ≤ de) :
    (mfInner src ds de fuel i ss b).1 < src.length ∧
    (mfInner src ds de fuel i ss b).2.1 = pre src (mfInner src ds de fuel i ss b).1 ∧
    (mfInner src ds de fuel i ss b).2.1 ≤ de := by
  induction fuel generalizing i ss b with
  | zero => simp only [mfInner]; exact ⟨hi, hss, hle⟩
  | succ f ih =>
    simp only [mfInner]
    generalize (if min (ss + src.getD i 0) de - max ss ds > b
        then min (ss + src.getD i 0) de - max ss ds else b) = b'
    split
    · rename_i h
      exact ih (i + 1) (ss + src.getD i 0) b' h.2 (by rw [pre_succ src i hi, hss]) h.1
    · exact ⟨hi, hss, hle⟩

/-- if the target `[ds, de)` lies inside block `c` and the pointer is at or before `c`, the
inner loop reaches `c` and the best overlap is the whole target -/
theorem mfInner_inside (src : List Int) (hs : ∀ x ∈ src, 0 ≤ x) (ds de : Int) (c : Nat)
    (hc : c < src.length) (hlo : pre src c ≤ ds) (hhi : de ≤ pre src (c + 1)) (hde : ds ≤ de)
    (fuel i : Nat) (ss b : Int) (hic : i ≤ c) (hss : ss = pre src i) (hb : b ≤ de - ds)
    (hf : c - i + 1 ≤ fuel) :
    (mfInner src ds de fuel i ss b).2.2 = de - ds := by
  induction fuel generalizing i ss b with
  | zero => omega
  | succ f ih =>
    simp only [mfInner]
    have hi : i < src.length := by omega
    have hps := pre_succ src i hi
    by_cases hic' : i = c
    · subst hic'
      have hb' : (if min (ss + src.getD i 0) de - max ss ds > b
          then min (ss + src.getD i 0) de - max ss ds else b) = de - ds := by
        split <;> omega
      rw [hb']
      split
      · have := mfInner_best src ds de f (i + 1) (ss + src.getD i 0) (de - ds)
        omega
      · rfl
    · have hm : pre src (i + 1) ≤ pre src c := pre_mono hs (by omega)
      have hb' : (if min (ss + src.getD i 0) de - max ss ds > b
          then min (ss + src.getD i 0) de - max ss ds else b) ≤ de - ds := by
        split <;> omega
      generalize (if min (ss + src.getD i 0) de - max ss ds > b
          then min (ss + src.getD i 0) de - max ss ds else b) = b' at hb' ⊢
      rw [if_pos ⟨by omega, by omega⟩]
      exact ih (i + 1) (ss + src.getD i 0) b' (by omega) (by omega) hb' (by omega)

/-- a run `g` of targets that all lie inside block `c` costs nothing -/
theorem mfOuter_group (src : List Int) (hs : ∀ x ∈ src, 0 ≤ x) (c : Nat) (hc : c < src.length)
    (g : List Int) (hg : ∀ x ∈ g, 0 ≤ x) (tail : List Int) (i : Nat) (ss ds m : Int)
    (hi : i < src.length) (hss : ss = pre src i) (hsd : ss ≤ ds)
    (hlo : pre src c ≤ ds) (hhi : ds + isum g ≤ pre src (c + 1)) :
    ∃ i' ss', i' < src.length ∧ ss' = pre src i' ∧ ss' ≤ ds + isum g ∧
      mfOuter src (g ++ tail) i ss ds m = mfOuter src tail i' ss' (ds + isum g) m := by
  induction g generalizing i ss ds m with
  | nil => exact ⟨i, ss, hi, hss, by simp [isum]; exact hsd, by simp [isum]⟩
  | cons t g' ih =>
    have ht : 0 ≤ t := hg t (by simp)
    have hg' : ∀ x ∈ g', 0 ≤ x := fun x hx => hg x (by simp [hx])
    have hsum := isum_nonneg hg'
    simp only [isum] at hhi
    simp only [List.cons_append, mfOuter, isum]
    have hbest : (mfInner src ds (ds + t) (src.length + 1) i ss 0).2.2 = t := by
      by_cases ht0 : t = 0
      · have := mfInner_best src ds (ds + t) (src.length + 1) i ss 0
        omega
      · have hic : i ≤ c := by
          by_cases hic : i ≤ c
          · exact hic
          · have := pre_mono hs (show c + 1 ≤ i by omega)
            omega
        have := mfInner_inside src hs ds (ds + t) c hc hlo (by omega) (by omega)
          (src.length + 1) i ss 0 hic hss (by omega) (by omega)
        omega
    have hptr := mfInner_ptr src ds (ds + t) (src.length + 1) i ss 0 hi hss (by omega)
    rw [hbest]
    obtain ⟨i', ss', h1, h2, h3, h4⟩ := ih hg'
      (mfInner src ds (ds + t) (src.length + 1) i ss 0).1
      (mfInner src ds (ds + t) (src.length + 1) i ss 0).2.1 (ds + t) (m + (t - t))
      hptr.1 hptr.2.1 hptr.2.2 (by omega) (by omega)
    refine ⟨i', ss', h1, h2, by omega, ?_⟩
    rw [h4]
    have e1 : m + (t - t) = m := by omega
    have e2 : ds + t + isum g' = ds + (t + isum g') := by omega
    rw [e1, e2]

theorem mfOuter_split (src : List Int) (hs : ∀ x ∈ src, 0 ≤ x) (gs : List (List Int))
    (hg : ∀ g ∈ gs, ∀ x ∈ g, 0 ≤ x) (c : Nat) (hdrop : src.drop c = gs.map isum)
    (i : Nat) (ss m : Int) (hi : i < src.length) (hss : ss = pre src i) (hsd : ss ≤ pre src c) :
    mfOuter src gs.flatten i ss (pre src c) m = m := by
  induction gs generalizing c i ss with
  | nil => simp [mfOuter]
  | cons g gs' ih =>
    simp only [List.map_cons] at hdrop
    obtain ⟨hc, hgc, hd'⟩ := drop_cons_facts hdrop
    have hps := pre_succ src c hc
    obtain ⟨i', ss', h1, h2, h3, h4⟩ := mfOuter_group src hs c hc g (hg g (by simp))
      gs'.flatten i ss (pre src c) m hi hss hsd (Int.le_refl _) (by omega)
    simp only [List.flatten_cons]
    rw [h4]
    have e : pre src c + isum g = pre src (c + 1) := by omega
    rw [e]
    exact ih (fun g' hg' => hg g' (by simp [hg'])) (c + 1) hd' i' ss' h1 h2 (by omega)

/-- `dst` refines `src` (every `dst` block lies inside one `src` block): nothing moves.
Zero-length blocks and empty groups are allowed. -/
theorem movedNum_split (gs : List (List Int)) (hg : ∀ g ∈ gs, ∀ x ∈ g, 0 ≤ x) :
    movedNum (gs.map isum) gs.flatten = 0 := by
  unfold movedNum
  simp only
  split
  · rfl
  · split
    · rfl
    · rename_i h1 h2
      have hs : ∀ x ∈ gs.map isum, 0 ≤ x := by
        intro x hx
        obtain ⟨g, hgm, rfl⟩ := List.mem_map.mp hx
        exact isum_nonneg (hg g hgm)
      have hlen : 0 < (gs.map isum).length := by
        cases gs with
        | nil => simp [isum] at h1
        | cons g gs' => simp
      have := mfOuter_split (gs.map isum) hs gs hg 0 (by simp) 0 0 0 hlen
        (by rw [pre_zero]) (by rw [pre_zero]; exact Int.le_refl _)
      rw [pre_zero] at this
      exact this

/-! ### `_rechunk_stage_transfer`: per-axis counters -/

/-- total length of the old blocks listed in `hits` (with multiplicity) -/
def W (old : List Int) (hits : List Nat) : Int := isum (hits.map (fun h => old.getD h 0))

theorem W_nil (old : List Int) : W old [] = 0 := by simp [W, isum]

theorem W_snoc (old : List Int) (hits : List Nat) (j : Nat) :
    W old (hits ++ [j]) = W old hits + old.getD j 0 := by
  simp [W, isum_append, isum]

/-- relation between the running `best`, `n_sources` and the length `cov` of the part of the
new block covered so far -/
def P (best : Int) (nsrc : Nat) (cov : Int) : Prop :=
  0 ≤ best ∧ best ≤ cov ∧ (nsrc = 0 → cov = 0) ∧ (nsrc ≤ 1 → best = cov)

def InnerPost (old : List Int) (nS nE : Int) (r : Nat × Int × Int × Nat × Int × List Nat) : Prop :=
  r.1 < old.length ∧ r.2.1 = pre old r.1 ∧ r.2.1 ≤ nE ∧ P r.2.2.1 r.2.2.2.1 (nE - nS) ∧
    0 ≤ r.2.2.2.2.1 ∧ r.2.2.2.2.1 ≤ W old r.2.2.2.2.2

theorem stInner_inv (old : List Int) (ho : ∀ x ∈ old, 0 ≤ x) (nS nE : Int) (hse : nS ≤ nE)
    (hcov : nE ≤ isum old) (fuel j : Nat) (os best : Int) (nsrc : Nat) (u : Int) (hits : List Nat)
    (hj : j < old.length) (hos : os = pre old j) (hle : os ≤ nE) (hf : old.length - j ≤ fuel)
    (hP : P best nsrc (max nS os - nS)) (hu0 : 0 ≤ u) (huW : u ≤ W old hits) :
    InnerPost old nS nE (stInner old nS nE fuel j os best nsrc u hits) := by
  induction fuel generalizing j os best nsrc u hits with
  | zero => omega
  | succ f ih =>
    simp only [stInner]
    have hj' := pre_succ old j hj
    have hoj := getD_nonneg ho j
    have hlast : j + 1 = old.length → os + old.getD j 0 = isum old := by
      intro h; rw [← pre_length, ← h, hj', hos]
    obtain ⟨p1, p2, p3, p4⟩ := hP
    generalize hov : min (os + old.getD j 0) nE - max os nS = ov
    by_cases hit : ov > 0
    · simp only [hit, if_true, true_and]
      have hu' : 0 ≤ (if ov = old.getD j 0 then u + old.getD j 0 else u) ∧
          (if ov = old.getD j 0 then u + old.getD j 0 else u) ≤ W old (hits ++ [j]) := by
        rw [W_snoc]; split <;> omega
      generalize (if ov = old.getD j 0 then u + old.getD j 0 else u) = u' at hu' ⊢
      split
      · rename_i h
        refine ih (j + 1) (os + old.getD j 0) (max best ov) (nsrc + 1) u' (hits ++ [j])
          h.2 (by omega) h.1 (by omega) ⟨by omega, by omega, by omega, ?_⟩ hu'.1 hu'.2
        intro hn
        have : nsrc = 0 := by omega
        have := p3 this
        omega
      · rename_i h
        refine ⟨hj, hos, hle, ?_, hu'.1, hu'.2⟩
        show P (max best ov) (nsrc + 1) (nE - nS)
        refine ⟨by omega, by omega, by omega, ?_⟩
        intro hn
        have : nsrc = 0 := by omega
        have := p3 this
        omega
    · simp only [hit, if_false, false_and]
      split
      · rename_i h
        refine ih (j + 1) (os + old.getD j 0) best nsrc u hits
          h.2 (by omega) h.1 (by omega) ⟨p1, by omega, ?_, ?_⟩ hu0 huW
        · intro hn; have := p3 hn; omega
        · intro hn; have := p4 hn; omega
      · rename_i h
        refine ⟨hj, hos, hle, ?_, hu0, huW⟩
        show P best nsrc (nE - nS)
        refine ⟨p1, by omega, ?_, ?_⟩
        · intro hn; have := p3 hn; omega
        · intro hn; have := p4 hn; omega

def OuterPost (old : List Int) (r : Int × Int × Int × List Nat) : Prop :=
  0 ≤ r.2.2.1 ∧ r.2.2.1 ≤ r.1 ∧ r.1 ≤ isum old ∧ 0 ≤ r.2.1 ∧ r.2.1 ≤ W old r.2.2.2

theorem stOuter_inv (old : List Int) (ho : ∀ x ∈ old, 0 ≤ x) (new : List Int)
    (hn : ∀ x ∈ new, 0 ≤ x) (j : Nat) (os nS l u s : Int) (hits : List Nat)
    (hj : j < old.length) (hos : os = pre old j) (hle : os ≤ nS)
    (hsum : nS + isum new = isum old) (hs0 : 0 ≤ s) (hsl : s ≤ l) (hl : l ≤ nS)
    (hu0 : 0 ≤ u) (huW : u ≤ W old hits) :
    OuterPost old (stOuter old new j os nS l u s hits) := by
  induction new generalizing j os nS l u s hits with
  | nil =>
    simp only [stOuter]
    simp only [isum] at hsum
    exact ⟨hs0, hsl, by show l ≤ isum old; omega, hu0, huW⟩
  | cons c rest ih =>
    simp only [stOuter]
    have hc : 0 ≤ c := hn c (by simp)
    have hrest : ∀ x ∈ rest, 0 ≤ x := fun x hx => hn x (by simp [hx])
    have hr0 := isum_nonneg hrest
    simp only [isum] at hsum
    have inner := stInner_inv old ho nS (nS + c) (by omega) (by omega) (old.length + 1) j os 0 0 u hits
      hj hos (by omega) (by omega) ⟨Int.le_refl _, by omega, by omega, by omega⟩ hu0 huW
    generalize stInner old nS (nS + c) (old.length + 1) j os 0 0 u hits = r at inner ⊢
    obtain ⟨q1, q2, q3, ⟨b1, b2, b3, b4⟩, q5, q6⟩ := inner
    refine ih hrest r.1 r.2.1 (nS + c) (l + r.2.2.1) r.2.2.2.2.1
      (if r.2.2.2.1 ≤ 1 then s + c else s) r.2.2.2.2.2 q1 q2 q3 (by omega) ?_ ?_ (by omega) q5 q6
    · split <;> omega
    · split
      · rename_i h; have := b4 h; omega
      · omega

theorem isum_map_add {α} (L : List α) (a b : α → Int) :
    isum (L.map (fun j => a j + b j)) = isum (L.map a) + isum (L.map b) := by
  induction L with
  | nil => simp [isum]
  | cons x xs ih => simp only [List.map_cons, isum, ih]; omega

theorem isum_map_zero {α} (L : List α) : isum (L.map (fun _ => (0 : Int))) = 0 := by
  induction L with
  | nil => simp [isum]
  | cons x xs ih => simp only [List.map_cons, isum, ih]; omega

theorem sum_delta (f : Nat → Int) (h n : Nat) :
    isum ((List.range n).map (fun j => f j * (if h = j then 1 else 0))) = if h < n then f h else 0 := by
  induction n with
  | zero => simp [isum]
  | succ k ih =>
    rw [List.range_succ, List.map_append, isum_append, ih]
    simp only [List.map_cons, List.map_nil, isum]
    by_cases hk : h = k
    · subst hk; simp
    · have h1 : (if h = k then (1 : Int) else 0) = 0 := by simp [hk]
      rw [h1]
      by_cases hlt : h < k
      · have : h < k + 1 := by omega
        simp [hlt, this]
      · have : ¬ h < k + 1 := by omega
        simp [hlt, this]

theorem sum_count (f : Nat → Int) (n : Nat) (hf : ∀ h, n ≤ h → f h = 0) (hits : List Nat) :
    isum ((List.range n).map (fun j => f j * (hits.count j : Int))) = isum (hits.map f) := by
  induction hits with
  | nil => simp [isum, isum_map_zero]
  | cons h hs ih =>
    have e : (fun j => f j * (((h :: hs).count j : Nat) : Int)) =
        (fun j => f j * (hs.count j : Int) + f j * (if h = j then 1 else 0)) := by
      funext j
      rw [List.count_cons]
      by_cases hj : h = j
      · subst hj; simp [Int.mul_add]
      · simp [hj]
    rw [e, isum_map_add, ih, sum_delta]
    simp only [List.map_cons, isum]
    by_cases hlt : h < n
    · simp [hlt]; omega
    · have := hf h (by omega)
      simp [hlt, this]

theorem getD_ge {old : List Int} {h : Nat} (hh : old.length ≤ h) : old.getD h 0 = 0 := by
  rw [List.getD_eq_getElem?_getD, List.getElem?_eq_none hh]; rfl

/-- per-axis counters of `_rechunk_stage_transfer`: `0 ≤ s ≤ l ≤ t` and `0 ≤ u ≤ r` -/
theorem stageAxis_facts (old new : List Int) (ho : ∀ x ∈ old, 0 ≤ x) (hn : ∀ x ∈ new, 0 ≤ x)
    (hne : old ≠ []) (hsum : isum old = isum new) :
    0 ≤ (stageAxis old new).s ∧ (stageAxis old new).s ≤ (stageAxis old new).l ∧
    (stageAxis old new).l ≤ (stageAxis old new).t ∧
    0 ≤ (stageAxis old new).u ∧ (stageAxis old new).u ≤ (stageAxis old new).r := by
  have hlen : 0 < old.length := List.length_pos_iff.mpr hne
  have inv := stOuter_inv old ho new hn 0 0 0 0 0 0 [] hlen (by rw [pre_zero]) (Int.le_refl _)
    (by omega) (Int.le_refl _) (Int.le_refl _) (Int.le_refl _) (Int.le_refl _)
    (by rw [W_nil]; exact Int.le_refl _)
  unfold stageAxis
  simp only
  generalize stOuter old new 0 0 0 0 0 0 [] = r at inv ⊢
  obtain ⟨h1, h2, h3, h4, h5⟩ := inv
  rw [sum_count (fun j => old.getD j 0) old.length (fun h hh => getD_ge hh) r.2.2.2]
  exact ⟨h1, h2, h3, h4, h5⟩

/-! ### identical layouts (positive chunks) -/

theorem stInner_same (c : List Int) (k : Nat) (p x y : Int)
    (hx : c.getD k 0 = x) (hxpos : 0 < x) (hy : c.getD (k + 1) 0 = y)
    (hypos : k + 1 < c.length → 0 < y) (fuel : Nat) (hf : 2 ≤ fuel) (u : Int) (hits : List Nat) :
    stInner c p (p + x) fuel k p 0 0 u hits =
      (if k + 1 < c.length then k + 1 else k, if k + 1 < c.length then p + x else p,
        x, 1, u + x, hits ++ [k]) := by
  obtain ⟨f, rfl⟩ : ∃ f, fuel = f + 2 := ⟨fuel - 2, by omega⟩
  have e1 : min (p + x) (p + x) - max p p = x := by omega
  have e3 : max 0 x = x := by omega
  by_cases hk : k + 1 < c.length
  · have := hypos hk
    have e2 : min (p + x + y) (p + x) - max (p + x) p = 0 := by omega
    have e4 : ¬ (p + x + y ≤ p + x) := by omega
    simp only [stInner, hx, hy, e1, e2, e3, hxpos, hk]
    simp [e4]
  · simp only [stInner, hx, e1, e3, hxpos, hk]
    simp

theorem getD_pos {c : List Int} (hpos : ∀ x ∈ c, 0 < x) {k : Nat} (hk : k < c.length) :
    0 < c.getD k 0 := by
  rw [List.getD_eq_getElem?_getD, List.getElem?_eq_getElem hk]
  exact hpos _ (List.getElem_mem hk)

theorem stOuter_same (c : List Int) (hpos : ∀ x ∈ c, 0 < x) (rest : List Int) (k : Nat)
    (hdrop : c.drop k = rest) (l u s : Int) (hits : List Nat) :
    ∃ hits', stOuter c rest k (pre c k) (pre c k) l u s hits =
        (l + isum rest, u + isum rest, s + isum rest, hits') ∧
      W c hits' = W c hits + isum rest := by
  induction rest generalizing k l u s hits with
  | nil => exact ⟨hits, by simp [stOuter, isum], by simp [isum]⟩
  | cons x rest' ih =>
    obtain ⟨hk, hx, hd'⟩ := drop_cons_facts hdrop
    have hxpos : 0 < x := by rw [← hx]; exact getD_pos hpos hk
    have hps := pre_succ c k hk
    simp only [stOuter]
    rw [stInner_same c k (pre c k) x (c.getD (k + 1) 0) hx hxpos rfl (fun h => getD_pos hpos h)
      (c.length + 1) (by omega) u hits]
    simp only [Nat.le_refl, if_true]
    by_cases hk1 : k + 1 < c.length
    · simp only [hk1, if_true]
      have e : pre c k + x = pre c (k + 1) := by omega
      rw [e]
      obtain ⟨hits', h1, h2⟩ := ih (k + 1) hd' (l + x) (u + x) (s + x) (hits ++ [k])
      refine ⟨hits', ?_, ?_⟩
      · rw [h1]; simp only [isum]
        have a1 : l + x + isum rest' = l + (x + isum rest') := by omega
        have a2 : u + x + isum rest' = u + (x + isum rest') := by omega
        have a3 : s + x + isum rest' = s + (x + isum rest') := by omega
        rw [a1, a2, a3]
      · rw [h2, W_snoc, hx]; simp only [isum]; omega
    · have hnil : rest' = [] := by
        rw [← hd']; exact List.drop_of_length_le (by omega)
      subst hnil
      refine ⟨hits ++ [k], ?_, ?_⟩
      · simp [stOuter, isum]
      · rw [W_snoc, hx]; simp [isum]

theorem stageAxis_same (c : List Int) (hpos : ∀ x ∈ c, 0 < x) :
    stageAxis c c = ⟨isum c, isum c, isum c, isum c, isum c⟩ := by
  obtain ⟨hits', h1, h2⟩ := stOuter_same c hpos c 0 (by simp) 0 0 0 []
  rw [pre_zero] at h1
  unfold stageAxis
  simp only [h1]
  rw [sum_count (fun j => c.getD j 0) c.length (fun h hh => getD_ge hh) hits']
  have : isum (hits'.map (fun j => c.getD j 0)) = W c hits' := rfl
  rw [this, h2, W_nil]
  simp

/-! ### n-D: products of per-axis counters -/

theorem iprod_mono (cs : List AxisCounters) (a b : AxisCounters → Int)
    (h : ∀ c ∈ cs, 0 ≤ a c ∧ a c ≤ b c) :
    0 ≤ iprod (cs.map a) ∧ iprod (cs.map a) ≤ iprod (cs.map b) := by
  induction cs with
  | nil => simp [iprod]
  | cons c cs ih =>
    have hc := h c (by simp)
    have ih' := ih (fun c' hc' => h c' (by simp [hc']))
    simp only [List.map_cons, iprod]
    exact ⟨Int.mul_nonneg hc.1 ih'.1,
      Int.mul_le_mul hc.2 ih'.2 ih'.1 (Int.le_trans hc.1 hc.2)⟩

theorem mem_zipWith {α β γ} (f : α → β → γ) (l1 : List α) (l2 : List β) (c : γ)
    (h : c ∈ List.zipWith f l1 l2) : ∃ p ∈ l1.zip l2, c = f p.1 p.2 := by
  induction l1 generalizing l2 with
  | nil => simp at h
  | cons x xs ih =>
    cases l2 with
    | nil => simp at h
    | cons y ys =>
      simp only [List.zipWith_cons_cons, List.mem_cons] at h
      rcases h with h | h
      · exact ⟨(x, y), by simp, h⟩
      · obtain ⟨p, hp, e⟩ := ih ys h
        exact ⟨p, by simp [hp], e⟩

/-- hypotheses on one axis of a rechunk stage: both layouts are non-negative layouts of the
same axis and the old one has at least one block -/
def AxisOK (o n : List Int) : Prop :=
  (∀ x ∈ o, 0 ≤ x) ∧ (∀ x ∈ n, 0 ≤ x) ∧ o ≠ [] ∧ isum o = isum n

/-- `_rechunk_stage_transfer` returns `0 ≤ min ≤ max` for every rank and all layouts -/
theorem stageTransfer_bounds (old new : List (List Int)) (it : Int) (hit : 0 ≤ it)
    (h : ∀ p ∈ old.zip new, AxisOK p.1 p.2) :
    0 ≤ (stageTransfer old new it).1 ∧
      (stageTransfer old new it).1 ≤ (stageTransfer old new it).2 := by
  unfold stageTransfer
  simp only
  have hf : ∀ c ∈ List.zipWith stageAxis old new,
      0 ≤ c.s ∧ c.s ≤ c.l ∧ c.l ≤ c.t ∧ 0 ≤ c.u ∧ c.u ≤ c.r := by
    intro c hc
    obtain ⟨p, hp, rfl⟩ := mem_zipWith stageAxis old new c hc
    obtain ⟨h1, h2, h3, h4⟩ := h p hp
    exact stageAxis_facts p.1 p.2 h1 h2 h3 h4
  generalize List.zipWith stageAxis old new = cs at hf ⊢
  have hLT := iprod_mono cs (·.l) (·.t) (fun c hc => ⟨by have := hf c hc; omega, (hf c hc).2.2.1⟩)
  have hSL := iprod_mono cs (·.s) (·.l) (fun c hc => ⟨(hf c hc).1, (hf c hc).2.1⟩)
  have hUR := iprod_mono cs (·.u) (·.r) (fun c hc => ⟨(hf c hc).2.2.2.1, (hf c hc).2.2.2.2⟩)
  constructor
  · exact Int.mul_nonneg hit (by omega)
  · exact Int.mul_le_mul_of_nonneg_left (by omega) hit

/-- a stage between identical layouts (positive chunks) moves nothing: `(0, 0)` -/
theorem stageTransfer_same (old : List (List Int)) (it : Int)
    (hpos : ∀ c ∈ old, ∀ x ∈ c, 0 < x) : stageTransfer old old it = (0, 0) := by
  unfold stageTransfer
  simp only
  have hf : ∀ c ∈ List.zipWith stageAxis old old, c.l = c.t ∧ c.r = c.t ∧ c.u = c.t ∧ c.s = c.t := by
    intro c hc
    obtain ⟨p, hp, rfl⟩ := mem_zipWith stageAxis old old c hc
    have hpe : p.1 = p.2 := by
      clear hc hpos
      induction old with
      | nil => simp at hp
      | cons x xs ih =>
        simp only [List.zip_cons_cons, List.mem_cons] at hp
        rcases hp with hp | hp
        · rw [hp]
        · exact ih hp
    have hm : p.1 ∈ old := (List.of_mem_zip hp).1
    rw [← hpe, stageAxis_same p.1 (hpos p.1 hm)]
    simp
  generalize List.zipWith stageAxis old old = cs at hf ⊢
  have e : ∀ (a : AxisCounters → Int), (∀ c ∈ cs, a c = c.t) → cs.map a = cs.map (·.t) := by
    intro a ha
    exact List.map_congr_left ha
  rw [e (·.l) (fun c hc => (hf c hc).1), e (·.r) (fun c hc => (hf c hc).2.1),
    e (·.u) (fun c hc => (hf c hc).2.2.1), e (·.s) (fun c hc => (hf c hc).2.2.2)]
  generalize iprod (cs.map (·.t)) = T
  have z1 : T - T = 0 := by omega
  have z2 : 0 + T - T = 0 := by omega
  rw [z1, z2, Int.mul_zero]

end Dask.Lemmas.Transfer
