/-
Soundness of slice∘slice fusion (`fuse_slice` + `normalize_slice`, from the C13 slice algebra),
identity-slice removal, and the integer split (`x[k] = x[k:k+1][0]`).
-/
import DaskArrayModel.Lemmas.RulesStep
namespace Dask.ND
open Dask.Py Dask.Py.PySlice Dask.Slicing Dask.Lemmas.SliceAlgebra

/-! ### per-axis facts of `fuse_slice` -/

theorem sel_getD_toNat_lt (s : PySlice) (n : Nat) (x : Nat) (hx : x < (sel s n).length) :
    ((sel s n).getD x 0).toNat < n := by
  have := sel_getD_bounds s n (Int.natCast_nonneg n) x hx
  omega

theorem fuse_ok_stp_pos {a b f : PySlice} (h : fuseSliceSlice a b = .ok f) (ha : a.stp ≠ 0)
    (hb : b.stp ≠ 0) : f.stp = a.stp * b.stp ∧ 0 < a.stp ∧ 0 < b.stp := by
  have hex := (fuseSliceSlice_error_iff a b).mp ⟨f, h⟩
  rw [fuseSliceSlice_eq] at h
  split at h
  · cases h
  · injection h with h
    subst h
    refine ⟨stp_mk_ite _ _ _, ?_, ?_⟩
    · have : 0 ≤ a.stp := hex.2.1
      omega
    · have : 0 ≤ b.stp := hex.2.2.2.2.1
      omega

/-- slice∘slice on one axis of length `n` -/
theorem fuse_axis_slc (a b f : PySlice) (n : Nat) (ha : a.stp ≠ 0) (hb : b.stp ≠ 0)
    (h : fuseSliceSlice a b = .ok f) :
    (normalizeSlice f n).stp ≠ 0 ∧
    (sel (normalizeSlice f n) n).length = (sel b ((sel a n).length : Nat)).length ∧
    ∀ x, x < (sel b ((sel a n).length : Nat)).length →
      ((sel (normalizeSlice f n) n).getD x 0).toNat
        = ((sel a n).getD ((sel b ((sel a n).length : Nat)).getD x 0).toNat 0).toNat := by
  obtain ⟨hf, hap, hbp⟩ := fuse_ok_stp_pos h ha hb
  have hfs : f.stp ≠ 0 := by
    rw [hf]; exact Int.ne_of_gt (Int.mul_pos hap hbp)
  have hn : (0 : Int) ≤ n := Int.natCast_nonneg n
  have hsel := fuseSliceSlice_sel a b f n hn h
  rw [← sel_normalizeSlice f n hn hfs] at hsel
  have hmap : (sel b ((sel a n).length : Nat)).filterMap (fun i => (sel a n)[i.toNat]?)
      = (sel b ((sel a n).length : Nat)).map (fun i => (sel a n).getD i.toNat 0) := by
    apply filterMap_eq_map_of
    intro i hi
    have hb' := sel_bounds' b ((sel a n).length : Nat) (Int.natCast_nonneg _) i hi
    have hlt : i.toNat < (sel a n).length := by omega
    simp [List.getD_eq_getElem?_getD, hlt]
  rw [hmap] at hsel
  refine ⟨by rw [stp_normalize f n hn hfs]; exact hfs, by rw [hsel]; simp, ?_⟩
  intro x hx
  rw [hsel, getD_map _ _ x 0 0 hx]

/-- slice∘int on one axis of length `n` -/
theorem fuse_axis_int (a : PySlice) (j r : Int) (n : Nat)
    (hj : -(((sel a n).length : Nat) : Int) ≤ j ∧ j < (((sel a n).length : Nat) : Int))
    (h : fuseSliceInt a j = .ok r) :
    (-(n : Int) ≤ r ∧ r < (n : Int)) ∧
    (posifyInt n r).toNat = ((sel a n).getD (posifyInt ((sel a n).length : Nat) j).toNat 0).toNat := by
  have hn : (0 : Int) ≤ n := Int.natCast_nonneg n
  have hj0 : 0 ≤ j := by
    rw [fuseSliceInt_eq] at h
    split at h
    · cases h
    · omega
  have hget := fuseSliceInt_sel a j r n hn h hj.2
  have hlt : j.toNat < (sel a n).length := by omega
  have hr : (sel a n).getD j.toNat 0 = r := by
    simp [List.getD_eq_getElem?_getD, hget]
  have hb := sel_getD_bounds a n hn j.toNat hlt
  rw [hr] at hb
  refine ⟨by omega, ?_⟩
  have e1 : posifyInt n r = r := by unfold posifyInt; rw [if_neg (by omega)]
  have e2 : posifyInt ((sel a n).length : Nat) j = j := by unfold posifyInt; rw [if_neg (by omega)]
  rw [e1, e2, hr]

/-! ### the index walk -/

theorem fuseIx_sound : ∀ (sh : List Nat) (a b f : List Ix), wfIx sh a = true →
    wfIx (sliceShape sh a) b = true → fuseIx sh a b = some f →
    wfIx sh f = true ∧ sliceShape sh f = sliceShape (sliceShape sh a) b ∧
      ∀ i, InB i (sliceShape sh f) → sliceIdx sh f i = sliceIdx sh a (sliceIdx (sliceShape sh a) b i) := by
  intro sh a b
  fun_induction fuseIx sh a b with
  | case1 =>
    intro f _ _ h
    injection h with h; subst h
    refine ⟨rfl, rfl, ?_⟩
    intro i hi
    cases i with
    | nil => rfl
    | cons _ _ => simp [sliceShape, InB] at hi
  | case2 n ns k ra b ih =>
    intro f ha hb h
    obtain ⟨f', hf', rfl⟩ := Option.map_eq_some_iff.mp h
    rw [wfIx_cons_int] at ha
    simp only [sliceShape] at hb
    obtain ⟨i1, i2, i3⟩ := ih f' ha.2 hb hf'
    refine ⟨by rw [wfIx_cons_int]; exact ⟨ha.1, i1⟩, by simp only [sliceShape]; exact i2, ?_⟩
    intro i hi
    simp only [sliceShape] at hi
    simp only [sliceIdx, sliceShape]
    rw [i3 i hi]
  | case3 n ns s ra j rb r hr ih =>
    intro f ha hb h
    obtain ⟨f', hf', rfl⟩ := Option.map_eq_some_iff.mp h
    rw [wfIx_cons_slc] at ha
    simp only [sliceShape] at hb
    rw [wfIx_cons_int] at hb
    obtain ⟨i1, i2, i3⟩ := ih f' ha.2 hb.2 hf'
    obtain ⟨p1, p2⟩ := fuse_axis_int s j r n hb.1 hr
    refine ⟨by rw [wfIx_cons_int]; exact ⟨p1, i1⟩, by simp only [sliceShape]; exact i2, ?_⟩
    intro i hi
    simp only [sliceShape] at hi
    simp only [sliceIdx, sliceShape]
    rw [i3 i hi, p2]
  | case4 n ns s ra j rb e hr =>
    intro f _ _ h
    cases h
  | case5 n ns s ra t rb f0 hr ih =>
    intro f ha hb h
    obtain ⟨f', hf', rfl⟩ := Option.map_eq_some_iff.mp h
    rw [wfIx_cons_slc] at ha
    simp only [sliceShape] at hb
    rw [wfIx_cons_slc] at hb
    obtain ⟨i1, i2, i3⟩ := ih f' ha.2 hb.2 hf'
    obtain ⟨p1, p2, p3⟩ := fuse_axis_slc s t f0 n ha.1 hb.1 hr
    refine ⟨by rw [wfIx_cons_slc]; exact ⟨p1, i1⟩, by simp only [sliceShape]; rw [p2, i2], ?_⟩
    intro i hi
    cases i with
    | nil => simp [sliceShape, InB] at hi
    | cons x i =>
      simp only [sliceShape, InB] at hi
      simp only [sliceIdx, sliceShape]
      rw [i3 i hi.2, p3 x (by rw [← p2]; exact hi.1)]
  | case6 n ns s ra t rb e hr =>
    intro f _ _ h
    cases h
  | case7 sh a b h1 h2 h3 h4 =>
    intro f _ _ h
    simp at h

theorem sliceSliceFuse_sound : Sound sliceSliceFuse := by
  intro env e e' hw h
  unfold sliceSliceFuse at h
  split at h
  · rename_i e0 a b
    obtain ⟨f, hf, rfl⟩ := Option.map_eq_some_iff.mp h
    simp only [WF, wf, Bool.and_eq_true] at hw
    obtain ⟨⟨h0, ha⟩, hb⟩ := hw
    have hb' : wfIx (sliceShape (shape e0) a) b = true := hb
    obtain ⟨i1, i2, i3⟩ := fuseIx_sound (shape e0) a b f ha hb' hf
    refine ⟨?_, ?_, ?_⟩
    · simp only [WF, wf, Bool.and_eq_true]; exact ⟨h0, i1⟩
    · simp only [shape]; exact i2
    · intro i hi
      simp only [denGet, shape]
      rw [i3 i (by rw [i2]; exact hi)]
  · exact absurd h (by simp)

/-! ### the full slice -/

theorem sel_colon (n : Nat) : sel colon n = rangeList 0 n 1 := by
  simp [sel, colon, istart, istop, stp]

theorem sel_colon_length (n : Nat) : (sel colon n).length = n := by
  rw [sel_colon, rangeList_one_length 0 n (Int.natCast_nonneg n)]; omega

theorem sel_colon_getD (n x : Nat) (hx : x < n) : (sel colon n).getD x 0 = x := by
  have hl := sel_colon_length n
  rw [sel_colon] at hl ⊢
  rw [rangeList_one_getD 0 n x (by omega)]; omega

theorem colonIx_eq : colonIx = Ix.slc colon := rfl

theorem sliceShape_colons : ∀ (sh : List Nat), sliceShape sh (List.replicate sh.length colonIx) = sh
  | [] => rfl
  | n :: ns => by
    have ih := sliceShape_colons ns
    rw [colonIx_eq] at ih ⊢
    simp only [List.length_cons, List.replicate_succ, sliceShape]
    rw [sel_colon_length, ih]

theorem sliceIdx_colons : ∀ (sh i : List Nat), InB i sh →
    sliceIdx sh (List.replicate sh.length colonIx) i = i
  | [], [], _ => rfl
  | n :: ns, x :: i, h => by
    have ih := sliceIdx_colons ns i h.2
    rw [colonIx_eq] at ih ⊢
    simp only [List.length_cons, List.replicate_succ, sliceIdx]
    rw [sel_colon_getD n x h.1, ih]; simp
  | [], _ :: _, h => h.elim
  | _ :: _, [], h => h.elim

theorem sliceIdentityDrop_sound : Sound sliceIdentityDrop := by
  intro env e e' hw h
  unfold sliceIdentityDrop at h
  split at h
  · rename_i e0 idx
    split at h
    · rename_i hidx
      injection h with h; subst h
      simp only [WF, wf, Bool.and_eq_true] at hw
      subst hidx
      refine ⟨hw.1, ?_, ?_⟩
      · simp only [shape]; exact (sliceShape_colons _).symm
      · intro i hi
        simp only [shape, sliceShape_colons] at hi
        simp only [denGet]
        rw [sliceIdx_colons _ i hi]
    · exact absurd h (by simp)
  · exact absurd h (by simp)

theorem sliceIntoSrcKeep_sound : Sound sliceIntoSrcKeep := by
  intro env e e' hw h
  unfold sliceIntoSrcKeep at h
  split at h
  · injection h with h; subst h; exact Refines.refl hw
  · exact absurd h (by simp)

/-! ### integers as size-1 slices plus extraction -/

theorem sel_unit (p : Int) (n : Nat) (h0 : 0 ≤ p) (h1 : p < n) :
    sel ⟨some p, some (p + 1), none⟩ n = [p] := by
  have e1 : adjust p n false = p := adjust_false_id p n h0 (by omega)
  have e2 : adjust (p + 1) n false = p + 1 := adjust_false_id (p + 1) n (by omega) (by omega)
  have e3 : rangeLen p (p + 1) 1 = 1 := by
    simp only [rangeLen]
    rw [if_pos (by omega), if_pos (by omega)]
    have : (p + 1 - p - 1) / 1 + 1 = 1 := by simp; omega
    rw [this]; rfl
  simp only [sel, istart, istop, stp, Option.getD_none]
  simp only [show ¬ ((1 : Int) < 0) by omega, decide_false]
  rw [e1, e2]
  simp [rangeList, e3]

theorem splitInts_sound : ∀ (sh : List Nat) (idx : List Ix), wfIx sh idx = true →
    wfIx sh (intsToSlices sh idx) = true ∧
    wfIx (sliceShape sh (intsToSlices sh idx)) (extractIx idx) = true ∧
    sliceShape (sliceShape sh (intsToSlices sh idx)) (extractIx idx) = sliceShape sh idx ∧
    ∀ i, InB i (sliceShape sh idx) →
      sliceIdx sh (intsToSlices sh idx) (sliceIdx (sliceShape sh (intsToSlices sh idx)) (extractIx idx) i)
        = sliceIdx sh idx i
  | [], [], _ => by
    refine ⟨rfl, rfl, rfl, ?_⟩
    intro i hi
    cases i with
    | nil => rfl
    | cons _ _ => simp [sliceShape, InB] at hi
  | n :: ns, .int k :: r, hwf => by
    rw [wfIx_cons_int] at hwf
    obtain ⟨i1, i2, i3, i4⟩ := splitInts_sound ns r hwf.2
    have hp0 : 0 ≤ posifyInt n k := by unfold posifyInt; split <;> omega
    have hp1 : posifyInt n k < n := by unfold posifyInt; split <;> omega
    have hsel := sel_unit (posifyInt n k) n hp0 hp1
    simp only [intsToSlices, extractIx, sliceShape, hsel, List.length_cons, List.length_nil]
    refine ⟨?_, ?_, i3, ?_⟩
    · rw [wfIx_cons_slc]; exact ⟨by simp [stp], i1⟩
    · rw [wfIx_cons_int]; exact ⟨by omega, i2⟩
    · intro i hi
      simp only [sliceIdx, hsel]
      rw [i4 i hi]
      simp [posifyInt]
  | n :: ns, .slc s :: r, hwf => by
    rw [wfIx_cons_slc] at hwf
    obtain ⟨i1, i2, i3, i4⟩ := splitInts_sound ns r hwf.2
    rw [show extractIx (Ix.slc s :: r) = Ix.slc colon :: extractIx r from rfl]
    simp only [intsToSlices, sliceShape]
    rw [sel_colon_length]
    refine ⟨?_, ?_, by rw [i3], ?_⟩
    · rw [wfIx_cons_slc]; exact ⟨hwf.1, i1⟩
    · rw [wfIx_cons_slc]; exact ⟨by simp [colon, stp], i2⟩
    · intro i hi
      cases i with
      | nil => simp [InB] at hi
      | cons x i =>
        simp only [InB] at hi
        simp only [sliceIdx]
        rw [sel_colon_getD _ x hi.1, i4 i hi.2]
        simp
  | [], _ :: _, h => by simp [wfIx] at h
  | _ :: _, [], h => by simp [wfIx] at h

theorem sliceSplitInts_sound : Sound sliceSplitInts := by
  intro env e e' hw h
  unfold sliceSplitInts at h
  split at h
  · rename_i e0 idx
    split at h
    · injection h with h; subst h
      simp only [WF, wf, Bool.and_eq_true] at hw
      obtain ⟨i1, i2, i3, i4⟩ := splitInts_sound (shape e0) idx hw.2
      refine ⟨?_, ?_, ?_⟩
      · simp only [WF, wf, Bool.and_eq_true]; exact ⟨⟨hw.1, i1⟩, i2⟩
      · simp only [shape]; exact i3
      · intro i hi
        simp only [denGet, shape]
        rw [i4 i hi]
    · exact absurd h (by simp)
  · exact absurd h (by simp)

end Dask.ND
