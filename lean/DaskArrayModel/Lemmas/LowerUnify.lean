/-
Lemmas for Model/LowerUnify.lean: the lowering step of an elemwise node (`unify_chunks_expr` + one
`rechunk` per operand that is not yet in its target layout) produces a well-formed expression with the
NumPy meaning of the elemwise, whose operands carry one common layout per index (length-1 axes excepted).
The facts about the unified layout itself come from C17's lemmas (Lemmas/Unify.lean); the refinement
theorems of phases 1 and 3 (Lemmas/ExprCorrect.lean, Lemmas/Expr2Correct.lean) transfer the meaning to the
computed blocks.
-/
import DaskArrayModel.Model.LowerUnify
import DaskArrayModel.Lemmas.Unify
import DaskArrayModel.Lemmas.Expr2Correct
namespace Dask.LowerUnify
open Dask.Py Dask.ND

/-! ### small list facts -/

theorem allTruthy_iff (l : Layout) : allTruthy l = true ↔ NonEmptyAxes l := by
  simp [allTruthy, NonEmptyAxes, List.all_eq_true]

theorem length_eq_of_map_sum_eq {u c : Layout} (h : u.map List.sum = c.map List.sum) : u.length = c.length := by
  have := congrArg List.length h
  simpa using this

theorem bcOK_of_getD : ∀ (cl ol : Layout), cl.length = ol.length →
    (∀ m, m < cl.length → cl.getD m [] = [1] ∨ cl.getD m [] = ol.getD m []) → bcOK cl ol = true
  | [], [], _, _ => rfl
  | cc :: cl, oc :: ol, hl, h => by
    rw [bcOK_cons]
    refine ⟨by simpa using h 0 (by simp), bcOK_of_getD cl ol (by simpa using hl) ?_⟩
    intro m hm
    simpa using h (m + 1) (by simpa using hm)
  | [], _ :: _, hl, _ => by simp at hl
  | _ :: _, [], hl, _ => by simp at hl

/-! ### the operand as the Unify model sees it -/

theorem opdOf_axes_length (o : Opnd) : (opdOf o).axes.length = o.chunks.length := by
  simp [opdOf]

theorem mem_opdOf_axes (o : Opnd) (ax : Dask.Unify.Ax) :
    ax ∈ (opdOf o).axes ↔ ∃ n, n < o.chunks.length ∧
      ax = ⟨o.chunks.length - 1 - n, toI (o.chunks.getD n [])⟩ := by
  simp only [opdOf, List.mem_map, List.mem_range]
  constructor
  · rintro ⟨n, hn, rfl⟩; exact ⟨n, hn, rfl⟩
  · rintro ⟨n, hn, rfl⟩; exact ⟨n, hn, rfl⟩

theorem targetOf_length (final : Nat → ULayout) (o : Opnd) : (targetOf final o).length = o.chunks.length := by
  simp [targetOf, opdOf]

theorem targetOf_getD (final : Nat → ULayout) (o : Opnd) (n : Nat) (hn : n < o.chunks.length) :
    (targetOf final o).getD n []
      = (Dask.Unify.opdAxisChunks final ⟨o.chunks.length - 1 - n, toI (o.chunks.getD n [])⟩).map Int.toNat := by
  simp only [targetOf, opdOf, List.map_map]
  rw [getD_map _ _ n 0 [] (by simpa using hn), getD_range _ _ hn]
  rfl

theorem ax_shape_toI (j : Nat) (c : List Nat) : (Dask.Unify.Ax.shape ⟨j, toI c⟩) = (c.sum : Int) := by
  simp [Dask.Unify.Ax.shape, isum_toI]

/-- an axis' target is `(1,)` or the common layout of its index label -/
theorem targetOf_getD_cases (final : Nat → ULayout) (o : Opnd) (n : Nat) (hn : n < o.chunks.length) :
    (targetOf final o).getD n [] = [1] ∨
      (targetOf final o).getD n [] = (final (o.chunks.length - 1 - n)).map Int.toNat := by
  rw [targetOf_getD final o n hn]
  unfold Dask.Unify.opdAxisChunks
  rw [ax_shape_toI]
  split
  · exact Or.inr rfl
  · rename_i h
    have : ((o.chunks.getD n []).sum : Int) = 1 := by omega
    left
    rw [this]; rfl

/-- a length-1 axis is left alone: its target is `(1,)` -/
theorem targetOf_getD_one (final : Nat → ULayout) (o : Opnd) (n : Nat) (hn : n < o.chunks.length)
    (h1 : (o.chunks.getD n []).sum = 1) : (targetOf final o).getD n [] = [1] := by
  rw [targetOf_getD final o n hn]
  unfold Dask.Unify.opdAxisChunks
  rw [ax_shape_toI, h1]
  simp

/-- every other axis gets the common layout of its index label -/
theorem targetOf_getD_final (final : Nat → ULayout) (o : Opnd) (n : Nat) (hn : n < o.chunks.length)
    (h1 : (o.chunks.getD n []).sum ≠ 1) :
    (targetOf final o).getD n [] = (final (o.chunks.length - 1 - n)).map Int.toNat := by
  rw [targetOf_getD final o n hn]
  unfold Dask.Unify.opdAxisChunks
  rw [ax_shape_toI]
  have : ((o.chunks.getD n []).sum : Int) > 1 ∨ ((o.chunks.getD n []).sum : Int) = 0 := by omega
  rw [if_pos this]

/-! ### the per-operand loop -/

theorem arrangeOne_ok {final : Nat → ULayout} {o : Opnd} {u : Layout} (hne : allTruthy o.chunks = true)
    (h : arrangeOne final o = .ok u) :
    u = targetOf final o ∧ u.map List.sum = o.chunks.map List.sum ∧ allTruthy u = true := by
  unfold arrangeOne at h
  simp only [hne, Bool.true_eq_false, or_false] at h
  by_cases h1 : targetOf final o = o.chunks
  · rw [if_pos h1] at h
    have := Except.ok.inj h
    subst this
    exact ⟨h1.symm, rfl, hne⟩
  · rw [if_neg h1] at h
    by_cases h2 : (decide ((targetOf final o).map List.sum = o.chunks.map List.sum) && allTruthy (targetOf final o)) = true
    · rw [if_pos h2] at h
      have := Except.ok.inj h
      subst this
      simp only [Bool.and_eq_true, decide_eq_true_eq] at h2
      exact ⟨rfl, h2.1, h2.2⟩
    · rw [if_neg h2] at h
      cases h

/-- what a successful `unify_chunks_expr` over two operands returns -/
theorem unifyTargets_two {p : Params} {pre : List ULayout} {ia ib : Int} {ca cb : Layout} {l : List Layout}
    (ha : allTruthy ca = true) (hb : allTruthy cb = true)
    (h : unifyTargets p pre [⟨ia, ca⟩, ⟨ib, cb⟩] = .ok l) :
    ∃ ua ub, l = [ua, ub] ∧ ua.map List.sum = ca.map List.sum ∧ ub.map List.sum = cb.map List.sum ∧
      allTruthy ua = true ∧ allTruthy ub = true ∧
      ((ca = cb ∧ ua = ca ∧ ub = cb) ∨
        (ca ≠ cb ∧ ∃ res, Dask.Unify.unifyModel p.policy p.limit pre [opdOf ⟨ia, ca⟩, opdOf ⟨ib, cb⟩]
            (max ca.length cb.length) = .ok res ∧ res.oracleOk = true ∧
          ua = targetOf (Dask.Unify.look res.final) ⟨ia, ca⟩ ∧
          ub = targetOf (Dask.Unify.look res.final) ⟨ib, cb⟩)) := by
  unfold unifyTargets at h
  simp only [List.all_cons, List.all_nil, Bool.and_true, decide_eq_true_eq] at h
  by_cases he : cb = ca
  · rw [if_pos he] at h
    have := Except.ok.inj h
    subst this
    subst he
    exact ⟨cb, cb, rfl, rfl, rfl, hb, hb, Or.inl ⟨rfl, rfl, rfl⟩⟩
  · rw [if_neg he] at h
    have hn : nlabelsOf [(⟨ia, ca⟩ : Opnd), ⟨ib, cb⟩] = max ca.length cb.length := by
      simp [nlabelsOf]
    simp only [List.map_cons, List.map_nil, hn] at h
    cases hres : Dask.Unify.unifyModel p.policy p.limit pre [opdOf ⟨ia, ca⟩, opdOf ⟨ib, cb⟩] (max ca.length cb.length) with
    | error e => rw [hres] at h; cases h
    | ok res =>
      rw [hres] at h
      dsimp only at h
      by_cases hok : res.oracleOk = true
      · rw [if_pos hok] at h
        simp only [arrangeAll] at h
        cases h1 : arrangeOne (Dask.Unify.look res.final) ⟨ia, ca⟩ with
        | error e => rw [h1] at h; cases h
        | ok ua =>
          cases h2 : arrangeOne (Dask.Unify.look res.final) ⟨ib, cb⟩ with
          | error e => rw [h1, h2] at h; cases h
          | ok ub =>
            rw [h1, h2] at h
            have := Except.ok.inj h
            subst this
            obtain ⟨a1, a2, a3⟩ := arrangeOne_ok (o := ⟨ia, ca⟩) ha h1
            obtain ⟨b1, b2, b3⟩ := arrangeOne_ok (o := ⟨ib, cb⟩) hb h2
            exact ⟨ua, ub, rfl, a2, b2, a3, b3, Or.inr ⟨fun e => he e.symm, res, rfl, hok, a1, b1⟩⟩
      · rw [if_neg hok] at h; cases h

/-! ### alignment of the two targets -/

theorem layout_ext_getD {l m : Layout} (hl : l.length = m.length)
    (h : ∀ k, k < l.length → l.getD k [] = m.getD k []) : l = m := by
  apply List.ext_getElem hl
  intro k h1 h2
  have := h k h1
  rwa [getD_eq_getElem _ _ _ h1, getD_eq_getElem _ _ _ h2] at this

theorem opdAxisChunks_congr (final : Nat → ULayout) (j : Nat) (c d : List Nat) (h : c.sum = d.sum) :
    Dask.Unify.opdAxisChunks final ⟨j, toI c⟩ = Dask.Unify.opdAxisChunks final ⟨j, toI d⟩ := by
  unfold Dask.Unify.opdAxisChunks
  rw [ax_shape_toI, ax_shape_toI, h]

/-- the facts shared by every use of a successful two-operand unification -/
structure TwoOK (ca cb ua ub : Layout) : Prop where
  suma : ua.map List.sum = ca.map List.sum
  sumb : ub.map List.sum = cb.map List.sum
  nea : allTruthy ua = true
  neb : allTruthy ub = true
  /-- operands of equal shape get the same layout -/
  same : ca.map List.sum = cb.map List.sum → ua = ub
  /-- one common layout per index, length-1 (and missing leading) axes excepted -/
  aligned : ∀ k, k < max ua.length ub.length →
    (padLay (max ua.length ub.length) ua).getD k [] = [1] ∨
    (padLay (max ua.length ub.length) ub).getD k [] = [1] ∨
    (padLay (max ua.length ub.length) ua).getD k [] = (padLay (max ua.length ub.length) ub).getD k []
  /-- an axis whose layout is not `(1,)` although its length is 1 only occurs when nothing was changed -/
  one : ∀ k, k < max ua.length ub.length →
    (padLay (max ua.length ub.length) ua).getD k [] ≠ [1] →
    ((padLay (max ua.length ub.length) ua).getD k []).sum = 1 →
    ((padLay (max ua.length ub.length) ub).getD k []).sum = 1

theorem twoOK_of_unify {p : Params} {pre : List ULayout} {ia ib : Int} {ca cb : Layout} {l : List Layout}
    (ha : allTruthy ca = true) (hb : allTruthy cb = true)
    (h : unifyTargets p pre [⟨ia, ca⟩, ⟨ib, cb⟩] = .ok l) :
    ∃ ua ub, l = [ua, ub] ∧ TwoOK ca cb ua ub := by
  obtain ⟨ua, ub, hl, sa, sb, na, nb, hcase⟩ := unifyTargets_two ha hb h
  refine ⟨ua, ub, hl, ⟨sa, sb, na, nb, ?_, ?_, ?_⟩⟩
  · -- equal shapes
    intro hs
    rcases hcase with ⟨e, e1, e2⟩ | ⟨_, res, _, _, e1, e2⟩
    · rw [e1, e2, e]
    · have hlen : ca.length = cb.length := length_eq_of_map_sum_eq hs
      rw [e1, e2]
      apply layout_ext_getD
      · rw [targetOf_length, targetOf_length]; exact hlen
      · intro k hk
        rw [targetOf_length] at hk
        have hk' : k < ca.length := hk
        rw [targetOf_getD _ _ k hk, targetOf_getD _ _ k (by show k < cb.length; omega)]
        show (Dask.Unify.opdAxisChunks _ ⟨ca.length - 1 - k, toI (ca.getD k [])⟩).map Int.toNat
          = (Dask.Unify.opdAxisChunks _ ⟨cb.length - 1 - k, toI (cb.getD k [])⟩).map Int.toNat
        rw [hlen, opdAxisChunks_congr _ _ (ca.getD k []) (cb.getD k [])]
        rw [sum_getD_of_map_sum rfl, sum_getD_of_map_sum rfl, hs]
  · -- aligned
    intro k hk
    rcases hcase with ⟨e, e1, e2⟩ | ⟨_, res, _, _, e1, e2⟩
    · right; right; rw [e1, e2, e]
    · have la : ua.length = ca.length := length_eq_of_map_sum_eq sa
      have lb : ub.length = cb.length := length_eq_of_map_sum_eq sb
      rw [padLay_getD, padLay_getD]
      by_cases h1 : k < max ua.length ub.length - ua.length
      · left; rw [if_pos h1]
      · by_cases h2 : k < max ua.length ub.length - ub.length
        · right; left; rw [if_pos h2]
        · rw [if_neg h1, if_neg h2]
          have c1 := targetOf_getD_cases (Dask.Unify.look res.final) ⟨ia, ca⟩
            (k - (max ua.length ub.length - ua.length)) (by show _ < ca.length; omega)
          have c2 := targetOf_getD_cases (Dask.Unify.look res.final) ⟨ib, cb⟩
            (k - (max ua.length ub.length - ub.length)) (by show _ < cb.length; omega)
          rw [← e1] at c1
          rw [← e2] at c2
          rcases c1 with c1 | c1
          · left; exact c1
          · rcases c2 with c2 | c2
            · right; left; exact c2
            · right; right
              rw [c1, c2]
              have : (⟨ia, ca⟩ : Opnd).chunks.length - 1 - (k - (max ua.length ub.length - ua.length))
                  = (⟨ib, cb⟩ : Opnd).chunks.length - 1 - (k - (max ua.length ub.length - ub.length)) := by
                show ca.length - 1 - _ = cb.length - 1 - _
                omega
              rw [this]
  · -- one
    intro k hk hne h1
    rcases hcase with ⟨e, e1, e2⟩ | ⟨_, res, _, _, e1, e2⟩
    · have : ua = ub := by rw [e1, e2, e]
      subst this; exact h1
    · exfalso
      have la : ua.length = ca.length := length_eq_of_map_sum_eq sa
      rw [padLay_getD] at hne h1
      by_cases hk1 : k < max ua.length ub.length - ua.length
      · rw [if_pos hk1] at hne; exact hne rfl
      · rw [if_neg hk1] at hne h1
        have hn : k - (max ua.length ub.length - ua.length) < ca.length := by omega
        have hs : (ca.getD (k - (max ua.length ub.length - ua.length)) []).sum = 1 := by
          have := sum_getD_of_map_sum sa (k - (max ua.length ub.length - ua.length))
          rw [h1] at this
          rw [sum_getD_of_map_sum rfl]
          exact this.symm
        have := targetOf_getD_one (Dask.Unify.look res.final) ⟨ia, ca⟩ _ hn hs
        rw [← e1] at this
        exact hne this

theorem targets_same {p : Params} {pre : List ULayout} {ia ib : Int} {ca cb : Layout} {l : List Layout}
    (na : allTruthy ca = true) (nb : allTruthy cb = true) (hs : ca.map List.sum = cb.map List.sum)
    (h : unifyTargets p pre [⟨ia, ca⟩, ⟨ib, cb⟩] = .ok l) :
    ∃ u, l = [u, u] ∧ u.map List.sum = ca.map List.sum := by
  obtain ⟨ua, ub, hl, two⟩ := twoOK_of_unify na nb h
  have := two.same hs
  subst this
  exact ⟨ua, hl, two.suma⟩

/-! ### the shape of the broadcast result -/

theorem padLay_sum_getD {u : Layout} {s : List Nat} (h : u.map List.sum = s) (r k : Nat) :
    ((padLay r u).getD k []).sum = (padSh r s).getD k 0 := by
  rw [padLay_getD, padSh_getD]
  have hl : u.length = s.length := length_of_map_sum h
  rw [hl]
  split
  · rfl
  · exact sum_getD_of_map_sum h _

theorem bcShape_length (s t : List Nat) : (bcShape s t).length = max s.length t.length := by
  unfold bcShape npBcShape
  simp only [List.length_zipWith]
  rw [padSh_length _ _ (Nat.le_max_left _ _), padSh_length _ _ (Nat.le_max_right _ _), Nat.min_self]

theorem zipBLayout_sum {ca cb ua ub : Layout} (h : TwoOK ca cb ua ub) :
    (zipBLayout ua ub).map List.sum = bcShape (ca.map List.sum) (cb.map List.sum) := by
  have la : ua.length = ca.length := length_eq_of_map_sum_eq h.suma
  have lb : ub.length = cb.length := length_eq_of_map_sum_eq h.sumb
  apply list_ext_getD
  · rw [List.length_map, zipBLayout_length, bcShape_length]; simp [la, lb]
  · intro k hk
    rw [List.length_map, zipBLayout_length] at hk
    rw [getD_map List.sum _ k [] 0 (by rw [zipBLayout_length]; exact hk), zipBLayout_getD _ _ _ hk]
    unfold bcShape npBcShape
    have hr : max (ca.map List.sum).length (cb.map List.sum).length = max ua.length ub.length := by
      simp [la, lb]
    rw [hr]
    rw [getD_zipWith _ _ _ k 0 0 0 (by rw [padSh_length _ _ (by simp [la]; exact Nat.le_max_left _ _)]; exact hk)
      (by rw [padSh_length _ _ (by simp [lb]; exact Nat.le_max_right _ _)]; exact hk)]
    have sA := padLay_sum_getD h.suma (max ua.length ub.length) k
    have sB := padLay_sum_getD h.sumb (max ua.length ub.length) k
    by_cases hA : (padLay (max ua.length ub.length) ua).getD k [] = [1]
    · rw [if_pos hA]
      have : (padSh (max ua.length ub.length) (ca.map List.sum)).getD k 0 = 1 := by rw [← sA, hA]; rfl
      rw [if_pos this]; exact sB
    · rw [if_neg hA]
      by_cases h1 : (padSh (max ua.length ub.length) (ca.map List.sum)).getD k 0 = 1
      · rw [if_pos h1]
        rw [← sB, h.one k hk hA (by rw [sA]; exact h1), sA, h1]
      · rw [if_neg h1]; exact sA

/-! ### `lowerZip`: operands of equal shape, phase-1 language -/

theorem rechunkTo_shape (a : Expr) (u : Layout) : shape (rechunkTo a u) = shape a := by
  unfold rechunkTo; split <;> rfl

theorem rechunkTo_chunks (a : Expr) (u : Layout) : chunks (rechunkTo a u) = u := by
  unfold rechunkTo
  split
  · rename_i h; exact h.symm
  · rfl

theorem rechunkTo_denGet (env : Env) (a : Expr) (u : Layout) : denGet env (rechunkTo a u) = denGet env a := by
  unfold rechunkTo; split <;> rfl

theorem allTruthy_chunks {a : Expr} (ha : WF a) : allTruthy (chunks a) = true :=
  (allTruthy_iff _).mpr (meta_ok a ha).2

theorem rechunkTo_wf {a : Expr} {u : Layout} (ha : WF a) (hs : u.map List.sum = (chunks a).map List.sum)
    (hne : allTruthy u = true) : WF (rechunkTo a u) := by
  unfold rechunkTo
  split
  · exact ha
  · simp only [WF, wf, Bool.and_eq_true]
    refine ⟨ha, wfLayout_iff.mpr ⟨?_, (allTruthy_iff _).mp hne⟩⟩
    rw [hs]; exact (meta_ok a ha).1

/-- the shape of a successful `lowerZip` -/
theorem lowerZip_ok {p : Params} {pre : List ULayout} {ia ib : Int} {f : Nat} {a b e : Expr}
    (ha : WF a) (hb : WF b) (h : lowerZip p pre ia ib f a b = .ok e) :
    ∃ ua ub, unifyTargets p pre [⟨ia, chunks a⟩, ⟨ib, chunks b⟩] = .ok [ua, ub] ∧
      e = .zip f (rechunkTo a ua) (rechunkTo b ub) ∧ TwoOK (chunks a) (chunks b) ua ub := by
  unfold lowerZip at h
  cases hu : unifyTargets p pre [⟨ia, chunks a⟩, ⟨ib, chunks b⟩] with
  | error err => rw [hu] at h; cases h
  | ok l =>
    obtain ⟨ua, ub, hl, two⟩ := twoOK_of_unify (allTruthy_chunks ha) (allTruthy_chunks hb) hu
    subst hl
    rw [hu] at h
    exact ⟨ua, ub, rfl, (Except.ok.inj h).symm, two⟩

theorem lowerZip_wf {p : Params} {pre : List ULayout} {ia ib : Int} {f : Nat} {a b e : Expr}
    (ha : WF a) (hb : WF b) (hs : shape a = shape b) (h : lowerZip p pre ia ib f a b = .ok e) : WF e := by
  obtain ⟨ua, ub, _, he, two⟩ := lowerZip_ok ha hb h
  subst he
  have hsum : (chunks a).map List.sum = (chunks b).map List.sum := by
    rw [(meta_ok a ha).1, (meta_ok b hb).1, hs]
  simp only [WF, wf, Bool.and_eq_true, decide_eq_true_eq]
  refine ⟨⟨⟨rechunkTo_wf ha two.suma two.nea, rechunkTo_wf hb two.sumb two.neb⟩, ?_⟩, ?_⟩
  · rw [rechunkTo_shape, rechunkTo_shape, hs]
  · rw [rechunkTo_chunks, rechunkTo_chunks]; exact two.same hsum

theorem lowerZip_den {p : Params} {pre : List ULayout} {ia ib : Int} {f : Nat} {a b e : Expr}
    (ha : WF a) (hb : WF b) (h : lowerZip p pre ia ib f a b = .ok e) (env : Env) :
    den env e = ⟨shape a, fun i => env.bin f ((den env a).get i) ((den env b).get i)⟩ := by
  obtain ⟨ua, ub, _, he, _⟩ := lowerZip_ok ha hb h
  subst he
  simp only [den, shape, denGet, rechunkTo_shape, rechunkTo_denGet]

theorem lowerZip_compute {p : Params} {pre : List ULayout} {ia ib : Int} {f : Nat} {a b e : Expr}
    (ha : WF a) (hb : WF b) (hs : shape a = shape b) (h : lowerZip p pre ia ib f a b = .ok e)
    (env : Env) (henv : EnvOK env) :
    Arr.Equiv (compute env e) ⟨shape a, fun i => env.bin f ((den env a).get i) ((den env b).get i)⟩ := by
  have := compute_eq_den env henv e (lowerZip_wf ha hb hs h)
  rw [lowerZip_den ha hb h env] at this
  exact this

/-- layout of the lowered node and of its operands; no no-op rechunk is inserted -/
theorem lowerZip_chunks {p : Params} {pre : List ULayout} {ia ib : Int} {f : Nat} {a b e : Expr}
    (ha : WF a) (hb : WF b) (hs : shape a = shape b) (h : lowerZip p pre ia ib f a b = .ok e) :
    ∃ a' b', e = .zip f a' b' ∧ chunks a' = chunks e ∧ chunks b' = chunks e ∧
      (a' = if chunks e = chunks a then a else .rechunk a (chunks e)) ∧
      (b' = if chunks e = chunks b then b else .rechunk b (chunks e)) := by
  obtain ⟨ua, ub, _, he, two⟩ := lowerZip_ok ha hb h
  subst he
  have hsum : (chunks a).map List.sum = (chunks b).map List.sum := by
    rw [(meta_ok a ha).1, (meta_ok b hb).1, hs]
  have hab : ua = ub := two.same hsum
  refine ⟨_, _, rfl, ?_, ?_, ?_, ?_⟩
  · simp only [chunks, rechunkTo_chunks]
  · simp only [chunks, rechunkTo_chunks]; exact hab.symm
  · simp only [chunks, rechunkTo_chunks]; rfl
  · simp only [chunks, rechunkTo_chunks]; rw [hab]; rfl

/-! ### `lowerZipB`: NumPy broadcasting, second-layer language -/

theorem rechunk2_shape2 (x : Expr2) (u : Layout) : shape2 (rechunk2 x u) = shape2 x := by
  cases x <;> rfl

theorem rechunk2_chunks2 (x : Expr2) (u : Layout) : chunks2 (rechunk2 x u) = u := by
  cases x <;> rfl

theorem rechunk2_get (env : Env) (x : Expr2) (u : Layout) : (den2 env (rechunk2 x u)).get = (den2 env x).get := by
  cases x <;> simp [rechunk2, den2, den, denGet, Env.withHoles]

theorem holeA_ne_holeB : (holeA != holeB) = true := by decide

theorem rechunk2_wf2 {x : Expr2} {u : Layout} (hx : WF2 x) (hs : u.map List.sum = (chunks2 x).map List.sum)
    (hne : allTruthy u = true) : WF2 (rechunk2 x u) := by
  obtain ⟨m1, m2⟩ := meta2_ok x hx
  have hu : wfLayout (shape2 x) u = true := wfLayout_iff.mpr ⟨by rw [hs]; exact m1, (allTruthy_iff _).mp hne⟩
  have hc : wfLayout (shape2 x) (chunks2 x) = true := wfLayout_iff.mpr ⟨m1, m2⟩
  have hnode : WF2 (.node (.rechunk (.src holeA (shape2 x) (chunks2 x)) u) x x) := by
    simp only [WF2, wf2, wf, shape, holesOK, srcsOf, List.all_cons, List.all_nil, Bool.and_true,
      Bool.and_eq_true, Bool.or_eq_true, decide_eq_true_eq, holeA_ne_holeB, true_or, and_true]
    exact ⟨⟨⟨hx, hx⟩, hc, hu⟩, Or.inr trivial⟩
  cases x with
  | base e =>
    simp only [rechunk2, WF2, wf2, wf, Bool.and_eq_true]
    exact ⟨hx, hu⟩
  | node _ _ _ => exact hnode
  | zipB _ _ _ => exact hnode
  | take _ _ _ => exact hnode
  | swvReduce _ _ _ _ => exact hnode

theorem rechunkTo2_shape2 (a : Expr2) (u : Layout) : shape2 (rechunkTo2 a u) = shape2 a := by
  unfold rechunkTo2; split
  · rfl
  · exact rechunk2_shape2 a u

theorem rechunkTo2_chunks2 (a : Expr2) (u : Layout) : chunks2 (rechunkTo2 a u) = u := by
  unfold rechunkTo2
  split
  · rename_i h; exact h.symm
  · exact rechunk2_chunks2 a u

theorem rechunkTo2_get (env : Env) (a : Expr2) (u : Layout) :
    (den2 env (rechunkTo2 a u)).get = (den2 env a).get := by
  unfold rechunkTo2; split
  · rfl
  · exact rechunk2_get env a u

theorem rechunkTo2_wf2 {a : Expr2} {u : Layout} (ha : WF2 a) (hs : u.map List.sum = (chunks2 a).map List.sum)
    (hne : allTruthy u = true) : WF2 (rechunkTo2 a u) := by
  unfold rechunkTo2; split
  · exact ha
  · exact rechunk2_wf2 ha hs hne

theorem allTruthy_chunks2 {a : Expr2} (ha : WF2 a) : allTruthy (chunks2 a) = true :=
  (allTruthy_iff _).mpr (meta2_ok a ha).2

theorem lowerZipB_ok {p : Params} {pre : List ULayout} {ia ib : Int} {f : Nat} {a b e : Expr2}
    (ha : WF2 a) (hb : WF2 b) (h : lowerZipB p pre ia ib f a b = .ok e) :
    ∃ ua ub, unifyTargets p pre [⟨ia, chunks2 a⟩, ⟨ib, chunks2 b⟩] = .ok [ua, ub] ∧
      e = .zipB f (rechunkTo2 a ua) (rechunkTo2 b ub) ∧ TwoOK (chunks2 a) (chunks2 b) ua ub := by
  unfold lowerZipB at h
  cases hu : unifyTargets p pre [⟨ia, chunks2 a⟩, ⟨ib, chunks2 b⟩] with
  | error err => rw [hu] at h; cases h
  | ok l =>
    obtain ⟨ua, ub, hl, two⟩ := twoOK_of_unify (allTruthy_chunks2 ha) (allTruthy_chunks2 hb) hu
    subst hl
    rw [hu] at h
    exact ⟨ua, ub, rfl, (Except.ok.inj h).symm, two⟩

/-- operands aligned per index broadcast against the layout of the result -/
theorem bcOK_zipBLayout {ua ub : Layout}
    (hal : ∀ k, k < max ua.length ub.length →
      (padLay (max ua.length ub.length) ua).getD k [] = [1] ∨
      (padLay (max ua.length ub.length) ub).getD k [] = [1] ∨
      (padLay (max ua.length ub.length) ua).getD k [] = (padLay (max ua.length ub.length) ub).getD k []) :
    bcOK ua ((zipBLayout ua ub).drop ((zipBLayout ua ub).length - ua.length)) = true ∧
    bcOK ub ((zipBLayout ua ub).drop ((zipBLayout ua ub).length - ub.length)) = true := by
  have hl := zipBLayout_length ua ub
  constructor
  · apply bcOK_of_getD
    · rw [List.length_drop, hl]; omega
    · intro m hm
      rw [getD_drop', hl]
      have hk : max ua.length ub.length - ua.length + m < max ua.length ub.length := by omega
      rw [zipBLayout_getD _ _ _ hk]
      have hA : (padLay (max ua.length ub.length) ua).getD (max ua.length ub.length - ua.length + m) []
          = ua.getD m [] := by
        rw [padLay_getD, if_neg (by omega)]
        congr 1; omega
      rw [hA]
      by_cases h1 : ua.getD m [] = [1]
      · left; exact h1
      · right; rw [if_neg h1]
  · apply bcOK_of_getD
    · rw [List.length_drop, hl]; omega
    · intro m hm
      rw [getD_drop', hl]
      have hk : max ua.length ub.length - ub.length + m < max ua.length ub.length := by omega
      rw [zipBLayout_getD _ _ _ hk]
      have hB : (padLay (max ua.length ub.length) ub).getD (max ua.length ub.length - ub.length + m) []
          = ub.getD m [] := by
        rw [padLay_getD, if_neg (by omega)]
        congr 1; omega
      have := hal _ hk
      rw [hB] at this ⊢
      by_cases h1 : (padLay (max ua.length ub.length) ua).getD (max ua.length ub.length - ub.length + m) [] = [1]
      · right; rw [if_pos h1]
      · rw [if_neg h1]
        rcases this with h | h | h
        · exact absurd h h1
        · left; exact h
        · right; exact h.symm

theorem lowerZipB_wf2 {p : Params} {pre : List ULayout} {ia ib : Int} {f : Nat} {a b e : Expr2}
    (ha : WF2 a) (hb : WF2 b) (h : lowerZipB p pre ia ib f a b = .ok e) : WF2 e := by
  obtain ⟨ua, ub, _, he, two⟩ := lowerZipB_ok ha hb h
  subst he
  obtain ⟨o1, o2⟩ := bcOK_zipBLayout two.aligned
  simp only [WF2, wf2, Bool.and_eq_true, rechunkTo2_chunks2]
  exact ⟨⟨⟨rechunkTo2_wf2 ha two.suma two.nea, rechunkTo2_wf2 hb two.sumb two.neb⟩, o1⟩, o2⟩

theorem lowerZipB_shape2 {p : Params} {pre : List ULayout} {ia ib : Int} {f : Nat} {a b e : Expr2}
    (ha : WF2 a) (hb : WF2 b) (h : lowerZipB p pre ia ib f a b = .ok e) :
    shape2 e = bcShape (shape2 a) (shape2 b) := by
  obtain ⟨ua, ub, _, he, two⟩ := lowerZipB_ok ha hb h
  subst he
  simp only [shape2, rechunkTo2_chunks2]
  rw [zipBLayout_sum two, (meta2_ok a ha).1, (meta2_ok b hb).1]

/-- the meaning of the lowered node is NumPy's broadcasting elemwise of the operands' meanings -/
theorem lowerZipB_den2 {p : Params} {pre : List ULayout} {ia ib : Int} {f : Nat} {a b e : Expr2}
    (ha : WF2 a) (hb : WF2 b) (h : lowerZipB p pre ia ib f a b = .ok e) (env : Env) :
    den2 env e = bcDen (env.bin f) (den2 env a) (den2 env b) := by
  obtain ⟨ua, ub, _, he, two⟩ := lowerZipB_ok ha hb h
  subst he
  simp only [den2, bcDen, rechunkTo2_chunks2, rechunkTo2_shape2, rechunkTo2_get, den2_shape]
  rw [zipBLayout_sum two, (meta2_ok a ha).1, (meta2_ok b hb).1]

theorem lowerZipB_compute2 {p : Params} {pre : List ULayout} {ia ib : Int} {f : Nat} {a b e : Expr2}
    (ha : WF2 a) (hb : WF2 b) (h : lowerZipB p pre ia ib f a b = .ok e) (env : Env) (henv : EnvOK env) :
    Arr.Equiv (compute2 env e) (bcDen (env.bin f) (den2 env a) (den2 env b)) := by
  have := compute2_eq_den2 env henv e (lowerZipB_wf2 ha hb h)
  rw [lowerZipB_den2 ha hb h env] at this
  exact this

/-- layout of the lowered node and of its operands: one common layout per index, `(1,)` axes and missing
leading axes excepted; no no-op rechunk is inserted -/
theorem lowerZipB_chunks {p : Params} {pre : List ULayout} {ia ib : Int} {f : Nat} {a b e : Expr2}
    (ha : WF2 a) (hb : WF2 b) (h : lowerZipB p pre ia ib f a b = .ok e) :
    ∃ a' b', e = .zipB f a' b' ∧ chunks2 e = zipBLayout (chunks2 a') (chunks2 b') ∧
      (a' = if chunks2 a' = chunks2 a then a else rechunk2 a (chunks2 a')) ∧
      (b' = if chunks2 b' = chunks2 b then b else rechunk2 b (chunks2 b')) ∧
      (∀ k, k < (chunks2 e).length →
        (padLay (chunks2 e).length (chunks2 a')).getD k [] = [1] ∨
        (padLay (chunks2 e).length (chunks2 b')).getD k [] = [1] ∨
        (padLay (chunks2 e).length (chunks2 a')).getD k [] = (padLay (chunks2 e).length (chunks2 b')).getD k []) := by
  obtain ⟨ua, ub, _, he, two⟩ := lowerZipB_ok ha hb h
  subst he
  refine ⟨_, _, rfl, rfl, ?_, ?_, ?_⟩
  · rw [rechunkTo2_chunks2]; rfl
  · rw [rechunkTo2_chunks2]; rfl
  · simp only [chunks2, rechunkTo2_chunks2, zipBLayout_length]
    exact two.aligned

/-! ### facts about the unified layout, from C17's lemmas -/

section unify
open Dask.Unify (unifyModel look layoutsAt g2 commonBlockdim coarseBlockdim tabE sizeGuard oracleOK Ax Opd
  UnifyResult)
open Dask.Lemmas.Unify (OpsWF g2_wf commonBlockdim_ok coarseBlockdim_ok tabE_ok look_range_map live_iff
  unifyModel_refine)

/-- a layout of the axis `ax`: same total, positive sizes -/
def Good (ax : Ax) (c : ULayout) : Prop := Dask.Py.isum c = Dask.Py.isum ax.chunks ∧ ∀ x ∈ c, 0 < x

/-- on an index that carries a live axis, the refinement, the coarse choice and every candidate of the
cost-aware pass are layouts of that axis -/
theorem index_good {ops : List Opd} (hwf : OpsWF ops) (a : Opd) (ha : a ∈ ops) (ax : Ax) (hax : ax ∈ a.axes)
    (hlv : ax.live = true) :
    (∀ f, commonBlockdim (g2 (layoutsAt ops ax.label)) = .ok f → Good ax f) ∧
    (∀ co, coarseBlockdim (g2 (layoutsAt ops ax.label)) = .ok co → Good ax co) ∧
    (∀ c ∈ g2 (layoutsAt ops ax.label), Good ax c) := by
  obtain ⟨⟨T, hW⟩, hpos, hlive⟩ := g2_wf hwf ax.label ⟨a, ha, ax, hax, rfl⟩
  have hmem := hlive a ha ax hax rfl hlv
  have hT : T = Dask.Py.isum ax.chunks := (hW.sum _ hmem).symm
  have hin : ∀ c ∈ g2 (layoutsAt ops ax.label), Good ax c := fun c hc => ⟨by rw [hW.sum c hc, hT], hpos c hc⟩
  have hf : ∀ f, commonBlockdim (g2 (layoutsAt ops ax.label)) = .ok f → Good ax f := by
    intro f hf
    obtain ⟨r, hr, spec⟩ := commonBlockdim_ok hW
    have : r = f := by rw [hr] at hf; exact Except.ok.inj hf
    subst this
    exact ⟨by rw [spec.sum, hT], spec.pos hpos⟩
  refine ⟨hf, ?_, hin⟩
  intro co hco
  obtain ⟨r, hr, hcase⟩ := coarseBlockdim_ok hW
  have : r = co := by rw [hr] at hco; exact Except.ok.inj hco
  subst this
  rcases hcase with hc | ⟨hc, _⟩
  · exact hf r hc
  · exact hin r hc

/-- under every policy and every admissible oracle value the final layout of an index that carries a live
axis is a layout of that axis (same total, positive sizes) -/
theorem final_good (policy : Dask.Unify.Policy) (limit : Option Int) (pre : List ULayout)
    (ops : List Opd) (nlabels : Nat) (hwf : OpsWF ops)
    (hlab : ∀ a ∈ ops, ∀ ax ∈ a.axes, ax.label < nlabels)
    (res : UnifyResult) (hres : unifyModel policy limit pre ops nlabels = .ok res)
    (hrel : res.oracleOk = true) :
    ∀ a ∈ ops, ∀ ax ∈ a.axes, ax.live = true → Good ax (look res.final ax.label) := by
  unfold unifyModel at hres
  cases hfT : tabE (fun j => commonBlockdim (g2 (layoutsAt ops j))) nlabels with
  | error e => simp [hfT] at hres
  | ok fineT =>
    obtain ⟨_, hfine⟩ := tabE_ok _ nlabels fineT hfT
    simp only [hfT] at hres
    by_cases hpol : policy = .refine
    · simp only [hpol, if_true, Except.ok.injEq] at hres
      subst hres
      intro a ha ax hax hlv
      exact (index_good hwf a ha ax hax hlv).1 _ (hfine _ (hlab a ha ax hax))
    · simp only [hpol, if_false] at hres
      cases hcT : tabE (fun j => coarseBlockdim (g2 (layoutsAt ops j))) nlabels with
      | error e => simp [hcT] at hres
      | ok coarseT =>
        obtain ⟨_, hcoarse⟩ := tabE_ok _ nlabels coarseT hcT
        simp only [hcT, Except.ok.injEq] at hres
        subst hres
        simp only [List.all_eq_true, List.mem_range] at hrel
        intro a ha ax hax hlv
        have hj := hlab a ha ax hax
        obtain ⟨g1, g2', g3⟩ := index_good hwf a ha ax hax hlv
        have gf : Good ax (look fineT ax.label) := g1 _ (hfine _ hj)
        have gc : Good ax (look (if policy = .coarse then coarseT else pre) ax.label) := by
          have hok := hrel _ hj
          simp only [oracleOK, Bool.or_eq_true, decide_eq_true_eq] at hok
          rcases hok with (h | h) | h
          · rw [h]; exact g2' _ (hcoarse _ hj)
          · rw [h]; exact gf
          · exact g3 _ h
        show Good ax (look ((List.range nlabels).map _) ax.label)
        rw [look_range_map _ _ _ hj]
        generalize (if policy = Dask.Unify.Policy.coarse then coarseT else pre) = chosen at gc ⊢
        unfold sizeGuard
        cases limit with
        | none => exact gc
        | some lim =>
          dsimp only
          split
          · exact gf
          · exact gc

theorem tabE_total (f : Nat → Except Dask.Unify.Err ULayout) : ∀ (n : Nat), (∀ j, j < n → ∃ v, f j = .ok v) →
    ∃ t, tabE f n = .ok t
  | 0, _ => ⟨[], rfl⟩
  | n + 1, h => by
    obtain ⟨t, ht⟩ := tabE_total f n (fun j hj => h j (by omega))
    obtain ⟨v, hv⟩ := h n (by omega)
    exact ⟨t ++ [v], by simp [tabE, ht, hv]⟩

/-- `unify_chunks_expr` does not raise on broadcast-compatible operands with positive chunks -/
theorem unifyModel_total (policy : Dask.Unify.Policy) (limit : Option Int) (pre : List ULayout)
    (ops : List Opd) (nlabels : Nat) (hwf : OpsWF ops)
    (hused : ∀ j, j < nlabels → ∃ a ∈ ops, ∃ ax ∈ a.axes, ax.label = j) :
    ∃ res, unifyModel policy limit pre ops nlabels = .ok res ∧ (policy ≠ .auto → res.oracleOk = true) := by
  obtain ⟨fineT, hfT⟩ := tabE_total (fun j => commonBlockdim (g2 (layoutsAt ops j))) nlabels (by
    intro j hj
    obtain ⟨⟨T, hW⟩, _, _⟩ := g2_wf hwf j (hused j hj)
    obtain ⟨r, hr, _⟩ := commonBlockdim_ok hW
    exact ⟨r, hr⟩)
  obtain ⟨coarseT, hcT⟩ := tabE_total (fun j => coarseBlockdim (g2 (layoutsAt ops j))) nlabels (by
    intro j hj
    obtain ⟨⟨T, hW⟩, _, _⟩ := g2_wf hwf j (hused j hj)
    obtain ⟨r, hr, _⟩ := coarseBlockdim_ok hW
    exact ⟨r, hr⟩)
  unfold unifyModel
  simp only [hfT, hcT]
  by_cases hpol : policy = .refine
  · simp only [hpol, if_true]
    exact ⟨_, rfl, fun _ => rfl⟩
  · simp only [hpol, if_false]
    refine ⟨_, rfl, ?_⟩
    intro hna
    have hco : policy = .coarse := by
      cases policy with
      | auto => exact absurd rfl hna
      | coarse => rfl
      | refine => exact absurd rfl hpol
    simp only [hco, if_true, List.all_eq_true, List.mem_range]
    intro j _
    simp [oracleOK]

end unify

/-! ### totality and the refine policy for two operands -/

theorem posLayout_iff (l : Layout) : posLayout l = true ↔ ∀ c ∈ l, ∀ x ∈ c, 0 < x := by
  simp [posLayout, List.all_eq_true]

theorem mem_toI {c : List Nat} {x : Int} : x ∈ toI c ↔ ∃ y ∈ c, (y : Int) = x := by
  simp [toI]

theorem getD_mem_of_lt (l : Layout) (n : Nat) (h : n < l.length) : l.getD n [] ∈ l := by
  rw [getD_eq_getElem _ _ _ h]; exact List.getElem_mem h

theorem bcCompat_getD {s t : List Nat} (h : bcCompat s t = true) (k : Nat) (hk : k < max s.length t.length) :
    (padSh (max s.length t.length) s).getD k 0 = (padSh (max s.length t.length) t).getD k 0 ∨
    (padSh (max s.length t.length) s).getD k 0 = 1 ∨ (padSh (max s.length t.length) t).getD k 0 = 1 := by
  simp only [bcCompat, List.all_eq_true, List.mem_range, decide_eq_true_eq] at h
  exact h k hk

/-- the two operands of an elemwise node form a well-formed operand list of the Unify model -/
theorem opsWF_two {ia ib : Int} {ca cb : Layout} (hia : 0 ≤ ia) (hib : 0 ≤ ib)
    (na : allTruthy ca = true) (nb : allTruthy cb = true) (pa : posLayout ca = true) (pb : posLayout cb = true)
    (hc : bcCompat (ca.map List.sum) (cb.map List.sum) = true) :
    Dask.Lemmas.Unify.OpsWF [opdOf ⟨ia, ca⟩, opdOf ⟨ib, cb⟩] := by
  have key : ∀ (it : Int) (c : Layout), 0 ≤ it → allTruthy c = true → posLayout c = true →
      0 ≤ (opdOf ⟨it, c⟩).itemsize ∧ (∀ ax ∈ (opdOf ⟨it, c⟩).axes, ax.chunks ≠ []) ∧
      (∀ ax ∈ (opdOf ⟨it, c⟩).axes, ∀ x ∈ ax.chunks, 0 < x) := by
    intro it c hit hn hp
    refine ⟨hit, ?_, ?_⟩
    · intro ax hax
      obtain ⟨n, hn', rfl⟩ := (mem_opdOf_axes _ _).mp hax
      have := (allTruthy_iff c).mp hn _ (getD_mem_of_lt c n hn')
      show toI (c.getD n []) ≠ []
      simpa [toI] using this
    · intro ax hax x hx
      obtain ⟨n, hn', rfl⟩ := (mem_opdOf_axes _ _).mp hax
      obtain ⟨y, hy, rfl⟩ := mem_toI.mp hx
      have := (posLayout_iff c).mp hp _ (getD_mem_of_lt c n hn') y hy
      omega
  obtain ⟨a1, a2, a3⟩ := key ia ca hia na pa
  obtain ⟨b1, b2, b3⟩ := key ib cb hib nb pb
  -- axes of two operands that share a label and are both live have the same length
  have cross : ∀ (it it' : Int) (c d : Layout), bcCompat (c.map List.sum) (d.map List.sum) = true →
      ∀ ax ∈ (opdOf ⟨it, c⟩).axes, ∀ bx ∈ (opdOf ⟨it', d⟩).axes, ax.label = bx.label →
        ax.live = true → bx.live = true → ax.shape = bx.shape := by
    intro it it' c d hcd ax hax bx hbx hl hlva hlvb
    obtain ⟨n, hn, rfl⟩ := (mem_opdOf_axes _ _).mp hax
    obtain ⟨m, hm, rfl⟩ := (mem_opdOf_axes _ _).mp hbx
    rw [Dask.Lemmas.Unify.live_iff] at hlva hlvb
    dsimp only at hn hm hl hlva hlvb ⊢
    have hn' : n < c.length := hn
    have hm' : m < d.length := hm
    have hl' : c.length - 1 - n = d.length - 1 - m := hl
    rw [ax_shape_toI]
    have h1 : (1 : Int) < ((c.getD n []).sum : Int) := by
      have := hlva; simp only [isum_toI] at this; omega
    have h2 : (1 : Int) < ((d.getD m []).sum : Int) := by
      have := hlvb; simp only [isum_toI] at this; omega
    rw [ax_shape_toI]
    have hk : max c.length d.length - c.length + n < max (c.map List.sum).length (d.map List.sum).length := by
      simp; omega
    have := bcCompat_getD hcd _ hk
    simp only [List.length_map] at this
    rw [padSh_getD, padSh_getD, List.length_map, List.length_map, if_neg (by omega), if_neg (by omega)] at this
    have e1 : max c.length d.length - c.length + n - (max c.length d.length - c.length) = n := by omega
    have e2 : max c.length d.length - c.length + n - (max c.length d.length - d.length) = m := by omega
    have s1 : (List.map List.sum c).getD n 0 = (c.getD n []).sum := (sum_getD_of_map_sum rfl n).symm
    have s2 : (List.map List.sum d).getD m 0 = (d.getD m []).sum := (sum_getD_of_map_sum rfl m).symm
    rw [e1, e2, s1, s2] at this
    omega
  have self : ∀ (it : Int) (c : Layout),
      ∀ ax ∈ (opdOf ⟨it, c⟩).axes, ∀ bx ∈ (opdOf ⟨it, c⟩).axes, ax.label = bx.label → ax.shape = bx.shape := by
    intro it c ax hax bx hbx hl
    obtain ⟨n, hn, rfl⟩ := (mem_opdOf_axes _ _).mp hax
    obtain ⟨m, hm, rfl⟩ := (mem_opdOf_axes _ _).mp hbx
    have hn' : n < c.length := hn
    have hm' : m < c.length := hm
    have hl' : c.length - 1 - n = c.length - 1 - m := hl
    have : n = m := by omega
    rw [this]
  have hc' : bcCompat (cb.map List.sum) (ca.map List.sum) = true := by
    simp only [bcCompat, List.all_eq_true, List.mem_range, decide_eq_true_eq] at hc ⊢
    intro k hk
    rw [Nat.max_comm] at hk ⊢
    rcases hc k hk with h | h | h
    · exact Or.inl h.symm
    · exact Or.inr (Or.inr h)
    · exact Or.inr (Or.inl h)
  refine ⟨?_, ?_, ?_, ?_⟩
  · intro a ha
    simp only [List.mem_cons, List.not_mem_nil, or_false] at ha
    rcases ha with rfl | rfl
    · exact a1
    · exact b1
  · intro a ha
    simp only [List.mem_cons, List.not_mem_nil, or_false] at ha
    rcases ha with rfl | rfl
    · exact a2
    · exact b2
  · intro a ha
    simp only [List.mem_cons, List.not_mem_nil, or_false] at ha
    rcases ha with rfl | rfl
    · exact a3
    · exact b3
  · intro a ha ax hax b hb bx hbx hl hlva hlvb
    simp only [List.mem_cons, List.not_mem_nil, or_false] at ha hb
    rcases ha with rfl | rfl <;> rcases hb with rfl | rfl
    · exact self _ _ ax hax bx hbx hl
    · exact cross _ _ _ _ hc ax hax bx hbx hl hlva hlvb
    · exact cross _ _ _ _ hc' ax hax bx hbx hl hlva hlvb
    · exact self _ _ ax hax bx hbx hl

theorem labels_two (ia ib : Int) (ca cb : Layout) :
    ∀ a ∈ [opdOf ⟨ia, ca⟩, opdOf ⟨ib, cb⟩], ∀ ax ∈ a.axes, ax.label < max ca.length cb.length := by
  intro a ha ax hax
  simp only [List.mem_cons, List.not_mem_nil, or_false] at ha
  rcases ha with rfl | rfl
  · obtain ⟨n, hn, rfl⟩ := (mem_opdOf_axes _ _).mp hax
    have hn' : n < ca.length := hn
    show ca.length - 1 - n < _
    omega
  · obtain ⟨n, hn, rfl⟩ := (mem_opdOf_axes _ _).mp hax
    have hn' : n < cb.length := hn
    show cb.length - 1 - n < _
    omega

theorem used_two (ia ib : Int) (ca cb : Layout) :
    ∀ j, j < max ca.length cb.length → ∃ a ∈ [opdOf ⟨ia, ca⟩, opdOf ⟨ib, cb⟩], ∃ ax ∈ a.axes, ax.label = j := by
  intro j hj
  by_cases h : j < ca.length
  · refine ⟨_, List.mem_cons_self, ⟨ca.length - 1 - (ca.length - 1 - j), toI _⟩,
      (mem_opdOf_axes _ _).mpr ⟨ca.length - 1 - j, by show _ < ca.length; omega, rfl⟩, ?_⟩
    show ca.length - 1 - (ca.length - 1 - j) = j
    omega
  · refine ⟨_, List.mem_cons_of_mem _ List.mem_cons_self, ⟨cb.length - 1 - (cb.length - 1 - j), toI _⟩,
      (mem_opdOf_axes _ _).mpr ⟨cb.length - 1 - j, by show _ < cb.length; omega, rfl⟩, ?_⟩
    show cb.length - 1 - (cb.length - 1 - j) = j
    omega

theorem sum_map_toNat : ∀ (l : List Int), (∀ x ∈ l, 0 ≤ x) → ((l.map Int.toNat).sum : Int) = Dask.Py.isum l
  | [], _ => rfl
  | x :: xs, h => by
    have h1 := h x List.mem_cons_self
    have ih := sum_map_toNat xs (fun y hy => h y (List.mem_cons_of_mem _ hy))
    simp only [List.map_cons, List.sum_cons, Dask.Py.isum]
    omega

theorem toI_map_toNat : ∀ (l : List Int), (∀ x ∈ l, 0 ≤ x) → toI (l.map Int.toNat) = l
  | [], _ => rfl
  | x :: xs, h => by
    have h1 := h x List.mem_cons_self
    have ih := toI_map_toNat xs (fun y hy => h y (List.mem_cons_of_mem _ hy))
    simp only [toI, List.map_cons, List.map_map] at ih ⊢
    rw [ih]
    congr 1
    exact Int.toNat_of_nonneg h1

theorem eq_one_of_sum_one : ∀ (c : List Nat), (∀ x ∈ c, 0 < x) → c.sum = 1 → c = [1]
  | [], _, h => by simp at h
  | [x], _, h => by simp at h; rw [h]
  | x :: y :: ys, hp, h => by
    have h1 := hp x (by simp)
    have h2 := hp y (by simp)
    simp only [List.sum_cons] at h
    omega

/-- the target of an operand with positive chunks, computed from a final layout table that is good on
the operand's live axes, is a layout of the operand's shape -/
theorem targetOf_valid (final : Nat → ULayout) (it : Int) (c : Layout)
    (nc : allTruthy c = true) (pc : posLayout c = true)
    (hgood : ∀ ax ∈ (opdOf ⟨it, c⟩).axes, ax.live = true → Good ax (final ax.label)) :
    (targetOf final ⟨it, c⟩).map List.sum = c.map List.sum ∧ allTruthy (targetOf final ⟨it, c⟩) = true ∧
    (∀ n, n < c.length → toI ((targetOf final ⟨it, c⟩).getD n []) =
      if (c.getD n []).sum = 1 then [1] else final (c.length - 1 - n)) := by
  have per : ∀ n, n < c.length →
      ((targetOf final ⟨it, c⟩).getD n []).sum = (c.getD n []).sum ∧ (targetOf final ⟨it, c⟩).getD n [] ≠ [] ∧
      toI ((targetOf final ⟨it, c⟩).getD n []) = if (c.getD n []).sum = 1 then [1] else final (c.length - 1 - n) := by
    intro n hn
    by_cases h1 : (c.getD n []).sum = 1
    · rw [targetOf_getD_one final ⟨it, c⟩ n hn h1, h1, if_pos rfl]
      exact ⟨rfl, by simp, rfl⟩
    · rw [targetOf_getD_final final ⟨it, c⟩ n hn h1, if_neg h1]
      dsimp only
      have hne : c.getD n [] ≠ [] := (allTruthy_iff c).mp nc _ (getD_mem_of_lt c n hn)
      have hpos : ∀ x ∈ c.getD n [], 0 < x := (posLayout_iff c).mp pc _ (getD_mem_of_lt c n hn)
      have hsum : 1 < (c.getD n []).sum := by
        cases hcn : c.getD n [] with
        | nil => exact absurd hcn hne
        | cons x xs =>
          rw [hcn] at h1 hpos
          have := hpos x (by simp)
          simp only [List.sum_cons] at h1 ⊢
          omega
      have hlive : (⟨c.length - 1 - n, toI (c.getD n [])⟩ : Dask.Unify.Ax).live = true := by
        rw [Dask.Lemmas.Unify.live_iff]
        show Dask.Py.isum (toI (c.getD n [])) > 1
        rw [isum_toI]; omega
      obtain ⟨g1, g2⟩ := hgood _ ((mem_opdOf_axes ⟨it, c⟩ _).mpr ⟨n, hn, rfl⟩) hlive
      have g1' : Dask.Py.isum (final (c.length - 1 - n)) = ((c.getD n []).sum : Int) := by
        rw [← isum_toI]; exact g1
      have g2' : ∀ x ∈ final (c.length - 1 - n), 0 ≤ x := fun x hx => Int.le_of_lt (g2 x hx)
      have hs := sum_map_toNat _ g2'
      refine ⟨by omega, ?_, toI_map_toNat _ g2'⟩
      intro he
      rw [he] at hs
      simp at hs
      omega
  have hlen := targetOf_length final ⟨it, c⟩
  refine ⟨?_, ?_, fun n hn => (per n hn).2.2⟩
  · apply list_ext_getD
    · simp only [List.length_map]; exact hlen
    · intro k hk
      rw [List.length_map, hlen] at hk
      have hk' : k < c.length := hk
      rw [getD_map List.sum _ k [] 0 (by rw [hlen]; exact hk), getD_map List.sum _ k [] 0 hk']
      exact (per k hk').1
  · rw [allTruthy_iff]
    intro cs hcs
    rw [List.mem_iff_getElem] at hcs
    obtain ⟨k, hk, rfl⟩ := hcs
    have hk' : k < c.length := by rw [hlen] at hk; exact hk
    have := (per k hk').2.1
    rwa [getD_eq_getElem _ _ _ hk] at this

/-- on broadcast-compatible operands with positive chunks `unify_chunks_expr` does not raise; the only
refusal of the model is an inadmissible oracle value, which cannot happen under `coarse` / `refine` -/
theorem unifyTargets_total (p : Params) (pre : List ULayout) {ia ib : Int} {ca cb : Layout}
    (hia : 0 ≤ ia) (hib : 0 ≤ ib)
    (na : allTruthy ca = true) (nb : allTruthy cb = true) (pa : posLayout ca = true) (pb : posLayout cb = true)
    (hc : bcCompat (ca.map List.sum) (cb.map List.sum) = true) :
    (∃ l, unifyTargets p pre [⟨ia, ca⟩, ⟨ib, cb⟩] = .ok l) ∨
    (p.policy = .auto ∧ unifyTargets p pre [⟨ia, ca⟩, ⟨ib, cb⟩] = .error .oracle) := by
  have hwf := opsWF_two hia hib na nb pa pb hc
  obtain ⟨res, hres, hpol⟩ := unifyModel_total p.policy p.limit pre _ _ hwf (used_two ia ib ca cb)
  unfold unifyTargets
  simp only [List.all_cons, List.all_nil, Bool.and_true, decide_eq_true_eq]
  by_cases he : cb = ca
  · left; rw [if_pos he]; exact ⟨_, rfl⟩
  · rw [if_neg he]
    have hn : nlabelsOf [(⟨ia, ca⟩ : Opnd), ⟨ib, cb⟩] = max ca.length cb.length := by simp [nlabelsOf]
    simp only [List.map_cons, List.map_nil, hn, hres]
    by_cases hok : res.oracleOk = true
    · left
      rw [if_pos hok]
      have good := final_good p.policy p.limit pre _ _ hwf (labels_two ia ib ca cb) res hres hok
      obtain ⟨a1, a2, _⟩ := targetOf_valid (Dask.Unify.look res.final) ia ca na pa
        (fun ax hax hl => good _ List.mem_cons_self ax hax hl)
      obtain ⟨b1, b2, _⟩ := targetOf_valid (Dask.Unify.look res.final) ib cb nb pb
        (fun ax hax hl => good _ (List.mem_cons_of_mem _ List.mem_cons_self) ax hax hl)
      have one : ∀ (it : Int) (c : Layout), (targetOf (Dask.Unify.look res.final) ⟨it, c⟩).map List.sum = c.map List.sum →
          allTruthy (targetOf (Dask.Unify.look res.final) ⟨it, c⟩) = true →
          ∃ u, arrangeOne (Dask.Unify.look res.final) ⟨it, c⟩ = .ok u := by
        intro it c h1 h2
        unfold arrangeOne
        dsimp only
        split
        · exact ⟨_, rfl⟩
        · rw [if_pos (by simp [h1, h2])]; exact ⟨_, rfl⟩
      obtain ⟨ua, hua⟩ := one ia ca a1 a2
      obtain ⟨ub, hub⟩ := one ib cb b1 b2
      exact ⟨[ua, ub], by simp [arrangeAll, hua, hub]⟩
    · right
      rw [if_neg hok]
      refine ⟨?_, rfl⟩
      cases hp : p.policy with
      | auto => rfl
      | coarse => exact absurd (hpol (by rw [hp]; simp)) hok
      | refine => exact absurd (hpol (by rw [hp]; simp)) hok

/-- policy `refine`: each operand's rechunk only splits blocks (every boundary of the operand's axis is a
boundary of its new layout, and no block grows) -/
theorem unifyTargets_refine (p : Params) (hp : p.policy = .refine) (pre : List ULayout) {ia ib : Int}
    {ca cb ua ub : Layout} (hia : 0 ≤ ia) (hib : 0 ≤ ib)
    (na : allTruthy ca = true) (nb : allTruthy cb = true) (pa : posLayout ca = true) (pb : posLayout cb = true)
    (hc : bcCompat (ca.map List.sum) (cb.map List.sum) = true)
    (h : unifyTargets p pre [⟨ia, ca⟩, ⟨ib, cb⟩] = .ok [ua, ub]) :
    (∀ n, n < ca.length →
      (∀ bd ∈ Dask.Unify.bnds (toI (ca.getD n [])), bd ∈ Dask.Unify.bnds (toI (ua.getD n []))) ∧
      Dask.Unify.imax (toI (ua.getD n [])) ≤ Dask.Unify.imax (toI (ca.getD n []))) ∧
    (∀ n, n < cb.length →
      (∀ bd ∈ Dask.Unify.bnds (toI (cb.getD n [])), bd ∈ Dask.Unify.bnds (toI (ub.getD n []))) ∧
      Dask.Unify.imax (toI (ub.getD n [])) ≤ Dask.Unify.imax (toI (cb.getD n []))) := by
  obtain ⟨ua', ub', hl, _, _, _, _, hcase⟩ := unifyTargets_two na nb h
  have e1 : ua' = ua := by simp only [List.cons.injEq, and_true] at hl; exact hl.1.symm
  have e2 : ub' = ub := by simp only [List.cons.injEq, and_true] at hl; exact hl.2.symm
  subst e1 e2
  rcases hcase with ⟨_, r1, r2⟩ | ⟨_, res, hres, hok, r1, r2⟩
  · subst r1 r2
    exact ⟨fun n _ => ⟨fun _ h => h, Int.le_refl _⟩, fun n _ => ⟨fun _ h => h, Int.le_refl _⟩⟩
  · have hwf := opsWF_two hia hib na nb pa pb hc
    rw [hp] at hres
    have good := final_good .refine p.limit pre _ _ hwf (labels_two ia ib ca cb) res hres hok
    have split := Dask.Lemmas.Unify.unifyModel_refine p.limit pre _ _ hwf (labels_two ia ib ca cb) res hres
    have one : ∀ (it : Int) (c : Layout) (o : Dask.Unify.Opd), o = opdOf ⟨it, c⟩ →
        o ∈ [opdOf ⟨ia, ca⟩, opdOf ⟨ib, cb⟩] → allTruthy c = true → posLayout c = true →
        ∀ n, n < c.length →
          (∀ bd ∈ Dask.Unify.bnds (toI (c.getD n [])),
            bd ∈ Dask.Unify.bnds (toI ((targetOf (Dask.Unify.look res.final) ⟨it, c⟩).getD n []))) ∧
          Dask.Unify.imax (toI ((targetOf (Dask.Unify.look res.final) ⟨it, c⟩).getD n []))
            ≤ Dask.Unify.imax (toI (c.getD n [])) := by
      intro it c o ho hmem nc pc n hn
      subst ho
      obtain ⟨_, _, t3⟩ := targetOf_valid (Dask.Unify.look res.final) it c nc pc
        (fun ax hax hl => good _ hmem ax hax hl)
      rw [t3 n hn]
      by_cases h1 : (c.getD n []).sum = 1
      · rw [if_pos h1]
        have := eq_one_of_sum_one _ ((posLayout_iff c).mp pc _ (getD_mem_of_lt c n hn)) h1
        rw [this]
        exact ⟨fun _ h => h, Int.le_refl _⟩
      · rw [if_neg h1]
        have hne : c.getD n [] ≠ [] := (allTruthy_iff c).mp nc _ (getD_mem_of_lt c n hn)
        have hpos : ∀ x ∈ c.getD n [], 0 < x := (posLayout_iff c).mp pc _ (getD_mem_of_lt c n hn)
        have hsum : 1 < (c.getD n []).sum := by
          cases hcn : c.getD n [] with
          | nil => exact absurd hcn hne
          | cons x xs =>
            rw [hcn] at h1 hpos
            have := hpos x (by simp)
            simp only [List.sum_cons] at h1 ⊢
            omega
        have hlive : (⟨c.length - 1 - n, toI (c.getD n [])⟩ : Dask.Unify.Ax).live = true := by
          rw [Dask.Lemmas.Unify.live_iff]
          show Dask.Py.isum (toI (c.getD n [])) > 1
          rw [isum_toI]; omega
        have := split _ hmem _ ((mem_opdOf_axes ⟨it, c⟩ _).mpr ⟨n, hn, rfl⟩) hlive
        exact ⟨this.2.1, this.2.2.2⟩
    rw [r1, r2]
    exact ⟨one ia ca _ rfl List.mem_cons_self na pa,
      one ib cb _ rfl (List.mem_cons_of_mem _ List.mem_cons_self) nb pb⟩

/-! ### the layouts are the Unify model's -/

/-- per axis, the layout an operand is brought to: `(1,)` on a length-1 axis, else the Unify model's final
layout of the axis' index label (counted from the right) -/
theorem targets_layout {p : Params} {pre : List ULayout} {ia ib : Int} {ca cb ua ub : Layout}
    (na : allTruthy ca = true) (nb : allTruthy cb = true)
    (h : unifyTargets p pre [⟨ia, ca⟩, ⟨ib, cb⟩] = .ok [ua, ub]) :
    (ca = cb ∧ ua = ca ∧ ub = cb) ∨
    (ca ≠ cb ∧ ∃ res, Dask.Unify.unifyModel p.policy p.limit pre [opdOf ⟨ia, ca⟩, opdOf ⟨ib, cb⟩]
        (max ca.length cb.length) = .ok res ∧ res.oracleOk = true ∧
      (∀ n, n < ca.length → ua.getD n [] =
        if (ca.getD n []).sum = 1 then [1] else (Dask.Unify.look res.final (ca.length - 1 - n)).map Int.toNat) ∧
      (∀ n, n < cb.length → ub.getD n [] =
        if (cb.getD n []).sum = 1 then [1] else (Dask.Unify.look res.final (cb.length - 1 - n)).map Int.toNat)) := by
  obtain ⟨ua', ub', hl, _, _, _, _, hcase⟩ := unifyTargets_two na nb h
  have e1 : ua' = ua := by simp only [List.cons.injEq, and_true] at hl; exact hl.1.symm
  have e2 : ub' = ub := by simp only [List.cons.injEq, and_true] at hl; exact hl.2.symm
  subst e1 e2
  rcases hcase with h1 | ⟨hne, res, hres, hok, r1, r2⟩
  · exact Or.inl h1
  · refine Or.inr ⟨hne, res, hres, hok, ?_, ?_⟩
    · intro n hn
      rw [r1]
      by_cases h1 : (ca.getD n []).sum = 1
      · rw [if_pos h1]; exact targetOf_getD_one _ ⟨ia, ca⟩ n hn h1
      · rw [if_neg h1]; exact targetOf_getD_final _ ⟨ia, ca⟩ n hn h1
    · intro n hn
      rw [r2]
      by_cases h1 : (cb.getD n []).sum = 1
      · rw [if_pos h1]; exact targetOf_getD_one _ ⟨ib, cb⟩ n hn h1
      · rw [if_neg h1]; exact targetOf_getD_final _ ⟨ib, cb⟩ n hn h1

theorem lowerZip_layout {p : Params} {pre : List ULayout} {ia ib : Int} {f : Nat} {a b e : Expr}
    (ha : WF a) (hb : WF b) (hs : shape a = shape b) (h : lowerZip p pre ia ib f a b = .ok e) :
    (chunks a = chunks b ∧ e = .zip f a b) ∨
    (chunks a ≠ chunks b ∧ ∃ res, Dask.Unify.unifyModel p.policy p.limit pre
        [opdOf ⟨ia, chunks a⟩, opdOf ⟨ib, chunks b⟩] (shape a).length = .ok res ∧ res.oracleOk = true ∧
      ∀ n, n < (shape a).length → (chunks e).getD n [] =
        if (shape a).getD n 0 = 1 then [1]
        else (Dask.Unify.look res.final ((shape a).length - 1 - n)).map Int.toNat) := by
  obtain ⟨ua, ub, hu, he, _⟩ := lowerZip_ok ha hb h
  have la : (chunks a).length = (shape a).length := length_of_map_sum (meta_ok a ha).1
  have lb : (chunks b).length = (shape a).length := by rw [hs]; exact length_of_map_sum (meta_ok b hb).1
  rcases targets_layout (allTruthy_chunks ha) (allTruthy_chunks hb) hu with ⟨h1, h2, h3⟩ | ⟨hne, res, hres, hok, r1, _⟩
  · left
    refine ⟨h1, ?_⟩
    subst he
    rw [h2, h3]
    simp [rechunkTo]
  · right
    rw [la, lb, Nat.max_self] at hres
    refine ⟨hne, res, hres, hok, ?_⟩
    intro n hn
    have hce : chunks e = ua := by subst he; simp only [chunks, rechunkTo_chunks]
    rw [hce, r1 n (by omega), la, sum_getD_of_map_sum (meta_ok a ha).1]

theorem lowerZipB_layout {p : Params} {pre : List ULayout} {ia ib : Int} {f : Nat} {a b e : Expr2}
    (ha : WF2 a) (hb : WF2 b) (h : lowerZipB p pre ia ib f a b = .ok e) :
    (chunks2 a = chunks2 b ∧ e = .zipB f a b) ∨
    (chunks2 a ≠ chunks2 b ∧ ∃ a' b' res, e = .zipB f a' b' ∧
      Dask.Unify.unifyModel p.policy p.limit pre [opdOf ⟨ia, chunks2 a⟩, opdOf ⟨ib, chunks2 b⟩]
        (max (shape2 a).length (shape2 b).length) = .ok res ∧ res.oracleOk = true ∧
      (∀ n, n < (shape2 a).length → (chunks2 a').getD n [] =
        if (shape2 a).getD n 0 = 1 then [1]
        else (Dask.Unify.look res.final ((shape2 a).length - 1 - n)).map Int.toNat) ∧
      (∀ n, n < (shape2 b).length → (chunks2 b').getD n [] =
        if (shape2 b).getD n 0 = 1 then [1]
        else (Dask.Unify.look res.final ((shape2 b).length - 1 - n)).map Int.toNat)) := by
  obtain ⟨ua, ub, hu, he, _⟩ := lowerZipB_ok ha hb h
  have la : (chunks2 a).length = (shape2 a).length := length_of_map_sum (meta2_ok a ha).1
  have lb : (chunks2 b).length = (shape2 b).length := length_of_map_sum (meta2_ok b hb).1
  rcases targets_layout (allTruthy_chunks2 ha) (allTruthy_chunks2 hb) hu with ⟨h1, h2, h3⟩ | ⟨hne, res, hres, hok, r1, r2⟩
  · left
    refine ⟨h1, ?_⟩
    subst he
    rw [h2, h3]
    simp [rechunkTo2]
  · right
    rw [la, lb] at hres
    refine ⟨hne, _, _, res, he, hres, hok, ?_, ?_⟩
    · intro n hn
      rw [rechunkTo2_chunks2, r1 n (by omega), la, sum_getD_of_map_sum (meta2_ok a ha).1]
    · intro n hn
      rw [rechunkTo2_chunks2, r2 n (by omega), lb, sum_getD_of_map_sum (meta2_ok b hb).1]

/-! ### totality and the refine policy at expression level -/

theorem bcCompat_self (s : List Nat) : bcCompat s s = true := by
  simp [bcCompat]

theorem lowerZip_total (p : Params) (pre : List ULayout) {ia ib : Int} (f : Nat) {a b : Expr}
    (ha : WF a) (hb : WF b) (hs : shape a = shape b) (hia : 0 ≤ ia) (hib : 0 ≤ ib)
    (pa : posLayout (chunks a) = true) (pb : posLayout (chunks b) = true) :
    (∃ e, lowerZip p pre ia ib f a b = .ok e) ∨
    (p.policy = .auto ∧ lowerZip p pre ia ib f a b = .error .oracle) := by
  have hc : bcCompat ((chunks a).map List.sum) ((chunks b).map List.sum) = true := by
    rw [(meta_ok a ha).1, (meta_ok b hb).1, hs]; exact bcCompat_self _
  rcases unifyTargets_total p pre hia hib (allTruthy_chunks ha) (allTruthy_chunks hb) pa pb hc with ⟨l, hl⟩ | ⟨hp, he⟩
  · left
    obtain ⟨ua, ub, e, _⟩ := twoOK_of_unify (allTruthy_chunks ha) (allTruthy_chunks hb) hl
    subst e
    exact ⟨_, by unfold lowerZip; rw [hl]⟩
  · right
    exact ⟨hp, by unfold lowerZip; rw [he]⟩

theorem lowerZipB_total (p : Params) (pre : List ULayout) {ia ib : Int} (f : Nat) {a b : Expr2}
    (ha : WF2 a) (hb : WF2 b) (hc : bcCompat (shape2 a) (shape2 b) = true) (hia : 0 ≤ ia) (hib : 0 ≤ ib)
    (pa : posLayout (chunks2 a) = true) (pb : posLayout (chunks2 b) = true) :
    (∃ e, lowerZipB p pre ia ib f a b = .ok e) ∨
    (p.policy = .auto ∧ lowerZipB p pre ia ib f a b = .error .oracle) := by
  have hc' : bcCompat ((chunks2 a).map List.sum) ((chunks2 b).map List.sum) = true := by
    rw [(meta2_ok a ha).1, (meta2_ok b hb).1]; exact hc
  rcases unifyTargets_total p pre hia hib (allTruthy_chunks2 ha) (allTruthy_chunks2 hb) pa pb hc' with ⟨l, hl⟩ | ⟨hp, he⟩
  · left
    obtain ⟨ua, ub, e, _⟩ := twoOK_of_unify (allTruthy_chunks2 ha) (allTruthy_chunks2 hb) hl
    subst e
    exact ⟨_, by unfold lowerZipB; rw [hl]⟩
  · right
    exact ⟨hp, by unfold lowerZipB; rw [he]⟩

/-- "`c'` is `c` with some blocks split": every boundary of `c` is a boundary of `c'` and no block grows -/
def OnlySplits (c c' : List Nat) : Prop :=
  (∀ bd ∈ Dask.Unify.bnds (toI c), bd ∈ Dask.Unify.bnds (toI c')) ∧
    Dask.Unify.imax (toI c') ≤ Dask.Unify.imax (toI c)

theorem lowerZip_refine (p : Params) (hp : p.policy = .refine) (pre : List ULayout) {ia ib : Int} {f : Nat}
    {a b e : Expr} (ha : WF a) (hb : WF b) (hs : shape a = shape b) (hia : 0 ≤ ia) (hib : 0 ≤ ib)
    (pa : posLayout (chunks a) = true) (pb : posLayout (chunks b) = true)
    (h : lowerZip p pre ia ib f a b = .ok e) :
    ∀ n, n < (shape a).length →
      OnlySplits ((chunks a).getD n []) ((chunks e).getD n []) ∧
      OnlySplits ((chunks b).getD n []) ((chunks e).getD n []) := by
  obtain ⟨ua, ub, hu, he, two⟩ := lowerZip_ok ha hb h
  have hsum : (chunks a).map List.sum = (chunks b).map List.sum := by
    rw [(meta_ok a ha).1, (meta_ok b hb).1, hs]
  have hc : bcCompat ((chunks a).map List.sum) ((chunks b).map List.sum) = true := by
    rw [hsum]; exact bcCompat_self _
  have hab := two.same hsum
  obtain ⟨r1, r2⟩ := unifyTargets_refine p hp pre hia hib (allTruthy_chunks ha) (allTruthy_chunks hb) pa pb hc hu
  have hce : chunks e = ua := by subst he; simp only [chunks, rechunkTo_chunks]
  have la : (chunks a).length = (shape a).length := length_of_map_sum (meta_ok a ha).1
  have lb : (chunks b).length = (shape a).length := by rw [hs]; exact length_of_map_sum (meta_ok b hb).1
  intro n hn
  rw [hce]
  refine ⟨r1 n (by omega), ?_⟩
  rw [hab]
  exact r2 n (by omega)

theorem lowerZipB_refine (p : Params) (hp : p.policy = .refine) (pre : List ULayout) {ia ib : Int} {f : Nat}
    {a b e : Expr2} (ha : WF2 a) (hb : WF2 b) (hc : bcCompat (shape2 a) (shape2 b) = true)
    (hia : 0 ≤ ia) (hib : 0 ≤ ib) (pa : posLayout (chunks2 a) = true) (pb : posLayout (chunks2 b) = true)
    (h : lowerZipB p pre ia ib f a b = .ok e) :
    ∃ a' b', e = .zipB f a' b' ∧
      (∀ n, n < (shape2 a).length → OnlySplits ((chunks2 a).getD n []) ((chunks2 a').getD n [])) ∧
      (∀ n, n < (shape2 b).length → OnlySplits ((chunks2 b).getD n []) ((chunks2 b').getD n [])) := by
  obtain ⟨ua, ub, hu, he, _⟩ := lowerZipB_ok ha hb h
  have hc' : bcCompat ((chunks2 a).map List.sum) ((chunks2 b).map List.sum) = true := by
    rw [(meta2_ok a ha).1, (meta2_ok b hb).1]; exact hc
  obtain ⟨r1, r2⟩ := unifyTargets_refine p hp pre hia hib (allTruthy_chunks2 ha) (allTruthy_chunks2 hb) pa pb hc' hu
  have la : (chunks2 a).length = (shape2 a).length := length_of_map_sum (meta2_ok a ha).1
  have lb : (chunks2 b).length = (shape2 b).length := length_of_map_sum (meta2_ok b hb).1
  refine ⟨_, _, he, ?_, ?_⟩
  · intro n hn; rw [rechunkTo2_chunks2]; exact r1 n (by omega)
  · intro n hn; rw [rechunkTo2_chunks2]; exact r2 n (by omega)

/-! ### trees: `lowerAll` -/

theorem isOk_iff {ε α} (x : Except ε α) : isOk x = true ↔ ∃ v, x = .ok v := by
  cases x <;> simp [isOk]

/-- lowering a well-formed tree succeeds; the result is well-formed, has the NumPy shape and the NumPy
meaning of the un-lowered tree -/
theorem lowerAll_sound (p : Params) : ∀ (t : ExprU), wfU p t = true →
    ∃ e2, lowerAll p t = .ok e2 ∧ WF2 e2 ∧ shape2 e2 = shapeU t ∧ ∀ env, den2 env e2 = denU env t
  | .base e, h => ⟨.base e, rfl, h, rfl, fun _ => rfl⟩
  | .zipU f ia ib pre a b, h => by
    simp only [wfU, Bool.and_eq_true] at h
    obtain ⟨a', ha', wa, sa, da⟩ := lowerAll_sound p a h.1.1
    obtain ⟨b', hb', wb, sb, db⟩ := lowerAll_sound p b h.1.2
    have h2 := h.2
    rw [ha', hb'] at h2
    simp only [Bool.and_eq_true] at h2
    obtain ⟨e, he⟩ := (isOk_iff _).mp h2.2
    refine ⟨e, by simp only [lowerAll, ha', hb']; exact he, lowerZipB_wf2 wa wb he, ?_, ?_⟩
    · rw [lowerZipB_shape2 wa wb he, sa, sb]; rfl
    · intro env
      rw [lowerZipB_den2 wa wb he env, da env, db env]; rfl
  | .node e a b, h => by
    simp only [wfU, Bool.and_eq_true] at h
    obtain ⟨a', ha', wa, _, da⟩ := lowerAll_sound p a h.1.1
    obtain ⟨b', hb', wb, _, db⟩ := lowerAll_sound p b h.1.2
    have h2 := h.2
    rw [ha', hb'] at h2
    simp only [Bool.and_eq_true] at h2
    refine ⟨.node e a' b', by simp only [lowerAll, ha', hb'], ?_, rfl, ?_⟩
    · simp only [WF2, wf2, Bool.and_eq_true]
      exact ⟨⟨⟨wa, wb⟩, h2.1⟩, h2.2⟩
    · intro env
      simp only [den2, denU, da env, db env]

theorem lowerAll_compute (p : Params) (t : ExprU) (h : wfU p t = true) (env : Env) (henv : EnvOK env) :
    ∃ e2, lowerAll p t = .ok e2 ∧ Arr.Equiv (compute2 env e2) (denU env t) := by
  obtain ⟨e2, he, w, _, d⟩ := lowerAll_sound p t h
  refine ⟨e2, he, ?_⟩
  rw [← d env]
  exact compute2_eq_den2 env henv e2 w

/-- under the policies `coarse` and `refine` the plain input conditions suffice: lowering is never refused -/
theorem wfU_of_regular (p : Params) (hp : p.policy ≠ .auto) : ∀ (t : ExprU), regularU p t = true → wfU p t = true
  | .base _, h => h
  | .zipU f ia ib pre a b, h => by
    simp only [regularU, Bool.and_eq_true] at h
    have wa := wfU_of_regular p hp a h.1.1
    have wb := wfU_of_regular p hp b h.1.2
    obtain ⟨a', ha', w2a, _, _⟩ := lowerAll_sound p a wa
    obtain ⟨b', hb', w2b, _, _⟩ := lowerAll_sound p b wb
    have h2 := h.2
    rw [ha', hb'] at h2
    simp only [Bool.and_eq_true, decide_eq_true_eq] at h2
    obtain ⟨⟨⟨⟨pa, pb⟩, hc⟩, hia⟩, hib⟩ := h2
    have hok : isOk (lowerZipB p pre ia ib f a' b') = true := by
      rcases lowerZipB_total p pre f w2a w2b hc hia hib pa pb with ⟨e, he⟩ | ⟨hauto, _⟩
      · rw [he]; rfl
      · exact absurd hauto hp
    simp only [wfU, Bool.and_eq_true, wa, wb, ha', hb', pa, pb, hc, hia, hib, hok, decide_true, and_self]
  | .node e a b, h => by
    simp only [regularU, Bool.and_eq_true] at h
    have wa := wfU_of_regular p hp a h.1.1
    have wb := wfU_of_regular p hp b h.1.2
    simp only [wfU, Bool.and_eq_true, wa, wb, true_and]
    exact h.2

end Dask.LowerUnify
