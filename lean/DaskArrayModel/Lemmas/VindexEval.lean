/-
`VIndexArray` layer evaluated: every advertised output chunk exists and holds its points in order
(`evalLayer_correct`).  Core Lean only.
-/
import DaskArrayModel.Lemmas.VindexLayer
namespace Dask.Lemmas.Vindex
open Dask.Py Dask.Slicing Dask.Indexing Dask.Shuffle Dask.Vindex Dask.Lemmas.Shuffle

theorem div_mul_facts (P m : Nat) : (P / m) * m + P % m = P := by
  have := Nat.div_add_mod P m
  rw [Nat.mul_comm] at this; exact this

theorem vChunks_length (css : List (List Int)) (P : Nat) (hP : 0 < P) :
    (vChunks css P).length = P / (mcpd css).toNat + (if P % (mcpd css).toNat > 0 then 1 else 0) := by
  unfold vChunks
  simp only [hP, ↓reduceIte, List.length_append, List.length_replicate]
  split <;> simp

theorem nOut_lt {css : List (List Int)} {P i : Nat} (hm : 0 < (mcpd css).toNat) (hP : 0 < P)
    (hi : i < (vChunks css P).length) : i * (mcpd css).toNat < P := by
  rw [vChunks_length css P hP] at hi
  have h1 := div_mul_facts P (mcpd css).toNat
  by_cases h : i < P / (mcpd css).toNat
  · have := Nat.mul_le_mul_right (mcpd css).toNat (show i + 1 ≤ P / (mcpd css).toNat by omega)
    rw [Nat.succ_mul] at this
    omega
  · split at hi
    · have : i = P / (mcpd css).toNat := by omega
      rw [this]; omega
    · omega

theorem nOut_ge {css : List (List Int)} {P : Nat} (hm : 0 < (mcpd css).toNat) (hP : 0 < P) :
    P ≤ (vChunks css P).length * (mcpd css).toNat := by
  rw [vChunks_length css P hP]
  have h1 := div_mul_facts P (mcpd css).toNat
  have h2 := Nat.mod_lt P hm
  split
  · rw [Nat.add_mul, Nat.one_mul]; omega
  · rw [Nat.add_zero]; omega

section layer
variable (argsort : List Int → List Nat) (hA : ∀ l, IsArgsort l (argsort l))
variable (css inds : List (List Int)) (P : Nat)
variable (hok : PointsOK css inds P) (hm : 0 < (mcpd css).toNat) (hhead : (inds.headD []).length = P)
variable (hP : 0 < P)

include hA hP in
theorem pairs_flatten :
    ((pairsEnd (runStarts (skeys argsort css inds P)) P).map (Jof argsort css inds P)).flatten
      = sidx argsort css inds P := by
  have hsl := skeys_length argsort hA css inds P
  have hne : skeys argsort css inds P ≠ [] := by
    intro h; rw [h] at hsl; simp at hsl; omega
  have hh := runStarts_head _ hne
  have hpw := runStarts_pairwise (skeys argsort css inds P)
  have hlt := runStarts_lt (skeys argsort css inds P)
  rw [hsl] at hh hlt
  have := pairsEnd_flatten (sidx argsort css inds P) _ P hpw (fun a ha => Nat.le_of_lt (hlt a ha))
  rw [hh] at this
  unfold Jof
  rw [this]
  have hl := sidx_length argsort hA css inds P
  have := pySlice_full (sidx argsort css inds P)
  rw [hl] at this
  exact this

include hA hok hP hm in
theorem outblock_mem (i : Nat) (hi : i * (mcpd css).toNat < P) :
    i ∈ (pairsEnd (runStarts (skeys argsort css inds P)) P).map
      (fun ab => (mkGroup argsort css inds P ab).outblock) := by
  have hsl := skeys_length argsort hA css inds P
  have hne : skeys argsort css inds P ≠ [] := by
    intro h; rw [h] at hsl; simp at hsl; omega
  have hh := runStarts_head _ hne
  rw [hsl] at hh
  have hj : i * (mcpd css).toNat ∈ sidx argsort css inds P :=
    (sidx_perm argsort hA css inds P).symm.subset (by simpa using hi)
  rcases List.mem_iff_getElem.mp hj with ⟨s, hs, he⟩
  have hs' : s < P := by rw [← sidx_length argsort hA css inds P]; exact hs
  rcases pairsEnd_cover _ P hh s hs' with ⟨ab, hab, h1, h2⟩
  have hmem : i * (mcpd css).toNat ∈ Jof argsort css inds P ab := by
    have := getD_mem_pySliceN (sidx argsort css inds P) h1 h2 hs
    rw [List.getD_eq_getElem?_getD, List.getElem?_eq_getElem hs, Option.getD_some, he] at this
    exact this
  have hf := group_fields argsort hA css inds P hok ab hab _ hmem
  refine List.mem_map.mpr ⟨ab, hab, ?_⟩
  rw [hf.1]
  exact Nat.mul_div_cancel i hm


include hA hok hm hP in
theorem merge_block {α} (x : List Int → α) (i : Nat) :
    vmerge ((((pairsEnd (runStarts (skeys argsort css inds P)) P).map
        (fun ab => (mkGroup argsort css inds P ab,
          (Jof argsort css inds P ab).map (fun j => x (pointAt inds j))))).filter
        (fun p => p.1.outblock = i)).map (fun p => (p.1.locs, p.2))) =
      (List.range (min (i * (mcpd css).toNat + (mcpd css).toNat) P - min (i * (mcpd css).toNat) P)).map
        (fun l => some (x (pointAt inds (i * (mcpd css).toNat + l)))) := by
  have hperm := sidx_perm argsort hA css inds P
  have e1 : (((pairsEnd (runStarts (skeys argsort css inds P)) P).map
        (fun ab => (mkGroup argsort css inds P ab,
          (Jof argsort css inds P ab).map (fun j => x (pointAt inds j))))).filter
        (fun p => p.1.outblock = i)).map (fun p => (p.1.locs, p.2)) =
      (((pairsEnd (runStarts (skeys argsort css inds P)) P).filter
        (fun ab => (mkGroup argsort css inds P ab).outblock = i)).map (Jof argsort css inds P)).map
        (fun J => (J.map (fun j => ((j % (mcpd css).toNat : Nat) : Int)), J.map (fun j => x (pointAt inds j)))) := by
    rw [List.filter_map, List.map_map, List.map_map]
    rfl
  rw [e1]
  have hfl : (((pairsEnd (runStarts (skeys argsort css inds P)) P).filter
        (fun ab => (mkGroup argsort css inds P ab).outblock = i)).map (Jof argsort css inds P)).flatten
      = (sidx argsort css inds P).filter (fun j => j / (mcpd css).toNat = i) := by
    rw [filter_flatten_uniform (Jof argsort css inds P) (fun ab => (mkGroup argsort css inds P ab).outblock)
      (fun j => j / (mcpd css).toNat) i _
      (fun ab hab j hj => (group_fields argsort hA css inds P hok ab hab j hj).1.symm),
      pairs_flatten argsort hA css inds P hP]
  have hmemf : ∀ j, j ∈ (sidx argsort css inds P).filter (fun j => j / (mcpd css).toNat = i) ↔
      j < P ∧ j / (mcpd css).toNat = i := by
    intro j
    rw [List.mem_filter]
    constructor
    · intro h; exact ⟨sidx_lt argsort hA css inds P j h.1, by simpa using h.2⟩
    · intro h; exact ⟨hperm.symm.subset (by simpa using h.1), by simpa using h.2⟩
  apply vmerge_spec (fun l => x (pointAt inds (i * (mcpd css).toNat + l))) (fun j => j % (mcpd css).toNat)
    (fun j => x (pointAt inds j))
  · rw [hfl, (hperm.filter _).length_eq, count_block hm]
  · intro j hj
    rw [hfl] at hj
    have h := (hmemf j).mp hj
    have hd := (div_eq_iff' hm j i).mp h.2
    have hdm := div_mul_facts j (mcpd css).toNat
    rw [h.2] at hdm
    refine ⟨by omega, ?_⟩
    simp only [hdm]
  · intro l hl
    refine ⟨i * (mcpd css).toNat + l, ?_, ?_⟩
    · rw [hfl]
      exact (hmemf _).mpr ⟨by omega, (div_eq_iff' hm _ i).mpr ⟨by omega, by omega⟩⟩
    · rw [Nat.add_comm, Nat.add_mul_mod_self_right]
      exact Nat.mod_eq_of_lt (by omega)


include hA hok hm hP hhead in
theorem evalLayer_correct {α} (x : List Int → α) :
    evalLayer argsort css inds x = .ok ((List.range (vChunks css P).length).map (fun i =>
      (List.range (min (i * (mcpd css).toNat + (mcpd css).toNat) P - min (i * (mcpd css).toNat) P)).map
        (fun l => some (x (pointAt inds (i * (mcpd css).toNat + l)))))) := by
  unfold evalLayer
  rw [layer_form argsort hA css inds P hm hhead]
  have hmm : ((pairsEnd (runStarts (skeys argsort css inds P)) P).map (mkGroup argsort css inds P)).mapM
      (fun g => (evalGroup css x g).map (fun v => (g, v))) =
      some ((pairsEnd (runStarts (skeys argsort css inds P)) P).map
        (fun ab => (mkGroup argsort css inds P ab,
          (Jof argsort css inds P ab).map (fun j => x (pointAt inds j))))) := by
    apply mapM_map_some
    intro ab hab
    rw [evalGroup_form argsort hA css inds P hok x ab hab]
    rfl
  simp only [hmm, hhead]
  have hlk : (List.range (vChunks css P).length).mapM (fun i =>
      List.lookup i (((pairsEnd (runStarts (skeys argsort css inds P)) P).map (mkGroup argsort css inds P)).map
        (fun g => (g.outblock, vmerge ((((pairsEnd (runStarts (skeys argsort css inds P)) P).map
          (fun ab => (mkGroup argsort css inds P ab,
            (Jof argsort css inds P ab).map (fun j => x (pointAt inds j))))).filter
          (fun p => p.1.outblock = g.outblock)).map (fun p => (p.1.locs, p.2))))))) =
      some ((List.range (vChunks css P).length).map (fun i =>
        (List.range (min (i * (mcpd css).toNat + (mcpd css).toNat) P - min (i * (mcpd css).toNat) P)).map
          (fun l => some (x (pointAt inds (i * (mcpd css).toNat + l)))))) := by
    apply mapM_some
    intro i hi
    have hi' : i * (mcpd css).toNat < P := nOut_lt hm hP (by simpa using hi)
    have hmem := outblock_mem argsort hA css inds P hok hm hP i hi'
    have := lookup_map_mem (fun a => vmerge ((((pairsEnd (runStarts (skeys argsort css inds P)) P).map
          (fun ab => (mkGroup argsort css inds P ab,
            (Jof argsort css inds P ab).map (fun j => x (pointAt inds j))))).filter
          (fun p => p.1.outblock = a)).map (fun p => (p.1.locs, p.2)))) i _ hmem
    rw [List.map_map] at this
    rw [List.map_map]
    simp only [Function.comp_def] at this ⊢
    rw [this, merge_block argsort hA css inds P hok hm hP x i]
  rw [hlk]

end layer
end Dask.Lemmas.Vindex
