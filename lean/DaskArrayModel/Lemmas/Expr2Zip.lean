/-
Phase 3, `Expr2.zipB` (binary elementwise with NumPy broadcasting): the block the task computes from
the operand blocks named by `bcBid` (`coord % numblocks` on the trailing coordinates), combined with
NumPy broadcasting of the two block shapes, is the block of the NumPy meaning.  The per-axis facts come
from the gather construction of `broadcast_to` (`broadcastSpecs`), to which the task is related by
`broadcastSpecs_ids`.
-/
import DaskArrayModel.Lemmas.Expr2Congr
namespace Dask.ND
open Dask.Py Dask.Py.PySlice Dask.Slicing
/-! ### `broadcastSpecs`: block ids and local positions -/

theorem gBid_newSpecs_append : ∀ (ol : Layout) (rest : List AxSpec) (bid i : List Nat),
    ol.length ≤ bid.length → ol.length ≤ i.length →
    gBid (ol.map (fun oc => AxSpec.new (fun j => oc.getD j 0)) ++ rest) bid i
      = gBid rest (bid.drop ol.length) (i.drop ol.length)
  | [], _, _, _, _, _ => rfl
  | oc :: ol, rest, b :: bid, x :: i, h1, h2 => by
    simp only [List.map_cons, List.cons_append, gBid, List.length_cons, List.drop_succ_cons]
    exact gBid_newSpecs_append ol rest bid i (by simpa using h1) (by simpa using h2)
  | _ :: _, _, [], _, h1, _ => by simp at h1
  | _ :: _, _, _ :: _, [], _, h2 => by simp at h2

theorem gPos_newSpecs_append : ∀ (ol : Layout) (rest : List AxSpec) (bid i : List Nat),
    ol.length ≤ bid.length → ol.length ≤ i.length →
    gPos (ol.map (fun oc => AxSpec.new (fun j => oc.getD j 0)) ++ rest) bid i
      = gPos rest (bid.drop ol.length) (i.drop ol.length)
  | [], _, _, _, _, _ => rfl
  | oc :: ol, rest, b :: bid, x :: i, h1, h2 => by
    simp only [List.map_cons, List.cons_append, gPos, List.length_cons, List.drop_succ_cons]
    exact gPos_newSpecs_append ol rest bid i (by simpa using h1) (by simpa using h2)
  | _ :: _, _, [], _, h1, _ => by simp at h1
  | _ :: _, _, _ :: _, [], _, h2 => by simp at h2

/-- the zip part of `broadcastSpecs` reads block `j % numblocks` on every axis, at NumPy's
broadcast position inside that block -/
theorem bcZip_ids : ∀ (cl ol : Layout) (bid i : List Nat), bcOK cl ol = true → validBid ol bid →
    InB i (blockShape ol bid) →
    gBid (List.zipWith (fun cc oc =>
        if cc = [1] then AxSpec.keep (bcastAxis oc) else AxSpec.keep (idAxis cc)) cl ol) bid i
      = List.zipWith (fun nb j => j % nb) (numblocks cl) bid ∧
    gPos (List.zipWith (fun cc oc =>
        if cc = [1] then AxSpec.keep (bcastAxis oc) else AxSpec.keep (idAxis cc)) cl ol) bid i
      = bcIdx (blockShape cl (List.zipWith (fun nb j => j % nb) (numblocks cl) bid)) i
  | [], [], [], [], _, _, _ => ⟨rfl, rfl⟩
  | cc :: cl, oc :: ol, b :: bid, x :: i, h, hb, hi => by
    rw [bcOK_cons] at h
    rw [validBid_cons] at hb
    simp only [blockShape, List.zipWith_cons_cons, InB] at hi
    obtain ⟨ih1, ih2⟩ := bcZip_ids cl ol bid i h.2 hb.2 hi.2
    simp only [List.zipWith_cons_cons, numblocks, List.map_cons, blockShape, bcIdx] at ih1 ih2 ⊢
    by_cases h1 : cc = [1]
    · subst h1
      rw [if_pos rfl]
      simp only [gBid, gPos]
      rw [ih1, ih2]
      refine ⟨?_, ?_⟩
      · show 0 :: _ = (b % 1) :: _
        rw [Nat.mod_one]
      · show 0 :: _ = _
        simp [Nat.mod_one]
    · rw [if_neg h1]
      have h2 : cc = oc := by rcases h.1 with h' | h'; exact absurd h' h1; exact h'
      subst h2
      simp only [gBid, gPos]
      rw [ih1, ih2, Nat.mod_eq_of_lt hb.1]
      refine ⟨rfl, ?_⟩
      show x :: _ = _
      congr 1
      split
      · rename_i hs; omega
      · rfl
  | [], _ :: _, _, _, h, _, _ => by simp [bcOK] at h
  | _ :: _, [], _, _, h, _, _ => by simp [bcOK] at h
  | _ :: _, _ :: _, [], _, _, hb, _ => by simp [validBid, numblocks, InB] at hb
  | _ :: _, _ :: _, _ :: _, [], _, _, hi => by simp [blockShape, InB] at hi
  | [], [], _ :: _, _, _, hb, _ => by simp [validBid, numblocks, InB] at hb
  | [], [], [], _ :: _, _, _, hi => by simp [blockShape, InB] at hi

theorem validBid_drop : ∀ (k : Nat) (l : Layout) (bid : List Nat), validBid l bid →
    validBid (l.drop k) (bid.drop k)
  | 0, _, _, h => h
  | k + 1, [], [], _ => by simp [validBid, numblocks, InB]
  | k + 1, cs :: l, b :: bid, h => by
    rw [validBid_cons] at h
    simp only [List.drop_succ_cons]
    exact validBid_drop k l bid h.2
  | _ + 1, [], _ :: _, h => by simp [validBid, numblocks, InB] at h
  | _ + 1, _ :: _, [], h => by simp [validBid, numblocks, InB] at h

theorem blockShape_drop (k : Nat) (l : Layout) (bid : List Nat) :
    blockShape (l.drop k) (bid.drop k) = (blockShape l bid).drop k := by
  unfold blockShape; rw [List.drop_zipWith]

/-- `broadcastSpecs`: output block `bid` reads block `bcBid (numblocks cl) bid` of the operand, at
NumPy's broadcast position of the local index -/
theorem broadcastSpecs_ids (cl ol : Layout) (bid i : List Nat) (hle : cl.length ≤ ol.length)
    (h : bcOK cl (ol.drop (ol.length - cl.length)) = true) (hb : validBid ol bid)
    (hi : InB i (blockShape ol bid)) :
    gBid (broadcastSpecs cl ol) bid i = bcBid (numblocks cl) bid ∧
    gPos (broadcastSpecs cl ol) bid i
      = bcIdx (blockShape cl (bcBid (numblocks cl) bid)) (i.drop (ol.length - cl.length)) := by
  have hbl : bid.length = ol.length := hb.length_eq
  have hil : i.length = ol.length := by rw [hi.length_eq, blockShape_length hbl]
  have hk : (ol.take (ol.length - cl.length)).length = ol.length - cl.length := by
    rw [List.length_take]; omega
  unfold broadcastSpecs bcBid
  dsimp only
  rw [gBid_newSpecs_append _ _ bid i (by rw [hk]; omega) (by rw [hk]; omega),
    gPos_newSpecs_append _ _ bid i (by rw [hk]; omega) (by rw [hk]; omega), hk]
  have hnb : (numblocks cl).length = cl.length := by simp [numblocks]
  rw [hnb, hbl]
  have hi' : InB (i.drop (ol.length - cl.length))
      (blockShape (ol.drop (ol.length - cl.length)) (bid.drop (ol.length - cl.length))) := by
    rw [blockShape_drop]; exact InB_drop _ _ _ hi
  exact bcZip_ids cl _ _ _ h (validBid_drop _ _ _ hb) hi'

/-! ### layout of the broadcast result -/

theorem getD_replicate_append {α} (n : Nat) (v : α) (l : List α) (k : Nat) (d : α) :
    (List.replicate n v ++ l).getD k d = if k < n then v else l.getD (k - n) d := by
  by_cases h : k < n
  · rw [if_pos h]; simp [List.getD_eq_getElem?_getD, List.getElem?_append_left, h]
  · rw [if_neg h]
    simp [List.getD_eq_getElem?_getD, List.getElem?_append_right, Nat.le_of_not_lt h]

theorem padLay_length (r : Nat) (c : Layout) (h : c.length ≤ r) : (padLay r c).length = r := by
  simp [padLay]; omega

theorem padSh_length (r : Nat) (s : List Nat) (h : s.length ≤ r) : (padSh r s).length = r := by
  simp [padSh]; omega

theorem zipBLayout_length (ca cb : Layout) : (zipBLayout ca cb).length = max ca.length cb.length := by
  unfold zipBLayout
  simp only [List.length_zipWith]
  rw [padLay_length _ _ (Nat.le_max_left _ _), padLay_length _ _ (Nat.le_max_right _ _), Nat.min_self]

theorem zipBLayout_getD (ca cb : Layout) (k : Nat) (hk : k < max ca.length cb.length) :
    (zipBLayout ca cb).getD k []
      = if (padLay (max ca.length cb.length) ca).getD k [] = [1]
        then (padLay (max ca.length cb.length) cb).getD k []
        else (padLay (max ca.length cb.length) ca).getD k [] := by
  unfold zipBLayout
  dsimp only
  rw [getD_zipWith _ _ _ k [] [] [] (by rw [padLay_length _ _ (Nat.le_max_left _ _)]; exact hk)
    (by rw [padLay_length _ _ (Nat.le_max_right _ _)]; exact hk)]

theorem padLay_getD (r : Nat) (c : Layout) (k : Nat) :
    (padLay r c).getD k [] = if k < r - c.length then [1] else c.getD (k - (r - c.length)) [] := by
  unfold padLay; exact getD_replicate_append _ _ _ _ _

theorem padSh_getD (r : Nat) (s : List Nat) (k : Nat) :
    (padSh r s).getD k 0 = if k < r - s.length then 1 else s.getD (k - (r - s.length)) 0 := by
  unfold padSh; exact getD_replicate_append _ _ _ _ _

theorem bcOK_getD : ∀ (cl ol : Layout), bcOK cl ol = true → ∀ m, m < cl.length →
    cl.getD m [] = [1] ∨ cl.getD m [] = ol.getD m []
  | [], [], _, m, hm => by simp at hm
  | cc :: cl, oc :: ol, h, 0, _ => by rw [bcOK_cons] at h; simpa using h.1
  | cc :: cl, oc :: ol, h, m + 1, hm => by
    rw [bcOK_cons] at h
    simpa using bcOK_getD cl ol h.2 m (by simpa using hm)
  | [], _ :: _, h, _, _ => by simp [bcOK] at h
  | _ :: _, [], h, _, _ => by simp [bcOK] at h

theorem getD_drop' {α} (l : List α) (k m : Nat) (d : α) : (l.drop k).getD m d = l.getD (k + m) d := by
  simp [List.getD_eq_getElem?_getD]

/-- on every axis the padded operand chunks are `(1,)` or the result's chunks -/
theorem padLay_bcOK (cl l : Layout) (hle : cl.length ≤ l.length)
    (h : bcOK cl (l.drop (l.length - cl.length)) = true) (k : Nat) (hk : k < l.length) :
    (padLay l.length cl).getD k [] = [1] ∨ (padLay l.length cl).getD k [] = l.getD k [] := by
  rw [padLay_getD]
  split
  · exact Or.inl rfl
  · rename_i hlt
    have := bcOK_getD cl _ h (k - (l.length - cl.length)) (by omega)
    rw [getD_drop'] at this
    have e : l.length - cl.length + (k - (l.length - cl.length)) = k := by omega
    rw [e] at this
    exact this

theorem zipBLayout_nonempty (ca cb : Layout) (ha : NonEmptyAxes ca) (hb : NonEmptyAxes cb) :
    NonEmptyAxes (zipBLayout ca cb) := by
  intro c hc
  unfold zipBLayout at hc
  dsimp only at hc
  rw [List.mem_iff_getElem] at hc
  obtain ⟨k, hk, rfl⟩ := hc
  rw [List.getElem_zipWith]
  have mem_pad : ∀ (r : Nat) (cl : Layout), NonEmptyAxes cl → ∀ x ∈ padLay r cl, x ≠ [] := by
    intro r cl hcl x hx
    unfold padLay at hx
    rcases List.mem_append.mp hx with h | h
    · rw [List.mem_replicate] at h; rw [h.2]; simp
    · exact hcl x h
  split
  · exact mem_pad _ cb hb _ (List.getElem_mem _)
  · exact mem_pad _ ca ha _ (List.getElem_mem _)

/-! ### shape of the block the broadcasting task produces -/

theorem bcBid_length (cl : Layout) (bid : List Nat) (h : cl.length ≤ bid.length) :
    (bcBid (numblocks cl) bid).length = cl.length := by
  simp [bcBid, numblocks]; omega

theorem bcBid_getD (cl : Layout) (bid : List Nat) (h : cl.length ≤ bid.length) (m : Nat) (hm : m < cl.length) :
    (bcBid (numblocks cl) bid).getD m 0
      = bid.getD (bid.length - cl.length + m) 0 % (cl.getD m []).length := by
  unfold bcBid
  have hnb : (numblocks cl).length = cl.length := by simp [numblocks]
  rw [getD_zipWith _ _ _ m 0 0 0 (by rw [hnb]; exact hm) (by rw [List.length_drop, hnb]; omega), hnb,
    getD_drop', numblocks, getD_map List.length cl m [] 0 hm]

theorem one_getD_mod (j : Nat) : ([1] : List Nat).getD (j % ([1] : List Nat).length) 0 = 1 := by
  show ([1] : List Nat).getD (j % 1) 0 = 1
  rw [Nat.mod_one]; rfl

/-- the padded block shape of an operand, axis by axis -/
theorem padSh_blockShape (cl : Layout) (bid : List Nat) (h : cl.length ≤ bid.length) (k : Nat)
    (hk : k < bid.length) :
    (padSh bid.length (blockShape cl (bcBid (numblocks cl) bid))).getD k 0
      = ((padLay bid.length cl).getD k []).getD
          (bid.getD k 0 % ((padLay bid.length cl).getD k []).length) 0 := by
  have hl := bcBid_length cl bid h
  rw [padSh_getD, padLay_getD, blockShape_length hl]
  split
  · rw [one_getD_mod]
  · rename_i hlt
    have hm : k - (bid.length - cl.length) < cl.length := by omega
    rw [blockShape_getD hl _ hm, bcBid_getD cl bid h _ hm]
    have e : bid.length - cl.length + (k - (bid.length - cl.length)) = k := by omega
    rw [e]

theorem axis_rule (c d lk : List Nat) (j : Nat) (hc : c = [1] ∨ c = lk) (hd : d = [1] ∨ d = lk)
    (hl : lk = if c = [1] then d else c) (hj : j < lk.length) :
    (if c.getD (j % c.length) 0 = 1 then d.getD (j % d.length) 0 else c.getD (j % c.length) 0)
      = lk.getD j 0 := by
  by_cases h1 : c = [1]
  · subst h1
    rw [if_pos rfl] at hl
    subst hl
    rw [one_getD_mod, if_pos rfl, Nat.mod_eq_of_lt hj]
  · rw [if_neg h1] at hl
    subst hl
    rw [Nat.mod_eq_of_lt hj]
    split
    · rename_i hp
      rcases hd with hd | hd
      · subst hd; rw [one_getD_mod, hp]
      · subst hd; rw [Nat.mod_eq_of_lt hj]
    · rfl

theorem zipB_block_shape (ca cb : Layout) (bid : List Nat)
    (hA : bcOK ca ((zipBLayout ca cb).drop ((zipBLayout ca cb).length - ca.length)) = true)
    (hB : bcOK cb ((zipBLayout ca cb).drop ((zipBLayout ca cb).length - cb.length)) = true)
    (hb : validBid (zipBLayout ca cb) bid) :
    npBcShape bid.length (blockShape ca (bcBid (numblocks ca) bid))
        (blockShape cb (bcBid (numblocks cb) bid))
      = blockShape (zipBLayout ca cb) bid := by
  have hbl : bid.length = (zipBLayout ca cb).length := hb.length_eq
  have hL := zipBLayout_length ca cb
  have hla : ca.length ≤ bid.length := by rw [hbl, hL]; exact Nat.le_max_left _ _
  have hlb : cb.length ≤ bid.length := by rw [hbl, hL]; exact Nat.le_max_right _ _
  have hxa : (blockShape ca (bcBid (numblocks ca) bid)).length ≤ bid.length := by
    rw [blockShape_length (bcBid_length ca bid hla)]; exact hla
  have hxb : (blockShape cb (bcBid (numblocks cb) bid)).length ≤ bid.length := by
    rw [blockShape_length (bcBid_length cb bid hlb)]; exact hlb
  apply list_ext_getD
  · unfold npBcShape
    rw [List.length_zipWith, padSh_length _ _ hxa, padSh_length _ _ hxb, blockShape_length hbl, Nat.min_self, hbl]
  · intro k hk
    unfold npBcShape at hk ⊢
    rw [List.length_zipWith, padSh_length _ _ hxa, padSh_length _ _ hxb, Nat.min_self] at hk
    rw [getD_zipWith _ _ _ k 0 0 0 (by rw [padSh_length _ _ hxa]; exact hk) (by rw [padSh_length _ _ hxb]; exact hk),
      padSh_blockShape ca bid hla k hk, padSh_blockShape cb bid hlb k hk,
      blockShape_getD hbl k (by omega)]
    have hkL : k < (zipBLayout ca cb).length := by omega
    rw [hbl] at *
    apply axis_rule _ _ _ _ (padLay_bcOK ca _ (by rw [hL]; exact Nat.le_max_left _ _) hA k hkL)
      (padLay_bcOK cb _ (by rw [hL]; exact Nat.le_max_right _ _) hB k hkL)
    · rw [hL]; exact zipBLayout_getD ca cb k (by rw [← hL]; exact hkL)
    · exact hb.getD_lt k hkL

/-- the statement proved for every node of `Expr2` -/
def BlockOK2 (env : Env) (e : Expr2) : Prop :=
  ∀ bid, validBid (chunks2 e) bid →
    Arr.Equiv (blockDen2 env e bid) (restrict (den2 env e) (extent (chunks2 e) bid))

theorem den2_shape (env : Env) : ∀ e : Expr2, (den2 env e).shape = shape2 e
  | .base _ => rfl
  | .node _ _ _ => rfl
  | .zipB _ _ _ => rfl
  | .take _ _ _ => rfl
  | .swvReduce _ _ _ _ => rfl

theorem validBid_bcBid (cl : Layout) (bid : List Nat) (hne : NonEmptyAxes cl) (h : cl.length ≤ bid.length) :
    validBid cl (bcBid (numblocks cl) bid) := by
  apply validBid.of_getD (bcBid_length cl bid h)
  intro m hm
  rw [bcBid_getD cl bid h m hm]
  apply Nat.mod_lt
  have := hne.getD m hm
  exact List.length_pos_iff.mpr this

theorem zipB_block (env : Env) (f : Nat) (a b : Expr2)
    (hA : bcOK (chunks2 a) ((zipBLayout (chunks2 a) (chunks2 b)).drop
      ((zipBLayout (chunks2 a) (chunks2 b)).length - (chunks2 a).length)) = true)
    (hB : bcOK (chunks2 b) ((zipBLayout (chunks2 a) (chunks2 b)).drop
      ((zipBLayout (chunks2 a) (chunks2 b)).length - (chunks2 b).length)) = true)
    (ma : (chunks2 a).map List.sum = shape2 a) (na : NonEmptyAxes (chunks2 a))
    (mb : (chunks2 b).map List.sum = shape2 b) (nb : NonEmptyAxes (chunks2 b))
    (iha : BlockOK2 env a) (ihb : BlockOK2 env b) : BlockOK2 env (.zipB f a b) := by
  intro bid hb
  have hb' : validBid (zipBLayout (chunks2 a) (chunks2 b)) bid := hb
  generalize hL : zipBLayout (chunks2 a) (chunks2 b) = L at hA hB hb'
  have hLl : L.length = max (chunks2 a).length (chunks2 b).length := by rw [← hL]; exact zipBLayout_length _ _
  have hbl : bid.length = L.length := hb'.length_eq
  have hla : (chunks2 a).length ≤ L.length := by rw [hLl]; exact Nat.le_max_left _ _
  have hlb : (chunks2 b).length ≤ L.length := by rw [hLl]; exact Nat.le_max_right _ _
  have hva := validBid_bcBid (chunks2 a) bid na (by omega)
  have hvb := validBid_bcBid (chunks2 b) bid nb (by omega)
  have hxa : (blockDen2 env a (bcBid (numblocks (chunks2 a)) bid)).shape
      = blockShape (chunks2 a) (bcBid (numblocks (chunks2 a)) bid) := (iha _ hva).1
  have hxb : (blockDen2 env b (bcBid (numblocks (chunks2 b)) bid)).shape
      = blockShape (chunks2 b) (bcBid (numblocks (chunks2 b)) bid) := (ihb _ hvb).1
  have hshape : (blockDen2 env (.zipB f a b) bid).shape = blockShape L bid := by
    simp only [blockDen2]
    rw [hxa, hxb, ← hL]
    exact zipB_block_shape _ _ bid (by rw [hL]; exact hA) (by rw [hL]; exact hB) (by rw [hL]; exact hb')
  have hSA := broadcastSpecs_ok (chunks2 a) L hA
  have hSB := broadcastSpecs_ok (chunks2 b) L hB
  have GA := gatherBlock_correct hSA (den2 env a) (fun k => blockDen2 env a k) iha (L.map List.sum) bid hb'
  have GB := gatherBlock_correct hSB (den2 env b) (fun k => blockDen2 env b k) ihb (L.map List.sum) bid hb'
  refine ⟨?_, ?_⟩
  · rw [hshape]; simp only [restrict, extent, chunks2, hL]
  · intro i hi
    rw [hshape] at hi
    obtain ⟨a1, a2⟩ := broadcastSpecs_ids (chunks2 a) L bid i hla hA hb' hi
    obtain ⟨b1, b2⟩ := broadcastSpecs_ids (chunks2 b) L bid i hlb hB hb' hi
    have hga : (gatherBlock (broadcastSpecs (chunks2 a) L) (fun k => blockDen2 env a k) bid).get i
        = (blockDen2 env a (bcBid (numblocks (chunks2 a)) bid)).get
            (bcIdx (blockDen2 env a (bcBid (numblocks (chunks2 a)) bid)).shape
              (i.drop (bid.length - (blockDen2 env a (bcBid (numblocks (chunks2 a)) bid)).shape.length))) := by
      simp only [gatherBlock]
      rw [a1, a2, hxa, blockShape_length (bcBid_length _ _ (by omega)), hbl]
    have hgb : (gatherBlock (broadcastSpecs (chunks2 b) L) (fun k => blockDen2 env b k) bid).get i
        = (blockDen2 env b (bcBid (numblocks (chunks2 b)) bid)).get
            (bcIdx (blockDen2 env b (bcBid (numblocks (chunks2 b)) bid)).shape
              (i.drop (bid.length - (blockDen2 env b (bcBid (numblocks (chunks2 b)) bid)).shape.length))) := by
      simp only [gatherBlock]
      rw [b1, b2, hxb, blockShape_length (bcBid_length _ _ (by omega)), hbl]
    have hiA : InB i (gatherBlock (broadcastSpecs (chunks2 a) L) (fun k => blockDen2 env a k) bid).shape := by
      rw [GA.1]; exact hi
    have hiB : InB i (gatherBlock (broadcastSpecs (chunks2 b) L) (fun k => blockDen2 env b k) bid).shape := by
      rw [GB.1]; exact hi
    have hg : InB (vadd (origin L bid) i) (L.map List.sum) := InB_vadd_origin hb' hi
    simp only [blockDen2]
    rw [← hga, ← hgb, GA.2 i hiA, GB.2 i hiB]
    simp only [restrict, extent, den2, chunks2, hL]
    rw [gGlob_broadcastSpecs (chunks2 a) L _ hla hA hg, gGlob_broadcastSpecs (chunks2 b) L _ hlb hB hg, ma, mb,
      List.length_map, ← length_of_map_sum ma, ← length_of_map_sum mb]

end Dask.ND
