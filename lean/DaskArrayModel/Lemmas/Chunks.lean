/-
Lemmas and proofs for chunk normalisation (model: Model/Chunks.lean).  Core Lean only.
-/
import DaskArrayModel.Model.ChunksSpec
namespace Dask.Lemmas.Chunks
open Dask.Py Dask.Chunks

theorem isum_append (a b : List Int) : isum (a ++ b) = isum a + isum b := by
  induction a with
  | nil => simp [isum]
  | cons x xs ih => simp [isum, ih]; omega

theorem isum_replicate (k : Nat) (c : Int) : isum (List.replicate k c) = (k : Int) * c := by
  induction k with
  | zero => simp [isum]
  | succ k ih =>
    simp only [List.replicate_succ, isum, ih]
    rw [Int.natCast_succ, Int.add_mul]; omega

theorem pyDiv_pos (a b : Int) (hb : 0 < b) : pyDiv a b = a / b := by
  unfold pyDiv; simp [hb]

theorem pyMod_pos (a b : Int) (hb : 0 < b) : pyMod a b = a % b := by
  unfold pyMod; simp [hb]

/-- the explicit shape of a uniform chunking -/
theorem blockdim_pos (n c : Int) (hn : 0 < n) (hc : 1 ≤ c) :
    blockdim n c = .ok (List.replicate (n / c).toNat c ++ (if n % c ≠ 0 then [n % c] else [])) := by
  unfold blockdim
  have h1 : n ≠ 0 := by omega
  have h2 : c ≠ 0 := by omega
  simp only [h1, h2, if_false, pyDiv_pos n c (by omega), pyMod_pos n c (by omega)]

theorem uniform_wellformed (n c : Int) (hn : 0 ≤ n) (hc : 1 ≤ c) :
    ∃ l, blockdim n c = .ok l ∧ l ≠ [] ∧ isum l = n ∧ (n = 0 → l = [0]) ∧
      (0 < n → ∃ (k : Nat) (r : Int), l = List.replicate k c ++ [r] ∧ 0 < r ∧ r ≤ c) := by
  by_cases h0 : n = 0
  · subst h0
    exact ⟨[0], by simp [blockdim], by simp, by simp [isum], fun _ => rfl, fun h => absurd h (by omega)⟩
  · have hpos : 0 < n := by omega
    have hq : 0 ≤ n / c := Int.ediv_nonneg hn (by omega)
    have hm0 : 0 ≤ n % c := Int.emod_nonneg n (by omega)
    have hm1 : n % c < c := Int.emod_lt_of_pos n (by omega)
    have hdm : c * (n / c) + n % c = n := Int.mul_ediv_add_emod n c
    have hqn : ((n / c).toNat : Int) = n / c := Int.toNat_of_nonneg hq
    refine ⟨_, blockdim_pos n c hpos hc, ?_, ?_, fun h => absurd h h0, fun _ => ?_⟩
    · by_cases hm : n % c = 0
      · simp only [hm, ne_eq, not_true_eq_false, if_false, List.append_nil]
        have : 1 ≤ n / c := by
          by_cases h : n / c < 1
          · have : n / c = 0 := by omega
            rw [this] at hdm; omega
          · omega
        have h2 : (n / c).toNat ≠ 0 := by omega
        intro he
        have := congrArg List.length he
        simp at this; omega
      · simp [hm]
    · rw [isum_append, isum_replicate, hqn]
      by_cases hm : n % c = 0
      · simp only [hm, ne_eq, not_true_eq_false, if_false, isum]
        rw [hm] at hdm; rw [Int.mul_comm]; omega
      · simp only [hm, ne_eq, not_false_eq_true, if_true, isum]
        rw [Int.mul_comm]; omega
    · by_cases hm : n % c = 0
      · have h1 : 1 ≤ n / c := by
          by_cases h : n / c < 1
          · have : n / c = 0 := by omega
            rw [this] at hdm; omega
          · omega
        refine ⟨(n / c).toNat - 1, c, ?_, by omega, by omega⟩
        simp only [hm, ne_eq, not_true_eq_false, if_false, List.append_nil]
        have : (n / c).toNat = ((n / c).toNat - 1) + 1 := by omega
        conv => lhs; rw [this]
        rw [List.replicate_succ']
      · refine ⟨(n / c).toNat, n % c, ?_, by omega, by omega⟩
        simp [hm]

/-! ### round_to -/
theorem roundTo_spec (c s : Int) (hs : 1 ≤ s) :
    ∃ r, roundTo c s = .ok r ∧ 1 ≤ r ∧ r ≤ max 1 c ∧
      (c ≤ s → r = max 1 c) ∧ (s < c → s ∣ r ∧ r ≤ c ∧ c < r + s) := by
  unfold roundTo
  by_cases h : c ≤ s
  · refine ⟨max 1 c, by simp [h], by omega, by omega, fun _ => rfl, fun h' => absurd h' (by omega)⟩
  · have hs0 : s ≠ 0 := by omega
    have h1 : c / s * s ≤ c := Int.ediv_mul_le c hs0
    have h2 : c < (c / s + 1) * s := Int.lt_ediv_add_one_mul_self c (by omega)
    have h3 : 1 ≤ c / s := by
      by_cases hq : c / s < 1
      · have : (c / s + 1) * s ≤ 1 * s := Int.mul_le_mul_of_nonneg_right (by omega) (by omega)
        omega
      · omega
    have h4 : 1 * s ≤ c / s * s := Int.mul_le_mul_of_nonneg_right h3 (by omega)
    rw [Int.add_mul] at h2
    refine ⟨c / s * s, by simp [h, hs0, pyDiv_pos c s (by omega)], by omega, by omega,
      fun h' => absurd h' h, fun _ => ⟨Int.dvd_mul_left _ _, h1, by omega⟩⟩

theorem leF_true_iff (cf : Nat) (exact : Bool) (s : Int) :
    leF cf exact s = true ↔ ((cf : Int) < s ∨ ((cf : Int) = s ∧ exact = true)) := by
  unfold leF; simp

/-- `round_to` on a float known by floor/exactness: positive, never above `max 1 (floor c)`. -/
theorem roundToF_spec (cf : Nat) (exact : Bool) (s : Int) (hs : 1 ≤ s) :
    ∃ r, roundToF cf exact s = .ok r ∧ 1 ≤ r ∧ r ≤ max 1 (cf : Int) ∧
      (leF cf exact s = true → r = max 1 (cf : Int)) := by
  unfold roundToF
  by_cases h : leF cf exact s = true
  · exact ⟨max 1 (cf : Int), by simp [h], by omega, by omega, fun _ => rfl⟩
  · have hs0 : s ≠ 0 := by omega
    have hge : s ≤ (cf : Int) := by
      have hh : ¬ ((cf : Int) < s ∨ ((cf : Int) = s ∧ exact = true)) := fun hx => h ((leF_true_iff cf exact s).mpr hx)
      omega
    have h1 : (cf : Int) / s * s ≤ cf := Int.ediv_mul_le _ hs0
    have h2 : (cf : Int) < ((cf : Int) / s + 1) * s := Int.lt_ediv_add_one_mul_self _ (by omega)
    have h3 : 1 ≤ (cf : Int) / s := by
      by_cases hq : (cf : Int) / s < 1
      · have : ((cf : Int) / s + 1) * s ≤ 1 * s := Int.mul_le_mul_of_nonneg_right (by omega) (by omega)
        omega
      · omega
    have h4 : 1 * s ≤ (cf : Int) / s * s := Int.mul_le_mul_of_nonneg_right h3 (by omega)
    exact ⟨(cf : Int) / s * s, by simp [h, hs0, pyDiv_pos _ s (by omega)], by omega, by omega,
      fun h' => absurd h' h⟩

/-! ### entries of a uniform chunking, and `blockdim` for arbitrary `bd` -/

theorem uniform_entries (n c : Int) (hn : 0 < n) (hc : 1 ≤ c) (l : List Int)
    (h : blockdim n c = .ok l) : ∀ x ∈ l, 0 < x ∧ x ≤ c := by
  obtain ⟨l', h', _, _, _, hk⟩ := uniform_wellformed n c (by omega) hc
  rw [h] at h'; cases h'
  obtain ⟨k, r, rfl, hr0, hrc⟩ := hk hn
  intro x hx
  rcases List.mem_append.mp hx with hx | hx
  · have := (List.mem_replicate.mp hx).2; omega
  · simp at hx; omega

/-- whatever the block size (0, negative, …): if `blockdims_from_blockshape` returns a non-empty tuple of
non-negative sizes for an axis of length `s ≥ 0`, it is a correct layout. -/
theorem blockdim_ok_nonneg (s c : Int) (hs : 0 ≤ s) (l : List Int) (h : blockdim s c = .ok l)
    (hne : l ≠ []) (hnn : ∀ x ∈ l, 0 ≤ x) :
    isum l = s ∧ (0 ∈ l → s = 0) ∧ (s = 0 ∨ 1 ≤ c) := by
  by_cases h0 : s = 0
  · subst h0; simp [blockdim] at h; subst h; simp [isum]
  · have hpos : 0 < s := by omega
    by_cases hc : 1 ≤ c
    · obtain ⟨l', h', _, hsum, _, _⟩ := uniform_wellformed s c hs hc
      have hent := uniform_entries s c hpos hc l h
      rw [h] at h'; cases h'
      refine ⟨hsum, fun h0' => ?_, Or.inr hc⟩
      have := (hent 0 h0').1; omega
    · exfalso
      by_cases hc0 : c = 0
      · subst hc0; simp [blockdim, h0] at h
      · have hneg : c < 0 := by omega
        have hd : pyDiv s c = (-s) / (-c) := by
          unfold pyDiv; simp [hneg, show ¬ (0 < c) by omega]
        have hm : pyMod s c = -((-s) % (-c)) := by
          unfold pyMod; simp [hneg, show ¬ (0 < c) by omega]
        have hdn : (-s) / (-c) < 0 := Int.ediv_neg_of_neg_of_pos (by omega) (by omega)
        have hmn : 0 ≤ (-s) % (-c) := Int.emod_nonneg _ (by omega)
        unfold blockdim at h
        simp only [h0, hc0, if_false] at h
        rw [hd, hm] at h
        have ht : ((-s) / (-c)).toNat = 0 := by omega
        rw [ht] at h
        simp only [List.replicate_zero, List.nil_append] at h
        by_cases hz : -((-s) % (-c)) ≠ 0
        · simp only [hz, ne_eq, not_false_eq_true, if_true] at h
          cases h
          have := hnn _ (List.mem_singleton.mpr rfl)
          omega
        · simp only [hz, if_false] at h
          cases h; exact hne rfl

/-! ### one axis of `normalize_chunks` -/

theorem fillFull_cases (c : Spec) (s : Int) :
    (fillFull c s = .int s ∧ (c = .none ∨ c = .int (-1))) ∨ (fillFull c s = c ∧ c ≠ .none ∧ c ≠ .int (-1)) := by
  unfold fillFull
  split <;> simp_all

theorem blockdim_self (s : Int) (hs : 0 ≤ s) : blockdim s s = .ok [s] := by
  by_cases h0 : s = 0
  · subst h0; simp [blockdim]
  · have hp : 0 < s := by omega
    rw [blockdim_pos s s hp (by omega)]
    have h1 : s / s = 1 := Int.ediv_self h0
    have h2 : s % s = 0 := Int.emod_self
    simp [h1, h2]

/-- For every spec that `normalize_chunks` accepts on an axis of length `s ≥ 0` (whatever the spec kind):
one non-empty tuple of non-negative sizes summing to `s`; an explicit tuple is echoed unchanged (so it may
contain the user's own zeros); for every other kind a zero-size block occurs only on a zero-length axis.
`hai`: the `allints` fast path is only taken when the axis spec is a plain int. -/
theorem normalizeAxis_wellformed (ai : Bool) (c : Spec) (s : Int) (hs : 0 ≤ s) (l : List Int)
    (hai : ai = true → isIntSpec (fillFull c s) = true)
    (h : normAxis ai c s = .ok l) :
    l ≠ [] ∧ (∀ x ∈ l, 0 ≤ x) ∧ isum l = s ∧
      (∀ t, c = .tuple t → l = t) ∧ ((∀ t, c ≠ .tuple t) → 0 ∈ l → s = 0) := by
  unfold normAxis at h
  split at h
  · cases h
  · rename_i out hout
    by_cases hne : out = []
    · simp [hne] at h
    · simp only [hne, if_false] at h
      by_cases hneg : out.any (· < 0) = true
      · simp [hneg] at h
      · simp only [hneg] at h
        have hnn : ∀ x ∈ out, 0 ≤ x := by
          intro x hx
          have : ¬ (x < 0) := by
            intro hlt
            apply hneg
            exact List.any_eq_true.mpr ⟨x, hx, by simpa using hlt⟩
          omega
        -- what was converted
        cases hf : fillFull c s with
        | tuple t =>
          rw [hf] at hout
          simp only [convertAxis] at hout
          cases hout
          have hct : c = .tuple out := by
            rcases fillFull_cases c s with ⟨h1, _⟩ | ⟨h1, _, _⟩
            · rw [hf] at h1; cases h1
            · rw [hf] at h1; exact h1.symm
          have hai' : ai = false := by
            cases ai with
            | false => rfl
            | true => have := hai rfl; rw [hf] at this; simp [isIntSpec] at this
          subst hai'
          by_cases hsum : isum out = s
          · have hd : decide (isum out ≠ s) = false := by simp [hsum]
            rw [hd] at h; simp at h
            subst h
            exact ⟨hne, hnn, hsum, fun t' ht' => by rw [hct] at ht'; cases ht'; rfl,
              fun hnt => absurd hct (hnt out)⟩
          · have hd : decide (isum out ≠ s) = true := by simp [hsum]
            rw [hd] at h; simp at h
        | int k =>
          rw [hf] at hout
          simp only [convertAxis] at hout
          have hb := blockdim_ok_nonneg s k hs out hout hne hnn
          have hl : out = l := by
            have hd : decide (isum out ≠ s) = false := by simp [hb.1]
            rw [hd] at h; simp at h; exact h
          subst hl
          refine ⟨hne, hnn, hb.1, fun t ht => ?_, fun _ => hb.2.1⟩
          rcases fillFull_cases c s with ⟨_, h2 | h2⟩ | ⟨h1, _, _⟩
          · rw [h2] at ht; cases ht
          · rw [h2] at ht; cases ht
          · rw [hf] at h1; rw [← h1] at ht; cases ht
        | none => rw [hf] at hout; simp [convertAxis] at hout
        | auto => rw [hf] at hout; simp [convertAxis] at hout
        | bytes b => rw [hf] at hout; simp [convertAxis] at hout

/-! ### `auto_chunks` without `previous_chunks`: the byte limit under the oracle relation -/

def countSmall (isize : Nat) (exact : Bool) : List Spec → List Int → Nat
  | c :: cs, s :: ss => (if isSmall isize exact c s then 1 else 0) + countSmall isize exact cs ss
  | _, _ => 0

theorem numAutos_cons (c : Spec) (cs : List Spec) :
    numAutos (c :: cs) = (if isAuto c then 1 else 0) + numAutos cs := by
  unfold numAutos
  by_cases h : isAuto c = true <;> simp [h] <;> omega

theorem largestBlock_cons_auto (c : Spec) (cs : List Spec) (h : isAuto c = true) :
    largestBlock (c :: cs) = largestBlock cs := by
  simp [largestBlock, h]

theorem largestBlock_cons_fixed (c : Spec) (cs : List Spec) (h : isAuto c = false) :
    largestBlock (c :: cs) = specMax c * largestBlock cs := by
  simp [largestBlock, h]

theorem largestBlock_nonneg (chunks : List Spec) (h : FixedNonneg chunks) : 0 ≤ largestBlock chunks := by
  induction chunks with
  | nil => simp [largestBlock]
  | cons c cs ih =>
    have ih' := ih (fun x hx => h x (List.mem_cons_of_mem _ hx))
    unfold largestBlock
    by_cases ha : isAuto c = true
    · simp [ha, ih']
    · simp only [ha]
      exact Int.mul_nonneg (h c (List.mem_cons_self) (by simpa using ha)) ih'

theorem ipow_le (i m k : Nat) (hi : 1 ≤ i) (h : m ≤ k) : (i : Int) ^ m ≤ (i : Int) ^ k := by
  rw [← Int.natCast_pow, ← Int.natCast_pow]
  exact Int.ofNat_le.mpr (Nat.pow_le_pow_right hi h)

theorem isSmall_le (i : Nat) (e : Bool) (c : Spec) (s : Int) (h : isSmall i e c s = true) :
    isAuto c = true ∧ s ≤ (i : Int) := by
  unfold isSmall ltSize at h
  simp only [Bool.and_eq_true, Bool.not_eq_true'] at h
  refine ⟨h.1, ?_⟩
  have hh : ¬ ((i : Int) < s ∨ ((i : Int) = s ∧ e = true)) := by
    intro hx
    have := (leF_true_iff i e s).mpr hx
    rw [h.2] at this; cases this
  omega

theorem fillSmall_props (i : Nat) (e : Bool) (chunks : List Spec) (shape : List Int)
    (hlen : chunks.length = shape.length) (hsh : ∀ s ∈ shape, 0 ≤ s) (hf : FixedNonneg chunks) :
    FixedNonneg (fillSmall i e chunks shape) ∧
    (fillSmall i e chunks shape).length = shape.length ∧
    countSmall i e chunks shape ≤ numAutos chunks ∧
    (anySmall i e chunks shape = true → 1 ≤ countSmall i e chunks shape) ∧
    largestBlock (fillSmall i e chunks shape) ≤ largestBlock chunks * (i : Int) ^ (countSmall i e chunks shape) := by
  induction chunks generalizing shape with
  | nil =>
    cases shape with
    | nil => simp [fillSmall, countSmall, anySmall, numAutos, FixedNonneg]
    | cons s ss => simp at hlen
  | cons c cs ih =>
    cases shape with
    | nil => simp at hlen
    | cons s ss =>
      have hlen' : cs.length = ss.length := by simpa using hlen
      have hs0 : 0 ≤ s := hsh s (List.mem_cons_self)
      have hf' : FixedNonneg cs := fun x hx => hf x (List.mem_cons_of_mem _ hx)
      obtain ⟨ih1, ih2, ih3, ih4, ih5⟩ := ih ss hlen' (fun x hx => hsh x (List.mem_cons_of_mem _ hx)) hf'
      have hlb' : 0 ≤ largestBlock (fillSmall i e cs ss) := largestBlock_nonneg _ ih1
      have hlb : 0 ≤ largestBlock cs := largestBlock_nonneg _ hf'
      have hi0 : (0 : Int) ≤ (i : Int) := by omega
      simp only [fillSmall, countSmall, anySmall, numAutos_cons]
      by_cases hsm : isSmall i e c s = true
      · obtain ⟨ha, hle⟩ := isSmall_le i e c s hsm
        simp only [hsm, if_true, ha]
        refine ⟨?_, by simp [ih2], by omega, fun _ => by omega, ?_⟩
        · intro x hx hxa
          rcases List.mem_cons.mp hx with rfl | hx
          · simpa [specMax, imax] using hs0
          · exact ih1 x hx hxa
        · have e1 : largestBlock (Spec.tuple [s] :: fillSmall i e cs ss) = s * largestBlock (fillSmall i e cs ss) := by
            rw [largestBlock_cons_fixed _ _ (by simp [isAuto])]; simp [specMax, imax]
          have e2 : largestBlock (c :: cs) = largestBlock cs := largestBlock_cons_auto _ _ ha
          rw [e1, e2, Nat.add_comm, Int.pow_succ]
          calc s * largestBlock (fillSmall i e cs ss)
              ≤ (i : Int) * largestBlock (fillSmall i e cs ss) := Int.mul_le_mul_of_nonneg_right hle hlb'
            _ ≤ (i : Int) * (largestBlock cs * (i : Int) ^ countSmall i e cs ss) := Int.mul_le_mul_of_nonneg_left ih5 hi0
            _ = largestBlock cs * ((i : Int) ^ countSmall i e cs ss * (i : Int)) := by
                rw [Int.mul_comm, Int.mul_assoc]
      · have hsm' : isSmall i e c s = false := by simpa using hsm
        simp only [hsm', Bool.false_eq_true, if_false, Bool.false_or, Nat.zero_add]
        refine ⟨?_, by simp [ih2], by omega, ih4, ?_⟩
        · intro x hx hxa
          rcases List.mem_cons.mp hx with rfl | hx
          · exact hf x (List.mem_cons_self) hxa
          · exact ih1 x hx hxa
        · cases ha : isAuto c with
          | true =>
            rw [largestBlock_cons_auto _ _ ha, largestBlock_cons_auto _ _ ha]; exact ih5
          | false =>
            rw [largestBlock_cons_fixed _ _ ha, largestBlock_cons_fixed _ _ ha]
            have hc0 : 0 ≤ specMax c := hf c (List.mem_cons_self) ha
            rw [Int.mul_assoc]
            exact Int.mul_le_mul_of_nonneg_left ih5 hc0

/-- last level: nothing is small, every auto axis gets `max 1 isize`. -/
theorem fillRound_props (i : Nat) (e : Bool) (chunks : List Spec) (shape : List Int)
    (hlen : chunks.length = shape.length) (hns : anySmall i e chunks shape = false) :
    ∃ out, fillRound i e chunks shape = .ok out ∧ numAutos out = 0 ∧
      largestBlock out = largestBlock chunks * (max 1 (i : Int)) ^ (numAutos chunks) := by
  induction chunks generalizing shape with
  | nil =>
    cases shape with
    | nil => exact ⟨[], by simp [fillRound, pure, Except.pure], by simp [numAutos], by simp [largestBlock, numAutos]⟩
    | cons s ss => simp at hlen
  | cons c cs ih =>
    cases shape with
    | nil => simp at hlen
    | cons s ss =>
      have hlen' : cs.length = ss.length := by simpa using hlen
      simp only [anySmall, Bool.or_eq_false_iff] at hns
      obtain ⟨out, ho1, ho2, ho3⟩ := ih ss hlen' hns.2
      by_cases ha : isAuto c = true
      · have hle : leF i e s = true := by
          have := hns.1
          unfold isSmall ltSize at this
          simp [ha] at this; exact this
        have hr : roundToF i e s = .ok (max 1 (i : Int)) := by unfold roundToF; simp [hle]
        refine ⟨Spec.int (max 1 (i : Int)) :: out, ?_, ?_, ?_⟩
        · simp [fillRound, ha, hr, ho1, bind, Except.bind, Except.map, pure, Except.pure]
        · rw [numAutos_cons]; simp [isAuto, ho2]
        · rw [numAutos_cons]
          rw [largestBlock_cons_fixed _ _ (by simp [isAuto]), largestBlock_cons_auto _ _ ha]
          simp only [ha, if_true, specMax]
          rw [ho3, Nat.add_comm, Int.pow_succ]
          rw [Int.mul_comm (max 1 (i : Int)), Int.mul_assoc]
      · have ha' : isAuto c = false := by simpa using ha
        refine ⟨c :: out, ?_, ?_, ?_⟩
        · simp [fillRound, ha', ho1, bind, Except.bind, pure, Except.pure]
        · rw [numAutos_cons]; simp [ha', ho2]
        · rw [numAutos_cons]
          rw [largestBlock_cons_fixed _ _ ha', largestBlock_cons_fixed _ _ ha']
          simp only [ha', Bool.false_eq_true, if_false, Nat.zero_add]
          rw [ho3, Int.mul_assoc]

/-- `auto_limit_noprev_partial`.  For EVERY oracle list satisfying the oracle relation: if the fixed axes
alone fit in the limit, the result of `auto_chunks` (no `previous_chunks`) has no auto axis left and its
largest block fits in the limit.  `_partial`: the float root that produces the oracle values is not
modelled; the relation is an hypothesis here and is checked on the real floats by the harness. -/
theorem auto_limit_noprev_partial (limit itemsize : Int) (hi : 0 ≤ itemsize)
    (orc : List (Nat × Bool)) (chunks : List Spec) (shape : List Int) (out : List Spec)
    (hlen : chunks.length = shape.length) (hsh : ∀ s ∈ shape, 0 ≤ s) (hf : FixedNonneg chunks)
    (hfit : largestBlock chunks * itemsize ≤ limit)
    (horc : orcOK limit itemsize orc chunks shape = true)
    (h : autoNoPrev orc chunks shape = .ok out) :
    numAutos out = 0 ∧ largestBlock out * itemsize ≤ limit := by
  induction orc generalizing chunks with
  | nil =>
    rw [autoNoPrev.eq_1] at h
    by_cases h0 : numAutos chunks = 0
    · simp [h0] at h; subst h; exact ⟨h0, hfit⟩
    · simp only [h0, if_false] at h
      split at h
      · cases h
      · split at h <;> cases h
  | cons o rest ih =>
    obtain ⟨i, e⟩ := o
    rw [autoNoPrev.eq_def] at h
    simp only at h
    by_cases h0 : numAutos chunks = 0
    · simp [h0] at h; subst h; exact ⟨h0, hfit⟩
    · simp only [h0, if_false] at h
      split at h
      · cases h
      · split at h
        · cases h
        · simp only [orcOK, Bool.and_eq_true, decide_eq_true_eq] at horc
          obtain ⟨hrel, hrest⟩ := horc
          have hlb : 0 ≤ largestBlock chunks := largestBlock_nonneg _ hf
          by_cases hsm : anySmall i e chunks shape = true
          · simp only [hsm, if_true] at h
            obtain ⟨p1, p2, p3, p4, p5⟩ := fillSmall_props i e chunks shape hlen hsh hf
            have hm := p4 hsm
            have hrest' : orcOK limit itemsize rest (fillSmall i e chunks shape) shape = true := by
              simpa [hsm] using hrest
            refine ih (fillSmall i e chunks shape) p2 p1 ?_ hrest' h
            -- the fixed axes of the next level still fit
            have hlb' : 0 ≤ largestBlock (fillSmall i e chunks shape) := largestBlock_nonneg _ p1
            by_cases hi0 : i = 0
            · subst hi0
              have hz : ((0 : Nat) : Int) ^ countSmall 0 e chunks shape = 0 := by
                have : countSmall 0 e chunks shape = (countSmall 0 e chunks shape - 1) + 1 := by omega
                rw [this, Int.pow_succ]; simp
              rw [hz, Int.mul_zero] at p5
              have : largestBlock (fillSmall 0 e chunks shape) = 0 := by omega
              rw [this, Int.zero_mul]
              have := Int.mul_nonneg hlb hi
              omega
            · have hpw := ipow_le i _ _ (by omega) p3
              calc largestBlock (fillSmall i e chunks shape) * itemsize
                  ≤ (largestBlock chunks * (i : Int) ^ countSmall i e chunks shape) * itemsize :=
                    Int.mul_le_mul_of_nonneg_right p5 hi
                _ ≤ (largestBlock chunks * (i : Int) ^ numAutos chunks) * itemsize :=
                    Int.mul_le_mul_of_nonneg_right (Int.mul_le_mul_of_nonneg_left hpw hlb) hi
                _ = (i : Int) ^ numAutos chunks * largestBlock chunks * itemsize := by
                    rw [Int.mul_comm (largestBlock chunks)]
                _ ≤ limit := hrel
          · have hsm' : anySmall i e chunks shape = false := by simpa using hsm
            simp only [hsm', Bool.false_eq_true, if_false] at h
            obtain ⟨out', q1, q2, q3⟩ := fillRound_props i e chunks shape hlen hsm'
            rw [q1] at h; cases h
            refine ⟨q2, ?_⟩
            rw [q3]
            by_cases hi0 : i = 0
            · subst hi0
              have : max (1 : Int) ((0 : Nat) : Int) = 1 := by omega
              rw [this, Int.one_pow, Int.mul_one]; exact hfit
            · have : max (1 : Int) (i : Int) = (i : Int) := by omega
              rw [this, Int.mul_comm (largestBlock chunks)]; exact hrel

/-! ### the whole of `normalize_chunks` -/

theorem fillSmall_length (i : Nat) (e : Bool) (chunks : List Spec) (shape : List Int) :
    (fillSmall i e chunks shape).length = chunks.length := by
  induction chunks generalizing shape with
  | nil => simp [fillSmall]
  | cons c cs ih =>
    cases shape with
    | nil => simp [fillSmall]
    | cons s ss => simp [fillSmall, ih]

theorem fillRound_length (i : Nat) (e : Bool) (chunks : List Spec) (shape : List Int) (out : List Spec)
    (h : fillRound i e chunks shape = .ok out) : out.length = chunks.length := by
  induction chunks generalizing shape out with
  | nil => simp [fillRound, pure, Except.pure] at h; subst h; rfl
  | cons c cs ih =>
    cases shape with
    | nil => simp [fillRound, pure, Except.pure] at h; subst h; rfl
    | cons s ss =>
      simp only [fillRound, bind, Except.bind] at h
      split at h
      · cases h
      · split at h
        · cases h
        · rename_i r hr
          simp only [pure, Except.pure] at h
          cases h
          simp [ih ss r hr]

theorem autoNoPrev_length (orc : List (Nat × Bool)) (chunks : List Spec) (shape : List Int) (out : List Spec)
    (h : autoNoPrev orc chunks shape = .ok out) : out.length = chunks.length := by
  induction orc generalizing chunks with
  | nil =>
    rw [autoNoPrev.eq_1] at h
    split at h
    · cases h; rfl
    · split at h
      · cases h
      · split at h <;> cases h
  | cons o rest ih =>
    obtain ⟨i, e⟩ := o
    rw [autoNoPrev.eq_def] at h
    simp only at h
    split at h
    · cases h; rfl
    · split at h
      · cases h
      · split at h
        · cases h
        · split at h
          · rw [ih _ h, fillSmall_length]
          · exact fillRound_length _ _ _ _ _ h

theorem convertAll_wf (chunks : List Spec) (shape : List Int) (out : List (List Int))
    (hlen : chunks.length = shape.length) (hsh : ∀ s ∈ shape, 0 ≤ s)
    (h : convertAll chunks shape = .ok out)
    (hne : out.any (· == []) = false)
    (hneg : out.any (fun c => c.any (· < 0)) = false)
    (hsum : chunks.all isIntSpec = true ∨ sumsMatch out shape = true) :
    AllAxesOK out shape := by
  induction chunks generalizing shape out with
  | nil =>
    cases shape with
    | nil => simp [convertAll, pure, Except.pure] at h; subst h; exact .nil
    | cons s ss => simp at hlen
  | cons c cs ih =>
    cases shape with
    | nil => simp at hlen
    | cons s ss =>
      have hlen' : cs.length = ss.length := by simpa using hlen
      simp only [convertAll, bind, Except.bind] at h
      split at h
      · cases h
      · rename_i a ha
        split at h
        · cases h
        · rename_i r hr
          simp only [pure, Except.pure] at h
          cases h
          simp only [List.any_cons, Bool.or_eq_false_iff] at hne hneg
          have hs0 : 0 ≤ s := hsh s (List.mem_cons_self)
          have hane : a ≠ [] := by
            intro he; have := hne.1; simp [he] at this
          have hann : ∀ x ∈ a, 0 ≤ x := by
            intro x hx
            have h1 := hneg.1
            have : ¬ (x < 0) := by
              intro hlt
              have : a.any (· < 0) = true := List.any_eq_true.mpr ⟨x, hx, by simpa using hlt⟩
              rw [h1] at this; cases this
            omega
          have hsum' : cs.all isIntSpec = true ∨ sumsMatch r ss = true := by
            rcases hsum with h1 | h1
            · left; simp only [List.all_cons, Bool.and_eq_true] at h1; exact h1.2
            · right; simp only [sumsMatch, Bool.and_eq_true] at h1; exact h1.2
          refine .cons ⟨hane, hann, ?_⟩ (ih ss r hlen' (fun x hx => hsh x (List.mem_cons_of_mem _ hx)) hr hne.2 hneg.2 hsum')
          rcases hsum with h1 | h1
          · simp only [List.all_cons, Bool.and_eq_true] at h1
            cases c with
            | int k =>
              simp only [convertAxis] at ha
              exact (blockdim_ok_nonneg s k hs0 a ha hane hann).1
            | none => simp [isIntSpec] at h1
            | tuple t => simp [isIntSpec] at h1
            | auto => simp [isIntSpec] at h1
            | bytes b => simp [isIntSpec] at h1
          · simp only [sumsMatch, Bool.and_eq_true, decide_eq_true_eq] at h1; exact h1.1

theorem prepare_length (chunks : List Spec) (shape : List Int) (out : List Spec)
    (h : prepare chunks shape = .ok out) : out.length = shape.length := by
  unfold prepare at h
  extract_lets c1 w c2 at h
  split at h
  · cases h
  · split at h
    · cases h
    · rename_i hl
      cases h
      simp only [List.length_zipWith]
      have := Decidable.of_not_not hl
      omega

theorem finalize_wf (chunks : List Spec) (shape : List Int) (out : List (List Int))
    (hlen : chunks.length = shape.length) (hsh : ∀ s ∈ shape, 0 ≤ s)
    (h : finalize chunks shape = .ok out) : AllAxesOK out shape := by
  unfold finalize at h
  extract_lets ai at h
  split at h
  · cases h
  · rename_i out' hconv
    cases h1 : out'.any (· == []) with
    | true => rw [h1] at h; simp at h
    | false =>
      cases h2 : out'.any (fun c => c.any (· < 0)) with
      | true => rw [h1, h2] at h; simp at h
      | false =>
        cases h3 : (!ai && !sumsMatch out' shape) with
        | true => rw [h1, h2, h3] at h; simp at h
        | false =>
          rw [h1, h2, h3] at h
          simp only [Bool.false_eq_true, if_false] at h
          cases h
          refine convertAll_wf chunks shape out hlen hsh hconv h1 h2 ?_
          cases ha : chunks.all isIntSpec with
          | true => exact Or.inl rfl
          | false =>
            right
            cases hs : sumsMatch out shape with
            | true => rfl
            | false =>
              have : ai = false := ha
              rw [this, hs] at h3; simp at h3

/-- `C16_wellformed` (model level): whatever the specs (ints, -1, None, explicit tuples, "auto", byte
strings), whatever the oracle values, if `normalize_chunks` returns for a shape with non-negative
lengths, it returns one valid layout per axis. -/
theorem normalizeChunks_wellformed (orc : List (Nat × Bool)) (limit : Option Int) (chunks : List Spec)
    (shape : List Int) (out : List (List Int)) (hsh : ∀ s ∈ shape, 0 ≤ s)
    (h : normalizeChunks orc limit chunks shape = .ok out) :
    AllAxesOK out shape := by
  unfold normalizeChunks at h
  split at h
  · rename_i hs; cases h; subst hs; exact .nil
  · split at h
    · cases h
    · rename_i c1 hp
      split at h
      · cases h
      · split at h
        · cases h
        · rename_i c2 hr
          have hl1 := prepare_length _ _ _ hp
          have hl2 : c2.length = shape.length := by
            unfold resolveAuto at hr
            split at hr
            · rw [autoNoPrev_length _ _ _ _ hr]; simpa using hl1
            · cases hr; simpa using hl1
          exact finalize_wf c2 shape out hl2 hsh h

/-! ### from the `auto_chunks` bound to the largest block of the returned layout -/

theorem imax_mem (l : List Int) (hne : l ≠ []) : imax l ∈ l := by
  induction l with
  | nil => exact absurd rfl hne
  | cons x xs ih =>
    cases xs with
    | nil => simp [imax]
    | cons y r =>
      have := ih (by simp)
      simp only [imax]
      by_cases hxy : x ≤ imax (y :: r)
      · rw [Int.max_eq_right hxy]; exact List.mem_cons_of_mem _ this
      · rw [Int.max_eq_left (by omega)]; exact List.mem_cons_self

def roundAll (i : Nat) (chunks : List Spec) : List Spec :=
  chunks.map (fun c => if isAuto c then Spec.int (max 1 (i : Int)) else c)

theorem fillRound_eq (i : Nat) (e : Bool) (chunks : List Spec) (shape : List Int)
    (hlen : chunks.length = shape.length) (hns : anySmall i e chunks shape = false) :
    fillRound i e chunks shape = .ok (roundAll i chunks) := by
  induction chunks generalizing shape with
  | nil =>
    cases shape with
    | nil => simp [fillRound, roundAll, pure, Except.pure]
    | cons s ss => simp at hlen
  | cons c cs ih =>
    cases shape with
    | nil => simp at hlen
    | cons s ss =>
      have hlen' : cs.length = ss.length := by simpa using hlen
      simp only [anySmall, Bool.or_eq_false_iff] at hns
      have ih' := ih ss hlen' hns.2
      cases ha : isAuto c with
      | true =>
        have hle : leF i e s = true := by
          have := hns.1
          unfold isSmall ltSize at this
          simp [ha] at this; exact this
        have hr : roundToF i e s = .ok (max 1 (i : Int)) := by unfold roundToF; simp [hle]
        simp [fillRound, ha, hr, ih', roundAll, bind, Except.bind, Except.map, pure, Except.pure]
      | false =>
        simp [fillRound, ha, ih', roundAll, bind, Except.bind, pure, Except.pure]

theorem roundAll_fixedNonneg (i : Nat) (chunks : List Spec) (hf : FixedNonneg chunks) :
    FixedNonneg (roundAll i chunks) := by
  intro x hx hxa
  unfold roundAll at hx
  obtain ⟨c, hc, rfl⟩ := List.mem_map.mp hx
  cases ha : isAuto c with
  | true => simp only [if_true, specMax]; omega
  | false => simp only [ha, Bool.false_eq_true, if_false] at hxa ⊢; exact hf c hc ha

theorem autoNoPrev_fixedNonneg (orc : List (Nat × Bool)) (chunks : List Spec) (shape : List Int)
    (out : List Spec) (hlen : chunks.length = shape.length) (hsh : ∀ s ∈ shape, 0 ≤ s)
    (hf : FixedNonneg chunks) (h : autoNoPrev orc chunks shape = .ok out) : FixedNonneg out := by
  induction orc generalizing chunks with
  | nil =>
    rw [autoNoPrev.eq_1] at h
    split at h
    · cases h; exact hf
    · split at h
      · cases h
      · split at h <;> cases h
  | cons o rest ih =>
    obtain ⟨i, e⟩ := o
    rw [autoNoPrev.eq_def] at h
    simp only at h
    split at h
    · cases h; exact hf
    · split at h
      · cases h
      · split at h
        · cases h
        · cases hsm : anySmall i e chunks shape with
          | true =>
            rw [hsm] at h; simp only [if_true] at h
            obtain ⟨p1, p2, _, _, _⟩ := fillSmall_props i e chunks shape hlen hsh hf
            exact ih _ p2 p1 h
          | false =>
            rw [hsm] at h; simp only [Bool.false_eq_true, if_false] at h
            rw [fillRound_eq i e chunks shape hlen hsm] at h
            cases h
            exact roundAll_fixedNonneg i chunks hf

/-- one axis: the largest returned block is at most the spec's nominal size -/
theorem convertAxis_max_le (c : Spec) (s : Int) (l : List Int) (hs : 0 ≤ s) (hc : 0 ≤ specMax c)
    (h : convertAxis c s = .ok l) (hne : l ≠ []) (hnn : ∀ x ∈ l, 0 ≤ x) :
    0 ≤ imax l ∧ imax l ≤ specMax c := by
  have hm := imax_mem l hne
  refine ⟨hnn _ hm, ?_⟩
  cases c with
  | tuple t => simp only [convertAxis] at h; cases h; simp [specMax]
  | int k =>
    simp only [convertAxis] at h
    simp only [specMax] at hc ⊢
    by_cases h0 : s = 0
    · subst h0; simp [blockdim] at h; subst h; simpa [imax] using hc
    · have hk := (blockdim_ok_nonneg s k hs l h hne hnn).2.2
      have hk1 : 1 ≤ k := by omega
      exact (uniform_entries s k (by omega) hk1 l h _ hm).2
  | none => simp [convertAxis] at h
  | auto => simp [convertAxis] at h
  | bytes b => simp [convertAxis] at h

theorem convertAll_block_le (chunks : List Spec) (shape : List Int) (out : List (List Int))
    (hlen : chunks.length = shape.length) (hsh : ∀ s ∈ shape, 0 ≤ s) (hf : FixedNonneg chunks)
    (hna : numAutos chunks = 0)
    (h : convertAll chunks shape = .ok out)
    (hne : out.any (· == []) = false)
    (hneg : out.any (fun c => c.any (· < 0)) = false) :
    0 ≤ blockElems out ∧ blockElems out ≤ largestBlock chunks := by
  induction chunks generalizing shape out with
  | nil =>
    cases shape with
    | nil => simp [convertAll, pure, Except.pure] at h; subst h; simp [blockElems, largestBlock]
    | cons s ss => simp at hlen
  | cons c cs ih =>
    cases shape with
    | nil => simp at hlen
    | cons s ss =>
      have hlen' : cs.length = ss.length := by simpa using hlen
      simp only [convertAll, bind, Except.bind] at h
      split at h
      · cases h
      · rename_i a ha
        split at h
        · cases h
        · rename_i r hr
          simp only [pure, Except.pure] at h
          cases h
          simp only [List.any_cons, Bool.or_eq_false_iff] at hne hneg
          rw [numAutos_cons] at hna
          have hca : isAuto c = false := by
            cases hx : isAuto c with
            | true => rw [hx] at hna; simp at hna
            | false => rfl
          have hna' : numAutos cs = 0 := by omega
          have hs0 : 0 ≤ s := hsh s (List.mem_cons_self)
          have hane : a ≠ [] := by
            intro he; have := hne.1; simp [he] at this
          have hann : ∀ x ∈ a, 0 ≤ x := by
            intro x hx
            have h1 := hneg.1
            have : ¬ (x < 0) := by
              intro hlt
              have : a.any (· < 0) = true := List.any_eq_true.mpr ⟨x, hx, by simpa using hlt⟩
              rw [h1] at this; cases this
            omega
          have hc0 : 0 ≤ specMax c := hf c List.mem_cons_self hca
          obtain ⟨m0, m1⟩ := convertAxis_max_le c s a hs0 hc0 ha hane hann
          obtain ⟨b0, b1⟩ := ih ss r hlen' (fun x hx => hsh x (List.mem_cons_of_mem _ hx))
            (fun x hx => hf x (List.mem_cons_of_mem _ hx)) hna' hr hne.2 hneg.2
          rw [largestBlock_cons_fixed _ _ hca]
          simp only [blockElems]
          exact ⟨Int.mul_nonneg m0 b0, Int.mul_le_mul m1 b1 b0 hc0⟩

theorem bytesToAuto_length (c : List Spec) : (c.map bytesToAuto).length = c.length := by simp

/-- `normalize_auto_limit_noprev_partial`: the bound of `auto_limit_noprev_partial` carried through the
conversion to explicit tuples: the largest block of the RETURNED layout, in bytes, is within the limit. -/
theorem normalize_auto_limit_noprev_partial (limit itemsize : Int) (hi : 0 ≤ itemsize)
    (orc : List (Nat × Bool)) (lim : Option Int) (chunks c1 : List Spec) (shape : List Int)
    (out : List (List Int)) (hsh : ∀ s ∈ shape, 0 ≤ s)
    (hp : prepare chunks shape = .ok c1)
    (hf : FixedNonneg (c1.map bytesToAuto))
    (hfit : largestBlock (c1.map bytesToAuto) * itemsize ≤ limit)
    (horc : orcOK limit itemsize orc (c1.map bytesToAuto) shape = true)
    (h : normalizeChunks orc lim chunks shape = .ok out) :
    blockElems out * itemsize ≤ limit := by
  unfold normalizeChunks at h
  split at h
  · cases h; simp only [blockElems]
    rename_i hs; subst hs
    have hc1 : c1 = [] := by
      have := prepare_length _ _ _ hp; simpa using this
    subst hc1; simpa [largestBlock] using hfit
  · rw [hp] at h
    simp only at h
    split at h
    · cases h
    · split at h
      · cases h
      · rename_i c2 hr
        have hl1 : (c1.map bytesToAuto).length = shape.length := by
          rw [bytesToAuto_length]; exact prepare_length _ _ _ hp
        -- facts about the resolved specs
        have hfacts : c2.length = shape.length ∧ FixedNonneg c2 ∧ numAutos c2 = 0 ∧
            largestBlock c2 * itemsize ≤ limit := by
          unfold resolveAuto at hr
          split at hr
          · obtain ⟨a1, a2⟩ := auto_limit_noprev_partial limit itemsize hi orc _ shape c2 hl1 hsh hf hfit horc hr
            exact ⟨by rw [autoNoPrev_length _ _ _ _ hr]; exact hl1,
              autoNoPrev_fixedNonneg _ _ _ _ hl1 hsh hf hr, a1, a2⟩
          · rename_i hany
            cases hr
            refine ⟨hl1, hf, ?_, hfit⟩
            unfold numAutos
            have : ∀ x ∈ List.map bytesToAuto c1, isAuto x = false := by
              intro x hx
              cases hxa : isAuto x with
              | false => rfl
              | true => exact absurd (List.any_eq_true.mpr ⟨x, hx, hxa⟩) hany
            rw [List.length_eq_zero_iff, List.filter_eq_nil_iff]
            intro x hx; rw [this x hx]; simp
        obtain ⟨f1, f2, f3, f4⟩ := hfacts
        unfold finalize at h
        extract_lets ai at h
        split at h
        · cases h
        · rename_i out' hconv
          cases h1 : out'.any (· == []) with
          | true => rw [h1] at h; simp at h
          | false =>
            cases h2 : out'.any (fun c => c.any (· < 0)) with
            | true => rw [h1, h2] at h; simp at h
            | false =>
              cases h3 : (!ai && !sumsMatch out' shape) with
              | true => rw [h1, h2, h3] at h; simp at h
              | false =>
                rw [h1, h2, h3] at h
                simp only [Bool.false_eq_true, if_false] at h
                cases h
                obtain ⟨b0, b1⟩ := convertAll_block_le c2 shape out f1 hsh f2 f3 hconv h1 h2
                exact Int.le_trans (Int.mul_le_mul_of_nonneg_right b1 hi) f4

/-! ### the greedy merge of `previous_chunks` (integer kernel of the `previous_chunks` branch) -/

theorem mergeLoop_spec (pf B : Int) (prev : List Int) (new : Int)
    (hp : ∀ c ∈ prev, 0 ≤ c ∧ c ≤ B) (hn0 : 0 ≤ new) (hnB : new ≤ B) (hpf : pf ≤ B) :
    isum (mergeLoop pf new prev) = new + isum prev ∧
    (∀ x ∈ mergeLoop pf new prev, 0 < x ∧ x ≤ B) := by
  induction prev generalizing new with
  | nil =>
    simp only [mergeLoop, isum]
    by_cases h : new > 0
    · simp only [h, if_true]
      exact ⟨by simp [isum], fun x hx => by simp at hx; omega⟩
    · simp only [h, if_false]
      exact ⟨by simp [isum]; omega, fun x hx => by simp at hx⟩
  | cons c cs ih =>
    have hc := hp c List.mem_cons_self
    have hp' : ∀ c ∈ cs, 0 ≤ c ∧ c ≤ B := fun x hx => hp x (List.mem_cons_of_mem _ hx)
    simp only [mergeLoop, isum]
    by_cases h : c + new ≤ pf
    · simp only [h, if_true]
      obtain ⟨i1, i2⟩ := ih (new + c) hp' (by omega) (by omega)
      exact ⟨by omega, i2⟩
    · simp only [h, if_false]
      obtain ⟨i1, i2⟩ := ih c hp' hc.1 hc.2
      rw [isum_append, i1]
      by_cases hn : new > 0
      · simp only [hn, if_true, isum]
        refine ⟨by omega, fun x hx => ?_⟩
        rcases List.mem_append.mp hx with hx | hx
        · simp at hx; omega
        · exact i2 x hx
      · simp only [hn, if_false, isum]
        refine ⟨by omega, fun x hx => ?_⟩
        rcases List.mem_append.mp hx with hx | hx
        · simp at hx
        · exact i2 x hx

/-- merging previous chunks keeps the axis length, produces only positive blocks, and no block exceeds
`max (floor proposed) (largest previous chunk)` (any common bound `B`). -/
theorem mergePrev_spec (pf B : Int) (prev : List Int) (hp : ∀ c ∈ prev, 0 ≤ c ∧ c ≤ B) (hB : 0 ≤ B) (hpf : pf ≤ B) :
    isum (mergePrev pf prev) = isum prev ∧ (∀ x ∈ mergePrev pf prev, 0 < x ∧ x ≤ B) := by
  have := mergeLoop_spec pf B prev 0 hp (by omega) hB hpf
  unfold mergePrev
  exact ⟨by omega, this.2⟩

/-! ### fuel: `#autos` oracle entries always suffice (every level removes at least one auto axis) -/

theorem numAutos_fillSmall (i : Nat) (e : Bool) (chunks : List Spec) (shape : List Int) :
    numAutos (fillSmall i e chunks shape) + countSmall i e chunks shape = numAutos chunks ∧
    (anySmall i e chunks shape = true → 1 ≤ countSmall i e chunks shape) := by
  induction chunks generalizing shape with
  | nil => cases shape <;> simp [fillSmall, countSmall, anySmall, numAutos]
  | cons c cs ih =>
    cases shape with
    | nil => simp [fillSmall, countSmall, anySmall]
    | cons s ss =>
      obtain ⟨i1, i2⟩ := ih ss
      simp only [fillSmall, countSmall, anySmall, numAutos_cons]
      cases hsm : isSmall i e c s with
      | true =>
        have ha := (isSmall_le i e c s hsm).1
        have hb : isAuto (Spec.tuple [s]) = false := rfl
        simp only [if_true, ha, hb, Bool.false_eq_true, if_false]
        exact ⟨by omega, fun _ => by omega⟩
      | false =>
        simp only [Bool.false_eq_true, if_false, Bool.false_or]
        exact ⟨by omega, fun h => by have := i2 h; omega⟩

theorem fillRound_not_exhausted (i : Nat) (e : Bool) (chunks : List Spec) (shape : List Int) :
    fillRound i e chunks shape ≠ .error .oracleExhausted := by
  induction chunks generalizing shape with
  | nil => simp [fillRound, pure, Except.pure]
  | cons c cs ih =>
    cases shape with
    | nil => simp [fillRound, pure, Except.pure]
    | cons s ss =>
      intro h
      simp only [fillRound, bind, Except.bind] at h
      split at h
      · rename_i err herr
        cases h
        cases ha : isAuto c with
        | true =>
          rw [ha] at herr
          simp only [if_true] at herr
          unfold roundToF at herr
          split at herr
          · simp [Except.map] at herr
          · split at herr <;> simp [Except.map] at herr
        | false => rw [ha] at herr; simp [pure, Except.pure] at herr
      · split at h
        · rename_i err herr
          cases h; exact ih ss herr
        · simp [pure, Except.pure] at h

theorem autoNoPrev_fuel (orc : List (Nat × Bool)) (chunks : List Spec) (shape : List Int)
    (hfuel : numAutos chunks ≤ orc.length) : autoNoPrev orc chunks shape ≠ .error .oracleExhausted := by
  induction orc generalizing chunks with
  | nil =>
    have h0 : numAutos chunks = 0 := by simpa using hfuel
    rw [autoNoPrev.eq_1]; simp [h0]
  | cons o rest ih =>
    obtain ⟨i, e⟩ := o
    rw [autoNoPrev.eq_def]
    simp only
    split
    · simp
    · split
      · simp
      · split
        · simp
        · split
          · rename_i hsm
            obtain ⟨n1, n2⟩ := numAutos_fillSmall i e chunks shape
            have := n2 hsm
            apply ih
            simp only [List.length_cons] at hfuel
            omega
          · exact fillRound_not_exhausted _ _ _ _

end Dask.Lemmas.Chunks
