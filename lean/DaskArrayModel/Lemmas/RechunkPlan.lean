/-
Lemmas for the rechunk planner model (Model/RechunkPlan.lean, Model/Rechunk.lean):
`divide_to_width`, `merge_to_number`, the step relation, `find_merge_rechunk` /
`_bound_degree` budgets, the data-level crosswalk, spec resolution and balancing.
Core Lean only (no Mathlib).
-/
import DaskArrayModel.Model.RechunkPlan
import DaskArrayModel.Lemmas.Crosswalk
namespace Dask.Lemmas.RechunkPlan
open Dask.Py Dask.Rechunk Dask.RechunkPlan Dask.Lemmas.Crosswalk

theorem pyDiv_pos (a b : Int) (hb : 0 < b) : pyDiv a b = a / b := by simp [pyDiv, hb]

theorem isum_flatMap {α} (l : List α) (f : α → List Int) :
    isum (l.flatMap f) = isum (l.map (fun a => isum (f a))) := by
  induction l with
  | nil => simp [isum]
  | cons a l ih => simp [List.flatMap_cons, isum_append, isum, ih]

theorem isum_map_id (l : List Int) : isum (l.map (fun a => a)) = isum l := by simp

/-! ### divideOne -/

theorem divideOne_sum (nb : Nat) : ∀ (fuel : Nat) (c : Int), 0 ≤ c → 1 ≤ fuel → isum (divideOne c nb fuel) = c := by
  intro fuel
  induction fuel with
  | zero => intro c _ h; omega
  | succ f ih =>
    intro c hc _
    cases f with
    | zero => simp [divideOne, isum, pyDiv]
    | succ g =>
      have hpos : (0 : Int) < ((g + 1 : Nat) : Int) + 1 := by omega
      have hn : pyDiv c (((g + 1 : Nat) : Int) + 1) = c / (((g + 1 : Nat) : Int) + 1) := pyDiv_pos _ _ hpos
      have hle : c / (((g + 1 : Nat) : Int) + 1) ≤ c := Int.ediv_le_self _ hc
      rw [divideOne]
      simp only [isum]
      rw [ih (c - pyDiv c (((g + 1 : Nat) : Int) + 1)) (by rw [hn]; omega) (by omega)]
      omega

/-- every entry of `divideOne c nb fuel` is `≤ w` when `c ≤ w * fuel` -/
theorem divideOne_le (nb : Nat) (w : Int) : ∀ (fuel : Nat) (c : Int), 0 ≤ c → c ≤ w * fuel →
    ∀ x ∈ divideOne c nb fuel, x ≤ w := by
  intro fuel
  induction fuel with
  | zero => intro c _ _ x hx; simp [divideOne] at hx
  | succ f ih =>
    intro c hc hcw x hx
    have hpos : (0 : Int) < (f : Int) + 1 := by omega
    have hn : pyDiv c ((f : Int) + 1) = c / ((f : Int) + 1) := pyDiv_pos _ _ hpos
    rw [divideOne] at hx
    simp only [List.mem_cons] at hx
    have hq : c / ((f : Int) + 1) ≤ w := by
      apply Int.ediv_le_of_le_mul hpos
      have : ((f + 1 : Nat) : Int) = (f : Int) + 1 := by omega
      rw [this] at hcw; exact hcw
    rcases hx with hx | hx
    · rw [hx, hn]; exact hq
    · refine ih (c - pyDiv c ((f : Int) + 1)) ?_ ?_ x hx
      · rw [hn]; have := Int.ediv_le_self ((f : Int) + 1) hc; omega
      · rw [hn]
        -- c = q (f+1) + r, r ≤ f ; c - q = q f + r
        have h1 := Int.mul_ediv_add_emod c ((f : Int) + 1)
        have h2 := Int.emod_lt_of_pos c hpos
        have h3 := Int.emod_nonneg c (Int.ne_of_gt hpos)
        have e1 : ((f : Int) + 1) * (c / ((f : Int) + 1)) = (c / ((f : Int) + 1)) * (f : Int) + c / ((f : Int) + 1) := by
          rw [Int.add_mul, Int.mul_comm]; simp
        have hcw' : c ≤ w * (f : Int) + w := by
          have : ((f + 1 : Nat) : Int) = (f : Int) + 1 := by omega
          rw [this, Int.mul_add] at hcw; simpa using hcw
        by_cases hqw : c / ((f : Int) + 1) ≤ w - 1
        · have h4 : (c / ((f : Int) + 1)) * (f : Int) ≤ (w - 1) * (f : Int) :=
            Int.mul_le_mul_of_nonneg_right hqw (by omega)
          have e2 : (w - 1) * (f : Int) = w * (f : Int) - (f : Int) := by rw [Int.sub_mul]; simp
          omega
        · have hqe : c / ((f : Int) + 1) = w := by omega
          rw [hqe] at e1 h1 ⊢
          omega

theorem divideOne_pos (nb : Nat) : ∀ (fuel : Nat) (c : Int), (fuel : Int) ≤ c →
    ∀ x ∈ divideOne c nb fuel, 1 ≤ x := by
  intro fuel
  induction fuel with
  | zero => intro c _ x hx; simp [divideOne] at hx
  | succ f ih =>
    intro c hc x hx
    have hpos : (0 : Int) < (f : Int) + 1 := by omega
    have hn : pyDiv c ((f : Int) + 1) = c / ((f : Int) + 1) := pyDiv_pos _ _ hpos
    have hc' : (f : Int) + 1 ≤ c := by omega
    have hq : 1 ≤ c / ((f : Int) + 1) := Int.le_ediv_of_mul_le hpos (by omega)
    rw [divideOne] at hx
    simp only [List.mem_cons] at hx
    rcases hx with hx | hx
    · rw [hx, hn]; exact hq
    · refine ih (c - pyDiv c ((f : Int) + 1)) ?_ x hx
      rw [hn]
      have h1 := Int.mul_ediv_add_emod c ((f : Int) + 1)
      have h3 := Int.emod_nonneg c (Int.ne_of_gt hpos)
      have e1 : ((f : Int) + 1) * (c / ((f : Int) + 1)) = (c / ((f : Int) + 1)) * (f : Int) + c / ((f : Int) + 1) := by
        rw [Int.add_mul, Int.mul_comm]; simp
      have h4 : 1 * (f : Int) ≤ (c / ((f : Int) + 1)) * (f : Int) := Int.mul_le_mul_of_nonneg_right hq (by omega)
      omega

theorem divideOne_length (nb : Nat) : ∀ (fuel : Nat) (c : Int), (divideOne c nb fuel).length = fuel := by
  intro fuel
  induction fuel with
  | zero => intro c; simp [divideOne]
  | succ f ih => intro c; rw [divideOne]; simp [ih]

/-- `nb = ceil(c / w)` facts for `w ≥ 1`, `c ≥ 0` -/
theorem ceilDiv_facts (c w : Int) (hc : 0 ≤ c) (hw : 1 ≤ w) :
    0 ≤ ceilDiv c w ∧ c ≤ w * ceilDiv c w ∧ ceilDiv c w ≤ c ∧ (0 < c → 1 ≤ ceilDiv c w) := by
  have hwp : 0 < w := by omega
  unfold ceilDiv
  rw [pyDiv_pos _ _ hwp]
  have h1 := Int.mul_ediv_add_emod (-c) w
  have h2 := Int.emod_lt_of_pos (-c) hwp
  have h3 := Int.emod_nonneg (-c) (Int.ne_of_gt hwp)
  -- q := (-c)/w ; -c = w q + r, 0 ≤ r < w
  have hq0 : (-c) / w ≤ 0 := by
    apply Int.ediv_le_of_le_mul hwp; omega
  refine ⟨by omega, ?_, ?_, ?_⟩
  · have : w * -((-c) / w) = -(w * ((-c) / w)) := by rw [Int.mul_neg]
    omega
  · -- -q ≤ c : w(-q) = c + r - ... ; since -q ≥ 0 and w ≥ 1: -q ≤ w * -q
    have h5 : 1 * (-((-c) / w)) ≤ w * (-((-c) / w)) := Int.mul_le_mul_of_nonneg_right hw (by omega)
    have : w * -((-c) / w) = -(w * ((-c) / w)) := by rw [Int.mul_neg]
    by_cases hz : (-c) / w = 0
    · omega
    · -- -q ≥ 1: w * (-q - 1) ≥ (-q - 1)
      have h6 : 1 * (-((-c) / w) - 1) ≤ w * (-((-c) / w) - 1) := Int.mul_le_mul_of_nonneg_right hw (by omega)
      have e : w * (-((-c) / w) - 1) = -(w * ((-c) / w)) - w := by rw [Int.mul_sub, Int.mul_neg]; simp
      omega
  · intro hcp
    by_cases hz : (-c) / w = 0
    · rw [hz] at h1; omega
    · omega


/-! ### `divide_to_width` -/

theorem divideOne_block (c w : Int) (hc : 0 ≤ c) (hw : 1 ≤ w) :
    let nb := (ceilDiv c w).toNat
    isum (divideOne c nb nb) = c ∧ (∀ x ∈ divideOne c nb nb, x ≤ w) ∧ (∀ x ∈ divideOne c nb nb, 1 ≤ x) := by
  intro nb
  obtain ⟨h0, h1, h2, h3⟩ := ceilDiv_facts c w hc hw
  have hnb : (nb : Int) = ceilDiv c w := Int.toNat_of_nonneg h0
  refine ⟨?_, ?_, ?_⟩
  · by_cases hcz : c = 0
    · have : nb = 0 := by omega
      rw [this]; simp [divideOne, isum, hcz]
    · exact divideOne_sum nb nb c hc (by have := h3 (by omega); omega)
  · exact divideOne_le nb w nb c hc (by rw [hnb]; exact h1)
  · exact divideOne_pos nb nb c (by rw [hnb]; exact h2)

theorem divideToWidth_sum (d : List Int) (w : Int) (hd : ∀ c ∈ d, 0 ≤ c) (hw : 1 ≤ w) :
    isum (divideToWidth d w) = isum d := by
  induction d with
  | nil => simp [divideToWidth, isum]
  | cons c d ih =>
    have hc := hd c (by simp)
    have := ih (fun x hx => hd x (by simp [hx]))
    simp only [divideToWidth, List.flatMap_cons, isum_append, isum] at this ⊢
    rw [this, (divideOne_block c w hc hw).1]

theorem divideToWidth_le (d : List Int) (w : Int) (hd : ∀ c ∈ d, 0 ≤ c) (hw : 1 ≤ w) :
    ∀ x ∈ divideToWidth d w, x ≤ w := by
  intro x hx
  simp only [divideToWidth, List.mem_flatMap] at hx
  obtain ⟨c, hc, hx⟩ := hx
  exact (divideOne_block c w (hd c hc) hw).2.1 x hx

/-- zero-width input chunks disappear; every produced chunk is positive -/
theorem divideToWidth_pos (d : List Int) (w : Int) (hd : ∀ c ∈ d, 0 ≤ c) (hw : 1 ≤ w) :
    ∀ x ∈ divideToWidth d w, 1 ≤ x := by
  intro x hx
  simp only [divideToWidth, List.mem_flatMap] at hx
  obtain ⟨c, hc, hx⟩ := hx
  exact (divideOne_block c w (hd c hc) hw).2.2 x hx

theorem imax_le_of_forall (l : List Int) (b : Int) (hb : 0 ≤ b) (h : ∀ x ∈ l, x ≤ b) : imax l ≤ b := by
  induction l with
  | nil => simpa [imax] using hb
  | cons a l ih =>
    have h1 := h a (by simp)
    have h2 := ih (fun x hx => h x (by simp [hx]))
    simp only [imax]; omega

theorem le_imax_of_mem (l : List Int) (x : Int) (h : x ∈ l) : x ≤ imax l := by
  induction l with
  | nil => simp at h
  | cons a l ih =>
    simp only [List.mem_cons] at h
    simp only [imax]
    rcases h with h | h
    · omega
    · have := ih h; omega

/-- the oracle relation `max(divide_to_width(c, w)) ≤ w` -/
theorem imax_divideToWidth_le (d : List Int) (w : Int) (hd : ∀ c ∈ d, 0 ≤ c) (hw : 1 ≤ w) :
    imax (divideToWidth d w) ≤ w :=
  imax_le_of_forall _ _ (by omega) (divideToWidth_le d w hd hw)

/-! ### `merge_to_number` -/

/-- the non-zero entries (`filter(None, chunks)`) -/
def live (l : List Int) : List Int := l.filter (fun x => x ≠ 0)

theorem nextNonzero_spec (c : List Int) : ∀ (fuel j : Nat),
    j ≤ nextNonzero c j fuel ∧ (∀ t, j ≤ t → t < nextNonzero c j fuel → c.getD t 0 = 0) := by
  intro fuel
  induction fuel with
  | zero => intro j; simp [nextNonzero]; intro t h1 h2; omega
  | succ f ih =>
    intro j
    rw [nextNonzero]
    split
    · rename_i hz
      obtain ⟨h1, h2⟩ := ih (j + 1)
      refine ⟨by omega, ?_⟩
      intro t ht1 ht2
      by_cases htj : t = j
      · rw [htj]; exact hz
      · exact h2 t (by omega) ht2
    · refine ⟨Nat.le_refl _, ?_⟩
      intro t h1 h2; omega

theorem nextNonzero_complete (c : List Int) : ∀ (fuel j t : Nat), j ≤ t → t - j < fuel → c.getD t 0 ≠ 0 →
    nextNonzero c j fuel ≤ t ∧ c.getD (nextNonzero c j fuel) 0 ≠ 0 := by
  intro fuel
  induction fuel with
  | zero => intro j t _ h; omega
  | succ f ih =>
    intro j t hjt hf ht
    rw [nextNonzero]
    split
    · rename_i hz
      have hne : j ≠ t := by intro e; rw [e] at hz; exact ht hz
      exact ih (j + 1) t (by omega) (by omega) ht
    · rename_i hz
      exact ⟨hjt, hz⟩

theorem mem_mergeCandidates {c : List Int} {w : Int} {i j : Nat} (h : (w, i, j) ∈ mergeCandidates c) :
    i < j ∧ j < c.length ∧ c.getD i 0 ≠ 0 ∧ c.getD j 0 ≠ 0 ∧
      (∀ t, i < t → t < j → c.getD t 0 = 0) ∧ w = c.getD i 0 + c.getD j 0 := by
  unfold mergeCandidates at h
  rw [List.mem_filterMap] at h
  obtain ⟨a, _, ha⟩ := h
  split at ha
  · simp at ha
  · rename_i hnz
    simp only at ha
    split at ha
    · rename_i hj
      simp only [Option.some.injEq, Prod.mk.injEq] at ha
      obtain ⟨hw, hi, hjj⟩ := ha
      subst hi
      obtain ⟨s1, s2⟩ := nextNonzero_spec c c.length (a + 1)
      rw [hjj] at s1 s2 hj hw
      refine ⟨by omega, hj.1, hnz, hj.2, ?_, hw.symm⟩
      intro t h1 h2
      exact s2 t (by omega) h2
    · simp at ha

theorem minCand_mem : ∀ (l : List (Int × Nat × Nat)) (x : Int × Nat × Nat), minCand l = some x → x ∈ l := by
  intro l
  induction l with
  | nil => intro x h; simp [minCand] at h
  | cons c cs ih =>
    intro x h
    rw [minCand] at h
    split at h
    · simp at h; simp [h]
    · rename_i d hd
      split at h
      · simp at h; simp [h]
      · simp at h; subst h; simp [ih d hd]

theorem minCand_none : ∀ (l : List (Int × Nat × Nat)), minCand l = none → l = [] := by
  intro l
  cases l with
  | nil => intro _; rfl
  | cons c cs =>
    intro h
    rw [minCand] at h
    split at h
    · simp at h
    · split at h <;> simp at h

theorem getD_eq_getElem' (l : List Int) (i : Nat) (h : i < l.length) : l.getD i 0 = l[i] := by
  rw [List.getD_eq_getElem?_getD, List.getElem?_eq_getElem h]; rfl

theorem split_at (l : List Int) (i : Nat) (h : i < l.length) :
    l = l.take i ++ l.getD i 0 :: l.drop (i + 1) := by
  rw [getD_eq_getElem' l i h]
  conv => lhs; rw [← List.take_append_drop i l]
  rw [List.drop_eq_getElem_cons h]

theorem merge_step_decomp (c : List Int) (i j : Nat) (hij : i < j) (hj : j < c.length)
    (hz : ∀ t, i < t → t < j → c.getD t 0 = 0) :
    ∃ P Z Q, (∀ z ∈ Z, z = 0) ∧ c = P ++ c.getD i 0 :: (Z ++ c.getD j 0 :: Q) ∧
      ∀ x y, (c.set i x).set j y = P ++ x :: (Z ++ y :: Q) := by
  have hi : i < c.length := by omega
  let R := c.drop (i + 1)
  let g := j - i - 1
  have hg : g < R.length := by simp [R, g]; omega
  have hRg : R.getD g 0 = c.getD j 0 := by
    rw [getD_eq_getElem' R g hg, getD_eq_getElem' c j hj]
    simp [R, g]
    congr 1; omega
  refine ⟨c.take i, R.take g, R.drop (g + 1), ?_, ?_, ?_⟩
  · intro z hzm
    rw [List.mem_iff_getElem] at hzm
    obtain ⟨t, ht, rfl⟩ := hzm
    have ht' : t < g := by simp at ht; omega
    have := hz (i + 1 + t) (by omega) (by omega)
    rw [getD_eq_getElem' c (i + 1 + t) (by omega)] at this
    simp [R]
    exact this
  · have e1 := split_at c i hi
    have e2 := split_at R g hg
    rw [hRg] at e2
    rw [← e2]
    exact e1
  · intro x y
    have e0 : c.set i x = List.take i c ++ x :: List.drop (i + 1) c := by
      rw [List.set_eq_take_append_cons_drop, if_pos hi]
    rw [e0, List.set_append]
    have hlen : (List.take i c).length = i := by simp; omega
    rw [hlen, if_neg (by omega)]
    have : j - i = g + 1 := by omega
    rw [this, List.set_cons_succ]
    show List.take i c ++ x :: (R.set g y) = _
    rw [List.set_eq_take_append_cons_drop, if_pos hg]

/-- `r` lists the sums of consecutive non-empty runs of `d` -/
def GroupsOf (d r : List Int) : Prop :=
  ∃ gs : List (List Int), (∀ g ∈ gs, g ≠ []) ∧ gs.flatten = d ∧ gs.map isum = r

theorem groupsOf_refl (d : List Int) : GroupsOf d d := by
  refine ⟨d.map (fun x => [x]), ?_, ?_, ?_⟩
  · intro g hg; simp at hg; obtain ⟨a, _, rfl⟩ := hg; simp
  · induction d with
    | nil => rfl
    | cons a d ih => simp [List.flatten_cons]; exact ih
  · induction d with
    | nil => rfl
    | cons a d ih => simp [isum] at ih ⊢; exact ih

theorem groupsOf_merge {d A B : List Int} {a b : Int} (h : GroupsOf d (A ++ a :: b :: B)) :
    GroupsOf d (A ++ (a + b) :: B) := by
  obtain ⟨gs, hne, hfl, hsum⟩ := h
  rw [List.map_eq_append_iff] at hsum
  obtain ⟨G1, G2, rfl, hA, h2⟩ := hsum
  rw [List.map_eq_cons_iff] at h2
  obtain ⟨g1, G3, rfl, ha, h3⟩ := h2
  rw [List.map_eq_cons_iff] at h3
  obtain ⟨g2, G4, rfl, hb, hB⟩ := h3
  refine ⟨G1 ++ (g1 ++ g2) :: G4, ?_, ?_, ?_⟩
  · intro g hg
    simp only [List.mem_append, List.mem_cons] at hg
    rcases hg with hg | hg | hg
    · exact hne g (by simp [hg])
    · have := hne g1 (by simp)
      subst hg; simp [this]
    · exact hne g (by simp [hg])
  · rw [← hfl]; simp [List.flatten_append, List.flatten_cons, List.append_assoc]
  · simp [hA, hB, isum_append, ha, hb]

theorem live_append (a b : List Int) : live (a ++ b) = live a ++ live b := by simp [live]
theorem live_cons_ne (x : Int) (l : List Int) (h : x ≠ 0) : live (x :: l) = x :: live l := by
  simp [live, h]
theorem live_cons_zero (l : List Int) : live (0 :: l) = live l := by simp [live]

theorem merge_step (c : List Int) (hc : ∀ x ∈ c, 0 ≤ x) (w : Int) (i j : Nat)
    (h : (w, i, j) ∈ mergeCandidates c) :
    (∀ x ∈ (c.set i 0).set j w, 0 ≤ x) ∧ isum ((c.set i 0).set j w) = isum c ∧
      ∃ A B a b, live c = A ++ a :: b :: B ∧ live ((c.set i 0).set j w) = A ++ (a + b) :: B := by
  obtain ⟨hij, hj, hi0, hj0, hz, hw⟩ := mem_mergeCandidates h
  obtain ⟨P, Z, Q, hZ, hc', hset⟩ := merge_step_decomp c i j hij hj hz
  rw [hset 0 w]
  have hmem : ∀ x, x ∈ P ∨ x ∈ Z ∨ x ∈ Q ∨ x = c.getD i 0 ∨ x = c.getD j 0 → 0 ≤ x := by
    intro x hx
    apply hc x
    rw [hc']
    simp only [List.mem_append, List.mem_cons]
    rcases hx with hx | hx | hx | hx | hx <;> simp [hx]
  have ha := hmem (c.getD i 0) (by simp)
  have hb := hmem (c.getD j 0) (by simp)
  have hliveZ : live Z = [] := by
    simp only [live, List.filter_eq_nil_iff]
    intro a ha; simp [hZ a ha]
  refine ⟨?_, ?_, live P, live Q, c.getD i 0, c.getD j 0, ?_, ?_⟩
  · intro x hx
    simp only [List.mem_append, List.mem_cons] at hx
    rcases hx with hx | hx | hx | hx | hx
    · exact hmem x (by simp [hx])
    · omega
    · exact hmem x (by simp [hx])
    · omega
    · exact hmem x (by simp [hx])
  · conv => rhs; rw [hc']
    simp only [isum_append, isum]
    omega
  · conv => lhs; rw [hc']
    rw [live_append, live_cons_ne _ _ hi0, live_append, hliveZ, live_cons_ne _ _ hj0]; rfl
  · have : w ≠ 0 := by omega
    rw [live_append, live_cons_zero, live_append, hliveZ, live_cons_ne _ _ this, hw]; rfl

theorem one_live : ∀ (l : List Int), 1 ≤ (live l).length → ∃ t, t < l.length ∧ l.getD t 0 ≠ 0 := by
  intro l
  induction l with
  | nil => intro h; simp [live] at h
  | cons a l ih =>
    intro h
    by_cases ha : a = 0
    · subst ha
      rw [live_cons_zero] at h
      obtain ⟨t, ht, hn⟩ := ih h
      exact ⟨t + 1, by simp; omega, by simpa using hn⟩
    · exact ⟨0, by simp, by simpa using ha⟩

theorem two_live : ∀ (l : List Int), 2 ≤ (live l).length →
    ∃ i t, i < t ∧ t < l.length ∧ l.getD i 0 ≠ 0 ∧ l.getD t 0 ≠ 0 := by
  intro l
  induction l with
  | nil => intro h; simp [live] at h
  | cons a l ih =>
    intro h
    by_cases ha : a = 0
    · subst ha
      rw [live_cons_zero] at h
      obtain ⟨i, t, hit, ht, hi0, ht0⟩ := ih h
      exact ⟨i + 1, t + 1, by omega, by simp; omega, by simpa using hi0, by simpa using ht0⟩
    · rw [live_cons_ne _ _ ha] at h
      obtain ⟨t, ht, hn⟩ := one_live l (by simp at h; omega)
      exact ⟨0, t + 1, by omega, by simp; omega, by simpa using ha, by simpa using hn⟩

theorem candidates_of_two_live (c : List Int) (h : 2 ≤ (live c).length) : mergeCandidates c ≠ [] := by
  obtain ⟨i, t, hit, ht, hi0, ht0⟩ := two_live c h
  obtain ⟨hj1, hj2⟩ := nextNonzero_complete c c.length (i + 1) t (by omega) (by omega) ht0
  intro hnil
  have hm : (c.getD i 0 + c.getD (nextNonzero c (i + 1) c.length) 0, i, nextNonzero c (i + 1) c.length) ∈ mergeCandidates c := by
    unfold mergeCandidates
    rw [List.mem_filterMap]
    refine ⟨i, by simp; omega, ?_⟩
    simp only [if_neg hi0]
    rw [if_pos ⟨by omega, hj2⟩]
  rw [hnil] at hm
  simp at hm

theorem mergeLoop_inv (d : List Int) : ∀ (nm : Nat) (c : List Int), (∀ x ∈ c, 0 ≤ x) → GroupsOf d (live c) →
    (∀ x ∈ mergeLoop nm c, 0 ≤ x) ∧ isum (mergeLoop nm c) = isum c ∧ GroupsOf d (live (mergeLoop nm c)) ∧
      ((live (mergeLoop nm c)).length + nm ≤ (live c).length ∨ (live (mergeLoop nm c)).length ≤ 1) := by
  intro nm
  induction nm with
  | zero => intro c hc hg; simp [mergeLoop]; exact ⟨hc, hg⟩
  | succ n ih =>
    intro c hc hg
    rw [mergeLoop]
    split
    · rename_i hnone
      have hnil := minCand_none _ hnone
      refine ⟨hc, rfl, hg, Or.inr ?_⟩
      by_cases h2 : 2 ≤ (live c).length
      · exact absurd hnil (candidates_of_two_live c h2)
      · omega
    · rename_i w i j hsome
      have hmem := minCand_mem _ _ hsome
      obtain ⟨h1, h2, A, B, a, b, hl, hl'⟩ := merge_step c hc w i j hmem
      have hg' : GroupsOf d (live ((c.set i 0).set j w)) := by
        rw [hl']; apply groupsOf_merge; rw [← hl]; exact hg
      obtain ⟨r1, r2, r3, r4⟩ := ih _ h1 hg'
      refine ⟨r1, by rw [r2, h2], r3, ?_⟩
      rcases r4 with r4 | r4
      · left
        rw [hl'] at r4; rw [hl]
        simp at r4 ⊢; omega
      · right; exact r4

theorem pyDiv_zero (a : Int) : pyDiv a 0 = 0 := by simp [pyDiv]

theorem isum_replicate (n : Nat) (x : Int) : isum (List.replicate n x) = (n : Int) * x := by
  induction n with
  | zero => simp [isum]
  | succ m ih => rw [List.replicate_succ, isum, ih]; grind

theorem eq_replicate_of_all (w : Int) (rest : List Int) (h : rest.all (fun x => x = w) = true) :
    w :: rest = List.replicate (rest.length + 1) w := by
  rw [List.replicate_succ]
  congr 1
  rw [List.eq_replicate_iff]
  refine ⟨rfl, ?_⟩
  intro b hb
  rw [List.all_eq_true] at h
  simpa using h b hb

/-- the integer facts of the uniform branch (`w > 0`): `width = w·⌊n/k⌋`, `adjust = n mod k` -/
theorem uniform_facts (n k w : Int) (hk : 1 ≤ k) (hw : 0 < w) :
    w * pyDiv (pyDiv (n * w) k) w = w * (n / k) ∧
    pyDiv (n * w - k * (w * pyDiv (pyDiv (n * w) k) w)) w = n % k := by
  have hk' : 0 < k := by omega
  have hq : pyDiv (pyDiv (n * w) k) w = n / k := by
    rw [pyDiv_pos _ _ hk', pyDiv_pos _ _ hw, Int.ediv_ediv]
    simp [Int.not_lt.mpr (Int.le_of_lt hk')]
    exact Int.mul_ediv_mul_of_pos_left n k hw
  refine ⟨by rw [hq], ?_⟩
  rw [hq, pyDiv_pos _ _ hw]
  have e : n * w - k * (w * (n / k)) = w * (n - k * (n / k)) := by grind
  rw [e, Int.mul_ediv_cancel_left _ (Int.ne_of_gt hw), Int.emod_def]

theorem isum_live (l : List Int) : isum (live l) = isum l := by
  induction l with
  | nil => rfl
  | cons a l ih =>
    by_cases ha : a = 0
    · subst ha; simp [live, isum] at ih ⊢; exact ih
    · simp [live, ha, isum] at ih ⊢; rw [ih]

theorem live_of_pos (l : List Int) (h : ∀ c ∈ l, 0 < c) : live l = l := by
  simp only [live, List.filter_eq_self]
  intro a ha; have := h a ha; simp; omega

theorem live_length_le (l : List Int) : (live l).length ≤ l.length := List.length_filter_le _ _

theorem live_nonneg (l : List Int) (h : ∀ x ∈ l, 0 ≤ x) : ∀ x ∈ live l, 0 ≤ x := by
  intro x hx; simp [live] at hx; exact h x hx.1

/-- the three branches of `merge_to_number` -/
theorem mergeToNumber_cases (d : List Int) (k : Int) (hk : 1 ≤ k) :
    ((d.length : Int) ≤ k ∧ mergeToNumber d k = d) ∨
    (k < (d.length : Int) ∧ ∃ w, d = List.replicate d.length w ∧ d ≠ [] ∧
        mergeToNumber d k =
          List.replicate (pyDiv ((d.length : Int) * w - k * (w * pyDiv (pyDiv ((d.length : Int) * w) k) w)) w).toNat
              (w * pyDiv (pyDiv ((d.length : Int) * w) k) w + w) ++
          List.replicate (k - pyDiv ((d.length : Int) * w - k * (w * pyDiv (pyDiv ((d.length : Int) * w) k) w)) w).toNat
              (w * pyDiv (pyDiv ((d.length : Int) * w) k) w)) ∨
    (k < (d.length : Int) ∧ mergeToNumber d k = live (mergeLoop ((d.length : Int) - k).toNat d)) := by
  unfold mergeToNumber
  by_cases h1 : (d.length : Int) ≤ k
  · left; simp [h1]
  · right
    rw [if_neg h1]
    cases d with
    | nil => simp at h1; omega
    | cons w rest =>
      by_cases h2 : rest.all (fun x => x = w) = true
      · left
        refine ⟨by omega, w, ?_, by simp, ?_⟩
        · have := eq_replicate_of_all w rest h2
          simpa using this
        · simp only [h2, if_true]
      · right
        refine ⟨by omega, ?_⟩
        simp only [h2]
        rfl

theorem mem_of_replicate_ne_nil {d : List Int} {w : Int} (h : d = List.replicate d.length w) (hne : d ≠ []) : w ∈ d := by
  rw [h]; simp; exact hne

/-- uniform branch, closed form in terms of `n/k`, `n%k` (`w > 0`) or zeros (`w = 0`) -/
theorem uniform_result (n k w : Int) (hk : 1 ≤ k) (hw : 0 ≤ w) :
    ∃ a width : Int, 0 ≤ a ∧ a < k ∧ a * w = n * w - k * width ∧
      pyDiv (n * w - k * (w * pyDiv (pyDiv (n * w) k) w)) w = a ∧
      w * pyDiv (pyDiv (n * w) k) w = width ∧ (0 < w → width = w * (n / k) ∧ a = n % k) := by
  by_cases hw0 : w = 0
  · subst hw0
    refine ⟨0, 0, by omega, by omega, by simp, by simp [pyDiv_zero], by simp, by intro h; omega⟩
  · have hwp : 0 < w := by omega
    obtain ⟨e1, e2⟩ := uniform_facts n k w hk hwp
    have hk' : 0 < k := by omega
    refine ⟨n % k, w * (n / k), Int.emod_nonneg _ (by omega), Int.emod_lt_of_pos _ hk', ?_, e2, e1, fun _ => ⟨rfl, rfl⟩⟩
    have := Int.mul_ediv_add_emod n k
    grind

theorem mergeToNumber_sum (d : List Int) (k : Int) (hd : ∀ c ∈ d, 0 ≤ c) (hk : 1 ≤ k) :
    isum (mergeToNumber d k) = isum d := by
  rcases mergeToNumber_cases d k hk with ⟨_, h⟩ | ⟨_, w, hrep, hne, h⟩ | ⟨_, h⟩
  · rw [h]
  · have hw : 0 ≤ w := hd w (mem_of_replicate_ne_nil hrep hne)
    obtain ⟨a, width, ha0, hak, hmul, e1, e2, _⟩ := uniform_result (d.length : Int) k w hk hw
    rw [h, e1, e2, isum_append, isum_replicate, isum_replicate, Int.toNat_of_nonneg ha0,
      Int.toNat_of_nonneg (by omega : 0 ≤ k - a)]
    conv => rhs; rw [hrep, isum_replicate]
    grind
  · rw [h, isum_live]
    exact (mergeLoop_inv (live d) _ d hd (groupsOf_refl _)).2.1

theorem mergeToNumber_length (d : List Int) (k : Int) (hd : ∀ c ∈ d, 0 ≤ c) (hk : 1 ≤ k) :
    ((mergeToNumber d k).length : Int) ≤ k := by
  rcases mergeToNumber_cases d k hk with ⟨h0, h⟩ | ⟨_, w, hrep, hne, h⟩ | ⟨hlt, h⟩
  · rw [h]; exact h0
  · have hw : 0 ≤ w := hd w (mem_of_replicate_ne_nil hrep hne)
    obtain ⟨a, width, ha0, hak, hmul, e1, e2, _⟩ := uniform_result (d.length : Int) k w hk hw
    rw [h, e1, e2]
    simp only [List.length_append, List.length_replicate]
    omega
  · rw [h]
    have := (mergeLoop_inv (live d) ((d.length : Int) - k).toNat d hd (groupsOf_refl _)).2.2.2
    have h2 := live_length_le d
    rcases this with h3 | h3 <;> omega

theorem mergeToNumber_nonneg (d : List Int) (k : Int) (hd : ∀ c ∈ d, 0 ≤ c) (hk : 1 ≤ k) :
    ∀ x ∈ mergeToNumber d k, 0 ≤ x := by
  rcases mergeToNumber_cases d k hk with ⟨_, h⟩ | ⟨_, w, hrep, hne, h⟩ | ⟨_, h⟩
  · rw [h]; exact hd
  · have hw : 0 ≤ w := hd w (mem_of_replicate_ne_nil hrep hne)
    obtain ⟨a, width, ha0, hak, hmul, e1, e2, e3⟩ := uniform_result (d.length : Int) k w hk hw
    rw [h, e1, e2]
    have hwidth : 0 ≤ width := by
      by_cases hw0 : w = 0
      · subst hw0; rw [← e2]; simp
      · have := (e3 (by omega)).1
        rw [this]
        have hq : 0 ≤ (d.length : Int) / k := Int.ediv_nonneg (by omega) (by omega)
        exact Int.mul_nonneg hw hq
    intro x hx
    simp only [List.mem_append, List.mem_replicate] at hx
    rcases hx with ⟨_, rfl⟩ | ⟨_, rfl⟩ <;> omega
  · rw [h]
    exact live_nonneg _ (mergeLoop_inv (live d) _ d hd (groupsOf_refl _)).1

/-- `replicate n w` regrouped into `a` runs of `q+1` and `b` runs of `q` -/
theorem groupsOf_uniform (n a b q : Nat) (w : Int) (hq : 1 ≤ q) (hn : a * (q + 1) + b * q = n) :
    GroupsOf (List.replicate n w)
      (List.replicate a (((q : Int) + 1) * w) ++ List.replicate b ((q : Int) * w)) := by
  refine ⟨List.replicate a (List.replicate (q + 1) w) ++ List.replicate b (List.replicate q w), ?_, ?_, ?_⟩
  · intro g hg
    simp only [List.mem_append, List.mem_replicate] at hg
    rcases hg with ⟨_, rfl⟩ | ⟨_, rfl⟩
    · simp
    · simp; omega
  · rw [List.flatten_append, List.flatten_replicate_replicate, List.flatten_replicate_replicate,
      List.replicate_append_replicate, hn]
  · rw [List.map_append, List.map_replicate, List.map_replicate, isum_replicate, isum_replicate]
    simp

/-- for positive widths the result lists the sums of consecutive non-empty runs of the input
(a coarsening: blocks are only ever merged with their neighbours) -/
theorem mergeToNumber_groups (d : List Int) (k : Int) (hd : ∀ c ∈ d, 0 < c) (hk : 1 ≤ k) :
    GroupsOf d (mergeToNumber d k) := by
  have hd0 : ∀ c ∈ d, 0 ≤ c := fun c hc => Int.le_of_lt (hd c hc)
  rcases mergeToNumber_cases d k hk with ⟨_, h⟩ | ⟨hlt, w, hrep, hne, h⟩ | ⟨_, h⟩
  · rw [h]; exact groupsOf_refl d
  · have hw : 0 < w := hd w (mem_of_replicate_ne_nil hrep hne)
    obtain ⟨a, width, ha0, hak, hmul, e1, e2, e3⟩ := uniform_result (d.length : Int) k w hk (Int.le_of_lt hw)
    obtain ⟨ew, ea⟩ := e3 hw
    rw [h, e1, e2]
    have hk' : 0 < k := by omega
    have hq1 : 1 ≤ (d.length : Int) / k := Int.le_ediv_of_mul_le hk' (by omega)
    have hdiv := Int.mul_ediv_add_emod (d.length : Int) k
    have hq : (((d.length : Int) / k).toNat : Int) = (d.length : Int) / k := Int.toNat_of_nonneg (by omega)
    have hn : a.toNat * (((d.length : Int) / k).toNat + 1) + (k - a).toNat * ((d.length : Int) / k).toNat = d.length := by
      have h1 : (a.toNat : Int) = a := Int.toNat_of_nonneg ha0
      have h2 : ((k - a).toNat : Int) = k - a := Int.toNat_of_nonneg (by omega)
      apply Int.ofNat_inj.mp
      push_cast
      rw [h1, h2, hq, ea]
      grind
    have := groupsOf_uniform d.length a.toNat (k - a).toNat ((d.length : Int) / k).toNat w (by omega) hn
    rw [← hrep, hq] at this
    have e4 : ((d.length : Int) / k + 1) * w = width + w := by rw [ew]; grind
    have e5 : (d.length : Int) / k * w = width := by rw [ew]; grind
    rw [e4, e5] at this
    exact this
  · rw [h]
    exact (mergeLoop_inv d ((d.length : Int) - k).toNat d hd0
      (by rw [live_of_pos d hd]; exact groupsOf_refl d)).2.2.1

/-! ### the step relation: every related axis is a chunking of the same length -/

theorem stepAxis_valid {old new c : List Int} (ho : ∀ x ∈ old, 0 ≤ x) (hn : ∀ x ∈ new, 0 ≤ x)
    (hs : isum old = isum new) (h : StepAxis old new c) : (∀ x ∈ c, 0 ≤ x) ∧ isum c = isum new := by
  induction h with
  | old => exact ⟨ho, hs⟩
  | new => exact ⟨hn, rfl⟩
  | divide w hw =>
    refine ⟨?_, divideToWidth_sum new w hn hw⟩
    intro x hx
    have := divideToWidth_pos new w hn hw x hx
    omega
  | merge c k hk _ ih =>
    exact ⟨mergeToNumber_nonneg c k ih.1 hk, by rw [mergeToNumber_sum c k ih.1 hk]; exact ih.2⟩

theorem stepAxis_sum {old new c : List Int} (ho : ∀ x ∈ old, 0 ≤ x) (hn : ∀ x ∈ new, 0 ≤ x)
    (h : StepAxis old new c) (hs : isum old = isum new) : isum c = isum new :=
  (stepAxis_valid ho hn hs h).2

/-- all chunk widths are non-negative -/
def NonnegChunks (cs : List (List Int)) : Prop := ∀ ax ∈ cs, ∀ x ∈ ax, 0 ≤ x

theorem stepOK_valid : ∀ (old new s : List (List Int)), NonnegChunks old → NonnegChunks new →
    old.map isum = new.map isum → StepOK old new s → s.map isum = new.map isum ∧ NonnegChunks s := by
  intro old
  induction old with
  | nil =>
    intro new s _ _ _ h
    cases new <;> cases s <;> simp [StepOK] at h ⊢
    intro ax hax; simp at hax
  | cons o os ih =>
    intro new s ho hn hsum h
    cases new with
    | nil => cases s <;> simp [StepOK] at h
    | cons n ns =>
      cases s with
      | nil => simp [StepOK] at h
      | cons c cs =>
        simp only [StepOK] at h
        simp only [List.map_cons, List.cons.injEq] at hsum
        have h1 := stepAxis_valid (ho o (by simp)) (hn n (by simp)) hsum.1 h.1
        have h2 := ih ns cs (fun ax hax => ho ax (by simp [hax])) (fun ax hax => hn ax (by simp [hax])) hsum.2 h.2
        refine ⟨by simp [h1.2, h2.1], ?_⟩
        intro ax hax
        simp only [List.mem_cons] at hax
        rcases hax with rfl | hax
        · exact h1.1
        · exact h2.2 ax hax

/-- C15 "valid plan": for EVERY oracle value, every step of a related plan is a chunking of the
same shape (non-negative widths, same per-axis totals), the plan is non-empty and ends in `new`. -/
theorem planOK_valid (old new : List (List Int)) (plan : List (List (List Int)))
    (ho : NonnegChunks old) (hn : NonnegChunks new) (hs : old.map isum = new.map isum)
    (h : PlanOK old new plan) :
    plan ≠ [] ∧ plan.getLast? = some new ∧ ∀ s ∈ plan, s.map isum = new.map isum ∧ NonnegChunks s := by
  refine ⟨?_, h.2, fun s hs' => stepOK_valid old new s ho hn hs (h.1 s hs')⟩
  intro e; rw [e] at h; simp [PlanOK] at h

/-! ### soundness of the decidable bounded search -/

theorem mem_dedup (l : List (List Int)) (x : List Int) : x ∈ dedup l → x ∈ l := by
  unfold dedup
  have : ∀ (l acc : List (List Int)), x ∈ l.foldl (fun acc x => if acc.contains x then acc else acc ++ [x]) acc →
      x ∈ acc ∨ x ∈ l := by
    intro l
    induction l with
    | nil => intro acc h; simp at h; exact Or.inl h
    | cons a l ih =>
      intro acc h
      simp only [List.foldl_cons] at h
      rcases ih _ h with h1 | h1
      · split at h1
        · exact Or.inl h1
        · simp at h1; rcases h1 with h1 | h1
          · exact Or.inl h1
          · right; simp [h1]
      · right; simp [h1]
  intro h
  rcases this l [] h with h | h
  · simp at h
  · exact h

theorem reachBase_sound (old new c : List Int) (h : c ∈ reachBase old new) : StepAxis old new c := by
  have := mem_dedup _ _ h
  simp only [List.mem_cons, List.mem_map, List.mem_range] at this
  rcases this with rfl | rfl | ⟨i, _, rfl⟩
  · exact .old
  · exact .new
  · exact .divide _ (by omega)

theorem reachNext_sound (old new : List Int) (cs : List (List Int)) (hcs : ∀ c ∈ cs, StepAxis old new c)
    (c : List Int) (h : c ∈ reachNext cs) : StepAxis old new c := by
  have := mem_dedup _ _ h
  simp only [List.mem_append, List.mem_flatMap, List.mem_map, List.mem_range] at this
  rcases this with h1 | ⟨c0, hc0, i, _, rfl⟩
  · exact hcs c h1
  · exact .merge c0 _ (by omega) (hcs c0 hc0)

theorem reachSet_sound (old new : List Int) : ∀ (d : Nat) (c : List Int), c ∈ reachSet old new d → StepAxis old new c := by
  intro d
  induction d with
  | zero => intro c h; exact reachBase_sound old new c h
  | succ n ih => intro c h; exact reachNext_sound old new _ ih c h

/-- what the driver's `rp.reach` answers is a proof of membership in the step relation -/
theorem reachDepth_sound (old new c : List Int) (maxDepth k : Nat) (h : reachDepth old new c maxDepth = some k) :
    StepAxis old new c := by
  unfold reachDepth at h
  have := List.find?_some h
  simp only [List.contains_iff_mem] at this
  exact reachSet_sound old new k c (by simpa using this)

/-! ### `_bound_degree`: budget and shape of the result -/

theorem bdLoop_budget (old new : List (List Int)) (sb : Int) :
    ∀ (rows prev : List (List Int)) (steps : List (List (List Int))),
      ∀ s ∈ bdLoop old new sb rows prev steps, s ∈ steps ∨ largestBlock s ≤ sb := by
  intro rows
  induction rows with
  | nil => intro prev steps s hs; simp [bdLoop] at hs; exact Or.inl hs
  | cons row rows ih =>
    intro prev steps s hs
    rw [bdLoop] at hs
    split at hs
    · rename_i hc
      rcases ih _ _ s hs with h | h
      · simp only [List.mem_append, List.mem_singleton] at h
        rcases h with h | h
        · exact Or.inl h
        · right; rw [h]; exact hc.2
      · exact Or.inr h
    · exact ih _ _ s hs

/-- C15 budget for the degree pass (tree after 28665a6), for EVERY oracle value: every chunking
returned by `_bound_degree(old, new, ·)` has its largest block within the larger of its two
endpoints. -/
theorem boundDegree_budget (old new : List (List Int)) (dl : Int) (o : BDOracle) :
    ∀ s ∈ boundDegree old new dl o, largestBlock s ≤ max (largestBlock old) (largestBlock new) := by
  intro s hs
  unfold boundDegree at hs
  simp only at hs
  split at hs
  · simp at hs; rw [hs]; omega
  · have key : ∀ s ∈ bdLoop old new (max (largestBlock old) (largestBlock new))
        ((o.counts ++ List.replicate (o.nsteps - 1 - o.counts.length) []).take (o.nsteps - 1)) old [],
        largestBlock s ≤ max (largestBlock old) (largestBlock new) := by
      intro s hs
      rcases bdLoop_budget old new _ _ _ _ s hs with h | h
      · simp at h
      · exact h
    split at hs
    · simp only [List.mem_append, List.mem_singleton] at hs
      rcases hs with hs | hs
      · exact key s hs
      · rw [hs]; omega
    · exact key s hs

theorem boundDegree_last (old new : List (List Int)) (dl : Int) (o : BDOracle) :
    (boundDegree old new dl o).getLast? = some new := by
  unfold boundDegree
  simp only
  split
  · simp
  · split
    · simp
    · rename_i h; simpa using h

/-! ### C14: the crosswalk read on data -/

section Data
variable {α : Type}

/-- the elements of `xs` at the listed (non-negative) positions -/
def gather (xs : List α) (ps : List Int) : List α := ps.filterMap (fun i => xs[i.toNat]?)

theorem gather_append (xs : List α) (a b : List Int) : gather xs (a ++ b) = gather xs a ++ gather xs b := by
  simp [gather, List.filterMap_append]

theorem flatMap_congr' {β γ} (l : List β) (f g : β → List γ) (h : ∀ a ∈ l, f a = g a) :
    l.flatMap f = l.flatMap g := by
  induction l with
  | nil => rfl
  | cons a l ih =>
    simp only [List.flatMap_cons]
    rw [h a (by simp), ih (fun x hx => h x (by simp [hx]))]

theorem gather_flatMap {β} (xs : List α) (l : List β) (f : β → List Int) :
    gather xs (l.flatMap f) = l.flatMap (fun p => gather xs (f p)) := by
  induction l with
  | nil => rfl
  | cons a l ih => simp [List.flatMap_cons, gather_append, ih]

theorem filterMap_range_shift (xs : List α) (m : Nat) : ∀ n, m + n ≤ xs.length →
    (List.range n).filterMap (fun i => xs[m + i]?) = (xs.drop m).take n := by
  intro n
  induction n with
  | zero => intro _; simp
  | succ k ih =>
    intro h
    rw [List.range_succ, List.filterMap_append, ih (by omega), List.take_add_one]
    congr 1
    have h1 : m + k < xs.length := by omega
    simp [List.getElem?_drop, List.getElem?_eq_getElem h1]

theorem gather_range (xs : List α) (a b : Int) (ha : 0 ≤ a) (hab : a ≤ b) (hb : b ≤ xs.length) :
    gather xs (rangeList a b 1) = (xs.drop a.toNat).take (b - a).toNat := by
  rw [rangeList_one, gather, List.filterMap_map]
  have : (fun i => xs[i.toNat]?) ∘ (fun i : Nat => a + (i : Int)) = fun i : Nat => xs[a.toNat + i]? := by
    funext i
    simp only [Function.comp]
    congr 1; omega
  rw [this]
  exact filterMap_range_shift xs a.toNat (b - a).toNat (by omega)

theorem blocks_getD (c : List Int) (xs : List α) (i : Nat) (h : i < c.length) :
    (blocks c xs).getD i [] = blockOf c xs i := by
  simp [blocks, List.getD_eq_getElem?_getD, h]

/-- a well-formed piece of old block `idx` is the data at its global positions -/
theorem pieceData_eq (old : List Int) (xs : List α) (ho : ∀ c ∈ old, 0 ≤ c)
    (hlen : (xs.length : Int) = isum old) (p : Piece) (hp : PieceOK old p) :
    pieceData (blocks old xs) p =
      gather xs (rangeList (oldStart old p.idx.toNat + p.s) (oldStart old p.idx.toNat + p.e) 1) := by
  obtain ⟨h0, h1, hs, hse, hec⟩ := hp
  have hidx : p.idx.toNat < old.length := by omega
  have hS := oldStart_nonneg old ho p.idx.toNat
  have hS1 := oldStart_succ old p.idx.toNat hidx
  have hS2 := oldStart_le old ho (p.idx.toNat + 1)
  rw [gather_range xs _ _ (by omega) (by omega) (by omega)]
  unfold pieceData
  rw [blocks_getD old xs _ hidx]
  unfold blockOf
  rw [List.drop_take, List.drop_drop, List.take_take]
  have e1 : (oldStart old p.idx.toNat + p.s).toNat = (oldStart old p.idx.toNat).toNat + p.s.toNat := by omega
  have e2 : (oldStart old p.idx.toNat + p.e - (oldStart old p.idx.toNat + p.s)).toNat = (p.e - p.s).toNat := by
    congr 1; omega
  rw [e1, e2]
  congr 1
  omega

/-- C14 values, one axis, one stage: assembling new block `j` from the crosswalk pieces of the
old blocks gives exactly the elements at positions `[newStart j, newEnd j)`. -/
theorem rechunk_values (old new : List Int) (xs : List α)
    (ho : ∀ c ∈ old, 0 ≤ c) (hn : ∀ c ∈ new, 0 ≤ c) (hsum : isum old = isum new)
    (hone : old ≠ []) (hnne : new ≠ []) (hlen : (xs.length : Int) = isum old)
    (j : Nat) (hj : j < new.length) :
    assembleBlock old new (blocks old xs) j = blockOf new xs j := by
  obtain ⟨_, hcw⟩ := crosswalk_exact old new ho hn hsum hone hnne
  obtain ⟨hok, _, hpos⟩ := hcw j hj
  unfold assembleBlock
  have e1 : ((oldToNew1d old new).getD j []).flatMap (pieceData (blocks old xs)) =
      ((oldToNew1d old new).getD j []).flatMap (fun p => gather xs
        (rangeList (oldStart old p.idx.toNat + p.s) (oldStart old p.idx.toNat + p.e) 1)) := by
    apply flatMap_congr'
    intro p hp
    exact pieceData_eq old xs ho hlen p (hok p hp)
  rw [e1, ← gather_flatMap]
  have e2 : ((oldToNew1d old new).getD j []).flatMap (fun p =>
      rangeList (oldStart old p.idx.toNat + p.s) (oldStart old p.idx.toNat + p.e) 1) =
      piecesPositions old ((oldToNew1d old new).getD j []) := rfl
  rw [e2, hpos, newBlockPositions_eq]
  have hS := oldStart_nonneg new hn j
  have hS1 := oldStart_succ new j hj
  have hS2 := oldStart_le new hn (j + 1)
  have hc := getD_nonneg new hn j
  rw [gather_range xs _ _ hS (by omega) (by omega)]
  unfold blockOf
  congr 2
  omega

theorem rechunkStep_blocks (old new : List Int) (xs : List α)
    (ho : ∀ c ∈ old, 0 ≤ c) (hn : ∀ c ∈ new, 0 ≤ c) (hsum : isum old = isum new)
    (hone : old ≠ []) (hnne : new ≠ []) (hlen : (xs.length : Int) = isum old) :
    rechunkStep old new (blocks old xs) = blocks new xs := by
  unfold rechunkStep blocks
  apply List.map_congr_left
  intro j hj
  exact rechunk_values old new xs ho hn hsum hone hnne hlen j (by simpa using hj)

/-- a chunking of an axis of length `n` -/
def Chunking (n : Int) (c : List Int) : Prop := c ≠ [] ∧ (∀ x ∈ c, 0 ≤ x) ∧ isum c = n

/-- C14 values over a plan: pushing the blocks through ANY chain of chunkings of the same
axis gives the blocks of the last chunking — same data. -/
theorem rechunkChain_blocks (xs : List α) : ∀ (chain : List (List Int)) (old : List Int),
    Chunking xs.length old → (∀ c ∈ chain, Chunking xs.length c) →
    rechunkChain old chain (blocks old xs) = blocks ((old :: chain).getLast (by simp)) xs := by
  intro chain
  induction chain with
  | nil => intro old _ _; simp [rechunkChain]
  | cons c cs ih =>
    intro old ho hc
    have hc1 := hc c (by simp)
    rw [rechunkChain, rechunkStep_blocks old c xs ho.2.1 hc1.2.1 (by rw [ho.2.2, hc1.2.2]) ho.1 hc1.1 ho.2.2.symm]
    rw [ih c hc1 (fun x hx => hc x (by simp [hx]))]
    simp [List.getLast_cons]

/-- the blocks of any chunking concatenate back to the data (so equal blocks ⇒ equal values) -/
theorem blocks_flatten (c : List Int) (xs : List α) (h : Chunking xs.length c) : (blocks c xs).flatten = xs := by
  obtain ⟨_, hc, hsum⟩ := h
  have key : ∀ k, k ≤ c.length → ((List.range k).map (blockOf c xs)).flatten = xs.take (oldStart c k).toNat := by
    intro k
    induction k with
    | zero => intro _; simp [oldStart_zero]
    | succ m ih =>
      intro hm
      rw [List.range_succ, List.map_append, List.flatten_append, ih (by omega)]
      have h1 := oldStart_succ c m (by omega)
      have h2 := oldStart_nonneg c hc m
      have h3 := getD_nonneg c hc m
      simp only [List.map_cons, List.map_nil, List.flatten_cons, List.flatten_nil, List.append_nil, blockOf]
      rw [h1, Int.toNat_add h2 h3, List.take_add]
  unfold blocks
  rw [key c.length (Nat.le_refl _), oldStart_length, hsum]
  simp

end Data

/-! ### `find_merge_rechunk`: the block budget -/

theorem imax_nonneg (l : List Int) : 0 ≤ imax l := by
  induction l with
  | nil => simp [imax]
  | cons a l ih => simp only [imax]; omega

theorem iprod_append (a b : List Int) : iprod (a ++ b) = iprod a * iprod b := by
  induction a with
  | nil => simp [iprod]
  | cons x a ih => simp [iprod, ih, Int.mul_assoc]

theorem iprod_nonneg (l : List Int) (h : ∀ x ∈ l, 0 ≤ x) : 0 ≤ iprod l := by
  induction l with
  | nil => simp [iprod]
  | cons a l ih =>
    simp only [iprod]
    exact Int.mul_nonneg (h a (by simp)) (ih (fun x hx => h x (by simp [hx])))

theorem split_at_gen {β} (l : List β) (i : Nat) (h : i < l.length) :
    l = l.take i ++ l[i] :: l.drop (i + 1) := by
  conv => lhs; rw [← List.take_append_drop i l]
  rw [List.drop_eq_getElem_cons h]

theorem getD_eq_getElem_gen {β} (l : List β) (i : Nat) (d : β) (h : i < l.length) : l.getD i d = l[i] := by
  rw [List.getD_eq_getElem?_getD, List.getElem?_eq_getElem h]; rfl

/-- the largest block factors through one axis -/
theorem largestBlock_set (l : List (List Int)) (i : Nat) (h : i < l.length) :
    ∃ rest, 0 ≤ rest ∧ largestBlock l = imax (l.getD i []) * rest ∧
      ∀ x, largestBlock (l.set i x) = imax x * rest := by
  refine ⟨iprod ((l.take i).map imax) * iprod ((l.drop (i + 1)).map imax), ?_, ?_, ?_⟩
  · apply Int.mul_nonneg <;> apply iprod_nonneg <;> intro x hx <;>
      rw [List.mem_map] at hx <;> obtain ⟨a, _, rfl⟩ := hx <;> exact imax_nonneg a
  · have := split_at_gen l i h
    rw [getD_eq_getElem_gen l i [] h]
    conv => lhs; rw [this]
    simp only [largestBlock, List.map_append, List.map_cons, iprod_append, iprod]
    grind
  · intro x
    rw [List.set_eq_take_append_cons_drop, if_pos h]
    simp only [largestBlock, List.map_append, List.map_cons, iprod_append, iprod]
    grind

theorem budget_arith (b : Budget) (hit : 0 < b.itemsize) (w olw rest x : Int) (hx : x ≤ w) (hrest : 0 ≤ rest)
    (holw : 0 < olw) (hcl : clOK b w olw (olw * rest) = true) : rest * x ≤ b.bint := by
  unfold clOK at hcl
  simp only [Bool.and_eq_true, decide_eq_true_eq] at hcl
  obtain ⟨_, hcl⟩ := hcl
  have h1 : rest * x ≤ rest * w := Int.mul_le_mul_of_nonneg_left hx hrest
  have e : w * (olw * rest) * b.itemsize = (rest * w * b.itemsize) * olw := by grind
  rw [e] at hcl
  have h2 : rest * w * b.itemsize ≤ max (max b.limBytes (b.lo * b.itemsize)) (b.ln * b.itemsize) :=
    Int.le_of_mul_le_mul_right hcl holw
  unfold Budget.bint
  rw [pyDiv_pos _ _ hit]
  have c1 : rest * w * b.itemsize ≤ b.limBytes → rest * w ≤ b.limBytes / b.itemsize :=
    fun h => Int.le_ediv_of_mul_le hit h
  have c2 : rest * w * b.itemsize ≤ b.lo * b.itemsize → rest * w ≤ b.lo :=
    fun h => Int.le_of_mul_le_mul_right h hit
  have c3 : rest * w * b.itemsize ≤ b.ln * b.itemsize → rest * w ≤ b.ln :=
    fun h => Int.le_of_mul_le_mul_right h hit
  by_cases k1 : rest * w * b.itemsize ≤ b.limBytes
  · have := c1 k1; omega
  · by_cases k2 : rest * w * b.itemsize ≤ b.lo * b.itemsize
    · have := c2 k2; omega
    · have := c3 (by omega); omega

/-- every axis has at least one block and all widths are positive -/
def PosChunks (cs : List (List Int)) : Prop := ∀ ax ∈ cs, ax ≠ [] ∧ ∀ x ∈ ax, 1 ≤ x

theorem imax_pos (ax : List Int) (h1 : ax ≠ []) (h2 : ∀ x ∈ ax, 1 ≤ x) : 1 ≤ imax ax := by
  cases ax with
  | nil => exact absurd rfl h1
  | cons a l => have := h2 a (by simp); have := imax_nonneg l; simp only [imax]; omega

theorem isum_pos (ax : List Int) (h1 : ax ≠ []) (h2 : ∀ x ∈ ax, 1 ≤ x) : 1 ≤ isum ax := by
  cases ax with
  | nil => exact absurd rfl h1
  | cons a l =>
    have := h2 a (by simp)
    have := isum_nonneg l (fun x hx => by have := h2 x (by simp [hx]); omega)
    simp only [isum]; omega

theorem getD_mem_gen {β} (l : List β) (i : Nat) (d : β) (h : i < l.length) : l.getD i d ∈ l := by
  rw [getD_eq_getElem_gen l i d h]; exact List.getElem_mem h

theorem posChunks_set (cs : List (List Int)) (i : Nat) (x : List Int) (h : PosChunks cs)
    (hx : x ≠ [] ∧ ∀ y ∈ x, 1 ≤ y) : PosChunks (cs.set i x) := by
  intro ax hax
  rcases List.mem_or_eq_of_mem_set hax with h1 | h1
  · exact h ax h1
  · rw [h1]; exact hx

theorem getD_set_ne {β} (l : List β) (i j : Nat) (x d : β) (h : i ≠ j) : (l.set i x).getD j d = l.getD j d := by
  simp [List.getD_eq_getElem?_getD, List.getElem?_set_ne h]

theorem divideToWidth_posAxis (nc : List Int) (w : Int) (h1 : nc ≠ []) (h2 : ∀ x ∈ nc, 1 ≤ x) (hw : 1 ≤ w) :
    divideToWidth nc w ≠ [] ∧ ∀ y ∈ divideToWidth nc w, 1 ≤ y := by
  have hnn : ∀ x ∈ nc, 0 ≤ x := fun x hx => by have := h2 x hx; omega
  refine ⟨?_, divideToWidth_pos nc w hnn hw⟩
  intro e
  have := divideToWidth_sum nc w hnn hw
  rw [e] at this
  have := isum_pos nc h1 h2
  simp [isum] at *
  omega

structure FMInv (cur : List (List Int)) (b : Budget) (st : FMState) (ds : List Nat) : Prop where
  len : st.chunks.length = cur.length
  lbs : st.lbs = largestBlock st.chunks
  bud : st.lbs ≤ b.bint
  same : ∀ d ∈ ds, st.chunks.getD d [] = cur.getD d []
  pos : PosChunks st.chunks

theorem findMergeStep_inv (cur new : List (List Int)) (b : Budget) (cl : List Int) (st st' : FMState)
    (rel rel' : Bool) (dim : Nat) (ds : List Nat) (hit : 0 < b.itemsize) (hpc : PosChunks cur) (hpn : PosChunks new)
    (hlen : cur.length = new.length) (hdim : dim < cur.length) (hnd : dim ∉ ds)
    (inv : FMInv cur b st (dim :: ds))
    (h : findMergeStep cur new b cl (some (st, rel)) dim = some (st', rel')) (hrel' : rel' = true) :
    FMInv cur b st' ds ∧ rel = true := by
  have hoc := hpc _ (getD_mem_gen cur dim [] hdim)
  have hnc := hpn _ (getD_mem_gen new dim [] (by omega))
  have holw := imax_pos _ hoc.1 hoc.2
  obtain ⟨rest, hrest, hlb, hset⟩ := largestBlock_set st.chunks dim (by rw [inv.len]; exact hdim)
  rw [inv.same dim (by simp)] at hlb
  have hlbs : st.lbs = imax (cur.getD dim []) * rest := by rw [inv.lbs, hlb]
  have hsame' : ∀ x, ∀ d ∈ ds, (st.chunks.set dim x).getD d [] = cur.getD d [] := by
    intro x d hd
    have hne : dim ≠ d := by intro e; rw [e] at hnd; exact hnd hd
    rw [getD_set_ne _ _ _ _ _ hne]
    exact inv.same d (by simp [hd])
  unfold findMergeStep at h
  simp only at h
  have hne0 : ¬ imax (cur.getD dim []) = 0 := by omega
  rw [if_neg hne0] at h
  have hdivl : ∀ y, pyDiv (st.lbs * y) (imax (cur.getD dim [])) = rest * y := by
    intro y
    rw [pyDiv_pos _ _ (by omega), hlbs]
    have : imax (cur.getD dim []) * rest * y = imax (cur.getD dim []) * (rest * y) := by grind
    rw [this, Int.mul_ediv_cancel_left _ hne0]
  rw [hdivl] at h
  split at h
  · rename_i hle
    simp only [Option.some.injEq, Prod.mk.injEq] at h
    obtain ⟨hst, hr⟩ := h
    subst hst
    refine ⟨⟨by simp [inv.len], ?_, hle, hsame' _, posChunks_set _ _ _ inv.pos hnc⟩, by rw [hr]; exact hrel'⟩
    simp only
    rw [hset]; grind
  · split at h
    · simp at h
    · rename_i hw
      have hw1 : 1 ≤ cl.getD dim 0 := by omega
      have hnn : ∀ x ∈ new.getD dim [], 0 ≤ x := fun x hx => by have := hnc.2 x hx; omega
      split at h
      · simp only [Option.some.injEq, Prod.mk.injEq] at h
        obtain ⟨hst, hr⟩ := h
        subst hst
        rw [hrel'] at hr
        simp only [Bool.and_eq_true] at hr
        have hmax := imax_divideToWidth_le (new.getD dim []) (cl.getD dim 0) hnn hw1
        refine ⟨⟨by simp [inv.len], ?_, ?_, hsame' _, posChunks_set _ _ _ inv.pos
          (divideToWidth_posAxis _ _ hnc.1 hnc.2 hw1)⟩, hr.1⟩
        · simp only
          rw [hdivl, hset]; grind
        · simp only
          rw [hdivl]
          have hcl := hr.2
          rw [hlbs] at hcl
          exact budget_arith b hit _ _ rest _ hmax hrest (by omega) hcl
      · simp only [Option.some.injEq, Prod.mk.injEq] at h
        obtain ⟨hst, hr⟩ := h
        subst hst
        rw [hrel'] at hr
        simp only [Bool.and_eq_true] at hr
        exact ⟨⟨inv.len, inv.lbs, inv.bud, fun d hd => inv.same d (by simp [hd]), inv.pos⟩, hr.1⟩

theorem findMergeStep_rel (cur new : List (List Int)) (b : Budget) (cl : List Int) (st st' : FMState)
    (rel rel' : Bool) (dim : Nat)
    (h : findMergeStep cur new b cl (some (st, rel)) dim = some (st', rel')) (hrel' : rel' = true) : rel = true := by
  unfold findMergeStep at h
  simp only at h
  repeat' split at h
  all_goals (try (simp only [Option.some.injEq, Prod.mk.injEq, reduceCtorEq] at h))
  all_goals
    obtain ⟨_, h2⟩ := h
    rw [hrel'] at h2
    first
      | exact h2
      | (simp only [Bool.and_eq_true] at h2; exact h2.1)

theorem foldl_findMergeStep_none (cur new : List (List Int)) (b : Budget) (cl : List Int) (ds : List Nat) :
    ds.foldl (findMergeStep cur new b cl) none = none := by
  induction ds with
  | nil => rfl
  | cons d ds ih => simp only [List.foldl_cons]; exact ih

theorem foldl_findMergeStep_rel (cur new : List (List Int)) (b : Budget) (cl : List Int) :
    ∀ (ds : List Nat) (st st' : FMState) (rel : Bool),
      ds.foldl (findMergeStep cur new b cl) (some (st, rel)) = some (st', true) → rel = true := by
  intro ds
  induction ds with
  | nil => intro st st' rel h; simp at h; exact h.2
  | cons d ds ih =>
    intro st st' rel h
    simp only [List.foldl_cons] at h
    cases hs : findMergeStep cur new b cl (some (st, rel)) d with
    | none => rw [hs, foldl_findMergeStep_none] at h; simp at h
    | some p =>
      obtain ⟨st1, rel1⟩ := p
      rw [hs] at h
      exact findMergeStep_rel cur new b cl st st1 rel rel1 d hs (ih st1 st' rel1 h)

theorem findMerge_fold (cur new : List (List Int)) (b : Budget) (cl : List Int) (hit : 0 < b.itemsize)
    (hpc : PosChunks cur) (hpn : PosChunks new) (hlen : cur.length = new.length) :
    ∀ (ds : List Nat) (st st' : FMState) (rel : Bool), ds.Nodup → (∀ d ∈ ds, d < cur.length) →
      FMInv cur b st ds →
      ds.foldl (findMergeStep cur new b cl) (some (st, rel)) = some (st', true) →
      FMInv cur b st' [] ∧ rel = true := by
  intro ds
  induction ds with
  | nil => intro st st' rel _ _ inv h; simp at h; rw [← h.1]; exact ⟨inv, h.2⟩
  | cons d ds ih =>
    intro st st' rel hnd hlt inv h
    simp only [List.foldl_cons] at h
    cases hs : findMergeStep cur new b cl (some (st, rel)) d with
    | none => rw [hs, foldl_findMergeStep_none] at h; simp at h
    | some p =>
      obtain ⟨st1, rel1⟩ := p
      rw [hs] at h
      have hrel1 := foldl_findMergeStep_rel cur new b cl ds st1 st' rel1 h
      rw [List.nodup_cons] at hnd
      obtain ⟨inv1, hrel⟩ := findMergeStep_inv cur new b cl st st1 rel rel1 d ds hit hpc hpn hlen
        (hlt d (by simp)) hnd.1 inv hs hrel1
      exact ⟨(ih st1 st' rel1 hnd.2 (fun x hx => hlt x (by simp [hx])) inv1 h).1, hrel⟩

/-- C15 budget for `find_merge_rechunk`: for EVERY oracle value (candidate order, chunk limits)
that satisfies the checked relations (`rel = true`: the order is a repetition-free list of merge
candidates, `chunk_limit ≥ 1`, `chunk_limit·largest_block·itemsize ≤ max(limit, lo·itemsize,
ln·itemsize)·largest_width`), the returned chunking has its largest block within the budget
`⌊max(limit/itemsize, lo, ln)⌋`, positive widths, and the running `largest_block_size` is exact
(the two `assert`s at the end of the Python function hold). -/
theorem findMerge_budget (cur new : List (List Int)) (b : Budget) (o : PassOracle) (st : FMState)
    (hit : 0 < b.itemsize) (hpc : PosChunks cur) (hpn : PosChunks new) (hlen : cur.length = new.length)
    (hb : largestBlock cur ≤ b.bint) (h : findMerge cur new b o = some (st, true)) :
    largestBlock st.chunks ≤ b.bint ∧ st.lbs = largestBlock st.chunks ∧ PosChunks st.chunks ∧
      st.chunks.length = cur.length := by
  unfold findMerge at h
  have hrel := foldl_findMergeStep_rel cur new b o.chunkLimit o.order _ st _ h
  unfold orderOK at hrel
  simp only [Bool.and_eq_true, decide_eq_true_eq, List.all_eq_true] at hrel
  obtain ⟨⟨hnodup, hsub⟩, _⟩ := hrel
  have hlt : ∀ d ∈ o.order, d < cur.length := by
    intro d hd
    have := hsub d hd
    simp only [List.contains_iff_mem, mergeCandidateDims, List.mem_filter, List.mem_range] at this
    exact this.1
  have inv0 : FMInv cur b { chunks := cur, lbs := largestBlock cur, hit := false } o.order :=
    ⟨rfl, rfl, hb, fun _ _ => rfl, hpc⟩
  obtain ⟨inv, _⟩ := findMerge_fold cur new b o.chunkLimit hit hpc hpn hlen o.order _ st _ hnodup hlt inv0 h
  exact ⟨by rw [← inv.lbs]; exact inv.bud, inv.lbs, inv.pos, inv.len⟩

/-! ### `find_split_rechunk` -/

theorem mergeToNumber_posAxis (nc : List Int) (k : Int) (h1 : nc ≠ []) (h2 : ∀ x ∈ nc, 1 ≤ x) (hk : 1 ≤ k) :
    mergeToNumber nc k ≠ [] ∧ ∀ y ∈ mergeToNumber nc k, 1 ≤ y := by
  have hpos : ∀ c ∈ nc, 0 < c := fun c hc => by have := h2 c hc; omega
  have hnn : ∀ c ∈ nc, 0 ≤ c := fun c hc => by have := h2 c hc; omega
  refine ⟨?_, ?_⟩
  · intro e
    have := mergeToNumber_sum nc k hnn hk
    rw [e] at this
    have := isum_pos nc h1 h2
    simp [isum] at *
    omega
  · obtain ⟨gs, hne, hfl, hmap⟩ := mergeToNumber_groups nc k hpos hk
    intro y hy
    rw [← hmap, List.mem_map] at hy
    obtain ⟨g, hg, rfl⟩ := hy
    apply isum_pos g (hne g hg)
    intro x hx
    apply h2
    rw [← hfl, List.mem_flatten]
    exact ⟨g, hg, hx⟩

theorem findSplitLoop_props (cur new : List (List Int)) (gsl : Int) (mn : List Int) (hpn : PosChunks new)
    (hlen : cur.length = new.length) :
    ∀ (ds : List Nat) (chunks c : List (List Int)), ds.Nodup → (∀ d ∈ ds, d < cur.length) →
      PosChunks chunks → chunks.length = cur.length → (∀ d ∈ ds, chunks.getD d [] = cur.getD d []) →
      findSplitLoop cur new gsl mn ds chunks = some c →
      largestBlock c ≤ largestBlock chunks ∧ PosChunks c ∧ c.length = cur.length := by
  intro ds
  induction ds with
  | nil =>
    intro chunks c _ _ hp hl _ h
    simp [findSplitLoop] at h; subst h; exact ⟨Int.le_refl _, hp, hl⟩
  | cons dim ds ih =>
    intro chunks c hnd hlt hp hl hsame h
    rw [List.nodup_cons] at hnd
    have hrest : ∀ d ∈ ds, d < cur.length := fun d hd => hlt d (by simp [hd])
    have hsame' : ∀ d ∈ ds, chunks.getD d [] = cur.getD d [] := fun d hd => hsame d (by simp [hd])
    rw [findSplitLoop] at h
    simp only at h
    split at h
    · simp at h; subst h; exact ⟨Int.le_refl _, hp, hl⟩
    · split at h
      · exact ih chunks c hnd.2 hrest hp hl hsame' h
      · split at h
        · simp at h
        · rename_i hk
          split at h
          · rename_i hcond
            have hdim := hlt dim (by simp)
            have hnc := hpn _ (getD_mem_gen new dim [] (by omega))
            have hc := mergeToNumber_posAxis _ (mn.getD dim 0) hnc.1 hnc.2 (by omega)
            obtain ⟨rest, hrest0, hlb, hset⟩ := largestBlock_set chunks dim (by omega)
            rw [hsame dim (by simp)] at hlb
            have hstep : largestBlock (chunks.set dim (mergeToNumber (new.getD dim []) (mn.getD dim 0))) ≤ largestBlock chunks := by
              rw [hset, hlb]
              exact Int.mul_le_mul_of_nonneg_right hcond.2 hrest0
            have := ih (chunks.set dim (mergeToNumber (new.getD dim []) (mn.getD dim 0))) c hnd.2 hrest
              (posChunks_set _ _ _ hp hc) (by simp [hl])
              (fun d hd => by
                have hne : dim ≠ d := by intro e; rw [e] at hnd; exact hnd.1 hd
                rw [getD_set_ne _ _ _ _ _ hne]; exact hsame' d hd) h
            exact ⟨by omega, this.2⟩
          · exact ih chunks c hnd.2 hrest hp hl hsame' h

/-- `find_split_rechunk` never enlarges the largest block and keeps widths positive -/
theorem findSplit_props (cur new : List (List Int)) (gsl : Int) (o : PassOracle) (c : List (List Int))
    (hpc : PosChunks cur) (hpn : PosChunks new) (hlen : cur.length = new.length)
    (h : findSplit cur new gsl o = some c) :
    largestBlock c ≤ largestBlock cur ∧ PosChunks c ∧ c.length = cur.length := by
  unfold findSplit at h
  exact findSplitLoop_props cur new gsl o.maxNumber hpn hlen (List.range cur.length) cur c
    List.nodup_range (fun d hd => by simpa using hd) hpc rfl (fun _ _ => rfl) h

/-! ### the `plan_rechunk` loop and the degree pass -/

theorem planLoop_rel (new : List (List Int)) (b : Budget) (threshold gst : Int) :
    ∀ (fuel : Nat) (os : List PassOracle) (current : List (List Int)) (first : Bool)
      (steps : List (List (List Int))) (rel : Bool) (res : List (List (List Int))),
      planLoop new b threshold gst fuel os current first steps rel = some (res, true) → rel = true := by
  intro fuel
  induction fuel with
  | zero => intro os current first steps rel res h; simp [planLoop] at h
  | succ f ih =>
    intro os current first steps rel res h
    unfold planLoop at h
    simp only at h
    split at h
    · simp only [Option.some.injEq, Prod.mk.injEq] at h; exact h.2
    · split at h
      · simp at h
      · split at h
        · simp at h
        · split at h
          · simp at h
          · rename_i st r hfm
            split at h
            · simp only [Option.some.injEq, Prod.mk.injEq, Bool.and_eq_true] at h; exact h.2.1
            · split at h
              · simp only [Option.some.injEq, Prod.mk.injEq, Bool.and_eq_true] at h; exact h.2.1
              · have := ih _ _ _ _ _ _ h
                simp only [Bool.and_eq_true] at this; exact this.1

theorem planLoop_budget (new : List (List Int)) (b : Budget) (threshold gst : Int) (hit : 0 < b.itemsize)
    (hpn : PosChunks new) :
    ∀ (fuel : Nat) (os : List PassOracle) (current : List (List Int)) (first : Bool)
      (steps : List (List (List Int))) (rel : Bool) (res : List (List (List Int))),
      PosChunks current → current.length = new.length → largestBlock current ≤ b.bint →
      (∀ s ∈ steps, largestBlock s ≤ b.bint) →
      planLoop new b threshold gst fuel os current first steps rel = some (res, true) →
      ∀ s ∈ res, largestBlock s ≤ b.bint := by
  intro fuel
  induction fuel with
  | zero => intro os current first steps rel res _ _ _ _ h; simp [planLoop] at h
  | succ f ih =>
    intro os current first steps rel res hpc hlen hb hsteps h
    unfold planLoop at h
    simp only at h
    split at h
    · simp only [Option.some.injEq, Prod.mk.injEq] at h; rw [← h.1]; exact hsteps
    · split at h
      · simp at h
      · rename_i o os'
        split at h
        · simp at h
        · rename_i chunks0 hc0
          have h0 : largestBlock chunks0 ≤ b.bint ∧ PosChunks chunks0 ∧ chunks0.length = new.length := by
            split at hc0
            · simp only [Option.some.injEq] at hc0; subst hc0; exact ⟨hb, hpc, hlen⟩
            · have := findSplit_props current new _ o chunks0 hpc hpn hlen hc0
              exact ⟨by omega, this.2.1, by omega⟩
          split at h
          · simp at h
          · rename_i st r hfm
            -- the relation flag of this pass is true
            have hr : r = true := by
              split at h
              · simp only [Option.some.injEq, Prod.mk.injEq, Bool.and_eq_true] at h; exact h.2.2
              · split at h
                · simp only [Option.some.injEq, Prod.mk.injEq, Bool.and_eq_true] at h; exact h.2.2
                · have := planLoop_rel new b threshold gst _ _ _ _ _ _ _ h
                  simp only [Bool.and_eq_true] at this; exact this.2
            subst hr
            have hm := findMerge_budget chunks0 new b o st hit h0.2.1 hpn h0.2.2 h0.1 hfm
            have hsteps' : ∀ s ∈ (if st.chunks ≠ current then steps ++ [st.chunks] else steps), largestBlock s ≤ b.bint := by
              intro s hs
              split at hs
              · simp only [List.mem_append, List.mem_singleton] at hs
                rcases hs with hs | hs
                · exact hsteps s hs
                · rw [hs]; exact hm.1
              · exact hsteps s hs
            split at h
            · simp only [Option.some.injEq, Prod.mk.injEq] at h; rw [← h.1]; exact hsteps
            · split at h
              · simp only [Option.some.injEq, Prod.mk.injEq] at h; rw [← h.1]; exact hsteps'
              · exact ih _ _ _ _ _ _ hm.2.2.1 (by omega) hm.1 hsteps' h

theorem degreePass_budget (dl B : Int) : ∀ (steps : List (List (List Int))) (os : List BDOracle)
    (prev : List (List Int)) (plan : List (List (List Int))),
    largestBlock prev ≤ B → (∀ s ∈ steps, largestBlock s ≤ B) →
    degreePass dl os prev steps = some plan → ∀ s ∈ plan, largestBlock s ≤ B := by
  intro steps
  induction steps with
  | nil => intro os prev plan _ _ h; simp [degreePass] at h; subst h; intro s hs; simp at hs
  | cons step rest ih =>
    intro os prev plan hprev hsteps h
    have hstep := hsteps step (by simp)
    have hrest : ∀ s ∈ rest, largestBlock s ≤ B := fun s hs => hsteps s (by simp [hs])
    unfold degreePass at h
    split at h
    · split at h
      · simp at h
      · rename_i o os'
        split at h
        · simp at h
        · rename_i r hr
          simp only [Option.some.injEq] at h
          subst h
          intro s hs
          simp only [List.mem_append] at hs
          rcases hs with hs | hs
          · have := boundDegree_budget prev step dl o s hs; omega
          · exact ih os' step r hstep hrest hr s hs
    · split at h
      · simp at h
      · rename_i r hr
        simp only [Option.some.injEq] at h
        subst h
        intro s hs
        simp only [List.mem_append, List.mem_singleton] at hs
        rcases hs with hs | hs
        · rw [hs]; exact hstep
        · exact ih os step r hstep hrest hr s hs

/-- C15 budget, whole plan (tree after bb7113a + 28665a6): for EVERY oracle value that satisfies
the checked relations (`rel = true`), every chunking of the plan returned by the `plan_rechunk`
model — merge/split passes AND the degree pass — has its largest block within
`⌊max(limit/itemsize, largest old block, largest new block)⌋`. -/
theorem plan_budget (old new : List (List Int)) (itemsize threshold limBytes dl : Int) (fuel : Nat)
    (os : List PassOracle) (bos : List BDOracle) (plan : List (List (List Int)))
    (hit : 0 < itemsize) (hpo : PosChunks old) (hpn : PosChunks new) (hlen : old.length = new.length)
    (h : planRechunk old new itemsize threshold limBytes dl fuel os bos = some (plan, true)) :
    ∀ s ∈ plan, largestBlock s ≤ max (max (pyDiv limBytes itemsize) (largestBlock old)) (largestBlock new) := by
  let b : Budget := ⟨limBytes, itemsize, largestBlock old, largestBlock new⟩
  have hB : b.bint = max (max (pyDiv limBytes itemsize) (largestBlock old)) (largestBlock new) := rfl
  rw [← hB]
  unfold planRechunk at h
  split at h
  · simp only [Option.some.injEq, Prod.mk.injEq] at h
    rw [← h.1]; intro s hs; simp at hs; rw [hs, hB]; omega
  · split at h
    · simp at h
    · rename_i steps rel hps
      split at h
      · simp at h
      · rename_i plan' hdp
        simp only [Option.some.injEq, Prod.mk.injEq] at h
        obtain ⟨hpl, hrel⟩ := h
        subst hpl; subst hrel
        have hsteps : ∀ s ∈ steps, largestBlock s ≤ b.bint := by
          unfold plannerSteps at hps
          split at hps
          · simp only [Option.some.injEq, Prod.mk.injEq] at hps
            rw [← hps.1]; intro s hs; simp at hs; rw [hs, hB]; omega
          · split at hps
            · simp only [Option.some.injEq, Prod.mk.injEq] at hps
              rw [← hps.1]; intro s hs; simp at hs; rw [hs, hB]; omega
            · simp only at hps
              split at hps
              · simp at hps
              · rename_i steps0 rel0 hloop
                simp only [Option.some.injEq, Prod.mk.injEq] at hps
                obtain ⟨e1, e2⟩ := hps
                subst e2
                rw [← e1]
                intro s hs
                simp only [List.mem_append, List.mem_singleton] at hs
                rcases hs with hs | hs
                · exact planLoop_budget new b threshold _ hit hpn fuel os old true [] true steps0 hpo hlen
                    (by rw [hB]; omega) (by intro s hs; simp at hs) hloop s hs
                · rw [hs, hB]; omega
        exact degreePass_budget dl b.bint steps bos old plan' (by rw [hB]; omega) hsteps hdp

/-! ### explicit specs and balancing -/

theorem getChunks_sum (n k : Int) (hn : 0 ≤ n) (hk : 1 ≤ k) : isum (getChunks n k) = n := by
  have hk' : 0 < k := by omega
  unfold getChunks
  have hmod : pyMod n k = n % k := by simp [pyMod, hk']
  rw [pyDiv_pos _ _ hk', hmod, isum_append, isum_replicate,
    Int.toNat_of_nonneg (Int.ediv_nonneg hn (by omega))]
  have := Int.mul_ediv_add_emod n k
  split
  · simp only [isum]; grind
  · rename_i h; simp only [isum]
    have : n % k = 0 := by omega
    grind

theorem getChunks_pos (n k : Int) (hk : 1 ≤ k) : ∀ x ∈ getChunks n k, 1 ≤ x ∧ x ≤ k := by
  have hk' : 0 < k := by omega
  intro x hx
  unfold getChunks at hx
  have hmod : pyMod n k = n % k := by simp [pyMod, hk']
  rw [hmod] at hx
  simp only [List.mem_append, List.mem_replicate] at hx
  rcases hx with ⟨_, rfl⟩ | hx
  · omega
  · split at hx
    · simp at hx; subst hx
      have := Int.emod_nonneg n (Int.ne_of_gt hk')
      have := Int.emod_lt_of_pos n hk'
      omega
    · simp at hx

/-- C14 chunks, explicit kinds (None / -1 / int / tuple): the resolved axis is a chunking of the
same length -/
theorem resolveAxis_sum (oldc : List Int) (sp : AxisSpec) (ho : ∀ c ∈ oldc, 0 ≤ c)
    (hsp : match sp with
      | .size k => 1 ≤ k
      | .explicit l => isum l = isum oldc
      | _ => True) :
    isum (resolveAxis oldc sp) = isum oldc := by
  cases sp with
  | keep => rfl
  | full => simp [resolveAxis, isum]
  | size k =>
    simp only [resolveAxis]
    split
    · rename_i h; simp [isum, h]
    · exact getChunks_sum _ k (isum_nonneg oldc ho) hsp
  | explicit l => exact hsp

theorem mem_rangeList_one (a b x : Int) (h : x ∈ rangeList a b 1) : a ≤ x ∧ x < b := by
  rw [rangeList_one] at h
  simp only [List.mem_map, List.mem_range] at h
  obtain ⟨i, hi, rfl⟩ := h
  omega

theorem imin_mem_or (l : List Int) (h : l ≠ []) : imin l ∈ l := by
  induction l with
  | nil => exact absurd rfl h
  | cons a l ih =>
    cases l with
    | nil => simp [imin]
    | cons b l' =>
      have := ih (by simp)
      simp only [imin]
      by_cases hc : a ≤ imin (b :: l')
      · rw [Int.min_eq_left hc]; simp
      · rw [Int.min_eq_right (by omega)]; exact List.mem_cons_of_mem _ this

theorem imin_le (l : List Int) : ∀ x ∈ l, imin l ≤ x := by
  induction l with
  | nil => intro x hx; simp at hx
  | cons a l ih =>
    intro x hx
    cases l with
    | nil => simp at hx; subst hx; simp [imin]
    | cons b l' =>
      simp only [imin]
      simp only [List.mem_cons] at hx
      rcases hx with rfl | hx
      · exact Int.min_le_left _ _
      · have := ih x (by simpa using hx)
        have := Int.min_le_right a (imin (b :: l'))
        omega

theorem medianInt_pos (l : List Int) (hne : l ≠ []) (h : ∀ x ∈ l, 1 ≤ x) : 1 ≤ medianInt l := by
  unfold medianInt sortInts
  simp only
  have hmem : ∀ x ∈ l.mergeSort (fun a b => decide (a ≤ b)), 1 ≤ x := by
    intro x hx; exact h x (List.mem_mergeSort.mp hx)
  have hlen : (l.mergeSort (fun a b => decide (a ≤ b))).length = l.length := List.length_mergeSort l
  have hl : 0 < l.length := List.length_pos_iff.mpr hne
  have hget : ∀ i, i < l.length → 1 ≤ (l.mergeSort (fun a b => decide (a ≤ b))).getD i 0 := by
    intro i hi
    apply hmem
    rw [List.getD_eq_getElem?_getD, List.getElem?_eq_getElem (by omega)]
    exact List.getElem_mem _
  rw [hlen]
  split
  · exact hget _ (by omega)
  · have h1 := hget (l.length / 2 - 1) (by omega)
    have h2 := hget (l.length / 2) (by omega)
    rw [pyDiv_pos _ _ (by omega)]
    omega

/-- `balance=True`: the balanced chunks have the same total (positive input widths) -/
theorem balanceChunksizes_sum (chunks : List Int) (hne : chunks ≠ []) (h : ∀ x ∈ chunks, 0 ≤ x) :
    isum (balanceChunksizes chunks) = isum chunks := by
  unfold balanceChunksizes
  split
  · rfl
  · rename_i hmin
    have hpos : ∀ x ∈ chunks, 1 ≤ x := by
      intro x hx
      have h1 := imin_le chunks x hx
      have h2 := h _ (imin_mem_or chunks hne)
      omega
    have hmed := medianInt_pos chunks hne hpos
    simp only
    generalize (if 2 * imin chunks ≤ imax chunks then (chunks.length : Int) - 1 else (chunks.length : Int)) = nC
    generalize hposs : List.filter (fun c : List Int => decide ((c.length : Int) = nC)) _ = possible
    have hall : ∀ c ∈ possible, isum c = isum chunks := by
      intro c hc
      rw [← hposs] at hc
      simp only [List.mem_filter, List.mem_map] at hc
      obtain ⟨⟨len, hlen, rfl⟩, _⟩ := hc
      have hr := mem_rangeList_one _ _ _ hlen
      apply getChunks_sum _ _ (isum_nonneg chunks h)
      have : pyDiv (medianInt chunks) 2 = medianInt chunks / 2 := pyDiv_pos _ _ (by omega)
      rw [this] at hr
      omega
    split
    · rfl
    · rw [List.getD_eq_getElem?_getD]
      cases hg : possible[argmin (List.map (fun c => imax c - imin c) possible)]? with
      | none => rfl
      | some c => exact hall c (List.mem_of_getElem? hg)

/-! ### every plan of the model is valid — for EVERY oracle value (no relation needed) -/

/-- `s` is a chunking of the same shape as `new`: same rank, positive widths, same per-axis totals -/
structure Valid (new s : List (List Int)) : Prop where
  len : s.length = new.length
  pos : PosChunks s
  sum : ∀ d, d < new.length → isum (s.getD d []) = isum (new.getD d [])

theorem valid_refl (new : List (List Int)) (h : PosChunks new) : Valid new new := ⟨rfl, h, fun _ _ => rfl⟩

theorem getD_set_eq {β} (l : List β) (i : Nat) (x d : β) (h : i < l.length) : (l.set i x).getD i d = x := by
  simp [List.getD_eq_getElem?_getD, h]

theorem valid_set (new s : List (List Int)) (dim : Nat) (ax : List Int) (h : Valid new s)
    (hax : ax ≠ [] ∧ ∀ y ∈ ax, 1 ≤ y) (hsum : isum ax = isum (new.getD dim [])) : Valid new (s.set dim ax) := by
  refine ⟨by simp [h.len], posChunks_set _ _ _ h.pos hax, ?_⟩
  intro d hd
  by_cases e : dim = d
  · subst e; rw [getD_set_eq _ _ _ _ (by rw [h.len]; exact hd)]; exact hsum
  · rw [getD_set_ne _ _ _ _ _ e]; exact h.sum d hd

theorem posAxis_nonneg {ax : List Int} (h : ∀ y ∈ ax, 1 ≤ y) : ∀ y ∈ ax, 0 ≤ y :=
  fun y hy => by have := h y hy; omega

theorem set_of_length_le {β} (l : List β) (i : Nat) (x : β) (h : l.length ≤ i) : l.set i x = l := by
  apply List.ext_getElem?
  intro j
  by_cases e : i = j
  · subst e; simp [h]
  · simp [List.getElem?_set_ne e]

theorem findMergeStep_valid (cur new : List (List Int)) (b : Budget) (cl : List Int) (st st' : FMState)
    (rel rel' : Bool) (dim : Nat) (hpn : PosChunks new) (hv : Valid new st.chunks)
    (h : findMergeStep cur new b cl (some (st, rel)) dim = some (st', rel')) : Valid new st'.chunks := by
  by_cases hd : dim < new.length
  · have hnc := hpn _ (getD_mem_gen new dim [] hd)
    unfold findMergeStep at h
    simp only at h
    repeat' split at h
    all_goals (try (simp only [Option.some.injEq, Prod.mk.injEq, reduceCtorEq] at h))
    all_goals
      obtain ⟨h1, _⟩ := h
      subst h1
      first
        | exact hv
        | exact valid_set new st.chunks dim _ hv hnc rfl
        | (rename_i hw _
           have hw1 : 1 ≤ cl.getD dim 0 := by omega
           exact valid_set new st.chunks dim _ hv (divideToWidth_posAxis _ _ hnc.1 hnc.2 hw1)
             (divideToWidth_sum _ _ (posAxis_nonneg hnc.2) hw1))
  · have hset : ∀ x, st.chunks.set dim x = st.chunks := fun x => set_of_length_le _ _ _ (by rw [hv.len]; omega)
    unfold findMergeStep at h
    simp only at h
    repeat' split at h
    all_goals (try (simp only [Option.some.injEq, Prod.mk.injEq, reduceCtorEq] at h))
    all_goals
      obtain ⟨h1, _⟩ := h
      subst h1
      first
        | exact hv
        | (simp only [hset]; exact hv)

theorem findMerge_valid (cur new : List (List Int)) (b : Budget) (o : PassOracle) (st : FMState) (rel : Bool)
    (hpn : PosChunks new) (hv : Valid new cur) (h : findMerge cur new b o = some (st, rel)) : Valid new st.chunks := by
  unfold findMerge at h
  have key : ∀ (ds : List Nat) (s0 : FMState) (r0 : Bool), Valid new s0.chunks →
      ds.foldl (findMergeStep cur new b o.chunkLimit) (some (s0, r0)) = some (st, rel) → Valid new st.chunks := by
    intro ds
    induction ds with
    | nil => intro s0 r0 hv0 h0; simp at h0; rw [← h0.1]; exact hv0
    | cons d ds ih =>
      intro s0 r0 hv0 h0
      simp only [List.foldl_cons] at h0
      cases hs : findMergeStep cur new b o.chunkLimit (some (s0, r0)) d with
      | none => rw [hs, foldl_findMergeStep_none] at h0; simp at h0
      | some p =>
        obtain ⟨s1, r1⟩ := p
        rw [hs] at h0
        exact ih s1 r1 (findMergeStep_valid cur new b o.chunkLimit s0 s1 r0 r1 d hpn hv0 hs) h0
  exact key o.order _ _ hv h

theorem findSplitLoop_valid (cur new : List (List Int)) (gsl : Int) (mn : List Int) (hpn : PosChunks new) :
    ∀ (ds : List Nat) (chunks c : List (List Int)), Valid new chunks →
      findSplitLoop cur new gsl mn ds chunks = some c → Valid new c := by
  intro ds
  induction ds with
  | nil => intro chunks c hv h; simp [findSplitLoop] at h; subst h; exact hv
  | cons dim ds ih =>
    intro chunks c hv h
    rw [findSplitLoop] at h
    simp only at h
    split at h
    · simp at h; subst h; exact hv
    · split at h
      · exact ih chunks c hv h
      · split at h
        · simp at h
        · rename_i hk
          split at h
          · refine ih _ c ?_ h
            by_cases hd : dim < new.length
            · have hnc := hpn _ (getD_mem_gen new dim [] hd)
              exact valid_set new chunks dim _ hv (mergeToNumber_posAxis _ _ hnc.1 hnc.2 (by omega))
                (mergeToNumber_sum _ _ (posAxis_nonneg hnc.2) (by omega))
            · rw [set_of_length_le _ _ _ (by rw [hv.len]; omega)]; exact hv
          · exact ih chunks c hv h

theorem findSplit_valid (cur new : List (List Int)) (gsl : Int) (o : PassOracle) (c : List (List Int))
    (hpn : PosChunks new) (hv : Valid new cur) (h : findSplit cur new gsl o = some c) : Valid new c := by
  unfold findSplit at h
  exact findSplitLoop_valid cur new gsl o.maxNumber hpn _ cur c hv h

theorem planLoop_valid (new : List (List Int)) (b : Budget) (threshold gst : Int) (hpn : PosChunks new) :
    ∀ (fuel : Nat) (os : List PassOracle) (current : List (List Int)) (first : Bool)
      (steps : List (List (List Int))) (rel rel' : Bool) (res : List (List (List Int))),
      Valid new current → (∀ s ∈ steps, Valid new s) →
      planLoop new b threshold gst fuel os current first steps rel = some (res, rel') →
      ∀ s ∈ res, Valid new s := by
  intro fuel
  induction fuel with
  | zero => intro os current first steps rel rel' res _ _ h; simp [planLoop] at h
  | succ f ih =>
    intro os current first steps rel rel' res hv hsteps h
    unfold planLoop at h
    simp only at h
    split at h
    · simp only [Option.some.injEq, Prod.mk.injEq] at h; rw [← h.1]; exact hsteps
    · split at h
      · simp at h
      · rename_i o os'
        split at h
        · simp at h
        · rename_i chunks0 hc0
          have h0 : Valid new chunks0 := by
            split at hc0
            · simp only [Option.some.injEq] at hc0; subst hc0; exact hv
            · exact findSplit_valid current new _ o chunks0 hpn hv hc0
          split at h
          · simp at h
          · rename_i st r hfm
            have hm := findMerge_valid chunks0 new b o st r hpn h0 hfm
            have hsteps' : ∀ s ∈ (if st.chunks ≠ current then steps ++ [st.chunks] else steps), Valid new s := by
              intro s hs
              split at hs
              · simp only [List.mem_append, List.mem_singleton] at hs
                rcases hs with hs | hs
                · exact hsteps s hs
                · rw [hs]; exact hm
              · exact hsteps s hs
            split at h
            · simp only [Option.some.injEq, Prod.mk.injEq] at h; rw [← h.1]; exact hsteps
            · split at h
              · simp only [Option.some.injEq, Prod.mk.injEq] at h; rw [← h.1]; exact hsteps'
              · exact ih _ _ _ _ _ _ _ hm hsteps' h

theorem zipWith3_length {α β γ δ} (f : α → β → γ → δ) : ∀ (a : List α) (b : List β) (c : List γ),
    (zipWith3 f a b c).length = min a.length (min b.length c.length) := by
  intro a
  induction a with
  | nil => intro b c; simp [zipWith3]
  | cons x a ih =>
    intro b c
    cases b with
    | nil => simp [zipWith3]
    | cons y b =>
      cases c with
      | nil => simp [zipWith3]
      | cons z c => simp [zipWith3, ih]

theorem zipWith3_getD {α β γ δ} (f : α → β → γ → δ) (da : α) (db : β) (dc : γ) (dd : δ) :
    ∀ (a : List α) (b : List β) (c : List γ) (d : Nat), d < a.length → d < b.length → d < c.length →
      (zipWith3 f a b c).getD d dd = f (a.getD d da) (b.getD d db) (c.getD d dc) := by
  intro a
  induction a with
  | nil => intro b c d h; simp at h
  | cons x a ih =>
    intro b c d ha hb hc
    cases b with
    | nil => simp at hb
    | cons y b =>
      cases c with
      | nil => simp at hc
      | cons z c =>
        cases d with
        | zero => simp [zipWith3]
        | succ d =>
          simp only [zipWith3, List.getD_cons_succ]
          exact ih b c d (by simpa using ha) (by simpa using hb) (by simpa using hc)

/-- one axis of an interpolated step, between two chunkings of the same axis -/
theorem bdAxis_valid (oc nc : List Int) (cnt : Int) (ho : oc ≠ [] ∧ ∀ y ∈ oc, 1 ≤ y) (hn : nc ≠ [] ∧ ∀ y ∈ nc, 1 ≤ y)
    (hs : isum oc = isum nc) :
    (bdAxis oc nc cnt ≠ [] ∧ ∀ y ∈ bdAxis oc nc cnt, 1 ≤ y) ∧ isum (bdAxis oc nc cnt) = isum nc := by
  unfold bdAxis
  simp only
  split
  · exact ⟨hn, rfl⟩
  · have ho1 : 1 ≤ (oc.length : Int) := by
      have := List.length_pos_iff.mpr ho.1; omega
    have hn1 : 1 ≤ (nc.length : Int) := by
      have := List.length_pos_iff.mpr hn.1; omega
    have hk : 1 ≤ min (max cnt (min (oc.length : Int) nc.length)) (max (oc.length : Int) nc.length) := by omega
    split
    · exact ⟨mergeToNumber_posAxis _ _ ho.1 ho.2 hk, by rw [mergeToNumber_sum _ _ (posAxis_nonneg ho.2) hk, hs]⟩
    · exact ⟨mergeToNumber_posAxis _ _ hn.1 hn.2 hk, mergeToNumber_sum _ _ (posAxis_nonneg hn.2) hk⟩

theorem inter_valid (new prev step : List (List Int)) (row : List Int) (hp : Valid new prev) (hs : Valid new step)
    (hrow : new.length ≤ row.length) : Valid new (zipWith3 bdAxis prev step row) := by
  have hlen : (zipWith3 bdAxis prev step row).length = new.length := by
    rw [zipWith3_length, hp.len, hs.len]; omega
  have hax : ∀ d, d < new.length →
      ((zipWith3 bdAxis prev step row).getD d [] ≠ [] ∧ ∀ y ∈ (zipWith3 bdAxis prev step row).getD d [], 1 ≤ y) ∧
      isum ((zipWith3 bdAxis prev step row).getD d []) = isum (new.getD d []) := by
    intro d hd
    rw [zipWith3_getD bdAxis [] [] 0 [] prev step row d (by rw [hp.len]; exact hd) (by rw [hs.len]; exact hd) (by omega)]
    have h1 := hp.pos _ (getD_mem_gen prev d [] (by rw [hp.len]; exact hd))
    have h2 := hs.pos _ (getD_mem_gen step d [] (by rw [hs.len]; exact hd))
    have := bdAxis_valid (prev.getD d []) (step.getD d []) (row.getD d 0) h1 h2 (by rw [hp.sum d hd, hs.sum d hd])
    exact ⟨this.1, by rw [this.2, hs.sum d hd]⟩
  refine ⟨hlen, ?_, fun d hd => (hax d hd).2⟩
  intro ax hmem
  rw [List.mem_iff_getElem] at hmem
  obtain ⟨d, hd, rfl⟩ := hmem
  have := (hax d (by omega)).1
  rw [getD_eq_getElem_gen _ d [] hd] at this
  exact this

theorem bdLoop_valid (new old step : List (List Int)) (sb : Int) (ho : Valid new old) (hs : Valid new step) :
    ∀ (rows prev : List (List Int)) (steps : List (List (List Int))),
      (∀ s ∈ steps, Valid new s) → ∀ s ∈ bdLoop old step sb rows prev steps, Valid new s := by
  intro rows
  induction rows with
  | nil => intro prev steps h s hs'; simp [bdLoop] at hs'; exact h s hs'
  | cons row rows ih =>
    intro prev steps h s hs'
    rw [bdLoop] at hs'
    split at hs'
    · refine ih _ _ ?_ s hs'
      intro t ht
      simp only [List.mem_append, List.mem_singleton] at ht
      rcases ht with ht | ht
      · exact h t ht
      · rw [ht]
        exact inter_valid new old step _ ho hs (by simp; rw [ho.len]; omega)
    · exact ih _ _ h s hs'

theorem boundDegree_valid (new old step : List (List Int)) (dl : Int) (o : BDOracle) (ho : Valid new old)
    (hs : Valid new step) : ∀ s ∈ boundDegree old step dl o, Valid new s := by
  intro s hmem
  unfold boundDegree at hmem
  simp only at hmem
  have key := bdLoop_valid new old step (max (largestBlock old) (largestBlock step)) ho hs
    ((o.counts ++ List.replicate (o.nsteps - 1 - o.counts.length) []).take (o.nsteps - 1)) old []
    (by intro t ht; simp at ht)
  split at hmem
  · simp at hmem; rw [hmem]; exact hs
  · split at hmem
    · simp only [List.mem_append, List.mem_singleton] at hmem
      rcases hmem with hmem | hmem
      · exact key s hmem
      · rw [hmem]; exact hs
    · exact key s hmem

theorem degreePass_valid (new : List (List Int)) (dl : Int) : ∀ (steps : List (List (List Int))) (os : List BDOracle)
    (prev : List (List Int)) (plan : List (List (List Int))),
    Valid new prev → (∀ s ∈ steps, Valid new s) →
    degreePass dl os prev steps = some plan → ∀ s ∈ plan, Valid new s := by
  intro steps
  induction steps with
  | nil => intro os prev plan _ _ h; simp [degreePass] at h; subst h; intro s hs; simp at hs
  | cons step rest ih =>
    intro os prev plan hprev hsteps h
    have hstep := hsteps step (by simp)
    have hrest : ∀ s ∈ rest, Valid new s := fun s hs => hsteps s (by simp [hs])
    unfold degreePass at h
    split at h
    · split at h
      · simp at h
      · rename_i o os'
        split at h
        · simp at h
        · rename_i r hr
          simp only [Option.some.injEq] at h
          subst h
          intro s hs
          simp only [List.mem_append] at hs
          rcases hs with hs | hs
          · exact boundDegree_valid new prev step dl o hprev hstep s hs
          · exact ih os' step r hstep hrest hr s hs
    · split at h
      · simp at h
      · rename_i r hr
        simp only [Option.some.injEq] at h
        subst h
        intro s hs
        simp only [List.mem_append, List.mem_singleton] at hs
        rcases hs with hs | hs
        · rw [hs]; exact hstep
        · exact ih os step r hstep hrest hr s hs

theorem getLast?_append_some {β} (a b : List β) (x : β) (h : b.getLast? = some x) : (a ++ b).getLast? = some x := by
  rw [List.getLast?_append, h]; rfl

theorem degreePass_last (dl : Int) (x : List (List Int)) : ∀ (steps : List (List (List Int))) (os : List BDOracle)
    (prev : List (List Int)) (plan : List (List (List Int))), steps.getLast? = some x →
    degreePass dl os prev steps = some plan → plan.getLast? = some x := by
  intro steps
  induction steps with
  | nil => intro os prev plan h; simp at h
  | cons step rest ih =>
    intro os prev plan hl h
    unfold degreePass at h
    cases rest with
    | nil =>
      simp at hl; subst hl
      split at h
      · split at h
        · simp at h
        · rename_i o os'
          simp [degreePass] at h
          subst h; simpa using boundDegree_last prev step dl o
      · simp [degreePass] at h; subst h; simp
    | cons step2 rest2 =>
      have hl' : (step2 :: rest2).getLast? = some x := by simpa [List.getLast?_cons_cons] using hl
      split at h
      · split at h
        · simp at h
        · rename_i o os'
          split at h
          · simp at h
          · rename_i r hr
            simp only [Option.some.injEq] at h
            subst h
            exact getLast?_append_some _ _ _ (ih os' step r hl' hr)
      · split at h
        · simp at h
        · rename_i r hr
          simp only [Option.some.injEq] at h
          subst h
          exact getLast?_append_some _ _ _ (ih os step r hl' hr)

theorem map_isum_getD (a b : List (List Int)) (h : a.map isum = b.map isum) (d : Nat) (hd : d < b.length) :
    isum (a.getD d []) = isum (b.getD d []) := by
  have hl : a.length = b.length := by simpa using congrArg List.length h
  have := congrArg (fun l => l[d]?) h
  simp only [List.getElem?_map] at this
  rw [List.getElem?_eq_getElem (by omega), List.getElem?_eq_getElem hd] at this
  simp only [Option.map_some, Option.some.injEq] at this
  rw [getD_eq_getElem_gen a d [] (by omega), getD_eq_getElem_gen b d [] hd]
  exact this

theorem valid_map_isum (new s : List (List Int)) (h : Valid new s) : s.map isum = new.map isum := by
  apply List.ext_getElem
  · simp [h.len]
  · intro d h1 h2
    simp only [List.length_map] at h1 h2
    simp only [List.getElem_map]
    have := h.sum d h2
    rw [getD_eq_getElem_gen s d [] h1, getD_eq_getElem_gen new d [] h2] at this
    exact this

theorem plannerSteps_valid (old new : List (List Int)) (itemsize threshold limBytes : Int) (fuel : Nat)
    (os : List PassOracle) (steps : List (List (List Int))) (rel : Bool) (hpn : PosChunks new) (ho : Valid new old)
    (h : plannerSteps old new itemsize threshold limBytes fuel os = some (steps, rel)) :
    (∀ s ∈ steps, Valid new s) ∧ steps.getLast? = some new := by
  unfold plannerSteps at h
  have one : (∀ s ∈ [new], Valid new s) ∧ [new].getLast? = some new :=
    ⟨by intro s hs; simp at hs; rw [hs]; exact valid_refl new hpn, rfl⟩
  split at h
  · simp only [Option.some.injEq, Prod.mk.injEq] at h; rw [← h.1]; exact one
  · split at h
    · simp only [Option.some.injEq, Prod.mk.injEq] at h; rw [← h.1]; exact one
    · simp only at h
      split at h
      · simp at h
      · rename_i steps0 rel0 hloop
        simp only [Option.some.injEq, Prod.mk.injEq] at h
        rw [← h.1]
        refine ⟨?_, by simp⟩
        intro s hs
        simp only [List.mem_append, List.mem_singleton] at hs
        rcases hs with hs | hs
        · exact planLoop_valid new _ threshold _ hpn fuel os old true [] true rel0 steps0 ho
            (by intro t ht; simp at ht) hloop s hs
        · rw [hs]; exact valid_refl new hpn

/-- C15 "valid plan" for the executable model, EVERY oracle value (no relation needed): whatever
candidate order, chunk limits, max numbers, nsteps and counts are supplied, if the `plan_rechunk`
model returns a plan then it ends in `new` and every step is a chunking of the same shape
(same rank, positive widths, same per-axis totals). -/
theorem plan_valid (old new : List (List Int)) (itemsize threshold limBytes dl : Int) (fuel : Nat)
    (os : List PassOracle) (bos : List BDOracle) (plan : List (List (List Int))) (rel : Bool)
    (hpo : PosChunks old) (hpn : PosChunks new) (hshape : old.map isum = new.map isum)
    (h : planRechunk old new itemsize threshold limBytes dl fuel os bos = some (plan, rel)) :
    plan.getLast? = some new ∧
      ∀ s ∈ plan, s.length = new.length ∧ PosChunks s ∧ s.map isum = new.map isum := by
  have hlen : old.length = new.length := by simpa using congrArg List.length hshape
  have ho : Valid new old := ⟨hlen, hpo, fun d hd => map_isum_getD old new hshape d hd⟩
  have fin : ∀ (p : List (List (List Int))), p.getLast? = some new → (∀ s ∈ p, Valid new s) →
      p.getLast? = some new ∧ ∀ s ∈ p, s.length = new.length ∧ PosChunks s ∧ s.map isum = new.map isum :=
    fun p h1 h2 => ⟨h1, fun s hs => ⟨(h2 s hs).len, (h2 s hs).pos, valid_map_isum new s (h2 s hs)⟩⟩
  unfold planRechunk at h
  split at h
  · simp only [Option.some.injEq, Prod.mk.injEq] at h
    rw [← h.1]
    exact fin [new] rfl (by intro s hs; simp at hs; rw [hs]; exact valid_refl new hpn)
  · split at h
    · simp at h
    · rename_i steps rel0 hps
      split at h
      · simp at h
      · rename_i plan' hdp
        simp only [Option.some.injEq, Prod.mk.injEq] at h
        rw [← h.1]
        obtain ⟨hv, hl⟩ := plannerSteps_valid old new itemsize threshold limBytes fuel os steps rel0 hpn ho hps
        exact fin plan' (degreePass_last dl new steps bos old plan' hl hdp)
          (degreePass_valid new dl steps bos old plan' ho hv hdp)

/-! ### evaluated witnesses used by the non-vacuity examples in Props/ -/

theorem ex_mo1 : maxOverlap [[1,3,1],[4,4,6,3]] [[2,3],[6,4,1,5,1]] = 4 := by
  simp [maxOverlap, maxOverlapAxis, iprod, lmaxNat, oldToNew1d, breakpoints, cum0, cumsum, cumsumFrom,
    mergeBreaks, intersect1d, iloop, istep]
theorem ex_mo2 : maxOverlap [[2,3],[6,4,1,5,1]] [[1,3,1],[4,4,6,3]] = 6 := by
  simp [maxOverlap, maxOverlapAxis, iprod, lmaxNat, oldToNew1d, breakpoints, cum0, cumsum, cumsumFrom,
    mergeBreaks, intersect1d, iloop, istep]

/-- old ((1,3,1),(4,4,6,3)) → new ((2,3),(6,4,1,5,1)), degree-limit 3, recorded oracle nsteps = 2,
counts (2, 4): the interpolated step ((4,1),(6,5,5,1)) has a 24-element block > 18 = the larger
endpoint and is now dropped -/
theorem ex_boundDegree : boundDegree [[1,3,1],[4,4,6,3]] [[2,3],[6,4,1,5,1]] 3 ⟨2, [[2,4]]⟩ =
    [[[2,3],[6,4,1,5,1]]] := by
  unfold boundDegree
  rw [ex_mo1, ex_mo2]
  decide

theorem ex_o2n : oldToNew1d [4, 4, 2] [5, 5] = [[⟨0, 0, 4⟩, ⟨1, 0, 1⟩], [⟨1, 1, 4⟩, ⟨2, 0, 2⟩]] := by
  simp [oldToNew1d, breakpoints, cum0, cumsum, cumsumFrom, mergeBreaks, intersect1d, iloop, istep]

theorem ex_plan : planRechunk [[2,2]] [[4]] 8 4 64 100 3 [] [] = some ([[[4]]], true) := by
  simp [planRechunk, plannerSteps, hasZeros, degreePass, bdNeedsOracle, maxOverlap, maxOverlapAxis, iprod, lmaxNat,
    oldToNew1d, breakpoints, cum0, cumsum, cumsumFrom, mergeBreaks, intersect1d, iloop, istep]
  decide
theorem ex_pos1 : PosChunks [[2,2]] := by intro ax h; simp at h; subst h; exact ⟨by simp, by decide⟩
theorem ex_pos2 : PosChunks [[4]] := by intro ax h; simp at h; subst h; exact ⟨by simp, by decide⟩

end Dask.Lemmas.RechunkPlan
