/-
Blocks assemble to the function of the whole operands (`den_eq_whole`): for a well-formed node whose block
function is `LabelLocal`, under every admissible chunk layout, `compute()` is `f` applied to the whole
operand values.  Cutting into blocks is a re-indexing (`blockR`).
-/
import DaskArrayModel.Lemmas.BlockwiseGateBase
namespace Dask.BWG
open Dask.Py Dask.ND Dask.Contract

/-- default operand of the `getD`s below -/
def dO : Opd := { arr := dA, chunks := [], ind := none }

/-! ### `lowered` -/

def lowOpd (U : Nat → List Nat) (bw : BW) (o : Opd) : Opd := if bw.align then alignOpd U o else o

theorem lowered_ops (U : Nat → List Nat) (bw : BW) : (lowered U bw).ops = bw.ops.map (lowOpd U bw) := by
  unfold lowered lowOpd
  by_cases h : bw.align = true
  · simp [h]
  · simp [h]

theorem lowered_outInd (U : Nat → List Nat) (bw : BW) : (lowered U bw).outInd = bw.outInd := by
  unfold lowered; split <;> rfl

theorem lowered_newAxes (U : Nat → List Nat) (bw : BW) : (lowered U bw).newAxes = bw.newAxes := by
  unfold lowered; split <;> rfl

theorem alignOpd_arr (U : Nat → List Nat) (o : Opd) : (alignOpd U o).arr = o.arr := by
  unfold alignOpd; split
  · rfl
  · split <;> rfl

theorem alignOpd_ind (U : Nat → List Nat) (o : Opd) : (alignOpd U o).ind = o.ind := by
  unfold alignOpd; split
  · rfl
  · split <;> rfl

theorem alignOpd_isArr (U : Nat → List Nat) (o : Opd) : (alignOpd U o).isArr = o.isArr := by
  unfold alignOpd; split
  · rfl
  · split <;> rfl

theorem lowOpd_arr (U : Nat → List Nat) (bw : BW) (o : Opd) : (lowOpd U bw o).arr = o.arr := by
  unfold lowOpd; split
  · exact alignOpd_arr U o
  · rfl

theorem lowOpd_ind (U : Nat → List Nat) (bw : BW) (o : Opd) : (lowOpd U bw o).ind = o.ind := by
  unfold lowOpd; split
  · exact alignOpd_ind U o
  · rfl

theorem lowOpd_labels (U : Nat → List Nat) (bw : BW) (o : Opd) : (lowOpd U bw o).labels = o.labels := by
  unfold Opd.labels; rw [lowOpd_ind]

theorem lowOpd_isArr (U : Nat → List Nat) (bw : BW) (o : Opd) : (lowOpd U bw o).isArr = o.isArr := by
  unfold lowOpd; split
  · exact alignOpd_isArr U o
  · rfl

theorem blockCoord_lowered (U : Nat → List Nat) (bw : BW) (bid : List Nat) (l : Nat) :
    blockCoord (lowered U bw) bid l = blockCoord bw bid l := by
  unfold blockCoord; rw [lowered_outInd, lowered_newAxes]

/-! ### `layoutOK` as a Prop -/

structure LOK (U : Nat → List Nat) (bw : BW) : Prop where
  lab : ∀ l ∈ bw.outInd, (bw.newAxes.lookup l).isSome = true ∨
    (((chunkss U bw l).getD []).sum = labLen bw l ∧ (chunkss U bw l).getD [] ≠ [])
  ops : ∀ o ∈ bw.ops, (lowOpd U bw o).chunks.length = o.arr.shape.length ∧
    ∀ k, k < o.labels.length →
      ((lowOpd U bw o).chunks.getD k []).sum = o.arr.shape.getD k 0 ∧
      (o.labels.getD k 0 ∈ bw.outInd →
        (lowOpd U bw o).chunks.getD k [] = (chunkss U bw (o.labels.getD k 0)).getD [] ∨
        (o.arr.shape.getD k 0 = 1 ∧ labLen bw (o.labels.getD k 0) ≠ 1 ∧ (lowOpd U bw o).chunks.getD k [] = [1]))

theorem layoutOK_iff (U : Nat → List Nat) (bw : BW) : layoutOK U bw = true ↔ LOK U bw := by
  unfold layoutOK
  rw [lowered_ops]
  simp only [Bool.and_eq_true, List.all_eq_true, Bool.or_eq_true, decide_eq_true_eq, Bool.not_eq_true',
    List.isEmpty_eq_false_iff, List.mem_map, forall_exists_index, and_imp, forall_apply_eq_imp_iff₂,
    lowOpd_labels, lowOpd_arr, List.mem_range, List.contains_eq_mem, beq_iff_eq, bne_iff_ne, ne_eq,
    decide_eq_false_iff_not]
  constructor
  · rintro ⟨h1, h2⟩
    refine ⟨h1, ?_⟩
    intro o ho
    obtain ⟨a, b⟩ := h2 o ho
    refine ⟨a, fun k hk => ?_⟩
    obtain ⟨c, d⟩ := b k hk
    refine ⟨c, fun hin => ?_⟩
    rcases d with (d | d) | d
    · exact absurd hin d
    · exact Or.inl d
    · exact Or.inr ⟨d.1.1, d.1.2, d.2⟩
  · rintro ⟨h1, h2⟩
    refine ⟨h1, ?_⟩
    intro o ho
    obtain ⟨a, b⟩ := h2 o ho
    refine ⟨a, fun k hk => ?_⟩
    obtain ⟨c, d⟩ := b k hk
    refine ⟨c, ?_⟩
    by_cases hin : o.labels.getD k 0 ∈ bw.outInd
    · rcases d hin with d | d
      · exact Or.inl (Or.inr d)
      · exact Or.inr ⟨⟨d.1, d.2.1⟩, d.2.2⟩
    · exact Or.inl (Or.inl hin)

/-! ### point labels, `IsLen` of the whole operands -/

theorem sig_inds_getD (bw : BW) (t : Nat) (ht : t < bw.ops.length) :
    bw.sig.inds.getD t [] = (bw.ops.getD t dO).labels := by
  simp only [BW.sig]; exact getD_map Opd.labels bw.ops t dO [] ht

theorem wholes_getD (bw : BW) (t : Nat) (ht : t < bw.ops.length) :
    bw.wholes.getD t dA = (bw.ops.getD t dO).arr := by
  simp only [BW.wholes]; exact getD_map (·.arr) bw.ops t dO dA ht

theorem point_iff (bw : BW) (h : SOK bw) (l : Nat) :
    bw.sig.point l = true ↔ l ∈ bw.outInd ∧ bw.newAxes.lookup l = none := by
  simp only [Sig.point, BW.sig, h.noAdj, lookup_map_snd]
  simp

theorem sig_outShape (bw : BW) (N : Nat → Nat) :
    bw.sig.outShape N = bw.outInd.map (fun l => ((bw.newAxes.lookup l).map List.sum).getD (N l)) := by
  simp only [Sig.outShape, BW.sig, lookup_map_snd]

theorem isLen_wholes (bw : BW) (h : SOK bw) : IsLen bw.sig bw.wholes (labLen bw) := by
  have hlen : bw.sig.inds.length = bw.ops.length := by simp [BW.sig]
  refine ⟨by simp [BW.sig, BW.wholes], ?_, ?_, ?_⟩
  · intro t ht
    rw [hlen] at ht
    rw [sig_inds_getD bw t ht, wholes_getD bw t ht]
    exact (h.rank _ (getD_mem _ _ _ ht)).1
  · intro t k ht hk hp
    rw [hlen] at ht
    rw [sig_inds_getD bw t ht] at hk hp ⊢
    rw [wholes_getD bw t ht]
    have ho := getD_mem bw.ops t dO ht
    have hr := (h.rank _ ho).1
    have hin := ((point_iff bw h _).mp hp).1
    exact h.lens _ ((mem_lenPairs _ _).mpr ⟨_, ho, k, hk, by omega, rfl⟩) hin
  · intro l hp
    obtain ⟨hin, hnew⟩ := (point_iff bw h l).mp hp
    rcases h.covered l hin with c | c
    · simp [hnew] at c
    · obtain ⟨o, ho, k, hk1, hk2, e⟩ := (mem_lenPairs _ _).mp c
      obtain ⟨t, ht, et⟩ := mem_getD bw.ops o dO ho
      refine ⟨t, k, by omega, ?_, ?_, ?_⟩
      · rw [sig_inds_getD bw t ht, et]; exact hk1
      · rw [sig_inds_getD bw t ht, et]
        exact (Prod.mk.inj e).1.symm
      · rw [wholes_getD bw t ht, et]
        exact (Prod.mk.inj e).2.symm

/-! ### cutting into blocks is a re-indexing -/

/-- the re-indexing that cuts block `bid` out of the point labels -/
def blockR (U : Nat → List Nat) (bw : BW) (bid : List Nat) : Reix :=
  { act := bw.sig.point
    len := fun l => ((chunkss U bw l).getD []).getD (bid.getD (bw.outInd.idxOf l) 0) 0
    map := fun l x => (((chunkss U bw l).getD []).take (bid.getD (bw.outInd.idxOf l) 0)).sum + x }

theorem outChunks_getD (U : Nat → List Nat) (bw : BW) (h : SOK bw) (k : Nat) (hk : k < bw.outInd.length) :
    (outChunks U bw).getD k [] = (chunkss U bw (bw.outInd.getD k 0)).getD [] := by
  unfold outChunks
  rw [getD_map _ bw.outInd k 0 [] hk, h.noAdj]
  rfl

theorem outChunks_length (U : Nat → List Nat) (bw : BW) : (outChunks U bw).length = bw.outInd.length := by
  simp [outChunks]

/-- a valid block id is in range for the chunks of every output label -/
theorem bid_lt (U : Nat → List Nat) (bw : BW) (h : SOK bw) (bid : List Nat)
    (hb : validBid (outChunks U bw) bid) (l : Nat) (hl : l ∈ bw.outInd) :
    bid.getD (bw.outInd.idxOf l) 0 < ((chunkss U bw l).getD []).length := by
  have hk : bw.outInd.idxOf l < bw.outInd.length := List.idxOf_lt_length_of_mem hl
  have := hb.getD_lt (bw.outInd.idxOf l) (by rw [outChunks_length]; exact hk)
  rwa [outChunks_getD U bw h _ hk, getD_idxOf _ _ hl] at this

/-- a new-axis label is carried by no operand -/
theorem lookup_new_of_label (bw : BW) (h : SOK bw) (o : Opd) (ho : o ∈ bw.ops) (k : Nat)
    (hk : k < o.labels.length) : bw.newAxes.lookup (o.labels.getD k 0) = none := by
  apply lookup_none_of_not_mem
  intro q hq e
  have hr := (h.rank o ho).1
  exact (h.newIn q hq).2.2 _ ((mem_lenPairs _ _).mpr ⟨o, ho, k, hk, by omega, rfl⟩) e.symm

/-- a label outside `out_ind` is no new axis -/
theorem lookup_new_of_not_out (bw : BW) (h : SOK bw) (l : Nat) (hl : l ∉ bw.outInd) :
    bw.newAxes.lookup l = none := by
  apply lookup_none_of_not_mem
  intro q hq e
  exact hl (e ▸ (h.newIn q hq).1)

/-- the block of an operand that a task reads is the operand re-indexed by `blockR` -/
theorem opBlock_eq_reix (U : Nat → List Nat) (bw : BW) (h : SOK bw) (hL : LOK U bw) (bid : List Nat)
    (hb : validBid (outChunks U bw) bid) (o : Opd) (ho : o ∈ bw.ops) :
    Arr.Equiv (opBlock (lowered U bw) bid (lowOpd U bw o)) (reix (blockR U bw bid) (labLen bw) o.labels o.arr) := by
  obtain ⟨hr1, hr2, hr3⟩ := h.rank o ho
  obtain ⟨hc1, hc2⟩ := hL.ops o ho
  have hkind : ((lowOpd U bw o).isArr || (lowOpd U bw o).ind.isNone) = true := by
    rw [lowOpd_isArr, lowOpd_ind]
    rcases hr3 with ⟨e, _⟩ | e <;> simp [e]
  -- per-axis agreement
  have hax : ∀ k, k < o.labels.length →
      axisLen (lowered U bw) bid (o.labels.getD k 0) ((lowOpd U bw o).chunks.getD k []) =
        (if (blockR U bw bid).on (labLen bw) (o.labels.getD k 0) (o.arr.shape.getD k 0)
          then (blockR U bw bid).len (o.labels.getD k 0) else o.arr.shape.getD k 0) ∧
      ∀ x, axisStart (lowered U bw) bid (o.labels.getD k 0) ((lowOpd U bw o).chunks.getD k []) + x =
        (if (blockR U bw bid).on (labLen bw) (o.labels.getD k 0) (o.arr.shape.getD k 0)
          then (blockR U bw bid).map (o.labels.getD k 0) x else x) := by
    intro k hk
    obtain ⟨hsum, hcase⟩ := hc2 k hk
    have hnew := lookup_new_of_label bw h o ho k hk
    unfold axisLen axisStart
    rw [blockCoord_lowered]
    unfold blockCoord
    rw [hnew]
    simp only [Option.isSome_none, Bool.false_eq_true, if_false, List.contains_eq_mem, decide_eq_true_eq]
    by_cases hin : o.labels.getD k 0 ∈ bw.outInd
    · rw [if_pos hin]
      dsimp only
      have hp : bw.sig.point (o.labels.getD k 0) = true := (point_iff bw h _).mpr ⟨hin, hnew⟩
      have hlt := bid_lt U bw h bid hb _ hin
      rcases hcase hin with hc | ⟨hn1, hN, hc⟩
      · -- the label's own chunks
        have hnN : o.arr.shape.getD k 0 = labLen bw (o.labels.getD k 0) := by
          rcases hL.lab _ hin with c | c
          · rw [hnew] at c; simp at c
          · rw [← hsum, hc, c.1]
        have hon : (blockR U bw bid).on (labLen bw) (o.labels.getD k 0) (o.arr.shape.getD k 0) = true := by
          simp only [Reix.on, blockR]; rw [hp, hnN]; simp
        rw [if_pos hon, hc, Nat.mod_eq_of_lt hlt]
        refine ⟨rfl, fun x => ?_⟩
        rw [if_pos hon]
        rfl
      · -- a broadcast axis
        have hon : (blockR U bw bid).on (labLen bw) (o.labels.getD k 0) (o.arr.shape.getD k 0) = false := by
          simp only [Reix.on]; rw [hn1]
          have : (1 == labLen bw (o.labels.getD k 0)) = false := by
            rw [beq_eq_false_iff_ne]; exact fun e => hN e.symm
          rw [this]; simp
        rw [hon, hc, hn1]
        simp [Nat.mod_one]
    · rw [if_neg hin]
      dsimp only
      have hon : (blockR U bw bid).on (labLen bw) (o.labels.getD k 0) (o.arr.shape.getD k 0) = false := by
        have : bw.sig.point (o.labels.getD k 0) = false := by
          rw [Bool.eq_false_iff]; intro hp; exact hin ((point_iff bw h _).mp hp).1
        simp only [Reix.on, blockR]; rw [this]; simp
      rw [hon]
      exact ⟨hsum, fun x => by simp⟩
  unfold opBlock
  rw [hkind]
  simp only [if_true, restrict, opExtent, lowOpd_labels, lowOpd_arr]
  constructor
  · simp only [reix]
    apply rangeMap_congr
    intro k hk
    exact (hax k hk).1
  · intro i hi
    have hil : i.length = o.labels.length := by
      have := InB.length_eq hi
      simpa using this
    simp only [reix]
    rw [vadd_rangeMap _ _ _ hil]
    congr 1
    apply rangeMap_congr
    intro k hk
    exact (hax k hk).2 _

theorem origin_eq_map (l : Layout) (bid : List Nat) (h : bid.length = l.length) :
    origin l bid = (List.range l.length).map (fun p => ((l.getD p []).take (bid.getD p 0)).sum) := by
  apply list_ext_getD
  · rw [origin_length h]; simp
  · intro k hk
    rw [origin_length h] at hk
    rw [origin_getD h k hk, getD_rangeMap _ _ _ _ hk]

theorem chunkss_of_new (U : Nat → List Nat) (bw : BW) (l : Nat) (v : List Nat)
    (h : bw.newAxes.lookup l = some v) : chunkss U bw l = some v := by
  unfold chunkss; rw [h]

/-- the block of the result is the result re-indexed by `blockR` -/
theorem reix_out_eq_restrict (U : Nat → List Nat) (bw : BW) (h : SOK bw) (bid : List Nat)
    (hb : validBid (outChunks U bw) bid) (y : Arr Int) (hy : y.shape = bw.sig.outShape (labLen bw)) :
    Arr.Equiv (reix (blockR U bw bid) (labLen bw) bw.outInd y) (restrict y (extent (outChunks U bw) bid)) := by
  have hbl : bid.length = (outChunks U bw).length := hb.length_eq
  have hol := outChunks_length U bw
  have hax : ∀ k, k < bw.outInd.length →
      (if (blockR U bw bid).on (labLen bw) (bw.outInd.getD k 0) (y.shape.getD k 0)
        then (blockR U bw bid).len (bw.outInd.getD k 0) else y.shape.getD k 0) =
        ((outChunks U bw).getD k []).getD (bid.getD k 0) 0 ∧
      ∀ x, (if (blockR U bw bid).on (labLen bw) (bw.outInd.getD k 0) (y.shape.getD k 0)
        then (blockR U bw bid).map (bw.outInd.getD k 0) x else x) =
        (((outChunks U bw).getD k []).take (bid.getD k 0)).sum + x := by
    intro k hk
    have hin : bw.outInd.getD k 0 ∈ bw.outInd := getD_mem _ _ _ hk
    have hidx := idxOf_getD_of_nodup _ h.nodup k hk
    have hys : y.shape.getD k 0 =
        ((bw.newAxes.lookup (bw.outInd.getD k 0)).map List.sum).getD (labLen bw (bw.outInd.getD k 0)) := by
      rw [hy, sig_outShape, getD_map _ bw.outInd k 0 0 hk]
    have hlt := hb.getD_lt k (by omega)
    rw [outChunks_getD U bw h k hk] at hlt ⊢
    cases hnew : bw.newAxes.lookup (bw.outInd.getD k 0) with
    | some v =>
      have hon : (blockR U bw bid).on (labLen bw) (bw.outInd.getD k 0) (y.shape.getD k 0) = false := by
        have : bw.sig.point (bw.outInd.getD k 0) = false := by
          rw [Bool.eq_false_iff]; intro hp
          have := ((point_iff bw h _).mp hp).2
          rw [hnew] at this; simp at this
        simp only [Reix.on, blockR]; rw [this]; simp
      rw [hon, chunkss_of_new U bw _ v hnew] at *
      have hv1 : v.length = 1 := (h.newIn _ (lookup_some_mem _ _ _ hnew)).2.1
      simp only [Option.getD_some] at hlt ⊢
      have hb0 : bid.getD k 0 = 0 := by omega
      rw [hb0, hys, hnew]
      match v, hv1 with
      | [m], _ => simp
    | none =>
      have hp : bw.sig.point (bw.outInd.getD k 0) = true := (point_iff bw h _).mpr ⟨hin, hnew⟩
      have hyN : y.shape.getD k 0 = labLen bw (bw.outInd.getD k 0) := by rw [hys, hnew]; rfl
      have hon : (blockR U bw bid).on (labLen bw) (bw.outInd.getD k 0) (y.shape.getD k 0) = true := by
        simp only [Reix.on, blockR]; rw [hp, hyN]; simp
      rw [if_pos hon]
      refine ⟨?_, fun x => ?_⟩
      · simp only [blockR]; rw [hidx]
      · rw [if_pos hon]; simp only [blockR]; rw [hidx]
  constructor
  · simp only [reix, restrict, extent]
    rw [blockShape_eq_map _ _ hbl, hol]
    apply rangeMap_congr
    intro k hk
    exact (hax k hk).1
  · intro i hi
    have hil : i.length = bw.outInd.length := by
      have := InB.length_eq hi
      simpa [reix] using this
    simp only [reix, restrict, extent]
    rw [origin_eq_map _ _ hbl, hol, vadd_rangeMap _ _ _ hil]
    congr 1
    apply rangeMap_congr
    intro k hk
    exact (hax k hk).2 _

/-- **Blocks assemble to `f` of the whole operands.** -/
theorem den_eq_whole (U : Nat → List Nat) (bw : BW) (h : SOK bw) (hL : LOK U bw)
    (hf : LabelLocal bw.sig bw.f) : Arr.Equiv (den U bw) (bw.f bw.wholes) := by
  have hI := isLen_wholes bw h
  have hshape := hf.shape _ _ hI
  have hlen : bw.sig.inds.length = bw.ops.length := by simp [BW.sig]
  unfold den
  apply assemble_of_blocks
  · rw [hshape, sig_outShape]
    unfold outChunks
    rw [List.map_map]
    apply List.map_congr_left
    intro l hl
    simp only [Function.comp, h.noAdj, List.lookup_nil, Option.getD_none]
    cases hnew : bw.newAxes.lookup l with
    | some v => rw [chunkss_of_new U bw l v hnew]; rfl
    | none =>
      rcases hL.lab l hl with c | c
      · rw [hnew] at c; simp at c
      · simpa using c.1
  · intro bid hb
    have h1 : Arr.Equiv (blockOf U bw bid)
        (bw.f ((List.range bw.sig.inds.length).map (fun t =>
          reix (blockR U bw bid) (labLen bw) (bw.sig.inds.getD t []) (bw.wholes.getD t dA)))) := by
      unfold blockOf
      rw [lowered_ops, List.map_map]
      apply hf.congr
      · simp [hlen]
      · intro t ht
        have ht' : t < bw.ops.length := by simpa using ht
        rw [getD_map _ bw.ops t dO dA ht', getD_rangeMap _ _ _ _ (by omega),
          sig_inds_getD bw t ht', wholes_getD bw t ht']
        exact opBlock_eq_reix U bw h hL bid hb _ (getD_mem _ _ _ ht')
    have h2 := hf.natural (blockR U bw bid) bw.wholes (labLen bw) hI (fun l hl => hl) (by
      intro l hl x hx
      obtain ⟨hin, hnew⟩ := (point_iff bw h l).mp hl
      have hlt := bid_lt U bw h bid hb l hin
      have hs : ((chunkss U bw l).getD []).sum = labLen bw l := by
        rcases hL.lab l hin with c | c
        · rw [hnew] at c; simp at c
        · exact c.1
      have := sum_take_add_getD_le _ _ hlt
      simp only [blockR] at hx ⊢
      omega)
    have h3 := reix_out_eq_restrict U bw h bid hb (bw.f bw.wholes) hshape
    exact (h1.trans h2).trans h3

end Dask.BWG
