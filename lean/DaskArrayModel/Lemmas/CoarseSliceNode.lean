/-
Node level: `Blockwise.chunks` of the rewritten node (`nodeChunks (rewritten n r)`) are the chunks of the kept output
blocks; positive operand chunks give `keepsAll`.
-/
import DaskArrayModel.Lemmas.CoarseSliceOvl
namespace Dask.Lemmas.Coarse
open Dask.Py Dask.Py.PySlice Dask.Slicing Dask.Coarse
open Dask.Lemmas.Slice1dPos

/-! ### what success of the rule says about plans and operand axes -/

/-- every kept range is a non-empty range of existing output blocks -/
def PlansOK (plans : List AxisPlan) (nb : List Nat) : Prop :=
  ∀ pos f l, (plans.getD pos dfltPlan).br = some (f, l) → f ≤ l ∧ l < nb.getD pos 0

theorem acceptAxis_brOK (c : List Int) (hc : ∀ x ∈ c, 0 ≤ x) (i : Idx) (hi : idxOK (isum c) i = true) (p : AxisPlan)
    (h : acceptAxis c i = some p) : brOK c.length p := by
  cases i with
  | int i =>
    simp only [idxOK, decide_eq_true_eq] at hi
    obtain ⟨f, l, hacc, hfl, hl, _, _⟩ := acceptAxis_int c hc i hi.1 hi.2
    rw [hacc] at h
    have := Option.some.inj h
    subst this
    intro f' l' hbr
    simp only [Option.some.injEq, Prod.mk.injEq] at hbr
    omega
  | slc s =>
    by_cases hcol : s = colon
    · subst hcol
      have : p = ⟨none, .colon⟩ := by
        unfold acceptAxis at h
        simp at h
        exact h.symm
      subst this
      intro f l hbr; simp at hbr
    · obtain ⟨_, _, f, l, hbr, hfl, hl, _⟩ := acceptAxis_slc c hc s hcol p h
      intro f' l' hbr'
      rw [hbr] at hbr'
      simp only [Option.some.injEq, Prod.mk.injEq] at hbr'
      omega

theorem plans_ok : ∀ (oc : List (List Int)) (idx : List Idx) (plans : List AxisPlan),
    (∀ cs ∈ oc, ∀ c ∈ cs, 0 ≤ c) → axisPlans oc idx = some plans → idxsOK oc idx = true →
    PlansOK plans (oc.map List.length) ∧ plans.length = min oc.length idx.length
  | [], idx, plans, _, h, _ => by
    have : plans = [] := by unfold axisPlans at h; exact (Option.some.inj h).symm
    subst this
    refine ⟨?_, by simp⟩
    intro pos f l hbr; simp [dfltPlan] at hbr
  | c :: cs, [], plans, _, h, _ => by
    have : plans = [] := by unfold axisPlans at h; exact (Option.some.inj h).symm
    subst this
    refine ⟨?_, by simp⟩
    intro pos f l hbr; simp [dfltPlan] at hbr
  | c :: cs, i :: is, plans, hnn, h, hok => by
    obtain ⟨p, ps, hp, hps, rfl⟩ := axisPlans_cons_some c cs i is plans h
    simp only [idxsOK, List.zip_cons_cons, List.all_cons, Bool.and_eq_true] at hok
    have hc : ∀ x ∈ c, 0 ≤ x := hnn c (by simp)
    have hcs : ∀ cs' ∈ cs, ∀ x ∈ cs', 0 ≤ x := fun cs' h' => hnn cs' (by simp [h'])
    obtain ⟨ih1, ih2⟩ := plans_ok cs is ps hcs hps hok.2
    have hb := acceptAxis_brOK c hc i hok.1 p hp
    refine ⟨?_, by simp [ih2] <;> omega⟩
    intro pos f l hbr
    cases pos with
    | zero =>
      simp only [List.getD_cons_zero, List.map_cons] at hbr ⊢
      exact hb f l hbr
    | succ pos =>
      simp only [List.getD_cons_succ, List.map_cons] at hbr ⊢
      exact ih1 pos f l hbr

/-- the gate of one sliced operand axis: as many blocks as the output has -/
theorem opAxisSlice_gate (outInd : List Nat) (plans : List AxisPlan) (nb : List Nat) (lab : Nat) (ic : List Int)
    (s : Option (Int × Int)) (hs : opAxisSlice outInd plans nb lab ic = some s) (hc : outInd.contains lab = true)
    (f l : Nat) (hbr : (plans.getD (outInd.idxOf lab) dfltPlan).br = some (f, l)) :
    ic.length = nb.getD (outInd.idxOf lab) 0 ∧ ic.contains 0 = false := by
  unfold opAxisSlice at hs
  simp only [hc, if_true] at hs
  have hbr' : (plans.getD (outInd.idxOf lab) ⟨none, .colon⟩).br = some (f, l) := hbr
  rw [hbr'] at hs
  simp only at hs
  by_cases hg : ic.length ≠ nb.getD (outInd.idxOf lab) 0
  · rw [if_pos hg] at hs; simp at hs
  · rw [if_neg hg] at hs
    by_cases hz : ic.contains 0 = true
    · rw [if_pos hz] at hs; simp at hs
    · exact ⟨by omega, by simpa using hz⟩

/-- per-label effect of the rewrite on the chunks of an operand axis -/
def keepFor (outInd : List Nat) (plans : List AxisPlan) (lab : Nat) (ic : List Int) : List Int :=
  if outInd.contains lab then
    match (plans.getD (outInd.idxOf lab) dfltPlan).br with
    | none => ic
    | some (f, l) => keptChunks ic f l
  else ic

theorem opChunksAfter_eq_keepFor (outInd : List Nat) (plans : List AxisPlan) (nb : List Nat) (lab : Nat) (ic : List Int)
    (s : Option (Int × Int)) (hs : opAxisSlice outInd plans nb lab ic = some s)
    (hk : keepsAxis outInd plans lab ic = true) :
    opChunksAfter ic s = keepFor outInd plans lab ic := by
  unfold opAxisSlice at hs
  unfold keepsAxis at hk
  unfold keepFor
  by_cases hc : outInd.contains lab = true
  · simp only [hc, if_true] at hs hk ⊢
    cases hbr : (plans.getD (outInd.idxOf lab) dfltPlan).br with
    | none =>
      have hbr' : (plans.getD (outInd.idxOf lab) ⟨none, .colon⟩).br = none := hbr
      rw [hbr'] at hs
      have : s = none := (Option.some.inj hs).symm
      subst this
      rfl
    | some fl =>
      obtain ⟨f, l2⟩ := fl
      have hbr' : (plans.getD (outInd.idxOf lab) ⟨none, .colon⟩).br = some (f, l2) := hbr
      rw [hbr'] at hs hk
      simp only at hs hk
      by_cases hg : ic.length ≠ nb.getD (outInd.idxOf lab) 0
      · rw [if_pos hg] at hs; simp at hs
      · rw [if_neg hg] at hs
        by_cases hz : ic.contains 0 = true
        · rw [if_pos hz] at hs; simp at hs
        rw [if_neg hz] at hs
        have : s = some ((cum0 ic).getD f 0, (cum0 ic).getD (l2 + 1) 0) := (Option.some.inj hs).symm
        subst this
        simp only [sliceKeeps, decide_eq_true_eq] at hk
        exact hk
  · have hc' : outInd.contains lab = false := by simpa using hc
    simp only [hc', Bool.false_eq_true, if_false] at hs ⊢
    have : s = none := (Option.some.inj hs).symm
    subst this
    rfl

theorem axes_chunks (outInd : List Nat) (plans : List AxisPlan) (nb : List Nat) :
    ∀ (ind : List Nat) (chunks : List (List Int)) (sl : List (Option (Int × Int))),
    opAxesSlices outInd plans nb ind chunks = some sl →
    (ind.zip chunks).all (fun p => keepsAxis outInd plans p.1 p.2) = true →
    ind.zip (List.zipWith opChunksAfter chunks sl)
      = (ind.zip chunks).map (fun p => (p.1, keepFor outInd plans p.1 p.2))
  | [], _, _, _, _ => by simp
  | l :: ls, [], sl, h, _ => by
    have : sl = [] := by unfold opAxesSlices at h; exact (Option.some.inj h).symm
    subst this; simp
  | l :: ls, ic :: ics, sl, h, hk => by
    obtain ⟨s, ss, hs, hss, rfl⟩ := opAxesSlices_cons_some outInd plans nb l ls ic ics sl h
    simp only [List.zip_cons_cons, List.all_cons, Bool.and_eq_true] at hk
    have ih := axes_chunks outInd plans nb ls ics ss hss hk.2
    simp only [List.zipWith_cons_cons, List.zip_cons_cons, List.map_cons]
    rw [ih, opChunksAfter_eq_keepFor outInd plans nb l ic s hs hk.1]

theorem chunkPairs_cons (o : Opd) (os : List Opd) :
    chunkPairs (o :: os) = (match o.ind with | none => [] | some ind => ind.zip o.chunks) ++ chunkPairs os := by
  rfl

/-- the `(label, chunks)` pairs of the rewritten node -/
theorem chunkPairs_rewritten (outInd : List Nat) (plans : List AxisPlan) (nb : List Nat) :
    ∀ (ops : List Opd) (sls : List (Option (List (Option (Int × Int))))),
    mapOpt (opSlice outInd plans nb) ops = some sls → keepsAll outInd plans ops = true →
    chunkPairs (List.zipWith sliceOpd ops sls)
      = (chunkPairs ops).map (fun p => (p.1, keepFor outInd plans p.1 p.2))
  | [], sls, h, _ => by
    have : sls = [] := by unfold mapOpt at h; exact (Option.some.inj h).symm
    subst this; simp [chunkPairs]
  | o :: os, sls, h, hk => by
    obtain ⟨r, rs, hr, hrs, rfl⟩ := mapOpt_cons_some _ _ _ _ h
    simp only [keepsAll, List.all_cons, Bool.and_eq_true] at hk
    have ih := chunkPairs_rewritten outInd plans nb os rs hrs (by simpa [keepsAll] using hk.2)
    simp only [List.zipWith_cons_cons]
    rw [chunkPairs_cons, chunkPairs_cons, ih, List.map_append]
    congr 1
    rcases opSlice_cases outInd plans nb o r hr with ⟨hn, rfl⟩ | ⟨ind, sl, hi, rfl, hsl⟩
    · simp [sliceOpd, hn]
    · have hk1 := hk.1
      rw [hi] at hk1
      simp only at hk1
      simp only [sliceOpd, hi]
      exact axes_chunks outInd plans nb ind o.chunks sl hsl hk1

/-- every operand axis that carries a sliced label passed the gate -/
theorem pairs_gate (outInd : List Nat) (plans : List AxisPlan) (nb : List Nat) :
    ∀ (ops : List Opd) (sls : List (Option (List (Option (Int × Int))))),
    mapOpt (opSlice outInd plans nb) ops = some sls →
    ∀ q ∈ chunkPairs ops, outInd.contains q.1 = true → ∀ f l,
      (plans.getD (outInd.idxOf q.1) dfltPlan).br = some (f, l) →
        q.2.length = nb.getD (outInd.idxOf q.1) 0 ∧ q.2.contains 0 = false
  | [], _, _ => by intro q hq; simp [chunkPairs] at hq
  | o :: os, sls, h => by
    obtain ⟨r, rs, hr, hrs, rfl⟩ := mapOpt_cons_some _ _ _ _ h
    have ih := pairs_gate outInd plans nb os rs hrs
    intro q hq hc f l hbr
    rw [chunkPairs_cons, List.mem_append] at hq
    rcases hq with hq | hq
    · rcases opSlice_cases outInd plans nb o r hr with ⟨hn, _⟩ | ⟨ind, sl, hi, _, hsl⟩
      · rw [hn] at hq; simp at hq
      · rw [hi] at hq
        simp only at hq
        -- walk down the axes
        have key : ∀ (ind : List Nat) (chunks : List (List Int)) (sl : List (Option (Int × Int))),
            opAxesSlices outInd plans nb ind chunks = some sl → q ∈ ind.zip chunks →
            q.2.length = nb.getD (outInd.idxOf q.1) 0 ∧ q.2.contains 0 = false := by
          intro ind
          induction ind with
          | nil => intro chunks sl _ hm; simp at hm
          | cons l0 ls ihl =>
            intro chunks sl hsl hm
            cases chunks with
            | nil => simp at hm
            | cons ic ics =>
              obtain ⟨s, ss, hs, hss, _⟩ := opAxesSlices_cons_some outInd plans nb l0 ls ic ics sl hsl
              simp only [List.zip_cons_cons, List.mem_cons] at hm
              rcases hm with rfl | hm
              · exact opAxisSlice_gate outInd plans nb l0 ic s hs hc f l hbr
              · exact ihl ics ss hss hm
        exact key ind o.chunks sl hsl hq
    · exact ih q hq hc f l hbr

/-! ### "most blocks wins" -/

theorem foldl_mostBlocks_keep (b : List Int) : ∀ (qs : List (Nat × List Int)), (∀ q ∈ qs, q.2.length ≤ b.length) →
    qs.foldl (fun best q => mostBlocks best q.2) (some b) = some b
  | [], _ => rfl
  | q :: qs, h => by
    have hq := h q (by simp)
    simp only [List.foldl_cons, mostBlocks]
    rw [if_neg (by omega)]
    exact foldl_mostBlocks_keep b qs (fun q' hq' => h q' (by simp [hq']))

theorem foldl_mostBlocks_same (N : Nat) (qs : List (Nat × List Int)) (h : ∀ q ∈ qs, q.2.length = N) :
    qs.foldl (fun best q => mostBlocks best q.2) none = qs.head?.map (·.2) := by
  cases qs with
  | nil => rfl
  | cons q qs =>
    simp only [List.foldl_cons, mostBlocks, List.head?_cons, Option.map_some]
    apply foldl_mostBlocks_keep
    intro q' hq'
    rw [h q' (by simp [hq']), h q (by simp)]
    exact Nat.le_refl N

theorem filter_label_map (l : Nat) (K : Nat → List Int → List Int) : ∀ (L : List (Nat × List Int)),
    (L.map (fun p => (p.1, K p.1 p.2))).filter (fun q => q.1 == l)
      = (L.filter (fun q => q.1 == l)).map (fun p => (p.1, K l p.2))
  | [] => rfl
  | (k, v) :: ps => by
    simp only [List.map_cons, List.filter_cons]
    by_cases hp : (k == l) = true
    · have : k = l := by simpa using hp
      subst this
      simp [filter_label_map k K ps]
    · simp [hp, filter_label_map l K ps]

/-! ### `adjust_chunks` of the rewritten node -/

theorem lookup_map_key (l l' : Nat) (g : AdjKind → AdjKind) : ∀ (adj : List (Nat × AdjKind)),
    (adj.map (fun e => if e.1 == l' then (e.1, g e.2) else e)).lookup l
      = if l == l' then (adj.lookup l).map g else adj.lookup l
  | [] => by simp
  | (k, v) :: rest => by
    have ih := lookup_map_key l l' g rest
    simp only [List.map_cons]
    by_cases hk : k == l'
    · have hk' : k = l' := by simpa using hk
      simp only [hk, if_true, List.lookup_cons]
      by_cases hl : l == k
      · have : l = k := by simpa using hl
        subst this; subst hk'
        simp
      · simp only [hl]
        rw [ih]
    · simp only [hk, Bool.false_eq_true, if_false, List.lookup_cons]
      by_cases hl : l == k
      · have hlk : l = k := by simpa using hl
        have : ¬ (l == l') = true := by
          subst hlk; exact hk
        simp [hl, this]
      · simp only [hl]
        rw [ih]

theorem sliceAdjust_lookup_notin (l : Nat) : ∀ (ls : List Nat) (ps : List AxisPlan) (adj : List (Nat × AdjKind)),
    l ∉ ls → (sliceAdjust ls ps adj).lookup l = adj.lookup l
  | [], _, _, _ => by simp [sliceAdjust]
  | _ :: _, [], _, _ => by simp [sliceAdjust]
  | l0 :: ls, p :: ps, adj, h => by
    have h0 : l ≠ l0 := fun e => h (by simp [e])
    have hls : l ∉ ls := fun e => h (by simp [e])
    unfold sliceAdjust
    cases hbr : p.br with
    | none => simp only; exact sliceAdjust_lookup_notin l ls ps adj hls
    | some fl =>
      obtain ⟨f, l2⟩ := fl
      simp only
      rw [sliceAdjust_lookup_notin l ls ps _ hls, lookup_map_key]
      have : ¬ (l == l0) = true := by simpa using h0
      simp [this]

/-- the entry of the label at position `a` after the loop over `block_ranges` -/
theorem sliceAdjust_lookup : ∀ (ls : List Nat) (ps : List AxisPlan) (adj : List (Nat × AdjKind)) (a : Nat),
    ls.Nodup → a < ls.length → ps.length = ls.length →
    (sliceAdjust ls ps adj).lookup (ls.getD a 0)
      = match (ps.getD a dfltPlan).br with
        | none => adj.lookup (ls.getD a 0)
        | some (f, l2) => (adj.lookup (ls.getD a 0)).map (sliceAdjKind f l2)
  | [], _, _, _, _, h, _ => by simp at h
  | _ :: _, [], _, _, _, _, h => by simp at h
  | l0 :: ls, p :: ps, adj, a, hnd, ha, hlen => by
    rw [List.nodup_cons] at hnd
    cases a with
    | zero =>
      simp only [List.getD_cons_zero]
      unfold sliceAdjust
      cases hbr : p.br with
      | none => simp only; exact sliceAdjust_lookup_notin l0 ls ps adj hnd.1
      | some fl =>
        obtain ⟨f, l2⟩ := fl
        simp only
        rw [sliceAdjust_lookup_notin l0 ls ps _ hnd.1, lookup_map_key]
        simp
    | succ a =>
      simp only [List.getD_cons_succ]
      have ha' : a < ls.length := by simpa using ha
      have hne : ls.getD a 0 ≠ l0 := by
        intro e
        apply hnd.1
        rw [← e, List.getD_eq_getElem?_getD, List.getElem?_eq_getElem ha']
        exact List.getElem_mem _
      unfold sliceAdjust
      cases hbr : p.br with
      | none =>
        simp only
        exact sliceAdjust_lookup ls ps adj a hnd.2 ha' (by simpa using hlen)
      | some fl =>
        obtain ⟨f, l2⟩ := fl
        simp only
        rw [sliceAdjust_lookup ls ps _ a hnd.2 ha' (by simpa using hlen), lookup_map_key]
        have : ¬ (ls.getD a 0 == l0) = true := by simpa using hne
        simp only [if_neg this]

/-! ### `mapOpt` over the output labels -/

theorem mapOpt_map_label {β : Type} (g g' : Nat → Option β) (φ : Nat → β → β) : ∀ (ls : List Nat) (cs : List β),
    (∀ l ∈ ls, g' l = (g l).map (φ l)) → mapOpt g ls = some cs →
    mapOpt g' ls = some (List.zipWith φ ls cs)
  | [], cs, _, h => by
    have : cs = [] := by unfold mapOpt at h; exact (Option.some.inj h).symm
    subst this; rfl
  | l :: ls, cs, hg, h => by
    obtain ⟨c, cs', hc, hcs, rfl⟩ := mapOpt_cons_some _ _ _ _ h
    have ih := mapOpt_map_label g g' φ ls cs' (fun l' hl' => hg l' (by simp [hl'])) hcs
    unfold mapOpt
    rw [hg l (by simp), hc]
    simp only [Option.map_some]
    rw [ih]
    rfl

theorem mapOpt_length {α β : Type} (g : α → Option β) : ∀ (ls : List α) (cs : List β),
    mapOpt g ls = some cs → cs.length = ls.length
  | [], cs, h => by
    have : cs = [] := by unfold mapOpt at h; exact (Option.some.inj h).symm
    subst this; rfl
  | l :: ls, cs, h => by
    obtain ⟨c, cs', _, hcs, rfl⟩ := mapOpt_cons_some _ _ _ _ h
    simp [mapOpt_length g ls cs' hcs]

theorem zipWith_label_eq (outInd : List Nat) (hnd : outInd.Nodup) (plans : List AxisPlan) (oc : List (List Int))
    (h1 : oc.length = outInd.length) (h2 : plans.length = outInd.length) :
    List.zipWith (fun l c => keptOut1 c (plans.getD (outInd.idxOf l) dfltPlan)) outInd oc
      = List.zipWith keptOut1 oc plans := by
  apply List.ext_getElem
  · simp [h1, h2]
  · intro i hi1 hi2
    simp only [List.getElem_zipWith]
    have hi : i < outInd.length := by simp at hi1; omega
    rw [hnd.idxOf_getElem i hi]
    congr 1
    rw [List.getD_eq_getElem?_getD, List.getElem?_eq_getElem (by omega)]
    rfl

/-! ### the node -/

/-- labels whose axis is sliced are not `new_axes` labels (`_accept_slice` declines those before the coarse path) -/
def slicedNotNew (n : Node) (plans : List AxisPlan) : Prop :=
  ∀ a, (plans.getD a dfltPlan).br ≠ none → n.newAxes.lookup (n.outInd.getD a 0) = none

/-- **`Blockwise.chunks` of the rewritten node = the chunks of the kept output blocks.** -/
theorem rewritten_chunks (n : Node) (oc : List (List Int)) (idx : List Idx) (r : Result)
    (hch : nodeChunks n = some oc) (h : acceptCoarse0 n oc idx = some r)
    (hoc : ∀ cs ∈ oc, ∀ c ∈ cs, 0 ≤ c) (hnd : n.outInd.Nodup) (hil : idx.length ≤ n.outInd.length)
    (hok : idxsOK oc (fullIndex idx n.outInd.length) = true)
    (hkeep : keepsAll n.outInd r.plans n.ops = true) (hnew : slicedNotNew n r.plans) :
    nodeChunks (rewritten n r) = some (keptOut oc r.plans) := by
  have hlen : oc.length = n.outInd.length := mapOpt_length _ _ _ hch
  unfold acceptCoarse0 at h
  try simp only at h
  cases hp : axisPlans oc (fullIndex idx n.outInd.length) with
  | none => rw [hp] at h; simp at h
  | some plans =>
    rw [hp] at h
    try simp only at h
    cases hs : mapOpt (opSlice n.outInd plans (oc.map List.length)) n.ops with
    | none => rw [hs] at h; simp at h
    | some sls =>
      rw [hs] at h
      have hr := (Option.some.inj h).symm
      subst hr
      try simp only at hkeep hnew ⊢
      obtain ⟨hpok, hplen⟩ := plans_ok oc _ plans hoc hp hok
      rw [fullIndex_length idx _ hil, hlen, Nat.min_self] at hplen
      rw [keptOut_eq, ← zipWith_label_eq n.outInd hnd plans oc hlen hplen]
      unfold nodeChunks at hch ⊢
      apply mapOpt_map_label _ _ _ n.outInd oc _ hch
      intro l hl
      -- position of the label
      have hcont : n.outInd.contains l = true := List.contains_iff_mem.mpr hl
      have hidx : n.outInd.idxOf l < n.outInd.length := List.idxOf_lt_length_iff.mpr hl
      have hget : n.outInd.getD (n.outInd.idxOf l) 0 = l := by
        rw [List.getD_eq_getElem?_getD, List.getElem?_eq_getElem hidx]
        exact List.getElem_idxOf hidx
      -- the adjust entry
      have hadj := sliceAdjust_lookup n.outInd plans n.adjust (n.outInd.idxOf l) hnd hidx hplen
      rw [hget] at hadj
      -- the (label, chunks) pairs
      have hpairs := chunkPairs_rewritten n.outInd plans (oc.map List.length) n.ops sls hs hkeep
      have hgate := pairs_gate n.outInd plans (oc.map List.length) n.ops sls hs
      simp only [rewritten]
      -- chunkss of the rewritten node
      have hcs : chunkss { n with ops := List.zipWith sliceOpd n.ops sls,
                                  adjust := sliceAdjust n.outInd plans n.adjust } l
          = (chunkss n l).map (fun c => keptOut1 c (plans.getD (n.outInd.idxOf l) dfltPlan)) := by
        unfold chunkss
        simp only
        cases hbr : (plans.getD (n.outInd.idxOf l) dfltPlan).br with
        | none =>
          have hk1 : ∀ c, keptOut1 c (plans.getD (n.outInd.idxOf l) dfltPlan) = c := by
            intro c; simp only [keptOut1, hbr]
          simp only [hk1, Option.map_id']
          cases n.newAxes.lookup l with
          | some v => rfl
          | none =>
            simp only
            rw [hpairs, filter_label_map]
            have : (fun (p : Nat × List Int) => (p.1, keepFor n.outInd plans l p.2)) = id := by
              funext p
              simp only [keepFor, hcont, if_true, hbr, id]
            rw [this, List.map_id]
        | some fl =>
          obtain ⟨f, l2⟩ := fl
          have hna : n.newAxes.lookup l = none := by
            have := hnew (n.outInd.idxOf l) (by rw [hbr]; simp)
            rwa [hget] at this
          obtain ⟨hfl, hl2⟩ := hpok (n.outInd.idxOf l) f l2 hbr
          rw [hna]
          simp only
          rw [hpairs, filter_label_map]
          have hsame : ∀ q ∈ (chunkPairs n.ops).filter (fun q => q.1 == l),
              q.2.length = (oc.map List.length).getD (n.outInd.idxOf l) 0 := by
            intro q hq
            rw [List.mem_filter] at hq
            have hql : q.1 = l := by simpa using hq.2
            have := (hgate q hq.1 (by rw [hql]; exact hcont) f l2 (by rw [hql]; exact hbr)).1
            rwa [hql] at this
          have hsame' : ∀ q ∈ ((chunkPairs n.ops).filter (fun q => q.1 == l)).map
              (fun p => (p.1, keepFor n.outInd plans l p.2)), q.2.length = l2 + 1 - f := by
            intro q hq
            rw [List.mem_map] at hq
            obtain ⟨p, hp', rfl⟩ := hq
            simp only [keepFor, hcont, if_true, hbr]
            exact keptChunks_length p.2 f l2 (by rw [hsame p hp']; exact hl2) hfl
          rw [foldl_mostBlocks_same _ _ hsame, foldl_mostBlocks_same _ _ hsame', List.head?_map]
          cases ((chunkPairs n.ops).filter (fun q => q.1 == l)).head? with
          | none => rfl
          | some p => simp only [Option.map_some, keepFor, hcont, if_true, hbr, keptOut1]
      rw [hcs]
      -- apply the (sliced) adjust entry
      cases hbase : chunkss n l with
      | none => simp
      | some base =>
        simp only [Option.map_some, Option.bind_some]
        cases hbr : (plans.getD (n.outInd.idxOf l) dfltPlan).br with
        | none =>
          rw [hbr] at hadj
          simp only at hadj
          rw [hadj]
          have hk1 : keptOut1 base (plans.getD (n.outInd.idxOf l) dfltPlan) = base := by simp only [keptOut1, hbr]
          rw [hk1]
          cases applyAdjust (n.adjust.lookup l) base with
          | none => rfl
          | some c => simp only [Option.map_some, keptOut1, hbr]
        | some fl =>
          obtain ⟨f, l2⟩ := fl
          rw [hbr] at hadj
          simp only at hadj
          rw [hadj]
          obtain ⟨hfl, hl2⟩ := hpok (n.outInd.idxOf l) f l2 hbr
          have hk1 : keptOut1 base (plans.getD (n.outInd.idxOf l) dfltPlan) = keptChunks base f l2 := by
            simp only [keptOut1, hbr]
          rw [hk1]
          cases hap : applyAdjust (n.adjust.lookup l) base with
          | none =>
            -- cannot happen: `nodeChunks n` succeeded on this label
            exfalso
            have : ∀ (ls : List Nat) (cs : List (List Int)),
                mapOpt (fun l => (chunkss n l).bind (applyAdjust (n.adjust.lookup l))) ls = some cs → l ∈ ls →
                False := by
              intro ls
              induction ls with
              | nil => intro cs _ hm; simp at hm
              | cons l0 ls ih =>
                intro cs hm hmem
                obtain ⟨c, cs', hc, hcs', _⟩ := mapOpt_cons_some _ _ _ _ hm
                rw [List.mem_cons] at hmem
                rcases hmem with rfl | hmem
                · rw [hbase] at hc
                  simp only [Option.bind_some] at hc
                  rw [hap] at hc
                  simp at hc
                · exact ih cs' hcs' hmem
            exact this n.outInd oc hch hl
          | some c =>
            simp only [Option.map_some]
            -- block count of the label's chunks = that of the output
            have hbl : l2 < base.length := by
              -- `oc[pos] = c` and `c.length = base.length`
              have hclen : c.length = base.length := by
                cases hk : n.adjust.lookup l with
                | none => rw [hk] at hap; simp only [applyAdjust] at hap; rw [← Option.some.inj hap]
                | some k =>
                  rw [hk] at hap
                  cases k with
                  | fn g => simp only [applyAdjust] at hap; rw [← Option.some.inj hap]; simp
                  | const v => simp only [applyAdjust] at hap; rw [← Option.some.inj hap]; simp
                  | tuple t =>
                    simp only [applyAdjust] at hap
                    by_cases ht : t.length ≠ base.length
                    · rw [if_pos ht] at hap; simp at hap
                    · rw [if_neg ht] at hap; rw [← Option.some.inj hap]; omega
              -- `oc.getD pos = c`
              have hocpos : ∀ (ls : List Nat) (cs : List (List Int)),
                  mapOpt (fun l => (chunkss n l).bind (applyAdjust (n.adjust.lookup l))) ls = some cs → l ∈ ls →
                  (cs.map List.length).getD (ls.idxOf l) 0 = c.length := by
                intro ls
                induction ls with
                | nil => intro cs _ hm; simp at hm
                | cons l0 ls ih =>
                  intro cs hm hmem
                  obtain ⟨c0, cs', hc0, hcs', rfl⟩ := mapOpt_cons_some _ _ _ _ hm
                  by_cases h0 : l0 = l
                  · subst h0
                    rw [hbase] at hc0
                    simp only [Option.bind_some] at hc0
                    rw [hap] at hc0
                    have := Option.some.inj hc0
                    subst this
                    simp
                  · rw [List.mem_cons] at hmem
                    have hmem' : l ∈ ls := by
                      rcases hmem with e | e
                      · exact absurd e.symm h0
                      · exact e
                    have hb : (l0 == l) = false := by simpa using h0
                    simp only [List.idxOf_cons, hb, cond_false, List.map_cons, List.getD_cons_succ]
                    exact ih cs' hcs' hmem'
              have := hocpos n.outInd oc hch hl
              rw [this] at hl2
              omega
            have hk2 : keptOut1 c (plans.getD (n.outInd.idxOf l) dfltPlan) = keptChunks c f l2 := by
              simp only [keptOut1, hbr]
            rw [hk2]
            exact applyAdjust_kept (n.adjust.lookup l) base c f l2 hfl hbl hap

/-! ### positive operand chunks give `keepsAll` -/

theorem keepsAll_of_sliced_pos (outInd : List Nat) (plans : List AxisPlan) (nb : List Nat) (hpok : PlansOK plans nb)
    (ops : List Opd) (sls : List (Option (List (Option (Int × Int)))))
    (hs : mapOpt (opSlice outInd plans nb) ops = some sls)
    (hpos : ∀ q ∈ chunkPairs ops, outInd.contains q.1 = true → ∀ f l,
      (plans.getD (outInd.idxOf q.1) dfltPlan).br = some (f, l) → ∀ c ∈ q.2, 0 < c) :
    keepsAll outInd plans ops = true := by
  have hgate := pairs_gate outInd plans nb ops sls hs
  -- `keepsAll` is `all` over the pairs of every operand
  have key : ∀ q ∈ chunkPairs ops, keepsAxis outInd plans q.1 q.2 = true := by
    intro q hq
    unfold keepsAxis
    by_cases hc : outInd.contains q.1 = true
    · simp only [hc, if_true]
      cases hbr : (plans.getD (outInd.idxOf q.1) dfltPlan).br with
      | none =>
        have hbr' : (plans.getD (outInd.idxOf q.1) ⟨none, .colon⟩).br = none := hbr
        rw [hbr']
      | some fl =>
        obtain ⟨f, l⟩ := fl
        have hbr' : (plans.getD (outInd.idxOf q.1) ⟨none, .colon⟩).br = some (f, l) := hbr
        rw [hbr']
        simp only
        obtain ⟨hfl, hl⟩ := hpok _ f l hbr
        exact sliceKeeps_of_pos q.2 (hpos q hq hc f l hbr) f l hfl (by rw [(hgate q hq hc f l hbr).1]; exact hl)
    · have hc' : outInd.contains q.1 = false := by simpa using hc
      simp only [hc', Bool.false_eq_true, if_false]
  clear hgate hs hpos
  induction ops with
  | nil => rfl
  | cons o os ih =>
    simp only [keepsAll, List.all_cons, Bool.and_eq_true]
    constructor
    · cases hi : o.ind with
      | none => rfl
      | some ind =>
        simp only
        rw [List.all_eq_true]
        intro p hp
        apply key
        rw [chunkPairs_cons, hi]
        simp only [List.mem_append]
        exact Or.inl hp
    · have := ih (fun q hq => key q (by rw [chunkPairs_cons]; exact List.mem_append_right _ hq))
      simpa [keepsAll] using this

theorem keepsAll_of_pos (outInd : List Nat) (plans : List AxisPlan) (nb : List Nat) (hpok : PlansOK plans nb)
    (ops : List Opd) (sls : List (Option (List (Option (Int × Int)))))
    (hs : mapOpt (opSlice outInd plans nb) ops = some sls)
    (hpos : ∀ q ∈ chunkPairs ops, ∀ c ∈ q.2, 0 < c) :
    keepsAll outInd plans ops = true :=
  keepsAll_of_sliced_pos outInd plans nb hpok ops sls hs (fun q hq _ _ _ _ => hpos q hq)

/-- **the rule having fired gives `keepsAll`**: every sliced operand axis passed `0 in arg.chunks[dim_idx]` -/
theorem keepsAll_of_fired (outInd : List Nat) (plans : List AxisPlan) (nb : List Nat) (hpok : PlansOK plans nb)
    (ops : List Opd) (sls : List (Option (List (Option (Int × Int)))))
    (hs : mapOpt (opSlice outInd plans nb) ops = some sls)
    (hnn : ∀ q ∈ chunkPairs ops, ∀ c ∈ q.2, 0 ≤ c) :
    keepsAll outInd plans ops = true := by
  apply keepsAll_of_sliced_pos outInd plans nb hpok ops sls hs
  intro q hq hc f l hbr c hcm
  have hz := (pairs_gate outInd plans nb ops sls hs q hq hc f l hbr).2
  have h0 := hnn q hq c hcm
  have hne : c ≠ 0 := by
    intro e
    subst e
    have : q.2.contains 0 = true := List.contains_iff_mem.mpr hcm
    rw [hz] at this
    exact Bool.false_ne_true this
  omega

end Dask.Lemmas.Coarse

namespace Dask.Lemmas.Coarse
open Dask.Py Dask.Py.PySlice Dask.Slicing Dask.Coarse
open Dask.Lemmas.Slice1dPos

/-! ### chunks after the top adjustment, n-d -/

theorem axis_top_chunks (oc : List Int) (hpos : ∀ c ∈ oc, 0 < c) (i : Idx) (hi : idxOK (isum oc) i = true)
    (pl : AxisPlan) (h : acceptAxis oc i = some pl) :
    indexedChunks1 (keptOut1 oc pl) pl.adj.toIdx = indexedChunks1 oc i := by
  have hoc : ∀ c ∈ oc, 0 ≤ c := fun c hc => Int.le_of_lt (hpos c hc)
  cases i with
  | int i =>
    simp only [idxOK, decide_eq_true_eq] at hi
    obtain ⟨f, l, hacc, _⟩ := acceptAxis_int oc hoc i hi.1 hi.2
    rw [hacc] at h
    have := Option.some.inj h
    subst this
    rfl
  | slc s =>
    by_cases hcol : s = colon
    · subst hcol
      have : pl = ⟨none, .colon⟩ := by
        unfold acceptAxis at h
        simp at h
        exact h.symm
      subst this
      rfl
    · exact top_chunks oc hpos s hcol pl h

theorem top_chunks_nd : ∀ (oc : List (List Int)) (idx : List Idx) (plans : List AxisPlan),
    (∀ cs ∈ oc, ∀ c ∈ cs, 0 < c) → axisPlans oc idx = some plans → idxsOK oc idx = true →
    indexedChunks (keptOut oc plans) (plans.map (·.adj.toIdx)) = indexedChunks oc idx
  | [], idx, plans, _, h, _ => by
    have : plans = [] := by unfold axisPlans at h; exact (Option.some.inj h).symm
    subst this
    simp [indexedChunks, keptOut]
  | c :: cs, [], plans, _, h, _ => by
    have : plans = [] := by unfold axisPlans at h; exact (Option.some.inj h).symm
    subst this
    simp [indexedChunks, keptOut]
  | c :: cs, i :: is, plans, hpos, h, hok => by
    obtain ⟨p, ps, hp, hps, rfl⟩ := axisPlans_cons_some c cs i is plans h
    simp only [idxsOK, List.zip_cons_cons, List.all_cons, Bool.and_eq_true] at hok
    have hc : ∀ x ∈ c, 0 < x := hpos c (by simp)
    have hcs : ∀ cs' ∈ cs, ∀ x ∈ cs', 0 < x := fun cs' h' => hpos cs' (by simp [h'])
    have ih := top_chunks_nd cs is ps hcs hps hok.2
    have h1 := axis_top_chunks c hc i hok.1 p hp
    unfold indexedChunks at ih ⊢
    simp only [keptOut_eq, List.zipWith_cons_cons, List.map_cons, List.filterMap_cons] at ih ⊢
    rw [h1, ih]

/-- soundness with the natural hypothesis on operands: positive chunks on every operand axis that carries a label -/
theorem accept_sound_pos {α β : Type} (F : List (List Nat → Blk α) → List Int → β) (outInd : List Nat)
    (ops : List (Operand α)) (adjust : List (Nat × AdjKind)) (newAxes : List (Nat × List Int))
    (oc : List (List Int)) (idx : List Idx) (r : Result)
    (h : acceptCoarse0 ⟨outInd, ops.map Operand.toOpd, adjust, newAxes⟩ oc idx = some r)
    (hoc : ∀ cs ∈ oc, ∀ c ∈ cs, 0 ≤ c) (hlen : oc.length = outInd.length) (hil : idx.length ≤ outInd.length)
    (hok : idxsOK oc (fullIndex idx outInd.length) = true)
    (hpos : ∀ q ∈ chunkPairs (ops.map Operand.toOpd), ∀ c ∈ q.2, 0 < c)
    (q : List Nat) (hql : q.length = outInd.length) (hq : inSels oc (fullIndex idx outInd.length) q = true) :
    indexDen (bwDen F outInd ops oc) (oc.map isum) (fullIndex idx outInd.length) q
      = rewrittenDen F outInd ops (keptOut oc r.plans) r q := by
  have hkeep : keepsAll outInd r.plans (ops.map Operand.toOpd) = true := by
    have h' := h
    unfold acceptCoarse0 at h'
    simp only at h'
    cases hp : axisPlans oc (fullIndex idx outInd.length) with
    | none => rw [hp] at h'; simp at h'
    | some plans =>
      rw [hp] at h'
      simp only at h'
      cases hs : mapOpt (opSlice outInd plans (oc.map List.length)) (ops.map Operand.toOpd) with
      | none => rw [hs] at h'; simp at h'
      | some sls =>
        rw [hs] at h'
        have hr := (Option.some.inj h').symm
        subst hr
        exact keepsAll_of_pos outInd plans _ (plans_ok oc _ plans hoc hp hok).1 _ sls hs hpos
  exact accept_sound F outInd ops adjust newAxes oc idx r h hoc hlen hil hok hkeep q hql hq

/-- soundness with NO hypothesis about what operand slicing keeps: the fired rule itself excludes zero-width chunks on
every sliced operand axis (operand chunks only need to be `≥ 0`) -/
theorem accept_sound_fired {α β : Type} (F : List (List Nat → Blk α) → List Int → β) (outInd : List Nat)
    (ops : List (Operand α)) (adjust : List (Nat × AdjKind)) (newAxes : List (Nat × List Int))
    (oc : List (List Int)) (idx : List Idx) (r : Result)
    (h : acceptCoarse0 ⟨outInd, ops.map Operand.toOpd, adjust, newAxes⟩ oc idx = some r)
    (hoc : ∀ cs ∈ oc, ∀ c ∈ cs, 0 ≤ c) (hlen : oc.length = outInd.length) (hil : idx.length ≤ outInd.length)
    (hok : idxsOK oc (fullIndex idx outInd.length) = true)
    (hnn : ∀ q ∈ chunkPairs (ops.map Operand.toOpd), ∀ c ∈ q.2, 0 ≤ c)
    (q : List Nat) (hql : q.length = outInd.length) (hq : inSels oc (fullIndex idx outInd.length) q = true) :
    indexDen (bwDen F outInd ops oc) (oc.map isum) (fullIndex idx outInd.length) q
      = rewrittenDen F outInd ops (keptOut oc r.plans) r q := by
  have hkeep : keepsAll outInd r.plans (ops.map Operand.toOpd) = true := by
    have h' := h
    unfold acceptCoarse0 at h'
    simp only at h'
    cases hp : axisPlans oc (fullIndex idx outInd.length) with
    | none => rw [hp] at h'; simp at h'
    | some plans =>
      rw [hp] at h'
      simp only at h'
      cases hs : mapOpt (opSlice outInd plans (oc.map List.length)) (ops.map Operand.toOpd) with
      | none => rw [hs] at h'; simp at h'
      | some sls =>
        rw [hs] at h'
        have hr := (Option.some.inj h').symm
        subst hr
        exact keepsAll_of_fired outInd plans _ (plans_ok oc _ plans hoc hp hok).1 _ sls hs hnn
  exact accept_sound F outInd ops adjust newAxes oc idx r h hoc hlen hil hok hkeep q hql hq

/-- … and the chunk statement with it -/
theorem rewritten_chunks_pos (n : Node) (oc : List (List Int)) (idx : List Idx) (r : Result)
    (hch : nodeChunks n = some oc) (h : acceptCoarse0 n oc idx = some r)
    (hoc : ∀ cs ∈ oc, ∀ c ∈ cs, 0 < c) (hnd : n.outInd.Nodup) (hil : idx.length ≤ n.outInd.length)
    (hok : idxsOK oc (fullIndex idx n.outInd.length) = true)
    (hpos : ∀ q ∈ chunkPairs n.ops, ∀ c ∈ q.2, 0 < c) (hnew : slicedNotNew n r.plans) :
    nodeChunks (rewritten n r) = some (keptOut oc r.plans) ∧
    indexedChunks (keptOut oc r.plans) (r.plans.map (·.adj.toIdx)) = indexedChunks oc (fullIndex idx n.outInd.length) := by
  have hoc' : ∀ cs ∈ oc, ∀ c ∈ cs, 0 ≤ c := fun cs hcs c hc => Int.le_of_lt (hoc cs hcs c hc)
  have h' := h
  unfold acceptCoarse0 at h'
  try simp only at h'
  cases hp : axisPlans oc (fullIndex idx n.outInd.length) with
  | none => rw [hp] at h'; simp at h'
  | some plans =>
    rw [hp] at h'
    try simp only at h'
    cases hs : mapOpt (opSlice n.outInd plans (oc.map List.length)) n.ops with
    | none => rw [hs] at h'; simp at h'
    | some sls =>
      rw [hs] at h'
      have hr := (Option.some.inj h').symm
      have hkeep : keepsAll n.outInd r.plans n.ops = true := by
        rw [hr]
        exact keepsAll_of_pos n.outInd plans _ (plans_ok oc _ plans hoc' hp hok).1 _ sls hs hpos
      refine ⟨rewritten_chunks n oc idx r hch h hoc' hnd hil hok hkeep hnew, ?_⟩
      rw [hr]
      exact top_chunks_nd oc _ plans hoc hp hok

/-- `Blockwise.chunks` of the rewritten node, from the fired rule alone (operand chunks `≥ 0`) -/
theorem rewritten_chunks_fired (n : Node) (oc : List (List Int)) (idx : List Idx) (r : Result)
    (hch : nodeChunks n = some oc) (h : acceptCoarse0 n oc idx = some r)
    (hoc : ∀ cs ∈ oc, ∀ c ∈ cs, 0 ≤ c) (hnd : n.outInd.Nodup) (hil : idx.length ≤ n.outInd.length)
    (hok : idxsOK oc (fullIndex idx n.outInd.length) = true)
    (hnn : ∀ q ∈ chunkPairs n.ops, ∀ c ∈ q.2, 0 ≤ c) (hnew : slicedNotNew n r.plans) :
    keepsAll n.outInd r.plans n.ops = true ∧ nodeChunks (rewritten n r) = some (keptOut oc r.plans) := by
  have h' := h
  unfold acceptCoarse0 at h'
  try simp only at h'
  cases hp : axisPlans oc (fullIndex idx n.outInd.length) with
  | none => rw [hp] at h'; simp at h'
  | some plans =>
    rw [hp] at h'
    try simp only at h'
    cases hs : mapOpt (opSlice n.outInd plans (oc.map List.length)) n.ops with
    | none => rw [hs] at h'; simp at h'
    | some sls =>
      rw [hs] at h'
      have hr := (Option.some.inj h').symm
      have hkeep : keepsAll n.outInd r.plans n.ops = true := by
        rw [hr]
        exact keepsAll_of_fired n.outInd plans _ (plans_ok oc _ plans hoc hp hok).1 _ sls hs hnn
      exact ⟨hkeep, rewritten_chunks n oc idx r hch h hoc hnd hil hok hkeep hnew⟩

/-- … and the chunks after the top adjustment (positive OUTPUT chunks) -/
theorem rewritten_chunks_top_fired (n : Node) (oc : List (List Int)) (idx : List Idx) (r : Result)
    (hch : nodeChunks n = some oc) (h : acceptCoarse0 n oc idx = some r)
    (hoc : ∀ cs ∈ oc, ∀ c ∈ cs, 0 < c) (hnd : n.outInd.Nodup) (hil : idx.length ≤ n.outInd.length)
    (hok : idxsOK oc (fullIndex idx n.outInd.length) = true)
    (hnn : ∀ q ∈ chunkPairs n.ops, ∀ c ∈ q.2, 0 ≤ c) (hnew : slicedNotNew n r.plans) :
    nodeChunks (rewritten n r) = some (keptOut oc r.plans) ∧
    indexedChunks (keptOut oc r.plans) (r.plans.map (·.adj.toIdx)) = indexedChunks oc (fullIndex idx n.outInd.length) := by
  have hoc' : ∀ cs ∈ oc, ∀ c ∈ cs, 0 ≤ c := fun cs hcs c hc => Int.le_of_lt (hoc cs hcs c hc)
  refine ⟨(rewritten_chunks_fired n oc idx r hch h hoc' hnd hil hok hnn hnew).2, ?_⟩
  have h' := h
  unfold acceptCoarse0 at h'
  try simp only at h'
  cases hp : axisPlans oc (fullIndex idx n.outInd.length) with
  | none => rw [hp] at h'; simp at h'
  | some plans =>
    rw [hp] at h'
    try simp only at h'
    cases hs : mapOpt (opSlice n.outInd plans (oc.map List.length)) n.ops with
    | none => rw [hs] at h'; simp at h'
    | some sls =>
      rw [hs] at h'
      have hr := (Option.some.inj h').symm
      rw [hr]
      exact top_chunks_nd oc _ plans hoc hp hok

end Dask.Lemmas.Coarse
