/-
Phase 3, `Expr2.swvReduce` (sliding-window reduction, overlap plan): output block `j`, computed from
block `j` and the first `W-1` positions of block `j+1`, is the block of NumPy's
`sliding_window_view(x, W, axis).<reduce>(axis=-1)` under the chunks `c[:-1] + (c[-1] - (W-1),)`.
-/
import DaskArrayModel.Lemmas.Expr2Take
namespace Dask.ND
open Dask.Py Dask.Py.PySlice Dask.Slicing Dask.Reduce

/-- a line through the blocks along `ax` (generic form of `line_get`): position `t` of block `j` is
global position `start_j + t` of the line through the global index -/
theorem line_get_gen (a : Arr Int) (cl : Layout) (child : List Nat → Arr Int) (ax : Nat)
    (haxc : ax < cl.length)
    (ih : ∀ b, validBid cl b → Arr.Equiv (child b) (restrict a (extent cl b)))
    (bid : List Nat) (hb : validBid cl bid) (i : List Nat) (hi : InB i (blockShape cl bid))
    (j : Nat) (hj : j < (cl.getD ax []).length) (t : Nat) (ht : t < (cl.getD ax []).getD j 0) :
    (child (bid.set ax j)).get (i.set ax t)
      = a.get ((vadd (origin cl bid) i).set ax (((cl.getD ax []).take j).sum + t)) := by
  have hbl : bid.length = cl.length := hb.length_eq
  have hil : i.length = cl.length := by rw [hi.length_eq, blockShape_length hbl]
  have hol : (origin cl bid).length = cl.length := origin_length hbl
  have hbjl : (bid.set ax j).length = cl.length := by simpa using hbl
  have hv : validBid cl (bid.set ax j) := by
    apply validBid.of_getD hbjl
    intro k hk
    by_cases hx : ax = k
    · subst hx; rw [getD_set_eq _ _ _ _ (by omega)]; exact hj
    · rw [getD_set_ne _ _ _ _ _ hx]; exact hb.getD_lt k hk
  have hE := ih _ hv
  have hin : InB (i.set ax t) (blockShape cl (bid.set ax j)) := by
    apply InB.of_getD
    · rw [List.length_set, blockShape_length hbjl]; exact hil
    · intro k hk
      rw [blockShape_length hbjl] at hk
      rw [blockShape_getD hbjl k hk]
      by_cases hx : ax = k
      · subst hx
        rw [getD_set_eq _ _ _ _ (by omega), getD_set_eq _ _ _ _ (by omega)]; exact ht
      · rw [getD_set_ne _ _ _ _ _ hx, getD_set_ne _ _ _ _ _ hx]
        have := hi.getD_lt k (by rw [blockShape_length hbl]; exact hk)
        rwa [blockShape_getD hbl k hk] at this
  have hsh : (child (bid.set ax j)).shape = blockShape cl (bid.set ax j) := hE.1
  rw [hE.2 _ (hsh ▸ hin)]
  simp only [restrict, extent]
  congr 1
  apply list_ext_getD
  · rw [vadd_length (by rw [origin_length hbjl, List.length_set, hil]), origin_length hbjl,
      List.length_set, vadd_length (by rw [hol, hil]), hol]
  · intro k hk
    rw [vadd_length (by rw [origin_length hbjl, List.length_set, hil]), origin_length hbjl] at hk
    rw [vadd_getD k (by rw [origin_length hbjl]; exact hk) (by rw [List.length_set, hil]; exact hk),
      origin_getD hbjl k hk]
    by_cases hx : ax = k
    · subst hx
      rw [getD_set_eq _ _ _ _ (by omega), getD_set_eq _ _ _ _ (by omega),
        getD_set_eq _ _ _ _ (by rw [vadd_length (by rw [hol, hil]), hol]; exact hk)]
    · rw [getD_set_ne _ _ _ _ _ hx, getD_set_ne _ _ _ _ _ hx, getD_set_ne _ _ _ _ _ hx,
        vadd_getD k (by rw [hol]; exact hk) (by rw [hil]; exact hk), origin_getD hbl k hk]

/-! ### the output chunks of the overlap plan -/

theorem last_decomp : ∀ (cs : List Nat), cs ≠ [] →
    ∃ init last, cs = init ++ [last] ∧ cs.dropLast = init ∧ cs.getLastD 0 = last
  | [], h => absurd rfl h
  | [x], _ => ⟨[], x, rfl, rfl, rfl⟩
  | x :: y :: r, _ => by
    obtain ⟨init, last, h1, h2, h3⟩ := last_decomp (y :: r) (by simp)
    refine ⟨x :: init, last, by rw [h1]; rfl, ?_, ?_⟩
    · rw [List.dropLast_cons_cons, h2]
    · simpa [List.getLastD] using h3

theorem swvChunks_eq (init : List Nat) (last w : Nat) :
    swvChunks (init ++ [last]) w = init ++ [last - (w - 1)] := by
  obtain ⟨i', l', h1, h2, h3⟩ := last_decomp (init ++ [last]) (by simp)
  have := List.append_inj' h1 rfl
  simp only [List.cons.injEq, and_true] at this
  unfold swvChunks
  rw [h2, h3, ← this.1, ← this.2]

theorem swvChunks_length (cs : List Nat) (w : Nat) (h : cs ≠ []) : (swvChunks cs w).length = cs.length := by
  obtain ⟨init, last, rfl, _, _⟩ := last_decomp cs h
  rw [swvChunks_eq]; simp

theorem swvChunks_getD (cs : List Nat) (w j : Nat) (hj : j < cs.length) :
    (swvChunks cs w).getD j 0 = if j + 1 = cs.length then cs.getD j 0 - (w - 1) else cs.getD j 0 := by
  have hne : cs ≠ [] := by intro e; rw [e] at hj; simp at hj
  obtain ⟨init, last, rfl, _, _⟩ := last_decomp cs hne
  rw [swvChunks_eq]
  simp only [List.length_append, List.length_cons, List.length_nil] at hj ⊢
  split
  · rename_i hl
    have : j = init.length := by omega
    subst this
    rw [getD_append_right' _ _ _ (Nat.le_refl _), getD_append_right' _ _ _ (Nat.le_refl _), Nat.sub_self]
    rfl
  · rename_i hl
    rw [getD_append_left' _ _ _ (by omega), getD_append_left' _ _ _ (by omega)]

theorem swvChunks_take (cs : List Nat) (w j : Nat) (hj : j < cs.length) :
    (swvChunks cs w).take j = cs.take j := by
  have hne : cs ≠ [] := by intro e; rw [e] at hj; simp at hj
  obtain ⟨init, last, rfl, _, _⟩ := last_decomp cs hne
  rw [swvChunks_eq]
  simp only [List.length_append, List.length_cons, List.length_nil] at hj
  rw [List.take_append_of_le_length (by omega), List.take_append_of_le_length (by omega)]

theorem swvChunks_sum (cs : List Nat) (w : Nat) (h : cs ≠ []) (hw : 1 ≤ w) (hall : ∀ c ∈ cs, w ≤ c) :
    (swvChunks cs w).sum = cs.sum + 1 - w := by
  obtain ⟨init, last, rfl, _, _⟩ := last_decomp cs h
  have := hall last (by simp)
  rw [swvChunks_eq]
  simp only [List.sum_append, List.sum_cons, List.sum_nil]
  omega

/-! ### the sliding-window block -/

theorem validBid_set_layout (cl : Layout) (ax : Nat) (oc : List Nat) (bid : List Nat)
    (hoc : oc.length = (cl.getD ax []).length) (haxc : ax < cl.length) :
    validBid (cl.set ax oc) bid ↔ validBid cl bid := by
  have : numblocks (cl.set ax oc) = numblocks cl := by
    unfold numblocks
    rw [List.map_set, hoc]
    apply list_ext_getD (by simp)
    intro k hk
    by_cases hx : ax = k
    · subst hx
      rw [getD_set_eq _ _ _ _ (by simpa using haxc), getD_map List.length cl ax [] 0 haxc]
    · rw [getD_set_ne _ _ _ _ _ hx]
  unfold validBid; rw [this]

theorem bid_set_self (bid : List Nat) (ax : Nat) : bid.set ax (bid.getD ax 0) = bid := set_getD_self bid ax

theorem swv_block (env : Env) (r : Red) (e : Expr2) (w ax : Nat)
    (m1 : (chunks2 e).map List.sum = shape2 e) (m2 : NonEmptyAxes (chunks2 e))
    (hax : ax < (shape2 e).length) (hw : 1 ≤ w)
    (hall : ∀ c ∈ (chunks2 e).getD ax [], w ≤ c)
    (ih : BlockOK2 env e) : BlockOK2 env (.swvReduce r e w ax) := by
  have hcl : (chunks2 e).length = (shape2 e).length := length_of_map_sum m1
  have haxc : ax < (chunks2 e).length := by omega
  have hne := m2.getD ax haxc
  generalize hcs : (chunks2 e).getD ax [] = cs at hall hne
  have hocl := swvChunks_length cs w hne
  intro bid hb
  have hb0 : validBid ((chunks2 e).set ax (swvChunks cs w)) bid := by
    simpa only [chunks2, hcs] using hb
  have hbc : validBid (chunks2 e) bid :=
    (validBid_set_layout _ ax _ bid (by rw [hocl, hcs]) haxc).mp hb0
  have hbl : bid.length = (chunks2 e).length := hbc.length_eq
  have hjlt : bid.getD ax 0 < cs.length := by have := hbc.getD_lt ax haxc; rwa [hcs] at this
  have hE0 := ih bid hbc
  have hsh0 : (blockDen2 env e bid).shape = blockShape (chunks2 e) bid := hE0.1
  -- the output block shape
  have houtlen : (if bid.getD ax 0 + 1 = cs.length then cs.getD (bid.getD ax 0) 0 - (w - 1)
      else cs.getD (bid.getD ax 0) 0) = (swvChunks cs w).getD (bid.getD ax 0) 0 :=
    (swvChunks_getD cs w _ hjlt).symm
  have hshape : blockShape ((chunks2 e).set ax (swvChunks cs w)) bid
      = (blockShape (chunks2 e) bid).set ax ((swvChunks cs w).getD (bid.getD ax 0) 0) := by
    apply list_ext_getD
    · rw [blockShape_length (by simpa using hbl), List.length_set, List.length_set, blockShape_length hbl]
    · intro k hk
      rw [blockShape_length (by simpa using hbl), List.length_set] at hk
      rw [blockShape_getD (by simpa using hbl) k (by simpa using hk)]
      by_cases hx : ax = k
      · subst hx
        rw [getD_set_eq _ _ _ _ haxc, getD_set_eq _ _ _ _ (by rw [blockShape_length hbl]; exact haxc)]
      · rw [getD_set_ne _ _ _ _ _ hx, getD_set_ne _ _ _ _ _ hx, blockShape_getD hbl k hk]
  have horigin : origin ((chunks2 e).set ax (swvChunks cs w)) bid = origin (chunks2 e) bid := by
    apply list_ext_getD
    · rw [origin_length (by simpa using hbl), origin_length hbl]; simp
    · intro k hk
      rw [origin_length (by simpa using hbl), List.length_set] at hk
      rw [origin_getD (by simpa using hbl) k (by simpa using hk), origin_getD hbl k hk]
      by_cases hx : ax = k
      · subst hx
        rw [getD_set_eq _ _ _ _ haxc, hcs, swvChunks_take cs w _ hjlt]
      · rw [getD_set_ne _ _ _ _ _ hx]
  refine ⟨?_, ?_⟩
  · simp only [blockDen2, restrict, extent, chunks2, hcs]
    rw [hsh0, houtlen, hshape]
  · intro i hi
    have hi1 : InB i ((blockShape (chunks2 e) bid).set ax ((swvChunks cs w).getD (bid.getD ax 0) 0)) := by
      simp only [blockDen2, hcs] at hi
      rw [hsh0, houtlen] at hi; exact hi
    have hil : i.length = (chunks2 e).length := by
      rw [hi1.length_eq, List.length_set, blockShape_length hbl]
    have hxlt : i.getD ax 0 < (swvChunks cs w).getD (bid.getD ax 0) 0 := by
      have := hi1.getD_lt ax (by rw [List.length_set, blockShape_length hbl]; exact haxc)
      rwa [getD_set_eq _ _ _ _ (by rw [blockShape_length hbl]; exact haxc)] at this
    have hcj_w : w ≤ cs.getD (bid.getD ax 0) 0 := hall _ (getD_mem_of_lt cs _ 0 hjlt)
    have hout_le : (swvChunks cs w).getD (bid.getD ax 0) 0 ≤ cs.getD (bid.getD ax 0) 0 := by
      rw [swvChunks_getD cs w _ hjlt]; split <;> omega
    -- `i` is also inside the input block
    have hi0 : InB i (blockShape (chunks2 e) bid) := by
      rw [InB_iff_getD] at hi1 ⊢
      refine ⟨by simpa using hi1.1, ?_⟩
      intro k hk
      have := hi1.2 k (by simpa using hk)
      by_cases hx : ax = k
      · subst hx
        rw [blockShape_getD hbl ax haxc, hcs]; omega
      · rwa [getD_set_ne _ _ _ _ _ hx] at this
    have hol : (origin (chunks2 e) bid).length = (chunks2 e).length := origin_length hbl
    have hgax : (vadd (origin (chunks2 e) bid) i).getD ax 0 = (cs.take (bid.getD ax 0)).sum + i.getD ax 0 := by
      rw [vadd_getD ax (by rw [hol]; exact haxc) (by rw [hil]; exact haxc), origin_getD hbl ax haxc, hcs]
    simp only [blockDen2, restrict, extent, den2, chunks2, hcs]
    rw [horigin, hgax]
    congr 1
    apply List.map_congr_left
    intro s hs
    have hs' := List.mem_range.mp hs
    by_cases hc : i.getD ax 0 + s < cs.getD (bid.getD ax 0) 0
    · rw [if_pos hc]
      have := line_get_gen (den2 env e) (chunks2 e) (fun k => blockDen2 env e k) ax haxc ih bid hbc i hi0
        (bid.getD ax 0) (by rw [hcs]; exact hjlt) (i.getD ax 0 + s) (by rw [hcs]; exact hc)
      rw [bid_set_self, hcs] at this
      rw [this]
      congr 2; omega
    · rw [if_neg hc]
      have hnl : bid.getD ax 0 + 1 < cs.length := by
        rw [swvChunks_getD cs w _ hjlt] at hxlt
        split at hxlt
        · omega
        · omega
      have hcn : w ≤ cs.getD (bid.getD ax 0 + 1) 0 := hall _ (getD_mem_of_lt cs _ 0 hnl)
      have hxc : i.getD ax 0 < cs.getD (bid.getD ax 0) 0 := by omega
      have := line_get_gen (den2 env e) (chunks2 e) (fun k => blockDen2 env e k) ax haxc ih bid hbc i hi0
        (bid.getD ax 0 + 1) (by rw [hcs]; exact hnl) (i.getD ax 0 + s - cs.getD (bid.getD ax 0) 0)
        (by rw [hcs]; omega)
      rw [hcs] at this
      rw [this, sum_take_succ cs _ hjlt]
      congr 2; omega

end Dask.ND
