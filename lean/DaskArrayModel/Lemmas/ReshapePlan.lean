/-
The loop invariant of `reshape_rechunk` (`Model/Reshape.lean`): whatever the `while ii >= 0 or oi >= 0`
loop has filled in so far (slots right of `ii` / `oi`) is `Grouped` (Model/ReshapeSpec.lean).  Proved on the
line-by-line model itself, Python index wrap-around included: once one side is exhausted the implementation
keeps reading `inshape[-1]`, `inshape[-2]`, … ; for arrays without zero-length axes and equal sizes the
remaining lengths are all 1 and those reads only re-write `(1,)` over `(1,)`.
-/
import DaskArrayModel.Lemmas.ReshapeSlots
import DaskArrayModel.Lemmas.ReshapeMath
namespace Dask.Reshape
open Dask.ND

/-- first processed slot for a running index `x` (`x + 1`, or `0` once `x` is negative) -/
def pidx (x : Int) : Nat := (x + 1).toNat

theorem pidx_nat (k : Nat) : pidx (k : Int) = k + 1 := by unfold pidx; omega
theorem pidx_pred (k : Nat) : pidx ((k : Int) - 1) = k := by unfold pidx; omega
theorem pidx_neg {x : Int} (h : x < 0) : pidx x = 0 := by unfold pidx; omega

def SomeFrom (p : Nat) (r : Slots) : Prop := ∀ k, p ≤ k → k < r.length → ∃ c, r[k]? = some (some c)

/-- slots of length-1 axes hold `(1,)` -/
def OnesFrom (shape : List Nat) (p : Nat) (r : Slots) : Prop :=
  ∀ k, p ≤ k → shape[k]? = some 1 → r[k]? = some (some [1])

/-- one side of the loop state: slots right of the running index `x` are filled -/
structure Side (shape : List Nat) (x : Int) (r : Slots) : Prop where
  len : r.length = shape.length
  bound : x < shape.length
  filled : SomeFrom (pidx x) r
  ones : OnesFrom shape (pidx x) r

structure Inv (inshape outshape : List Nat) (s : St) : Prop where
  sin : Side inshape s.ii s.rin
  sout : Side outshape s.oi s.rout
  grp : Grouped ((axes inshape s.rin).drop (pidx s.ii)) ((axes outshape s.rout).drop (pidx s.oi))

/-! ### reading `WFIn` -/

theorem wf_get {inshape : List Nat} {inchunks : List Chunks} (hwf : WFIn inshape inchunks) {k d : Nat}
    (h : inshape[k]? = some d) : ∃ c, inchunks[k]? = some c ∧ NormAxis c ∧ c.sum = d := by
  obtain ⟨hk, hv⟩ := List.getElem?_eq_some_iff.mp h
  obtain ⟨h1, h2⟩ := hwf.2 k hk
  have hk' : k < inchunks.length := by rw [hwf.1]; exact hk
  have e : inchunks.getD k [] = inchunks[k] := by
    rw [List.getD_eq_getElem?_getD, List.getElem?_eq_getElem hk']; rfl
  have e2 : inshape.getD k 0 = d := by
    rw [List.getD_eq_getElem?_getD, h]; rfl
  rw [e] at h1 h2
  rw [e2] at h2
  exact ⟨inchunks[k], List.getElem?_eq_getElem hk', h1, h2⟩

theorem set_same {α : Type} {l : List α} {k : Nat} {v : α} (h : l[k]? = some v) : l.set k v = l := by
  obtain ⟨hk, hv⟩ := List.getElem?_eq_some_iff.mp h
  rw [← hv]; exact List.set_getElem_self hk

/-! ### one slot written at the processing front -/

theorem slot_set_inv {shape : List Nat} {r : Slots} {k d : Nat} {c : Chunks}
    (hk : k < r.length) (hd : shape[k]? = some d) (h1 : d = 1 → c = [1])
    (hs : SomeFrom (k + 1) r) (ho : OnesFrom shape (k + 1) r) :
    (r.set k (some c)).length = r.length ∧ SomeFrom k (r.set k (some c)) ∧
      OnesFrom shape k (r.set k (some c)) ∧
      (axes shape (r.set k (some c))).drop k = (d, c) :: (axes shape r).drop (k + 1) := by
  refine ⟨by simp, ?_, ?_, axes_drop_set hd hk⟩
  · intro j hj hjl
    rw [List.getElem?_set]
    by_cases e : k = j
    · subst e; exact ⟨c, by simp [hk]⟩
    · simp only [e, if_false]
      exact hs j (by omega) (by simpa using hjl)
  · intro j hj hj1
    rw [List.getElem?_set]
    by_cases e : k = j
    · subst e
      rw [hd] at hj1
      simp only [Option.some.injEq] at hj1
      simp [hk, h1 hj1]
    · simp only [e, if_false]
      exact ho j (by omega) hj1

/-! ### a group written into slots `L..i` -/

theorem slots_group_inv {shape : List Nat} {r r' : Slots} {L i : Nat}
    (hlen' : r'.length = r.length) (hlen : r.length = shape.length) (hi : i < shape.length) (hL : L ≤ i)
    (hframe : ∀ k, i + 1 ≤ k → r'[k]? = r[k]?)
    (hsum : ∀ k, L ≤ k → k ≤ i → ∃ c d, r'[k]? = some (some c) ∧ shape[k]? = some d ∧ c.sum = d)
    (hpiv : SlotPivot (fun k => shape.getD k 0) L i r')
    (hone : ∀ k, L ≤ k → k ≤ i → shape[k]? = some 1 → r'[k]? = some (some [1]))
    (hs : SomeFrom (i + 1) r) (ho : OnesFrom shape (i + 1) r) :
    SomeFrom L r' ∧ OnesFrom shape L r' ∧
      ∃ G, PivotForm G ∧ (∀ a ∈ G, ValidAx a) ∧
        (axes shape r').drop L = G ++ (axes shape r).drop (i + 1) ∧
        sizeA G = prodL ((shape.drop L).take (i + 1 - L)) ∧
        chunksA G = ((val r').drop L).take (i + 1 - L) := by
  have hlen2 : r'.length = shape.length := by rw [hlen', hlen]
  refine ⟨?_, ?_, ?_⟩
  · intro k hk hkl
    rcases Nat.lt_or_ge i k with h' | h'
    · rw [hframe k (by omega)]; exact hs k (by omega) (by omega)
    · obtain ⟨c, d, h1, _, _⟩ := hsum k hk h'
      exact ⟨c, h1⟩
  · intro k hk hk1
    rcases Nat.lt_or_ge i k with h' | h'
    · rw [hframe k (by omega)]; exact ho k (by omega) hk1
    · exact hone k hk h' hk1
  · obtain ⟨g1, g2, g3⟩ := group_of_slots hlen2 hi hL hsum hpiv
    refine ⟨_, g1, g2, ?_, ?_, chunksA_axes_seg hlen2 L _⟩
    · exact g3.trans (by rw [axes_drop_congr hframe])
    · unfold sizeA
      rw [shapeA_axes_seg hlen2]

/-! ### once one side is exhausted the other side's remaining lengths are 1 -/

theorem prodL_eq_one : ∀ (l : List Nat), prodL l = 1 → ∀ x ∈ l, x = 1
  | [], _ => by simp
  | y :: ys, h => by
    simp only [prodL] at h
    have h1 : y = 1 := Nat.eq_one_of_mul_eq_one_right h
    have h2 : prodL ys = 1 := Nat.eq_one_of_mul_eq_one_left h
    intro x hx
    rcases List.mem_cons.mp hx with e | e
    · rw [e]; exact h1
    · exact prodL_eq_one ys h2 x e

theorem prodL_pos : ∀ (l : List Nat), (∀ d ∈ l, 0 < d) → 0 < prodL l
  | [], _ => by simp [prodL]
  | y :: ys, h => by
    simp only [prodL]
    exact Nat.mul_pos (h y (by simp)) (prodL_pos ys (fun d hd => h d (by simp [hd])))

theorem shapeA_axes_drop {shape : List Nat} {r : Slots} (h : r.length = shape.length) (p : Nat) :
    shapeA ((axes shape r).drop p) = shape.drop p := by
  unfold shapeA axes
  have : (fun (a : Axis) => a.1) = Prod.fst := rfl
  rw [this, List.map_drop, List.map_fst_zip (by rw [val_length]; omega)]

/-- `X` exhausted (all of it grouped against `Y[p:]`), same total size, no zero-length axis:
every `Y[k]` with `k < p` is 1 -/
theorem exhausted_ones {X Y : List Nat} {rx ry : Slots} {p : Nat} (hx : rx.length = X.length)
    (hy : ry.length = Y.length)
    (hg : sizeA ((axes X rx).drop 0) = sizeA ((axes Y ry).drop p))
    (hprod : prodL X = prodL Y) (hpos : 0 < prodL X) :
    ∀ k, k < p → ∀ d, Y[k]? = some d → d = 1 := by
  unfold sizeA at hg
  rw [shapeA_axes_drop hx, shapeA_axes_drop hy, List.drop_zero] at hg
  have h1 : prodL Y = prodL (Y.take p) * prodL (Y.drop p) := by
    rw [← prodL_append, List.take_append_drop]
  have h2 : prodL (Y.take p) = 1 := by
    rw [← hg, ← hprod] at h1
    have h3 : 1 * prodL X = prodL (Y.take p) * prodL X := by rw [Nat.one_mul]; exact h1
    exact (Nat.eq_of_mul_eq_mul_right hpos h3).symm
  intro k hk d hd
  apply prodL_eq_one _ h2
  rw [List.mem_iff_getElem?]
  exact ⟨k, by rw [List.getElem?_take]; simp [hk, hd]⟩

/-! ### updates of one side -/

/-- a slot written at the front `k`: the front moves to `k - 1` -/
theorem Side.set {shape : List Nat} {r : Slots} {k d : Nat} {c : Chunks} (h : Side shape (k : Int) r)
    (hd : shape[k]? = some d) (h1 : d = 1 → c = [1]) :
    Side shape ((k : Int) - 1) (r.set k (some c)) ∧
      (axes shape (r.set k (some c))).drop (pidx ((k : Int) - 1)) = (d, c) :: (axes shape r).drop (pidx (k : Int)) := by
  have hk : k < r.length := by
    obtain ⟨hk, _⟩ := List.getElem?_eq_some_iff.mp hd
    rw [h.len]; exact hk
  have hf := h.filled
  have ho := h.ones
  rw [pidx_nat] at hf ho
  obtain ⟨g1, g2, g3, g4⟩ := slot_set_inv hk hd h1 hf ho
  rw [pidx_pred, pidx_nat]
  refine ⟨⟨by rw [g1, h.len], ?_, ?_, ?_⟩, g4⟩
  · have := h.bound; omega
  · rw [pidx_pred]; exact g2
  · rw [pidx_pred]; exact g3

/-- a side whose index is already negative: decrementing changes nothing -/
theorem Side.dec {shape : List Nat} {r : Slots} {x : Int} (h : Side shape x r) (hx : x < 0) :
    Side shape (x - 1) r := by
  refine ⟨h.len, ?_, ?_, ?_⟩
  · have := h.bound; omega
  · rw [pidx_neg (by omega)]; have := h.filled; rw [pidx_neg hx] at this; exact this
  · rw [pidx_neg (by omega)]; have := h.ones; rw [pidx_neg hx] at this; exact this

/-- a write through a wrapped (negative) index of `(1,)` over a length-1 axis is a no-op -/
theorem Side.wrap_noop {shape : List Nat} {r r' : Slots} {x : Int} {c : Chunks} (h : Side shape x r)
    (hx : x < 0) {d : Nat} (hd : pyGet shape x = .ok d) (hd1 : d = 1) (hc : c = [1])
    (hset : pySet r x (some c) = .ok r') : r' = r := by
  obtain ⟨w, hw, hv⟩ := pyGet_ok hd
  obtain ⟨w', hw', hr'⟩ := pySet_ok hset
  rw [h.len, hw] at hw'
  simp only [Option.some.injEq] at hw'
  subst hw'
  rw [hr', hc]
  apply set_same
  have := h.ones
  rw [pidx_neg hx] at this
  exact this w (Nat.zero_le _) (by rw [hv, hd1])

/-- a group written into slots `L..i`: the front moves to `L - 1` -/
theorem Side.group {shape : List Nat} {r r' : Slots} {L i : Nat} (h : Side shape (i : Int) r)
    (hlen' : r'.length = r.length) (hL : L ≤ i)
    (hframe : ∀ k, i + 1 ≤ k → r'[k]? = r[k]?)
    (hsum : ∀ k, L ≤ k → k ≤ i → ∃ c d, r'[k]? = some (some c) ∧ shape[k]? = some d ∧ c.sum = d)
    (hpiv : SlotPivot (fun k => shape.getD k 0) L i r')
    (hone : ∀ k, L ≤ k → k ≤ i → shape[k]? = some 1 → r'[k]? = some (some [1])) :
    Side shape ((L : Int) - 1) r' ∧
      ∃ G, PivotForm G ∧ (∀ a ∈ G, ValidAx a) ∧
        (axes shape r').drop (pidx ((L : Int) - 1)) = G ++ (axes shape r).drop (pidx (i : Int)) ∧
        sizeA G = prodL ((shape.drop L).take (i + 1 - L)) ∧
        chunksA G = ((val r').drop L).take (i + 1 - L) := by
  have hi : i < shape.length := by have := h.bound; omega
  have hf := h.filled
  have ho := h.ones
  rw [pidx_nat] at hf ho
  obtain ⟨g1, g2, g3⟩ := slots_group_inv hlen' h.len hi hL hframe hsum hpiv hone hf ho
  rw [pidx_pred, pidx_nat]
  refine ⟨⟨by rw [hlen', h.len], by omega, ?_, ?_⟩, g3⟩
  · rw [pidx_pred]; exact g1
  · rw [pidx_pred]; exact g2

/-! ### one round of the loop: the three simple branches -/

/-- `r[x] = c` where `x` is the running index of the side (front write) or already negative (wrapped no-op) -/
theorem Side.write {shape : List Nat} {r r' : Slots} {x : Int} {d : Nat} {c : Chunks} (h : Side shape x r)
    (hd : pyGet shape x = .ok d) (hc : d = 1 → c = [1]) (hneg : x < 0 → d = 1)
    (hset : pySet r x (some c) = .ok r') :
    Side shape (x - 1) r' ∧
      ((0 ≤ x ∧ (axes shape r').drop (pidx (x - 1)) = (d, c) :: (axes shape r).drop (pidx x)) ∨
       (x < 0 ∧ (axes shape r').drop (pidx (x - 1)) = (axes shape r).drop (pidx x))) := by
  rcases Int.lt_or_le x 0 with hx | hx
  · have e := h.wrap_noop hx hd (hneg hx) (hc (hneg hx)) hset
    subst e
    refine ⟨h.dec hx, Or.inr ⟨hx, ?_⟩⟩
    rw [pidx_neg hx, pidx_neg (by omega)]
  · obtain ⟨k, hk⟩ : ∃ k : Nat, x = (k : Int) := ⟨x.toNat, by omega⟩
    subst hk
    obtain ⟨_, hr'⟩ := pySet_nat_ok hset
    subst hr'
    obtain ⟨g1, g2⟩ := h.set (pyGet_nat_ok hd) hc
    exact ⟨g1, Or.inl ⟨hx, g2⟩⟩

theorem wf_pyGet {inshape : List Nat} {inchunks : List Chunks} (hwf : WFIn inshape inchunks) {x : Int}
    {d : Nat} {c : Chunks} (hd : pyGet inshape x = .ok d) (hc : pyGet inchunks x = .ok c) :
    NormAxis c ∧ c.sum = d := by
  obtain ⟨w, hw, hv⟩ := pyGet_ok hd
  obtain ⟨w', hw', hv'⟩ := pyGet_ok hc
  rw [hwf.1, hw] at hw'
  simp only [Option.some.injEq] at hw'
  subst hw'
  obtain ⟨c', h1, h2, h3⟩ := wf_get hwf hv
  rw [hv'] at h1
  simp only [Option.some.injEq] at h1
  subst h1
  exact ⟨h2, h3⟩

theorem norm_len_ones {c : Chunks} (h : NormAxis c) (hs : c.sum = c.length) : allOnes c = true := by
  rcases h with h | ⟨_, hp⟩
  · subst h; simp at hs
  · exact pos_sum_len hp hs

theorem norm_pos_of_sum_one {c : Chunks} (h : NormAxis c) (hs : c.sum = 1) : ∀ x ∈ c, 0 < x := by
  rw [normAxis_one h hs]; simp

/-- slots `L..i` hold the entries `L..i` of a plain list -/
theorem val_seg_eq {r : Slots} {l : List Chunks} {L i : Nat}
    (h : ∀ k, L ≤ k → k ≤ i → ∃ c, r[k]? = some (some c) ∧ l[k]? = some c) :
    ((val r).drop L).take (i + 1 - L) = (l.drop L).take (i + 1 - L) := by
  apply List.ext_getElem?
  intro j
  simp only [List.getElem?_take, List.getElem?_drop]
  split
  · obtain ⟨c, h1, h2⟩ := h (L + j) (by omega) (by omega)
    rw [val_getElem?, h1, h2]; rfl
  · rfl

theorem val_seg_of_some {r : Slots} {cs : List Chunks} {L cnt : Nat}
    (h : (r.drop L).take cnt = cs.map some) : ((val r).drop L).take cnt = cs := by
  unfold val
  rw [← List.map_drop, ← List.map_take, h, List.map_map]
  have : ((fun (o : Option Chunks) => o.getD []) ∘ some) = id := by funext x; rfl
  rw [this]; simp

theorem crossProd_ones_prefix' (pre : List Chunks) (c : Chunks) (h : ∀ x ∈ pre, allOnes x = true) :
    crossProd (pre ++ [c]) = repeatL c (prodL (pre.map List.length)) := by
  apply crossProd_ones_prefix
  intro x hx
  have h1 := allOnes_sum (h x hx)
  have h2 : x.length = x.sum := by
    have := congrArg List.length h1
    simpa using this
  rw [h2]; exact h1

/-- The common core of the merge branch (on the input side) and the split branch (on the output side):
slot `L` holds some valid chunking of its axis, slots `L+1..i` hold one whole chunk each; after
`_smooth_chunks` and `_calc_lower_dimension_chunks` the slots `L..i` are a group in pivot form and `low` is the
list of its block sizes. -/
theorem smoothed_group {shape : List Nat} {r r2 r3 : Slots} {L i dL mx fuel : Nat} {e low : Chunks}
    (h : Side shape (i : Int) r) (hlen2 : r2.length = r.length) (hL : L ≤ i)
    (hframe : ∀ k, i + 1 ≤ k → r2[k]? = r[k]?)
    (hdL : shape[L]? = some dL) (heL : r2[L]? = some (some e)) (hesum : e.sum = dL) (he1 : dL = 1 → e = [1])
    (hfull : ∀ k, L < k → k ≤ i → ∃ d, shape[k]? = some d ∧ r2[k]? = some (some [d]))
    (hsm : smooth fuel (L : Int) (i : Int) mx r2 = .ok r3)
    (hlow : calcLower r3 (L : Int) (i : Int) = .ok low) :
    Side shape ((L : Int) - 1) r3 ∧
      ∃ G, PivotForm G ∧ (∀ a ∈ G, ValidAx a) ∧
        (axes shape r3).drop (pidx ((L : Int) - 1)) = G ++ (axes shape r).drop (pidx (i : Int)) ∧
        mergedAx G = (prodL ((shape.drop L).take (i + 1 - L)), low) := by
  have hi : i < shape.length := by have := h.bound; omega
  have rel := smooth_rel _ _ _ _ _ _ hsm
  have hsum2 : ∀ k, L ≤ k → k ≤ i → ∃ c d, r2[k]? = some (some c) ∧ shape[k]? = some d ∧ c.sum = d := by
    intro k hk1 hk2
    rcases Nat.eq_or_lt_of_le hk1 with e' | e'
    · subst e'; exact ⟨e, dL, heL, hdL, hesum⟩
    · obtain ⟨d, h1, h2⟩ := hfull k e' hk2
      exact ⟨[d], d, h2, h1, by simp⟩
  obtain ⟨side3, G, pf, vG, hGeq, hGsize, hGchunks⟩ := h.group (r' := r3) (L := L)
    (by rw [rel.length, hlen2]) hL
    (fun k hk => by rw [rel.frame k (Or.inr (by omega)), hframe k hk])
    (fun k hk1 hk2 => by
      obtain ⟨c, d, h1, h2, h3⟩ := hsum2 k hk1 hk2
      obtain ⟨c', g1, g2⟩ := rel.sums k c h1
      exact ⟨c', d, g1, h2, by omega⟩)
    (rel.pivot ⟨L, Nat.le_refl _, hL, fun k hk1 hk2 => by omega, fun k hk1 hk2 => by
      obtain ⟨d, h1, h2⟩ := hfull k hk1 hk2
      rw [h2]
      have : shape.getD k 0 = d := by rw [List.getD_eq_getElem?_getD, h1]; rfl
      show some (some [d]) = some (some [shape.getD k 0])
      rw [this]⟩)
    (fun k hk1 hk2 hk3 => by
      apply rel.ones k [1] _ (by rfl)
      rcases Nat.eq_or_lt_of_le hk1 with e' | e'
      · subst e'
        rw [hdL] at hk3
        simp only [Option.some.injEq] at hk3
        rw [heL, he1 hk3]
      · obtain ⟨d, h1, h2⟩ := hfull k e' hk2
        rw [h1] at hk3
        simp only [Option.some.injEq] at hk3
        rw [h2, hk3])
  refine ⟨side3, G, pf, vG, hGeq, ?_⟩
  obtain ⟨cs, hcs, hl⟩ := calcLower_ok hlow (by rw [rel.length, hlen2, h.len]; exact hi)
  unfold mergedAx blockSizes
  rw [hGsize, hGchunks, val_seg_of_some hcs, hl]

section
variable {inshape outshape : List Nat} {inchunks : List Chunks}

/-- the facts about an exhausted side -/
theorem tail_facts (hpos : Pos inshape) (hprod : prodL inshape = prodL outshape) {s : St}
    (hinv : Inv inshape outshape s) (hgo : 0 ≤ s.ii ∨ 0 ≤ s.oi) {din dout : Nat}
    (hdin : pyGet inshape s.ii = .ok din) (hdout : pyGet outshape s.oi = .ok dout) :
    (s.ii < 0 → dout = 1) ∧ (s.oi < 0 → din = 1) := by
  have hp : 0 < prodL inshape := prodL_pos _ hpos
  have hsz := (grouped_equiv hinv.grp).size
  constructor
  · intro hneg
    obtain ⟨o, ho⟩ : ∃ o : Nat, s.oi = (o : Int) := ⟨s.oi.toNat, by omega⟩
    rw [ho] at hdout
    rw [pidx_neg hneg] at hsz
    exact exhausted_ones hinv.sin.len hinv.sout.len hsz hprod hp o (by rw [ho, pidx_nat]; omega) dout
      (pyGet_nat_ok hdout)
  · intro hneg
    obtain ⟨i, hi⟩ : ∃ i : Nat, s.ii = (i : Int) := ⟨s.ii.toNat, by omega⟩
    rw [hi] at hdin
    rw [pidx_neg hneg] at hsz
    exact exhausted_ones hinv.sout.len hinv.sin.len hsz.symm hprod.symm (by rw [← hprod]; exact hp) i
      (by rw [hi, pidx_nat]; omega) din (pyGet_nat_ok hdin)

/-- the merge branch, "moving around blocks" case -/
theorem merge_special (hwf : WFIn inshape inchunks) {i o L : Nat} {rin rout rin1 rout1 : Slots}
    {din dout : Nat} {cii : Chunks}
    (hinv : Inv inshape outshape ⟨(i : Int), (o : Int), rin, rout⟩)
    (hdin : inshape[i]? = some din) (hdout : outshape[o]? = some dout) (hd1 : dout ≠ 1)
    (hLi : L < i) (hprodL : prodL ((inshape.drop L).take (i + 1 - L)) = dout)
    (hb : allFull inshape inchunks (pyRange 0 (i : Int)) = .ok true)
    (hrin1 : setMany (fun k => pyGet inchunks k) rin (pyRange 0 ((i : Int) + 1)) = .ok rin1)
    (hcii : pyGet inchunks (i : Int) = .ok cii)
    (hrout1 : pySet rout (o : Int)
      (some (repeatL cii (prodL ((pySlice inchunks (L : Int) (i : Int)).map List.length)))) = .ok rout1) :
    Inv inshape outshape ⟨(L : Int) - 1, (o : Int) - 1, rin1, rout1⟩ := by
  have hi : i < inshape.length := (List.getElem?_eq_some_iff.mp hdin).1
  have e0 : (0 : Int) = ((0 : Nat) : Int) := rfl
  have e1 : ((i : Int) + 1) = ((i + 1 : Nat) : Int) := by push_cast; rfl
  rw [e0, e1] at hrin1
  obtain ⟨l1, fr1, in1⟩ := setMany_range hrin1
  rw [e0, pyRange_nat] at hb
  have hfull := allFull_ok _ _ hb
  -- every slot `k ≤ i` now holds `inchunks[k]`
  have hslot : ∀ k, k ≤ i → ∃ c d, rin1[k]? = some (some c) ∧ inchunks[k]? = some c ∧
      inshape[k]? = some d ∧ NormAxis c ∧ c.sum = d := by
    intro k hk
    obtain ⟨_, v, hv, hr⟩ := in1 k (Nat.zero_le _) (by omega)
    have hd : inshape[k]? = some inshape[k] := List.getElem?_eq_getElem (by omega)
    obtain ⟨c, h1, h2, h3⟩ := wf_get hwf hd
    have := pyGet_nat_ok hv
    rw [h1] at this
    simp only [Option.some.injEq] at this
    subst this
    exact ⟨c, _, hr, h1, hd, h2, h3⟩
  have hones : ∀ k, k < i → ∃ c, rin1[k]? = some (some c) ∧ inchunks[k]? = some c ∧ allOnes c = true := by
    intro k hk
    obtain ⟨c, d, h1, h2, h3, h4, h5⟩ := hslot k (by omega)
    obtain ⟨c', d', g1, g2, g3⟩ := hfull k (Nat.zero_le _) (by omega)
    rw [h2] at g1; rw [h3] at g2
    simp only [Option.some.injEq] at g1 g2
    subst g1 g2
    exact ⟨c, h1, h2, norm_len_ones h4 (by omega)⟩
  obtain ⟨sideIn, G, pf, vG, hGeq, hGsize, hGchunks⟩ := hinv.sin.group (r' := rin1) (L := L) l1 (by omega)
    (fun k hk => fr1 k (Or.inr hk))
    (fun k hk1 hk2 => by
      obtain ⟨c, d, h1, _, h3, _, h5⟩ := hslot k hk2
      exact ⟨c, d, h1, h3, h5⟩)
    ⟨i, by omega, Nat.le_refl _, fun k hk1 hk2 => by
        obtain ⟨c, h1, _, h3⟩ := hones k hk2
        exact ⟨c, h1, h3⟩, fun k hk1 hk2 => by omega⟩
    (fun k hk1 hk2 hk3 => by
      obtain ⟨c, d, h1, _, h3, h4, h5⟩ := hslot k hk2
      rw [hk3] at h3
      simp only [Option.some.injEq] at h3
      subst h3
      rw [h1, normAxis_one h4 h5])
  obtain ⟨_, hr1⟩ := pySet_nat_ok hrout1
  obtain ⟨sideOut, hOeq⟩ := hinv.sout.set (c := repeatL cii (prodL ((pySlice inchunks (L : Int) (i : Int)).map List.length)))
    hdout (fun h => absurd h hd1)
  rw [← hr1] at sideOut hOeq
  refine ⟨sideIn, sideOut, ?_⟩
  show Grouped ((axes inshape rin1).drop (pidx ((L : Int) - 1))) ((axes outshape rout1).drop (pidx ((o : Int) - 1)))
  rw [hGeq, hOeq]
  -- the written tuple is the list of block sizes of the group
  have hcii' := pyGet_nat_ok hcii
  have hseg : chunksA G = (inchunks.drop L).take (i - L) ++ [cii] := by
    rw [hGchunks, val_seg_eq (l := inchunks) (fun k hk1 hk2 => by
      obtain ⟨c, d, h1, h2, _⟩ := hslot k hk2
      exact ⟨c, h1, h2⟩)]
    have : i + 1 - L = (i - L) + 1 := by omega
    rw [this, List.take_add_one, List.getElem?_drop]
    have : L + (i - L) = i := by omega
    rw [this, hcii']; rfl
  have hpre : ∀ x ∈ (inchunks.drop L).take (i - L), allOnes x = true := by
    intro x hx
    obtain ⟨j, hj⟩ := List.mem_iff_getElem?.mp hx
    rw [List.getElem?_take] at hj
    split at hj
    · rw [List.getElem?_drop] at hj
      obtain ⟨c, _, h2, h3⟩ := hones (L + j) (by omega)
      rw [h2] at hj
      simp only [Option.some.injEq] at hj
      rw [← hj]; exact h3
    · simp at hj
  have hslice : pySlice inchunks (L : Int) (i : Int) = (inchunks.drop L).take (i - L) :=
    pySlice_nat inchunks L i (by rw [hwf.1]; omega)
  have hm : (dout, repeatL cii (prodL ((pySlice inchunks (L : Int) (i : Int)).map List.length))) = mergedAx G := by
    unfold mergedAx blockSizes
    rw [hGsize, hprodL, hseg, crossProd_ones_prefix' _ _ hpre, hslice]
  rw [hm]
  have hg := hinv.grp
  exact Grouped.merge G pf vG hg

/-- what `for k in range(L + 1, i + 1): r[k] = (shape[k],)` followed by `r[L] = e` leaves in the slots -/
theorem fulls_then_set {shape : List Nat} {r r1 r2 : Slots} {L i : Nat} {e : Chunks} (hLi : L ≤ i)
    (hr1 : setMany (fun k => do let d ← pyGet shape k; pure [d]) r (pyRange ((L : Int) + 1) ((i : Int) + 1)) = .ok r1)
    (hr2 : pySet r1 (L : Int) (some e) = .ok r2) :
    r2.length = r.length ∧ (∀ k, i + 1 ≤ k → r2[k]? = r[k]?) ∧ r2[L]? = some (some e) ∧
      ∀ k, L < k → k ≤ i → ∃ d, shape[k]? = some d ∧ r2[k]? = some (some [d]) := by
  have e1 : ((L : Int) + 1) = ((L + 1 : Nat) : Int) := by push_cast; rfl
  have e2 : ((i : Int) + 1) = ((i + 1 : Nat) : Int) := by push_cast; rfl
  rw [e1, e2] at hr1
  obtain ⟨l1, fr1, in1⟩ := setMany_range hr1
  obtain ⟨hL1, hr2⟩ := pySet_nat_ok hr2
  subst hr2
  refine ⟨by simp [l1], ?_, by rw [List.getElem?_set]; simp [hL1], ?_⟩
  · intro k hk
    rw [List.getElem?_set]
    have : L ≠ k := by omega
    simp only [this, if_false]; exact fr1 k (Or.inr hk)
  · intro k hk1 hk2
    obtain ⟨_, v, hv, hr⟩ := in1 k (by omega) (by omega)
    rw [bind_ok] at hv
    obtain ⟨d, hd, hv⟩ := hv
    rw [pure_ok] at hv
    refine ⟨d, pyGet_nat_ok hd, ?_⟩
    rw [List.getElem?_set]
    have : L ≠ k := by omega
    simp only [this, if_false]
    rw [hr, hv]

/-- the merge branch, general case (`expand_tuple`, `_smooth_chunks`, `_calc_lower_dimension_chunks`) -/
theorem merge_general (hwf : WFIn inshape inchunks) {i o L : Nat} {rin rout rin1 rin2 rin3 rout1 : Slots}
    {din dout cr mx : Nat} {cl e low : Chunks}
    (hinv : Inv inshape outshape ⟨(i : Int), (o : Int), rin, rout⟩)
    (hdin : inshape[i]? = some din) (hdout : outshape[o]? = some dout) (hd1 : dout ≠ 1)
    (hLi : L < i) (hprodL : prodL ((inshape.drop L).take (i + 1 - L)) = dout)
    (hrin1 : setMany (fun k => do let d ← pyGet inshape k; pure [d]) rin
      (pyRange ((L : Int) + 1) ((i : Int) + 1)) = .ok rin1)
    (hcl : pyGet inchunks (L : Int) = .ok cl) (he : expandTuple cl cr = .ok e)
    (hrin2 : pySet rin1 (L : Int) (some e) = .ok rin2)
    (hsm : smooth (rin2.length + 1) (L : Int) (i : Int) mx rin2 = .ok rin3)
    (hlow : calcLower rin3 (L : Int) (i : Int) = .ok low)
    (hrout1 : pySet rout (o : Int) (some low) = .ok rout1) :
    Inv inshape outshape ⟨(L : Int) - 1, (o : Int) - 1, rin3, rout1⟩ := by
  have hi : i < inshape.length := (List.getElem?_eq_some_iff.mp hdin).1
  obtain ⟨hlen2, hframe, heL, hfull⟩ := fulls_then_set (by omega) hrin1 hrin2
  have hdL : inshape[L]? = some inshape[L] := List.getElem?_eq_getElem (by omega)
  obtain ⟨c, h1, h2, h3⟩ := wf_get hwf hdL
  have := pyGet_nat_ok hcl
  rw [h1] at this
  simp only [Option.some.injEq] at this
  subst this
  have hes : e.sum = inshape[L] := by rw [expandTuple_sum he, h3]
  obtain ⟨sideIn, G, pf, vG, hGeq, hGm⟩ := smoothed_group hinv.sin hlen2 (by omega) hframe hdL heL hes
    (fun h1' => pos_sum_one (expandTuple_pos he (norm_pos_of_sum_one h2 (by omega))) (by omega))
    hfull hsm hlow
  obtain ⟨_, hr1⟩ := pySet_nat_ok hrout1
  obtain ⟨sideOut, hOeq⟩ := hinv.sout.set (c := low) hdout (fun h => absurd h hd1)
  rw [← hr1] at sideOut hOeq
  refine ⟨sideIn, sideOut, ?_⟩
  show Grouped ((axes inshape rin3).drop (pidx ((L : Int) - 1))) ((axes outshape rout1).drop (pidx ((o : Int) - 1)))
  rw [hGeq, hOeq, ← hprodL, ← hGm]
  exact Grouped.merge G pf vG hinv.grp

theorem prodL_seg_cons {shape : List Nat} {L o dL : Nat} (hL : L < o) (hdL : shape[L]? = some dL) :
    prodL ((shape.drop L).take (o + 1 - L)) = dL * prodL ((shape.drop (L + 1)).take (o - L)) := by
  obtain ⟨hk, hv⟩ := List.getElem?_eq_some_iff.mp hdL
  have : o + 1 - L = (o - L) + 1 := by omega
  rw [List.drop_eq_getElem_cons hk, hv, this, List.take_succ_cons]
  rfl

/-- the split branch -/
theorem split_inv (hwf : WFIn inshape inchunks) {i o L : Nat} {rin rout rin1 rin2 rout1 rout2 rout3 : Slots}
    {din dout cs mx : Nat} {cii ct low : Chunks}
    (hinv : Inv inshape outshape ⟨(i : Int), (o : Int), rin, rout⟩)
    (hdin : inshape[i]? = some din) (hdout : outshape[o]? = some dout) (hd1 : din ≠ 1)
    (hLo : L < o) (hprodL : prodL ((outshape.drop L).take (o + 1 - L)) = din)
    (hcs : reduceMul (pySlice outshape ((L : Int) + 1) ((o : Int) + 1)) = .ok cs)
    (hcii : pyGet inchunks (i : Int) = .ok cii) (hct : contractTuple cii cs = .ok ct)
    (hrin1 : pySet rin (i : Int) (some ct) = .ok rin1)
    (hrout1 : setMany (fun k => do let d ← pyGet outshape k; pure [d]) rout
      (pyRange ((L : Int) + 1) ((o : Int) + 1)) = .ok rout1)
    (hrout2 : pySet rout1 (L : Int) (some (ct.map (fun c => c / cs))) = .ok rout2)
    (hsm : smooth (rout2.length + 1) (L : Int) (o : Int) mx rout2 = .ok rout3)
    (hlow : calcLower rout3 (L : Int) (o : Int) = .ok low)
    (hrin2 : pySet rin1 (i : Int) (some low) = .ok rin2) :
    Inv inshape outshape ⟨(i : Int) - 1, (L : Int) - 1, rin2, rout3⟩ := by
  have ho : o < outshape.length := (List.getElem?_eq_some_iff.mp hdout).1
  obtain ⟨hlen2, hframe, heL, hfull⟩ := fulls_then_set (by omega) hrout1 hrout2
  have hdL : outshape[L]? = some outshape[L] := List.getElem?_eq_getElem (by omega)
  -- `cs` is the product of the trailing output lengths, `din = outshape[L] * cs`
  have e1 : ((L : Int) + 1) = ((L + 1 : Nat) : Int) := by push_cast; rfl
  have e2 : ((o : Int) + 1) = ((o + 1 : Nat) : Int) := by push_cast; rfl
  rw [e1, e2, pySlice_nat outshape _ _ (by omega)] at hcs
  obtain ⟨_, hcsv⟩ := reduceMul_ok hcs
  have hcs' : cs = prodL ((outshape.drop (L + 1)).take (o - L)) := by
    rw [hcsv]; congr 2; omega
  have hdecomp : din = outshape[L] * cs := by rw [← hprodL, prodL_seg_cons hLo hdL, hcs']
  obtain ⟨hcspos, hctsum, hctmem⟩ := contractTuple_ok hct
  obtain ⟨c, h1, h2, h3⟩ := wf_get hwf hdin
  have := pyGet_nat_ok hcii
  rw [h1] at this
  simp only [Option.some.injEq] at this
  subst this
  have hq : (ct.map (fun c => c / cs)).sum = outshape[L] := by
    have hm := sum_map_div hcspos ct (fun y hy => (hctmem y hy).2)
    rw [hctsum, h3, hdecomp] at hm
    exact Nat.eq_of_mul_eq_mul_right hcspos hm
  have hqpos : ∀ x ∈ ct.map (fun c => c / cs), 0 < x := by
    intro x hx
    rw [List.mem_map] at hx
    obtain ⟨y, hy, hxy⟩ := hx
    obtain ⟨hy0, q, hq'⟩ := hctmem y hy
    rw [← hxy, hq', Nat.mul_div_cancel_left q hcspos]
    rcases Nat.eq_zero_or_pos q with h0 | h0
    · subst h0; simp at hq'; exact absurd hq' hy0
    · exact h0
  obtain ⟨sideOut, G, pf, vG, hGeq, hGm⟩ := smoothed_group hinv.sout hlen2 (by omega) hframe hdL heL hq
    (fun h1' => pos_sum_one hqpos (by omega)) hfull hsm hlow
  obtain ⟨hi1, hr1⟩ := pySet_nat_ok hrin1
  obtain ⟨_, hr2⟩ := pySet_nat_ok hrin2
  have hr2' : rin2 = rin.set i (some low) := by rw [hr2, hr1, List.set_set]
  obtain ⟨sideIn, hIeq⟩ := hinv.sin.set (c := low) hdin (fun h => absurd h hd1)
  rw [← hr2'] at sideIn hIeq
  refine ⟨sideIn, sideOut, ?_⟩
  show Grouped ((axes inshape rin2).drop (pidx ((i : Int) - 1))) ((axes outshape rout3).drop (pidx ((L : Int) - 1)))
  rw [hGeq, hIeq, ← hprodL, ← hGm]
  exact Grouped.split G pf vG hinv.grp

/-- one round of the `while` loop preserves the invariant -/
theorem step_inv (hwf : WFIn inshape inchunks) (hpos : Pos inshape) (hprod : prodL inshape = prodL outshape)
    {ne : Bool} {s s' : St} (hinv : Inv inshape outshape s) (hgo : 0 ≤ s.ii ∨ 0 ≤ s.oi)
    (h : step inshape outshape inchunks ne s = .ok s') : Inv inshape outshape s' := by
  obtain ⟨ii, oi, rin, rout⟩ := s
  unfold step at h
  simp only [bind_ok] at h
  obtain ⟨din, hdin, dout, hdout, h⟩ := h
  obtain ⟨t1, t2⟩ := tail_facts hpos hprod hinv hgo hdin hdout
  simp only at t1 t2 hgo hdin hdout
  have sin0 : Side inshape ii rin := hinv.sin
  have sout0 : Side outshape oi rout := hinv.sout
  have grp0 : Grouped ((axes inshape rin).drop (pidx ii)) ((axes outshape rout).drop (pidx oi)) := hinv.grp
  split at h
  · -- `inshape[ii] == outshape[oi]`
    rename_i heq
    simp only [bind_ok, pure_ok] at h
    obtain ⟨c, hc, rin', hrin', rout', hrout', hs'⟩ := h
    subst hs'
    obtain ⟨hnorm, hsum⟩ := wf_pyGet hwf hdin hc
    have hc1 : din = 1 → c = [1] := fun h1 => normAxis_one hnorm (by omega)
    obtain ⟨sIn, cIn⟩ := sin0.write hdin hc1 (fun hx => by rw [heq]; exact t1 hx) hrin'
    obtain ⟨sOut, cOut⟩ := sout0.write hdout (by rw [← heq]; exact hc1)
      (fun hx => by rw [← heq]; exact t2 hx) hrout'
    refine ⟨sIn, sOut, ?_⟩
    show Grouped ((axes inshape rin').drop (pidx (ii - 1))) ((axes outshape rout').drop (pidx (oi - 1)))
    rcases cIn with ⟨hi0, eIn⟩ | ⟨hi0, eIn⟩ <;> rcases cOut with ⟨ho0, eOut⟩ | ⟨ho0, eOut⟩
    · rw [eIn, eOut, ← heq]; exact Grouped.eq (din, c) hsum grp0
    · have h1 := t2 ho0
      rw [eIn, eOut, hc1 h1, h1]; exact Grouped.in1 grp0
    · have h1 := t1 hi0
      rw [eIn, eOut, hc1 (by omega), h1]; exact Grouped.out1 grp0
    · omega
  · rename_i hne
    split at h
    · -- `din == 1`
      rename_i hd1
      simp only [bind_ok, pure_ok] at h
      obtain ⟨rin', hrin', hs'⟩ := h
      subst hs'
      have hi0 : 0 ≤ ii := by
        rcases Int.lt_or_le ii 0 with hx | hx
        · have := t1 hx; omega
        · exact hx
      obtain ⟨sIn, cIn⟩ := sin0.write (c := [1]) hdin (fun _ => rfl) (fun _ => hd1) hrin'
      refine ⟨sIn, sout0, ?_⟩
      show Grouped ((axes inshape rin').drop (pidx (ii - 1))) ((axes outshape rout).drop (pidx oi))
      rcases cIn with ⟨_, eIn⟩ | ⟨hx, _⟩
      · rw [eIn, hd1]; exact Grouped.in1 grp0
      · omega
    · rename_i hd1
      split at h
      · -- `dout == 1`
        rename_i hd2
        simp only [bind_ok, pure_ok] at h
        obtain ⟨rout', hrout', hs'⟩ := h
        subst hs'
        have ho0 : 0 ≤ oi := by
          rcases Int.lt_or_le oi 0 with hx | hx
          · have := t2 hx; omega
          · exact hx
        obtain ⟨sOut, cOut⟩ := sout0.write (c := [1]) hdout (fun _ => rfl) (fun _ => hd2) hrout'
        refine ⟨sin0, sOut, ?_⟩
        show Grouped ((axes inshape rin).drop (pidx ii)) ((axes outshape rout').drop (pidx (oi - 1)))
        rcases cOut with ⟨_, eOut⟩ | ⟨hx, _⟩
        · rw [eOut, hd2]; exact Grouped.out1 grp0
        · omega
      · rename_i hd2
        -- merge or split: both running indices are non-negative
        have hi0 : 0 ≤ ii := by
          rcases Int.lt_or_le ii 0 with hx | hx
          · have := t1 hx; omega
          · exact hx
        have ho0 : 0 ≤ oi := by
          rcases Int.lt_or_le oi 0 with hx | hx
          · have := t2 hx; omega
          · exact hx
        obtain ⟨i, hi⟩ : ∃ i : Nat, ii = (i : Int) := ⟨ii.toNat, by omega⟩
        obtain ⟨o, ho⟩ : ∃ o : Nat, oi = (o : Int) := ⟨oi.toNat, by omega⟩
        subst hi ho
        have hdin' := pyGet_nat_ok hdin
        have hdout' := pyGet_nat_ok hdout
        have hi : i < inshape.length := (List.getElem?_eq_some_iff.mp hdin').1
        have ho : o < outshape.length := (List.getElem?_eq_some_iff.mp hdout').1
        split at h
        · -- merge
          unfold mergeStep at h
          simp only [bind_ok] at h
          obtain ⟨ileft, hgl, p, hp, h⟩ := h
          split at h
          · simp at h
          · rename_i hpd
            have hpd' : p = dout := Decidable.not_not.mp hpd
            obtain ⟨L, hL, hLi, hprodL⟩ := group_left hi hdin' hne hgl hp hpd'
            subst hL
            simp only [bind_ok] at h
            obtain ⟨b, hb, h⟩ := h
            split at h
            · rename_i hbt
              subst hbt
              simp only [bind_ok, pure_ok] at h
              obtain ⟨rin1, hrin1, cii, hcii, rout1, hrout1, hs'⟩ := h
              subst hs'
              exact merge_special hwf hinv hdin' hdout' hd2 hLi hprodL hb hrin1 hcii hrout1
            · simp only [bind_ok, pure_ok] at h
              obtain ⟨rin1, hrin1, cr, _, cl, hcl, e, he, rin2, hrin2, mx, _, rin3, hrin3, low, hlow,
                rout1, hrout1, hs'⟩ := h
              subst hs'
              exact merge_general hwf hinv hdin' hdout' hd2 hLi hprodL hrin1 hcl he hrin2 hrin3 hlow hrout1
        · -- split
          unfold splitStep at h
          split at h
          · simp at h
          · simp only [bind_ok] at h
            obtain ⟨oleft, hgl, p, hp, h⟩ := h
            split at h
            · simp at h
            · rename_i hpd
              have hpd' : p = din := Decidable.not_not.mp hpd
              obtain ⟨L, hL, hLo, hprodL⟩ := group_left ho hdout' (Ne.symm hne) hgl hp hpd'
              subst hL
              simp only [bind_ok, pure_ok] at h
              obtain ⟨cs, hcs, cii, hcii, ct, hct, rin1, hrin1, rout1, hrout1, rout2, hrout2, mx, _,
                rout3, hrout3, low, hlow, rin2, hrin2, hs'⟩ := h
              subst hs'
              exact split_inv hwf hinv hdin' hdout' hd1 hLo hprodL hcs hcii hct hrin1 hrout1 hrout2
                hrout3 hlow hrin2

/-- the whole loop -/
theorem loop_inv (hwf : WFIn inshape inchunks) (hpos : Pos inshape) (hprod : prodL inshape = prodL outshape)
    {ne : Bool} : ∀ (fuel : Nat) (s s' : St), Inv inshape outshape s →
    loop inshape outshape inchunks ne fuel s = .ok s' → Inv inshape outshape s' ∧ s'.ii < 0 ∧ s'.oi < 0
  | 0, s, s', _, h => by simp [loop] at h
  | fuel + 1, s, s', hinv, h => by
    unfold loop at h
    split at h
    · rename_i hgo
      rw [bind_ok] at h
      obtain ⟨s1, hs1, h⟩ := h
      exact loop_inv hwf hpos hprod fuel s1 s' (step_inv hwf hpos hprod hinv hgo hs1) h
    · rename_i hgo
      simp only [pure_ok] at h
      subst h
      exact ⟨hinv, by omega, by omega⟩

end

theorem unslot_val : ∀ (r : Slots), SomeFrom 0 r → unslot r = .ok (val r)
  | [], _ => rfl
  | o :: r, h => by
    obtain ⟨c, hc⟩ := h 0 (Nat.le_refl _) (by simp)
    simp only [List.getElem?_cons_zero, Option.some.injEq] at hc
    subst hc
    have ih := unslot_val r (fun k _ hk => by
      have := h (k + 1) (Nat.zero_le _) (by simpa using hk)
      simpa using this)
    simp [unslot, ih, val, bind, Except.bind, pure, Except.pure]

/-- **Structure theorem.**  A successful plan on a well-formed input without zero-length axes and with equal
sizes groups the input axes (with the rechunked input chunks) and the output axes (with the output chunks). -/
theorem plan_grouped {inshape outshape : List Nat} {inchunks ic oc : List Chunks}
    (hwf : WFIn inshape inchunks) (hpos : Pos inshape) (hprod : prodL inshape = prodL outshape)
    (h : plan inshape outshape inchunks = .ok (ic, oc)) :
    ic.length = inshape.length ∧ oc.length = outshape.length ∧
      Grouped (List.zip inshape ic) (List.zip outshape oc) := by
  unfold plan planRaw at h
  simp only [bind_ok, pure_ok] at h
  obtain ⟨r, ⟨sF, hloop, hr⟩, a, ha, b, hb, hab⟩ := h
  have e1 : ((inshape.length : Int) - 1) = ((inshape.length : Nat) : Int) - 1 := rfl
  have hinit : Inv inshape outshape ⟨(inshape.length : Int) - 1, (outshape.length : Int) - 1,
      List.replicate inshape.length none, List.replicate outshape.length none⟩ := by
    refine ⟨⟨by simp, by simp; omega, ?_, ?_⟩, ⟨by simp, by simp; omega, ?_, ?_⟩, ?_⟩
    · intro k hk hkl; simp only [pidx_pred] at hk; simp at hkl; omega
    · intro k hk hk1
      simp only [pidx_pred] at hk
      have := (List.getElem?_eq_some_iff.mp hk1).1; omega
    · intro k hk hkl; simp only [pidx_pred] at hk; simp at hkl; omega
    · intro k hk hk1
      simp only [pidx_pred] at hk
      have := (List.getElem?_eq_some_iff.mp hk1).1; omega
    · simp only [pidx_pred]
      have h1 : (axes inshape (List.replicate inshape.length none)).drop inshape.length = [] := by
        apply List.drop_eq_nil_of_le; rw [axes_length (by simp)]; exact Nat.le_refl _
      have h2 : (axes outshape (List.replicate outshape.length none)).drop outshape.length = [] := by
        apply List.drop_eq_nil_of_le; rw [axes_length (by simp)]; exact Nat.le_refl _
      rw [h1, h2]; exact Grouped.nil
  obtain ⟨hF, hi, ho⟩ := loop_inv hwf hpos hprod _ _ _ hinit hloop
  have fi := hF.sin.filled
  have fo := hF.sout.filled
  have gF := hF.grp
  rw [pidx_neg hi] at fi gF
  rw [pidx_neg ho] at fo gF
  rw [← hr] at ha hb
  simp only at ha hb
  rw [unslot_val _ fi] at ha
  rw [unslot_val _ fo] at hb
  simp only [Except.ok.injEq] at ha hb
  simp only [Prod.mk.injEq] at hab
  obtain ⟨h1, h2⟩ := hab
  subst h1 h2
  rw [← ha, ← hb]
  refine ⟨by rw [val_length, hF.sin.len], by rw [val_length, hF.sout.len], ?_⟩
  simpa [axes] using gF

end Dask.Reshape
