/-
Phase 3, `Expr2.take` (integer-list index along one axis): the groups of positions that make the
output blocks (`takeGroups`: `_compute_indexer` + `Shuffle._new_chunks`, or the identity grouping)
concatenate to the posified index list (C12's `computeIndexer_flatten` / `newChunks_flatten`), hence the
gathered block is the block of NumPy's `x[:, …, idx, …, :]`.  Also the gather specs of an op acting
on one axis (`axisSpecs`).
-/
import DaskArrayModel.Lemmas.Expr2Zip
import DaskArrayModel.Lemmas.Indexing
namespace Dask.ND
open Dask.Py Dask.Py.PySlice Dask.Slicing

/-! ### one-axis gather ops -/

theorem axisSpecs_ok : ∀ (cl : Layout) (ax : Nat) (m : AxisMap) (oc : List Nat), ax < cl.length →
    AxisOK m oc (cl.getD ax []) → SpecsOK (axisSpecs cl ax m) (cl.set ax oc) cl
  | [], _, _, _, h, _ => by simp at h
  | cs :: cl, 0, m, oc, _, hm => by
    simp only [axisSpecs, List.set_cons_zero]
    exact SpecsOK.keep (by simpa using hm) (idSpecs_ok cl)
  | cs :: cl, ax + 1, m, oc, h, hm => by
    simp only [axisSpecs, List.set_cons_succ]
    exact SpecsOK.keep (idAxis_ok cs) (axisSpecs_ok cl ax m oc (by simpa using h) (by simpa using hm))

theorem gGlob_axisSpecs : ∀ (cl : Layout) (ax : Nat) (m : AxisMap) (g : List Nat), ax < cl.length →
    g.length = cl.length → gGlob (axisSpecs cl ax m) g = g.set ax (m.gmap (g.getD ax 0))
  | [], _, _, _, h, _ => by simp at h
  | cs :: cl, 0, m, x :: g, _, hg => by
    simp only [axisSpecs, gGlob, List.set_cons_zero, List.getD_cons_zero]
    rw [gGlob_idSpecs cl g (by simpa using hg)]
  | cs :: cl, ax + 1, m, x :: g, h, hg => by
    simp only [axisSpecs, gGlob, List.set_cons_succ, List.getD_cons_succ]
    rw [gGlob_axisSpecs cl ax m g (by simpa using h) (by simpa using hg)]; rfl
  | _ :: _, _, _, [], _, hg => by simp at hg

/-! ### the groups of `take` -/

theorem splitLens_flatten {α} : ∀ (cs : List Nat) (l : List α), (splitLens cs l).flatten = l.take cs.sum
  | [], l => by simp [splitLens]
  | c :: cs, l => by
    simp only [splitLens, List.flatten_cons, List.sum_cons]
    rw [splitLens_flatten cs (l.drop c), List.take_add]

theorem splitLens_ne_nil {α} (cs : List Nat) (l : List α) (h : cs ≠ []) : splitLens cs l ≠ [] := by
  cases cs with
  | nil => exact absurd rfl h
  | cons c cs => simp [splitLens]

theorem foldl_max_ge : ∀ (l : List Int) (init : Int), init ≤ l.foldl max init ∧ ∀ x ∈ l, x ≤ l.foldl max init
  | [], init => ⟨Int.le_refl _, fun x hx => by simp at hx⟩
  | y :: l, init => by
    simp only [List.foldl_cons]
    obtain ⟨h1, h2⟩ := foldl_max_ge l (max init y)
    refine ⟨by omega, ?_⟩
    intro x hx
    rcases List.mem_cons.mp hx with rfl | hx
    · omega
    · exact h2 x hx

theorem exists_pos_of_sum_pos : ∀ (cs : List Nat), 0 < cs.sum → ∃ c ∈ cs, 0 < c
  | [], h => by simp at h
  | c :: cs, h => by
    by_cases hc : 0 < c
    · exact ⟨c, by simp, hc⟩
    · simp only [List.sum_cons] at h
      obtain ⟨c', h1, h2⟩ := exists_pos_of_sum_pos cs (by omega)
      exact ⟨c', List.mem_cons_of_mem _ h1, h2⟩

theorem take_limit_pos (cs : List Nat) (h : 0 < cs.sum) : 0 < ((toI cs).foldl max 0).toNat := by
  obtain ⟨c, hc, hpos⟩ := exists_pos_of_sum_pos cs h
  have := (foldl_max_ge (toI cs) 0).2 (c : Int) (by simp only [toI, List.mem_map]; exact ⟨c, hc, rfl⟩)
  omega

theorem posifyInt_bounds (n : Nat) (k : Int) (h : -(n : Int) ≤ k ∧ k < (n : Int)) :
    0 ≤ posifyInt n k ∧ posifyInt n k < n := by
  unfold posifyInt; split <;> omega

theorem takeGroups_spec (n : Nat) (cs : List Nat) (idx : List Int) (hn : cs.sum = n) (hcs : cs ≠ [])
    (hidx : ∀ k ∈ idx, -(n : Int) ≤ k ∧ k < (n : Int)) :
    (takeGroups n cs idx).flatten = idx.map (posifyInt n) ∧ takeGroups n cs idx ≠ [] := by
  unfold takeGroups
  dsimp only
  split
  · rename_i h; rw [h]; simp
  · rename_i hne
    split
    · rename_i hr
      refine ⟨?_, splitLens_ne_nil _ _ hcs⟩
      rw [splitLens_flatten, hn]
      apply List.take_of_length_le
      rw [hr, Dask.ND.rangeList_one_length 0 n (by omega)]; omega
    · have hflat := Dask.Lemmas.Indexing.computeIndexer_flatten (idx.map (posifyInt n)) (toI cs)
      split
      · refine ⟨hflat, ?_⟩
        intro he; rw [he] at hflat; exact hne (by simpa using hflat.symm)
      · have hpos : 0 < n := by
          cases idx with
          | nil => simp at hne
          | cons k _ => have := hidx k (by simp); omega
        have hl := take_limit_pos cs (by omega)
        have h2 := Dask.Lemmas.Indexing.newChunks_flatten hl
          (Dask.Indexing.computeIndexer (idx.map (posifyInt n)) (toI cs))
        rw [hflat] at h2
        refine ⟨h2, ?_⟩
        intro he; rw [he] at h2; exact hne (by simpa using h2.symm)

theorem flatten_getD : ∀ (gs : List (List Int)) (j i : Nat), j < gs.length → i < (gs.getD j []).length →
    gs.flatten.getD (((gs.map List.length).take j).sum + i) 0 = (gs.getD j []).getD i 0
  | [], _, _, h, _ => by simp at h
  | g :: gs, 0, i, _, hi => by
    simp only [List.getD_cons_zero] at hi
    simp only [List.flatten_cons, List.take_zero, List.sum_nil, Nat.zero_add, List.getD_cons_zero]
    simp [List.getD_eq_getElem?_getD, List.getElem?_append_left hi]
  | g :: gs, j + 1, i, hj, hi => by
    simp only [List.getD_cons_succ] at hi
    have ih := flatten_getD gs j i (by simpa using hj) hi
    simp only [List.flatten_cons, List.map_cons, List.take_succ_cons, List.sum_cons, List.getD_cons_succ]
    rw [← ih]
    simp only [List.getD_eq_getElem?_getD]
    rw [List.getElem?_append_right (by omega)]
    congr 2
    omega

theorem sum_map_length_flatten (gs : List (List Int)) : (gs.map List.length).sum = gs.flatten.length := by
  rw [List.length_flatten]

/-- the take axis satisfies the per-axis obligation of the gather construction -/
theorem takeAxis_ok (n : Nat) (cs : List Nat) (idx : List Int) (hn : cs.sum = n) (hcs : cs ≠ [])
    (hidx : ∀ k ∈ idx, -(n : Int) ≤ k ∧ k < (n : Int)) :
    AxisOK (takeAxis n cs idx) ((takeGroups n cs idx).map List.length) cs := by
  obtain ⟨hflat, _⟩ := takeGroups_spec n cs idx hn hcs hidx
  intro j hj
  rw [List.length_map] at hj
  have hlen : ((takeGroups n cs idx).map List.length).getD j 0 = ((takeGroups n cs idx).getD j []).length := by
    rw [getD_map List.length _ j [] 0 hj]
  refine ⟨by simp only [takeAxis]; exact hlen.symm, ?_⟩
  intro i hi
  rw [hlen] at hi
  -- the position read
  have hp := flatten_getD (takeGroups n cs idx) j i hj hi
  rw [hflat] at hp
  have hglt : ((List.map List.length (takeGroups n cs idx)).take j).sum + i < idx.length := by
    have h1 : ((takeGroups n cs idx).map List.length).sum = idx.length := by
      rw [sum_map_length_flatten, hflat, List.length_map]
    have h2 := sum_take_add_getD_le ((takeGroups n cs idx).map List.length) j (by simpa using hj)
    rw [hlen] at h2
    omega
  rw [getD_map (posifyInt n) idx _ 0 0 hglt] at hp
  have hb := posifyInt_bounds n _ (hidx _ (getD_mem_of_lt idx _ 0 hglt))
  have hlt : (posifyInt n (idx.getD (((List.map List.length (takeGroups n cs idx)).take j).sum + i) 0)).toNat
      < cs.sum := by omega
  obtain ⟨f1, f2, f3⟩ := findBlock_spec cs _ hlt
  simp only [takeAxis]
  rw [← hp]
  exact ⟨f1, f2, f3⟩

theorem take_block (env : Env) (e : Expr2) (ax : Nat) (idx : List Int)
    (m1 : (chunks2 e).map List.sum = shape2 e) (m2 : NonEmptyAxes (chunks2 e))
    (hax : ax < (shape2 e).length)
    (hidx : ∀ k ∈ idx, -(((shape2 e).getD ax 0 : Nat) : Int) ≤ k ∧ k < (((shape2 e).getD ax 0 : Nat) : Int))
    (ih : BlockOK2 env e) : BlockOK2 env (.take e ax idx) := by
  have hcl : (chunks2 e).length = (shape2 e).length := length_of_map_sum m1
  have haxc : ax < (chunks2 e).length := by omega
  have hn : ((chunks2 e).getD ax []).sum = (shape2 e).getD ax 0 := sum_getD_of_map_sum m1 ax
  have hne := m2.getD ax haxc
  have hidx' : ∀ k ∈ idx, -((((chunks2 e).getD ax []).sum : Nat) : Int) ≤ k ∧
      k < ((((chunks2 e).getD ax []).sum : Nat) : Int) := by rw [hn]; exact hidx
  have hAx := takeAxis_ok _ ((chunks2 e).getD ax []) idx rfl hne hidx'
  have hspecs := axisSpecs_ok (chunks2 e) ax _ _ haxc hAx
  obtain ⟨hflat, _⟩ := takeGroups_spec _ ((chunks2 e).getD ax []) idx rfl hne hidx'
  have hsum : (chunks2 (.take e ax idx)).map List.sum = shape2 (.take e ax idx) := by
    simp only [chunks2, shape2]
    rw [List.map_set, m1, sum_map_length_flatten, hflat, List.length_map]
  intro bid hb
  have hG := gatherBlock_correct hspecs (den2 env e) (fun k => blockDen2 env e k) ih
    (shape2 (.take e ax idx)) bid hb
  refine Arr.Equiv.trans hG ?_
  show Arr.Equiv _ (restrict ⟨shape2 (.take e ax idx), (den2 env (.take e ax idx)).get⟩
    (extent (chunks2 (.take e ax idx)) bid))
  apply restrict_congr _ _ _ _ _ hsum hb
  intro g hg
  have hgl : g.length = (chunks2 e).length := by
    rw [hg.length_eq]; simp only [shape2, List.length_set]; exact hcl.symm
  rw [gGlob_axisSpecs _ _ _ g haxc hgl]
  simp only [den2, takeAxis, hn]

end Dask.ND
