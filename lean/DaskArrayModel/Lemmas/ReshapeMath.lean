/-
Arithmetic behind the reshape theorems (Props/C01Reshape.lean, Props/C03Reshape.lean):
row-major flat positions, block sizes of a grid, the grouped structure of a plan implies block equivalence,
block equivalence implies that the blockwise plan computes NumPy's reshape.   Core Lean only.
-/
import DaskArrayModel.Model.ReshapeSpec
import DaskArrayModel.Lemmas.ExprArr
namespace Dask.Reshape
open Dask.ND

/-! ## 0. products, flat positions -/

theorem foldl_mul_eq (l : List Nat) (a : Nat) : l.foldl (· * ·) a = a * prodL l := by
  induction l generalizing a with
  | nil => simp [prodL]
  | cons x xs ih => simp only [List.foldl_cons, prodL]; rw [ih, Nat.mul_assoc]

theorem flatIndex_cons (d : Nat) (ds : List Nat) (x : Nat) (xs : List Nat) :
    flatIndex (d :: ds) (x :: xs) = x * prodL ds + flatIndex ds xs := by
  simp only [flatIndex]; rw [foldl_mul_eq, Nat.one_mul]

theorem prodL_append (l m : List Nat) : prodL (l ++ m) = prodL l * prodL m := by
  induction l with
  | nil => simp [prodL]
  | cons x xs ih => simp only [List.cons_append, prodL]; rw [ih, Nat.mul_assoc]

theorem mul_add_lt {x d r P : Nat} (hx : x < d) (hr : r < P) : x * P + r < d * P := by
  have h1 : (x + 1) * P ≤ d * P := Nat.mul_le_mul_right P hx
  rw [Nat.add_mul, Nat.one_mul] at h1
  omega

theorem flatIndex_lt : ∀ {i s : List Nat}, InB i s → flatIndex s i < prodL s
  | [], [], _ => by simp [flatIndex, prodL]
  | x :: xs, d :: ds, h => by
    rw [flatIndex_cons]
    simp only [prodL]
    exact mul_add_lt h.1 (flatIndex_lt h.2)
  | [], _ :: _, h => h.elim
  | _ :: _, [], h => h.elim

theorem mul_add_div_of_lt {x r P : Nat} (hr : r < P) : (x * P + r) / P = x := by
  have hP : 0 < P := by omega
  rw [Nat.mul_comm, Nat.mul_add_div hP, Nat.div_eq_of_lt hr, Nat.add_zero]

theorem mul_add_mod_of_lt {x r P : Nat} (hr : r < P) : (x * P + r) % P = r := by
  rw [Nat.mul_comm, Nat.mul_add_mod, Nat.mod_eq_of_lt hr]

theorem unflat_flatIndex_aux : ∀ (shape i : List Nat) (_ : InB i shape), unflat shape (flatIndex shape i) = i
  | [], [], _ => by simp [unflat]
  | d :: ds, x :: xs, h => by
    have hr := flatIndex_lt h.2
    rw [flatIndex_cons]
    simp only [unflat]
    rw [mul_add_div_of_lt hr, mul_add_mod_of_lt hr, unflat_flatIndex_aux ds xs h.2]
  | _ :: _, [], h => h.elim
  | [], _ :: _, h => h.elim

theorem flatIndex_unflat_aux : ∀ (shape : List Nat) (g : Nat) (_ : g < prodL shape),
    InB (unflat shape g) shape ∧ flatIndex shape (unflat shape g) = g
  | [], g, h => by
    simp only [prodL] at h
    simp only [unflat, flatIndex, InB, true_and]; omega
  | d :: ds, g, h => by
    simp only [prodL] at h
    have hP : 0 < prodL ds := by
      rcases Nat.eq_zero_or_pos (prodL ds) with h0 | h0
      · rw [h0] at h; simp at h
      · exact h0
    have ih := flatIndex_unflat_aux ds (g % prodL ds) (Nat.mod_lt _ hP)
    simp only [unflat]
    rw [flatIndex_cons]
    refine ⟨⟨?_, ih.1⟩, ?_⟩
    · rw [Nat.div_lt_iff_lt_mul hP]; exact h
    · rw [ih.2, Nat.mul_comm]; exact Nat.div_add_mod g (prodL ds)

theorem unflat_flatIndex (shape i : List Nat) (h : InB i shape) : unflat shape (flatIndex shape i) = i :=
  unflat_flatIndex_aux shape i h

theorem flatIndex_unflat (shape : List Nat) (g : Nat) (h : g < prodL shape) :
    InB (unflat shape g) shape ∧ flatIndex shape (unflat shape g) = g :=
  flatIndex_unflat_aux shape g h

/-! ## 1. `crossProd` -/

theorem map_mul_one (c : List Nat) : c.map (fun y => 1 * y) = c := by
  induction c with
  | nil => rfl
  | cons x xs ih => simp

theorem crossProd_single (c : List Nat) : crossProd [c] = c := by
  induction c with
  | nil => rfl
  | cons x xs ih =>
    simp only [crossProd, List.flatMap_cons, List.map_cons, List.map_nil, Nat.mul_one] at ih ⊢
    rw [ih]; rfl

theorem crossProd_append (cs ds : List Chunks) :
    crossProd (cs ++ ds) = (crossProd cs).flatMap (fun x => (crossProd ds).map (fun y => x * y)) := by
  induction cs with
  | nil => simp [crossProd]
  | cons c cs ih =>
    simp only [List.cons_append, crossProd]
    rw [ih, List.flatMap_assoc]
    congr 1
    funext x
    rw [List.map_flatMap, List.flatMap_map]
    congr 1
    funext z
    simp [Nat.mul_assoc]

theorem length_flatMap_const {α β} (l : List α) (f : α → List β) (L : Nat) (hL : ∀ x, (f x).length = L) :
    (l.flatMap f).length = l.length * L := by
  induction l with
  | nil => simp
  | cons x xs ih => rw [List.flatMap_cons, List.length_append, ih, hL, List.length_cons, Nat.add_mul]; omega

theorem length_crossProd (cs : List Chunks) : (crossProd cs).length = prodL (cs.map List.length) := by
  induction cs with
  | nil => rfl
  | cons c cs ih =>
    simp only [crossProd, List.map_cons, prodL]
    rw [length_flatMap_const c _ (crossProd cs).length (fun x => by simp), ih]

theorem sum_map_mul_left (x : Nat) (l : List Nat) : (l.map (fun y => x * y)).sum = x * l.sum := by
  induction l with
  | nil => simp
  | cons y ys ih => simp only [List.map_cons, List.sum_cons]; rw [ih, Nat.mul_add]

theorem sum_flatMap_mul (c M : List Nat) :
    (c.flatMap (fun x => M.map (fun y => x * y))).sum = c.sum * M.sum := by
  induction c with
  | nil => simp
  | cons x xs ih =>
    rw [List.flatMap_cons, List.sum_append, ih, sum_map_mul_left, List.sum_cons, Nat.add_mul]

theorem sum_crossProd (cs : List Chunks) : (crossProd cs).sum = prodL (cs.map List.sum) := by
  induction cs with
  | nil => rfl
  | cons c cs ih =>
    simp only [crossProd, List.map_cons, prodL]
    rw [sum_flatMap_mul, ih]

theorem getD_flatMap_const (c : List Nat) (f : Nat → List Nat) (L : Nat) (hL : ∀ x, (f x).length = L)
    (b r : Nat) (hb : b < c.length) (hr : r < L) :
    (c.flatMap f).getD (b * L + r) 0 = (f (c.getD b 0)).getD r 0 := by
  induction c generalizing b with
  | nil => simp at hb
  | cons x xs ih =>
    rw [List.flatMap_cons]
    cases b with
    | zero =>
      simp only [Nat.zero_mul, Nat.zero_add, List.getD_cons_zero]
      rw [List.getD_eq_getElem?_getD, List.getElem?_append_left (by rw [hL]; exact hr),
        ← List.getD_eq_getElem?_getD]
    | succ b =>
      have e : (b + 1) * L + r = (f x).length + (b * L + r) := by rw [hL, Nat.add_mul]; omega
      rw [e, List.getD_eq_getElem?_getD, List.getElem?_append_right (by omega)]
      have e2 : (f x).length + (b * L + r) - (f x).length = b * L + r := by omega
      rw [e2, ← List.getD_eq_getElem?_getD, ih b (by simpa using hb)]
      simp

theorem numblocks_cons (c : Chunks) (cs : List Chunks) : numblocks (c :: cs) = c.length :: numblocks cs := rfl

theorem length_crossProd' (cs : List Chunks) : (crossProd cs).length = prodL (numblocks cs) :=
  length_crossProd cs

theorem crossProd_getD : ∀ (cs : List Chunks) (bid : List Nat), validBid cs bid →
    (crossProd cs).getD (flatIndex (numblocks cs) bid) 0 = prodL (blockShape cs bid)
  | [], [], _ => by simp [crossProd, numblocks, flatIndex, blockShape, prodL]
  | c :: cs, b :: bid, h => by
    rw [validBid_cons] at h
    have ih := crossProd_getD cs bid h.2
    have hr : flatIndex (numblocks cs) bid < prodL (numblocks cs) := flatIndex_lt h.2
    rw [numblocks_cons, flatIndex_cons]
    simp only [crossProd, blockShape, List.zipWith_cons_cons, prodL]
    rw [← length_crossProd' cs] at hr ⊢
    rw [getD_flatMap_const c _ (crossProd cs).length (fun x => by simp) b _ h.1 hr]
    rw [getD_map (fun y => c.getD b 0 * y) (crossProd cs) _ 0 0 hr, ih]
    rfl
  | [], _ :: _, h => by simp [validBid, numblocks, InB] at h
  | _ :: _, [], h => by simp [validBid, numblocks, InB] at h

/-! ## 2. composition of layouts -/

theorem shapeA_append (A B : List Axis) : shapeA (A ++ B) = shapeA A ++ shapeA B := by simp [shapeA]
theorem chunksA_append (A B : List Axis) : chunksA (A ++ B) = chunksA A ++ chunksA B := by simp [chunksA]

theorem sizeA_append (A B : List Axis) : sizeA (A ++ B) = sizeA A * sizeA B := by
  simp only [sizeA, shapeA_append, prodL_append]

theorem nbA_append (A B : List Axis) : nbA (A ++ B) = nbA A * nbA B := by
  simp only [nbA, chunksA_append, List.map_append, prodL_append]

theorem sizeA_cons (a : Axis) (A : List Axis) : sizeA (a :: A) = a.1 * sizeA A := rfl
theorem nbA_cons (a : Axis) (A : List Axis) : nbA (a :: A) = a.2.length * nbA A := rfl
theorem sizeA_nil : sizeA [] = 1 := rfl
theorem nbA_nil : nbA [] = 1 := rfl

theorem nbA_eq_length (A : List Axis) : nbA A = (crossProd (chunksA A)).length :=
  (length_crossProd _).symm

theorem pos_of_lt_mul {g a b : Nat} (h : g < a * b) : 0 < b := by
  rcases Nat.eq_zero_or_pos b with h0 | h0
  · rw [h0] at h; simp at h
  · exact h0

theorem comp_all (A A' : List Axis) : ∀ g, g < sizeA (A ++ A') →
    KA (A ++ A') g = KA A (g / sizeA A') * nbA A' + KA A' (g % sizeA A') ∧
    SA (A ++ A') g = SA A (g / sizeA A') * SA A' (g % sizeA A') ∧
    FA (A ++ A') g = FA A (g / sizeA A') * SA A' (g % sizeA A') + FA A' (g % sizeA A') := by
  induction A with
  | nil =>
    intro g hg
    rw [List.nil_append] at hg ⊢
    rw [Nat.mod_eq_of_lt hg]
    simp [KA, SA, FA]
  | cons a A1 ih =>
    intro g hg
    rw [List.cons_append, sizeA_cons, sizeA_append] at hg
    have hpos : 0 < sizeA A1 * sizeA A' := pos_of_lt_mul hg
    obtain ⟨i1, i2, i3⟩ := ih (g % (sizeA A1 * sizeA A')) (by rw [sizeA_append]; exact Nat.mod_lt _ hpos)
    rw [Nat.mod_mul_left_div_self, Nat.mod_mul_left_mod] at i1 i2 i3
    have e : g / sizeA A' / sizeA A1 = g / (sizeA A1 * sizeA A') := by
      rw [Nat.div_div_eq_div_mul, Nat.mul_comm]
    simp only [List.cons_append, KA, SA, FA]
    rw [sizeA_append, nbA_append, i1, i2, i3, e]
    generalize (findBlock a.2 (g / (sizeA A1 * sizeA A'))) = fb
    refine ⟨?_, ?_, ?_⟩
    · simp only [Nat.add_mul, Nat.mul_assoc, Nat.add_assoc]
    · simp only [Nat.mul_assoc]
    · simp only [Nat.add_mul, Nat.mul_assoc, Nat.add_assoc]

theorem BlockEquiv.refl (A : List Axis) : BlockEquiv A A := ⟨rfl, rfl, fun _ _ => ⟨rfl, rfl, rfl⟩⟩

theorem BlockEquiv.symm {A B : List Axis} (h : BlockEquiv A B) : BlockEquiv B A :=
  ⟨h.size.symm, h.sizes.symm, fun g hg => by
    obtain ⟨p1, p2, p3⟩ := h.phi g (h.size ▸ hg)
    exact ⟨p1.symm, p2.symm, p3.symm⟩⟩

theorem BlockEquiv.trans {A B C : List Axis} (h1 : BlockEquiv A B) (h2 : BlockEquiv B C) : BlockEquiv A C :=
  ⟨h1.size.trans h2.size, h1.sizes.trans h2.sizes, fun g hg => by
    obtain ⟨p1, p2, p3⟩ := h1.phi g hg
    obtain ⟨q1, q2, q3⟩ := h2.phi g (h1.size ▸ hg)
    exact ⟨p1.trans q1, p2.trans q2, p3.trans q3⟩⟩

theorem BlockEquiv.nb {A B : List Axis} (h : BlockEquiv A B) : nbA A = nbA B := by
  rw [nbA_eq_length, nbA_eq_length]
  have := h.sizes
  unfold blockSizes at this
  rw [this]

theorem BlockEquiv.append {A B A' B' : List Axis} (h : BlockEquiv A B) (h' : BlockEquiv A' B') :
    BlockEquiv (A ++ A') (B ++ B') := by
  refine ⟨?_, ?_, ?_⟩
  · rw [sizeA_append, sizeA_append, h.size, h'.size]
  · have e1 := h.sizes
    have e2 := h'.sizes
    unfold blockSizes at e1 e2 ⊢
    rw [chunksA_append, chunksA_append, crossProd_append, crossProd_append, e1, e2]
  · intro g hg
    have hgB : g < sizeA (B ++ B') := by
      rw [sizeA_append, ← h.size, ← h'.size, ← sizeA_append]; exact hg
    obtain ⟨a1, a2, a3⟩ := comp_all A A' g hg
    obtain ⟨b1, b2, b3⟩ := comp_all B B' g hgB
    rw [sizeA_append] at hg
    have hpos : 0 < sizeA A' := pos_of_lt_mul hg
    have hq : g / sizeA A' < sizeA A := by rw [Nat.div_lt_iff_lt_mul hpos]; exact hg
    have hr : g % sizeA A' < sizeA A' := Nat.mod_lt _ hpos
    obtain ⟨p1, p2, p3⟩ := h.phi _ hq
    obtain ⟨q1, q2, q3⟩ := h'.phi _ hr
    rw [a1, a2, a3, b1, b2, b3, ← h'.size, ← h'.nb, p1, p2, p3, q1, q2, q3]
    exact ⟨rfl, rfl, rfl⟩

/-! ## 3. groups -/

theorem one_equiv_nil : BlockEquiv [((1 : Nat), ([1] : Chunks))] [] := by
  refine ⟨by decide, by decide, ?_⟩
  intro g hg
  have hg' : g < 1 := hg
  have : g = 0 := by omega
  subst this
  decide

/-- single-axis forms of `KA`, `SA`, `FA` -/
theorem KA_single (a : Axis) (g : Nat) : KA [a] g = (findBlock a.2 g).1 := by
  simp [KA, sizeA_nil, nbA_nil]

theorem SA_single (a : Axis) (g : Nat) : SA [a] g = a.2.getD (findBlock a.2 g).1 0 := by
  simp [SA, sizeA_nil]

theorem FA_single (a : Axis) (g : Nat) : FA [a] g = (findBlock a.2 g).2 := by
  simp [FA, SA, sizeA_nil]

theorem sizeA_single (a : Axis) : sizeA [a] = a.1 := by simp [sizeA, shapeA, prodL]

theorem full_all (F : List Axis) (hF : ∀ f ∈ F, f.2 = [f.1]) : ∀ g, g < sizeA F →
    KA F g = 0 ∧ SA F g = sizeA F ∧ FA F g = g := by
  induction F with
  | nil => intro g hg; rw [sizeA_nil] at hg; simp [KA, SA, FA, sizeA_nil]; omega
  | cons f F ih =>
    intro g hg
    rw [sizeA_cons] at hg
    have hpos : 0 < sizeA F := pos_of_lt_mul hg
    have hq : g / sizeA F < f.1 := by rw [Nat.div_lt_iff_lt_mul hpos]; exact hg
    obtain ⟨i1, i2, i3⟩ := ih (fun x hx => hF x (List.mem_cons_of_mem _ hx)) (g % sizeA F) (Nat.mod_lt _ hpos)
    have hf : f.2 = [f.1] := hF f (List.mem_cons_self ..)
    simp only [KA, SA, FA]
    rw [i1, i2, i3, hf]
    simp only [findBlock, if_pos hq, sizeA_cons, List.getD_cons_zero, Nat.zero_mul, Nat.zero_add, true_and]
    rw [Nat.mul_comm]; exact Nat.div_add_mod g (sizeA F)

theorem full_nb (F : List Axis) (hF : ∀ f ∈ F, f.2 = [f.1]) : nbA F = 1 := by
  induction F with
  | nil => rfl
  | cons f F ih =>
    rw [nbA_cons, ih (fun x hx => hF x (List.mem_cons_of_mem _ hx)), hF f (List.mem_cons_self ..)]
    rfl

theorem full_crossProd (F : List Axis) (hF : ∀ f ∈ F, f.2 = [f.1]) : crossProd (chunksA F) = [sizeA F] := by
  induction F with
  | nil => rfl
  | cons f F ih =>
    simp only [chunksA, List.map_cons] at ih ⊢
    simp only [crossProd]
    rw [ih (fun x hx => hF x (List.mem_cons_of_mem _ hx)), hF f (List.mem_cons_self ..)]
    simp [sizeA_cons]

theorem flatMap_single_mul (c : List Nat) (R : Nat) :
    c.flatMap (fun x => [R].map (fun y => x * y)) = c.map (fun x => x * R) := by
  induction c with
  | nil => rfl
  | cons x xs ih => rw [List.flatMap_cons, ih]; rfl

theorem getD_map_mul (c : List Nat) (R k : Nat) : (c.map (fun x => x * R)).getD k 0 = c.getD k 0 * R := by
  by_cases hk : k < c.length
  · exact getD_map (fun x => x * R) c k 0 0 hk
  · rw [getD_of_ge _ _ _ (by simpa using hk), getD_of_ge _ _ _ (by omega)]; simp

theorem findBlock_map_mul (R : Nat) (hR : 0 < R) : ∀ (c : List Nat) (g : Nat),
    findBlock (c.map (fun x => x * R)) g = ((findBlock c (g / R)).1, (findBlock c (g / R)).2 * R + g % R)
  | [], g => by
    simp only [List.map_nil, findBlock]
    rw [Nat.mul_comm, Nat.div_add_mod]
  | x :: c, g => by
    simp only [List.map_cons, findBlock]
    by_cases hg : g < x * R
    · have hq : g / R < x := by rw [Nat.div_lt_iff_lt_mul hR]; exact hg
      rw [if_pos hg, if_pos hq, Nat.mul_comm, Nat.div_add_mod]
    · have hq : ¬ g / R < x := by rw [Nat.div_lt_iff_lt_mul hR]; exact hg
      rw [if_neg hg, if_neg hq, findBlock_map_mul R hR c (g - x * R)]
      have e1 : (g - x * R) / R = g / R - x := by rw [Nat.mul_comm]; exact Nat.sub_mul_div g R x
      have e2 : (g - x * R) % R = g % R := by rw [Nat.mul_comm]; exact Nat.sub_mul_mod (by rw [Nat.mul_comm]; omega)
      rw [e1, e2]

theorem mergedAx_eq (G : List Axis) : mergedAx G = (sizeA G, crossProd (chunksA G)) := rfl

/-- a free axis followed by whole-chunk axes is its merged axis -/
theorem pivot_base (d : Nat) (c : Chunks) (F : List Axis) (hF : ∀ f ∈ F, f.2 = [f.1]) :
    BlockEquiv ((d, c) :: F) [mergedAx ((d, c) :: F)] := by
  have hm : mergedAx ((d, c) :: F) = (d * sizeA F, c.map (fun x => x * sizeA F)) := by
    rw [mergedAx_eq]
    simp only [chunksA, List.map_cons, crossProd] at *
    have := full_crossProd F hF
    simp only [chunksA] at this
    rw [this, flatMap_single_mul]; rfl
  refine ⟨?_, ?_, ?_⟩
  · rw [sizeA_single]; rfl
  · unfold blockSizes
    simp only [mergedAx_eq, chunksA, List.map_cons, List.map_nil]
    rw [crossProd_single]
  · intro g hg
    rw [hm, KA_single, SA_single, FA_single]
    rw [sizeA_cons] at hg
    have hpos : 0 < sizeA F := pos_of_lt_mul hg
    obtain ⟨i1, i2, i3⟩ := full_all F hF (g % sizeA F) (Nat.mod_lt _ hpos)
    simp only [KA, SA, FA]
    rw [i1, i2, i3, full_nb F hF, findBlock_map_mul _ hpos, getD_map_mul]
    simp

theorem findBlock_append : ∀ (c1 c2 : List Nat) (g : Nat),
    findBlock (c1 ++ c2) g = if g < c1.sum then findBlock c1 g
      else ((findBlock c2 (g - c1.sum)).1 + c1.length, (findBlock c2 (g - c1.sum)).2)
  | [], c2, g => by simp
  | x :: c1, c2, g => by
    have ih := findBlock_append c1 c2 (g - x)
    have hs : (x :: c1).sum = x + c1.sum := List.sum_cons
    have e0 : ∀ l, findBlock (x :: l) g =
        if g < x then (0, g) else ((findBlock l (g - x)).1 + 1, (findBlock l (g - x)).2) := fun l => rfl
    rw [List.cons_append, e0, e0]
    by_cases hg : g < x
    · have h' : g < (x :: c1).sum := by omega
      rw [if_pos hg, if_pos h', if_pos hg]
    · rw [if_neg hg, ih]
      by_cases h2 : g - x < c1.sum
      · have h' : g < (x :: c1).sum := by omega
        rw [if_pos h2, if_pos h', if_neg hg]
      · have h' : ¬ g < (x :: c1).sum := by omega
        rw [if_neg h2, if_neg h']
        have e : g - x - c1.sum = g - (x :: c1).sum := by omega
        rw [e, List.length_cons, Nat.add_assoc]

theorem findBlock_ones : ∀ (d p : Nat), p < d → findBlock (List.replicate d 1) p = (p, 0)
  | 0, p, h => by omega
  | d + 1, p, h => by
    rw [List.replicate_succ]
    simp only [findBlock]
    by_cases hp : p < 1
    · rw [if_pos hp]; have : p = 0 := by omega
      subst this; rfl
    · rw [if_neg hp, findBlock_ones d (p - 1) (by omega)]
      simp only [Prod.mk.injEq, and_true]; omega

theorem getD_ones (d p : Nat) (h : p < d) : (List.replicate d 1).getD p 0 = 1 := by
  simp [List.getD_eq_getElem?_getD, h]

theorem crossProd_ones_cons (d : Nat) (cs : List Chunks) :
    crossProd (List.replicate d 1 :: cs) = repeatL (crossProd cs) d := by
  simp only [crossProd]
  induction d with
  | zero => rfl
  | succ d ih =>
    rw [List.replicate_succ, List.flatMap_cons, ih, map_mul_one]; rfl

theorem rep_all (c : List Nat) (D : Nat) (hc : c.sum = D) : ∀ (d g : Nat), g < d * D →
    (findBlock (repeatL c d) g).1 = (g / D) * c.length + (findBlock c (g % D)).1 ∧
    (findBlock (repeatL c d) g).2 = (findBlock c (g % D)).2 ∧
    (repeatL c d).getD (findBlock (repeatL c d) g).1 0 = c.getD (findBlock c (g % D)).1 0
  | 0, g, h => by omega
  | d + 1, g, h => by
    simp only [repeatL]
    rw [findBlock_append, hc]
    by_cases hg : g < D
    · rw [if_pos hg, Nat.div_eq_of_lt hg, Nat.mod_eq_of_lt hg]
      refine ⟨by simp, rfl, ?_⟩
      have hs := (findBlock_spec c g (by omega)).1
      rw [List.getD_eq_getElem?_getD, List.getElem?_append_left hs, ← List.getD_eq_getElem?_getD]
    · rw [if_neg hg]
      have hD : 0 < D := pos_of_lt_mul h
      have hlt : g - D < d * D := by rw [Nat.add_mul] at h; omega
      obtain ⟨i1, i2, i3⟩ := rep_all c D hc d (g - D) hlt
      have e1 : (g - D) / D = g / D - 1 := by
        have := Nat.sub_mul_div g D 1; rwa [Nat.mul_one] at this
      have e2 : (g - D) % D = g % D := by
        have := Nat.sub_mul_mod (x := g) (n := D) (k := 1) (by omega); rwa [Nat.mul_one] at this
      have hq : 1 ≤ g / D := (Nat.le_div_iff_mul_le hD).2 (by omega)
      rw [e1, e2] at i1
      rw [e2] at i2 i3
      refine ⟨?_, i2, ?_⟩
      · show (findBlock (repeatL c d) (g - D)).1 + c.length = _
        rw [i1]
        obtain ⟨q, hq'⟩ : ∃ q, g / D = q + 1 := ⟨g / D - 1, by omega⟩
        rw [hq', Nat.add_sub_cancel, Nat.add_mul]; omega
      · show (c ++ repeatL c d).getD ((findBlock (repeatL c d) (g - D)).1 + c.length) 0 = _
        rw [List.getD_eq_getElem?_getD, List.getElem?_append_right (by omega), Nat.add_sub_cancel,
          ← List.getD_eq_getElem?_getD, i3]

/-- an axis cut into single elements in front of one axis is the merged axis -/
theorem ones_merge (d D' : Nat) (c' : Chunks) (hv : c'.sum = D') :
    BlockEquiv [(d, List.replicate d 1), (D', c')] [(d * D', repeatL c' d)] := by
  refine ⟨?_, ?_, ?_⟩
  · simp [sizeA, shapeA, prodL]
  · unfold blockSizes
    simp only [chunksA, List.map_cons, List.map_nil]
    rw [crossProd_ones_cons, crossProd_single, crossProd_single]
  · intro g hg
    obtain ⟨a1, a2, a3⟩ := comp_all [(d, List.replicate d 1)] [(D', c')] g hg
    simp only [List.cons_append, List.nil_append] at a1 a2 a3
    rw [a1, a2, a3]
    simp only [KA_single, SA_single, FA_single, sizeA_single]
    have hg' : g < d * D' := by simpa [sizeA, shapeA, prodL] using hg
    have hD : 0 < D' := pos_of_lt_mul hg'
    have hq : g / D' < d := by rw [Nat.div_lt_iff_lt_mul hD]; exact hg'
    obtain ⟨r1, r2, r3⟩ := rep_all c' D' hv d g hg'
    rw [findBlock_ones d _ hq, getD_ones d _ hq, r3, r1, r2]
    simp [nbA, chunksA, prodL]

theorem chunksA_sum_eq (G : List Axis) (hG : ∀ a ∈ G, ValidAx a) : (chunksA G).map List.sum = shapeA G := by
  induction G with
  | nil => rfl
  | cons a G ih =>
    simp only [chunksA, shapeA, List.map_cons] at ih ⊢
    rw [ih (fun x hx => hG x (List.mem_cons_of_mem _ hx))]
    have : a.2.sum = a.1 := hG a (List.mem_cons_self ..)
    rw [this]

theorem mergedAx_valid (G : List Axis) (hG : ∀ a ∈ G, ValidAx a) : ValidAx (mergedAx G) := by
  show (crossProd (chunksA G)).sum = sizeA G
  rw [sum_crossProd, chunksA_sum_eq G hG]; rfl

theorem pivot_aux : ∀ (pre : List Axis) (piv : Axis) (post : List Axis),
    (∀ a ∈ pre, a.2 = List.replicate a.1 1) → (∀ f ∈ post, f.2 = [f.1]) →
    (∀ a ∈ pre ++ piv :: post, ValidAx a) →
    BlockEquiv (pre ++ piv :: post) [mergedAx (pre ++ piv :: post)]
  | [], piv, post, _, hpost, _ => pivot_base piv.1 piv.2 post hpost
  | a :: pre, piv, post, hpre, hpost, hv => by
    have hv' : ∀ x ∈ pre ++ piv :: post, ValidAx x := fun x hx => hv x (List.mem_cons_of_mem _ hx)
    have ih := pivot_aux pre piv post (fun x hx => hpre x (List.mem_cons_of_mem _ hx)) hpost hv'
    have ha : a.2 = List.replicate a.1 1 := hpre a (List.mem_cons_self ..)
    obtain ⟨d, ca⟩ := a
    simp only at ha
    subst ha
    rw [List.cons_append]
    generalize pre ++ piv :: post = G' at ih hv' ⊢
    have s1 : BlockEquiv ((d, List.replicate d 1) :: G') [(d, List.replicate d 1), mergedAx G'] :=
      BlockEquiv.append (BlockEquiv.refl [(d, List.replicate d 1)]) ih
    have s2 := ones_merge d (sizeA G') (crossProd (chunksA G')) (mergedAx_valid G' hv')
    have e : mergedAx ((d, List.replicate d 1) :: G') = (d * sizeA G', repeatL (crossProd (chunksA G')) d) := by
      rw [mergedAx_eq, sizeA_cons]
      simp only [chunksA, List.map_cons]
      rw [crossProd_ones_cons]
    rw [e]
    exact s1.trans s2

theorem pivot_equiv {G : List Axis} (hp : PivotForm G) (hv : ∀ a ∈ G, ValidAx a) :
    BlockEquiv G [mergedAx G] := by
  obtain ⟨pre, piv, post, rfl, h1, h2⟩ := hp
  exact pivot_aux pre piv post h1 h2 hv

/-! ## 4. the grouped structure -/

theorem grouped_valid {A B : List Axis} (h : Grouped A B) : (∀ a ∈ A, ValidAx a) ∧ (∀ b ∈ B, ValidAx b) := by
  induction h with
  | nil => exact ⟨fun _ h => by simp at h, fun _ h => by simp at h⟩
  | eq a ha _ ih =>
    refine ⟨fun x hx => ?_, fun x hx => ?_⟩
    · rcases List.mem_cons.1 hx with rfl | hx
      · exact ha
      · exact ih.1 x hx
    · rcases List.mem_cons.1 hx with rfl | hx
      · exact ha
      · exact ih.2 x hx
  | in1 _ ih =>
    refine ⟨fun x hx => ?_, ih.2⟩
    rcases List.mem_cons.1 hx with rfl | hx
    · show [1].sum = 1; rfl
    · exact ih.1 x hx
  | out1 _ ih =>
    refine ⟨ih.1, fun x hx => ?_⟩
    rcases List.mem_cons.1 hx with rfl | hx
    · show [1].sum = 1; rfl
    · exact ih.2 x hx
  | merge G _ hG _ ih =>
    refine ⟨fun x hx => ?_, fun x hx => ?_⟩
    · rcases List.mem_append.1 hx with hx | hx
      · exact hG x hx
      · exact ih.1 x hx
    · rcases List.mem_cons.1 hx with rfl | hx
      · exact mergedAx_valid G hG
      · exact ih.2 x hx
  | split G _ hG _ ih =>
    refine ⟨fun x hx => ?_, fun x hx => ?_⟩
    · rcases List.mem_cons.1 hx with rfl | hx
      · exact mergedAx_valid G hG
      · exact ih.1 x hx
    · rcases List.mem_append.1 hx with hx | hx
      · exact hG x hx
      · exact ih.2 x hx

theorem grouped_equiv {A B : List Axis} (h : Grouped A B) : BlockEquiv A B := by
  induction h with
  | nil => exact BlockEquiv.refl []
  | eq a _ _ ih => exact BlockEquiv.append (BlockEquiv.refl [a]) ih
  | in1 _ ih => exact BlockEquiv.append one_equiv_nil ih
  | out1 _ ih => exact BlockEquiv.append one_equiv_nil.symm ih
  | merge G hp hG _ ih => exact BlockEquiv.append (pivot_equiv hp hG) ih
  | split G hp hG _ ih => exact BlockEquiv.append (pivot_equiv hp hG).symm ih

/-! ## 5. multi-index form of `KA`, `SA`, `FA` -/

theorem idx_all : ∀ (A : List Axis) (i : List Nat), InB i (shapeA A) →
    KA A (flatIndex (shapeA A) i) = flatIndex (numblocks (chunksA A)) (bidOf (chunksA A) i) ∧
    SA A (flatIndex (shapeA A) i) = prodL (blockShape (chunksA A) (bidOf (chunksA A) i)) ∧
    FA A (flatIndex (shapeA A) i) =
      flatIndex (blockShape (chunksA A) (bidOf (chunksA A) i)) (localOf (chunksA A) i)
  | [], [], _ => by
    simp [KA, SA, FA, chunksA, numblocks, bidOf, blockShape, localOf, flatIndex, prodL]
  | a :: A, x :: xs, h => by
    have h2 : InB xs (shapeA A) := h.2
    obtain ⟨i1, i2, i3⟩ := idx_all A xs h2
    have hr : flatIndex (shapeA A) xs < sizeA A := flatIndex_lt h2
    have e : flatIndex (shapeA (a :: A)) (x :: xs) = x * sizeA A + flatIndex (shapeA A) xs :=
      flatIndex_cons ..
    have eb : bidOf (chunksA (a :: A)) (x :: xs) = (findBlock a.2 x).1 :: bidOf (chunksA A) xs := rfl
    have el : localOf (chunksA (a :: A)) (x :: xs) = (findBlock a.2 x).2 :: localOf (chunksA A) xs := rfl
    have en : numblocks (chunksA (a :: A)) = a.2.length :: numblocks (chunksA A) := rfl
    have es : ∀ b bid, blockShape (chunksA (a :: A)) (b :: bid) =
        a.2.getD b 0 :: blockShape (chunksA A) bid := fun _ _ => rfl
    rw [e, eb, el, en, es, flatIndex_cons, flatIndex_cons]
    simp only [KA, SA, FA, prodL]
    rw [mul_add_div_of_lt hr, mul_add_mod_of_lt hr, i1, i2, i3]
    exact ⟨rfl, rfl, rfl⟩
  | [], _ :: _, h => h.elim
  | _ :: _, [], h => h.elim

/-! ## 6. the element map of the plan -/

theorem planIndex_of {A B : List Axis} (h : BlockEquiv A B) (hA : ∀ a ∈ A, ValidAx a)
    (i : List Nat) (hi : InB i (shapeA B)) (j : List Nat) (hj : InB j (shapeA A))
    (hf : flatIndex (shapeA A) j = flatIndex (shapeA B) i) :
    planIndex (chunksA A) (chunksA B) i = j := by
  have hgA : flatIndex (shapeA A) j < sizeA A := flatIndex_lt hj
  obtain ⟨b1, _, b3⟩ := idx_all B i hi
  obtain ⟨a1, _, a3⟩ := idx_all A j hj
  obtain ⟨p1, _, p3⟩ := h.phi _ hgA
  rw [← hf] at b1 b3
  have hjA : InB j ((chunksA A).map List.sum) := by rw [chunksA_sum_eq A hA]; exact hj
  obtain ⟨l1, l2, l3⟩ := locate_spec hjA
  have k1 := b1.symm.trans (p1.symm.trans a1)
  have k3 := b3.symm.trans (p3.symm.trans a3)
  unfold planIndex
  simp only []
  rw [k1, unflat_flatIndex _ _ l1, k3, unflat_flatIndex _ _ l2, l3]

theorem planIndex_eq {A B : List Axis} (h : BlockEquiv A B) (hA : ∀ a ∈ A, ValidAx a)
    (i : List Nat) (hi : InB i (shapeA B)) :
    planIndex (chunksA A) (chunksA B) i = unflat (shapeA A) (flatIndex (shapeA B) i) := by
  have hg : flatIndex (shapeA B) i < prodL (shapeA A) := by
    have := flatIndex_lt hi
    have hs : prodL (shapeA A) = prodL (shapeA B) := h.size
    rw [hs]; exact this
  obtain ⟨j1, j2⟩ := flatIndex_unflat (shapeA A) _ hg
  exact planIndex_of h hA i hi _ j1 j2

theorem equiv_planIndex {A B : List Axis} (h : BlockEquiv A B) (hA : ∀ a ∈ A, ValidAx a) (hB : ∀ b ∈ B, ValidAx b)
    (i : List Nat) (hi : InB i (shapeA B)) :
    InB (planIndex (chunksA A) (chunksA B) i) (shapeA A) ∧
      flatIndex (shapeA A) (planIndex (chunksA A) (chunksA B) i) = flatIndex (shapeA B) i := by
  have _ := hB
  have hg : flatIndex (shapeA B) i < prodL (shapeA A) := by
    have := flatIndex_lt hi
    have hs : prodL (shapeA A) = prodL (shapeA B) := h.size
    rw [hs]; exact this
  rw [planIndex_eq h hA i hi]
  exact flatIndex_unflat (shapeA A) _ hg

/-! ## 7. the computed array -/

theorem equiv_planArr {α} {A B : List Axis} (h : BlockEquiv A B) (hA : ∀ a ∈ A, ValidAx a) (hB : ∀ b ∈ B, ValidAx b)
    (a : Arr α) (ha : a.shape = shapeA A) :
    Arr.Equiv (planArr a (chunksA A) (chunksA B)) (npReshape a (shapeA B)) := by
  refine ⟨?_, ?_⟩
  · show (chunksA B).map List.sum = shapeA B
    exact chunksA_sum_eq B hB
  · intro i hi
    have hi' : InB i (shapeA B) := by
      have : (planArr a (chunksA A) (chunksA B)).shape = (chunksA B).map List.sum := rfl
      rw [this, chunksA_sum_eq B hB] at hi; exact hi
    have e := planIndex_eq h hA i hi'
    show a.get (planIndex (chunksA A) (chunksA B) i) = a.get (unflat a.shape (flatIndex (shapeA B) i))
    rw [ha, e]

/-! ## 8. the block grids -/

theorem equiv_blocks {A B : List Axis} (h : BlockEquiv A B) :
    prodL (numblocks (chunksA A)) = prodL (numblocks (chunksA B)) ∧
    ∀ bid, validBid (chunksA B) bid →
      validBid (chunksA A) (unflat (numblocks (chunksA A)) (flatIndex (numblocks (chunksA B)) bid)) ∧
      prodL (blockShape (chunksA A) (unflat (numblocks (chunksA A)) (flatIndex (numblocks (chunksA B)) bid)))
        = prodL (blockShape (chunksA B) bid) := by
  have hs := h.sizes
  unfold blockSizes at hs
  have hn : prodL (numblocks (chunksA A)) = prodL (numblocks (chunksA B)) := by
    rw [← length_crossProd', ← length_crossProd', hs]
  refine ⟨hn, ?_⟩
  intro bid hb
  have hk : flatIndex (numblocks (chunksA B)) bid < prodL (numblocks (chunksA A)) := by
    rw [hn]; exact flatIndex_lt hb
  obtain ⟨u1, u2⟩ := flatIndex_unflat _ _ hk
  refine ⟨u1, ?_⟩
  have c1 := crossProd_getD (chunksA A) _ u1
  have c2 := crossProd_getD (chunksA B) bid hb
  rw [u2, hs] at c1
  rw [← c1, ← c2]

end Dask.Reshape
