/-
n-d lift of the coarse slice pushdown: every object of Model/CoarseSlice.lean is a `zipWith` over axes, so the lift is a
list induction over `acceptAxis_sound` (positions) and over the operand axes (blocks the tasks receive).
-/
import DaskArrayModel.Lemmas.CoarseSliceAxis
namespace Dask.Lemmas.Coarse
open Dask.Py Dask.Py.PySlice Dask.Slicing Dask.Coarse
open Dask.Lemmas.Slice1dPos

def dfltPlan : AxisPlan := ⟨none, .colon⟩

/-- first kept block per axis -/
def firsts (plans : List AxisPlan) : List Nat := plans.map first1

theorem keptOut_eq (oc : List (List Int)) (plans : List AxisPlan) :
    keptOut oc plans = List.zipWith keptOut1 oc plans := rfl

/-- per-axis bound on block coordinates of the rewritten node -/
def Bounded (plans : List AxisPlan) (nb : List Nat) (bid' : List Nat) : Prop :=
  ∀ pos f l, (plans.getD pos dfltPlan).br = some (f, l) → f ≤ l ∧ l < nb.getD pos 0 ∧ bid'.getD pos 0 ≤ l - f

theorem mapOpt_cons_some {α β : Type} (f : α → Option β) (x : α) (xs : List α) (r : List β)
    (h : mapOpt f (x :: xs) = some r) : ∃ y ys, f x = some y ∧ mapOpt f xs = some ys ∧ r = y :: ys := by
  unfold mapOpt at h
  cases hx : f x with
  | none => rw [hx] at h; simp at h
  | some y =>
    rw [hx] at h
    cases hxs : mapOpt f xs with
    | none => rw [hxs] at h; simp at h
    | some ys =>
      rw [hxs] at h
      exact ⟨y, ys, rfl, rfl, (Option.some.inj h).symm⟩

theorem axisPlans_cons_some (c : List Int) (cs : List (List Int)) (i : Idx) (is : List Idx) (plans : List AxisPlan)
    (h : axisPlans (c :: cs) (i :: is) = some plans) :
    ∃ p ps, acceptAxis c i = some p ∧ axisPlans cs is = some ps ∧ plans = p :: ps := by
  unfold axisPlans at h
  cases hx : acceptAxis c i with
  | none => rw [hx] at h; simp at h
  | some p =>
    rw [hx] at h
    cases hxs : axisPlans cs is with
    | none => rw [hxs] at h; simp at h
    | some ps =>
      rw [hxs] at h
      exact ⟨p, ps, rfl, rfl, (Option.some.inj h).symm⟩

/-- **positions, n-d**: source positions of the indexed original and of the adjusted rewritten node fall in
corresponding blocks at the same offsets, on every axis. -/
theorem locate_nd : ∀ (oc : List (List Int)) (idx : List Idx) (plans : List AxisPlan) (q : List Nat),
    (∀ cs ∈ oc, ∀ c ∈ cs, 0 ≤ c) → axisPlans oc idx = some plans →
    idxsOK oc idx = true → inSels oc idx q = true → idx.length = oc.length → q.length = oc.length →
    plans.length = oc.length ∧
    ((locate (keptOut oc plans)
        (srcPos ((keptOut oc plans).map isum) (plans.map (·.adj.toIdx)) q)).map (·.1)).length = oc.length ∧
    (locate oc (srcPos (oc.map isum) idx q)).map (·.2)
      = (locate (keptOut oc plans) (srcPos ((keptOut oc plans).map isum) (plans.map (·.adj.toIdx)) q)).map (·.2) ∧
    (locate oc (srcPos (oc.map isum) idx q)).map (·.1)
      = List.zipWith (· + ·)
          ((locate (keptOut oc plans) (srcPos ((keptOut oc plans).map isum) (plans.map (·.adj.toIdx)) q)).map (·.1))
          (firsts plans) ∧
    Bounded plans (oc.map List.length)
      ((locate (keptOut oc plans) (srcPos ((keptOut oc plans).map isum) (plans.map (·.adj.toIdx)) q)).map (·.1))
  | [], idx, plans, q, _, h, _, _, hi, hq => by
    have : idx = [] := List.eq_nil_of_length_eq_zero (by simpa using hi)
    subst this
    have : q = [] := List.eq_nil_of_length_eq_zero (by simpa using hq)
    subst this
    have : plans = [] := by
      unfold axisPlans at h; exact (Option.some.inj h).symm
    subst this
    refine ⟨rfl, rfl, rfl, rfl, ?_⟩
    intro pos f l hbr
    simp [dfltPlan] at hbr
  | c :: cs, [], _, _, _, _, _, _, hi, _ => by simp at hi
  | c :: cs, i :: is, plans, [], _, _, _, _, _, hq => by simp at hq
  | c :: cs, i :: is, plans, q0 :: qs, hnn, h, hok, hin, hi, hq => by
    obtain ⟨p, ps, hp, hps, rfl⟩ := axisPlans_cons_some c cs i is plans h
    simp only [idxsOK, List.zip_cons_cons, List.all_cons, Bool.and_eq_true] at hok
    simp only [inSels, List.zip_cons_cons, List.all_cons, Bool.and_eq_true] at hin
    have hc : ∀ x ∈ c, 0 ≤ x := hnn c (by simp)
    have hcs : ∀ cs' ∈ cs, ∀ x ∈ cs', 0 ≤ x := fun cs' h' => hnn cs' (by simp [h'])
    obtain ⟨ih1, ih2, ih3, ih4, ih5⟩ := locate_nd cs is ps qs hcs hps hok.2 hin.2
      (by simpa using hi) (by simpa using hq)
    obtain ⟨a1, a2, a3, a4⟩ := acceptAxis_sound c hc i hok.1 p hp q0 hin.1
    simp only [keptOut_eq, List.zipWith_cons_cons, List.map_cons, srcPos, locate, List.zip_cons_cons, firsts] at *
    have hq' : qs.length = cs.length := by simpa using hq
    have hi' : is.length = cs.length := by simpa using hi
    refine ⟨by simp [ih1], by simp; omega, ?_, ?_, ?_⟩
    · rw [a3, ih3]
    · rw [a2, ih4]
    · intro pos f l hbr
      cases pos with
      | zero =>
        simp only [List.getD_cons_zero] at hbr ⊢
        obtain ⟨b1, b2⟩ := a1 f l hbr
        exact ⟨b1, b2, a4 f l hbr⟩
      | succ pos =>
        simp only [List.getD_cons_succ] at hbr ⊢
        exact ih5 pos f l hbr

/-! ### the blocks an operand contributes -/

theorem getD_zipWith_add (a b : List Nat) (h : a.length = b.length) (i : Nat) :
    (List.zipWith (· + ·) a b).getD i 0 = a.getD i 0 + b.getD i 0 := by
  induction a generalizing b i with
  | nil =>
    have : b = [] := List.eq_nil_of_length_eq_zero (by simpa using h.symm)
    subst this; simp
  | cons x xs ih =>
    cases b with
    | nil => simp at h
    | cons y ys =>
      cases i with
      | zero => simp
      | succ i => simpa using ih ys (by simpa using h) i

theorem firsts_getD (plans : List AxisPlan) (pos : Nat) :
    (firsts plans).getD pos 0 = first1 (plans.getD pos dfltPlan) := by
  unfold firsts
  induction plans generalizing pos with
  | nil => simp [first1, dfltPlan]
  | cons p ps ih =>
    cases pos with
    | zero => simp
    | succ pos => simpa using ih pos

/-- the block coordinate of one operand axis -/
def coord1 (outInd : List Nat) (bid : List Nat) (l : Nat) (c : Nat) : Nat :=
  if outInd.contains l then bid.getD (outInd.idxOf l) 0 else c

/-- one operand axis: the sliced operand's block `c'` is the original's block `c` -/
theorem axis_rel (outInd : List Nat) (plans : List AxisPlan) (nb : List Nat) (bid' : List Nat)
    (hlen : bid'.length = plans.length) (hB : Bounded plans nb bid')
    (l : Nat) (ic : List Int) (s : Option (Int × Int))
    (hs : opAxisSlice outInd plans nb l ic = some s) (hk : keepsAxis outInd plans l ic = true) (c : Nat) :
    (opChunksAfter ic s).getD (coord1 outInd bid' l c) 0
      = ic.getD (coord1 outInd (List.zipWith (· + ·) bid' (firsts plans)) l c) 0 ∧
    blockStart (opChunksAfter ic s) (coord1 outInd bid' l c) + (s.map (·.1)).getD 0
      = blockStart ic (coord1 outInd (List.zipWith (· + ·) bid' (firsts plans)) l c) := by
  unfold opAxisSlice at hs
  unfold keepsAxis at hk
  unfold coord1
  by_cases hc : outInd.contains l = true
  · simp only [hc, if_true] at hs hk ⊢
    rw [getD_zipWith_add bid' (firsts plans) (by simp [firsts, hlen]), firsts_getD]
    cases hbr : (plans.getD (outInd.idxOf l) dfltPlan).br with
    | none =>
      have hbr' : (plans.getD (outInd.idxOf l) ⟨none, .colon⟩).br = none := hbr
      rw [hbr'] at hs
      have : s = none := (Option.some.inj hs).symm
      subst this
      have hf : first1 (plans.getD (outInd.idxOf l) dfltPlan) = 0 := by unfold first1; rw [hbr]
      rw [hf]
      simp [opChunksAfter]
    | some fl =>
      obtain ⟨f, l2⟩ := fl
      have hbr' : (plans.getD (outInd.idxOf l) ⟨none, .colon⟩).br = some (f, l2) := hbr
      rw [hbr'] at hs hk
      simp only at hs hk
      obtain ⟨b1, b2, b3⟩ := hB (outInd.idxOf l) f l2 hbr
      by_cases hg : ic.length ≠ nb.getD (outInd.idxOf l) 0
      · rw [if_pos hg] at hs; simp at hs
      · rw [if_neg hg] at hs
        have hg' : ic.length = nb.getD (outInd.idxOf l) 0 := by omega
        by_cases hz : ic.contains 0 = true
        · rw [if_pos hz] at hs; simp at hs
        rw [if_neg hz] at hs
        have : s = some ((cum0 ic).getD f 0, (cum0 ic).getD (l2 + 1) 0) := (Option.some.inj hs).symm
        subst this
        simp only [sliceKeeps, decide_eq_true_eq] at hk
        rw [hk]
        have hf : first1 (plans.getD (outInd.idxOf l) dfltPlan) = f := by unfold first1; rw [hbr]
        rw [hf]
        simp only [Option.map_some, Option.getD_some]
        rw [cum0_getD ic f (by omega)]
        constructor
        · rw [getD_kept ic f l2 _ (by omega)]
          congr 1; omega
        · rw [blockStart_kept ic f l2 _ (by omega)]
          rw [show f + bid'.getD (outInd.idxOf l) 0 = bid'.getD (outInd.idxOf l) 0 + f by omega]
          omega
  · have hc' : outInd.contains l = false := by simpa using hc
    simp only [hc', Bool.false_eq_true, if_false] at hs ⊢
    have : s = none := (Option.some.inj hs).symm
    subst this
    simp [opChunksAfter]

theorem opCoords_eq (outInd : List Nat) (bid : List Nat) : ∀ (ind : List Nat) (cc : List Nat),
    opCoords outInd bid ind cc = match ind with
      | [] => []
      | l :: ls => coord1 outInd bid l (cc.headD 0) :: opCoords outInd bid ls cc.tail
  | [], _ => rfl
  | _ :: _, _ => rfl

theorem opAxesSlices_cons_some (outInd : List Nat) (plans : List AxisPlan) (nb : List Nat) (l : Nat) (ls : List Nat)
    (ic : List Int) (ics : List (List Int)) (sl : List (Option (Int × Int)))
    (h : opAxesSlices outInd plans nb (l :: ls) (ic :: ics) = some sl) :
    ∃ s ss, opAxisSlice outInd plans nb l ic = some s ∧ opAxesSlices outInd plans nb ls ics = some ss ∧ sl = s :: ss := by
  unfold opAxesSlices at h
  cases hx : opAxisSlice outInd plans nb l ic with
  | none => rw [hx] at h; simp at h
  | some s =>
    rw [hx] at h
    cases hxs : opAxesSlices outInd plans nb ls ics with
    | none => rw [hxs] at h; simp at h
    | some ss =>
      rw [hxs] at h
      exact ⟨s, ss, rfl, rfl, (Option.some.inj h).symm⟩

/-- all axes of one operand: shapes and starting positions of the blocks agree -/
theorem axes_rel (outInd : List Nat) (plans : List AxisPlan) (nb : List Nat) (bid' : List Nat)
    (hlen : bid'.length = plans.length) (hB : Bounded plans nb bid') :
    ∀ (ind : List Nat) (chunks : List (List Int)) (sl : List (Option (Int × Int))) (cc : List Nat),
    opAxesSlices outInd plans nb ind chunks = some sl →
    (ind.zip chunks).all (fun p => keepsAxis outInd plans p.1 p.2) = true →
    List.zipWith (fun cs k => cs.getD k 0) (List.zipWith opChunksAfter chunks sl) (opCoords outInd bid' ind cc)
      = List.zipWith (fun cs k => cs.getD k 0) chunks
          (opCoords outInd (List.zipWith (· + ·) bid' (firsts plans)) ind cc) ∧
    ∀ loc : List Int,
      List.zipWith (fun (t : Option (Int × Int)) v => v + (t.map (·.1)).getD 0) sl
        (List.zipWith (· + ·)
          (List.zipWith blockStart (List.zipWith opChunksAfter chunks sl) (opCoords outInd bid' ind cc)) loc)
      = List.zipWith (· + ·)
          (List.zipWith blockStart chunks (opCoords outInd (List.zipWith (· + ·) bid' (firsts plans)) ind cc)) loc
  | [], chunks, sl, cc, _, _ => by
    simp [opCoords]
  | l :: ls, [], sl, cc, h, _ => by
    have : sl = [] := by unfold opAxesSlices at h; exact (Option.some.inj h).symm
    subst this
    simp
  | l :: ls, ic :: ics, sl, cc, h, hk => by
    obtain ⟨s, ss, hs, hss, rfl⟩ := opAxesSlices_cons_some outInd plans nb l ls ic ics sl h
    simp only [List.zip_cons_cons, List.all_cons, Bool.and_eq_true] at hk
    obtain ⟨ih1, ih2⟩ := axes_rel outInd plans nb bid' hlen hB ls ics ss cc.tail hss hk.2
    obtain ⟨r1, r2⟩ := axis_rel outInd plans nb bid' hlen hB l ic s hs hk.1 (cc.headD 0)
    rw [opCoords_eq outInd bid' (l :: ls) cc, opCoords_eq outInd _ (l :: ls) cc]
    simp only [List.zipWith_cons_cons]
    refine ⟨by rw [r1, ih1], ?_⟩
    intro loc
    cases loc with
    | nil => simp
    | cons v vs =>
      simp only [List.zipWith_cons_cons]
      rw [ih2 vs]
      congr 1
      omega

theorem opSlice_cases (outInd : List Nat) (plans : List AxisPlan) (nb : List Nat) (o : Opd)
    (r : Option (List (Option (Int × Int)))) (h : opSlice outInd plans nb o = some r) :
    (o.ind = none ∧ r = none) ∨
    (∃ ind sl, o.ind = some ind ∧ r = some sl ∧ opAxesSlices outInd plans nb ind o.chunks = some sl) := by
  unfold opSlice at h
  cases hi : o.ind with
  | none =>
    rw [hi] at h
    exact Or.inl ⟨rfl, (Option.some.inj h).symm⟩
  | some ind =>
    rw [hi] at h
    simp only at h
    split at h
    · simp at h
    · cases hx : opAxesSlices outInd plans nb ind o.chunks with
      | none => rw [hx] at h; simp at h
      | some sl =>
        rw [hx] at h
        exact Or.inr ⟨ind, sl, rfl, (Option.some.inj h).symm, hx⟩

/-- **the task of block `bid'` of the rewritten node receives from a sliced operand exactly what the task of block
`bid' + firsts` of the original receives from the operand** -/
theorem opView_sliced {α : Type} (outInd : List Nat) (plans : List AxisPlan) (nb : List Nat) (bid' : List Nat)
    (hlen : bid'.length = plans.length) (hB : Bounded plans nb bid') (o : Operand α)
    (r : Option (List (Option (Int × Int)))) (h : opSlice outInd plans nb o.toOpd = some r)
    (hk : (match o.ind with
            | none => true
            | some ind => (ind.zip o.chunks).all (fun p => keepsAxis outInd plans p.1 p.2)) = true) :
    opView outInd (sliceOperand o r) bid' = opView outInd o (List.zipWith (· + ·) bid' (firsts plans)) := by
  rcases opSlice_cases outInd plans nb o.toOpd r h with ⟨hn, rfl⟩ | ⟨ind, sl, hi, rfl, hsl⟩
  · have hn' : o.ind = none := hn
    simp only [sliceOperand, opView, hn']
  · have hi' : o.ind = some ind := hi
    have hsl' : opAxesSlices outInd plans nb ind o.chunks = some sl := hsl
    rw [hi'] at hk
    simp only at hk
    funext cc
    obtain ⟨e1, e2⟩ := axes_rel outInd plans nb bid' hlen hB ind o.chunks sl cc hsl' hk
    simp only [opView, sliceOperand, hi', blockAt]
    rw [e1]
    congr 1
    funext loc
    rw [e2 loc]

/-- … for the whole operand list -/
theorem views_sliced {α : Type} (outInd : List Nat) (plans : List AxisPlan) (nb : List Nat) (bid' : List Nat)
    (hlen : bid'.length = plans.length) (hB : Bounded plans nb bid') :
    ∀ (ops : List (Operand α)) (sls : List (Option (List (Option (Int × Int))))),
    mapOpt (opSlice outInd plans nb) (ops.map Operand.toOpd) = some sls →
    keepsAll outInd plans (ops.map Operand.toOpd) = true →
    (List.zipWith sliceOperand ops sls).map (fun o => opView outInd o bid')
      = ops.map (fun o => opView outInd o (List.zipWith (· + ·) bid' (firsts plans)))
  | [], sls, h, _ => by
    have : sls = [] := by unfold mapOpt at h; exact (Option.some.inj h).symm
    subst this; rfl
  | o :: os, sls, h, hk => by
    obtain ⟨r, rs, hr, hrs, rfl⟩ := mapOpt_cons_some _ _ _ _ (by simpa using h)
    simp only [keepsAll, List.map_cons, List.all_cons, Bool.and_eq_true] at hk
    have ih := views_sliced outInd plans nb bid' hlen hB os rs hrs (by simpa [keepsAll] using hk.2)
    simp only [List.zipWith_cons_cons, List.map_cons]
    rw [ih, opView_sliced outInd plans nb bid' hlen hB o r hr hk.1]

theorem fullIndex_length (idx : List Idx) (n : Nat) (h : idx.length ≤ n) : (fullIndex idx n).length = n := by
  simp [fullIndex]; omega

/-- **Soundness of the coarse pushdown, n-d.** -/
theorem accept_sound {α β : Type} (F : List (List Nat → Blk α) → List Int → β) (outInd : List Nat)
    (ops : List (Operand α)) (adjust : List (Nat × AdjKind)) (newAxes : List (Nat × List Int))
    (oc : List (List Int)) (idx : List Idx) (r : Result)
    (h : acceptCoarse0 ⟨outInd, ops.map Operand.toOpd, adjust, newAxes⟩ oc idx = some r)
    (hoc : ∀ cs ∈ oc, ∀ c ∈ cs, 0 ≤ c) (hlen : oc.length = outInd.length) (hil : idx.length ≤ outInd.length)
    (hok : idxsOK oc (fullIndex idx outInd.length) = true)
    (hkeep : keepsAll outInd r.plans (ops.map Operand.toOpd) = true)
    (q : List Nat) (hql : q.length = outInd.length) (hq : inSels oc (fullIndex idx outInd.length) q = true) :
    indexDen (bwDen F outInd ops oc) (oc.map isum) (fullIndex idx outInd.length) q
      = rewrittenDen F outInd ops (keptOut oc r.plans) r q := by
  unfold acceptCoarse0 at h
  simp only at h
  cases hp : axisPlans oc (fullIndex idx outInd.length) with
  | none => rw [hp] at h; simp at h
  | some plans =>
    rw [hp] at h
    simp only at h
    cases hs : mapOpt (opSlice outInd plans (oc.map List.length)) (ops.map Operand.toOpd) with
    | none => rw [hs] at h; simp at h
    | some sls =>
      rw [hs] at h
      have hr := (Option.some.inj h).symm
      subst hr
      simp only at hkeep ⊢
      obtain ⟨n1, n2, n3, n4, n5⟩ := locate_nd oc (fullIndex idx outInd.length) plans q hoc hp hok hq
        (by rw [fullIndex_length idx _ hil, hlen]) (by rw [hql, hlen])
      unfold rewrittenDen indexDen bwDen
      simp only
      rw [n3, n4]
      rw [views_sliced outInd plans (oc.map List.length) _ (by rw [n2, n1]) n5 ops sls hs hkeep]

end Dask.Lemmas.Coarse
