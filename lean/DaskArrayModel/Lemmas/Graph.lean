/-
Lemmas for L4 graphs: evaluation along topological orders (C10), layer unions (C04),
the records translation and the shared-`seen` walk (C21).  Core Lean only.
-/
import DaskArrayModel.Model.Graph

set_option linter.unusedSectionVars false

namespace Dask.Lemmas.Graph
open Dask.Graph

/-! ## 1. Evaluation along a topological order -/

section eval
variable {κ ν : Type} [DecidableEq κ]

theorem mem_keys_of_mem {g : Graph κ ν} {k : κ} {t : Task κ ν} (h : (k, t) ∈ g) : k ∈ keys g :=
  List.mem_map.mpr ⟨(k, t), h, rfl⟩

theorem getTask_of_mem {g : Graph κ ν} (hwf : WF g) {k : κ} {t : Task κ ν} (h : (k, t) ∈ g) :
    getTask g k = some t := by
  induction g with
  | nil => cases h
  | cons p rest ih =>
    obtain ⟨k', t'⟩ := p
    have hwf' : (k' :: keys rest).Nodup := hwf
    rw [List.nodup_cons] at hwf'
    simp only [getTask]
    rcases List.mem_cons.mp h with heq | hin
    · cases heq; simp
    · have hne : k' ≠ k := by
        intro e; subst e; exact hwf'.1 (mem_keys_of_mem hin)
      simp [hne]; exact ih hwf'.2 hin

theorem getTask_mem {g : Graph κ ν} {k : κ} {t : Task κ ν} (h : getTask g k = some t) : (k, t) ∈ g := by
  induction g with
  | nil => simp [getTask] at h
  | cons p rest ih =>
    obtain ⟨k', t'⟩ := p
    simp only [getTask] at h
    by_cases e : k' = k
    · simp [e] at h; subst h; subst e; exact List.mem_cons_self
    · simp [e] at h; exact List.mem_cons_of_mem _ (ih h)

/-- the value of a task depends only on the values of its dependencies -/
theorem lookupAll_congr {e1 e2 : Env κ ν} {ds : List κ} (h : ∀ d ∈ ds, e1 d = e2 d) :
    lookupAll e1 ds = lookupAll e2 ds := by
  induction ds with
  | nil => rfl
  | cons d ds ih =>
    simp only [lookupAll]
    rw [h d List.mem_cons_self, ih (fun x hx => h x (List.mem_cons_of_mem _ hx))]

theorem evalTask_congr {e1 e2 : Env κ ν} {t : Task κ ν} (h : ∀ d ∈ t.deps, e1 d = e2 d) :
    evalTask e1 t = evalTask e2 t := by
  simp only [evalTask, lookupAll_congr h]

theorem lookupAll_isSome {e : Env κ ν} {ds : List κ} (h : ∀ d ∈ ds, (e d).isSome) :
    (lookupAll e ds).isSome := by
  induction ds with
  | nil => rfl
  | cons d ds ih =>
    have h1 := h d List.mem_cons_self
    have h2 := ih (fun x hx => h x (List.mem_cons_of_mem _ hx))
    simp only [lookupAll]
    cases hd : e d with
    | none => simp [hd] at h1
    | some v =>
      cases hl : lookupAll e ds with
      | none => simp [hl] at h2
      | some vs => rfl

theorem evalTask_isSome {e : Env κ ν} {t : Task κ ν} (h : ∀ d ∈ t.deps, (e d).isSome) :
    (evalTask e t).isSome := by
  have := lookupAll_isSome h
  simp only [evalTask]
  cases hl : lookupAll e t.deps with
  | none => simp [hl] at this
  | some vs => rfl

theorem TopoFrom_not_mem {g : Graph κ ν} : ∀ {order done : List κ}, TopoFrom g done order →
    ∀ x ∈ order, x ∉ done := by
  intro order
  induction order with
  | nil => intro _ _ x hx; cases hx
  | cons k rest ih =>
    intro done h x hx
    obtain ⟨hk, _, hrest⟩ := h
    rcases List.mem_cons.mp hx with e | hin
    · subst e; exact hk
    · intro hd; exact ih hrest x hin (List.mem_cons_of_mem _ hd)

theorem TopoFrom_mem_graph {g : Graph κ ν} : ∀ {order done : List κ}, TopoFrom g done order →
    ∀ x ∈ order, ∃ t, (x, t) ∈ g := by
  intro order
  induction order with
  | nil => intro _ _ x hx; cases hx
  | cons k rest ih =>
    intro done h x hx
    obtain ⟨_, ⟨t, ht, _⟩, hrest⟩ := h
    rcases List.mem_cons.mp hx with e | hin
    · subst e; exact ⟨t, ht⟩
    · exact ih hrest x hin

/-- a solution of the graph equations on the keys of `order` -/
def SolvesOn (g : Graph κ ν) (env : Env κ ν) (order : List κ) : Prop :=
  ∀ k ∈ order, ∀ t, (k, t) ∈ g → env k = evalTask env t ∧ (env k).isSome

/-- Running a topological order never needs an undefined dependency; the result extends the
start environment exactly on the keys of the order and solves the graph equations there. -/
theorem evalOrder_spec {g : Graph κ ν} (hwf : WF g) :
    ∀ (order done : List κ) (env : Env κ ν), TopoFrom g done order →
      (∀ d ∈ done, (env d).isSome) →
      ∃ env', evalOrder g order env = some env' ∧
        (∀ k, k ∉ order → env' k = env k) ∧ SolvesOn g env' order := by
  intro order
  induction order with
  | nil =>
    intro done env _ _
    exact ⟨env, rfl, fun _ _ => rfl, fun k hk => by cases hk⟩
  | cons k rest ih =>
    intro done env htopo hdone
    obtain ⟨hk, ⟨t, ht, hdeps⟩, hrest⟩ := htopo
    have hget : getTask g k = some t := getTask_of_mem hwf ht
    have hsome : (evalTask env t).isSome := evalTask_isSome (fun d hd => hdone d (hdeps d hd))
    cases hv : evalTask env t with
    | none => simp [hv] at hsome
    | some v =>
      have hdone' : ∀ d ∈ k :: done, ((env.set k v) d).isSome := by
        intro d hd
        by_cases e : d = k
        · simp [Env.set, e]
        · simp only [Env.set, e, if_false]
          rcases List.mem_cons.mp hd with h1 | h1
          · exact absurd h1 e
          · exact hdone d h1
      obtain ⟨env', hrun, hframe, hsol⟩ := ih (k :: done) (env.set k v) hrest hdone'
      refine ⟨env', ?_, ?_, ?_⟩
      · simp only [evalOrder, hget, hv]; exact hrun
      · intro x hx
        have hx1 : x ∉ rest := fun h => hx (List.mem_cons_of_mem _ h)
        have hx2 : x ≠ k := fun h => hx (h ▸ List.mem_cons_self)
        rw [hframe x hx1]; simp [Env.set, hx2]
      · intro x hx t' ht'
        rcases List.mem_cons.mp hx with e | hin
        · subst e
          have htt : t' = t := by
            have := getTask_of_mem hwf ht'; rw [hget] at this; exact (Option.some.inj this).symm
          subst htt
          have hnr : x ∉ rest := fun h => TopoFrom_not_mem hrest x h List.mem_cons_self
          have hx' : env' x = some v := by rw [hframe x hnr]; simp [Env.set]
          have hsame : evalTask env' t' = evalTask env t' := by
            apply evalTask_congr
            intro d hd
            have hdd : d ∈ done := hdeps d hd
            have hd1 : d ∉ rest := fun h => TopoFrom_not_mem hrest d h (List.mem_cons_of_mem _ hdd)
            have hd2 : d ≠ x := fun h => hk (h ▸ hdd)
            rw [hframe d hd1]; simp [Env.set, hd2]
          rw [hx', hsame, hv]; exact ⟨rfl, rfl⟩
        · exact hsol x hin t' ht'

/-- two solutions agree along any topological order -/
theorem solutions_agree {g : Graph κ ν} {e1 e2 : Env κ ν} :
    ∀ (order done : List κ), TopoFrom g done order →
      (∀ d ∈ done, e1 d = e2 d) → SolvesOn g e1 order → SolvesOn g e2 order →
      ∀ k ∈ order, e1 k = e2 k := by
  intro order
  induction order with
  | nil => intro _ _ _ _ _ k hk; cases hk
  | cons k rest ih =>
    intro done htopo hdone h1 h2 x hx
    obtain ⟨_, ⟨t, ht, hdeps⟩, hrest⟩ := htopo
    have hk : e1 k = e2 k := by
      rw [(h1 k List.mem_cons_self t ht).1, (h2 k List.mem_cons_self t ht).1]
      exact evalTask_congr (fun d hd => hdone d (hdeps d hd))
    rcases List.mem_cons.mp hx with e | hin
    · subst e; exact hk
    · refine ih (k :: done) hrest ?_ (fun y hy => h1 y (List.mem_cons_of_mem _ hy))
        (fun y hy => h2 y (List.mem_cons_of_mem _ hy)) x hin
      intro d hd
      rcases List.mem_cons.mp hd with e | h
      · subst e; exact hk
      · exact hdone d h

theorem IsTopo_mem_iff {g : Graph κ ν} {order : List κ} (h : IsTopo g order) (k : κ) :
    k ∈ order ↔ k ∈ keys g :=
  ⟨fun hk => by obtain ⟨t, ht⟩ := TopoFrom_mem_graph h.1 k hk; exact mem_keys_of_mem ht, h.2 k⟩

/-- a topological order of a graph with distinct keys evaluates completely, the result is
defined exactly on the keys of the graph and solves the graph equations -/
theorem topo_eval_defined {g : Graph κ ν} (hwf : WF g) {order : List κ} (h : IsTopo g order) :
    ∃ env, evalOrder g order Env.empty = some env ∧
      (∀ k, (env k).isSome ↔ k ∈ keys g) ∧ SolvesOn g env order := by
  obtain ⟨env, hrun, hframe, hsol⟩ := evalOrder_spec hwf order [] Env.empty h.1 (fun d hd => by cases hd)
  refine ⟨env, hrun, ?_, hsol⟩
  intro k
  constructor
  · intro hs
    by_cases hk : k ∈ order
    · exact (IsTopo_mem_iff h k).mp hk
    · rw [hframe k hk] at hs; simp [Env.empty] at hs
  · intro hk
    have hko := h.2 k hk
    obtain ⟨t, ht⟩ := TopoFrom_mem_graph h.1 k hko
    exact (hsol k hko t ht).2

/-- ANY two topological orders evaluate to the same key→value map -/
theorem topo_eval_unique {g : Graph κ ν} (hwf : WF g) {o1 o2 : List κ}
    (h1 : IsTopo g o1) (h2 : IsTopo g o2) :
    ∃ env, evalOrder g o1 Env.empty = some env ∧ evalOrder g o2 Env.empty = some env := by
  obtain ⟨e1, hr1, hd1, hs1⟩ := topo_eval_defined hwf h1
  obtain ⟨e2, hr2, hd2, hs2⟩ := topo_eval_defined hwf h2
  have hs2' : SolvesOn g e2 o1 := fun k hk t ht =>
    hs2 k ((IsTopo_mem_iff h2 k).mpr ((IsTopo_mem_iff h1 k).mp hk)) t ht
  have hagree := solutions_agree o1 [] h1.1 (fun d hd => by cases hd) hs1 hs2'
  have heq : e1 = e2 := by
    funext k
    by_cases hk : k ∈ o1
    · exact hagree k hk
    · have n1 : ¬ (e1 k).isSome := fun h => hk ((IsTopo_mem_iff h1 k).mpr ((hd1 k).mp h))
      have n2 : ¬ (e2 k).isSome := fun h => hk ((IsTopo_mem_iff h1 k).mpr ((hd2 k).mp h))
      cases h1k : e1 k with
      | some v => simp [h1k] at n1
      | none =>
        cases h2k : e2 k with
        | some v => simp [h2k] at n2
        | none => rfl
  exact ⟨e1, hr1, heq ▸ hr2⟩

/-- a graph that has a topological order is closed -/
theorem closed_of_topo {g : Graph κ ν} (hwf : WF g) {order : List κ} (h : IsTopo g order) : closed g := by
  intro p hp d hd
  obtain ⟨k, t⟩ := p
  have hk := h.2 k (mem_keys_of_mem hp)
  -- find the position of k: its dependencies are earlier elements of the order, hence tasks
  have key : ∀ (order done : List κ), TopoFrom g done order → (∀ x ∈ done, x ∈ keys g) →
      k ∈ order → d ∈ keys g := by
    intro order
    induction order with
    | nil => intro _ _ _ hk; cases hk
    | cons a rest ih =>
      intro done htopo hdone hk
      obtain ⟨_, ⟨t', ht', hdeps⟩, hrest⟩ := htopo
      rcases List.mem_cons.mp hk with e | hin
      · subst e
        have : t' = t := by
          have h1 := getTask_of_mem hwf ht'; have h2 := getTask_of_mem hwf hp
          rw [h1] at h2; exact Option.some.inj h2
        subst this
        exact hdone d (hdeps d hd)
      · refine ih (a :: done) hrest ?_ hin
        intro x hx
        rcases List.mem_cons.mp hx with e | h
        · subst e; exact mem_keys_of_mem ht'
        · exact hdone x h
  exact key order [] h.1 (fun x hx => by cases hx) hk

theorem lookup_skeleton {g : Graph κ ν} {k : κ} {ds : List κ} (h : (skeleton g).lookup k = some ds) :
    ∃ t, (k, t) ∈ g ∧ t.deps = ds := by
  induction g with
  | nil => simp [skeleton] at h
  | cons p rest ih =>
    obtain ⟨k', t'⟩ := p
    simp only [skeleton, List.map_cons, List.lookup_cons] at h
    by_cases e : k = k'
    · subst e
      simp at h
      exact ⟨t', List.mem_cons_self, h⟩
    · have : (k == k') = false := by simpa using e
      rw [this] at h
      obtain ⟨t, ht, hd⟩ := ih h
      exact ⟨t, List.mem_cons_of_mem _ ht, hd⟩

theorem topoFromB_sound {g : Graph κ ν} : ∀ (order done : List κ),
    topoFromB (skeleton g) done order = true → TopoFrom g done order := by
  intro order
  induction order with
  | nil => intro _ _; trivial
  | cons k rest ih =>
    intro done h
    simp only [topoFromB, Bool.and_eq_true, Bool.not_eq_true', List.contains_eq_mem,
      decide_eq_false_iff_not] at h
    obtain ⟨⟨h1, h2⟩, h3⟩ := h
    refine ⟨h1, ?_, ih _ h3⟩
    cases hl : (skeleton g).lookup k with
    | none => simp [hl] at h2
    | some ds =>
      simp only [hl, List.all_eq_true, decide_eq_true_eq] at h2
      obtain ⟨t, ht, hd⟩ := lookup_skeleton hl
      exact ⟨t, ht, fun d hdm => h2 d (hd ▸ hdm)⟩

/-- the executable checker is sound: an order it accepts is a topological order -/
theorem isTopoB_sound {g : Graph κ ν} {order : List κ} (h : isTopoB (skeleton g) order = true) :
    IsTopo g order := by
  simp only [isTopoB, Bool.and_eq_true, List.all_eq_true, List.contains_eq_mem,
    decide_eq_true_eq] at h
  refine ⟨topoFromB_sound order [] h.1, ?_⟩
  intro k hk
  obtain ⟨p, hp, rfl⟩ := List.mem_map.mp hk
  exact h.2 (p.1, p.2.deps) (List.mem_map.mpr ⟨p, hp, rfl⟩)

end eval

/-! ## 2. `toolz.merge` of layers -/

section merge
variable {κ ν : Type} [DecidableEq κ]

theorem mem_merge {g h : Graph κ ν} {p : κ × Task κ ν} (hp : p ∈ merge g h) : p ∈ g ∨ p ∈ h := by
  rcases List.mem_append.mp hp with h1 | h1
  · exact Or.inl (List.mem_filter.mp h1).1
  · exact Or.inr h1

theorem mem_merge_right {g h : Graph κ ν} {p : κ × Task κ ν} (hp : p ∈ h) : p ∈ merge g h :=
  List.mem_append.mpr (Or.inr hp)

theorem mem_merge_left {g h : Graph κ ν} {p : κ × Task κ ν} (hp : p ∈ g) (hk : p.1 ∉ keys h) :
    p ∈ merge g h :=
  List.mem_append.mpr (Or.inl (List.mem_filter.mpr ⟨hp, by simpa using hk⟩))

theorem keys_merge {g h : Graph κ ν} {k : κ} : k ∈ keys (merge g h) ↔ k ∈ keys g ∨ k ∈ keys h := by
  constructor
  · intro hk
    obtain ⟨p, hp, rfl⟩ := List.mem_map.mp hk
    rcases mem_merge hp with h1 | h1
    · exact Or.inl (List.mem_map.mpr ⟨p, h1, rfl⟩)
    · exact Or.inr (List.mem_map.mpr ⟨p, h1, rfl⟩)
  · intro hk
    rcases hk with h1 | h1
    · by_cases hh : k ∈ keys h
      · obtain ⟨p, hp, rfl⟩ := List.mem_map.mp hh
        exact List.mem_map.mpr ⟨p, mem_merge_right hp, rfl⟩
      · obtain ⟨p, hp, rfl⟩ := List.mem_map.mp h1
        exact List.mem_map.mpr ⟨p, mem_merge_left hp hh, rfl⟩
    · obtain ⟨p, hp, rfl⟩ := List.mem_map.mp h1
      exact List.mem_map.mpr ⟨p, mem_merge_right hp, rfl⟩

theorem WF_merge {g h : Graph κ ν} (hg : WF g) (hh : WF h) : WF (merge g h) := by
  unfold WF keys merge
  rw [List.map_append, List.nodup_append]
  refine ⟨?_, hh, ?_⟩
  · exact List.Nodup.sublist (List.Sublist.map _ List.filter_sublist) hg
  · intro a ha b hb hab
    obtain ⟨p, hp, rfl⟩ := List.mem_map.mp ha
    have := (List.mem_filter.mp hp).2
    simp only [decide_eq_true_eq] at this
    exact this (hab ▸ hb)

end merge

/-! ## 3. Layers of an expression DAG (C04) -/

section layers
variable {ν : Type}

theorem mem_unionLayers {nodes : List (ENode ν)} {p : Key × Task Key ν} (hp : p ∈ unionLayers nodes) :
    ∃ n ∈ nodes, p ∈ n.layer := by
  induction nodes with
  | nil => cases hp
  | cons n rest ih =>
    rcases mem_merge hp with h | h
    · exact ⟨n, List.mem_cons_self, h⟩
    · obtain ⟨m, hm, hpm⟩ := ih h
      exact ⟨m, List.mem_cons_of_mem _ hm, hpm⟩

theorem keys_unionLayers {nodes : List (ENode ν)} {k : Key} :
    k ∈ keys (unionLayers nodes) ↔ ∃ n ∈ nodes, k ∈ keys n.layer := by
  induction nodes with
  | nil => simp [unionLayers, keys]
  | cons n rest ih =>
    simp only [unionLayers]
    rw [keys_merge, ih]
    constructor
    · rintro (h | ⟨m, hm, hk⟩)
      · exact ⟨n, List.mem_cons_self, h⟩
      · exact ⟨m, List.mem_cons_of_mem _ hm, hk⟩
    · rintro ⟨m, hm, hk⟩
      rcases List.mem_cons.mp hm with e | h
      · subst e; exact Or.inl hk
      · exact Or.inr ⟨m, h, hk⟩

theorem WF_unionLayers {nodes : List (ENode ν)} (h : ∀ n ∈ nodes, (keys n.layer).Nodup) :
    WF (unionLayers nodes) := by
  induction nodes with
  | nil => exact List.nodup_nil
  | cons n rest ih =>
    exact WF_merge (h n List.mem_cons_self) (ih (fun m hm => h m (List.mem_cons_of_mem _ hm)))

theorem mem_depGrid {n : ENode ν} {d : Key} (h : d ∈ depGrid n) :
    ∃ dep ∈ n.deps, ∃ i ∈ grid dep.2, d = blockKey dep.1 i := by
  obtain ⟨dep, hdep, hd⟩ := List.mem_flatMap.mp h
  obtain ⟨i, hi, rfl⟩ := List.mem_map.mp hd
  exact ⟨dep, hdep, i, hi, rfl⟩

theorem depGrid_mem {n : ENode ν} {dep : String × List Nat} (hdep : dep ∈ n.deps) {i : List Nat}
    (hi : i ∈ grid dep.2) : blockKey dep.1 i ∈ depGrid n :=
  List.mem_flatMap.mpr ⟨dep, hdep, List.mem_map.mpr ⟨i, hi, rfl⟩⟩

/-- local layer contract on every node + node set closed under `dependencies()` ⇒ the merged
graph is closed.  Holds for ARBITRARY (also overlapping) layers. -/
theorem layers_closed {nodes : List (ENode ν)} (hc : ∀ n ∈ nodes, LayerContract n)
    (hw : WalkClosed nodes) : closed (unionLayers nodes) := by
  intro p hp d hd
  obtain ⟨n, hn, hpn⟩ := mem_unionLayers hp
  rcases (hc n hn).refs p hpn d hd with h | h
  · exact keys_unionLayers.mpr ⟨n, hn, h⟩
  · obtain ⟨dep, hdep, i, hi, rfl⟩ := mem_depGrid h
    obtain ⟨m, hm, hname, hnb⟩ := hw n hn dep hdep
    refine keys_unionLayers.mpr ⟨m, hm, ?_⟩
    have := (hc m hm).grid_defined i (by rw [hnb]; exact hi)
    rw [hname] at this; exact this

/-- the merged graph defines `rootName × grid(numblocks root)` -/
theorem root_keys {nodes : List (ENode ν)} {root : ENode ν} (hr : root ∈ nodes)
    (hc : LayerContract root) :
    ∀ i ∈ grid root.numblocks, blockKey root.name i ∈ keys (unionLayers nodes) :=
  fun i hi => keys_unionLayers.mpr ⟨root, hr, hc.grid_defined i hi⟩

/-- with owned layers and distinct names the public keys under the root's name are EXACTLY the grid -/
theorem root_keys_exact {nodes : List (ENode ν)} {root : ENode ν} (hr : root ∈ nodes)
    (ho : ∀ n ∈ nodes, OwnedLayer n)
    (hnames : ∀ n ∈ nodes, ∀ m ∈ nodes, n.name = m.name → n = m) :
    ∀ k ∈ keys (unionLayers nodes), k.owner = root.name → k.tag = "" → k.idx ∈ grid root.numblocks := by
  intro k hk hown htag
  obtain ⟨n, hn, hkn⟩ := keys_unionLayers.mp hk
  have h1 : n.name = root.name := by rw [← (ho n hn).owned k hkn]; exact hown
  have : n = root := hnames n hn root hr h1
  subst this
  exact (ho n hn).grid_exact k hkn htag

/-! ### acyclicity: concatenate per-layer orders in DAG order -/

theorem TopoFrom_append {κ : Type} [DecidableEq κ] {g : Graph κ ν} : ∀ (a : List κ) {done b : List κ},
    TopoFrom g done a → TopoFrom g (a.reverse ++ done) b → TopoFrom g done (a ++ b) := by
  intro a
  induction a with
  | nil => intro done b _ h; simpa using h
  | cons x a ih =>
    intro done b ha hb
    obtain ⟨h1, h2, h3⟩ := ha
    refine ⟨h1, h2, ih h3 ?_⟩
    simpa [List.reverse_cons, List.append_assoc] using hb

/-- a topological order of a layer relative to external keys `ext` is one of any larger graph
relative to any `done ⊇ ext` that does not contain the layer's keys -/
theorem TopoFrom_lift {κ : Type} [DecidableEq κ] {l g : Graph κ ν} (hsub : ∀ p ∈ l, p ∈ g) :
    ∀ (a : List κ) {ext done : List κ}, TopoFrom l ext a → (∀ x ∈ ext, x ∈ done) →
      (∀ x ∈ a, x ∉ done) → TopoFrom g done a := by
  intro a
  induction a with
  | nil => intro _ _ _ _ _; trivial
  | cons k rest ih =>
    intro ext done h hext hnot
    obtain ⟨_, ⟨t, ht, hdeps⟩, hrest⟩ := h
    refine ⟨hnot k List.mem_cons_self, ⟨t, hsub _ ht, fun d hd => hext d (hdeps d hd)⟩, ?_⟩
    refine ih hrest ?_ ?_
    · intro x hx
      rcases List.mem_cons.mp hx with e | h
      · subst e; exact List.mem_cons_self
      · exact List.mem_cons_of_mem _ (hext x h)
    · intro x hx hxd
      rcases List.mem_cons.mp hxd with e | h
      · subst e; exact TopoFrom_not_mem hrest x hx List.mem_cons_self
      · exact hnot x (List.mem_cons_of_mem _ hx) h

theorem DagFrom_names {pre rest : List (ENode ν)} (h : DagFrom pre rest) :
    ∀ n ∈ rest, n.name ∉ pre.map (·.name) := by
  induction rest generalizing pre with
  | nil => intro n hn; cases hn
  | cons a rest ih =>
    intro n hn
    obtain ⟨_, h2, h3⟩ := h
    rcases List.mem_cons.mp hn with e | hin
    · subst e; exact h2
    · intro hmem
      exact ih h3 n hin (List.mem_cons_of_mem _ hmem)

/-- in dependency order with distinct names and owned layers, every layer survives the merge -/
theorem mem_unionLayers_of_owned {pre rest : List (ENode ν)} (hd : DagFrom pre rest)
    (ho : ∀ n ∈ rest, OwnedLayer n) :
    ∀ n ∈ rest, ∀ p ∈ n.layer, p ∈ unionLayers rest := by
  induction rest generalizing pre with
  | nil => intro n hn; cases hn
  | cons a rest ih =>
    intro n hn p hp
    obtain ⟨_, _, h3⟩ := hd
    rcases List.mem_cons.mp hn with e | hin
    · subst e
      apply mem_merge_left hp
      intro hk
      obtain ⟨m, hm, hkm⟩ := keys_unionLayers.mp hk
      have h1 : p.1.owner = n.name := (ho n List.mem_cons_self).owned _ (List.mem_map.mpr ⟨p, hp, rfl⟩)
      have h2 : p.1.owner = m.name := (ho m (List.mem_cons_of_mem _ hm)).owned _ hkm
      have := DagFrom_names h3 m hm
      apply this
      rw [← h2, h1]; exact List.mem_map.mpr ⟨n, List.mem_cons_self, rfl⟩
    · exact mem_merge_right (ih h3 (fun m hm => ho m (List.mem_cons_of_mem _ hm)) n hin p hp)

theorem topo_union_aux {g : Graph Key ν} (ord : ENode ν → List Key) :
    ∀ (rest pre : List (ENode ν)) (done : List Key), DagFrom pre rest →
      (∀ n ∈ rest, LayerContract n ∧ OwnedLayer n) →
      (∀ n ∈ rest, TopoFrom n.layer (depGrid n) (ord n) ∧ ∀ k ∈ keys n.layer, k ∈ ord n) →
      (∀ n ∈ rest, ∀ p ∈ n.layer, p ∈ g) →
      (∀ m ∈ pre, ∀ i ∈ grid m.numblocks, blockKey m.name i ∈ done) →
      (∀ k ∈ done, k.owner ∈ pre.map (·.name)) →
      TopoFrom g done (rest.flatMap ord) := by
  intro rest
  induction rest with
  | nil => intro _ _ _ _ _ _ _ _; trivial
  | cons n rest ih =>
    intro pre done hd hc hord hg hI1 hI2
    obtain ⟨hdeps, hname, hd'⟩ := hd
    obtain ⟨hcn, hon⟩ := hc n List.mem_cons_self
    obtain ⟨htn, hcov⟩ := hord n List.mem_cons_self
    simp only [List.flatMap_cons]
    have hown : ∀ x ∈ ord n, x.owner = n.name := by
      intro x hx
      obtain ⟨t, ht⟩ := TopoFrom_mem_graph htn x hx
      exact hon.owned x (List.mem_map.mpr ⟨(x, t), ht, rfl⟩)
    apply TopoFrom_append
    · apply TopoFrom_lift (hg n List.mem_cons_self) (ord n) htn
      · intro x hx
        obtain ⟨dep, hdep, i, hi, rfl⟩ := mem_depGrid hx
        obtain ⟨m, hm, hmn, hmb⟩ := hdeps dep hdep
        have := hI1 m hm i (by rw [hmb]; exact hi)
        rw [hmn] at this; exact this
      · intro x hx hxd
        apply hname
        rw [← hown x hx]; exact hI2 x hxd
    · apply ih (n :: pre) ((ord n).reverse ++ done) hd'
        (fun m hm => hc m (List.mem_cons_of_mem _ hm))
        (fun m hm => hord m (List.mem_cons_of_mem _ hm))
        (fun m hm => hg m (List.mem_cons_of_mem _ hm))
      · intro m hm i hi
        rcases List.mem_cons.mp hm with e | h
        · subst e
          exact List.mem_append.mpr (Or.inl (List.mem_reverse.mpr (hcov _ (hcn.grid_defined i hi))))
        · exact List.mem_append.mpr (Or.inr (hI1 m h i hi))
      · intro k hk
        rcases List.mem_append.mp hk with h | h
        · have := hown k (List.mem_reverse.mp h)
          rw [this]; exact List.mem_cons_self
        · exact List.mem_cons_of_mem _ (hI2 k h)

/-- expression DAG in dependency order, owned layers, each layer internally ordered relative to
the block keys of its declared dependencies ⇒ concatenating the per-layer orders in DAG order is
a topological order of the merged graph -/
theorem union_acyclic {nodes : List (ENode ν)} (ord : ENode ν → List Key)
    (hd : DagFrom [] nodes) (hc : ∀ n ∈ nodes, LayerContract n ∧ OwnedLayer n)
    (hord : ∀ n ∈ nodes, TopoFrom n.layer (depGrid n) (ord n) ∧ ∀ k ∈ keys n.layer, k ∈ ord n) :
    IsTopo (unionLayers nodes) (nodes.flatMap ord) := by
  constructor
  · exact topo_union_aux ord nodes [] [] hd hc hord
      (mem_unionLayers_of_owned hd (fun n hn => (hc n hn).2))
      (fun m hm => by cases hm) (fun k hk => by cases hk)
  · intro k hk
    obtain ⟨n, hn, hkn⟩ := keys_unionLayers.mp hk
    exact List.mem_flatMap.mpr ⟨n, hn, (hord n hn).2 k hkn⟩

/-! ### the `RootAlias` pin of `_materialize` -/

theorem grid_nodup : ∀ nb : List Nat, (grid nb).Nodup := by
  intro nb
  induction nb with
  | nil => simp [grid]
  | cons n ns ih =>
    unfold grid
    rw [List.nodup_iff_pairwise_ne, List.pairwise_flatMap]
    constructor
    · intro i _
      rw [List.pairwise_map]
      exact List.Pairwise.imp (fun h e => h (List.cons.inj e).2) ih
    · refine List.Pairwise.imp ?_ (List.nodup_range (n := n))
      intro a b hab x hx y hy e
      obtain ⟨x', _, rfl⟩ := List.mem_map.mp hx
      obtain ⟨y', _, rfl⟩ := List.mem_map.mp hy
      exact hab (List.cons.inj e).1

variable [Inhabited ν]

theorem keys_rootAlias (raw : String) (opt : ENode ν) :
    keys (rootAlias raw opt).layer = (grid opt.numblocks).map (blockKey raw) := by
  simp [rootAlias, keys, List.map_map, Function.comp_def]

theorem rootAlias_contract (raw : String) (opt : ENode ν) : LayerContract (rootAlias raw opt) := by
  constructor
  · intro i hi
    rw [keys_rootAlias]; exact List.mem_map.mpr ⟨i, hi, rfl⟩
  · intro p hp d hd
    right
    obtain ⟨i, hi, rfl⟩ := List.mem_map.mp hp
    have : d = blockKey opt.name i := by simpa [aliasTask] using hd
    subst this
    exact depGrid_mem (n := rootAlias raw opt) (dep := (opt.name, opt.numblocks)) List.mem_cons_self hi

theorem rootAlias_owned (raw : String) (opt : ENode ν) : OwnedLayer (rootAlias raw opt) := by
  constructor
  · rw [keys_rootAlias, List.nodup_iff_pairwise_ne, List.pairwise_map]
    exact List.Pairwise.imp (fun h e => h (by simpa [blockKey] using e)) (grid_nodup opt.numblocks)
  · intro k hk
    rw [keys_rootAlias] at hk
    obtain ⟨i, _, rfl⟩ := List.mem_map.mp hk
    rfl
  · intro k hk _
    rw [keys_rootAlias] at hk
    obtain ⟨i, hi, rfl⟩ := List.mem_map.mp hk
    exact hi

/-- a layer whose tasks only reference external keys is ordered by its key list -/
theorem topo_of_external {κ : Type} [DecidableEq κ] {l : Graph κ ν} {ext : List κ} (hwf : WF l)
    (hdeps : ∀ p ∈ l, ∀ d ∈ p.2.deps, d ∈ ext) (hnot : ∀ k ∈ keys l, k ∉ ext) :
    TopoFrom l ext (keys l) := by
  have key : ∀ (sub : Graph κ ν) (done : List κ), (∀ p ∈ sub, p ∈ l) → (keys sub).Nodup →
      (∀ x ∈ ext, x ∈ done) → (∀ k ∈ keys sub, k ∉ done) → TopoFrom l done (keys sub) := by
    intro sub
    induction sub with
    | nil => intro _ _ _ _ _; trivial
    | cons p rest ih =>
      intro done hsub hnd hext hno
      have hnd' : (p.1 :: keys rest).Nodup := hnd
      rw [List.nodup_cons] at hnd'
      refine ⟨hno p.1 List.mem_cons_self, ⟨p.2, hsub p List.mem_cons_self, fun d hd =>
        hext d (hdeps p (hsub p List.mem_cons_self) d hd)⟩, ?_⟩
      apply ih (p.1 :: done) (fun q hq => hsub q (List.mem_cons_of_mem _ hq)) hnd'.2
        (fun x hx => List.mem_cons_of_mem _ (hext x hx))
      intro k hk hkd
      rcases List.mem_cons.mp hkd with e | h
      · subst e; exact hnd'.1 hk
      · exact hno k (List.mem_cons_of_mem _ hk) h
  exact key l ext (fun p hp => hp) hwf (fun x hx => hx) hnot

theorem rootAlias_topo (raw : String) (opt : ENode ν) (hne : raw ≠ opt.name) :
    TopoFrom (rootAlias raw opt).layer (depGrid (rootAlias raw opt)) (keys (rootAlias raw opt).layer) := by
  apply topo_of_external (rootAlias_owned raw opt).nodup
  · intro p hp d hd
    obtain ⟨i, hi, rfl⟩ := List.mem_map.mp hp
    have : d = blockKey opt.name i := by simpa [aliasTask] using hd
    subst this
    exact depGrid_mem (n := rootAlias raw opt) (dep := (opt.name, opt.numblocks)) List.mem_cons_self hi
  · intro k hk hkd
    have h1 : k.owner = raw := (rootAlias_owned raw opt).owned k hk
    obtain ⟨dep, hdep, i, _, rfl⟩ := mem_depGrid hkd
    have : dep = (opt.name, opt.numblocks) := by simpa [rootAlias] using hdep
    subst this
    exact hne h1.symm

theorem DagFrom_append {pre a b : List (ENode ν)} (ha : DagFrom pre a) (hb : DagFrom (a.reverse ++ pre) b) :
    DagFrom pre (a ++ b) := by
  induction a generalizing pre with
  | nil => simpa using hb
  | cons x a ih =>
    obtain ⟨h1, h2, h3⟩ := ha
    refine ⟨h1, h2, ih h3 ?_⟩
    simpa [List.reverse_cons, List.append_assoc] using hb

theorem DagFrom_names_all {pre rest : List (ENode ν)} (h : DagFrom pre rest) :
    (rest.map (·.name)).Nodup := by
  induction rest generalizing pre with
  | nil => exact List.nodup_nil
  | cons a rest ih =>
    obtain ⟨_, _, h3⟩ := h
    rw [List.map_cons, List.nodup_cons]
    refine ⟨?_, ih h3⟩
    intro hmem
    obtain ⟨m, hm, hmn⟩ := List.mem_map.mp hmem
    exact DagFrom_names h3 m hm (by rw [hmn]; exact List.mem_cons_self)

/-- `_materialize`'s tail: when the optimized tree (in dependency order, root last) does not
contain the raw name (the embedded-root guard), appending the alias layer keeps the dependency
order with distinct names; the alias layer satisfies the contract and is internally ordered. -/
theorem materialize_ok {raw : String} {pre : List (ENode ν)} {root : ENode ν} {nodes : List (ENode ν)}
    (hm : materialize raw pre root = .ok nodes) (hd : DagFrom [] (pre ++ [root])) :
    DagFrom [] nodes ∧
    (nodes = pre ++ [root] ∧ root.name = raw ∨
      nodes = pre ++ [root, rootAlias raw root] ∧ raw ∉ (pre ++ [root]).map (·.name)) := by
  unfold materialize at hm
  by_cases h1 : root.name = raw
  · rw [if_pos h1] at hm
    have hm' : nodes = pre ++ [root] := by injection hm with h; exact h.symm
    subst hm'; exact ⟨hd, Or.inl ⟨rfl, h1⟩⟩
  · by_cases h2 : raw ∈ (pre ++ [root]).map (·.name)
    · rw [if_neg h1, if_pos h2] at hm; cases hm
    · rw [if_neg h1, if_neg h2] at hm
      have hm' : nodes = pre ++ [root, rootAlias raw root] := by
        injection hm with h; exact h.symm
      subst hm'
      refine ⟨?_, Or.inr ⟨rfl, h2⟩⟩
      have : pre ++ [root, rootAlias raw root] = (pre ++ [root]) ++ [rootAlias raw root] := by simp
      rw [this]
      apply DagFrom_append hd
      refine ⟨?_, ?_, trivial⟩
      · intro d hdm
        have : d = (root.name, root.numblocks) := by simpa [rootAlias] using hdm
        subst this
        exact ⟨root, by simp, rfl, rfl⟩
      · intro hmem
        apply h2
        obtain ⟨m, hm1, hm2⟩ := List.mem_map.mp hmem
        have hm3 : m ∈ pre ++ [root] := by
          have : m ∈ ([root] : List (ENode ν)).reverse ++ pre.reverse := by
            simpa [List.reverse_append] using hm1
          rcases List.mem_append.mp this with h | h
          · exact List.mem_append.mpr (Or.inr (List.mem_reverse.mp h))
          · exact List.mem_append.mpr (Or.inl (List.mem_reverse.mp h))
        exact List.mem_map.mpr ⟨m, hm3, hm2⟩

/-- the guard fires exactly when the raw name is embedded in the optimized tree -/
theorem materialize_error_iff (raw : String) (pre : List (ENode ν)) (root : ENode ν) :
    (∃ e, materialize raw pre root = .error e) ↔
      root.name ≠ raw ∧ raw ∈ (pre ++ [root]).map (·.name) := by
  unfold materialize
  by_cases h1 : root.name = raw
  · rw [if_pos h1]
    exact ⟨fun ⟨e, he⟩ => (by cases he), fun ⟨h, _⟩ => absurd h1 h⟩
  · by_cases h2 : raw ∈ (pre ++ [root]).map (·.name)
    · rw [if_neg h1, if_pos h2]
      exact ⟨fun _ => ⟨h1, h2⟩, fun _ => ⟨_, rfl⟩⟩
    · rw [if_neg h1, if_neg h2]
      exact ⟨fun ⟨e, he⟩ => (by cases he), fun ⟨_, h⟩ => absurd h h2⟩

theorem DagFrom_deps {pre rest : List (ENode ν)} (h : DagFrom pre rest) :
    ∀ n ∈ rest, ∀ d ∈ n.deps, ∃ m, (m ∈ pre ∨ m ∈ rest) ∧ m.name = d.1 ∧ m.numblocks = d.2 := by
  induction rest generalizing pre with
  | nil => intro n hn; cases hn
  | cons a rest ih =>
    intro n hn d hd
    obtain ⟨h1, _, h3⟩ := h
    rcases List.mem_cons.mp hn with e | hin
    · subst e
      obtain ⟨m, hm, hmm⟩ := h1 d hd
      exact ⟨m, Or.inl hm, hmm⟩
    · obtain ⟨m, hm, hmm⟩ := ih h3 n hin d hd
      rcases hm with hm | hm
      · rcases List.mem_cons.mp hm with e | hp
        · subst e; exact ⟨m, Or.inr List.mem_cons_self, hmm⟩
        · exact ⟨m, Or.inl hp, hmm⟩
      · exact ⟨m, Or.inr (List.mem_cons_of_mem _ hm), hmm⟩

theorem walkClosed_of_dag {nodes : List (ENode ν)} (h : DagFrom [] nodes) : WalkClosed nodes := by
  intro n hn d hd
  obtain ⟨m, hm, hmm⟩ := DagFrom_deps h n hn d hd
  rcases hm with hm | hm
  · cases hm
  · exact ⟨m, hm, hmm⟩

/-- THE MATERIALIZED GRAPH.  If every layer of the optimized tree (dependency order, root last)
satisfies the layer contract and is internally ordered, and `_materialize` does not raise, then the
merged graph including the `RootAlias` pin has distinct keys, is closed, has an explicit
topological order, and defines `raw × grid(numblocks root)`. -/
theorem materialized_graph {raw : String} {pre : List (ENode ν)} {root : ENode ν}
    {nodes : List (ENode ν)} (ord : ENode ν → List Key)
    (hm : materialize raw pre root = .ok nodes) (hd : DagFrom [] (pre ++ [root]))
    (hc : ∀ n ∈ pre ++ [root], LayerContract n ∧ OwnedLayer n)
    (hord : ∀ n ∈ pre ++ [root],
      TopoFrom n.layer (depGrid n) (ord n) ∧ ∀ k ∈ keys n.layer, k ∈ ord n) :
    WF (unionLayers nodes) ∧ closed (unionLayers nodes) ∧ acyclic (unionLayers nodes) ∧
    ∀ i ∈ grid root.numblocks, blockKey raw i ∈ keys (unionLayers nodes) := by
  obtain ⟨hd', hcase⟩ := materialize_ok hm hd
  rcases hcase with ⟨rfl, hname⟩ | ⟨rfl, hguard⟩
  · have hroot : root ∈ pre ++ [root] := by simp
    refine ⟨WF_unionLayers (fun n hn => (hc n hn).2.nodup),
      layers_closed (fun n hn => (hc n hn).1) (walkClosed_of_dag hd),
      ⟨_, union_acyclic ord hd hc hord⟩, ?_⟩
    intro i hi
    rw [← hname]
    exact root_keys hroot (hc root hroot).1 i hi
  · have hsplit : pre ++ [root, rootAlias raw root] = (pre ++ [root]) ++ [rootAlias raw root] := by simp
    have hmem : ∀ n ∈ pre ++ [root, rootAlias raw root], n ∈ pre ++ [root] ∨ n = rootAlias raw root := by
      intro n hn
      rw [hsplit] at hn
      rcases List.mem_append.mp hn with h | h
      · exact Or.inl h
      · exact Or.inr (List.mem_singleton.mp h)
    have hne : raw ≠ root.name := by
      intro e; apply hguard; rw [e]; exact List.mem_map.mpr ⟨root, by simp, rfl⟩
    have hc' : ∀ n ∈ pre ++ [root, rootAlias raw root], LayerContract n ∧ OwnedLayer n := by
      intro n hn
      rcases hmem n hn with h | h
      · exact hc n h
      · subst h; exact ⟨rootAlias_contract raw root, rootAlias_owned raw root⟩
    let ord' : ENode ν → List Key := fun n => if n.name = raw then keys n.layer else ord n
    have hord' : ∀ n ∈ pre ++ [root, rootAlias raw root],
        TopoFrom n.layer (depGrid n) (ord' n) ∧ ∀ k ∈ keys n.layer, k ∈ ord' n := by
      intro n hn
      rcases hmem n hn with h | h
      · have hn' : n.name ≠ raw := fun e => hguard (e ▸ List.mem_map.mpr ⟨n, h, rfl⟩)
        simp only [ord', if_neg hn']
        exact hord n h
      · subst h
        have : (rootAlias raw root).name = raw := rfl
        simp only [ord', if_pos this]
        exact ⟨rootAlias_topo raw root hne, fun k hk => hk⟩
    refine ⟨WF_unionLayers (fun n hn => (hc' n hn).2.nodup),
      layers_closed (fun n hn => (hc' n hn).1) (walkClosed_of_dag hd'),
      ⟨_, union_acyclic ord' hd' hc' hord'⟩, ?_⟩
    intro i hi
    have hin : rootAlias raw root ∈ pre ++ [root, rootAlias raw root] := by simp
    exact root_keys hin (rootAlias_contract raw root) i hi

end layers

/-! ## 4. The `_Flattener` model (C21) -/

section flat
variable {κ φ lit σ ν : Type} [DecidableEq σ]

mutual
theorem evalArg_congr (I : Interp φ lit ν) {e1 e2 : σ → Option ν} :
    ∀ (a : Arg σ lit), (∀ s ∈ argRefs a, e1 s = e2 s) → evalArg I e1 a = evalArg I e2 a
  | .ref s, h => by simp only [evalArg]; exact h s (by simp [argRefs])
  | .lit _, _ => by simp only [evalArg]
  | .list xs, h => by
    simp only [evalArg]; rw [evalArgL_congr I xs (by simpa [argRefs] using h)]
  | .tuple xs, h => by
    simp only [evalArg]; rw [evalArgL_congr I xs (by simpa [argRefs] using h)]
theorem evalArgL_congr (I : Interp φ lit ν) {e1 e2 : σ → Option ν} :
    ∀ (as : List (Arg σ lit)), (∀ s ∈ argRefsL as, e1 s = e2 s) → evalArgL I e1 as = evalArgL I e2 as
  | [], _ => by simp only [evalArgL]
  | a :: as, h => by
    simp only [evalArgL]
    rw [evalArg_congr I a (fun s hs => h s (by simp [argRefsL, hs])),
        evalArgL_congr I as (fun s hs => h s (by simp [argRefsL, hs]))]
end

mutual
theorem evalNode_congr (I : Interp φ lit ν) {e1 e2 : κ → Option ν} :
    ∀ (x : Node κ φ lit), (∀ k ∈ nodeRefs x, e1 k = e2 k) → evalNode I e1 x = evalNode I e2 x
  | .taskRef k, h => by simp only [evalNode]; exact h k (by simp [nodeRefs])
  | .alias k, h => by simp only [evalNode]; exact h k (by simp [nodeRefs])
  | .data _, _ => by simp only [evalNode]
  | .lit _, _ => by simp only [evalNode]
  | .list xs, h => by simp only [evalNode]; rw [evalArgs_congr I xs (by simpa [nodeRefs] using h)]
  | .tuple xs, h => by simp only [evalNode]; rw [evalArgs_congr I xs (by simpa [nodeRefs] using h)]
  | .plist xs, h => by simp only [evalNode]; rw [evalArgs_congr I xs (by simpa [nodeRefs] using h)]
  | .ptuple xs, h => by simp only [evalNode]; rw [evalArgs_congr I xs (by simpa [nodeRefs] using h)]
  | .task _ _ xs, h => by simp only [evalNode]; rw [evalArgs_congr I xs (by simpa [nodeRefs] using h)]
theorem evalArgs_congr (I : Interp φ lit ν) {e1 e2 : κ → Option ν} :
    ∀ (xs : Args κ φ lit), (∀ k ∈ argsRefs xs, e1 k = e2 k) → evalArgs I e1 xs = evalArgs I e2 xs
  | .nil, _ => by simp only [evalArgs]
  | .cons x xs, h => by
    simp only [evalArgs]
    rw [evalNode_congr I x (fun k hk => h k (by simp [argsRefs, hk])),
        evalArgs_congr I xs (fun k hk => h k (by simp [argsRefs, hk]))]
end

theorem runRecs_append (I : Interp φ lit ν) (a b : List (Rec σ φ lit)) (env : σ → Option ν) :
    runRecs I (a ++ b) env = runRecs I b (runRecs I a env) := by
  induction a generalizing env with
  | nil => rfl
  | cons r rs ih => simp only [List.cons_append, runRecs]; exact ih _

/-- records leave every key they do not define untouched -/
theorem runRecs_frame (I : Interp φ lit ν) (rs : List (Rec σ φ lit)) (env : σ → Option ν) (s : σ)
    (h : ∀ r ∈ rs, r.key ≠ s) : runRecs I rs env s = env s := by
  induction rs generalizing env with
  | nil => rfl
  | cons r rs ih =>
    simp only [runRecs]
    rw [ih _ (fun r' hr' => h r' (List.mem_cons_of_mem _ hr'))]
    have : s ≠ r.key := fun e => h r List.mem_cons_self e.symm
    simp [this]

theorem evalArgL_restrict (I : Interp φ lit ν) (env : σ → Option ν) (deps : List σ)
    (as : List (Arg σ lit)) (h : ∀ s ∈ argRefsL as, s ∈ deps) :
    evalArgL I (restrict env deps) as = evalArgL I env as :=
  evalArgL_congr I as (fun s hs => by simp [restrict, h s hs])

variable (cfg : FlatCfg κ σ) (parent : σ)

/-- `s` is one of the sub-keys numbered `lo+1 … hi` -/
def InSub (lo hi : Nat) (s : σ) : Prop := ∃ i, lo < i ∧ i ≤ hi ∧ s = cfg.subKey parent i

/-- bookkeeping invariant of `resolve` / `resolveArgs` started with counter `n` -/
structure Inv (refs : List κ) (n n' : Nat) (recs : List (Rec σ φ lit)) (ds aR : List σ) : Prop where
  le : n ≤ n'
  keys : ∀ r ∈ recs, InSub cfg parent n n' r.key
  arefs : ∀ s ∈ aR, s ∈ ds
  dsrc : ∀ s ∈ ds, (∃ k ∈ refs, s = cfg.render k) ∨ ∃ r ∈ recs, r.key = s
  rdeps : ∀ r ∈ recs, ∀ s ∈ r.deps, (∃ k ∈ refs, s = cfg.render k) ∨ ∃ r' ∈ recs, r'.key = s
  nodup : (recs.map (·.key)).Nodup

/-- no referenced outer key string is one of the sub-key strings numbered above `n` -/
def Sep (refs : List κ) (n : Nat) : Prop :=
  ∀ k ∈ refs, ∀ i, n < i → cfg.render k ≠ cfg.subKey parent i

variable {cfg parent}

theorem InSub.mono {lo hi lo' hi' : Nat} {s : σ} (h : InSub cfg parent lo hi s) (h1 : lo' ≤ lo)
    (h2 : hi ≤ hi') : InSub cfg parent lo' hi' s := by
  obtain ⟨i, a, b, c⟩ := h
  exact ⟨i, by omega, by omega, c⟩

theorem Sep.mono {refs refs' : List κ} {n n' : Nat} (h : Sep cfg parent refs n) (h1 : n ≤ n')
    (h2 : ∀ k ∈ refs', k ∈ refs) : Sep cfg parent refs' n' :=
  fun k hk i hi => h k (h2 k hk) i (by omega)

/-- running the new records does not disturb a referenced outer key -/
theorem runRecs_outer (I : Interp φ lit ν) {refs : List κ} {n n' : Nat} {recs : List (Rec σ φ lit)}
    (hk : ∀ r ∈ recs, InSub cfg parent n n' r.key) (hsep : Sep cfg parent refs n)
    (env : σ → Option ν) : ∀ k ∈ refs, runRecs I recs env (cfg.render k) = env (cfg.render k) := by
  intro k hkr
  apply runRecs_frame
  intro r hr e
  obtain ⟨i, hi, _, hs⟩ := hk r hr
  exact hsep k hkr i hi (e.symm.trans hs)

theorem map_opt_eq {α β : Type} (o : Option α) (g : α → β) :
    (match o with | none => none | some v => some (g v)) = o.map g := by
  cases o <;> rfl

section main
variable (I : Interp φ lit ν)
variable (hsd : ∀ (l : List σ) (x : σ), x ∈ cfg.sortDedup l ↔ x ∈ l)
variable (hinj : ∀ a b : Nat, cfg.subKey parent a = cfg.subKey parent b → a = b)
include hsd hinj

mutual
theorem resolve_inv : ∀ (x : Node κ φ lit) (n : Nat),
    Inv cfg parent (nodeRefs x) n (resolve cfg parent x n).2.1 (resolve cfg parent x n).2.2.1
      (resolve cfg parent x n).2.2.2 (argRefs (resolve cfg parent x n).1) ∧
    ∀ env : σ → Option ν, Sep cfg parent (nodeRefs x) n →
      evalArg I (runRecs I (resolve cfg parent x n).2.2.1 env) (resolve cfg parent x n).1
        = evalNode I (fun k => env (cfg.render k)) x
  | .taskRef k, n => by
    refine ⟨⟨Nat.le_refl _, ?_, ?_, ?_, ?_, ?_⟩, ?_⟩ <;> simp [resolve, argRefs, nodeRefs, runRecs, evalArg, evalNode]
  | .alias k, n => by
    refine ⟨⟨Nat.le_refl _, ?_, ?_, ?_, ?_, ?_⟩, ?_⟩ <;> simp [resolve, argRefs, nodeRefs, runRecs, evalArg, evalNode]
  | .data v, n => by
    refine ⟨⟨Nat.le_refl _, ?_, ?_, ?_, ?_, ?_⟩, ?_⟩ <;> simp [resolve, argRefs, nodeRefs, runRecs, evalArg, evalNode]
  | .lit v, n => by
    refine ⟨⟨Nat.le_refl _, ?_, ?_, ?_, ?_, ?_⟩, ?_⟩ <;> simp [resolve, argRefs, nodeRefs, runRecs, evalArg, evalNode]
  | .list xs, n => by
    obtain ⟨hi, he⟩ := resolveArgs_inv xs n
    refine ⟨?_, ?_⟩
    · simpa [resolve, argRefs, nodeRefs] using hi
    · intro env hsep
      simp only [resolve, evalArg, evalNode, nodeRefs] at hsep ⊢
      rw [he env hsep]
  | .tuple xs, n => by
    obtain ⟨hi, he⟩ := resolveArgs_inv xs n
    refine ⟨?_, ?_⟩
    · simpa [resolve, argRefs, nodeRefs] using hi
    · intro env hsep
      simp only [resolve, evalArg, evalNode, nodeRefs] at hsep ⊢
      rw [he env hsep]
  | .plist xs, n => by
    obtain ⟨hi, he⟩ := resolveArgs_inv xs n
    refine ⟨?_, ?_⟩
    · simpa [resolve, argRefs, nodeRefs] using hi
    · intro env hsep
      simp only [resolve, evalArg, evalNode, nodeRefs] at hsep ⊢
      rw [he env hsep]
  | .ptuple xs, n => by
    obtain ⟨hi, he⟩ := resolveArgs_inv xs n
    refine ⟨?_, ?_⟩
    · simpa [resolve, argRefs, nodeRefs] using hi
    · intro env hsep
      simp only [resolve, evalArg, evalNode, nodeRefs] at hsep ⊢
      rw [he env hsep]
  | .task f kw xs, n => by
    obtain ⟨hi, he⟩ := resolveArgs_inv xs (n + 1)
    simp only [resolve, nodeRefs, argRefs]
    generalize hr : resolveArgs cfg parent xs (n + 1) = r at hi he
    obtain ⟨as, n', recs, ds⟩ := r
    simp only at hi he ⊢
    have hsubnot : ∀ r ∈ recs, r.key ≠ cfg.subKey parent (n + 1) := by
      intro r hr e
      obtain ⟨i, h1, _, h3⟩ := hi.keys r hr
      have := hinj _ _ (e.symm.trans h3); omega
    refine ⟨⟨by have := hi.le; omega, ?_, ?_, ?_, ?_, ?_⟩, ?_⟩
    · intro r hr
      rcases List.mem_append.mp hr with h | h
      · exact (hi.keys r h).mono (by omega) (Nat.le_refl _)
      · have : r.key = cfg.subKey parent (n + 1) := by
          have := List.mem_singleton.mp h; subst this; rfl
        exact ⟨n + 1, by omega, hi.le, this⟩
    · intro s hs; exact hs
    · intro s hs
      have := List.mem_singleton.mp hs; subst this
      exact Or.inr ⟨_, List.mem_append.mpr (Or.inr List.mem_cons_self), rfl⟩
    · intro r hr s hs
      rcases List.mem_append.mp hr with h | h
      · rcases hi.rdeps r h s hs with h1 | ⟨r', hr', hk'⟩
        · exact Or.inl h1
        · exact Or.inr ⟨r', List.mem_append.mpr (Or.inl hr'), hk'⟩
      · have := List.mem_singleton.mp h; subst this
        have hs' : s ∈ ds := (hsd ds s).mp hs
        rcases hi.dsrc s hs' with h1 | ⟨r', hr', hk'⟩
        · exact Or.inl h1
        · exact Or.inr ⟨r', List.mem_append.mpr (Or.inl hr'), hk'⟩
    · rw [List.map_append, List.nodup_append]
      refine ⟨hi.nodup, by simp, ?_⟩
      intro a ha b hb e
      obtain ⟨r, hr, rfl⟩ := List.mem_map.mp ha
      have hb' : b = cfg.subKey parent (n + 1) := by simpa using hb
      exact hsubnot r hr (e.trans hb')
    · intro env hsep
      rw [runRecs_append]
      simp only [runRecs, evalArg, if_true, evalRec, evalNode]
      rw [evalArgL_restrict I _ _ as (fun s hs => (hsd ds s).mpr (hi.arefs s hs))]
      rw [he env (hsep.mono (by omega) (fun k hk => hk))]
      generalize evalArgs I (fun k => env (cfg.render k)) xs = o
      cases o <;> rfl
theorem resolveArgs_inv : ∀ (xs : Args κ φ lit) (n : Nat),
    Inv cfg parent (argsRefs xs) n (resolveArgs cfg parent xs n).2.1 (resolveArgs cfg parent xs n).2.2.1
      (resolveArgs cfg parent xs n).2.2.2 (argRefsL (resolveArgs cfg parent xs n).1) ∧
    ∀ env : σ → Option ν, Sep cfg parent (argsRefs xs) n →
      evalArgL I (runRecs I (resolveArgs cfg parent xs n).2.2.1 env) (resolveArgs cfg parent xs n).1
        = evalArgs I (fun k => env (cfg.render k)) xs
  | .nil, n => by
    refine ⟨⟨Nat.le_refl _, ?_, ?_, ?_, ?_, ?_⟩, ?_⟩ <;> simp [resolveArgs, argRefsL, argsRefs, runRecs, evalArgL, evalArgs]
  | .cons x xs, n => by
    obtain ⟨h1, e1⟩ := resolve_inv x n
    simp only [resolveArgs, argsRefs, argRefsL]
    generalize hr1 : resolve cfg parent x n = r1 at h1 e1
    obtain ⟨a1, n1, recs1, ds1⟩ := r1
    simp only at h1 e1 ⊢
    obtain ⟨h2, e2⟩ := resolveArgs_inv xs n1
    generalize hr2 : resolveArgs cfg parent xs n1 = r2 at h2 e2
    obtain ⟨as, n2, recs2, ds2⟩ := r2
    simp only at h2 e2 ⊢
    have hle1 := h1.le
    have hle2 := h2.le
    have hdisj : ∀ r1 ∈ recs1, ∀ r2 ∈ recs2, r1.key ≠ r2.key := by
      intro r1 hr1 r2 hr2 e
      obtain ⟨i, _, hi2, hi3⟩ := h1.keys r1 hr1
      obtain ⟨j, hj1, _, hj3⟩ := h2.keys r2 hr2
      have := hinj _ _ (hi3.symm.trans (e.trans hj3)); omega
    refine ⟨⟨by omega, ?_, ?_, ?_, ?_, ?_⟩, ?_⟩
    · intro r hr
      rcases List.mem_append.mp hr with h | h
      · exact (h1.keys r h).mono (Nat.le_refl _) hle2
      · exact (h2.keys r h).mono hle1 (Nat.le_refl _)
    · intro s hs
      rcases List.mem_append.mp hs with h | h
      · exact List.mem_append.mpr (Or.inl (h1.arefs s h))
      · exact List.mem_append.mpr (Or.inr (h2.arefs s h))
    · intro s hs
      rcases List.mem_append.mp hs with h | h
      · rcases h1.dsrc s h with ⟨k, hk, e⟩ | ⟨r, hr, e⟩
        · exact Or.inl ⟨k, List.mem_append.mpr (Or.inl hk), e⟩
        · exact Or.inr ⟨r, List.mem_append.mpr (Or.inl hr), e⟩
      · rcases h2.dsrc s h with ⟨k, hk, e⟩ | ⟨r, hr, e⟩
        · exact Or.inl ⟨k, List.mem_append.mpr (Or.inr hk), e⟩
        · exact Or.inr ⟨r, List.mem_append.mpr (Or.inr hr), e⟩
    · intro r hr s hs
      rcases List.mem_append.mp hr with h | h
      · rcases h1.rdeps r h s hs with ⟨k, hk, e⟩ | ⟨r', hr', e⟩
        · exact Or.inl ⟨k, List.mem_append.mpr (Or.inl hk), e⟩
        · exact Or.inr ⟨r', List.mem_append.mpr (Or.inl hr'), e⟩
      · rcases h2.rdeps r h s hs with ⟨k, hk, e⟩ | ⟨r', hr', e⟩
        · exact Or.inl ⟨k, List.mem_append.mpr (Or.inr hk), e⟩
        · exact Or.inr ⟨r', List.mem_append.mpr (Or.inr hr'), e⟩
    · rw [List.map_append, List.nodup_append]
      refine ⟨h1.nodup, h2.nodup, ?_⟩
      intro a ha b hb e
      obtain ⟨r1, hr1, rfl⟩ := List.mem_map.mp ha
      obtain ⟨r2, hr2, rfl⟩ := List.mem_map.mp hb
      exact hdisj r1 hr1 r2 hr2 e
    · intro env hsep
      have hsepx : Sep cfg parent (nodeRefs x) n := hsep.mono (Nat.le_refl _) (fun k hk => List.mem_append.mpr (Or.inl hk))
      have hsepxs : Sep cfg parent (argsRefs xs) n := hsep.mono (Nat.le_refl _) (fun k hk => List.mem_append.mpr (Or.inr hk))
      rw [runRecs_append]
      simp only [evalArgL, evalArgs]
      -- the tail: IH at the environment after the head's records
      have ht : evalArgL I (runRecs I recs2 (runRecs I recs1 env)) as
          = evalArgs I (fun k => env (cfg.render k)) xs := by
        rw [e2 (runRecs I recs1 env) (hsepxs.mono hle1 (fun k hk => hk))]
        apply evalArgs_congr
        intro k hk
        exact runRecs_outer I h1.keys hsepxs env k hk
      -- the head: its references are not touched by the tail's records
      have hh : evalArg I (runRecs I recs2 (runRecs I recs1 env)) a1
          = evalNode I (fun k => env (cfg.render k)) x := by
        rw [← e1 env hsepx]
        apply evalArg_congr
        intro s hs
        apply runRecs_frame
        intro r2 hr2 e
        obtain ⟨j, hj1, _, hj3⟩ := h2.keys r2 hr2
        rcases h1.dsrc s (h1.arefs s hs) with ⟨k, hk, rfl⟩ | ⟨r1, hr1, rfl⟩
        · exact hsepx k hk j (by omega) (e.symm.trans hj3)
        · exact hdisj r1 hr1 r2 hr2 e.symm
      rw [ht, hh]
end


omit hsd hinj in
theorem evalRec_ident (env : σ → Option ν) (k : σ) (kw : List String) (a : Arg σ lit) (deps : List σ) :
    evalRec I env ⟨k, .ident, kw, [a], deps⟩ = evalArg I (restrict env deps) a := by
  simp only [evalRec, evalArgL]
  cases evalArg I (restrict env deps) a <;> rfl

omit hsd hinj in
theorem run_main (extra : List (Rec σ φ lit)) (main : Rec σ φ lit) (env : σ → Option ν) :
    runRecs I (extra ++ [main]) env main.key = evalRec I (runRecs I extra env) main := by
  rw [runRecs_append]; simp [runRecs]

/-- the arguments resolved at top level evaluate, with only the declared dependencies visible,
to the values of the original nested arguments -/
theorem top_args_eval (xs : Args κ φ lit) (env : σ → Option ν) (hsep : Sep cfg parent (argsRefs xs) 0) :
    evalArgL I (restrict (runRecs I (resolveArgs cfg parent xs 0).2.2.1 env)
        (cfg.sortDedup (resolveArgs cfg parent xs 0).2.2.2)) (resolveArgs cfg parent xs 0).1
      = evalArgs I (fun k => env (cfg.render k)) xs := by
  obtain ⟨hi, he⟩ := resolveArgs_inv I hsd hinj xs 0
  rw [evalArgL_restrict I _ _ _ (fun s hs => (hsd _ s).mpr (hi.arefs s hs))]
  exact he env hsep

/-- EVALUATION: running the sub-records and then the node's own record stores under the node's
key the value `Task.__call__` computes for the nested node. -/
theorem records_eval (node : Node κ φ lit) (env : σ → Option ν)
    (hsep : Sep cfg parent (nodeRefs node) 0) :
    ∀ main extra, records cfg parent node = main :: extra →
      main.key = parent ∧
      runRecs I (extra ++ [main]) env parent = evalNode I (fun k => env (cfg.render k)) node := by
  intro main extra h
  cases node with
  | taskRef k =>
    simp only [records] at h
    obtain ⟨rfl, rfl⟩ := List.cons.inj h
    refine ⟨rfl, ?_⟩
    rw [show parent = (⟨parent, Fn.ident, [], [Arg.ref (cfg.render k)], [cfg.render k]⟩ : Rec σ φ lit).key from rfl,
      run_main, evalRec_ident]
    simp [evalArg, restrict, evalNode, runRecs]
  | alias k =>
    simp only [records] at h
    by_cases hk : cfg.render k = parent
    · rw [if_pos hk] at h; cases h
    · rw [if_neg hk] at h
      obtain ⟨rfl, rfl⟩ := List.cons.inj h
      refine ⟨rfl, ?_⟩
      rw [show parent = (⟨parent, Fn.ident, [], [Arg.ref (cfg.render k)], [cfg.render k]⟩ : Rec σ φ lit).key from rfl,
        run_main, evalRec_ident]
      simp [evalArg, restrict, evalNode, runRecs]
  | data v =>
    simp only [records] at h
    obtain ⟨rfl, rfl⟩ := List.cons.inj h
    refine ⟨rfl, ?_⟩
    rw [show parent = (⟨parent, Fn.ident, [], [Arg.lit v], []⟩ : Rec σ φ lit).key from rfl,
      run_main, evalRec_ident]
    simp [evalArg, evalNode]
  | lit v =>
    simp only [records] at h
    obtain ⟨rfl, rfl⟩ := List.cons.inj h
    refine ⟨rfl, ?_⟩
    rw [show parent = (⟨parent, Fn.ident, [], [Arg.lit v], []⟩ : Rec σ φ lit).key from rfl,
      run_main, evalRec_ident]
    simp [evalArg, evalNode]
  | list xs =>
    simp only [records] at h
    obtain ⟨rfl, rfl⟩ := List.cons.inj h
    refine ⟨rfl, ?_⟩
    have := top_args_eval I hsd hinj xs env (by simpa [nodeRefs] using hsep)
    rw [show parent = (⟨parent, Fn.ident, [], [Arg.list (resolveArgs cfg parent xs 0).1],
        cfg.sortDedup (resolveArgs cfg parent xs 0).2.2.2⟩ : Rec σ φ lit).key from rfl, run_main, evalRec_ident]
    simp only [evalArg, evalNode, this]
  | tuple xs =>
    simp only [records] at h
    obtain ⟨rfl, rfl⟩ := List.cons.inj h
    refine ⟨rfl, ?_⟩
    have := top_args_eval I hsd hinj xs env (by simpa [nodeRefs] using hsep)
    rw [show parent = (⟨parent, Fn.ident, [], [Arg.tuple (resolveArgs cfg parent xs 0).1],
        cfg.sortDedup (resolveArgs cfg parent xs 0).2.2.2⟩ : Rec σ φ lit).key from rfl, run_main, evalRec_ident]
    simp only [evalArg, evalNode, this]
  | plist xs =>
    simp only [records] at h
    obtain ⟨rfl, rfl⟩ := List.cons.inj h
    refine ⟨rfl, ?_⟩
    have := top_args_eval I hsd hinj xs env (by simpa [nodeRefs] using hsep)
    rw [show parent = (⟨parent, Fn.ident, [], [Arg.list (resolveArgs cfg parent xs 0).1],
        cfg.sortDedup (resolveArgs cfg parent xs 0).2.2.2⟩ : Rec σ φ lit).key from rfl, run_main, evalRec_ident]
    simp only [evalArg, evalNode, this]
  | ptuple xs =>
    simp only [records] at h
    obtain ⟨rfl, rfl⟩ := List.cons.inj h
    refine ⟨rfl, ?_⟩
    have := top_args_eval I hsd hinj xs env (by simpa [nodeRefs] using hsep)
    rw [show parent = (⟨parent, Fn.ident, [], [Arg.tuple (resolveArgs cfg parent xs 0).1],
        cfg.sortDedup (resolveArgs cfg parent xs 0).2.2.2⟩ : Rec σ φ lit).key from rfl, run_main, evalRec_ident]
    simp only [evalArg, evalNode, this]
  | task f kw xs =>
    simp only [records] at h
    obtain ⟨rfl, rfl⟩ := List.cons.inj h
    refine ⟨rfl, ?_⟩
    have := top_args_eval I hsd hinj xs env (by simpa [nodeRefs] using hsep)
    rw [show parent = (⟨parent, Fn.fn f, kw, (resolveArgs cfg parent xs 0).1,
        cfg.sortDedup (resolveArgs cfg parent xs 0).2.2.2⟩ : Rec σ φ lit).key from rfl, run_main]
    simp only [evalRec, evalNode, this]
    generalize evalArgs I (fun k => env (cfg.render k)) xs = o
    cases o <;> rfl

omit I in
/-- FRESHNESS and COMPLETENESS: the generated sub-keys are pairwise distinct `subKey parent i`
(`i ≥ 1`); every dependency string of every record names an outer key referenced by the node or a
generated sub-record. -/
theorem records_complete (node : Node κ φ lit) :
    ∀ main extra, records cfg parent node = main :: extra →
      (extra.map (·.key)).Nodup ∧
      (∀ r ∈ extra, ∃ i, 1 ≤ i ∧ r.key = cfg.subKey parent i) ∧
      (∀ r ∈ main :: extra, ∀ s ∈ r.deps,
        (∃ k ∈ nodeRefs node, s = cfg.render k) ∨ ∃ r' ∈ extra, r'.key = s) := by
  intro main extra h
  have I0 : Interp φ lit Unit := ⟨fun _ => (), fun _ => (), fun _ => (), fun _ _ _ => ()⟩
  have key : ∀ (xs : Args κ φ lit) (func : Fn φ) (kw : List String) (args : List (Arg σ lit)),
      argsRefs xs = nodeRefs node →
      main = ⟨parent, func, kw, args, cfg.sortDedup (resolveArgs cfg parent xs 0).2.2.2⟩ →
      extra = (resolveArgs cfg parent xs 0).2.2.1 →
      (extra.map (·.key)).Nodup ∧
      (∀ r ∈ extra, ∃ i, 1 ≤ i ∧ r.key = cfg.subKey parent i) ∧
      (∀ r ∈ main :: extra, ∀ s ∈ r.deps,
        (∃ k ∈ nodeRefs node, s = cfg.render k) ∨ ∃ r' ∈ extra, r'.key = s) := by
    intro xs func kw args hrefs hmain hextra
    obtain ⟨hi, _⟩ := resolveArgs_inv I0 hsd hinj xs 0
    subst hmain hextra
    rw [hrefs] at hi
    refine ⟨hi.nodup, ?_, ?_⟩
    · intro r hr
      obtain ⟨i, h1, _, h3⟩ := hi.keys r hr
      exact ⟨i, h1, h3⟩
    · intro r hr s hs
      rcases List.mem_cons.mp hr with e | hin
      · subst e
        exact hi.dsrc s ((hsd _ s).mp hs)
      · exact hi.rdeps r hin s hs
  cases node with
  | taskRef k =>
    simp only [records] at h
    obtain ⟨rfl, rfl⟩ := List.cons.inj h
    simp [nodeRefs]
  | alias k =>
    simp only [records] at h
    by_cases hk : cfg.render k = parent
    · rw [if_pos hk] at h; cases h
    · rw [if_neg hk] at h
      obtain ⟨rfl, rfl⟩ := List.cons.inj h
      simp [nodeRefs]
  | data v =>
    simp only [records] at h
    obtain ⟨rfl, rfl⟩ := List.cons.inj h
    simp
  | lit v =>
    simp only [records] at h
    obtain ⟨rfl, rfl⟩ := List.cons.inj h
    simp
  | list xs =>
    simp only [records] at h
    obtain ⟨h1, h2⟩ := List.cons.inj h
    exact key xs _ _ _ (by simp [nodeRefs]) h1.symm h2.symm
  | tuple xs =>
    simp only [records] at h
    obtain ⟨h1, h2⟩ := List.cons.inj h
    exact key xs _ _ _ (by simp [nodeRefs]) h1.symm h2.symm
  | plist xs =>
    simp only [records] at h
    obtain ⟨h1, h2⟩ := List.cons.inj h
    exact key xs _ _ _ (by simp [nodeRefs]) h1.symm h2.symm
  | ptuple xs =>
    simp only [records] at h
    obtain ⟨h1, h2⟩ := List.cons.inj h
    exact key xs _ _ _ (by simp [nodeRefs]) h1.symm h2.symm
  | task f kw xs =>
    simp only [records] at h
    obtain ⟨h1, h2⟩ := List.cons.inj h
    exact key xs _ _ _ (by simp [nodeRefs]) h1.symm h2.symm

end main

end flat

section sorting
variable {σ : Type} [DecidableEq σ]

theorem mem_insertSorted (lt : σ → σ → Bool) (x y : σ) (l : List σ) :
    y ∈ insertSorted lt x l ↔ y = x ∨ y ∈ l := by
  induction l with
  | nil => simp [insertSorted]
  | cons z zs ih =>
    simp only [insertSorted]
    by_cases h1 : lt x z
    · simp [h1]
    · by_cases h2 : x = z
      · subst h2; simp [h1]
      · simp only [h1, h2, if_false, Bool.false_eq_true, List.mem_cons, ih]
        constructor
        · rintro (h | h | h)
          · exact Or.inr (Or.inl h)
          · exact Or.inl h
          · exact Or.inr (Or.inr h)
        · rintro (h | h | h)
          · exact Or.inr (Or.inl h)
          · exact Or.inl h
          · exact Or.inr (Or.inr h)

/-- `sorted(set(l))` has exactly the elements of `l` -/
theorem mem_sortDedupBy (lt : σ → σ → Bool) (l : List σ) (x : σ) : x ∈ sortDedupBy lt l ↔ x ∈ l := by
  induction l with
  | nil => simp [sortDedupBy]
  | cons y ys ih =>
    have : sortDedupBy lt (y :: ys) = insertSorted lt y (sortDedupBy lt ys) := rfl
    rw [this, mem_insertSorted, ih]; simp

end sorting

/-! ## 5. The shared-`seen` walk (C21) -/

section walk
variable {α β : Type} [DecidableEq β]

theorem walk_spec (nm : α → β) (deps : α → List α) :
    ∀ (fuel : Nat) (stack : List α) (seen : List β) (out : List α) (seen' : List β) (out' : List α),
      walk nm deps fuel stack seen out = some (seen', out') →
      (∀ e ∈ out, ∀ d ∈ deps e, nm d ∈ seen ∨ d ∈ stack) →
      NameClosed nm deps out' seen' ∧ (∀ e ∈ stack, nm e ∈ seen') ∧
      ∃ new, out' = out ++ new ∧ (new.map nm).Nodup ∧ (∀ e ∈ new, nm e ∉ seen) ∧
        (∀ b, b ∈ seen' ↔ b ∈ seen ∨ b ∈ new.map nm) := by
  intro fuel
  induction fuel with
  | zero =>
    intro stack seen out seen' out' h hinv
    cases stack with
    | nil =>
      simp only [walk] at h
      obtain ⟨rfl, rfl⟩ := Prod.mk.inj (Option.some.inj h)
      refine ⟨?_, fun e he => (by cases he), [], (by simp), List.nodup_nil, fun e he => (by cases he), (by simp)⟩
      intro e he d hd
      rcases hinv e he d hd with h1 | h1
      · exact h1
      · cases h1
    | cons e stack => simp [walk] at h
  | succ f ih =>
    intro stack seen out seen' out' h hinv
    cases stack with
    | nil =>
      simp only [walk] at h
      obtain ⟨rfl, rfl⟩ := Prod.mk.inj (Option.some.inj h)
      refine ⟨?_, fun e he => (by cases he), [], (by simp), List.nodup_nil, fun e he => (by cases he), (by simp)⟩
      intro e he d hd
      rcases hinv e he d hd with h1 | h1
      · exact h1
      · cases h1
    | cons e stack =>
      simp only [walk] at h
      by_cases hes : nm e ∈ seen
      · rw [if_pos hes] at h
        obtain ⟨hc, hst, new, h1, h2, h3, h4⟩ := ih stack seen out seen' out' h (by
          intro x hx d hd
          rcases hinv x hx d hd with h1 | h1
          · exact Or.inl h1
          · rcases List.mem_cons.mp h1 with e1 | e1
            · subst e1; exact Or.inl hes
            · exact Or.inr e1)
        refine ⟨hc, ?_, new, h1, h2, h3, h4⟩
        intro x hx
        rcases List.mem_cons.mp hx with e1 | e1
        · subst e1; exact (h4 _).mpr (Or.inl hes)
        · exact hst x e1
      · rw [if_neg hes] at h
        obtain ⟨hc, hst, new, h1, h2, h3, h4⟩ := ih ((deps e).reverse ++ stack) (nm e :: seen) (out ++ [e]) seen' out' h (by
          intro x hx d hd
          rcases List.mem_append.mp hx with e1 | e1
          · rcases hinv x e1 d hd with h1 | h1
            · exact Or.inl (List.mem_cons_of_mem _ h1)
            · rcases List.mem_cons.mp h1 with e2 | e2
              · subst e2; exact Or.inl List.mem_cons_self
              · exact Or.inr (List.mem_append.mpr (Or.inr e2))
          · have := List.mem_singleton.mp e1; subst this
            exact Or.inr (List.mem_append.mpr (Or.inl (List.mem_reverse.mpr hd))))
        refine ⟨hc, ?_, e :: new, ?_, ?_, ?_, ?_⟩
        · intro x hx
          rcases List.mem_cons.mp hx with e1 | e1
          · subst e1; exact (h4 _).mpr (Or.inl List.mem_cons_self)
          · exact hst x (List.mem_append.mpr (Or.inr e1))
        · rw [h1]; simp
        · rw [List.map_cons, List.nodup_cons]
          refine ⟨?_, h2⟩
          intro hn
          obtain ⟨y, hy, hye⟩ := List.mem_map.mp hn
          exact h3 y hy (hye ▸ List.mem_cons_self)
        · intro x hx
          rcases List.mem_cons.mp hx with e1 | e1
          · subst e1; exact hes
          · exact fun hs => h3 x e1 (List.mem_cons_of_mem _ hs)
        · intro b
          rw [h4 b, List.map_cons]
          constructor
          · rintro (h5 | h5)
            · rcases List.mem_cons.mp h5 with e1 | e1
              · subst e1; exact Or.inr List.mem_cons_self
              · exact Or.inl e1
            · exact Or.inr (List.mem_cons_of_mem _ h5)
          · rintro (h5 | h5)
            · exact Or.inl (List.mem_cons_of_mem _ h5)
            · rcases List.mem_cons.mp h5 with e1 | e1
              · subst e1; exact Or.inl List.mem_cons_self
              · exact Or.inr e1

theorem walkAll_spec (nm : α → β) (deps : α → List α) (fuel : Nat) :
    ∀ (roots : List α) (seen : List β) (out : List α) (seen' : List β) (out' : List α),
      walkAll nm deps fuel roots seen out = some (seen', out') → NameClosed nm deps out seen →
      NameClosed nm deps out' seen' ∧ (∀ r ∈ roots, nm r ∈ seen') ∧
      ∃ new, out' = out ++ new ∧ (new.map nm).Nodup ∧ (∀ e ∈ new, nm e ∉ seen) ∧
        (∀ b, b ∈ seen' ↔ b ∈ seen ∨ b ∈ new.map nm) := by
  intro roots
  induction roots with
  | nil =>
    intro seen out seen' out' h hc
    simp only [walkAll] at h
    obtain ⟨rfl, rfl⟩ := Prod.mk.inj (Option.some.inj h)
    exact ⟨hc, fun r hr => (by cases hr), [], (by simp), List.nodup_nil, fun e he => (by cases he), (by simp)⟩
  | cons r roots ih =>
    intro seen out seen' out' h hc
    simp only [walkAll] at h
    cases hw : walk nm deps fuel [r] seen out with
    | none => simp [hw] at h
    | some p =>
      obtain ⟨seen1, out1⟩ := p
      simp only [hw] at h
      obtain ⟨hc1, hst1, new1, a1, a2, a3, a4⟩ := walk_spec nm deps fuel [r] seen out seen1 out1 hw
        (fun e he d hd => Or.inl (hc e he d hd))
      obtain ⟨hc2, hr2, new2, b1, b2, b3, b4⟩ := ih seen1 out1 seen' out' h hc1
      refine ⟨hc2, ?_, new1 ++ new2, ?_, ?_, ?_, ?_⟩
      · intro x hx
        rcases List.mem_cons.mp hx with e1 | e1
        · subst e1; exact (b4 _).mpr (Or.inl (hst1 x List.mem_cons_self))
        · exact hr2 x e1
      · rw [b1, a1, List.append_assoc]
      · rw [List.map_append, List.nodup_append]
        refine ⟨a2, b2, ?_⟩
        intro x hx y hy e
        obtain ⟨y', hy', rfl⟩ := List.mem_map.mp hy
        exact b3 y' hy' ((a4 _).mpr (Or.inr (e ▸ hx)))
      · intro x hx
        rcases List.mem_append.mp hx with e1 | e1
        · exact a3 x e1
        · exact fun hs => b3 x e1 ((a4 _).mpr (Or.inl hs))
      · intro b
        rw [b4 b, a4 b, List.map_append, List.mem_append]
        constructor
        · rintro ((h5 | h5) | h5)
          · exact Or.inl h5
          · exact Or.inr (Or.inl h5)
          · exact Or.inr (Or.inr h5)
        · rintro (h5 | h5 | h5)
          · exact Or.inl (Or.inl h5)
          · exact Or.inl (Or.inr h5)
          · exact Or.inr h5

/-- per-layer completeness (a layer's records reference its own keys or the block grid of a
dependency's NAME), every node produces the grid of its name, every dependency of an emitted node
has the name of an emitted node ⇒ `_check_complete` holds for the union of the emitted layers -/
theorem union_complete {σ : Type} (nm : α → β) (deps : α → List α) (keysOf depsOf : α → List σ)
    (gridOf : β → List σ)
    (hlayer : ∀ e, ∀ s ∈ depsOf e, s ∈ keysOf e ∨ ∃ d ∈ deps e, s ∈ gridOf (nm d))
    (hprod : ∀ e, ∀ s ∈ gridOf (nm e), s ∈ keysOf e)
    {out : List α} (hc : ∀ e ∈ out, ∀ d ∈ deps e, nm d ∈ out.map nm) :
    ∀ e ∈ out, ∀ s ∈ depsOf e, ∃ e' ∈ out, s ∈ keysOf e' := by
  intro e he s hs
  rcases hlayer e s hs with h | ⟨d, hd, h⟩
  · exact ⟨e, he, h⟩
  · obtain ⟨e', he', hn⟩ := List.mem_map.mp (hc e he d hd)
    exact ⟨e', he', hprod e' s (hn ▸ h)⟩

end walk

end Dask.Lemmas.Graph
