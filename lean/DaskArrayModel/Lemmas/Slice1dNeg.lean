/-
Negative-step half of the `_slice_1d` partition theorem: final statements.
(`Slice1dNegRange`: arithmetic of descending ranges; `Slice1dNegLoop`: the loop lemma.)
-/
import DaskArrayModel.Model.SliceSpec
import DaskArrayModel.Lemmas.Slice1dNegLoop
namespace Dask.Lemmas.Slice1dNeg
open Dask.Py Dask.Py.PySlice Dask.Slicing

/-! ### unfolding `slice1d` on a negative-step index -/

/-- the blocks visited by the `step < 0` branch, in visiting (descending) order. -/
def visitedOf (L : List Int) (S E : Int) : List (Nat × Int × Int) :=
  ((blockTriples L).filter (fun t =>
    decide (max ((bisectRight (cumsum L) E : Int) - 1) (-1) < (t.1 : Int)) &&
    decide ((t.1 : Int) ≤ min ((bisectRight (cumsum L) S : Int) + 1) (((cumsum L).length : Int) - 1)))).reverse

/-- global start computed by the `step < 0` branch. -/
def negStart (n : Int) (a : Option Int) : Int :=
  let s0 := match a with | none => n - 1 | some a => a
  let s1 := if s0 ≥ n then n - 1 else s0
  if s1 < 0 then s1 + n else s1

/-- global (exclusive) stop computed by the `step < 0` branch. -/
def negStop (n : Int) (b : Option Int) : Int :=
  let e0 := match b with | none => -(n + 1) | some b => b
  if e0 < 0 then e0 + n else e0

theorem slice1d_neg_unfold (n : Int) (L : List Int) (a b : Option Int) (c : Int) (hc : c < 0) :
    slice1d n L ⟨a, b, some c⟩ =
      finish L (loopNeg c (negStop n b) (visitedOf L (negStart n a) (negStop n b)) (negStart n a)) := by
  unfold slice1d
  have h0 : (⟨a, b, some c⟩ : PySlice) ≠ colon := by simp [colon]
  have hc0 : c ≠ 0 := by omega
  simp only [h0, if_false]
  split
  · omega
  · rfl

theorem negStart_none (n : Int) (hn : 0 ≤ n) : negStart n none = n - 1 := by
  simp only [negStart]; split <;> split <;> omega

theorem negStart_some (n a : Int) (h0 : 0 ≤ a) (h1 : a ≤ n - 1) : negStart n (some a) = a := by
  simp only [negStart]; split <;> split <;> omega

theorem negStop_none (n : Int) (hn : 0 ≤ n) : negStop n none = -1 := by
  simp only [negStop]; split <;> omega

theorem negStop_some (n b : Int) (h0 : 0 ≤ b) : negStop n (some b) = b := by
  simp only [negStop]; split <;> omega

/-! ### clamp lemmas for `slice.indices` with a negative step -/

theorem step_eq_some (s : PySlice) (hs : s.stp < 0) : s.step = some s.stp := by
  unfold PySlice.stp at *
  cases h : s.step with
  | none => simp [h] at hs
  | some v => simp

theorem istart_neg_bounds (s : PySlice) (n : Int) (hs : s.stp < 0) (hn : 0 ≤ n) :
    -1 ≤ s.istart n ∧ s.istart n ≤ n - 1 := by
  unfold PySlice.istart
  cases s.start with
  | none => simp only [hs, if_true]; omega
  | some v =>
    simp only [adjust, hs, decide_true, if_true]
    split <;> split <;> omega

theorem istop_neg_bounds (s : PySlice) (n : Int) (hs : s.stp < 0) (hn : 0 ≤ n) :
    -1 ≤ s.istop n ∧ s.istop n ≤ n - 1 := by
  unfold PySlice.istop
  cases s.stop with
  | none => simp only [hs, if_true]; omega
  | some v =>
    simp only [adjust, hs, decide_true, if_true]
    split <;> split <;> omega

theorem isum_nonneg (L : List Int) (hl : ∀ c ∈ L, 0 ≤ c) : 0 ≤ isum L := by
  induction L with
  | nil => simp [isum]
  | cons x xs ih =>
    have := hl x (by simp)
    have := ih (fun c hc => hl c (List.mem_cons_of_mem _ hc))
    simp only [isum]; omega

/-- normal form of `normalize_slice` for a negative step, as seen by `_slice_1d`. -/
theorem normalize_neg (s : PySlice) (n : Int) (hs : s.stp < 0) (hn : 0 ≤ n) :
    ∃ a b, normalizeSlice s n = ⟨a, b, some s.stp⟩ ∧ negStart n a < n ∧ -1 ≤ negStop n b ∧
      rangeList (negStart n a) (negStop n b) s.stp = sel s n := by
  have hS := istart_neg_bounds s n hs hn
  have hE := istop_neg_bounds s n hs hn
  have hnp : ¬ s.stp > 0 := by omega
  unfold normalizeSlice
  simp only [hnp, hs, if_true, if_false]
  have hsel : sel s n = rangeList (s.istart n) (s.istop n) s.stp := rfl
  by_cases h1 : s.istart n ≥ n - 1
  · simp only [h1, if_true]
    by_cases h2 : s.istop n < 0
    · refine ⟨none, none, by simp [h2], ?_, ?_, ?_⟩
      · rw [negStart_none n hn]; omega
      · rw [negStop_none n hn]; omega
      · rw [negStart_none n hn, negStop_none n hn, hsel]; congr 1 <;> omega
    · refine ⟨none, some (s.istop n), by simp [h2], ?_, ?_, ?_⟩
      · rw [negStart_none n hn]; omega
      · rw [negStop_some _ _ (by omega)]; omega
      · rw [negStart_none n hn, negStop_some _ _ (by omega), hsel]; congr 1; omega
  · simp only [h1, if_false]
    by_cases h3 : s.istart n < 0
    · refine ⟨some 0, some 0, by simp [h3], ?_, ?_, ?_⟩
      · rw [negStart_some n 0 (by omega) (by omega)]; omega
      · rw [negStop_some _ _ (by omega)]; omega
      · rw [negStart_some n 0 (by omega) (by omega), negStop_some _ _ (by omega), hsel,
          rangeList_neg_nil _ _ _ hs (by omega), rangeList_neg_nil _ _ _ hs (by omega)]
    · simp only [h3, if_false]
      by_cases h2 : s.istop n < 0
      · refine ⟨some (s.istart n), none, by simp [h2], ?_, ?_, ?_⟩
        · rw [negStart_some n _ (by omega) (by omega)]; omega
        · rw [negStop_none n hn]; omega
        · rw [negStart_some n _ (by omega) (by omega), negStop_none n hn, hsel]; congr 1; omega
      · refine ⟨some (s.istart n), some (s.istop n), by simp [h2], ?_, ?_, ?_⟩
        · rw [negStart_some n _ (by omega) (by omega)]; omega
        · rw [negStop_some _ _ (by omega)]; omega
        · rw [negStart_some n _ (by omega) (by omega), negStop_some _ _ (by omega), hsel]

/-! ### visited blocks vs. all blocks -/

theorem loopNeg_visited (L : List Int) (hl : ∀ c ∈ L, 0 ≤ c) (c E S : Int) (hc : c < 0) :
    loopNeg c E (visitedOf L S E) S = loopNeg c E (blockTriples L).reverse S := by
  unfold visitedOf
  rw [← List.filter_reverse]
  apply loopNeg_filter c E S hc _ _ _ S (Int.le_refl _)
  intro t ht hP
  rw [List.mem_reverse] at ht
  unfold blockTriples at ht
  have hb := blockTriplesFrom_mem_bounds 0 0 L hl t ht
  have h1 := blockTriplesFrom_lt_bisectRight 0 0 L hl E t ht
  have h2 := blockTriplesFrom_le_bisectRight 0 0 L hl S t ht
  have hlen := cumsumFrom_length 0 L
  unfold cumsum at hP
  rw [hlen] at hP
  by_cases hA : max ((bisectRight (cumsumFrom 0 L) E : Int) - 1) (-1) < (t.1 : Int)
  · by_cases hB : (t.1 : Int) ≤ min ((bisectRight (cumsumFrom 0 L) S : Int) + 1) ((L.length : Int) - 1)
    · simp [hA, hB] at hP
    · left
      apply Int.lt_of_not_ge
      intro hle
      have := h2 hle
      omega
  · right
    have : t.2.2 ≤ E := h1.mp (by omega)
    omega

/-! ### `finish` and `sortByKey` on a negative-step plan -/

theorem finish_of_step (L : List Int) (d : List (Nat × PySlice)) (c : Int) (hc : c < 0)
    (hd : ∀ p ∈ d, p.2.step = some c) :
    finish L d = if d.isEmpty then [(0, ⟨some 0, some 0, some 1⟩)] else d := by
  unfold finish
  have key : d.map (fun ((k, v) : Nat × PySlice) =>
      if v = ⟨some 0, some (L.getD k 0), some 1⟩ then (k, colon) else (k, v)) = d := by
    conv => rhs; rw [← List.map_id d]
    apply List.map_congr_left
    intro p hp
    obtain ⟨k, v⟩ := p
    have h := hd _ hp
    have hne : v ≠ ⟨some 0, some (L.getD k 0), some 1⟩ := by
      intro e; rw [e] at h; simp at h; omega
    show (if v = ⟨some 0, some (L.getD k 0), some 1⟩ then (k, colon) else (k, v)) = id (k, v)
    rw [if_neg hne]; rfl
  simp only [key]

theorem insertByKey_append (p : Nat × PySlice) (l : List (Nat × PySlice))
    (h : ∀ q ∈ l, q.1 < p.1) : insertByKey p l = l ++ [p] := by
  induction l with
  | nil => simp [insertByKey]
  | cons q qs ih =>
    have h1 : ¬ p.1 ≤ q.1 := by have := h q (by simp); omega
    simp only [insertByKey, h1, if_false, List.cons_append]
    rw [ih (fun x hx => h x (List.mem_cons_of_mem _ hx))]

theorem sortByKey_desc (l : List (Nat × PySlice))
    (h : List.Pairwise (· > ·) (l.map (·.1))) : sortByKey l = l.reverse := by
  induction l with
  | nil => simp [sortByKey]
  | cons p ps ih =>
    simp only [List.map_cons, List.pairwise_cons, List.mem_map] at h
    have ih' := ih h.2
    unfold sortByKey at ih' ⊢
    simp only [List.foldr_cons, ih', List.reverse_cons]
    apply insertByKey_append
    intro q hq
    rw [List.mem_reverse] at hq
    exact h.1 q.1 ⟨q, hq, rfl⟩

/-! ### validity of block triples -/

theorem descT_valid (L : List Int) :
    ∀ m, m ≤ L.length → ∀ t ∈ descT L m,
      t.1 < m ∧ t.2.1 = blockStart L t.1 ∧ t.2.2 = t.2.1 + L.getD t.1 0 := by
  intro m
  induction m with
  | zero => intro _ t ht; simp [descT_zero] at ht
  | succ m ih =>
    intro hm t ht
    have hm' : m < L.length := by omega
    rw [descT_succ L m hm', List.mem_cons] at ht
    rcases ht with rfl | ht
    · simp [List.getD_eq_getElem?_getD, hm']
    · have := ih (by omega) t ht
      omega

theorem isum_planLengths (L : List Int) (d : List (Nat × PySlice)) :
    isum (planLengths L d) = ((planPositions L d).length : Int) := by
  induction d with
  | nil => simp [planLengths, planPositions, isum]
  | cons p ps ih =>
    rw [planPositions_cons]
    simp only [planLengths, List.map_cons, isum, List.length_append, List.length_map,
      Int.natCast_add] at ih ⊢
    rw [ih]

/-! ### the plan -/

/-- Everything the three theorems need about the negative-step plan. -/
theorem plan_neg (L : List Int) (s : PySlice) (hl : ∀ c ∈ L, 0 ≤ c) (hs : s.stp < 0) :
    ∃ (a b : Option Int) (d : List (Nat × PySlice)),
      normalizeSlice s (isum L) = ⟨a, b, some s.stp⟩ ∧
      slice1d (isum L) L (normalizeSlice s (isum L))
        = (if d.isEmpty then [(0, ⟨some 0, some 0, some 1⟩)] else d) ∧
      planPositions L d = sel s (isum L) ∧
      List.Pairwise (· > ·) (d.map (·.1)) ∧
      (∀ p ∈ d, p.1 < L.length) ∧
      (∀ p ∈ d, p.2.step = some s.stp ∧
        ceilDiv (p.2.stop.getD 0 - p.2.start.getD 0) s.stp
          = ((sel p.2 (L.getD p.1 0)).length : Int)) := by
  have hn := isum_nonneg L hl
  obtain ⟨a, b, hnorm, hS, hE, hsel⟩ := normalize_neg s (isum L) hs hn
  generalize hSd : negStart (isum L) a = S at hS hsel
  generalize hEd : negStop (isum L) b = E at hE hsel
  have hmem := loopNeg_mem s.stp E (blockTriples L).reverse S
  have hsub := loopNeg_keys_sublist s.stp E (blockTriples L).reverse S
  have hpos := loopNeg_positions L s.stp E hs hE L.length (Nat.le_refl _) S
    (by simpa [blockStart] using hS)
  rw [descT_length] at hpos
  have hvalid := descT_valid L L.length (Nat.le_refl _)
  rw [descT_length] at hvalid
  generalize hd : loopNeg s.stp E (blockTriples L).reverse S = d at hmem hsub hpos
  have hstep : ∀ p ∈ d, p.2.step = some s.stp := by
    intro p hp
    obtain ⟨a', b', r0, _, _, _, _, h⟩ := hmem p hp
    rw [h]
  refine ⟨a, b, d, hnorm, ?_, ?_, ?_, ?_, ?_⟩
  · rw [hnorm, slice1d_neg_unfold _ _ _ _ _ hs, hSd, hEd, loopNeg_visited L hl _ _ _ hs, hd,
      finish_of_step L d s.stp hs hstep]
  · rw [hpos, hsel]
  · have hp := (blockTriplesFrom_keys_pairwise 0 0 L).1
    have : List.Pairwise (· > ·) ((blockTriples L).reverse.map (·.1)) := by
      rw [List.map_reverse, List.pairwise_reverse]
      exact hp
    exact List.Pairwise.sublist hsub this
  · intro p hp
    obtain ⟨a', b', r0, hin, _⟩ := hmem p hp
    exact (hvalid _ hin).1
  · intro p hp
    refine ⟨hstep p hp, ?_⟩
    obtain ⟨a', b', r0, hin, h1, h2, h3, h⟩ := hmem p hp
    have hv := hvalid _ hin
    have hlen : L.getD p.1 0 = b' - a' := by simp only at hv; omega
    rw [hlen, h, sel_block a' b' r0 E s.stp hs h1 h2 h3, rangeList_neg_length,
      rangeLen_eq_ceilDiv _ _ _ hs (by omega)]
    simp only [Option.getD_some]
    congr 1
    omega

theorem sortByKey_reverse_plan (d : List (Nat × PySlice))
    (hk : List.Pairwise (· > ·) (d.map (·.1))) :
    (sortByKey (if d.isEmpty then [(0, (⟨some 0, some 0, some 1⟩ : PySlice))] else d)).reverse
      = (if d.isEmpty then [(0, (⟨some 0, some 0, some 1⟩ : PySlice))] else d) := by
  cases d with
  | nil => simp [sortByKey, insertByKey]
  | cons p ps =>
    simp only [List.isEmpty_cons, Bool.false_eq_true, if_false]
    rw [sortByKey_desc _ hk, List.reverse_reverse]

/-! ### main theorems -/

/-- For every chunking (zero-length chunks allowed) and every slice with negative step: the plan computed
by `_slice_1d` on the normalized index reads, block by block in DESCENDING block order, exactly the
positions the slice selects on the whole axis, in order. -/
theorem slice1d_partition_neg (lengths : List Int) (s : PySlice)
    (hl : ∀ c ∈ lengths, 0 ≤ c) (hs : s.stp < 0) :
    planPositions lengths (sortByKey (slice1d (isum lengths) lengths (normalizeSlice s (isum lengths)))).reverse
      = sel s (isum lengths) := by
  obtain ⟨a, b, d, _, hplan, hpos, hk, _, _⟩ := plan_neg lengths s hl hs
  rw [hplan, sortByKey_reverse_plan d hk, ← hpos]
  cases d with
  | nil =>
    simp [planPositions, sel, PySlice.istart, PySlice.istop, PySlice.stp, rangeList, rangeLen]
  | cons p ps => simp

example :
    planPositions [20, 20, 20, 20, 20]
        (sortByKey (slice1d (isum [20, 20, 20, 20, 20]) [20, 20, 20, 20, 20]
          (normalizeSlice ⟨some 100, some 12, some (-3)⟩ (isum [20, 20, 20, 20, 20])))).reverse
      = sel ⟨some 100, some 12, some (-3)⟩ (isum [20, 20, 20, 20, 20])
    ∧ sel ⟨some 100, some 12, some (-3)⟩ (isum [20, 20, 20, 20, 20]) ≠ [] := by
  decide

example :
    planPositions [2, 0, 1]
        (sortByKey (slice1d (isum [2, 0, 1]) [2, 0, 1]
          (normalizeSlice ⟨none, none, some (-1)⟩ (isum [2, 0, 1])))).reverse = [2, 1, 0]
    ∧ sel ⟨none, none, some (-1)⟩ (isum [2, 0, 1]) = [2, 1, 0] := by
  decide

/-- block numbers in the plan are distinct (strictly decreasing in insertion order) and in range -/
theorem slice1d_keys_neg (lengths : List Int) (s : PySlice)
    (hl : ∀ c ∈ lengths, 0 ≤ c) (hs : s.stp < 0) :
    let plan := slice1d (isum lengths) lengths (normalizeSlice s (isum lengths))
    List.Pairwise (· > ·) (plan.map (·.1)) ∧ ∀ p ∈ plan, p.1 < max 1 lengths.length := by
  obtain ⟨a, b, d, _, hplan, _, hk, hr, _⟩ := plan_neg lengths s hl hs
  simp only [hplan]
  cases d with
  | nil => simp; omega
  | cons q qs =>
    simp only [List.isEmpty_cons, Bool.false_eq_true, if_false]
    refine ⟨hk, ?_⟩
    intro p hp
    have := hr p hp
    omega

/-- new_blockdim sums to the selection length, and (when the selection is non-empty) equals the per-block piece lengths in output order -/
theorem newBlockdim_neg (lengths : List Int) (s : PySlice)
    (hl : ∀ c ∈ lengths, 0 ≤ c) (hs : s.stp < 0) :
    let dim := isum lengths
    let idx := normalizeSlice s dim
    isum (newBlockdim dim lengths idx) = ((sel s dim).length : Int) ∧
    ((sel s dim) ≠ [] → newBlockdim dim lengths idx = planLengths lengths (sortByKey (slice1d dim lengths idx)).reverse) := by
  obtain ⟨a, b, d, hnorm, hplan, hpos, hk, _, hshape⟩ := plan_neg lengths s hl hs
  intro dim idx
  have hrev := sortByKey_reverse_plan d hk
  have hcolon : idx ≠ colon := by
    show normalizeSlice s (isum lengths) ≠ colon
    rw [hnorm]; simp [colon]
  have hc0 : s.stp ≠ 0 := by omega
  -- the value of `newBlockdim` in terms of the (reversed sorted) plan
  have hnb : newBlockdim dim lengths idx =
      ((sortByKey (slice1d dim lengths idx)).reverse.map (fun (p : Nat × PySlice) =>
        if p.2 = colon then (⟨some 0, some (lengths.getD p.1 0), some 1⟩ : PySlice) else p.2)).map
        (fun slc => ceilDiv (slc.stop.getD 0 - slc.start.getD 0) (slc.step.getD 1)) := by
    unfold newBlockdim
    simp only [hcolon, if_false]
    have hst : idx.step = some s.stp := by
      show (normalizeSlice s (isum lengths)).step = _
      rw [hnorm]
    rw [hst]
    simp only [hc0, hs, ne_eq, not_false_eq_true, and_self, if_true, List.map_reverse]
  rw [hnb]
  show isum (List.map _ (List.map _ (sortByKey (slice1d (isum lengths) lengths
      (normalizeSlice s (isum lengths)))).reverse)) = _ ∧ (_ → List.map _ (List.map _ (sortByKey
      (slice1d (isum lengths) lengths (normalizeSlice s (isum lengths)))).reverse) = planLengths lengths
      (sortByKey (slice1d (isum lengths) lengths (normalizeSlice s (isum lengths)))).reverse)
  rw [hplan, hrev]
  cases d with
  | nil =>
    rw [planPositions_nil] at hpos
    simp only [List.isEmpty_nil, if_true, List.map_cons, List.map_nil]
    rw [← hpos]
    refine ⟨by simp [colon, ceilDiv, pyDiv, isum], fun h => absurd rfl h⟩
  | cons q qs =>
    simp only [List.isEmpty_cons, Bool.false_eq_true, if_false]
    have hmap : List.map (fun slc : PySlice => ceilDiv (slc.stop.getD 0 - slc.start.getD 0) (slc.step.getD 1))
        (List.map (fun (p : Nat × PySlice) =>
          if p.2 = colon then (⟨some 0, some (lengths.getD p.1 0), some 1⟩ : PySlice) else p.2) (q :: qs))
        = planLengths lengths (q :: qs) := by
      unfold planLengths
      rw [List.map_map]
      apply List.map_congr_left
      intro p hp
      obtain ⟨h1, h2⟩ := hshape p hp
      have hne : p.2 ≠ colon := by
        intro e; rw [e] at h1; simp [colon] at h1
      simp only [Function.comp, hne, if_false, h1, Option.getD_some]
      exact h2
    rw [hmap]
    refine ⟨?_, fun _ => rfl⟩
    rw [isum_planLengths, hpos]

end Dask.Lemmas.Slice1dNeg
