/-
Chunk statements of the coarse slice pushdown (per label), the `find_block_range` specification in one piece, and the
decided witnesses.
-/
import DaskArrayModel.Lemmas.CoarseSliceND
namespace Dask.Lemmas.Coarse
open Dask.Py Dask.Py.PySlice Dask.Slicing Dask.Coarse
open Dask.Lemmas.Slice1dPos

/-- `adjust_chunks` of the kept blocks: slicing a tuple value to `[first : last + 1]` (and leaving an int / a callable
alone) makes the adjusted chunks of the kept input blocks the kept adjusted chunks. -/
theorem applyAdjust_kept (a : Option AdjKind) (base oc : List Int) (f l : Nat) (hfl : f ≤ l) (hl : l < base.length)
    (h : applyAdjust a base = some oc) :
    applyAdjust (a.map (sliceAdjKind f l)) (keptChunks base f l) = some (keptChunks oc f l) := by
  cases a with
  | none =>
    simp only [applyAdjust] at h
    have := Option.some.inj h
    subst this
    rfl
  | some k =>
    cases k with
    | fn g =>
      simp only [applyAdjust] at h
      have := Option.some.inj h
      subst this
      simp [applyAdjust, sliceAdjKind, keptChunks, List.map_take, List.map_drop]
    | const c =>
      simp only [applyAdjust] at h
      have := Option.some.inj h
      subst this
      simp [applyAdjust, sliceAdjKind, keptChunks, List.map_take, List.map_drop]
    | tuple t =>
      simp only [applyAdjust] at h
      by_cases ht : t.length ≠ base.length
      · rw [if_pos ht] at h; simp at h
      · rw [if_neg ht] at h
        have := Option.some.inj h
        subst this
        have ht' : t.length = base.length := by omega
        simp only [Option.map_some, sliceAdjKind, applyAdjust]
        have e1 : ((t.drop f).take (l + 1 - f)).length = (keptChunks base f l).length := by
          rw [keptChunks_length base f l hl hfl]
          simp [List.length_take, List.length_drop]; omega
        rw [if_neg (by omega)]
        rfl

/-- extent after the top adjustment = extent of the sliced original (one sliced axis) -/
theorem top_extent (oc : List Int) (hoc : ∀ c ∈ oc, 0 ≤ c) (s : PySlice) (hc : s ≠ colon) (pl : AxisPlan)
    (h : acceptAxis oc (.slc s) = some pl) :
    ∃ c c', indexedChunks1 (keptOut1 oc pl) pl.adj.toIdx = some c' ∧ indexedChunks1 oc (.slc s) = some c ∧
      isum c' = isum c ∧ isum c = s.istop (isum oc) - s.istart (isum oc) := by
  obtain ⟨hs, hse, f, l, hbr, hfl, hl, a2, a3, b2, b3, hadj⟩ := acceptAxis_slc oc hoc s hc pl h
  have hkept : keptOut1 oc pl = keptChunks oc f l := by simp only [keptOut1, hbr]
  have hk := keptChunks_nonneg oc hoc f l
  have hdim' : isum (keptChunks oc f l) = blockStart oc (l + 1) - blockStart oc f := isum_kept oc f l hfl
  have hbl := blockStart_le oc hoc (show l + 1 ≤ oc.length by omega)
  rw [blockStart_length] at hbl
  have hbf := blockStart_le oc hoc (show 0 ≤ f by omega)
  rw [blockStart_zero] at hbf
  have e0 := (newBlockdim_pos oc s hoc (by omega)).1
  try dsimp only at e0
  rw [sel_unit_length s _ hs] at e0
  rw [hkept, hadj]
  split
  · rename_i hcol
    refine ⟨_, _, rfl, rfl, ?_, by rw [e0]; omega⟩
    have e1 := (newBlockdim_pos (keptChunks oc f l) colon hk (by decide)).1
    try dsimp only at e1
    rw [sel_unit_length colon _ colon_stp, colon_istart, colon_istop] at e1
    rw [e0, e1, hdim']; omega
  · refine ⟨_, _, rfl, rfl, ?_, by rw [e0]; omega⟩
    have e1 := (newBlockdim_pos (keptChunks oc f l)
      ⟨some (s.istart (isum oc) - blockStart oc f), some (s.istop (isum oc) - blockStart oc f), none⟩ hk (by rw [rng_stp]; omega)).1
    try dsimp only at e1
    rw [sel_unit_length _ _ (rng_stp _ _),
      rng_istart _ _ _ (by omega) (by omega), rng_istop _ _ _ (by omega) (by omega)] at e1
    rw [e0, e1]; omega

/-- `find_block_range` in one statement -/
theorem findBlockRange_spec (cs : List Int) (h : ∀ c ∈ cs, 0 ≤ c) (start stop : Int) (h0 : 0 ≤ start) :
    (findBlockRange (cum0 cs) start stop = none ↔ isum cs ≤ start) ∧
    (start < isum cs → stop ≤ start →
      ∃ f : Nat, findBlockRange (cum0 cs) start stop = some (f, (f : Int) - 1) ∧ f < cs.length) ∧
    (start < stop → stop ≤ isum cs →
      ∃ f l : Nat, findBlockRange (cum0 cs) start stop = some (f, (l : Int)) ∧ f ≤ l ∧ l < cs.length ∧
        ∀ k, (f ≤ k ∧ k ≤ l) ↔ (blockStart cs k < stop ∧ start < blockStart cs (k + 1))) := by
  refine ⟨findBlockRange_none_iff cs h start stop h0, ?_, ?_⟩
  · intro h1 h2
    have hb := (bisect_block cs h start h0 h1).1
    exact ⟨_, findBlockRange_empty cs start stop h2 hb, hb⟩
  · intro h1 h2
    obtain ⟨f, l, hfb, hfl, hl, a2, a3, b2, b3⟩ := findBlockRange_inside cs h start stop h0 h1 h2
    exact ⟨f, l, hfb, hfl, hl, range_iff_intersects cs h start stop f l a2 a3 b2 b3⟩

/-! ### witnesses -/

/-- the node the rule built BEFORE the empty-range declines (c4c92dd, 5c4b759): every operand axis of the emptied label
sliced to `slice(0, 0)`, `adjust_chunks` kept as it was -/
def preFixEmptyNode (n : Node) : Node :=
  { n with ops := n.ops.map (fun o => { o with chunks := o.chunks.map (fun ic => opChunksAfter ic (some (0, 0))) }) }

def wTuple : Node := ⟨[0], [⟨true, some [0], [[2, 2]]⟩], [(0, .tuple [2, 2])], []⟩
def wConst : Node := ⟨[0], [⟨true, some [0], [[1, 1]]⟩], [(0, .const 1)], []⟩
def wUnaligned : Node :=
  ⟨[0], [⟨true, some [0], [[2, 2, 3]]⟩, ⟨true, some [0], [[3, 3, 1]]⟩], [(0, .const 1)], []⟩
def wZero : Node := ⟨[0], [⟨true, some [0], [[1, 2, 0, 3]]⟩], [(0, .tuple [1, 1, 1, 1])], []⟩

end Dask.Lemmas.Coarse
