/-
`axisLift`: per-axis block-map facts lift to the n-d block grid.  Proved once for the
`gatherBlock` construction; used by slicing, rechunk (and flip / expand_dims / squeeze /
broadcast when added).
-/
import DaskArrayModel.Model.Expr
import DaskArrayModel.Lemmas.ExprArr
namespace Dask.ND

/-- The per-axis obligation of a `keep` axis with output chunks `oc` and child chunks `cc`:
every output block `j` has the advertised length, and every local position `i` of it reads an
existing child block at an in-bounds local position whose GLOBAL position is `gmap` of the
global output position. -/
def AxisOK (m : AxisMap) (oc cc : List Nat) : Prop :=
  ∀ j, j < oc.length → m.len j = oc.getD j 0 ∧ ∀ i, i < oc.getD j 0 →
    m.blk j i < cc.length ∧ m.pos j i < cc.getD (m.blk j i) 0 ∧
    (cc.take (m.blk j i)).sum + m.pos j i = m.gmap ((oc.take j).sum + i)

/-- all axes satisfy their obligation; relates the spec list to the output layout `ol` and the
child layout `cl` -/
inductive SpecsOK : List AxSpec → Layout → Layout → Prop
  | nil : SpecsOK [] [] []
  | keep {m oc cc r ol cl} : AxisOK m oc cc → SpecsOK r ol cl →
      SpecsOK (.keep m :: r) (oc :: ol) (cc :: cl)
  | fix {b p g cc r ol cl} : b < cc.length → p < cc.getD b 0 → (cc.take b).sum + p = g →
      SpecsOK r ol cl → SpecsOK (.fix b p g :: r) ol (cc :: cl)
  | new {len oc r ol cl} : (∀ j, j < oc.length → len j = oc.getD j 0) → SpecsOK r ol cl →
      SpecsOK (.new len :: r) (oc :: ol) cl

/-- **axisLift**: for a valid output block `bid`, the gathered block has the advertised shape and
every in-bounds local index reads a valid child block, in bounds, at the global position the spec
side prescribes. -/
theorem axisLift {specs : List AxSpec} {ol cl : Layout} (h : SpecsOK specs ol cl) :
    ∀ bid, validBid ol bid →
      gShape specs bid = blockShape ol bid ∧
      ∀ i, InB i (blockShape ol bid) →
        validBid cl (gBid specs bid i) ∧
        InB (gPos specs bid i) (blockShape cl (gBid specs bid i)) ∧
        vadd (origin cl (gBid specs bid i)) (gPos specs bid i)
          = gGlob specs (vadd (origin ol bid) i) := by
  induction h with
  | nil =>
    intro bid hb
    cases bid with
    | nil =>
      refine ⟨rfl, ?_⟩
      intro i _
      simp [gBid, gPos, gGlob, validBid, numblocks, blockShape, origin, vadd, InB]
    | cons b bid => simp [validBid, numblocks, InB] at hb
  | @keep m oc cc r ol cl hax _ ih =>
    intro bid hb
    cases bid with
    | nil => simp [validBid, numblocks, InB] at hb
    | cons j bid =>
      rw [validBid_cons] at hb
      obtain ⟨hlen, hpos⟩ := hax j hb.1
      obtain ⟨ihs, ihi⟩ := ih bid hb.2
      refine ⟨by simp [gShape, blockShape, hlen, ihs], ?_⟩
      intro i hi
      cases i with
      | nil => simp [blockShape, InB] at hi
      | cons x i =>
        simp only [blockShape, List.zipWith_cons_cons, InB] at hi
        obtain ⟨p1, p2, p3⟩ := hpos x hi.1
        obtain ⟨q1, q2, q3⟩ := ihi i hi.2
        simp only [gBid, gPos, gGlob, origin, vadd, List.zipWith_cons_cons] at q3 ⊢
        refine ⟨validBid_cons.2 ⟨p1, q1⟩, ?_, ?_⟩
        · simp only [blockShape, List.zipWith_cons_cons, InB]; exact ⟨p2, q2⟩
        · rw [p3, q3]
  | @fix b p g cc r ol cl hb1 hp hg _ ih =>
    intro bid hb
    obtain ⟨ihs, ihi⟩ := ih bid hb
    refine ⟨by simp [gShape, ihs], ?_⟩
    intro i hi
    obtain ⟨q1, q2, q3⟩ := ihi i hi
    simp only [gBid, gPos, gGlob, origin, vadd, List.zipWith_cons_cons] at q3 ⊢
    refine ⟨validBid_cons.2 ⟨hb1, q1⟩, ?_, ?_⟩
    · simp only [blockShape, List.zipWith_cons_cons, InB]; exact ⟨hp, q2⟩
    · rw [hg, q3]
  | @new len oc r ol cl hlen _ ih =>
    intro bid hb
    cases bid with
    | nil => simp [validBid, numblocks, InB] at hb
    | cons j bid =>
      rw [validBid_cons] at hb
      obtain ⟨ihs, ihi⟩ := ih bid hb.2
      refine ⟨by simp [gShape, blockShape, hlen j hb.1, ihs], ?_⟩
      intro i hi
      cases i with
      | nil => simp [blockShape, InB] at hi
      | cons x i =>
        simp only [blockShape, List.zipWith_cons_cons, InB] at hi
        obtain ⟨q1, q2, q3⟩ := ihi i hi.2
        simp only [gBid, gPos, gGlob, origin, vadd, List.zipWith_cons_cons] at q3 ⊢
        exact ⟨q1, q2, q3⟩

/-- Consequence for blocks: if the child's blocks are (extensionally) the blocks of `a` under
`cl`, the gathered block is the block of `⟨sh, a.get ∘ gGlob specs⟩` under `ol`. -/
theorem gatherBlock_correct {specs : List AxSpec} {ol cl : Layout} (h : SpecsOK specs ol cl)
    (a : Arr Int) (child : List Nat → Arr Int)
    (hchild : ∀ b, validBid cl b → Arr.Equiv (child b) (restrict a (extent cl b)))
    (sh : List Nat) (bid : List Nat) (hb : validBid ol bid) :
    Arr.Equiv (gatherBlock specs child bid)
      (restrict ⟨sh, fun g => a.get (gGlob specs g)⟩ (extent ol bid)) := by
  obtain ⟨hs, hi⟩ := axisLift h bid hb
  refine ⟨hs, ?_⟩
  intro i hin
  simp only [gatherBlock] at hin
  rw [hs] at hin
  obtain ⟨q1, q2, q3⟩ := hi i hin
  have hE := hchild _ q1
  simp only [gatherBlock, restrict, extent]
  have hsh : (child (gBid specs bid i)).shape = blockShape cl (gBid specs bid i) := hE.1
  rw [hE.2 _ (hsh ▸ q2)]
  simp only [restrict, extent]
  rw [q3]

end Dask.ND
