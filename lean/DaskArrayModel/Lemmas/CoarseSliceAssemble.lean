/-
1-d reading of the position-wise meaning `bwDen`: concatenating the blocks (`assemble`) and reading position `p` is
reading offset `p - start(k)` of block `k`, where `(k, offset)` is what `_slice_1d` gives for the integer `p` on the
chunks `len(block_k)`.
-/
import DaskArrayModel.Lemmas.CoarseSliceNode
namespace Dask.Lemmas.Coarse
open Dask.Py Dask.Py.PySlice Dask.Slicing Dask.Coarse
open Dask.Lemmas.Slice1dPos

/-- the chunks a list of blocks has -/
def lens {β : Type} (blocks : List (List β)) : List Int := blocks.map (fun b => (b.length : Int))

theorem lens_nonneg {β : Type} (blocks : List (List β)) : ∀ c ∈ lens blocks, 0 ≤ c := by
  intro c hc
  simp only [lens, List.mem_map] at hc
  obtain ⟨b, _, rfl⟩ := hc
  omega

theorem blockStart_cons_succ (x : Int) (xs : List Int) (k : Nat) :
    blockStart (x :: xs) (k + 1) = x + blockStart xs k := by
  simp [blockStart, isum]

theorem flatten_get {β : Type} : ∀ (blocks : List (List β)) (k : Nat) (p : Int), k < blocks.length →
    blockStart (lens blocks) k ≤ p → p < blockStart (lens blocks) (k + 1) →
    (blocks.flatten)[p.toNat]? = (blocks.getD k [])[(p - blockStart (lens blocks) k).toNat]?
  | [], _, _, hk, _, _ => by simp at hk
  | b :: bs, 0, p, _, h0, h1 => by
    simp only [lens, List.map_cons, blockStart_zero] at h0
    have h1' : p < (b.length : Int) := by
      have := blockStart_cons_succ (b.length : Int) (lens bs) 0
      simp only [lens, List.map_cons] at h1 this
      rw [this, blockStart_zero] at h1
      omega
    simp only [List.flatten_cons, List.getD_cons_zero, lens, List.map_cons, blockStart_zero]
    rw [List.getElem?_append_left (by omega)]
    congr 1
    omega
  | b :: bs, k + 1, p, hk, h0, h1 => by
    have e0 := blockStart_cons_succ (b.length : Int) (lens bs) k
    have e1 := blockStart_cons_succ (b.length : Int) (lens bs) (k + 1)
    have hnn := blockStart_le (lens bs) (lens_nonneg bs) (show 0 ≤ k by omega)
    rw [blockStart_zero] at hnn
    simp only [lens, List.map_cons] at h0 h1 e0 e1 hnn
    rw [e0] at h0
    rw [e1] at h1
    have ih := flatten_get bs k (p - b.length) (by simpa using hk) (by simp only [lens]; omega)
      (by simp only [lens]; omega)
    simp only [List.flatten_cons, List.getD_cons_succ, lens, List.map_cons]
    rw [List.getElem?_append_right (by omega), e0]
    simp only [lens] at ih
    have a1 : p.toNat - b.length = (p - (b.length : Int)).toNat := by omega
    have a2 : (p - ((b.length : Int) + blockStart (List.map (fun b => (b.length : Int)) bs) k)).toNat
        = (p - (b.length : Int) - blockStart (List.map (fun b => (b.length : Int)) bs) k).toNat := by
      congr 1; omega
    rw [a1, a2]
    exact ih

/-- **assembling the blocks and indexing = locating the block and indexing it** -/
theorem assemble_get {β : Type} (blocks : List (List β)) (p : Int) (h0 : 0 ≤ p) (h1 : p < isum (lens blocks)) :
    (blocks.flatten)[p.toNat]?
      = (blocks.getD (slice1dInt (lens blocks) p).1 [])[(slice1dInt (lens blocks) p).2.toNat]? := by
  obtain ⟨c1, c2, c3⟩ := bisect_block (lens blocks) (lens_nonneg blocks) p h0 h1
  rw [slice1dInt_eq]
  exact flatten_get blocks _ p (by simpa [lens] using c1) c2 c3

end Dask.Lemmas.Coarse

namespace Dask.Lemmas.Coarse
open Dask.Py Dask.Py.PySlice Dask.Slicing Dask.Coarse

theorem mapOpt_none_of_mem {α β : Type} (f : α → Option β) : ∀ (xs : List α) (x : α), x ∈ xs → f x = none →
    mapOpt f xs = none
  | [], _, h, _ => by simp at h
  | y :: ys, x, h, hx => by
    unfold mapOpt
    rw [List.mem_cons] at h
    rcases h with rfl | h
    · rw [hx]
    · cases f y with
      | none => rfl
      | some v => simp only; rw [mapOpt_none_of_mem f ys x h hx]; rfl

/-- the operand-level declines: an operand without `_meta` that carries labels, or an operand axis of a sliced label
whose block count differs from the output's (broadcast) -/
theorem operand_declines (n : Node) (oc : List (List Int)) (idx : List Idx) (o : Opd) (ho : o ∈ n.ops) :
    (o.ind.isSome = true → o.isArr = false → acceptCoarse0 n oc idx = none) ∧
    (∀ plans ind, axisPlans oc (fullIndex idx n.outInd.length) = some plans → o.ind = some ind →
      opAxesSlices n.outInd plans (oc.map List.length) ind o.chunks = none → acceptCoarse0 n oc idx = none) := by
  constructor
  · intro h1 h2
    unfold acceptCoarse0
    cases hp : axisPlans oc (fullIndex idx n.outInd.length) with
    | none => rfl
    | some plans =>
      simp only
      have : opSlice n.outInd plans (oc.map List.length) o = none := by
        unfold opSlice
        cases hi : o.ind with
        | none => rw [hi] at h1; simp at h1
        | some ind => simp [h2]
      rw [mapOpt_none_of_mem _ n.ops o ho this]
  · intro plans ind hp hi hsl
    unfold acceptCoarse0
    rw [hp]
    simp only
    have : opSlice n.outInd plans (oc.map List.length) o = none := by
      unfold opSlice
      rw [hi]
      simp only
      split
      · rfl
      · rw [hsl]; rfl
    rw [mapOpt_none_of_mem _ n.ops o ho this]

/-- the gates on one operand axis, as an equivalence -/
theorem opAxisSlice_none_iff (outInd : List Nat) (plans : List AxisPlan) (nb : List Nat) (lab : Nat) (ic : List Int) :
    opAxisSlice outInd plans nb lab ic = none ↔
      (outInd.contains lab = true ∧ (plans.getD (outInd.idxOf lab) ⟨none, .colon⟩).br ≠ none ∧
        (ic.length ≠ nb.getD (outInd.idxOf lab) 0 ∨ ic.contains 0 = true)) := by
  unfold opAxisSlice
  by_cases hc : outInd.contains lab = true
  · simp only [hc, if_true, true_and]
    cases hbr : (plans.getD (outInd.idxOf lab) ⟨none, .colon⟩).br with
    | none => simp
    | some fl =>
      obtain ⟨f, l⟩ := fl
      simp only
      by_cases hg : ic.length ≠ nb.getD (outInd.idxOf lab) 0
      · rw [if_pos hg]
        exact ⟨fun _ => ⟨by simp, Or.inl hg⟩, fun _ => rfl⟩
      · rw [if_neg hg]
        by_cases hz : ic.contains 0 = true
        · rw [if_pos hz]
          exact ⟨fun _ => ⟨by simp, Or.inr hz⟩, fun _ => rfl⟩
        · rw [if_neg hz]
          constructor
          · intro h; simp at h
          · rintro ⟨_, h | h⟩
            · exact absurd h hg
            · exact absurd h hz
  · have hc' : outInd.contains lab = false := by simpa using hc
    simp only [hc', Bool.false_eq_true, if_false, false_and, iff_false]
    simp

end Dask.Lemmas.Coarse
