/-
`_vindex` normalisation, `max_chunk_point_dimensions > 0`, advertised `VIndexArray` chunks.  Core Lean only.
-/
import DaskArrayModel.Lemmas.VindexEval
namespace Dask.Lemmas.Vindex
open Dask.Py Dask.Slicing Dask.Indexing Dask.Shuffle Dask.Vindex Dask.Lemmas.Shuffle

/-! ### `_vindex` normalisation -/

theorem pyMod_posify {n i : Int} (h : -n ≤ i ∧ i < n) : pyMod i n = posifyInt n i := by
  have hn : 0 < n := by omega
  unfold pyMod posifyInt
  rw [if_pos hn]
  split
  · have : (i + n) % n = i % n := Int.add_emod_right i n
    rw [← this]
    exact Int.emod_eq_of_lt (by omega) (by omega)
  · exact Int.emod_eq_of_lt (by omega) (by omega)

theorem normAxis_ok {size : Int} {ind : List Int} (h : ∀ i ∈ ind, -size ≤ i ∧ i < size) :
    normAxis size ind = .ok (ind.map (posifyInt size)) := by
  unfold normAxis
  rw [if_neg]
  · congr 1
    apply List.map_congr_left
    intro i hi
    exact pyMod_posify (h i hi)
  · simp only [List.any_eq_true, decide_eq_true_eq, not_exists, not_and]
    intro i hi
    have := h i hi
    omega

theorem normAxis_err {size : Int} {ind : List Int} (h : ¬ ∀ i ∈ ind, -size ≤ i ∧ i < size) :
    normAxis size ind = .error .indexError := by
  unfold normAxis
  rw [if_pos]
  simp only [List.any_eq_true, decide_eq_true_eq]
  apply Classical.byContradiction
  intro hn
  apply h
  intro i hi
  apply Classical.byContradiction
  intro hc
  exact hn ⟨i, hi, by omega⟩

def normed (css inds : List (List Int)) : List (List Int) :=
  List.zipWith (fun cs ind => ind.map (posifyInt (isum cs))) css inds

theorem normAll_ok : ∀ (css inds : List (List Int)) (P : Nat), WF css inds P →
    InRangeAll (css.map isum) inds →
    normAll (css.map isum) inds = .ok (normed css inds) ∧ PointsOK css (normed css inds) P
  | [], [], _, _, _ => ⟨rfl, trivial⟩
  | [], _ :: _, _, h, _ => by simp [WF] at h
  | _ :: _, [], _, h, _ => by simp [WF] at h
  | cs :: css, ind :: inds, P, h, hr => by
    obtain ⟨hcs, hl, hrest⟩ := h
    obtain ⟨hr1, hr2⟩ := hr
    have ih := normAll_ok css inds P hrest hr2
    simp only [List.map_cons, normAll, normAxis_ok hr1, ih.1, normed, List.zipWith_cons_cons]
    refine ⟨trivial, hcs, by simpa using hl, ?_, ih.2⟩
    intro p hp
    rcases List.mem_map.mp hp with ⟨i, hi, rfl⟩
    exact posify_bounds (hr1 i hi)

theorem normAll_err : ∀ (css inds : List (List Int)) (P : Nat), WF css inds P →
    ¬ InRangeAll (css.map isum) inds → normAll (css.map isum) inds = .error .indexError
  | [], [], _, _, h => by simp [InRangeAll] at h
  | [], _ :: _, _, h, _ => by simp [WF] at h
  | _ :: _, [], _, h, _ => by simp [WF] at h
  | cs :: css, ind :: inds, P, h, hr => by
    obtain ⟨hcs, hl, hrest⟩ := h
    simp only [List.map_cons, normAll]
    by_cases h1 : ∀ i ∈ ind, -(isum cs) ≤ i ∧ i < isum cs
    · have h2 : ¬ InRangeAll (css.map isum) inds := fun h2 => hr ⟨h1, h2⟩
      rw [normAxis_ok h1, normAll_err css inds P hrest h2]
    · rw [normAxis_err h1]

theorem pointAt_normed : ∀ (css inds : List (List Int)) (P j : Nat), WF css inds P → j < P →
    pointAt (normed css inds) j = normPoint css inds j
  | [], [], _, _, _, _ => rfl
  | [], _ :: _, _, _, h, _ => by simp [WF] at h
  | _ :: _, [], _, _, h, _ => by simp [WF] at h
  | cs :: css, ind :: inds, P, j, h, hj => by
    obtain ⟨_, hl, hrest⟩ := h
    have ih := pointAt_normed css inds P j hrest hj
    unfold pointAt normed normPoint at ih ⊢
    simp only [List.zipWith_cons_cons, List.map_cons, ih]
    rw [getD_map_lt _ _ _ (by omega) 0 0]

/-! ### `max_chunk_point_dimensions > 0` -/

theorem foldl_mul_pos : ∀ (l : List Int) (init : Int), 0 < init → (∀ c ∈ l, 0 < c) →
    0 < l.foldl (· * ·) init
  | [], _, h, _ => h
  | c :: l, init, h, hl => by
    simp only [List.foldl_cons]
    exact foldl_mul_pos l (init * c) (Int.mul_pos h (hl c (by simp)))
      (fun d hd => hl d (List.mem_cons_of_mem _ hd))

theorem maxChunk_pos_all : ∀ (css inds : List (List Int)) (P : Nat), PointsOK css inds P → 0 < P →
    ∀ c ∈ css.map maxChunk, 0 < c
  | [], [], _, _, _ => by simp
  | [], _ :: _, _, h, _ => by simp [PointsOK] at h
  | _ :: _, [], _, h, _ => by simp [PointsOK] at h
  | cs :: css, ind :: inds, P, h, hP => by
    obtain ⟨hcs, hl, hin, hrest⟩ := h
    intro c hc
    simp only [List.map_cons, List.mem_cons] at hc
    rcases hc with rfl | hc
    · apply Classical.byContradiction
      intro hn
      have hz := isum_zero_of_max cs hcs
        (fun c hc => Int.le_trans ((foldl_max_ge cs 0).2 c hc) (by unfold maxChunk at hn; omega))
      have hp := hin _ (getD_mem_lt ind 0 (by omega) 0)
      omega
    · exact maxChunk_pos_all css inds P hrest hP c hc

theorem mcpd_pos (css inds : List (List Int)) (P : Nat) (h : PointsOK css inds P) (hP : 0 < P) :
    0 < (mcpd css).toNat := by
  have := foldl_mul_pos (css.map maxChunk) 1 (by omega) (maxChunk_pos_all css inds P h hP)
  unfold mcpd; omega

/-! ### advertised chunks -/

theorem vChunks_eq (css : List (List Int)) (P : Nat) (hm : 0 < (mcpd css).toNat) (hP : 0 < P) :
    (List.range (vChunks css P).length).map (fun i =>
      ((min (i * (mcpd css).toNat + (mcpd css).toNat) P - min (i * (mcpd css).toNat) P : Nat) : Int))
      = vChunks css P := by
  have hlen := vChunks_length css P hP
  have h1 := div_mul_facts P (mcpd css).toNat
  apply List.ext_getElem
  · simp
  · intro i hi1 hi2
    simp only [List.length_map, List.length_range] at hi1
    simp only [List.getElem_map, List.getElem_range]
    unfold vChunks
    simp only [hP, ↓reduceIte]
    by_cases h : i < P / (mcpd css).toNat
    · rw [List.getElem_append_left (by simpa using h)]
      simp only [List.getElem_replicate]
      have := Nat.mul_le_mul_right (mcpd css).toNat (show i + 1 ≤ P / (mcpd css).toNat by omega)
      rw [Nat.succ_mul] at this
      congr 1; omega
    · rw [hlen] at hi1
      have hpos : P % (mcpd css).toNat > 0 := by
        apply Classical.byContradiction; intro hn
        rw [if_neg hn] at hi1; omega
      rw [if_pos hpos] at hi1
      have hi : i = P / (mcpd css).toNat := by omega
      rw [List.getElem_append_right (by simp; omega)]
      simp only [hpos, ↓reduceIte, List.length_replicate, List.getElem_singleton]
      have h2 := Nat.mod_lt P hm
      congr 1
      rw [hi]; omega

end Dask.Lemmas.Vindex
