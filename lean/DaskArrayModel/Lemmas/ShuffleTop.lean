/-
Top-level proofs for Model/Shuffle.lean: `_shuffle` and `take` compute `x[index]`.  Core Lean only.
-/
import DaskArrayModel.Lemmas.Shuffle
namespace Dask.Lemmas.Shuffle
open Dask.Py Dask.Slicing Dask.Indexing Dask.Shuffle

theorem rangeList_unit (a c : Int) (hc : 0 ≤ c) :
    rangeList a (a + c) 1 = (List.range c.toNat).map (fun (i : Nat) => a + (i : Int)) := by
  unfold rangeList rangeLen
  have : (if (1 : Int) > 0 then (if a < a + c then ((a + c - a - 1) / 1 + 1).toNat else 0)
      else if (1 : Int) < 0 then (if a + c < a then ((a - (a + c) - 1) / (-1) + 1).toNat else 0) else 0) = c.toNat := by
    simp only [show (1 : Int) > 0 by omega, ↓reduceIte]
    split
    · simp; omega
    · omega
  rw [this]
  apply List.map_congr_left
  intro i _; omega

theorem identity_blocks {α} (x : Int → α) : ∀ (indexer : List (List Int)) (cs : List Int) (ctr : Int),
    ChunksOK cs → shuffleIsIdentityLoop indexer cs ctr = true →
    indexer.map (fun g => g.map x) = blocksFrom x ctr cs
  | [], [], _, _, _ => rfl
  | [], _ :: _, _, _, h => by simp [shuffleIsIdentityLoop] at h
  | _ :: _, [], _, _, h => by simp [shuffleIsIdentityLoop] at h
  | idx :: is, c :: cs, ctr, hcs, h => by
    unfold shuffleIsIdentityLoop at h
    split at h
    · simp at h
    · split at h
      · simp at h
      · rename_i h1 h2
        have hc : 0 ≤ c := hcs c (by simp)
        have hidx : idx = rangeList ctr (ctr + c) 1 := by simpa using h2
        have ih := identity_blocks x is cs (ctr + c) (fun d hd => hcs d (List.mem_cons_of_mem _ hd)) h
        simp only [List.map_cons, blocksFrom, ih]
        congr 1
        rw [hidx, rangeList_unit ctr c hc, List.map_map]
        rfl

theorem blocksFrom_length {α} (x : Int → α) : ∀ (cs : List Int) (s : Int), ChunksOK cs →
    (blocksFrom x s cs).map (fun b => (b.length : Int)) = cs
  | [], _, _ => rfl
  | c :: cs, s, h => by
    have hc : 0 ≤ c := h c (by simp)
    simp only [blocksFrom, List.map_cons, List.length_map, List.length_range,
      blocksFrom_length x cs (s + c) (fun d hd => h d (List.mem_cons_of_mem _ hd))]
    congr 1; omega

theorem isum_nonneg : ∀ (cs : List Int), ChunksOK cs → 0 ≤ isum cs
  | [], _ => by simp [isum]
  | c :: cs, h => by
    have := isum_nonneg cs (fun d hd => h d (List.mem_cons_of_mem _ hd))
    have := h c (by simp)
    simp only [isum]; omega

theorem blocksFrom_flatten {α} (x : Int → α) : ∀ (cs : List Int) (s : Int), ChunksOK cs →
    (blocksFrom x s cs).flatten = (List.range (isum cs).toNat).map (fun (i : Nat) => x (s + (i : Int)))
  | [], _, _ => by simp [blocksFrom, isum]
  | c :: cs, s, h => by
    have hc : 0 ≤ c := h c (by simp)
    have h' : ChunksOK cs := fun d hd => h d (List.mem_cons_of_mem _ hd)
    have hs := isum_nonneg cs h'
    simp only [blocksFrom, List.flatten_cons, blocksFrom_flatten x cs (s + c) h', isum]
    rw [show (c + isum cs).toNat = c.toNat + (isum cs).toNat by omega, List.range_add, List.map_append,
      List.map_map]
    congr 1
    apply List.map_congr_left
    intro i _
    simp only [Function.comp]
    congr 1; omega

theorem newChunksLoop_empty (limit : Nat) : ∀ (indexer : List (List Int)), (∀ g ∈ indexer, g = []) →
    newChunksLoop limit indexer [] = []
  | [], _ => by simp [newChunksLoop]
  | g :: rest, h => by
    have hg : g = [] := h g (by simp)
    subst hg
    unfold newChunksLoop
    simp [newChunksLoop_empty limit rest (fun g hg => h g (List.mem_cons_of_mem _ hg))]

theorem isum_zero_of_max : ∀ (cs : List Int), ChunksOK cs → (∀ c ∈ cs, c ≤ 0) → isum cs = 0
  | [], _, _ => rfl
  | c :: cs, h, hm => by
    have := isum_zero_of_max cs (fun d hd => h d (List.mem_cons_of_mem _ hd)) (fun d hd => hm d (List.mem_cons_of_mem _ hd))
    have := h c (by simp); have := hm c (by simp)
    simp only [isum]; omega

section top
variable (argsort : List Int → List Nat) (hA : ∀ l, IsArgsort l (argsort l))
variable (cs : List Int) (hcs : ChunksOK cs)

include hA hcs in
theorem evalChunks_correct {α} (x : Int → α) : ∀ (new : List (List Int)),
    (∀ t ∈ new, t ≠ [] ∧ (t.length : Int) ≤ maxChunk cs ∧ ∀ p ∈ t, 0 ≤ p ∧ p < isum cs) →
    evalChunks argsort cs x new = .ok (new.map (fun t => t.map x))
  | [], _ => rfl
  | t :: rest, h => by
    have ht := h t (by simp)
    rcases planChunk_correct argsort hA cs hcs t ht.1 ht.2.2 ht.2.1 x with ⟨p, hp, he⟩
    simp only [evalChunks, hp, he,
      evalChunks_correct x rest (fun u hu => h u (List.mem_cons_of_mem _ hu)), List.map_cons]

include hA hcs in
theorem shuffle_correct {α} (indexer : List (List Int)) (hin : InBounds (isum cs) indexer) (x : Int → α) :
    ∃ out, shuffleEval argsort cs indexer x = .ok out ∧ out.flatten = indexer.flatten.map x ∧
      out.map (fun c => (c.length : Int)) = shuffleChunks cs indexer := by
  unfold shuffleEval shuffleChunks
  by_cases hid : shuffleIsIdentity indexer cs = true
  · simp only [hid, ↓reduceIte]
    refine ⟨_, rfl, ?_, blocksFrom_length x cs 0 hcs⟩
    unfold shuffleIsIdentity at hid
    simp only [Bool.and_eq_true] at hid
    rw [blocksOf, ← identity_blocks x indexer cs 0 hcs hid.2, List.map_flatten]
  · simp only [hid, Bool.false_eq_true, ↓reduceIte]
    by_cases hemp : ∀ g ∈ indexer, g = []
    · have : newChunks (maxChunk cs).toNat indexer = [] := newChunksLoop_empty _ indexer hemp
      rw [this]
      refine ⟨[], rfl, ?_, rfl⟩
      have : indexer.flatten = [] := by
        rw [List.flatten_eq_nil_iff]; exact hemp
      simp [this]
    · have hpos : 0 < (maxChunk cs).toNat := by
        apply Classical.byContradiction
        intro hn
        have hm : maxChunk cs ≤ 0 := by omega
        have hz := isum_zero_of_max cs hcs (fun c hc => Int.le_trans ((foldl_max_ge cs 0).2 c hc) hm)
        apply hemp
        intro g hg
        cases g with
        | nil => rfl
        | cons p _ => have := hin _ hg p (by simp); omega
      have hfl := Dask.Lemmas.Indexing.newChunks_flatten hpos indexer
      have hbd := Dask.Lemmas.Indexing.newChunks_bounded hpos indexer
      have hgood : ∀ t ∈ newChunks (maxChunk cs).toNat indexer,
          t ≠ [] ∧ (t.length : Int) ≤ maxChunk cs ∧ ∀ p ∈ t, 0 ≤ p ∧ p < isum cs := by
        intro t ht
        have hb := hbd t ht
        refine ⟨by intro e; rw [e] at hb; simp at hb, by omega, ?_⟩
        intro p hp
        have : p ∈ indexer.flatten := by rw [← hfl]; exact List.mem_flatten.mpr ⟨t, ht, hp⟩
        rcases List.mem_flatten.mp this with ⟨g, hg, hpg⟩
        exact hin g hg p hpg
      refine ⟨_, evalChunks_correct argsort hA cs hcs x _ hgood, ?_, ?_⟩
      · rw [← List.map_flatten, hfl]
      · simp [List.map_map, Function.comp_def]


include hA hcs in
/-- no `_getitem` task of an output chunk reads outside its source block. -/
theorem pieces_in_block (taker : List Int) (hne : taker ≠ [])
    (hin : ∀ p ∈ taker, 0 ≤ p ∧ p < isum cs) (hlen : (taker.length : Int) ≤ maxChunk cs)
    (p : Plan) (hp : planChunk argsort cs taker = .ok p) :
    ∀ q ∈ p.pieces, ∀ o ∈ q.2, q.1 < cs.length ∧ 0 ≤ o ∧ o < cs.getD q.1 0 := by
  rcases planChunk_correct argsort hA cs hcs taker hne hin hlen (fun p => p) with ⟨p', hp', he⟩
  rw [hp] at hp'
  cases hp'
  intro q hq o ho
  unfold evalPlan at he
  cases hm : p.pieces.mapM (fun q => q.2.mapM (readBlock cs (fun p => p) q.1)) with
  | none => rw [hm] at he; simp at he
  | some vals =>
    rcases mapM_some_mem _ _ hm q hq with ⟨b, hb⟩
    rcases mapM_some_mem _ _ hb o ho with ⟨v, hv⟩
    unfold readBlock at hv
    split at hv
    · assumption
    · simp at hv

theorem posify_bounds {n i : Int} (h : -n ≤ i ∧ i < n) : 0 ≤ posifyInt n i ∧ posifyInt n i < n := by
  unfold posifyInt; split <;> omega

theorem checkItem_lst (l : List Int) (n : Int) :
    checkItem (.lst l, some n) = if (∀ i ∈ l, -n ≤ i ∧ i < n) then .ok () else .error .indexError := by
  simp only [checkItem]
  by_cases h : ∀ i ∈ l, -n ≤ i ∧ i < n
  · rw [if_pos h, if_neg]
    simp only [List.any_eq_true, decide_eq_true_eq, not_or, not_exists, not_and]
    exact ⟨fun i hi => by have := h i hi; omega, fun i hi => by have := h i hi; omega⟩
  · rw [if_neg h, if_pos]
    simp only [List.any_eq_true, decide_eq_true_eq]
    apply Classical.byContradiction
    intro hn
    apply h
    intro i hi
    constructor
    · apply Classical.byContradiction; intro hc; exact hn (Or.inr ⟨i, hi, by omega⟩)
    · apply Classical.byContradiction; intro hc; exact hn (Or.inl ⟨i, hi, by omega⟩)

include hA hcs in
theorem take_correct {α} (index : List Int) (x : Int → α) :
    (¬ (∀ i ∈ index, -(isum cs) ≤ i ∧ i < isum cs) → takeEval argsort cs index x = .err .indexError) ∧
    ((∀ i ∈ index, -(isum cs) ≤ i ∧ i < isum cs) →
      ∃ out, takeEval argsort cs index x = .ok out ∧
        out.flatten = index.map (fun i => x (posifyInt (isum cs) i)) ∧
        out.map (fun c => (c.length : Int)) = takeChunksS cs index) := by
  constructor
  · intro h
    unfold takeEval
    simp only [checkItem_lst, if_neg h]
  · intro h
    unfold takeEval takeChunksS
    simp only [checkItem_lst, if_pos h]
    by_cases he : (index.map (posifyInt (isum cs))).isEmpty = true
    · simp only [he, ↓reduceIte]
      have : index = [] := by simpa using he
      subst this
      exact ⟨_, rfl, rfl, rfl⟩
    · simp only [he, Bool.false_eq_true, ↓reduceIte]
      by_cases hr : index.map (posifyInt (isum cs)) = rangeList 0 (isum cs) 1
      · simp only [hr, ↓reduceIte]
        refine ⟨_, rfl, ?_, blocksFrom_length x cs 0 hcs⟩
        have h0 := isum_nonneg cs hcs
        have e := rangeList_unit 0 (isum cs) h0
        rw [Int.zero_add] at e
        rw [blocksOf, blocksFrom_flatten x cs 0 hcs]
        have : index.map (fun i => x (posifyInt (isum cs) i)) = (index.map (posifyInt (isum cs))).map x := by
          rw [List.map_map]; rfl
        rw [this, hr, e, List.map_map]
        rfl
      · simp only [hr, ↓reduceIte]
        have hfl := Dask.Lemmas.Indexing.computeIndexer_flatten (index.map (posifyInt (isum cs))) cs
        have hib : InBounds (isum cs) (computeIndexer (index.map (posifyInt (isum cs))) cs) := by
          intro g hg p hp
          have : p ∈ index.map (posifyInt (isum cs)) := by
            rw [← hfl]; exact List.mem_flatten.mpr ⟨g, hg, hp⟩
          rcases List.mem_map.mp this with ⟨i, hi, rfl⟩
          exact posify_bounds (h i hi)
        rcases shuffle_correct argsort hA cs hcs _ hib x with ⟨out, h1, h2, h3⟩
        refine ⟨out, h1, ?_, h3⟩
        rw [h2, hfl, List.map_map]
        rfl

end top
end Dask.Lemmas.Shuffle
