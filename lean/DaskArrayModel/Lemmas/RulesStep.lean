/-
Rewrite-rule layer, generic part: a step anywhere in the tree with any list of sound root rules is
sound (congruence), `optimize` reaches a normal form (`step (optimize e) = none`), is idempotent,
and is sound for every well-formed expression (induction on the measure).
-/
import DaskArrayModel.Lemmas.RulesBase
namespace Dask.ND
open Dask.Py Dask.Py.PySlice Dask.Slicing

/-- a rule is sound: on a well-formed expression its product is well-formed and denotes the same array -/
def Sound (r : Expr → Option Expr) : Prop :=
  ∀ (env : Env) (e e' : Expr), WF e → r e = some e' → Refines env e' e

theorem firstRule_sound (rs : List (String × (Expr → Option Expr))) (h : ∀ r ∈ rs, Sound r.2)
    (env : Env) : ∀ e p, WF e → firstRule rs e = some p → Refines env p.2 e := by
  induction rs with
  | nil => intro e p _ hp; simp [firstRule] at hp
  | cons r rs ih =>
    intro e p hw hp
    obtain ⟨n, f⟩ := r
    simp only [firstRule] at hp
    split at hp
    · rename_i e' he
      injection hp with hp; subst hp
      exact h (n, f) (by simp) env e e' hw he
    · exact ih (fun r hr => h r (List.mem_cons_of_mem _ hr)) e p hw hp

/-- one step anywhere in the tree, with any list of sound root rules, is sound -/
theorem stepWith_sound (rs : List (String × (Expr → Option Expr))) (h : ∀ r ∈ rs, Sound r.2)
    (env : Env) (henv : EnvOK env) : ∀ e p, WF e → stepWith rs e = some p → Refines env p.2 e := by
  intro e
  induction e with
  | src id sh ch => intro p hw hp; exact firstRule_sound rs h env _ p hw hp
  | map f a ih =>
    intro p hw hp
    simp only [stepWith] at hp
    rcases orElse2_some hp with h1 | ⟨_, h2⟩
    · exact firstRule_sound rs h env _ p hw h1
    · obtain ⟨q, hq, rfl⟩ := Option.map_eq_some_iff.mp h2
      exact (ih q (by simpa only [WF, wf] using hw) hq).map f
  | zip f a b iha ihb =>
    intro p hw hp
    simp only [stepWith] at hp
    have hw' := hw
    simp only [WF, wf, Bool.and_eq_true, decide_eq_true_eq] at hw'
    rcases orElse2_some hp with h1 | ⟨_, h2⟩
    · exact firstRule_sound rs h env _ p hw h1
    · rcases orElse2_some h2 with h3 | ⟨_, h3⟩
      · obtain ⟨q, hq, rfl⟩ := Option.map_eq_some_iff.mp h3
        obtain ⟨hq1, hq2⟩ := keepGrid_some hq
        exact (iha q hw'.1.1.1 hq1).zipL f hq2 hw
      · obtain ⟨q, hq, rfl⟩ := Option.map_eq_some_iff.mp h3
        obtain ⟨hq1, hq2⟩ := keepGrid_some hq
        exact (ihb q hw'.1.1.2 hq1).zipR f hq2 hw
  | slice a idx ih =>
    intro p hw hp
    simp only [stepWith] at hp
    have hw' := hw
    simp only [WF, wf, Bool.and_eq_true] at hw'
    rcases orElse2_some hp with h1 | ⟨_, h2⟩
    · exact firstRule_sound rs h env _ p hw h1
    · obtain ⟨q, hq, rfl⟩ := Option.map_eq_some_iff.mp h2
      exact (ih q hw'.1 hq).slice idx hw
  | transpose a perm ih =>
    intro p hw hp
    simp only [stepWith] at hp
    have hw' := hw
    simp only [WF, wf, Bool.and_eq_true] at hw'
    rcases orElse2_some hp with h1 | ⟨_, h2⟩
    · exact firstRule_sound rs h env _ p hw h1
    · obtain ⟨q, hq, rfl⟩ := Option.map_eq_some_iff.mp h2
      exact (ih q hw'.1 hq).transpose perm hw
  | rechunk a l ih =>
    intro p hw hp
    simp only [stepWith] at hp
    have hw' := hw
    simp only [WF, wf, Bool.and_eq_true] at hw'
    rcases orElse2_some hp with h1 | ⟨_, h2⟩
    · exact firstRule_sound rs h env _ p hw h1
    · obtain ⟨q, hq, rfl⟩ := Option.map_eq_some_iff.mp h2
      exact (ih q hw'.1 hq).rechunk l hw
  | concat a b ax iha ihb =>
    intro p hw hp
    simp only [stepWith] at hp
    have hw' := hw
    simp only [WF, wf, Bool.and_eq_true, decide_eq_true_eq] at hw'
    rcases orElse2_some hp with h1 | ⟨_, h2⟩
    · exact firstRule_sound rs h env _ p hw h1
    · rcases orElse2_some h2 with h3 | ⟨_, h3⟩
      · obtain ⟨q, hq, rfl⟩ := Option.map_eq_some_iff.mp h3
        obtain ⟨hq1, hq2⟩ := keepGrid_some hq
        exact (iha q hw'.1.1.1.1 hq1).concatL ax hq2 hw
      · obtain ⟨q, hq, rfl⟩ := Option.map_eq_some_iff.mp h3
        obtain ⟨hq1, hq2⟩ := keepGrid_some hq
        exact (ihb q hw'.1.1.1.2 hq1).concatR ax hq2 hw
  | expandDims a ax ih =>
    intro p hw hp
    simp only [stepWith] at hp
    have hw' := hw
    simp only [WF, wf, Bool.and_eq_true] at hw'
    rcases orElse2_some hp with h1 | ⟨_, h2⟩
    · exact firstRule_sound rs h env _ p hw h1
    · obtain ⟨q, hq, rfl⟩ := Option.map_eq_some_iff.mp h2
      exact (ih q hw'.1 hq).expandDims ax hw
  | squeeze a ax ih =>
    intro p hw hp
    simp only [stepWith] at hp
    have hw' := hw
    simp only [WF, wf, Bool.and_eq_true] at hw'
    rcases orElse2_some hp with h1 | ⟨_, h2⟩
    · exact firstRule_sound rs h env _ p hw h1
    · obtain ⟨q, hq, rfl⟩ := Option.map_eq_some_iff.mp h2
      obtain ⟨hq1, hq2⟩ := keepGrid_some hq
      exact (ih q hw'.1.1 hq1).squeeze ax hq2 hw
  | broadcastTo a sh l ih =>
    intro p hw hp
    simp only [stepWith] at hp
    have hw' := hw
    simp only [WF, wf, Bool.and_eq_true] at hw'
    rcases orElse2_some hp with h1 | ⟨_, h2⟩
    · exact firstRule_sound rs h env _ p hw h1
    · obtain ⟨q, hq, rfl⟩ := Option.map_eq_some_iff.mp h2
      obtain ⟨hq1, hq2⟩ := keepGrid_some hq
      exact (ih q hw'.1.1.1 hq1).broadcastTo sh l hq2 hw
  | reduce r a ax k ih =>
    intro p hw hp
    simp only [stepWith] at hp
    have hw' := hw
    simp only [WF, wf, Bool.and_eq_true] at hw'
    rcases orElse2_some hp with h1 | ⟨_, h2⟩
    · exact firstRule_sound rs h env _ p hw h1
    · obtain ⟨q, hq, rfl⟩ := Option.map_eq_some_iff.mp h2
      obtain ⟨hq1, hq2⟩ := keepGrid_some hq
      exact (ih q hw'.1.1.1 hq1).reduce r ax k hq2 hw
  | cumsum a ax ih =>
    intro p hw hp
    simp only [stepWith] at hp
    have hw' := hw
    simp only [WF, wf, Bool.and_eq_true] at hw'
    rcases orElse2_some hp with h1 | ⟨_, h2⟩
    · exact firstRule_sound rs h env _ p hw h1
    · obtain ⟨q, hq, rfl⟩ := Option.map_eq_some_iff.mp h2
      exact (ih q hw'.1 hq).cumsum ax hw
  | mapBlocks f a ih =>
    intro p hw hp
    simp only [stepWith] at hp
    rcases orElse2_some hp with h1 | ⟨_, h2⟩
    · exact firstRule_sound rs h env _ p hw h1
    · obtain ⟨q, hq, rfl⟩ := Option.map_eq_some_iff.mp h2
      obtain ⟨hq1, hq2⟩ := keepGrid_some hq
      exact (ih q (by simpa only [WF, wf] using hw) hq1).mapBlocks henv f hq2 hw

/-! ### the fixpoint -/

theorem optimize_eq (e : Expr) :
    optimize e = match step e with
      | none => e
      | some e' => optimize e' := by
  rw [optimize]
  split <;> simp [*]

/-- strong induction on the measure -/
theorem mu_induction {P : Expr → Prop} (h : ∀ e, (∀ e', mu e' < mu e → P e') → P e) : ∀ e, P e := by
  intro e
  generalize hn : mu e = n
  induction n using Nat.strongRecOn generalizing e with
  | _ n ih => exact h e (fun e' he' => ih (mu e') (hn ▸ he') e' rfl)

/-- the result of `optimize` is a normal form -/
theorem step_optimize (e : Expr) : step (optimize e) = none := by
  induction e using mu_induction with
  | _ e ih =>
    rw [optimize_eq]
    cases hs : step e with
    | none => simpa using hs
    | some e' => simpa using ih e' (step_dec e e' hs)

theorem optimize_of_step_none {e : Expr} (h : step e = none) : optimize e = e := by
  rw [optimize_eq, h]

theorem optimize_idempotent (e : Expr) : optimize (optimize e) = optimize e :=
  optimize_of_step_none (step_optimize e)

/-- `optimize` with sound rules is sound -/
theorem optimize_refines (hr : ∀ r ∈ rules, Sound r.2) (env : Env) (henv : EnvOK env) (e : Expr) :
    WF e → Refines env (optimize e) e := by
  induction e using mu_induction with
  | _ e ih =>
    intro hw
    rw [optimize_eq]
    cases hs : step e with
    | none => exact Refines.refl hw
    | some e' =>
      have hs' := hs
      unfold step at hs'
      obtain ⟨q, hq, rfl⟩ := Option.map_eq_some_iff.mp hs'
      have h1 := stepWith_sound rules hr env henv e q hw hq
      exact (ih q.2 (step_dec e q.2 hs) h1.isWF).trans h1

end Dask.ND
