/-
Negative-step half of the `_slice_1d` partition theorem: the `loopNeg` loop over the
blocks in descending order reads exactly the descending range `rangeList rstart stop step`.
-/
import DaskArrayModel.Lemmas.Slice1dNegRange
namespace Dask.Lemmas.Slice1dNeg
open Dask.Py Dask.Py.PySlice Dask.Slicing

/-! ### block triples -/

theorem isum_append (a b : List Int) : isum (a ++ b) = isum a + isum b := by
  induction a with
  | nil => simp [isum]
  | cons x xs ih => simp only [List.cons_append, isum, ih]; omega

theorem blockTriplesFrom_append (i : Nat) (acc : Int) (A B : List Int) :
    blockTriplesFrom i acc (A ++ B)
      = blockTriplesFrom i acc A ++ blockTriplesFrom (i + A.length) (acc + isum A) B := by
  induction A generalizing i acc with
  | nil => simp [blockTriplesFrom, isum]
  | cons x xs ih =>
    simp only [List.cons_append, blockTriplesFrom, ih, isum, List.length_cons]
    have e1 : i + 1 + xs.length = i + (xs.length + 1) := by omega
    have e2 : acc + x + isum xs = acc + (x + isum xs) := by omega
    rw [e1, e2]

/-- all blocks below block `m`, in descending order. -/
def descT (L : List Int) (m : Nat) : List (Nat × Int × Int) := (blockTriples (L.take m)).reverse

theorem descT_zero (L : List Int) : descT L 0 = [] := by
  simp [descT, blockTriples, blockTriplesFrom]

theorem descT_succ (L : List Int) (m : Nat) (h : m < L.length) :
    descT L (m + 1) = (m, blockStart L m, blockStart L m + L[m]) :: descT L m := by
  unfold descT blockTriples
  rw [List.take_succ_eq_append_getElem h, blockTriplesFrom_append]
  simp only [blockTriplesFrom, List.reverse_append, List.reverse_cons, List.reverse_nil,
    List.nil_append, List.singleton_append, List.length_take, blockStart]
  have : min m L.length = m := by omega
  simp [this]

theorem descT_length (L : List Int) : descT L L.length = (blockTriples L).reverse := by
  simp [descT]

theorem planPositions_cons (L : List Int) (p : Nat × PySlice) (ps : List (Nat × PySlice)) :
    planPositions L (p :: ps)
      = (sel p.2 (L.getD p.1 0)).map (· + blockStart L p.1) ++ planPositions L ps := by
  simp [planPositions]

theorem planPositions_nil (L : List Int) : planPositions L [] = [] := by
  simp [planPositions]

/-! ### one block -/

/-- the local slice emitted for a contributing block `[a, b)` reads local positions
`r - a, r - a + c, …` down to (exclusive) `max (-1) (E - a)`. -/
theorem sel_block (a b r E c : Int) (hc : c < 0) (har : a ≤ r) (hrb : r < b) (hE : E < r) :
    sel ⟨some (r - b), some (max (a - b - 1) (E - b)), some c⟩ (b - a)
      = rangeList (r - a) (max (-1) (E - a)) c := by
  have h1 : PySlice.istart ⟨some (r - b), some (max (a - b - 1) (E - b)), some c⟩ (b - a) = r - a := by
    simp only [PySlice.istart, PySlice.stp, Option.getD_some, adjust, hc, decide_true, if_true]
    split <;> split <;> omega
  have h2 : PySlice.istop ⟨some (r - b), some (max (a - b - 1) (E - b)), some c⟩ (b - a)
      = max (-1) (E - a) := by
    simp only [PySlice.istop, PySlice.stp, Option.getD_some, adjust, hc, decide_true, if_true]
    split <;> split <;> omega
  simp only [sel, h1, h2, PySlice.stp, Option.getD_some]

theorem loopNeg_nil_of_le (c E : Int) (T : List (Nat × Int × Int)) (r : Int) (h : r ≤ E) :
    loopNeg c E T r = [] := by
  induction T with
  | nil => simp [loopNeg]
  | cons t ts ih =>
    obtain ⟨i, a, b⟩ := t
    have : ¬ ((a ≤ r ∧ r < b) ∧ r > E) := by omega
    simp [loopNeg, this, ih]

/-! ### the loop -/

/-- MAIN LOOP LEMMA. Visiting all blocks below block `m` in descending order with running
start `r` below the top of block `m - 1`, the plan reads exactly `range(r, E, c)`. -/
theorem loopNeg_positions (L : List Int) (c E : Int) (hc : c < 0) (hE : -1 ≤ E) :
    ∀ m, m ≤ L.length → ∀ r, r < blockStart L m →
      planPositions L (loopNeg c E (descT L m) r) = rangeList r E c := by
  intro m
  induction m with
  | zero =>
    intro _ r hr
    simp only [blockStart, List.take_zero, isum] at hr
    rw [descT_zero, rangeList_neg_nil r E c hc (by omega)]
    simp [loopNeg, planPositions]
  | succ m ih =>
    intro hm r hr
    have hm' : m < L.length := by omega
    have hbs : blockStart L (m + 1) = blockStart L m + L[m] := by
      simp only [blockStart, List.take_succ_eq_append_getElem hm', isum_append, isum]; omega
    rw [hbs] at hr
    rw [descT_succ L m hm']
    by_cases hcond : (blockStart L m ≤ r ∧ r < blockStart L m + L[m]) ∧ r > E
    · simp only [loopNeg, hcond, and_self, if_true]
      have hb := pyMod_neg_bounds (r - (blockStart L m - 1)) c hc
      rw [planPositions_cons, ih (by omega) _ (by omega)]
      have hget : L.getD m 0 = blockStart L m + L[m] - blockStart L m := by
        simp only [List.getD_eq_getElem?_getD, List.getElem?_eq_getElem hm', Option.getD_some]; omega
      simp only [hget]
      rw [sel_block _ _ _ _ _ hc hcond.1.1 hcond.1.2 hcond.2, rangeList_shift,
        rangeList_split (blockStart L m) E c r hc hcond.1.1]
      have e1 : r - blockStart L m + blockStart L m = r := by omega
      have e2 : max (-1) (E - blockStart L m) + blockStart L m = max (blockStart L m - 1) E := by omega
      rw [e1, e2]
    · simp only [loopNeg, hcond, if_false]
      by_cases hrE : r ≤ E
      · rw [loopNeg_nil_of_le c E _ r hrE, rangeList_neg_nil r E c hc hrE, planPositions_nil]
      · exact ih (by omega) r (by omega)

/-! ### shape of the emitted entries -/

theorem loopNeg_mem (c E : Int) (T : List (Nat × Int × Int)) :
    ∀ r p, p ∈ loopNeg c E T r →
      ∃ a b r0, (p.1, a, b) ∈ T ∧ a ≤ r0 ∧ r0 < b ∧ E < r0 ∧
        p.2 = ⟨some (r0 - b), some (max (a - b - 1) (E - b)), some c⟩ := by
  induction T with
  | nil => intro r p h; simp [loopNeg] at h
  | cons t ts ih =>
    obtain ⟨i, a, b⟩ := t
    intro r p h
    by_cases hcond : (a ≤ r ∧ r < b) ∧ r > E
    · simp only [loopNeg, hcond, and_self, if_true, List.mem_cons] at h
      rcases h with h | h
      · subst h
        exact ⟨a, b, r, by simp, hcond.1.1, hcond.1.2, hcond.2, rfl⟩
      · obtain ⟨a', b', r0, h1, h2⟩ := ih _ p h
        exact ⟨a', b', r0, List.mem_cons_of_mem _ h1, h2⟩
    · simp only [loopNeg, hcond, if_false] at h
      obtain ⟨a', b', r0, h1, h2⟩ := ih _ p h
      exact ⟨a', b', r0, List.mem_cons_of_mem _ h1, h2⟩

theorem loopNeg_keys_sublist (c E : Int) (T : List (Nat × Int × Int)) :
    ∀ r, ((loopNeg c E T r).map (·.1)).Sublist (T.map (·.1)) := by
  induction T with
  | nil => intro r; simp [loopNeg]
  | cons t ts ih =>
    obtain ⟨i, a, b⟩ := t
    intro r
    by_cases hcond : (a ≤ r ∧ r < b) ∧ r > E
    · simp only [loopNeg, hcond, and_self, if_true, List.map_cons]
      exact (ih _).cons_cons _
    · simp only [loopNeg, hcond, if_false, List.map_cons]
      exact (ih _).cons _

/-! ### skipping blocks that cannot contribute -/

theorem loopNeg_filter (c E S : Int) (hc : c < 0) (P : Nat × Int × Int → Bool)
    (T : List (Nat × Int × Int))
    (hT : ∀ t ∈ T, P t = false → S < t.2.1 ∨ t.2.2 ≤ E + 1) :
    ∀ r, r ≤ S → loopNeg c E (T.filter P) r = loopNeg c E T r := by
  induction T with
  | nil => intro r _; simp
  | cons t ts ih =>
    obtain ⟨i, a, b⟩ := t
    intro r hr
    have ih' := ih (fun t ht => hT t (List.mem_cons_of_mem _ ht))
    cases hP : P (i, a, b) with
    | true =>
      rw [List.filter_cons_of_pos (by simpa using hP)]
      by_cases hcond : (a ≤ r ∧ r < b) ∧ r > E
      · have hb := pyMod_neg_bounds (r - (a - 1)) c hc
        simp only [loopNeg, hcond, and_self, if_true]
        rw [ih' _ (by omega)]
      · simp only [loopNeg, hcond, if_false]
        exact ih' r hr
    | false =>
      rw [List.filter_cons_of_neg (by simp [hP])]
      have := hT (i, a, b) (by simp) hP
      have hcond : ¬ ((a ≤ r ∧ r < b) ∧ r > E) := by
        simp only at this; omega
      simp only [loopNeg, hcond, if_false]
      exact ih' r hr

/-! ### bisect on the chunk boundaries -/

theorem blockTriplesFrom_mem_bounds (i : Nat) (acc : Int) (L : List Int) (hl : ∀ x ∈ L, 0 ≤ x) :
    ∀ t ∈ blockTriplesFrom i acc L, i ≤ t.1 ∧ t.1 < i + L.length ∧ acc ≤ t.2.1 ∧ t.2.1 ≤ t.2.2 := by
  induction L generalizing i acc with
  | nil => intro t h; simp [blockTriplesFrom] at h
  | cons x xs ih =>
    intro t h
    have hx : 0 ≤ x := hl x (by simp)
    simp only [blockTriplesFrom, List.mem_cons] at h
    rcases h with h | h
    · subst h; simp; omega
    · have := ih (i + 1) (acc + x) (fun y hy => hl y (List.mem_cons_of_mem _ hy)) t h
      simp only [List.length_cons]; omega

/-- a block whose upper boundary is `≤ x` has index `< bisect_right(bounds, x)`, and conversely. -/
theorem blockTriplesFrom_lt_bisectRight (i : Nat) (acc : Int) (L : List Int)
    (hl : ∀ y ∈ L, 0 ≤ y) (x : Int) :
    ∀ t ∈ blockTriplesFrom i acc L,
      (t.1 < i + bisectRight (cumsumFrom acc L) x ↔ t.2.2 ≤ x) := by
  induction L generalizing i acc with
  | nil => intro t h; simp [blockTriplesFrom] at h
  | cons y ys ih =>
    intro t h
    have hy : 0 ≤ y := hl y (by simp)
    have hl' : ∀ z ∈ ys, 0 ≤ z := fun z hz => hl z (List.mem_cons_of_mem _ hz)
    simp only [blockTriplesFrom, List.mem_cons] at h
    simp only [cumsumFrom, bisectRight]
    rcases h with h | h
    · subst h
      by_cases hx : x < acc + y
      · simp [hx]
      · simp [hx]; omega
    · have hb := blockTriplesFrom_mem_bounds (i + 1) (acc + y) ys hl' t h
      have := ih (i + 1) (acc + y) hl' t h
      by_cases hx : x < acc + y
      · simp only [hx, if_true]; omega
      · simp only [hx, if_false]; omega

/-- a block whose lower boundary is `≤ x` has index `≤ bisect_right(bounds, x)`. -/
theorem blockTriplesFrom_le_bisectRight (i : Nat) (acc : Int) (L : List Int)
    (hl : ∀ y ∈ L, 0 ≤ y) (x : Int) :
    ∀ t ∈ blockTriplesFrom i acc L, t.2.1 ≤ x → t.1 ≤ i + bisectRight (cumsumFrom acc L) x := by
  induction L generalizing i acc with
  | nil => intro t h; simp [blockTriplesFrom] at h
  | cons y ys ih =>
    intro t h htx
    have hy : 0 ≤ y := hl y (by simp)
    have hl' : ∀ z ∈ ys, 0 ≤ z := fun z hz => hl z (List.mem_cons_of_mem _ hz)
    simp only [blockTriplesFrom, List.mem_cons] at h
    simp only [cumsumFrom, bisectRight]
    rcases h with h | h
    · subst h; omega
    · have hb := blockTriplesFrom_mem_bounds (i + 1) (acc + y) ys hl' t h
      have := ih (i + 1) (acc + y) hl' t h htx
      have hx : ¬ x < acc + y := by omega
      simp only [hx, if_false]; omega

theorem cumsumFrom_length (acc : Int) (L : List Int) : (cumsumFrom acc L).length = L.length := by
  induction L generalizing acc with
  | nil => simp [cumsumFrom]
  | cons x xs ih => simp [cumsumFrom, ih]

theorem blockTriplesFrom_keys_pairwise (i : Nat) (acc : Int) (L : List Int) :
    List.Pairwise (· < ·) ((blockTriplesFrom i acc L).map (·.1))
      ∧ ∀ t ∈ blockTriplesFrom i acc L, i ≤ t.1 ∧ t.1 < i + L.length := by
  induction L generalizing i acc with
  | nil => simp [blockTriplesFrom]
  | cons x xs ih =>
    obtain ⟨h1, h2⟩ := ih (i + 1) (acc + x)
    simp only [blockTriplesFrom, List.map_cons, List.pairwise_cons, List.mem_map, List.mem_cons,
      List.length_cons]
    refine ⟨⟨?_, h1⟩, ?_⟩
    · rintro k ⟨t, ht, rfl⟩
      have := h2 t ht; omega
    · rintro t (rfl | ht)
      · simp
      · have := h2 t ht; omega

end Dask.Lemmas.Slice1dNeg
