/-
Lemmas for `gradient` (Model/Gradient.lean), one axis.

* `getSl_nonneg`: `x[s:e]` for non-negative bounds is `drop`/`take` (any length: both clamp);
* `arrayLocs_spec`, `coordSlice_eq`: the arithmetic of `array_locs` entry by entry, and the coordinate slice of block
  `b` as the positions `slab cs coords b = coords[lo_b - (b>0) : lo_b + c_b + (b<last)]`;
* `extBlock_slab`: the extended block of `overlap(depth 1, boundary none)` is the same positions of the values;
* `slice_local`, `block_edge`: an `EdgeLocal` kernel on a slab agrees, after the trim, with the kernel on the whole axis;
* `gradientBlocks_eq_cut`, `gradientCoord_eq`: the chunked gradient is the global one.
Core Lean only.
-/
import DaskArrayModel.Model.Gradient
import DaskArrayModel.Lemmas.OverlapPipe
import DaskArrayModel.Model.Window
namespace Dask.Lemmas.Gradient
open Dask.Py Dask.Py.PySlice Dask.OverlapSlice Dask.OverlapPipe Dask.Gradient Dask.Lemmas.OverlapSlice Dask.Lemmas.OverlapPipe

variable {α β γ V C : Type}

theorem getSl_nonneg (s e : Nat) (x : List α) :
    getSl ⟨some (s : Int), some (e : Int), none⟩ x = (x.drop s).take (e - s) := by
  rw [getSl_unit _ _ (by rfl)]
  have hs : (PySlice.mk (some (s : Int)) (some (e : Int)) none).istart x.length = min (s : Int) x.length := by
    simp [istart, stp, adjust]; omega
  have he : (PySlice.mk (some (s : Int)) (some (e : Int)) none).istop x.length = min (e : Int) x.length := by
    simp [istop, stp, adjust]; omega
  rw [hs, he]
  apply List.ext_getElem?
  intro i
  simp only [List.getElem?_take, List.getElem?_drop]
  by_cases h1 : s + i < x.length
  · have e1 : (min (s : Int) x.length).toNat = s := by omega
    rw [e1]
    by_cases h2 : i < e - s
    · rw [if_pos h2, if_pos (by omega)]
    · rw [if_neg h2, if_neg (by omega)]
  · have : x[s + i]? = none := List.getElem?_eq_none (by omega)
    have h3 : x[(min (s : Int) x.length).toNat + i]? = none := List.getElem?_eq_none (by omega)
    rw [this, h3]; simp
theorem lo_succ (cs : List Nat) (k : Nat) : lo cs (k + 1) = lo cs k + cs.getD k 0 := by
  induction cs generalizing k with
  | nil => simp [lo]
  | cons c cs ih =>
    cases k with
    | zero => simp [lo]
    | succ k =>
      have := ih k
      simp [lo] at this ⊢
      omega

theorem cumsumFrom_nat : ∀ (cs : List Nat) (acc : Int) (b : Nat), b < cs.length →
    (cumsumFrom acc (cs.map Int.ofNat))[b]? = some (acc + (lo cs (b + 1) : Nat))
  | [], _, _, h => by simp at h
  | c :: cs, acc, 0, _ => by simp [cumsumFrom, lo]
  | c :: cs, acc, b + 1, h => by
    simp only [List.map_cons, cumsumFrom, List.getElem?_cons_succ]
    rw [cumsumFrom_nat cs _ b (by simpa using h)]
    simp [lo, List.take_succ_cons]
    omega

theorem cumsumFrom_len : ∀ (l : List Int) (acc : Int), (cumsumFrom acc l).length = l.length
  | [], _ => rfl
  | x :: xs, acc => by simp [cumsumFrom, cumsumFrom_len xs]

theorem decLast_spec : ∀ (l : List Int), l ≠ [] →
    ∃ l', decLast l = some l' ∧ l'.length = l.length ∧
      ∀ b, l'[b]? = if b + 1 = l.length then l[b]?.map (· - 1) else l[b]?
  | [], h => absurd rfl h
  | [a], _ => ⟨[a - 1], rfl, rfl, fun b => by cases b <;> simp⟩
  | a :: c :: r, _ => by
    obtain ⟨l', h1, h2, h3⟩ := decLast_spec (c :: r) (by simp)
    refine ⟨a :: l', by simp [decLast, h1], by simp [h2], ?_⟩
    intro b
    cases b with
    | zero => simp
    | succ b =>
      simp only [List.getElem?_cons_succ, List.length_cons]
      rw [h3 b]
      simp only [List.length_cons]
      by_cases h : b + 1 = r.length + 1
      · rw [if_pos h, if_pos (by omega)]
      · rw [if_neg h, if_neg (by omega)]

/-- the two arrays of `array_locs`, entry by entry -/
theorem arrayLocs_spec (cs : List Nat) (hne : cs ≠ []) :
    ∃ st sp, arrayLocs (cs.map Int.ofNat) = some (st, sp) ∧
      ∀ b, b < cs.length →
        st[b]? = some (if b = 0 then 0 else ((lo cs (b + 1) : Nat) : Int) + 1 - (cs.getD b 0 : Nat) - 2) ∧
        sp[b]? = some (((lo cs (b + 1) : Nat) : Int) + 1 - (if b + 1 = cs.length then 1 else 0)) := by
  have hlen : ((cumsum (cs.map Int.ofNat)).map (· + 1)).length = cs.length := by
    simp [cumsum, cumsumFrom_len]
  have hne' : (cumsum (cs.map Int.ofNat)).map (· + 1) ≠ [] := by
    intro h; rw [h] at hlen; exact hne (List.eq_nil_of_length_eq_zero hlen.symm)
  obtain ⟨sp, h1, h2, h3⟩ := decLast_spec _ hne'
  have hstop0 : ∀ b, b < cs.length →
      ((cumsum (cs.map Int.ofNat)).map (· + 1))[b]? = some (((lo cs (b + 1) : Nat) : Int) + 1) := by
    intro b hb
    simp only [cumsum, List.getElem?_map, cumsumFrom_nat cs 0 b hb]
    simp
  obtain ⟨c0, cr, rfl⟩ : ∃ c0 cr, cs = c0 :: cr := by
    cases cs with
    | nil => exact absurd rfl hne
    | cons a r => exact ⟨a, r, rfl⟩
  refine ⟨0 :: (List.zipWith (fun s c => s - c - 2) ((cumsum ((c0 :: cr).map Int.ofNat)).map (· + 1))
    ((c0 :: cr).map Int.ofNat)).tail, sp, ?_, ?_⟩
  · unfold arrayLocs
    simp only [h1]
    simp [cumsum, cumsumFrom, setFirstZero]
  · intro b hb
    constructor
    · cases b with
      | zero => simp
      | succ b =>
        have := hstop0 (b + 1) hb
        rw [List.getElem?_cons_succ, List.getElem?_tail, List.getElem?_zipWith, this]
        have hc : ((c0 :: cr).map Int.ofNat)[b + 1]? = some (((c0 :: cr).getD (b + 1) 0 : Nat) : Int) := by
          rw [List.getElem?_map, List.getD_eq_getElem?_getD, List.getElem?_eq_getElem hb]
          simp
        rw [hc]
        simp
    · rw [h3 b, hlen, hstop0 b hb]
      by_cases h : b + 1 = (c0 :: cr).length
      · rw [if_pos h, if_pos h]; simp
      · rw [if_neg h, if_neg h]; simp

theorem one_le_lo (cs : List Nat) (hpos : ∀ c ∈ cs, 1 ≤ c) (k : Nat) (hk : 0 < k) (hk2 : k ≤ cs.length) :
    1 ≤ lo cs k := by
  cases cs with
  | nil => simp at hk2; omega
  | cons c cs =>
    obtain ⟨j, rfl⟩ : ∃ j, k = j + 1 := ⟨k - 1, by omega⟩
    have := hpos c (by simp)
    simp [lo, List.take_succ_cons]
    omega

/-- **the coordinate slice of block `b`** -/
theorem coordSlice_eq (cs : List Nat) (coords : List C) (hpos : ∀ c ∈ cs, 1 ≤ c) (b : Nat) (hb : b < cs.length) :
    coordSlice cs coords b = some (slab cs coords b) := by
  have hne : cs ≠ [] := by intro h; rw [h] at hb; simp at hb
  obtain ⟨st, sp, h1, h2⟩ := arrayLocs_spec cs hne
  obtain ⟨hs, he⟩ := h2 b hb
  unfold coordSlice coordSliceWith
  rw [h1]
  simp only [hs, he]
  have hsucc := lo_succ cs b
  by_cases h0 : b = 0
  · subst h0
    have hlo0 : lo cs 0 = 0 := by simp [lo]
    have e1 : (((lo cs (0 + 1) : Nat) : Int) + 1 - (if 0 + 1 = cs.length then 1 else 0)) =
        ((cs.getD 0 0 + (if 0 + 1 < cs.length then 1 else 0) : Nat) : Int) := by
      rw [hsucc, hlo0]
      by_cases h : 0 + 1 = cs.length
      · rw [if_pos h, if_neg (by omega)]; simp
      · rw [if_neg h, if_pos (by omega)]; simp
    rw [e1]
    have := getSl_nonneg 0 (cs.getD 0 0 + (if 0 + 1 < cs.length then 1 else 0)) coords
    simp only [Int.natCast_zero] at this
    simp only [if_true]
    rw [this]
    simp [slab, hlo0]
  · have hl := one_le_lo cs hpos b (by omega) (by omega)
    have e0 : (if b = 0 then (0 : Int) else ((lo cs (b + 1) : Nat) : Int) + 1 - (cs.getD b 0 : Nat) - 2) =
        ((lo cs b - 1 : Nat) : Int) := by
      rw [if_neg h0, hsucc]; omega
    have e1 : (((lo cs (b + 1) : Nat) : Int) + 1 - (if b + 1 = cs.length then 1 else 0)) =
        ((lo cs b + cs.getD b 0 + (if b + 1 < cs.length then 1 else 0) : Nat) : Int) := by
      rw [hsucc]
      by_cases h : b + 1 = cs.length
      · rw [if_pos h, if_neg (by omega)]; simp
      · rw [if_neg h, if_pos (by omega)]; simp
    rw [e0, e1, getSl_nonneg]
    simp only [slab, if_pos (show 0 < b by omega)]
    congr 2
    omega
theorem getD_mem' (cs : List Nat) (k : Nat) (hk : k < cs.length) : cs.getD k 0 ∈ cs := by
  rw [List.getD_eq_getElem?_getD, List.getElem?_eq_getElem hk]; exact List.getElem_mem hk

/-- the extended block of `overlap(x, depth 1, boundary none)` is the slab -/
theorem extBlock_slab (cs : List Nat) (x : List α) (hG : Guard 1 1 cs x.length) (k : Nat) (hk : k < cs.length) :
    extBlock 1 1 (cut cs x) k = slab cs x k := by
  rw [extBlock_sources 1 1 cs x hG k hk]
  obtain ⟨hne, hsum, hmin⟩ := hG
  have hpos : ∀ c ∈ cs, 1 ≤ c := fun c hc => by have := hmin c hc; omega
  have hle := lo_le_sum cs k
  unfold slab
  by_cases h0 : 0 < k
  · have hl := one_le_lo cs hpos k h0 (by omega)
    rw [if_pos h0]
    by_cases h1 : k + 1 < cs.length
    · rw [if_pos h1]; congr 1; omega
    · rw [if_neg h1]
      have hlast : lo cs k + cs.getD k 0 = cs.sum := by
        have := lo_succ cs k
        have h2 : k + 1 = cs.length := by omega
        rw [← this, h2]; simp [lo]
      rw [List.take_of_length_le (by simp only [List.length_drop]; omega), List.take_of_length_le (by simp only [List.length_drop]; omega)]
  · have hk0 : k = 0 := by omega
    subst hk0
    have hlo0 : lo cs 0 = 0 := by simp [lo]
    rw [if_neg h0, hlo0]
    by_cases h1 : 0 + 1 < cs.length
    · rw [if_pos h1]; congr 1
    · rw [if_neg h1]
      have hlast : cs.getD 0 0 = cs.sum := by
        have := lo_succ cs 0
        have h2 : 0 + 1 = cs.length := by omega
        rw [hlo0] at this
        rw [← Nat.zero_add (cs.getD 0 0), ← this, h2]; simp [lo]
      rw [List.take_of_length_le (by simp only [List.length_drop]; omega), List.take_of_length_le (by simp only [List.length_drop]; omega)]

/-- an `EdgeLocal` kernel on a contiguous stretch of the axis -/
theorem slice_local {m : Nat} {K : List γ → List β} (hK : EdgeLocal m K) (x : List γ) (s L : Nat)
    (hfit : s + L ≤ x.length) (hm : m ≤ L) :
    (s = 0 → (K ((x.drop s).take L))[0]? = (K x)[0]?) ∧
    (s + L = x.length → (K ((x.drop s).take L))[L - 1]? = (K x)[x.length - 1]?) ∧
    (∀ j, 0 < j → j + 1 < L → (K ((x.drop s).take L))[j]? = (K x)[s + j]?) := by
  obtain ⟨_, hint, hleft, hright⟩ := hK
  have hEl : ((x.drop s).take L).length = L := by simp only [List.length_take, List.length_drop]; omega
  refine ⟨?_, ?_, ?_⟩
  · intro hs
    subst hs
    apply hleft _ _ (by omega) (by omega)
    simp only [List.drop_zero, List.take_take]
    rw [Nat.min_eq_left hm]
  · intro hs
    have := hright ((x.drop s).take L) x (by omega) (by omega) (by
      rw [List.take_of_length_le (by simp only [List.length_drop]; omega)]
      unfold lastN
      simp only [List.length_drop, List.drop_drop]
      congr 1
      omega)
    rw [hEl] at this
    exact this
  · intro j hj0 hj1
    obtain ⟨i, rfl⟩ : ∃ i, j = i + 1 := ⟨j - 1, by omega⟩
    have := hint ((x.drop s).take L) x i (s + i) (by omega) (by omega) (by omega) (by omega) (by
      apply List.ext_getElem?
      intro t
      rw [window_getElem?, window_getElem?]
      by_cases ht : t < 3
      · rw [if_pos ht, if_pos ht, List.getElem?_take, if_pos (by omega), List.getElem?_drop]
        congr 1
        omega
      · rw [if_neg ht, if_neg ht])
    rw [this]
    congr 1

/-- one block: the kernel on the slab, trimmed, is the block's stretch of the kernel on the whole axis -/
theorem block_edge {m : Nat} {K : List γ → List β} (hK : EdgeLocal m K) (hm1 : 1 ≤ m)
    (cs : List Nat) (x : List γ) (hsum : cs.sum = x.length) (hmin : ∀ c ∈ cs, m ≤ c)
    (k : Nat) (hk : k < cs.length) :
    trimBlock .none 1 1 cs.length k (K (slab cs x k)) = ((K x).drop (lo cs k)).take (cs.getD k 0) := by
  have hpos : ∀ c ∈ cs, 1 ≤ c := fun c hc => by have := hmin c hc; omega
  have hck := hmin _ (getD_mem' cs k hk)
  have hle := lo_le_sum cs k
  have hsucc := lo_succ cs k
  have hxm : m ≤ x.length := by omega
  have hKx := hK.1 x hxm
  rw [trimBlock_eq]
  simp only [trimFront, and_true]
  unfold slab
  generalize ha : (if 0 < k then 1 else 0) = a
  generalize hr : (if k + 1 < cs.length then 1 else 0) = r
  have ha' : (if k = 0 then 0 else 1) = a := by
    rw [← ha]; by_cases h : 0 < k
    · rw [if_pos h, if_neg (by omega)]
    · rw [if_neg h, if_pos (by omega)]
  have hr' : (if k = cs.length - 1 then 0 else 1) = r := by
    rw [← hr]; by_cases h : k + 1 < cs.length
    · rw [if_pos h, if_neg (by omega)]
    · rw [if_neg h, if_pos (by omega)]
  rw [ha', hr']
  have hlo1 : 0 < k → 1 ≤ lo cs k := fun h => one_le_lo cs hpos k h (by omega)
  have ha01 : a = 0 ∨ a = 1 := by rw [← ha]; by_cases h : 0 < k <;> simp [h]
  have hak : a ≤ lo cs k := by
    rw [← ha]; by_cases h : 0 < k
    · rw [if_pos h]; exact hlo1 h
    · rw [if_neg h]; omega
  have hrfit : lo cs k + cs.getD k 0 + r ≤ x.length := by
    rw [← hr]; by_cases h : k + 1 < cs.length
    · rw [if_pos h]
      have h2 := lo_le_sum cs (k + 1)
      have h3 := hpos _ (getD_mem' cs (k + 1) h)
      omega
    · rw [if_neg h]; omega
  have hlastr : r = 0 → lo cs k + cs.getD k 0 = x.length := by
    intro h0
    have h2 : k + 1 = cs.length := by
      by_cases h : k + 1 < cs.length
      · rw [← hr, if_pos h] at h0; omega
      · omega
    rw [← hsum, ← hsucc, h2]; simp [lo]
  have hfirst : a = 0 → lo cs k = 0 := by
    intro h0
    by_cases h : 0 < k
    · rw [← ha, if_pos h] at h0; omega
    · have : k = 0 := by omega
      subst this; simp [lo]
  have hfit : (lo cs k - a) + (a + cs.getD k 0 + r) ≤ x.length := by omega
  obtain ⟨hL, hR, hI⟩ := slice_local hK x (lo cs k - a) (a + cs.getD k 0 + r) hfit (by omega)
  generalize hE : (x.drop (lo cs k - a)).take (a + cs.getD k 0 + r) = E at hL hR hI ⊢
  have hElen : E.length = a + cs.getD k 0 + r := by rw [← hE]; simp only [List.length_take, List.length_drop]; omega
  have hKE := hK.1 E (by omega)
  apply List.ext_getElem?
  intro i
  simp only [List.getElem?_drop, List.getElem?_take, hKE, hElen]
  by_cases hi : i < cs.getD k 0
  · rw [if_pos (by omega), if_pos hi]
    by_cases hc1 : a = 0 ∧ i = 0
    · obtain ⟨h1, h2⟩ := hc1
      have := hL (by omega)
      rw [h1, h2, hfirst h1]
      exact this
    · by_cases hc2 : r = 0 ∧ i + 1 = cs.getD k 0
      · obtain ⟨h1, h2⟩ := hc2
        have := hR (by have := hlastr h1; omega)
        have e1 : a + cs.getD k 0 + r - 1 = a + i := by omega
        have e2 : x.length - 1 = lo cs k + i := by have := hlastr h1; omega
        rw [e1, e2] at this
        exact this
      · have := hI (a + i) (by omega) (by omega)
        rw [this]
        congr 1
        omega
  · rw [if_neg hi]
    by_cases h2 : a + i < a + cs.getD k 0 + r - r
    · omega
    · rw [if_neg h2]


theorem overlapBlocks_none (blks : List (List α)) :
    overlapBlocks (.none : Boundary α) 1 1 blks = overlapInternal 1 1 blks := by
  simp [overlapBlocks, boundaryBlocks, addsPieces, Boundary.kind, overlapTrimDepth, chunkTrim]

theorem guard_of_min {m : Nat} (hm1 : 1 ≤ m) (cs : List Nat) (n : Nat) (hne : cs ≠ []) (hsum : cs.sum = n)
    (hmin : ∀ c ∈ cs, m ≤ c) : Guard 1 1 cs n :=
  ⟨hne, hsum, fun c hc => by have := hmin c hc; omega⟩

/-- **the trimmed blocks of the chunked gradient are the blocks of the global gradient** -/
theorem gradientBlocks_eq_cut {m : Nat} {K : List γ → List β} (hK : EdgeLocal m K) (hm1 : 1 ≤ m)
    (cs : List Nat) (x : List γ) (hne : cs ≠ []) (hsum : cs.sum = x.length) (hmin : ∀ c ∈ cs, m ≤ c) :
    gradientBlocks cs K x = cut cs (K x) := by
  have hG := guard_of_min hm1 cs x.length hne hsum hmin
  apply List.ext_getElem?
  intro k
  by_cases hk : k < cs.length
  · rw [cut_getElem? cs _ k hk]
    unfold gradientBlocks pipelineBlocks trimInternal
    rw [overlapBlocks_none]
    simp only [overlapInternal, List.getElem?_mapIdx, List.getElem?_map, List.length_map, List.length_range,
      cut_length, List.getElem?_range hk, Option.map_some]
    rw [extBlock_slab cs x hG k hk]
    show some (trimBlock .none 1 1 cs.length k (K (slab cs x k))) = _
    rw [block_edge hK hm1 cs x hsum hmin k hk]
  · have h1 : (cut cs (K x)).length ≤ k := by rw [cut_length]; omega
    have h2 : (gradientBlocks cs K x).length ≤ k := by
      unfold gradientBlocks pipelineBlocks trimInternal
      rw [overlapBlocks_none]
      simp [overlapInternal, cut_length]; omega
    rw [List.getElem?_eq_none h1, List.getElem?_eq_none h2]

theorem min_le_length {m : Nat} (cs : List Nat) (n : Nat) (hne : cs ≠ []) (hsum : cs.sum = n)
    (hmin : ∀ c ∈ cs, m ≤ c) : m ≤ n := by
  cases cs with
  | nil => exact absurd rfl hne
  | cons c r =>
    have := hmin c (by simp)
    simp at hsum
    omega

/-- **the chunked gradient is the global gradient** -/
theorem gradientAxis_eq {m : Nat} {K : List γ → List β} (hK : EdgeLocal m K) (hm1 : 1 ≤ m)
    (cs : List Nat) (x : List γ) (hne : cs ≠ []) (hsum : cs.sum = x.length) (hmin : ∀ c ∈ cs, m ≤ c) :
    gradientAxis cs K x = K x := by
  unfold gradientAxis
  rw [gradientBlocks_eq_cut hK hm1 cs x hne hsum hmin]
  apply cut_flatten
  rw [hK.1 x (min_le_length cs x.length hne hsum hmin), hsum]

/-! ### coordinate-array spacing -/

theorem slab_zip (cs : List Nat) (f : List V) (coords : List C) (k : Nat) :
    slab cs (f.zip coords) k = (slab cs f k).zip (slab cs coords k) := by
  unfold slab
  simp only [List.zip, List.take_zipWith, List.drop_zipWith]

theorem slab_length_eq (cs : List Nat) (f : List V) (coords : List C) (h : coords.length = f.length) (k : Nat) :
    (slab cs coords k).length = (slab cs f k).length := by
  unfold slab
  simp only [List.length_take, List.length_drop, h]

/-- **what the kernel call of block `b` receives** -/
theorem blockInput_eq (cs : List Nat) (f : List V) (coords : List C) (hG : Guard 1 1 cs f.length)
    (hc : coords.length = f.length) (b : Nat) (hb : b < cs.length) :
    blockInput cs f coords b = some (extBlock 1 1 (cut cs (f.zip coords)) b) := by
  have hpos : ∀ c ∈ cs, 1 ≤ c := fun c h => by have := hG.2.2 c h; omega
  have hGz : Guard 1 1 cs (f.zip coords).length := by
    rw [List.length_zip, hc, Nat.min_self]; exact hG
  unfold blockInput blockValues
  rw [coordSlice_eq cs coords hpos b hb, extBlock_slab cs f hG b hb, extBlock_slab cs _ hGz b hb]
  simp only [slab_length_eq cs f coords hc b, if_true, slab_zip]

theorem mapM_some {δ ε : Type} (g : δ → Option ε) (h : δ → ε) :
    ∀ (l : List δ), (∀ b ∈ l, g b = some (h b)) → l.mapM g = some (l.map h)
  | [], _ => rfl
  | a :: r, hl => by
    rw [List.mapM_cons, hl a (by simp), mapM_some g h r (fun b hb => hl b (by simp [hb]))]
    rfl

theorem gradientCoordBlocks_eq (cs : List Nat) (K : List (V × C) → List β) (f : List V) (coords : List C)
    (hG : Guard 1 1 cs f.length) (hc : coords.length = f.length) :
    gradientCoordBlocks cs K f coords = some (gradientBlocks cs K (f.zip coords)) := by
  unfold gradientCoordBlocks
  rw [mapM_some _ (fun b => extBlock 1 1 (cut cs (f.zip coords)) b) _
    (fun b hb => blockInput_eq cs f coords hG hc b (by simpa using hb))]
  unfold gradientBlocks pipelineBlocks
  rw [overlapBlocks_none]
  simp only [overlapInternal, cut_length, List.map_map, Option.map_some]
  rfl

/-- **coordinate spacing: the chunked gradient is the global gradient of the samples `(f_i, x_i)`** -/
theorem gradientCoordAxis_eq {m : Nat} {K : List (V × C) → List β} (hK : EdgeLocal m K) (hm1 : 1 ≤ m)
    (cs : List Nat) (f : List V) (coords : List C) (hne : cs ≠ []) (hsum : cs.sum = f.length)
    (hc : coords.length = f.length) (hmin : ∀ c ∈ cs, m ≤ c) :
    gradientCoordAxis cs K f coords = some (K (f.zip coords)) := by
  have hG := guard_of_min hm1 cs f.length hne hsum hmin
  have hz : cs.sum = (f.zip coords).length := by rw [List.length_zip, hc, Nat.min_self]; exact hsum
  unfold gradientCoordAxis
  rw [gradientCoordBlocks_eq cs K f coords hG hc]
  have := gradientAxis_eq hK hm1 cs (f.zip coords) hne hz hmin
  unfold gradientAxis at this
  simp [this]

/-! ### the code's guard, and `overlap`'s rechunk under it -/

theorem chunkGuard_iff (eo : Nat) (cs : List Nat) :
    chunkGuard eo (cs.map Int.ofNat) = true ↔ ∀ c ∈ cs, eo + 1 ≤ c := by
  unfold chunkGuard
  simp only [List.all_eq_true, List.mem_map, Bool.not_eq_true', decide_eq_false_iff_not]
  constructor
  · intro h c hc
    have := h (Int.ofNat c) ⟨c, hc, rfl⟩
    simp at this
    omega
  · rintro h _ ⟨c, hc, rfl⟩
    have := h c hc
    simp
    omega


/-! ### the canonical kernel is in the class -/

theorem edgeKernel_eq (m : Nat) (c : γ → γ → γ → β) (L R : List γ → β) (e : List γ) (hm : 2 ≤ m)
    (he : m ≤ e.length) :
    edgeKernel m c L R e = [L (e.take m)] ++
      (List.zipWith (fun (pq : γ × γ) r => c pq.1 pq.2 r) (e.zip (e.drop 1)) (e.drop 2)) ++ [R (lastN m e)] := by
  unfold edgeKernel
  rw [if_neg (by omega)]

theorem mid_length (c : γ → γ → γ → β) (e : List γ) :
    (List.zipWith (fun (pq : γ × γ) r => c pq.1 pq.2 r) (e.zip (e.drop 1)) (e.drop 2)).length = e.length - 2 := by
  simp only [List.length_zipWith, List.length_zip, List.length_drop]
  omega

theorem mid_getElem? (c : γ → γ → γ → β) (e : List γ) (i : Nat) :
    (List.zipWith (fun (pq : γ × γ) r => c pq.1 pq.2 r) (e.zip (e.drop 1)) (e.drop 2))[i]? =
      match (window 3 e i)[0]?, (window 3 e i)[1]?, (window 3 e i)[2]? with
      | some p, some q, some r => some (c p q r)
      | _, _, _ => none := by
  simp only [window_getElem?, List.getElem?_zipWith, List.zip, List.getElem?_drop]
  simp only [show (0 : Nat) < 3 by omega, show (1 : Nat) < 3 by omega, show (2 : Nat) < 3 by omega, if_true,
    Nat.add_zero]
  rw [show 1 + i = i + 1 by omega, show 2 + i = i + 2 by omega]
  cases e[i]? <;> cases e[i + 1]? <;> cases e[i + 2]? <;> rfl

theorem edgeKernel_edgeLocal (m : Nat) (c : γ → γ → γ → β) (L R : List γ → β) (hm : 2 ≤ m) :
    EdgeLocal m (edgeKernel m c L R) := by
  refine ⟨?_, ?_, ?_, ?_⟩
  · intro e he
    rw [edgeKernel_eq m c L R e hm he]
    simp only [List.length_append, mid_length, List.length_singleton]
    omega
  · intro e e' i j he he' hi hj hw
    rw [edgeKernel_eq m c L R e hm he, edgeKernel_eq m c L R e' hm he']
    simp only [List.cons_append, List.nil_append, List.getElem?_cons_succ]
    rw [List.getElem?_append_left (by rw [mid_length]; omega),
      List.getElem?_append_left (by rw [mid_length]; omega), mid_getElem?, mid_getElem?, hw]
  · intro e e' he he' ht
    rw [edgeKernel_eq m c L R e hm he, edgeKernel_eq m c L R e' hm he', ht]
    simp
  · intro e e' he he' ht
    rw [edgeKernel_eq m c L R e hm he, edgeKernel_eq m c L R e' hm he', ht]
    have h1 : ([L (e.take m)] ++ List.zipWith (fun (pq : γ × γ) r => c pq.1 pq.2 r) (e.zip (e.drop 1)) (e.drop 2)).length
        = e.length - 1 := by
      simp only [List.length_append, mid_length, List.length_singleton]; omega
    have h2 : ([L (e'.take m)] ++ List.zipWith (fun (pq : γ × γ) r => c pq.1 pq.2 r) (e'.zip (e'.drop 1)) (e'.drop 2)).length
        = e'.length - 1 := by
      simp only [List.length_append, mid_length, List.length_singleton]; omega
    rw [List.getElem?_append_right (by omega), List.getElem?_append_right (by omega), h1, h2]
    simp

/-! ### `overlap`'s rechunk does nothing under the guard -/

theorem foldl_min_ge (b : Int) : ∀ (l : List Int) (a : Int), b ≤ a → (∀ c ∈ l, b ≤ c) → b ≤ l.foldl min a
  | [], _, h, _ => h
  | x :: xs, a, h, hl => by
    simp only [List.foldl_cons]
    exact foldl_min_ge b xs (min a x) (by have := hl x (by simp); omega) (fun c hc => hl c (by simp [hc]))

theorem rechunk_noop (chunks : List Int) (hne : chunks ≠ []) (h2 : ∀ c ∈ chunks, 2 ≤ c) :
    Dask.Window.overlapRechunkedChunks chunks 1 1 true = some chunks := by
  have hmin : (1 : Int) ≤ Dask.Window.lmin chunks := by
    cases chunks with
    | nil => exact absurd rfl hne
    | cons a r =>
      exact foldl_min_ge 1 r a (by have := h2 a (by simp); omega) (fun c hc => by have := h2 c (by simp [hc]); omega)
  unfold Dask.Window.overlapRechunkedChunks Dask.Window.ensureMinimumChunksize
  simp only [Int.max_self, if_pos hmin, if_true]
  have hlast : ∀ (l : List Int), l ≠ [] → (∀ c ∈ l, 2 ≤ c) → ¬ (l.getLastD 0 ≤ 1) := by
    intro l hl hc
    have : l.getLastD 0 ∈ l := by
      rw [List.getLastD_eq_getLast?, List.getLast?_eq_some_getLast hl]
      exact List.getLast_mem hl
    have := hc _ this
    omega
  match chunks, hne, h2, hlast chunks hne h2 with
  | [a], _, _, _ => simp
  | a :: b :: r, _, h2, hl =>
    have ha := h2 a (by simp)
    simp only [show ¬ a ≤ 1 by omega, if_false]
    rw [if_neg (fun h => hl h.2)]


/-! ### the seeded regression -/

def pos12 : List Int := [0, 1, 2, 3, 4, 5, 6, 7, 8, 9, 10, 11]
theorem witness_locs : arrayLocs [3, 5, 4] = some ([0, 2, 7], [4, 9, 12]) ∧
    arrayLocsUniformBug [3, 5, 4] = some ([0, 2, 5], [4, 9, 10]) ∧
    arrayLocsUniformBug [4, 4, 4] = arrayLocs [4, 4, 4] := by decide
theorem witness_slices :
    coordSliceWith (arrayLocs [3, 5, 4]) pos12 2 = some [7, 8, 9, 10, 11] ∧
    coordSliceWith (arrayLocsUniformBug [3, 5, 4]) pos12 2 = some [5, 6, 7, 8, 9] ∧
    blockValues [3, 5, 4] pos12 2 = [7, 8, 9, 10, 11] := by decide

/-! ### the minimum-chunk guard -/

/-- an integer kernel of the class with three-point ends -/
def kInt : List Int → List Int := edgeKernel 3 (fun a _ c => c - a) (fun l => l.sum) (fun l => 0 - l.sum)
def sq6 : List Int := [0, 1, 4, 9, 16, 25]

theorem witness_min_chunk : chunkGuard 2 [1, 5] = false ∧ gradientBlocks [1, 5] kInt sq6 = [[], [4, 8, 12, 16, -50]] ∧
    gradientAxis [1, 5] kInt sq6 ≠ kInt sq6 ∧
    chunkGuard 2 [2, 4] = false ∧ gradientAxis [2, 4] kInt sq6 = kInt sq6 := by decide

end Dask.Lemmas.Gradient
