/-
NumPy basic indexing facts used by the blockwise pushdown: an integer is the size-1 slice followed by the
`[0]` extraction (`extract_eq`), `sliceArr` respects `Arr.Equiv`, `takeArr` respects `Arr.Equiv`.
-/
import DaskArrayModel.Lemmas.BlockwiseGateBase
import DaskArrayModel.Lemmas.RulesSlice
namespace Dask.BWG
open Dask.Py Dask.Py.PySlice Dask.ND Dask.Slicing

/-- the slice an index item is pushed as -/
def toSl : Ix → PySlice
  | .int k => ⟨some k, some (k + 1), none⟩
  | .slc s => s

theorem intToSlice_eq (ix : Ix) : intToSlice ix = .slc (toSl ix) := by cases ix <;> rfl

theorem map_intToSlice (full : List Ix) : full.map intToSlice = (full.map toSl).map Ix.slc := by
  rw [List.map_map]; apply List.map_congr_left; intro ix _; exact intToSlice_eq ix

theorem toSl_colonIx : toSl colonIx = colon := rfl

theorem isColon_iff (ix : Ix) : isColon ix = true ↔ ix = colonIx := by
  cases ix with
  | int k => simp [isColon, colonIx]
  | slc s => simp [isColon, colonIx]

theorem sel_int (v : Int) (n : Nat) (h0 : 0 ≤ v) (h1 : v < n) :
    sel ⟨some v, some (v + 1), none⟩ n = [v] := by
  simp only [sel, istart, istop, stp, adjust, rangeList, rangeLen, Option.getD_none]
  have a1 : ¬ v < 0 := by omega
  have a2 : ¬ v + 1 < 0 := by omega
  have a3 : ¬ ((1 : Int) < 0) := by omega
  have b1 : ¬ (n : Int) < v := by omega
  have b2 : ¬ (n : Int) < v + 1 := by omega
  have c : v + 1 - v = 1 := by omega
  have d : v < v + 1 := by omega
  simp [a1, a2, a3, b1, b2, c, d]

/-- the index is admissible for the shape: one item per axis, integers in `[0, n)`, steps ≠ 0 -/
def FullOK : List Nat → List Ix → Prop
  | [], [] => True
  | n :: ns, .int v :: r => (0 ≤ v ∧ v < (n : Int)) ∧ FullOK ns r
  | _ :: ns, .slc s :: r => s.stp ≠ 0 ∧ FullOK ns r
  | _, _ => False

theorem FullOK.wfIx : ∀ {sh : List Nat} {full : List Ix}, FullOK sh full → wfIx sh full = true
  | [], [], _ => rfl
  | n :: ns, .int v :: r, h => by
    rw [wfIx_cons_int]; exact ⟨by have := h.1; omega, FullOK.wfIx h.2⟩
  | _ :: ns, .slc s :: r, h => by
    rw [wfIx_cons_slc]; exact ⟨h.1, FullOK.wfIx h.2⟩
  | [], _ :: _, h => h.elim
  | _ :: _, [], h => h.elim

theorem FullOK.length : ∀ {sh : List Nat} {full : List Ix}, FullOK sh full → full.length = sh.length
  | [], [], _ => rfl
  | n :: ns, .int v :: r, h => by simp [FullOK.length h.2]
  | _ :: ns, .slc s :: r, h => by simp [FullOK.length h.2]
  | [], _ :: _, h => h.elim
  | _ :: _, [], h => h.elim

theorem FullOK.of_getD : ∀ {sh : List Nat} {full : List Ix}, full.length = sh.length →
    (∀ k, k < full.length → match full.getD k colonIx with
      | .int v => 0 ≤ v ∧ v < (sh.getD k 0 : Int)
      | .slc s => s.stp ≠ 0) → FullOK sh full
  | [], [], _, _ => trivial
  | n :: ns, .int v :: r, hl, h => by
    refine ⟨by simpa using h 0 (by simp), ?_⟩
    apply FullOK.of_getD (by simpa using hl)
    intro k hk
    simpa using h (k + 1) (by simpa using hk)
  | n :: ns, .slc s :: r, hl, h => by
    refine ⟨by simpa using h 0 (by simp), ?_⟩
    apply FullOK.of_getD (by simpa using hl)
    intro k hk
    simpa using h (k + 1) (by simpa using hk)
  | [], _ :: _, hl, _ => by simp at hl
  | _ :: _, [], hl, _ => by simp at hl

/-- shape: size-1 slices then `[0]` extraction = the integers dropped -/
theorem extract_shape : ∀ (sh : List Nat) (full : List Ix), FullOK sh full →
    sliceShape (sliceShape sh (full.map intToSlice)) (full.map extractIx) = sliceShape sh full
  | [], [], _ => rfl
  | n :: ns, .int v :: r, h => by
    simp only [List.map_cons, intToSlice, extractIx, sliceShape]
    exact extract_shape ns r h.2
  | n :: ns, .slc s :: r, h => by
    simp only [List.map_cons, intToSlice, extractIx, sliceShape, colonIx]
    rw [extract_shape ns r h.2]
    have := sel_colon_length (sel s n).length
    simp only [colon] at this
    rw [this]
  | [], _ :: _, h => h.elim
  | _ :: _, [], h => h.elim

/-- positions: size-1 slices then `[0]` extraction read what the integer index reads -/
theorem extract_idx : ∀ (sh : List Nat) (full : List Ix) (i : List Nat), FullOK sh full →
    InB i (sliceShape sh full) →
    sliceIdx sh (full.map intToSlice)
      (sliceIdx (sliceShape sh (full.map intToSlice)) (full.map extractIx) i) = sliceIdx sh full i
  | [], [], _, _, _ => rfl
  | n :: ns, .int v :: r, i, h, hi => by
    simp only [List.map_cons, intToSlice, extractIx, sliceShape, sliceIdx] at hi ⊢
    rw [extract_idx ns r i h.2 hi, sel_int v n h.1.1 h.1.2]
    simp [posifyInt]
    have : ¬ v < 0 := by have := h.1.1; omega
    simp [this]
  | n :: ns, .slc s :: r, x :: i, h, hi => by
    simp only [List.map_cons, intToSlice, extractIx, sliceShape, sliceIdx, colonIx] at hi ⊢
    rw [extract_idx ns r i h.2 hi.2]
    have := sel_colon_getD (sel s n).length x hi.1
    simp only [colon] at this
    rw [this]
    simp
  | n :: ns, .slc s :: r, [], h, hi => by simp [sliceShape, InB] at hi
  | [], _ :: _, _, h, _ => h.elim
  | _ :: _, [], _, h, _ => h.elim

/-- `FullOK` of the extraction index on the size-1-sliced shape -/
theorem extract_ok : ∀ (sh : List Nat) (full : List Ix), FullOK sh full →
    FullOK (sliceShape sh (full.map intToSlice)) (full.map extractIx)
  | [], [], _ => trivial
  | n :: ns, .int v :: r, h => by
    simp only [List.map_cons, intToSlice, extractIx, sliceShape]
    rw [sel_int v n h.1.1 h.1.2]
    exact ⟨by simp, extract_ok ns r h.2⟩
  | n :: ns, .slc s :: r, h => by
    simp only [List.map_cons, intToSlice, extractIx, sliceShape, colonIx]
    exact ⟨by decide, extract_ok ns r h.2⟩
  | [], _ :: _, h => h.elim
  | _ :: _, [], h => h.elim

theorem sliceArr_congr (a a' : Arr Int) (ixs : List Ix) (hE : Arr.Equiv a a') (hw : wfIx a.shape ixs = true) :
    Arr.Equiv (sliceArr a ixs) (sliceArr a' ixs) := by
  refine ⟨by simp [sliceArr, hE.1], ?_⟩
  intro i hi
  simp only [sliceArr] at hi ⊢
  rw [← hE.1]
  exact hE.2 _ (sliceIdx_inB a.shape ixs i hw hi)

/-- **An integer index is the size-1 slice followed by `[0]`.** -/
theorem extract_eq (y : Arr Int) (full : List Ix) (h : FullOK y.shape full) :
    Arr.Equiv (sliceArr (sliceArr y (full.map intToSlice)) (full.map extractIx)) (sliceArr y full) := by
  refine ⟨extract_shape y.shape full h, ?_⟩
  intro i hi
  simp only [sliceArr] at hi ⊢
  rw [extract_shape y.shape full h] at hi
  rw [extract_idx y.shape full i h hi]

theorem map_intToSlice_noInt : ∀ (full : List Ix), full.any isInt = false → full.map intToSlice = full
  | [], _ => rfl
  | .int _ :: _, h => by simp [isInt] at h
  | .slc s :: r, h => by
    simp only [List.any_cons, isInt, Bool.false_or] at h
    simp only [List.map_cons, intToSlice, map_intToSlice_noInt r h]

theorem takeArr_congr (a a' : Arr Int) (axis : Nat) (flat : List Nat) (hE : Arr.Equiv a a')
    (hax : axis < a.shape.length) (hf : ∀ p ∈ flat, p < a.shape.getD axis 0) :
    Arr.Equiv (takeArr a axis flat) (takeArr a' axis flat) := by
  refine ⟨by simp [takeArr, hE.1], ?_⟩
  intro i hi
  simp only [takeArr] at hi ⊢
  apply hE.2
  have hil := InB.length_eq hi
  simp only [List.length_set] at hil
  apply InB.of_getD (by simp [hil])
  intro k hk
  have hik := InB.getD_lt hi k (by simpa using hk)
  by_cases e : axis = k
  · subst e
    rw [getD_set_eq _ _ _ _ (by omega)]
    rw [getD_set_eq _ _ _ _ hk] at hik
    exact hf _ (getD_mem _ _ _ hik)
  · rw [getD_set_ne _ _ _ _ _ e]
    rw [getD_set_ne _ _ _ _ _ e] at hik
    exact hik

end Dask.BWG
