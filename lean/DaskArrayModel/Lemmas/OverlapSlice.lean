/-
Lemmas for the slice-through-map_overlap rule (Model/OverlapSlice.lean), one axis.

* `getSl_unit`: a unit-step slice of a list is `drop`/`take`;
* `padB_getElem?`: the boundary extension as an index map (`padAt`), for the five kinds;
* `padAt_shift`: the windows read by the output positions of the requested slice are the same in the extension
  of the whole axis and in the extension of the expanded sub-array (this is where the periodic guard is used);
* `accept_sound_1d`: the rewritten expression denotes the slice of the original;
* `acceptAxis_decline_iff`: when the rule declines.
Core Lean only.
-/
import DaskArrayModel.Model.OverlapSlice
import DaskArrayModel.Lemmas.SliceAlgebra
namespace Dask.Lemmas.OverlapSlice
open Dask.Py Dask.Py.PySlice Dask.OverlapSlice Dask.Lemmas.SliceAlgebra

variable {α β γ : Type}


theorem filterMap_range_get (x : List α) (a : Nat) :
    ∀ L, a + L ≤ x.length → (List.range L).filterMap (fun i => x[a + i]?) = (x.drop a).take L := by
  intro L
  induction L with
  | zero => intro _; simp
  | succ L ih =>
    intro h
    rw [List.range_succ, List.filterMap_append, ih (by omega), List.take_add_one]
    congr 1
    have : a + L < x.length := by omega
    simp [List.getElem?_drop, List.getElem?_eq_getElem this]

theorem rangeLen_one (a b : Int) : rangeLen a b 1 = (b - a).toNat := by
  unfold rangeLen
  simp
  omega

theorem getSl_unit (s : PySlice) (x : List α) (h1 : s.stp = 1) :
    getSl s x = (x.drop (s.istart x.length).toNat).take
      ((s.istop x.length).toNat - (s.istart x.length).toNat) := by
  have hn : (0 : Int) ≤ x.length := Int.natCast_nonneg _
  have ha := Dask.Lemmas.SliceAlgebra.istart_pos_bounds s x.length hn (by omega)
  have hb := Dask.Lemmas.SliceAlgebra.istop_pos_bounds s x.length hn (by omega)
  unfold getSl sel rangeList
  rw [h1, rangeLen_one, List.filterMap_map]
  generalize s.istart x.length = a at *
  generalize s.istop x.length = b at *
  have e : ((fun (i : Int) => x[i.toNat]?) ∘ fun (i : Nat) => a + (i : Int) * 1) = fun i => x[a.toNat + i]? := by
    funext i
    simp only [Function.comp]
    congr 1
    omega
  rw [e]
  by_cases hab : a ≤ b
  · rw [filterMap_range_get x a.toNat (b - a).toNat (by omega)]
    congr 1
    omega
  · have : (b - a).toNat = 0 := by omega
    rw [this]
    have : b.toNat - a.toNat = 0 := by omega
    rw [this]
    simp


def padAt (b : Boundary α) (dl dr : Nat) (x : List α) (p : Nat) : Option (Option α) :=
  if p < dl then
    match b with
    | .none => some none
    | .constant c => some (some c)
    | .nearest => x[0]?.map some
    | .reflect => x[dl - 1 - p]?.map some
    | .periodic => x[x.length - dl + p]?.map some
  else if p < dl + x.length then x[p - dl]?.map some
  else if p < dl + x.length + dr then
    match b with
    | .none => some none
    | .constant c => some (some c)
    | .nearest => x[x.length - 1]?.map some
    | .reflect => x[x.length - 1 - (p - dl - x.length)]?.map some
    | .periodic => x[p - dl - x.length]?.map some
  else none

theorem padB_none_get (dl dr : Nat) (x : List α) (p : Nat) :
    (padB .none dl dr x)[p]? = padAt .none dl dr x p := by
  unfold padB padAt
  simp only [List.getElem?_append, List.getElem?_replicate, List.length_replicate, List.length_append, List.getElem?_map]
  grind

theorem padB_const_get (c : α) (dl dr : Nat) (x : List α) (p : Nat) :
    (padB (.constant c) dl dr x)[p]? = padAt (.constant c) dl dr x p := by
  unfold padB padAt
  simp only [List.getElem?_append, List.getElem?_replicate, List.length_replicate, List.length_append, List.getElem?_map]
  grind

theorem padB_periodic_get (dl dr : Nat) (x : List α) (hl : dl ≤ x.length) (_hr : dr ≤ x.length) (p : Nat) :
    (padB .periodic dl dr x)[p]? = padAt .periodic dl dr x p := by
  unfold padB padAt
  simp only [List.getElem?_append, List.getElem?_map, List.length_append, List.length_drop, List.getElem?_drop, List.getElem?_take]
  grind

theorem padB_reflect_get (dl dr : Nat) (x : List α) (hl : dl ≤ x.length) (hr : dr ≤ x.length) (p : Nat) :
    (padB .reflect dl dr x)[p]? = padAt .reflect dl dr x p := by
  unfold padB padAt
  simp only [List.getElem?_append, List.getElem?_map, List.length_append, List.length_reverse, List.length_take]
  grind




theorem padB_nearest_get (dl dr : Nat) (x : List α) (hl : dl ≤ x.length) (hr : dr ≤ x.length) (p : Nat) :
    (padB .nearest dl dr x)[p]? = padAt .nearest dl dr x p := by
  unfold padB padAt
  by_cases hx : x = []
  · subst hx
    simp at hl hr
    subst hl; subst hr
    simp
  · have h1 : x.take 1 = [x[0]'(List.length_pos_iff.mpr hx)] := by
      cases x with
      | nil => exact absurd rfl hx
      | cons a t => simp
    have h2 : x.drop (x.length - 1) = [x[x.length - 1]'(by have := List.length_pos_iff.mpr hx; omega)] := by
      have hp := List.length_pos_iff.mpr hx
      rw [List.drop_eq_getElem_cons (by omega)]
      have : x.length - 1 + 1 = x.length := by omega
      rw [this, List.drop_length]
    rw [h1, h2]
    simp only [List.flatMap_cons, List.flatMap_nil, List.append_nil, List.getElem?_append, List.getElem?_map, List.length_append, List.getElem?_replicate, List.length_replicate]
    have := List.length_pos_iff.mpr hx
    grind



theorem padAt_shift (b : Boundary α) (dl dr : Nat) (x : List α) (s e es ee j t : Nat)
    (he : e ≤ x.length) (hj : s + j < e) (ht : t ≤ dl + dr)
    (hes : es = s - dl) (hee : ee = min x.length (e + dr))
    (hl : dl ≤ ee - es) (hr : dr ≤ ee - es)
    (hper : b.kind = .periodic → (dl = 0 ∧ dr = 0) ∨ (es ≠ 0 ∧ ee ≠ x.length)) :
    padAt b dl dr x (s + j + t) = padAt b dl dr ((x.drop es).take (ee - es)) (s - es + j + t) := by
  have hlen : ((x.drop es).take (ee - es)).length = ee - es := by
    simp only [List.length_take, List.length_drop]; omega
  unfold padAt
  rw [hlen]
  simp only [List.getElem?_take, List.getElem?_drop]
  cases b with
  | none => simp only []; grind
  | constant c => simp only []; grind
  | nearest => simp only []; grind
  | reflect => simp only []; grind
  | periodic =>
    have := hper rfl
    simp only []; grind


/-- inversion of `acceptAxis`: the three ways it fires -/
theorem acceptAxis_ok {n dl dr : Int} {bk : BKind} {al : Bool} {idx inp trim : PySlice} {t : Bool}
    (h : acceptAxis n dl dr bk al idx = .ok inp trim t) :
    (idx = colon ∧ inp = colon ∧ trim = colon ∧ t = false) ∨
    (idx ≠ colon ∧ idx.stp = 1 ∧ max dl dr = 0 ∧ inp = idx ∧ trim = colon ∧ t = false) ∨
    (idx ≠ colon ∧ idx.stp = 1 ∧ max dl dr ≠ 0 ∧ al = true ∧
      ¬ (bk = .periodic ∧ (max 0 (idx.istart n - dl) = 0 ∨ min n (idx.istop n + dr) = n)) ∧
      max dl dr ≤ min n (idx.istop n + dr) - max 0 (idx.istart n - dl) ∧
      ¬ (bk = .none ∧ min n (idx.istop n + dr) - max 0 (idx.istart n - dl) ≤ dl + dr) ∧
      inp = ⟨some (max 0 (idx.istart n - dl)), some (min n (idx.istop n + dr)), none⟩ ∧
      trim = ⟨if idx.istart n - max 0 (idx.istart n - dl) = 0 then none
                else some (idx.istart n - max 0 (idx.istart n - dl)),
              some (idx.istart n - max 0 (idx.istart n - dl) + (idx.istop n - idx.istart n)), none⟩ ∧
      t = true) := by
  unfold acceptAxis at h
  simp only at h
  split at h
  · left
    rename_i hc
    simp only [AxisRes.ok.injEq] at h
    obtain ⟨rfl, rfl, rfl⟩ := h
    exact ⟨hc, rfl, rfl, rfl⟩
  · right
    split at h
    · simp at h
    · split at h
      · left; simp_all
      · right
        split at h
        · simp at h
        · split at h
          · simp at h
          · split at h
            · simp at h
            · split at h
              · simp at h
              · simp only [AxisRes.ok.injEq] at h
                simp_all


theorem padB_getElem? (b : Boundary α) (dl dr : Nat) (x : List α) (hl : dl ≤ x.length)
    (hr : dr ≤ x.length) (p : Nat) : (padB b dl dr x)[p]? = padAt b dl dr x p := by
  cases b with
  | none => exact padB_none_get dl dr x p
  | constant c => exact padB_const_get c dl dr x p
  | nearest => exact padB_nearest_get dl dr x hl hr p
  | reflect => exact padB_reflect_get dl dr x hl hr p
  | periodic => exact padB_periodic_get dl dr x hl hr p

theorem padB_length (b : Boundary α) (dl dr : Nat) (x : List α) (hl : dl ≤ x.length)
    (hr : dr ≤ x.length) : (padB b dl dr x).length = dl + x.length + dr := by
  cases b with
  | none => simp [padB]; omega
  | constant c => simp [padB]; omega
  | reflect => simp [padB]; omega
  | periodic => simp [padB]; omega
  | nearest =>
    cases x with
    | nil => simp at hl hr; subst hl; subst hr; simp [padB]
    | cons a t =>
      have h2 : (a :: t).drop ((a :: t).length - 1) = [(a :: t)[(a :: t).length - 1]'(by simp)] := by
        rw [List.drop_eq_getElem_cons (by simp)]
        have : (a :: t).length - 1 + 1 = (a :: t).length := by simp
        rw [this, List.drop_length]
      unfold padB
      rw [h2]
      simp
      omega

theorem window_getElem? (w : Nat) (e : List γ) (i t : Nat) :
    (window w e i)[t]? = if t < w then e[i + t]? else none := by
  unfold window
  simp [List.getElem?_take, List.getElem?_drop]

/-- two stretches of outputs of a window-local function agree when the windows they read agree -/
theorem winLocal_transfer {dl dr : Nat} {g : List γ → List β} (hg : WinLocal dl dr g)
    (E E' : List γ) (s s' L : Nat)
    (h1 : s + L + (dl + dr) ≤ E.length) (h2 : s' + L + (dl + dr) ≤ E'.length)
    (hw : ∀ j, j < L → window (dl + dr + 1) E (s + j) = window (dl + dr + 1) E' (s' + j)) :
    ((g E).drop s).take L = ((g E').drop s').take L := by
  apply List.ext_getElem?
  intro j
  simp only [List.getElem?_take, List.getElem?_drop]
  by_cases hj : j < L
  · simp only [hj, if_true]
    exact hg.2 E E' (s + j) (s' + j) (by omega) (by omega) (hw j hj)
  · simp [hj]

theorem getSl_colon (z : List α) : getSl colon z = z := by
  rw [getSl_unit colon z (by decide)]
  simp [colon, istart, istop, stp]



theorem istart_mk (a : Int) (b c : Option Int) (m : Int) (h0 : 0 ≤ a) (hc : stp ⟨some a, b, c⟩ = 1) :
    istart ⟨some a, b, c⟩ m = min a m := by
  unfold istart
  simp only [hc]
  rw [show decide ((1:Int) < 0) = false by decide, adjust_false_nonneg a m h0]
  split <;> omega

theorem istop_mk (a : Option Int) (b : Int) (c : Option Int) (m : Int) (h0 : 0 ≤ b) (hc : stp ⟨a, some b, c⟩ = 1) :
    istop ⟨a, some b, c⟩ m = min b m := by
  unfold istop
  simp only [hc]
  rw [show decide ((1:Int) < 0) = false by decide, adjust_false_nonneg b m h0]
  split <;> omega

/-- the windows read by the outputs `[s, e)` are the same in the extension of the whole axis and in the
extension of the expanded sub-array -/
theorem window_shift (b : Boundary α) (dl dr : Nat) (x : List α) (s e es ee j : Nat)
    (he : e ≤ x.length) (hj : s + j < e)
    (hes : es = s - dl) (hee : ee = min x.length (e + dr))
    (hl : dl ≤ ee - es) (hr : dr ≤ ee - es)
    (hper : b.kind = .periodic → (dl = 0 ∧ dr = 0) ∨ (es ≠ 0 ∧ ee ≠ x.length)) :
    window (dl + dr + 1) (padB b dl dr x) (s + j) =
      window (dl + dr + 1) (padB b dl dr ((x.drop es).take (ee - es))) (s - es + j) := by
  have hlen : ((x.drop es).take (ee - es)).length = ee - es := by
    simp only [List.length_take, List.length_drop]; omega
  apply List.ext_getElem?
  intro t
  rw [window_getElem?, window_getElem?]
  by_cases ht : t < dl + dr + 1
  · simp only [ht, if_true]
    rw [padB_getElem? b dl dr x (by omega) (by omega),
      padB_getElem? b dl dr _ (by omega) (by omega)]
    exact padAt_shift b dl dr x s e es ee j t he hj (by omega) hes hee hl hr hper
  · simp [ht]



/-- the heart of the rule on natural numbers: outputs `[s, e)` over the whole axis are outputs
`[s - es, e - es)` over the expanded sub-array `x[es:ee]`. -/
theorem slice_push_core {dl dr : Nat} {g : List (Option α) → List β} (hg : WinLocal dl dr g)
    (b : Boundary α) (x : List α) (s e es ee : Nat)
    (he : e ≤ x.length)
    (hes : es = s - dl) (hee : ee = min x.length (e + dr))
    (hl : dl ≤ ee - es) (hr : dr ≤ ee - es)
    (hper : b.kind = .periodic → (dl = 0 ∧ dr = 0) ∨ (es ≠ 0 ∧ ee ≠ x.length)) :
    ((g (padB b dl dr x)).drop s).take (e - s) =
      ((g (padB b dl dr ((x.drop es).take (ee - es)))).drop (s - es)).take (e - s) := by
  by_cases hse : s < e
  · have hlen : ((x.drop es).take (ee - es)).length = ee - es := by
      simp only [List.length_take, List.length_drop]; omega
    apply winLocal_transfer hg
    · rw [padB_length b dl dr x (by omega) (by omega)]; omega
    · rw [padB_length b dl dr _ (by omega) (by omega), hlen]; omega
    · intro j hj
      exact window_shift b dl dr x s e es ee j he (by omega) hes hee hl hr hper
  · have : e - s = 0 := by omega
    simp [this]

theorem trim_take (z : List β) (ts te : Int) (h0 : 0 ≤ ts) (h1 : 0 ≤ te) :
    getSl ⟨if ts = 0 then none else some ts, some te, none⟩ z =
      (z.drop (min ts z.length).toNat).take ((min te z.length).toNat - (min ts z.length).toNat) := by
  have hn : (0 : Int) ≤ z.length := Int.natCast_nonneg _
  rw [getSl_unit _ z rfl, istop_mk _ te _ _ h1 rfl]
  by_cases hz : ts = 0
  · subst hz
    have e0 : (min (0 : Int) z.length).toNat = 0 := by omega
    rw [e0]
    simp [istart, stp]
  · simp only [hz, if_false]
    rw [istart_mk ts _ _ _ h0 rfl]

theorem accept_sound_1d (g : List (Option α) → List β) (dl dr : Nat) (hg : WinLocal dl dr g)
    (b : Boundary α) (x : List α) (al : Bool) (idx inp trim : PySlice) (t : Bool)
    (h : acceptAxis x.length dl dr b.kind al idx = .ok inp trim t) :
    getSl idx (mapOverlap1 g b dl dr x) = getSl trim (mapOverlap1 g b dl dr (getSl inp x)) := by
  unfold mapOverlap1
  have hn : (0 : Int) ≤ x.length := Int.natCast_nonneg _
  rcases acceptAxis_ok h with ⟨rfl, rfl, rfl, -⟩ | ⟨-, h1, hmax, rfl, rfl, -⟩ |
    ⟨-, h1, hmax, -, hper, hfit, -, rfl, rfl, -⟩
  · simp only [getSl_colon]
  · -- no overlap on this axis: the slice is pushed as it is
    have hS := istart_pos_bounds inp x.length hn (by omega)
    have hE := istop_pos_bounds inp x.length hn (by omega)
    obtain ⟨s, hs⟩ := Int.eq_ofNat_of_zero_le hS.1
    obtain ⟨e, he⟩ := Int.eq_ofNat_of_zero_le hE.1
    have hdl : dl = 0 := by omega
    have hdr : dr = 0 := by omega
    subst hdl; subst hdr
    have hy : getSl inp x = (x.drop s).take (min x.length (e + 0) - s) := by
      rw [getSl_unit inp x h1, hs, he]
      simp only [Int.toNat_natCast]
      congr 1
      omega
    have hylen : ((x.drop s).take (min x.length (e + 0) - s)).length = e - s := by
      simp only [List.length_take, List.length_drop]; omega
    have hlen0 : (g (padB b 0 0 x)).length = x.length := by
      rw [hg.1, padB_length b 0 0 x (by omega) (by omega)]; omega
    have hlen1 : (g (padB b 0 0 ((x.drop s).take (min x.length (e + 0) - s)))).length = e - s := by
      rw [hg.1, padB_length b 0 0 _ (by omega) (by omega), hylen]; omega
    rw [getSl_colon, hy, getSl_unit inp _ h1, hlen0, hs, he]
    simp only [Int.toNat_natCast]
    rw [slice_push_core hg b x s e s (min x.length (e + 0)) (by omega) (by omega) rfl (by omega) (by omega)
      (fun _ => Or.inl ⟨rfl, rfl⟩)]
    simp only [Nat.sub_self, List.drop_zero]
    exact List.take_of_length_le (by omega)
  · have hS := istart_pos_bounds idx x.length hn (by omega)
    have hE := istop_pos_bounds idx x.length hn (by omega)
    obtain ⟨s, hs⟩ := Int.eq_ofNat_of_zero_le hS.1
    obtain ⟨e, he⟩ := Int.eq_ofNat_of_zero_le hE.1
    rw [hs, he] at hper hfit
    rw [hs, he]
    obtain ⟨es, hes⟩ : ∃ es, es = s - dl := ⟨_, rfl⟩
    obtain ⟨ee, hee⟩ : ∃ ee, ee = min x.length (e + dr) := ⟨_, rfl⟩
    have hes' : max 0 ((s : Int) - dl) = (es : Int) := by omega
    have hee' : min (x.length : Int) ((e : Int) + dr) = (ee : Int) := by omega
    rw [hes', hee'] at hper hfit
    rw [hes', hee']
    have hy : getSl ⟨some (es : Int), some (ee : Int), none⟩ x = (x.drop es).take (ee - es) := by
      rw [getSl_unit _ x rfl, istart_mk _ _ _ _ (by omega) rfl, istop_mk _ _ _ _ (by omega) rfl]
      have e1 : (min (es : Int) x.length).toNat = es := by omega
      have e2 : (min (ee : Int) x.length).toNat = ee := by omega
      rw [e1, e2]
    have hylen : ((x.drop es).take (ee - es)).length = ee - es := by
      simp only [List.length_take, List.length_drop]; omega
    have hlen0 : (g (padB b dl dr x)).length = x.length := by
      rw [hg.1, padB_length b dl dr x (by omega) (by omega)]; omega
    have hlen1 : (g (padB b dl dr ((x.drop es).take (ee - es)))).length = ee - es := by
      rw [hg.1, padB_length b dl dr _ (by omega) (by omega), hylen]; omega
    rw [hy, getSl_unit idx _ h1, hlen0, hs, he, trim_take _ _ _ (by omega) (by omega), hlen1]
    simp only [Int.toNat_natCast]
    rw [slice_push_core hg b x s e es ee (by omega) hes hee (by omega) (by omega)
      (by intro hk; right; constructor <;> (intro hc; apply hper; exact ⟨hk, by omega⟩))]
    by_cases hse : s < e
    · have e1 : (min ((s : Int) - es) ((ee - es : Nat) : Int)).toNat = s - es := by omega
      have e2 : (min ((s : Int) - es + ((e : Int) - s)) ((ee - es : Nat) : Int)).toNat = e - es := by omega
      rw [e1, e2]
      congr 1
      omega
    · have h1 : e - s = 0 := by omega
      rw [h1]
      have h2 : (min ((s : Int) - es + ((e : Int) - s)) ((ee - es : Nat) : Int)).toNat -
          (min ((s : Int) - es) ((ee - es : Nat) : Int)).toNat = 0 := by omega
      rw [h2]
      simp



theorem stencil_winLocal (k : List γ → β) (dl dr : Nat) : WinLocal dl dr (stencil k dl dr) := by
  constructor
  · intro e; simp [stencil]
  · intro e e' i j hi hj hw
    unfold stencil
    simp only [List.getElem?_map]
    rw [List.getElem?_range (by omega), List.getElem?_range (by omega)]
    simp [hw]

theorem acceptAxis_decline_iff (n dl dr : Int) (bk : BKind) (al : Bool) (idx : PySlice) :
    acceptAxis n dl dr bk al idx = .decline ↔
      idx ≠ colon ∧
      (idx.stp ≠ 1 ∨
        (max dl dr ≠ 0 ∧
          (al = false ∨
           (bk = .periodic ∧ (max 0 (idx.istart n - dl) = 0 ∨ min n (idx.istop n + dr) = n)) ∨
           max dl dr > min n (idx.istop n + dr) - max 0 (idx.istart n - dl) ∨
           (bk = .none ∧ min n (idx.istop n + dr) - max 0 (idx.istart n - dl) ≤ dl + dr)))) := by
  unfold acceptAxis
  simp only
  split
  · simp_all
  · split
    · simp_all
    · split
      · simp_all
      · split
        · simp_all
        · split
          · simp_all
          · split
            · simp_all
            · split
              · simp_all
              · simp_all



/-- moving sum of the present entries (a halo-reading kernel) -/
def ksum (w : List (Option Int)) : Int := w.foldl (fun a o => a + o.getD 0) 0

def xs20 : List Int := (List.range 20).map (fun (i : Nat) => (i : Int))

theorem requested_guard_fires :
    acceptAxisRequestedGuard 20 2 2 .periodic true ⟨some 1, some 7, none⟩ =
      .ok ⟨some 0, some 9, none⟩ ⟨some 1, some 7, none⟩ true := by decide

theorem requested_guard_wrong :
    getSl ⟨some 1, some 7, none⟩ (mapOverlap1 (stencil ksum 2 2) .periodic 2 2 xs20) ≠
      getSl ⟨some 1, some 7, none⟩
        (mapOverlap1 (stencil ksum 2 2) .periodic 2 2 (getSl ⟨some 0, some 9, none⟩ xs20)) := by decide +kernel

theorem real_guard_declines :
    acceptAxis 20 2 2 .periodic true ⟨some 1, some 7, none⟩ = .decline := by decide



/-- the per-axis call made by the loop of `_accept_slice` for `axis` -/
def axisCall (nd : Node) (axis : Nat) (idx : PySlice) : AxisRes :=
  acceptAxis (nd.shape.getD axis 0) (nd.depth.getD axis (0, 0)).1 (nd.depth.getD axis (0, 0)).2
    (nd.bkind.getD axis .none) nd.allowRechunk idx

/-- `full_index` as the loop reads it -/
def fullIndex (nd : Node) (index : List Ix) : List PySlice :=
  (index.map Ix.toSlice ++ List.replicate (nd.shape.length - index.length) colon).take nd.shape.length

theorem acceptLoop_none_iff (nd : Node) : ∀ (l : List PySlice) (axis : Nat),
    acceptLoop nd axis l = none ↔ ∃ i, ∃ h : i < l.length, axisCall nd (axis + i) l[i] = .decline := by
  intro l
  induction l with
  | nil => intro axis; simp [acceptLoop]
  | cons idx rest ih =>
    intro axis
    unfold acceptLoop
    change (match axisCall nd axis idx with
      | .decline => none
      | .ok inp trim t => match acceptLoop nd (axis + 1) rest with
        | none => none
        | some (is, ts, b) => some (inp :: is, trim :: ts, t || b)) = none ↔ _
    cases hc : axisCall nd axis idx with
    | decline =>
      simp only [true_iff]
      exact ⟨0, by simp, by simpa using hc⟩
    | ok inp trim t =>
      simp only
      constructor
      · intro h
        have hr : acceptLoop nd (axis + 1) rest = none := by
          cases hl : acceptLoop nd (axis + 1) rest with
          | none => rfl
          | some v => rw [hl] at h; simp at h
        obtain ⟨i, hi, hd⟩ := (ih (axis + 1)).mp hr
        refine ⟨i + 1, by simp; omega, ?_⟩
        have : axis + (i + 1) = axis + 1 + i := by omega
        simpa [this] using hd
      · rintro ⟨i, hi, hd⟩
        cases i with
        | zero => simp [hc] at hd
        | succ i =>
          have hr : acceptLoop nd (axis + 1) rest = none := by
            apply (ih (axis + 1)).mpr
            refine ⟨i, by simp at hi; omega, ?_⟩
            have : axis + (i + 1) = axis + 1 + i := by omega
            simpa [this] using hd
          rw [hr]

theorem acceptLoop_some (nd : Node) : ∀ (l : List PySlice) (axis : Nat) (is ts : List PySlice) (b : Bool),
    acceptLoop nd axis l = some (is, ts, b) →
      is.length = l.length ∧ ts.length = l.length ∧
      ∀ i, ∀ h : i < l.length, ∃ t, axisCall nd (axis + i) l[i] = .ok (is.getD i colon) (ts.getD i colon) t := by
  intro l
  induction l with
  | nil =>
    intro axis is ts b h
    simp [acceptLoop] at h
    obtain ⟨rfl, rfl, -⟩ := h
    simp
  | cons idx rest ih =>
    intro axis is ts b h
    unfold acceptLoop at h
    change (match axisCall nd axis idx with
      | .decline => none
      | .ok inp trim t => match acceptLoop nd (axis + 1) rest with
        | none => none
        | some (is, ts, b) => some (inp :: is, trim :: ts, t || b)) = some (is, ts, b) at h
    cases hc : axisCall nd axis idx with
    | decline => rw [hc] at h; simp at h
    | ok inp trim t =>
      rw [hc] at h
      simp only at h
      cases hl : acceptLoop nd (axis + 1) rest with
      | none => rw [hl] at h; simp at h
      | some v =>
        obtain ⟨is', ts', b'⟩ := v
        rw [hl] at h
        simp only [Option.some.injEq, Prod.mk.injEq] at h
        obtain ⟨rfl, rfl, -⟩ := h
        obtain ⟨h1, h2, h3⟩ := ih (axis + 1) is' ts' b' hl
        refine ⟨by simp [h1], by simp [h2], ?_⟩
        intro i hi
        cases i with
        | zero => exact ⟨t, by simpa using hc⟩
        | succ i =>
          obtain ⟨t', ht'⟩ := h3 i (by simp at hi; omega)
          refine ⟨t', ?_⟩
          have : axis + (i + 1) = axis + 1 + i := by omega
          simpa [this] using ht'

theorem accept_decline_iff (nd : Node) (index : List Ix) :
    accept nd index = .decline ↔
      index.any Ix.isNewaxis = true ∨ index.any Ix.isInt = true ∨ nd.nArrays ≠ 1 ∨ nd.posAware = true ∨
      ∃ axis, ∃ h : axis < (fullIndex nd index).length,
        axisCall nd axis (fullIndex nd index)[axis] = .decline := by
  unfold accept
  simp only
  split
  · simp_all
  · split
    · simp_all
    · split
      · simp_all
      · split
        · simp_all
        · rename_i h1 h2 h3 h4
          have := acceptLoop_none_iff nd (fullIndex nd index) 0
          simp only [Nat.zero_add] at this
          change (match acceptLoop nd 0 (fullIndex nd index) with
            | none => Res.decline
            | some (is, ts, needsTrim) => Res.ok is (if needsTrim then some ts else none)) = Res.decline ↔ _
          cases hl : acceptLoop nd 0 (fullIndex nd index) with
          | none =>
            simp only [true_iff]
            right; right; right; right
            exact this.mp hl
          | some v =>
            obtain ⟨is, ts, b⟩ := v
            simp only [reduceCtorEq, false_iff]
            intro hh
            rcases hh with hh | hh | hh | hh | hh
            · exact h1 hh
            · exact h2 hh
            · exact h3 hh
            · exact h4 hh
            · rw [this.mpr hh] at hl; simp at hl


end Dask.Lemmas.OverlapSlice
